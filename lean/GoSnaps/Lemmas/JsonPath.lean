/-
Lemmas about the JSON path model (GoSnaps/JsonPath.lean): positions (`getAt` / `replaceAt`), labels,
the lookups `loc` / `locS`, token ranges and byte offsets.  Used by Props/C16Json.lean.
-/
import GoSnaps.JsonPath
import GoSnaps.Lemmas.Json
import GoSnaps.Lemmas.Update
namespace GoSnaps.JsonPath
open GoSnaps GoSnaps.Json

/-! ## 1. positions -/

@[simp] theorem getAt_nil (v : JV) : getAt v [] = some v := by cases v <;> rfl

@[simp] theorem replaceAt_nil (v w : JV) : replaceAt v [] w = some w := by cases v <;> rfl

theorem getAt_arr (xs : List JV) (i : Nat) (p : Pos) :
    getAt (.arr xs) (i :: p) = (xs[i]?).bind fun x => getAt x p := rfl

theorem getAt_obj (ms : List (Text × JV)) (i : Nat) (p : Pos) :
    getAt (.obj ms) (i :: p) = (ms[i]?).bind fun m => getAt m.2 p := rfl

theorem replaceAt_arr (xs : List JV) (i : Nat) (p : Pos) (w : JV) :
    replaceAt (.arr xs) (i :: p) w = (xs[i]?).bind fun x => (replaceAt x p w).map fun x' => .arr (xs.set i x') := rfl

theorem replaceAt_obj (ms : List (Text × JV)) (i : Nat) (p : Pos) (w : JV) :
    replaceAt (.obj ms) (i :: p) w =
      (ms[i]?).bind fun m => (replaceAt m.2 p w).map fun x' => .obj (ms.set i (m.1, x')) := rfl

theorem getAt_arr_some {xs : List JV} {i : Nat} {x : JV} (h : xs[i]? = some x) (p : Pos) :
    getAt (.arr xs) (i :: p) = getAt x p := by rw [getAt_arr, h]; rfl
theorem getAt_arr_none {xs : List JV} {i : Nat} (h : xs[i]? = none) (p : Pos) :
    getAt (.arr xs) (i :: p) = none := by rw [getAt_arr, h]; rfl
theorem getAt_obj_some {ms : List (Text × JV)} {i : Nat} {m : Text × JV} (h : ms[i]? = some m) (p : Pos) :
    getAt (.obj ms) (i :: p) = getAt m.2 p := by rw [getAt_obj, h]; rfl
theorem getAt_obj_none {ms : List (Text × JV)} {i : Nat} (h : ms[i]? = none) (p : Pos) :
    getAt (.obj ms) (i :: p) = none := by rw [getAt_obj, h]; rfl
theorem replaceAt_arr_some {xs : List JV} {i : Nat} {x : JV} (h : xs[i]? = some x) (p : Pos) (w : JV) :
    replaceAt (.arr xs) (i :: p) w = (replaceAt x p w).map fun x' => .arr (xs.set i x') := by
  rw [replaceAt_arr, h]; rfl
theorem replaceAt_arr_none {xs : List JV} {i : Nat} (h : xs[i]? = none) (p : Pos) (w : JV) :
    replaceAt (.arr xs) (i :: p) w = none := by rw [replaceAt_arr, h]; rfl
theorem replaceAt_obj_some {ms : List (Text × JV)} {i : Nat} {m : Text × JV} (h : ms[i]? = some m) (p : Pos) (w : JV) :
    replaceAt (.obj ms) (i :: p) w = (replaceAt m.2 p w).map fun x' => .obj (ms.set i (m.1, x')) := by
  rw [replaceAt_obj, h]; rfl
theorem replaceAt_obj_none {ms : List (Text × JV)} {i : Nat} (h : ms[i]? = none) (p : Pos) (w : JV) :
    replaceAt (.obj ms) (i :: p) w = none := by rw [replaceAt_obj, h]; rfl

theorem lt_of_getElem?_some {α : Type} {l : List α} {i : Nat} {x : α} (h : l[i]? = some x) : i < l.length := by
  rcases List.getElem?_eq_some_iff.mp h with ⟨hi, _⟩; exact hi

theorem set_self {α : Type} : ∀ (l : List α) (i : Nat) (x : α), l[i]? = some x → l.set i x = l
  | [], _, _, _ => rfl
  | y :: ys, 0, x, h => by simp at h; simp [h]
  | y :: ys, i + 1, x, h => by
    simp only [List.getElem?_cons_succ] at h
    simp [set_self ys i x h]

/-- what `replaceAt` at a non-empty position of a container looks like -/
theorem replaceAt_cons_inv {d d' w : JV} {i : Nat} {p : Pos} (h : replaceAt d (i :: p) w = some d') :
    (∃ xs x x', d = .arr xs ∧ xs[i]? = some x ∧ replaceAt x p w = some x' ∧ d' = .arr (xs.set i x')) ∨
    (∃ ms m x', d = .obj ms ∧ ms[i]? = some m ∧ replaceAt m.2 p w = some x' ∧ d' = .obj (ms.set i (m.1, x'))) := by
  cases d with
  | arr xs =>
    left
    cases hx : xs[i]? with
    | none => rw [replaceAt_arr_none hx] at h; cases h
    | some x =>
      rw [replaceAt_arr_some hx] at h
      cases hr : replaceAt x p w with
      | none => rw [hr] at h; cases h
      | some x' =>
        rw [hr] at h
        simp only [Option.map_some, Option.some.injEq] at h
        exact ⟨xs, x, x', rfl, hx, hr, h.symm⟩
  | obj ms =>
    right
    cases hx : ms[i]? with
    | none => rw [replaceAt_obj_none hx] at h; cases h
    | some m =>
      rw [replaceAt_obj_some hx] at h
      cases hr : replaceAt m.2 p w with
      | none => rw [hr] at h; cases h
      | some x' =>
        rw [hr] at h
        simp only [Option.map_some, Option.some.injEq] at h
        exact ⟨ms, m, x', rfl, hx, hr, h.symm⟩
  | str _ => cases h
  | num _ => cases h
  | tru => cases h
  | fls => cases h
  | nul => cases h

/-- a scalar has no children -/
def isScalar : JV → Bool
  | .arr _ => false
  | .obj _ => false
  | _ => true

theorem getAt_scalar (v : JV) (h : isScalar v = true) (i : Nat) (p : Pos) : getAt v (i :: p) = none := by
  cases v <;> first | rfl | simp [isScalar] at h

theorem replaceAt_scalar (v : JV) (h : isScalar v = true) (i : Nat) (p : Pos) (w : JV) :
    replaceAt v (i :: p) w = none := by
  cases v <;> first | rfl | simp [isScalar] at h

/-- a position can be replaced iff it exists -/
theorem replaceAt_isSome : ∀ (pos : Pos) (d w : JV), (replaceAt d pos w).isSome = (getAt d pos).isSome
  | [], d, w => by simp
  | i :: p, d, w => by
    cases d with
    | arr xs =>
      rw [replaceAt_arr, getAt_arr]
      cases h : xs[i]? with
      | none => rfl
      | some x => simp [replaceAt_isSome p x w]
    | obj ms =>
      rw [replaceAt_obj, getAt_obj]
      cases h : ms[i]? with
      | none => rfl
      | some m => simp [replaceAt_isSome p m.2 w]
    | _ => rfl

theorem replaceAt_some_of_getAt {pos : Pos} {d : JV} (w : JV) (h : getAt d pos ≠ none) :
    ∃ d', replaceAt d pos w = some d' := by
  have := replaceAt_isSome pos d w
  cases hr : replaceAt d pos w with
  | some d' => exact ⟨d', rfl⟩
  | none =>
    rw [hr] at this
    cases hg : getAt d pos with
    | none => exact absurd hg h
    | some _ => rw [hg] at this; cases this

/-- **reading at or below the written position** -/
theorem getAt_replaceAt_append : ∀ (pos : Pos) (d d' w : JV) (r : Pos), replaceAt d pos w = some d' →
    getAt d' (pos ++ r) = getAt w r
  | [], d, d', w, r, h => by simp at h; subst h; rfl
  | i :: p, d, d', w, r, h => by
    rcases replaceAt_cons_inv h with ⟨xs, x, x', rfl, hx, hr, rfl⟩ | ⟨ms, m, x', rfl, hx, hr, rfl⟩
    · have hi := lt_of_getElem?_some hx
      rw [List.cons_append, getAt_arr_some (x := x') (by simp [hi])]
      exact getAt_replaceAt_append p x x' w r hr
    · have hi := lt_of_getElem?_some hx
      rw [List.cons_append, getAt_obj_some (m := (m.1, x')) (by simp [hi])]
      exact getAt_replaceAt_append p m.2 x' w r hr

theorem getAt_replaceAt_same (pos : Pos) (d d' w : JV) (h : replaceAt d pos w = some d') :
    getAt d' pos = some w := by
  have := getAt_replaceAt_append pos d d' w [] h
  simpa using this

/-- **reading at a position that is neither above nor below the written one** -/
theorem getAt_replaceAt_other : ∀ (pos pos' : Pos) (d d' w : JV), replaceAt d pos w = some d' →
    ¬ pos <+: pos' → ¬ pos' <+: pos → getAt d' pos' = getAt d pos'
  | [], pos', _, _, _, _, h1, _ => absurd List.nil_prefix h1
  | _ :: _, [], _, _, _, _, _, h2 => absurd List.nil_prefix h2
  | i :: p, j :: q, d, d', w, h, h1, h2 => by
    rcases replaceAt_cons_inv h with ⟨xs, x, x', rfl, hx, hr, rfl⟩ | ⟨ms, m, x', rfl, hx, hr, rfl⟩
    · have hi := lt_of_getElem?_some hx
      by_cases hij : i = j
      · subst hij
        rw [getAt_arr_some (x := x') (by simp [hi]), getAt_arr_some hx]
        exact getAt_replaceAt_other p q x x' w hr (fun hp => h1 (by simpa using hp)) (fun hp => h2 (by simpa using hp))
      · rw [getAt_arr, getAt_arr, List.getElem?_set_ne hij]
    · have hi := lt_of_getElem?_some hx
      by_cases hij : i = j
      · subst hij
        rw [getAt_obj_some (m := (m.1, x')) (by simp [hi]), getAt_obj_some hx]
        exact getAt_replaceAt_other p q m.2 x' w hr (fun hp => h1 (by simpa using hp)) (fun hp => h2 (by simpa using hp))
      · rw [getAt_obj, getAt_obj, List.getElem?_set_ne hij]

/-- **reading above the written position**: the subtree there is the old one with the same replacement -/
theorem getAt_replaceAt_prefix : ∀ (q r : Pos) (d d' w : JV), replaceAt d (q ++ r) w = some d' →
    getAt d' q = (getAt d q).bind fun x => replaceAt x r w
  | [], r, d, d', w, h => by simpa using h.symm
  | i :: q, r, d, d', w, h => by
    rw [List.cons_append] at h
    rcases replaceAt_cons_inv h with ⟨xs, x, x', rfl, hx, hr, rfl⟩ | ⟨ms, m, x', rfl, hx, hr, rfl⟩
    · have hi := lt_of_getElem?_some hx
      rw [getAt_arr_some (x := x') (by simp [hi]), getAt_arr_some hx]
      exact getAt_replaceAt_prefix q r x x' w hr
    · have hi := lt_of_getElem?_some hx
      rw [getAt_obj_some (m := (m.1, x')) (by simp [hi]), getAt_obj_some hx]
      exact getAt_replaceAt_prefix q r m.2 x' w hr

/-- the same, with the pieces named: the old and the new subtree above the written position -/
theorem replaceAt_append_inv : ∀ (q r : Pos) (d d' w : JV), replaceAt d (q ++ r) w = some d' →
    ∃ x x', getAt d q = some x ∧ replaceAt x r w = some x' ∧ getAt d' q = some x' ∧ replaceAt d q x' = some d'
  | [], r, d, d', w, h => ⟨d, d', by simp, by simpa using h, by simp, by simp⟩
  | i :: q, r, d, d', w, h => by
    rw [List.cons_append] at h
    rcases replaceAt_cons_inv h with ⟨xs, x, x', rfl, hx, hr, rfl⟩ | ⟨ms, m, x', rfl, hx, hr, rfl⟩
    · have hi := lt_of_getElem?_some hx
      obtain ⟨y, y', h1, h2, h3, h4⟩ := replaceAt_append_inv q r x x' w hr
      refine ⟨y, y', ?_, h2, ?_, ?_⟩
      · rw [getAt_arr_some hx]; exact h1
      · rw [getAt_arr_some (x := x') (by simp [hi])]; exact h3
      · rw [replaceAt_arr_some hx, h4]; rfl
    · have hi := lt_of_getElem?_some hx
      obtain ⟨y, y', h1, h2, h3, h4⟩ := replaceAt_append_inv q r m.2 x' w hr
      refine ⟨y, y', ?_, h2, ?_, ?_⟩
      · rw [getAt_obj_some hx]; exact h1
      · rw [getAt_obj_some (m := (m.1, x')) (by simp [hi])]; exact h3
      · rw [replaceAt_obj_some hx, h4]; rfl

/-- writing twice at the same position: the second value counts -/
theorem replaceAt_replaceAt : ∀ (pos : Pos) (d d' w w' : JV), replaceAt d pos w = some d' →
    replaceAt d' pos w' = replaceAt d pos w'
  | [], _, _, _, _, _ => by simp
  | i :: p, d, d', w, w', h => by
    rcases replaceAt_cons_inv h with ⟨xs, x, x', rfl, hx, hr, rfl⟩ | ⟨ms, m, x', rfl, hx, hr, rfl⟩
    · have hi := lt_of_getElem?_some hx
      rw [replaceAt_arr_some (x := x') (by simp [hi]), replaceAt_arr_some hx, replaceAt_replaceAt p x x' w w' hr]
      simp
    · have hi := lt_of_getElem?_some hx
      rw [replaceAt_obj_some (m := (m.1, x')) (by simp [hi]), replaceAt_obj_some hx, replaceAt_replaceAt p m.2 x' w w' hr]
      simp

/-- writing what is there changes nothing -/
theorem replaceAt_getAt : ∀ (pos : Pos) (d x : JV), getAt d pos = some x → replaceAt d pos x = some d
  | [], d, x, h => by simp at h; simp [h]
  | i :: p, d, x, h => by
    cases d with
    | arr xs =>
      cases hx : xs[i]? with
      | none => rw [getAt_arr_none hx] at h; cases h
      | some y =>
        rw [getAt_arr_some hx] at h
        rw [replaceAt_arr_some hx, replaceAt_getAt p y x h]
        simp only [Option.map_some, Option.some.injEq, JV.arr.injEq]
        exact set_self xs i y hx
    | obj ms =>
      cases hx : ms[i]? with
      | none => rw [getAt_obj_none hx] at h; cases h
      | some m =>
        rw [getAt_obj_some hx] at h
        rw [replaceAt_obj_some hx, replaceAt_getAt p m.2 x h]
        simp only [Option.map_some, Option.some.injEq, JV.obj.injEq]
        exact set_self ms i m hx
    | str _ => cases h
    | num _ => cases h
    | tru => cases h
    | fls => cases h
    | nul => cases h

/-! ## 2. labels: what is observed AT a position, without what is below it -/

/-- the label of a node: a scalar with its raw text, an array with its length, an object with its
raw keys in order (duplicates included) -/
inductive Label
  | str (raw : Text)
  | num (raw : Text)
  | tru | fls | nul
  | arr (n : Nat)
  | obj (keys : List Text)
deriving DecidableEq, Repr

def label : JV → Label
  | .str r => .str r
  | .num r => .num r
  | .tru => .tru
  | .fls => .fls
  | .nul => .nul
  | .arr xs => .arr xs.length
  | .obj ms => .obj (ms.map (·.1))

/-- the value a label stands for when it is written: the scalar itself, a container of that
shape filled with `null` -/
def reify : Label → JV
  | .str r => .str r
  | .num r => .num r
  | .tru => .tru
  | .fls => .fls
  | .nul => .nul
  | .arr n => .arr (List.replicate n .nul)
  | .obj ks => .obj (ks.map fun k => (k, JV.nul))

@[simp] theorem label_reify (l : Label) : label (reify l) = l := by
  cases l <;> simp [reify, label, Function.comp_def]

/-- replacing strictly below a node keeps the node's label -/
theorem label_replaceAt_cons {d d' w : JV} {i : Nat} {p : Pos} (h : replaceAt d (i :: p) w = some d') :
    label d' = label d := by
  rcases replaceAt_cons_inv h with ⟨xs, x, x', rfl, hx, hr, rfl⟩ | ⟨ms, m, x', rfl, hx, hr, rfl⟩
  · simp [label]
  · simp only [label, Label.obj.injEq]
    rw [List.map_set]
    exact set_self _ _ _ (by simp [hx])

/-- the label read at a position -/
def labelAt (d : JV) (pos : Pos) : Option Label := (getAt d pos).map label

mutual
/-- **extensionality on positions**: a tree is determined by the labels at all positions -/
theorem ext_labels : ∀ (a b : JV), (∀ pos, labelAt a pos = labelAt b pos) → a = b
  | .str r, b, h => by
    have := h []; cases b <;> simp [labelAt, label] at this; simp [this]
  | .num r, b, h => by
    have := h []; cases b <;> simp [labelAt, label] at this; simp [this]
  | .tru, b, h => by
    have := h []; cases b <;> simp [labelAt, label] at this; rfl
  | .fls, b, h => by
    have := h []; cases b <;> simp [labelAt, label] at this; rfl
  | .nul, b, h => by
    have := h []; cases b <;> simp [labelAt, label] at this; rfl
  | .arr xs, b, h => by
    have h0 := h []
    cases b <;> simp [labelAt, label] at h0
    rename_i ys
    congr 1
    apply ext_labelsL xs ys
    intro i pos
    have := h (i :: pos)
    simpa [labelAt, getAt_arr] using this
  | .obj ms, b, h => by
    have h0 := h []
    cases b <;> simp [labelAt, label] at h0
    rename_i ns
    congr 1
    apply ext_labelsM ms ns h0
    intro i pos
    have := h (i :: pos)
    simpa [labelAt, getAt_obj] using this
theorem ext_labelsL : ∀ (xs ys : List JV),
    (∀ (i : Nat) (pos : Pos), ((xs[i]?).bind fun x => getAt x pos).map label = ((ys[i]?).bind fun x => getAt x pos).map label) → xs = ys
  | [], ys, h => by
    cases ys with
    | nil => rfl
    | cons y ys => have := h 0 []; simp at this
  | x :: xs, ys, h => by
    cases ys with
    | nil => have := h 0 []; simp at this
    | cons y ys =>
      have hx : x = y := ext_labels x y (fun pos => by simpa [labelAt] using h 0 pos)
      have hxs : xs = ys := ext_labelsL xs ys (fun i pos => by simpa using h (i + 1) pos)
      rw [hx, hxs]
theorem ext_labelsM : ∀ (ms ns : List (Text × JV)), ms.map (·.1) = ns.map (·.1) →
    (∀ (i : Nat) (pos : Pos), ((ms[i]?).bind fun m => getAt m.2 pos).map label = ((ns[i]?).bind fun m => getAt m.2 pos).map label) → ms = ns
  | [], ns, hk, _ => by
    cases ns with
    | nil => rfl
    | cons n ns => simp at hk
  | m :: ms, ns, hk, h => by
    cases ns with
    | nil => simp at hk
    | cons n ns =>
      simp only [List.map_cons, List.cons.injEq] at hk
      have hx : m.2 = n.2 := ext_labels m.2 n.2 (fun pos => by simpa [labelAt] using h 0 pos)
      have hms : ms = ns := ext_labelsM ms ns hk.2 (fun i pos => by simpa using h (i + 1) pos)
      rw [hms]
      congr 1
      exact Prod.ext hk.1 hx
end

/-- **the label at every position that is not at or below the written one is unchanged** (positions
above it keep their keys / length, positions beside it keep everything) -/
theorem labelAt_replaceAt_other (d d' w : JV) (pos pos' : Pos) (hr : replaceAt d pos w = some d')
    (h : ¬ pos <+: pos') : labelAt d' pos' = labelAt d pos' := by
  by_cases h2 : pos' <+: pos
  · obtain ⟨r, rfl⟩ := h2
    obtain ⟨x, x', h1, h2, h3, _⟩ := replaceAt_append_inv pos' r d d' _ hr
    unfold labelAt
    rw [h1, h3]
    cases r with
    | nil => exact absurd (by simp) h
    | cons i r => simp [label_replaceAt_cons h2]
  · unfold labelAt
    rw [getAt_replaceAt_other pos pos' d d' _ hr h h2]

theorem replaceAll_nil (d w : JV) : replaceAll d [] w = d := rfl

theorem replaceAll_cons (d w : JV) (pos : Pos) (ps : List Pos) :
    replaceAll d (pos :: ps) w = replaceAll ((replaceAt d pos w).getD d) ps w := rfl

/-- the same for several written positions -/
theorem labelAt_replaceAll_other : ∀ (ps : List Pos) (d w : JV) (pos' : Pos), (∀ pos ∈ ps, ¬ pos <+: pos') →
    labelAt (replaceAll d ps w) pos' = labelAt d pos'
  | [], _, _, _, _ => rfl
  | pos :: ps, d, w, pos', h => by
    rw [replaceAll_cons, labelAt_replaceAll_other ps _ w pos' (fun q hq => h q (by simp [hq]))]
    cases hr : replaceAt d pos w with
    | none => rfl
    | some d' => exact labelAt_replaceAt_other d d' w pos pos' hr (h pos (by simp))

/-! ## 3. the component-by-component lookup (`locS`) as a recursive get / set -/

/-- the name-only search: the first member called `name` -/
abbrev nameIdx (name : Text) (ms : List (Text × JV)) : Option Nat := memberIdx name (fun _ => true) ms

theorem memberIdx_some {name : Text} {ok : JV → Bool} {ms : List (Text × JV)} {j : Nat} :
    memberIdx name ok ms = some j ↔
      ∃ m, ms[j]? = some m ∧ gkey m.1 = name ∧ ok m.2 = true ∧
        ∀ t, t < j → ∀ m', ms[t]? = some m' → ¬ (gkey m'.1 = name ∧ ok m'.2 = true) := by
  unfold memberIdx
  rw [List.findIdx?_eq_some_iff_getElem]
  constructor
  · rintro ⟨h, hp, hlt⟩
    have hp' : gkey ms[j].1 = name ∧ ok ms[j].2 = true := by simpa using hp
    refine ⟨ms[j], by simp [h], hp'.1, hp'.2, ?_⟩
    · intro t ht m' hm' hc
      have htl : t < ms.length := lt_of_getElem?_some hm'
      have := hlt t ht
      have e : ms[t] = m' := by
        have := List.getElem?_eq_getElem htl
        rw [this] at hm'; exact Option.some.inj hm'
      rw [e] at this
      apply this
      simp [hc.1, hc.2]
  · rintro ⟨m, hm, h1, h2, h3⟩
    have hj := lt_of_getElem?_some hm
    have e : ms[j] = m := by
      have := List.getElem?_eq_getElem hj
      rw [this] at hm; exact Option.some.inj hm
    refine ⟨hj, by simp [e, h1, h2], ?_⟩
    intro t ht hc
    have htl : t < ms.length := Nat.lt_trans ht hj
    apply h3 t ht ms[t] (by simp [htl])
    simpa using hc

theorem memberIdx_none {name : Text} {ok : JV → Bool} {ms : List (Text × JV)} :
    memberIdx name ok ms = none ↔ ∀ m ∈ ms, ¬ (gkey m.1 = name ∧ ok m.2 = true) := by
  unfold memberIdx
  rw [List.findIdx?_eq_none_iff]
  constructor
  · intro h m hm hc
    have := h m hm
    simp [hc.1, hc.2] at this
  · intro h m hm
    have := h m hm
    cases h1 : (gkey m.1 == name) <;> cases h2 : ok m.2 <;> simp_all

/-- the keys decide the name-only search: replacing a member's VALUE does not move it -/
theorem nameIdx_set (name : Text) : ∀ (ms : List (Text × JV)) (j : Nat) (k : Text) (v v' : JV),
    ms[j]? = some (k, v) → nameIdx name (ms.set j (k, v')) = nameIdx name ms
  | [], _, _, _, _, h => by simp at h
  | m :: ms, 0, k, v, v', h => by
    simp only [List.getElem?_cons_zero, Option.some.injEq] at h
    subst h
    simp [nameIdx, memberIdx, List.findIdx?_cons]
  | m :: ms, j + 1, k, v, v', h => by
    simp only [List.getElem?_cons_succ] at h
    have ih := nameIdx_set name ms j k v v' h
    simp only [nameIdx, memberIdx, List.set_cons_succ, List.findIdx?_cons] at ih ⊢
    rw [ih]

/-- `getS d p`: what the component-by-component lookup finds; `setS d p w`: `d` with it replaced -/
def getS (d : JV) (p : Path) : Option JV := (locS p d).bind (getAt d)
def setS (d : JV) (p : Path) (w : JV) : Option JV := (locS p d).bind fun pos => replaceAt d pos w

@[simp] theorem getS_nil (d : JV) : getS d [] = some d := by
  cases d <;> simp [getS, locS]

@[simp] theorem setS_nil (d w : JV) : setS d [] w = some w := by
  cases d <;> simp [setS, locS]

theorem locS_obj (c : Comp) (rest : Path) (ms : List (Text × JV)) :
    locS (c :: rest) (.obj ms) =
      (nameIdx (compName c) ms).bind fun j => (ms[j]?).bind fun m => (locS rest m.2).map (j :: ·) := by
  cases c <;> rfl

theorem locS_arr (k : Text) (esc : Bool) (rest : Path) (xs : List JV) :
    locS (.key k esc :: rest) (.arr xs) =
      (idxOf k esc).bind fun i => (xs[i]?).bind fun x => (locS rest x).map (i :: ·) := rfl

theorem locS_arr_each (rest : Path) (xs : List JV) : locS (.each :: rest) (.arr xs) = none := rfl

theorem locS_scalar (c : Comp) (rest : Path) (v : JV) (h : isScalar v = true) : locS (c :: rest) v = none := by
  cases v <;> first | (cases c <;> rfl) | simp [isScalar] at h

theorem setS_scalar (c : Comp) (rest : Path) (v w : JV) (h : isScalar v = true) : setS v (c :: rest) w = none := by
  simp [setS, locS_scalar c rest v h]

theorem getS_scalar (c : Comp) (rest : Path) (v : JV) (h : isScalar v = true) : getS v (c :: rest) = none := by
  simp [getS, locS_scalar c rest v h]

theorem setS_arr_each (rest : Path) (xs : List JV) (w : JV) : setS (.arr xs) (.each :: rest) w = none := by
  simp [setS, locS_arr_each]

theorem getS_arr_each (rest : Path) (xs : List JV) : getS (.arr xs) (.each :: rest) = none := by
  simp [getS, locS_arr_each]

/-- one step of the stepwise get on an object -/
theorem getS_obj (c : Comp) (rest : Path) (ms : List (Text × JV)) :
    getS (.obj ms) (c :: rest) =
      (nameIdx (compName c) ms).bind fun j => (ms[j]?).bind fun m => getS m.2 rest := by
  unfold getS
  rw [locS_obj]
  cases nameIdx (compName c) ms with
  | none => rfl
  | some j =>
    simp only [Option.bind_some]
    cases hm : ms[j]? with
    | none => rfl
    | some m =>
      simp only [Option.bind_some]
      cases locS rest m.2 with
      | none => rfl
      | some pos => simp [getAt_obj_some hm]

theorem getS_arr (k : Text) (esc : Bool) (rest : Path) (xs : List JV) :
    getS (.arr xs) (.key k esc :: rest) = (idxOf k esc).bind fun i => (xs[i]?).bind fun x => getS x rest := by
  unfold getS
  rw [locS_arr]
  cases idxOf k esc with
  | none => rfl
  | some i =>
    simp only [Option.bind_some]
    cases hx : xs[i]? with
    | none => rfl
    | some x =>
      simp only [Option.bind_some]
      cases locS rest x with
      | none => rfl
      | some pos => simp [getAt_arr_some hx]

theorem setS_obj (c : Comp) (rest : Path) (ms : List (Text × JV)) (w : JV) :
    setS (.obj ms) (c :: rest) w =
      (nameIdx (compName c) ms).bind fun j => (ms[j]?).bind fun m =>
        (setS m.2 rest w).map fun v' => .obj (ms.set j (m.1, v')) := by
  unfold setS
  rw [locS_obj]
  cases nameIdx (compName c) ms with
  | none => rfl
  | some j =>
    simp only [Option.bind_some]
    cases hm : ms[j]? with
    | none => rfl
    | some m =>
      simp only [Option.bind_some]
      cases locS rest m.2 with
      | none => rfl
      | some pos => simp [replaceAt_obj_some hm]

theorem setS_arr (k : Text) (esc : Bool) (rest : Path) (xs : List JV) (w : JV) :
    setS (.arr xs) (.key k esc :: rest) w =
      (idxOf k esc).bind fun i => (xs[i]?).bind fun x => (setS x rest w).map fun x' => .arr (xs.set i x') := by
  unfold setS
  rw [locS_arr]
  cases idxOf k esc with
  | none => rfl
  | some i =>
    simp only [Option.bind_some]
    cases hx : xs[i]? with
    | none => rfl
    | some x =>
      simp only [Option.bind_some]
      cases locS rest x with
      | none => rfl
      | some pos => simp [replaceAt_arr_some hx]

/-! ## 4. lens laws of the component-by-component lookup — for every document -/

/-- reading back -/
theorem getS_setS_below : ∀ (p : Path) (d d' w : JV) (r : Path), setS d p w = some d' →
    getS d' (p ++ r) = getS w r
  | [], d, d', w, r, h => by simp at h; subst h; rfl
  | c :: rest, d, d', w, r, h => by
    cases d with
    | obj ms =>
      rw [setS_obj] at h
      cases hj : nameIdx (compName c) ms with
      | none => rw [hj] at h; cases h
      | some j =>
        rw [hj] at h
        simp only [Option.bind_some] at h
        cases hm : ms[j]? with
        | none => rw [hm] at h; cases h
        | some m =>
          rw [hm] at h
          simp only [Option.bind_some] at h
          cases hs : setS m.2 rest w with
          | none => rw [hs] at h; cases h
          | some v' =>
            rw [hs] at h
            simp only [Option.map_some, Option.some.injEq] at h
            subst h
            have hi := lt_of_getElem?_some hm
            rw [List.cons_append, getS_obj, nameIdx_set _ ms j m.1 m.2 v' hm, hj]
            simp only [Option.bind_some, List.getElem?_set_self hi]
            exact getS_setS_below rest m.2 v' w r hs
    | arr xs =>
      cases c with
      | each => rw [setS_arr_each] at h; cases h
      | key k esc =>
        rw [setS_arr] at h
        cases hi : idxOf k esc with
        | none => rw [hi] at h; cases h
        | some i =>
          rw [hi] at h
          simp only [Option.bind_some] at h
          cases hx : xs[i]? with
          | none => rw [hx] at h; cases h
          | some x =>
            rw [hx] at h
            simp only [Option.bind_some] at h
            cases hs : setS x rest w with
            | none => rw [hs] at h; cases h
            | some x' =>
              rw [hs] at h
              simp only [Option.map_some, Option.some.injEq] at h
              subst h
              have hil := lt_of_getElem?_some hx
              rw [List.cons_append, getS_arr, hi]
              simp only [Option.bind_some, List.getElem?_set_self hil]
              exact getS_setS_below rest x x' w r hs
    | str _ => rw [setS_scalar _ _ _ _ rfl] at h; cases h
    | num _ => rw [setS_scalar _ _ _ _ rfl] at h; cases h
    | tru => rw [setS_scalar _ _ _ _ rfl] at h; cases h
    | fls => rw [setS_scalar _ _ _ _ rfl] at h; cases h
    | nul => rw [setS_scalar _ _ _ _ rfl] at h; cases h

theorem getS_setS_same (p : Path) (d d' w : JV) (h : setS d p w = some d') : getS d' p = some w := by
  have := getS_setS_below p d d' w [] h
  simpa using this

/-- what a component addresses in an array -/
def idxC : Comp → Option Nat
  | .key k esc => idxOf k esc
  | .each => none

/-- two components that never address the same child, whatever the node: different names (no common
member of an object) and not the same index (no common element of an array); `#` is apart from
nothing (on an array it addresses every element) -/
def apartC (c c' : Comp) : Bool :=
  !isEach c && !isEach c' &&
    compName c != compName c' && (idxC c == none || idxC c' == none || idxC c != idxC c')

/-- **disjoint paths** (decidable, on the components): somewhere along the common length the two
components are apart.  Neither path is then at, above or below the other in any document. -/
def disjP : Path → Path → Bool
  | c :: p, c' :: q => apartC c c' || disjP p q
  | _, _ => false

theorem apartC_symm (c c' : Comp) : apartC c c' = apartC c' c := by
  unfold apartC
  have h1 : (compName c != compName c') = (compName c' != compName c) := bne_comm
  have h2 : (idxC c != idxC c') = (idxC c' != idxC c) := bne_comm
  rw [h1, h2]
  cases (idxC c == none) <;> cases (idxC c' == none) <;> cases isEach c <;> cases isEach c' <;> simp

theorem disjP_symm : ∀ p q : Path, disjP p q = disjP q p
  | [], [] => rfl
  | [], _ :: _ => rfl
  | _ :: _, [] => rfl
  | c :: p, c' :: q => by
    simp only [disjP, disjP_symm p q, apartC_symm c c']

/-- what a successful stepwise set at a non-empty path looks like -/
theorem setS_cons_inv {d d' w : JV} {c : Comp} {rest : Path} (h : setS d (c :: rest) w = some d') :
    (∃ ms j m v', d = .obj ms ∧ nameIdx (compName c) ms = some j ∧ ms[j]? = some m ∧
        setS m.2 rest w = some v' ∧ d' = .obj (ms.set j (m.1, v'))) ∨
    (∃ xs k esc i x x', d = .arr xs ∧ c = .key k esc ∧ idxOf k esc = some i ∧ xs[i]? = some x ∧
        setS x rest w = some x' ∧ d' = .arr (xs.set i x')) := by
  cases d with
  | obj ms =>
    left
    rw [setS_obj] at h
    cases hj : nameIdx (compName c) ms with
    | none => rw [hj] at h; cases h
    | some j =>
      rw [hj] at h
      simp only [Option.bind_some] at h
      cases hm : ms[j]? with
      | none => rw [hm] at h; cases h
      | some m =>
        rw [hm] at h
        simp only [Option.bind_some] at h
        cases hs : setS m.2 rest w with
        | none => rw [hs] at h; cases h
        | some v' =>
          rw [hs] at h
          simp only [Option.map_some, Option.some.injEq] at h
          exact ⟨ms, j, m, v', rfl, hj, hm, hs, h.symm⟩
  | arr xs =>
    right
    cases c with
    | each => rw [setS_arr_each] at h; cases h
    | key k esc =>
      rw [setS_arr] at h
      cases hi : idxOf k esc with
      | none => rw [hi] at h; cases h
      | some i =>
        rw [hi] at h
        simp only [Option.bind_some] at h
        cases hx : xs[i]? with
        | none => rw [hx] at h; cases h
        | some x =>
          rw [hx] at h
          simp only [Option.bind_some] at h
          cases hs : setS x rest w with
          | none => rw [hs] at h; cases h
          | some x' =>
            rw [hs] at h
            simp only [Option.map_some, Option.some.injEq] at h
            exact ⟨xs, k, esc, i, x, x', rfl, rfl, hi, hx, hs, h.symm⟩
  | str _ => rw [setS_scalar _ _ _ _ rfl] at h; cases h
  | num _ => rw [setS_scalar _ _ _ _ rfl] at h; cases h
  | tru => rw [setS_scalar _ _ _ _ rfl] at h; cases h
  | fls => rw [setS_scalar _ _ _ _ rfl] at h; cases h
  | nul => rw [setS_scalar _ _ _ _ rfl] at h; cases h

/-- **writing at `p` does not change what is read at a disjoint path `q`** -/
theorem getS_setS_other : ∀ (p q : Path) (d d' w : JV), disjP p q = true → setS d p w = some d' →
    getS d' q = getS d q
  | [], _, _, _, _, hd, _ => by cases hd
  | _ :: _, [], _, _, _, hd, _ => by cases hd
  | c :: p1, c' :: q1, d, d', w, hd, h => by
    simp only [disjP, Bool.or_eq_true] at hd
    rcases setS_cons_inv h with ⟨ms, j, m, v', rfl, hj, hm, hs, rfl⟩ | ⟨xs, k, esc, i, x, x', rfl, rfl, hi, hx, hs, rfl⟩
    · rw [getS_obj, getS_obj, nameIdx_set _ ms j m.1 m.2 v' hm]
      cases hj' : nameIdx (compName c') ms with
      | none => rfl
      | some j' =>
        simp only [Option.bind_some]
        by_cases e : j = j'
        · subst e
          have hil := lt_of_getElem?_some hm
          simp only [List.getElem?_set_self hil, hm, Option.bind_some]
          -- both components name the member j: they are not apart
          obtain ⟨m1, hm1, hn1, _⟩ := memberIdx_some.mp hj
          obtain ⟨m2, hm2, hn2, _⟩ := memberIdx_some.mp hj'
          rw [hm] at hm1 hm2
          have e1 : m = m1 := Option.some.inj hm1
          have e2 : m = m2 := Option.some.inj hm2
          have hna : apartC c c' = false := by
            unfold apartC
            have : compName c = compName c' := by rw [← hn1, ← hn2, ← e1, ← e2]
            simp [this]
          rcases hd with hd | hd
          · rw [hna] at hd; cases hd
          · exact getS_setS_other p1 q1 m.2 v' w hd hs
        · simp only [List.getElem?_set_ne e]
    · cases c' with
      | each => rw [getS_arr_each, getS_arr_each]
      | key k' esc' =>
        rw [getS_arr, getS_arr]
        cases hi' : idxOf k' esc' with
        | none => rfl
        | some i' =>
          simp only [Option.bind_some]
          by_cases e : i = i'
          · subst e
            have hil := lt_of_getElem?_some hx
            simp only [List.getElem?_set_self hil, hx, Option.bind_some]
            have hna : apartC (.key k esc) (.key k' esc') = false := by
              unfold apartC
              simp [idxC, hi, hi']
            rcases hd with hd | hd
            · rw [hna] at hd; cases hd
            · exact getS_setS_other p1 q1 x x' w hd hs
          · simp only [List.getElem?_set_ne e]

/-! ## 5. documents without duplicate member names: gjson's lookup and all three sjson routes coincide -/

def nodupT : List Text → Bool
  | [] => true
  | x :: xs => !xs.contains x && nodupT xs

mutual
/-- **`distinctG`**: in every object of the tree the member names — as gjson compares them, `gkey` —
are pairwise different -/
def distinctG : JV → Bool
  | .arr xs => distinctGL xs
  | .obj ms => nodupT (ms.map fun kv => gkey kv.1) && distinctGM ms
  | _ => true
def distinctGL : List JV → Bool
  | [] => true
  | x :: xs => distinctG x && distinctGL xs
def distinctGM : List (Text × JV) → Bool
  | [] => true
  | (_, v) :: ms => distinctG v && distinctGM ms
end

theorem distinctGL_iff : ∀ xs : List JV, distinctGL xs = true ↔ ∀ x ∈ xs, distinctG x = true
  | [] => by simp [distinctGL]
  | x :: xs => by simp [distinctGL, distinctGL_iff xs]

theorem distinctGM_iff : ∀ ms : List (Text × JV), distinctGM ms = true ↔ ∀ m ∈ ms, distinctG m.2 = true
  | [] => by simp [distinctGM]
  | (k, v) :: ms => by simp [distinctGM, distinctGM_iff ms]

theorem distinctG_arr (xs : List JV) : distinctG (.arr xs) = true ↔ ∀ x ∈ xs, distinctG x = true := by
  rw [distinctG, distinctGL_iff]

theorem distinctG_obj (ms : List (Text × JV)) :
    distinctG (.obj ms) = true ↔ nodupT (ms.map fun kv => gkey kv.1) = true ∧ ∀ m ∈ ms, distinctG m.2 = true := by
  rw [distinctG, Bool.and_eq_true, distinctGM_iff]

theorem nodupT_unique : ∀ (l : List Text) (i j : Nat) (a : Text), nodupT l = true → l[i]? = some a → l[j]? = some a → i = j
  | [], _, _, _, _, h, _ => by simp at h
  | x :: xs, 0, 0, _, _, _, _ => rfl
  | x :: xs, 0, j + 1, a, hn, hi, hj => by
    simp only [List.getElem?_cons_zero, Option.some.injEq] at hi
    simp only [List.getElem?_cons_succ] at hj
    subst hi
    simp only [nodupT, Bool.and_eq_true, Bool.not_eq_eq_eq_not, Bool.not_true, List.contains_eq_mem,
      decide_eq_false_iff_not] at hn
    exact absurd (List.mem_of_getElem? hj) hn.1
  | x :: xs, i + 1, 0, a, hn, hi, hj => by
    simp only [List.getElem?_cons_zero, Option.some.injEq] at hj
    simp only [List.getElem?_cons_succ] at hi
    subst hj
    simp only [nodupT, Bool.and_eq_true, Bool.not_eq_eq_eq_not, Bool.not_true, List.contains_eq_mem,
      decide_eq_false_iff_not] at hn
    exact absurd (List.mem_of_getElem? hi) hn.1
  | x :: xs, i + 1, j + 1, a, hn, hi, hj => by
    simp only [List.getElem?_cons_succ] at hi hj
    simp only [nodupT, Bool.and_eq_true] at hn
    rw [nodupT_unique xs i j a hn.2 hi hj]

@[simp] theorem loc_nil (d : JV) : loc [] d = some (.one []) := by cases d <;> rfl

theorem loc_obj (c : Comp) (rest : Path) (ms : List (Text × JV)) :
    loc (c :: rest) (.obj ms) = firstMember (compName c) (loc rest) ms := by
  cases c <;> rfl

theorem loc_arr (k : Text) (esc : Bool) (rest : Path) (xs : List JV) :
    loc (.key k esc :: rest) (.arr xs) =
      (idxOf k esc).bind fun i => (xs[i]?).bind fun x => (loc rest x).map (Loc.push i) := rfl

theorem loc_arr_each (rest : Path) (xs : List JV) :
    loc (.each :: rest) (.arr xs) = some (.many (eachElem (loc rest) xs)) := rfl

theorem loc_scalar (c : Comp) (rest : Path) (v : JV) (h : isScalar v = true) : loc (c :: rest) v = none := by
  cases v <;> first | (cases c <;> rfl) | simp [isScalar] at h

theorem plain_cons (c : Comp) (p : Path) : plain (c :: p) = true ↔ isEach c = false ∧ plain p = true := by
  simp [plain]

/-- with pairwise different names the backtracking search is the name-only search -/
theorem firstMember_distinct (name : Text) (f : JV → Option Loc) (ms : List (Text × JV))
    (hn : nodupT (ms.map fun kv => gkey kv.1) = true) :
    firstMember name f ms = (nameIdx name ms).bind fun j => (ms[j]?).bind fun m => (f m.2).map (Loc.push j) := by
  unfold firstMember
  cases hj : nameIdx name ms with
  | none =>
    have h0 := memberIdx_none.mp hj
    have : memberIdx name (fun v => (f v).isSome) ms = none :=
      memberIdx_none.mpr (fun m hm hc => h0 m hm ⟨hc.1, rfl⟩)
    rw [this]
  | some j =>
    obtain ⟨m, hm, hname, _, hmin⟩ := memberIdx_some.mp hj
    simp only [Option.bind_some, hm]
    cases hf : f m.2 with
    | some l =>
      have : memberIdx name (fun v => (f v).isSome) ms = some j :=
        memberIdx_some.mpr ⟨m, hm, hname, by simp [hf], fun t ht m' hm' hc => hmin t ht m' hm' ⟨hc.1, rfl⟩⟩
      rw [this]
      simp [hm, hf]
    | none =>
      have : memberIdx name (fun v => (f v).isSome) ms = none := by
        apply memberIdx_none.mpr
        intro m' hm' hc
        obtain ⟨t, ht⟩ := List.getElem?_of_mem hm'
        have e : t = j := by
          apply nodupT_unique _ t j name hn
          · simp [ht, hc.1]
          · simp [hm, hname]
        subst e
        rw [hm] at ht
        have : m = m' := Option.some.inj ht
        subst this
        rw [hf] at hc
        simp at hc
      rw [this]; rfl

/-- **on a document without duplicate names, gjson's lookup of a `#`-free path is the
component-by-component lookup** (so sjson's routes (1), (2) and gjson agree) -/
theorem loc_eq_locS : ∀ (p : Path) (d : JV), distinctG d = true → plain p = true →
    loc p d = (locS p d).map .one
  | [], d, _, _ => by cases d <;> rfl
  | c :: rest, d, hd, hp => by
    obtain ⟨hc, hp'⟩ := (plain_cons c rest).mp hp
    cases d with
    | obj ms =>
      obtain ⟨hn, hch⟩ := (distinctG_obj ms).mp hd
      rw [loc_obj, locS_obj, firstMember_distinct _ _ _ hn]
      cases nameIdx (compName c) ms with
      | none => rfl
      | some j =>
        simp only [Option.bind_some]
        cases hm : ms[j]? with
        | none => rfl
        | some m =>
          simp only [Option.bind_some]
          rw [loc_eq_locS rest m.2 (hch m (List.mem_of_getElem? hm)) hp']
          cases locS rest m.2 <;> rfl
    | arr xs =>
      cases c with
      | each => simp [isEach] at hc
      | key k esc =>
        rw [loc_arr, locS_arr]
        cases idxOf k esc with
        | none => rfl
        | some i =>
          simp only [Option.bind_some]
          cases hx : xs[i]? with
          | none => rfl
          | some x =>
            simp only [Option.bind_some]
            rw [loc_eq_locS rest x ((distinctG_arr xs).mp hd x (List.mem_of_getElem? hx)) hp']
            cases locS rest x <;> rfl
    | str _ => rw [loc_scalar _ _ _ rfl, locS_scalar _ _ _ rfl]; rfl
    | num _ => rw [loc_scalar _ _ _ rfl, locS_scalar _ _ _ rfl]; rfl
    | tru => rw [loc_scalar _ _ _ rfl, locS_scalar _ _ _ rfl]; rfl
    | fls => rw [loc_scalar _ _ _ rfl, locS_scalar _ _ _ rfl]; rfl
    | nul => rw [loc_scalar _ _ _ rfl, locS_scalar _ _ _ rfl]; rfl

/-- for EVERY document: what the component-by-component lookup finds is what gjson finds (the
converse fails with duplicate names: gjson may find the value in a later member) -/
theorem loc_of_locS : ∀ (p : Path) (d : JV) (pos : Pos), locS p d = some pos → loc p d = some (.one pos)
  | [], d, pos, h => by cases d <;> simp_all [locS, loc]
  | c :: rest, d, pos, h => by
    cases d with
    | obj ms =>
      rw [locS_obj] at h
      rw [loc_obj]
      cases hj : nameIdx (compName c) ms with
      | none => rw [hj] at h; cases h
      | some j =>
        rw [hj] at h
        simp only [Option.bind_some] at h
        obtain ⟨m, hm, hname, _, hmin⟩ := memberIdx_some.mp hj
        rw [hm] at h
        simp only [Option.bind_some] at h
        cases hl : locS rest m.2 with
        | none => rw [hl] at h; cases h
        | some pos1 =>
          rw [hl] at h
          simp only [Option.map_some, Option.some.injEq] at h
          subst h
          have ih := loc_of_locS rest m.2 pos1 hl
          have : memberIdx (compName c) (fun v => (loc rest v).isSome) ms = some j :=
            memberIdx_some.mpr ⟨m, hm, hname, by simp [ih], fun t ht m' hm' hc => hmin t ht m' hm' ⟨hc.1, rfl⟩⟩
          simp [firstMember, this, hm, ih, Loc.push]
    | arr xs =>
      cases c with
      | each => rw [locS_arr_each] at h; cases h
      | key k esc =>
        rw [locS_arr] at h
        rw [loc_arr]
        cases hi : idxOf k esc with
        | none => rw [hi] at h; cases h
        | some i =>
          rw [hi] at h
          simp only [Option.bind_some] at h ⊢
          cases hx : xs[i]? with
          | none => rw [hx] at h; cases h
          | some x =>
            rw [hx] at h
            simp only [Option.bind_some] at h ⊢
            cases hl : locS rest x with
            | none => rw [hl] at h; cases h
            | some pos1 =>
              rw [hl] at h
              simp only [Option.map_some, Option.some.injEq] at h
              subst h
              simp [loc_of_locS rest x pos1 hl, Loc.push]
    | str _ => rw [locS_scalar _ _ _ rfl] at h; cases h
    | num _ => rw [locS_scalar _ _ _ rfl] at h; cases h
    | tru => rw [locS_scalar _ _ _ rfl] at h; cases h
    | fls => rw [locS_scalar _ _ _ rfl] at h; cases h
    | nul => rw [locS_scalar _ _ _ rfl] at h; cases h

/-- a `#`-free path is found at ONE position -/
theorem loc_plain_one : ∀ (p : Path) (d : JV) (l : Loc), plain p = true → loc p d = some l → ∃ pos, l = .one pos
  | [], d, l, _, h => by
    have : loc [] d = some (.one []) := by cases d <;> rfl
    rw [this] at h
    exact ⟨[], (Option.some.inj h).symm⟩
  | c :: rest, d, l, hp, h => by
    obtain ⟨hc, hp'⟩ := (plain_cons c rest).mp hp
    cases d with
    | obj ms =>
      rw [loc_obj] at h
      unfold firstMember at h
      cases hj : memberIdx (compName c) (fun v => (loc rest v).isSome) ms with
      | none => rw [hj] at h; cases h
      | some j =>
        rw [hj] at h
        simp only [Option.bind_some] at h
        cases hm : ms[j]? with
        | none => rw [hm] at h; cases h
        | some m =>
          rw [hm] at h
          simp only [Option.bind_some] at h
          cases hl : loc rest m.2 with
          | none => rw [hl] at h; cases h
          | some l1 =>
            rw [hl] at h
            simp only [Option.map_some, Option.some.injEq] at h
            obtain ⟨pos1, rfl⟩ := loc_plain_one rest m.2 l1 hp' hl
            exact ⟨j :: pos1, by rw [← h]; rfl⟩
    | arr xs =>
      cases c with
      | each => simp [isEach] at hc
      | key k esc =>
        rw [loc_arr] at h
        cases hi : idxOf k esc with
        | none => rw [hi] at h; cases h
        | some i =>
          rw [hi] at h
          simp only [Option.bind_some] at h
          cases hx : xs[i]? with
          | none => rw [hx] at h; cases h
          | some x =>
            rw [hx] at h
            simp only [Option.bind_some] at h
            cases hl : loc rest x with
            | none => rw [hl] at h; cases h
            | some l1 =>
              rw [hl] at h
              simp only [Option.map_some, Option.some.injEq] at h
              obtain ⟨pos1, rfl⟩ := loc_plain_one rest x l1 hp' hl
              exact ⟨i :: pos1, by rw [← h]; rfl⟩
    | str _ => rw [loc_scalar _ _ _ rfl] at h; cases h
    | num _ => rw [loc_scalar _ _ _ rfl] at h; cases h
    | tru => rw [loc_scalar _ _ _ rfl] at h; cases h
    | fls => rw [loc_scalar _ _ _ rfl] at h; cases h
    | nul => rw [loc_scalar _ _ _ rfl] at h; cases h

/-- replacing a subtree by a tree without duplicate names keeps the document free of them -/
theorem distinctG_replaceAt : ∀ (pos : Pos) (d d' w : JV), distinctG d = true → distinctG w = true →
    replaceAt d pos w = some d' → distinctG d' = true
  | [], d, d', w, _, hw, h => by simp at h; subst h; exact hw
  | i :: p, d, d', w, hd, hw, h => by
    rcases replaceAt_cons_inv h with ⟨xs, x, x', rfl, hx, hr, rfl⟩ | ⟨ms, m, x', rfl, hx, hr, rfl⟩
    · rw [distinctG_arr] at hd ⊢
      intro y hy
      rcases List.mem_or_eq_of_mem_set hy with hy | rfl
      · exact hd y hy
      · exact distinctG_replaceAt p x y w (hd x (List.mem_of_getElem? hx)) hw hr
    · rw [distinctG_obj] at hd ⊢
      refine ⟨?_, ?_⟩
      · rw [List.map_set]
        rw [set_self _ _ _ (by simp [hx])]
        exact hd.1
      · intro y hy
        rcases List.mem_or_eq_of_mem_set hy with hy | rfl
        · exact hd.2 y hy
        · exact distinctG_replaceAt p m.2 x' w (hd.2 m (List.mem_of_getElem? hx)) hw hr

/-- on a document without duplicate names, for a `#`-free path: what gjson reads is the stepwise get … -/
theorem getPath_eq_getS (d : JV) (p : Path) (hd : distinctG d = true) (hp : plain p = true) :
    getPath d p = getS d p := by
  unfold getPath getS
  rw [loc_eq_locS p d hd hp]
  cases locS p d <;> rfl

/-- … and what sjson writes — by any of its routes — is the stepwise set -/
theorem setPathO_eq_setS (opt : Bool) (d : JV) (p : Path) (w : JV) (hd : distinctG d = true) (hp : plain p = true) :
    setPathO opt d p w = setS d p w := by
  unfold setPathO setS setLocO
  rw [loc_eq_locS p d hd hp, hp]
  simp only [ite_self]
  cases locS p d <;> rfl

theorem setPath_eq_setS (d : JV) (p : Path) (w : JV) (hd : distinctG d = true) (hp : plain p = true) :
    setPath d p w = setS d p w := setPathO_eq_setS _ d p w hd hp

theorem getAt_some_of_replaceAt {d d' w : JV} {pos : Pos} (h : replaceAt d pos w = some d') : ∃ old, getAt d pos = some old := by
  have := replaceAt_isSome pos d w
  rw [h] at this
  cases hg : getAt d pos with
  | none => rw [hg] at this; cases this
  | some old => exact ⟨old, rfl⟩

/-- a `#`-free path is written at ONE position, whatever the route -/
theorem setLocO_plain_one (opt : Bool) (d : JV) (p : Path) (l : Loc) (hp : plain p = true) (h : setLocO opt d p = some l) :
    ∃ pos, l = .one pos := by
  unfold setLocO at h
  split at h
  · exact loc_plain_one p d l hp h
  · cases hl : locS p d with
    | none => rw [hl] at h; cases h
    | some pos => rw [hl] at h; exact ⟨pos, (Option.some.inj h).symm⟩

/-- what any lookup finds in a scalar: the scalar itself for the empty path, nothing otherwise -/
theorem loc_of_scalar (v : JV) (h : isScalar v = true) (rest : Path) :
    loc rest v = if rest = [] then some (.one []) else none := by
  cases rest with
  | nil => cases v <;> rfl
  | cons c r => rw [loc_scalar c r v h]; rfl

theorem map_cons_ne_nil {α : Type} (o : Option (List α)) (c : α) : o.map (c :: ·) ≠ some [] := by
  cases o <;> simp

/-- the parser never yields the empty path -/
theorem compsAux_ne_nil : ∀ (n : Nat) (s : Text), compsAux n s ≠ some []
  | 0, _ => by simp [compsAux]
  | n + 1, s => by
    unfold compsAux
    split
    · simp
    · split
      · simp
      · exact map_cons_ne_nil _ _
      · split
        · simp
        · split
          · simp
          · split
            · simp
            · exact map_cons_ne_nil _ _

theorem parsePath_ne_nil (s : Text) (p : Path) (h : parsePath s = some p) : p ≠ [] := by
  unfold parsePath at h
  split at h
  · cases h
  · split at h
    · cases h
    · cases hc : compsAux (s.length + 1) s with
      | none => rw [hc] at h; cases h
      | some q =>
        rw [hc] at h
        simp only [Option.bind_some] at h
        split at h
        · have : q = p := Option.some.inj h
          subst this
          intro hq
          subst hq
          exact compsAux_ne_nil _ _ hc
        · cases h

/-! ## 5b. the multi-value form `pre.#.rest` -/

/-- a position prefixed to everything a lookup found -/
def Loc.under (a : Pos) : Loc → Loc
  | .one p => .one (a ++ p)
  | .many ps => .many (ps.map (a ++ ·))

theorem Loc.under_nil (l : Loc) : l.under [] = l := by
  cases l <;> simp [Loc.under]

theorem Loc.push_under (j : Nat) (a : Pos) (l : Loc) : (l.under a).push j = l.under (j :: a) := by
  cases l <;> simp [Loc.under, Loc.push, Function.comp_def]

/-- **a path with `#`, on a document without duplicate names**: follow the `#`-free front part `pre`
component by component to the position `a`; what the whole path finds is what `# . rest` finds in
the subtree there, under `a` -/
theorem loc_append_distinct : ∀ (pre : Path) (q : Path) (d : JV), distinctG d = true → plain pre = true →
    loc (pre ++ q) d = (locS pre d).bind fun a => (getAt d a).bind fun sub => (loc q sub).map (Loc.under a)
  | [], q, d, _, _ => by
    have : locS [] d = some [] := by cases d <;> rfl
    rw [this]
    simp only [List.nil_append, Option.bind_some, getAt_nil]
    cases loc q d with
    | none => rfl
    | some l => simp [Loc.under_nil]
  | c :: pre, q, d, hd, hp => by
    obtain ⟨hc, hp'⟩ := (plain_cons c pre).mp hp
    cases d with
    | obj ms =>
      obtain ⟨hn, hch⟩ := (distinctG_obj ms).mp hd
      rw [List.cons_append, loc_obj, locS_obj, firstMember_distinct _ _ _ hn]
      cases nameIdx (compName c) ms with
      | none => rfl
      | some j =>
        simp only [Option.bind_some]
        cases hm : ms[j]? with
        | none => rfl
        | some m =>
          simp only [Option.bind_some]
          rw [loc_append_distinct pre q m.2 (hch m (List.mem_of_getElem? hm)) hp']
          cases locS pre m.2 with
          | none => rfl
          | some a =>
            simp only [Option.bind_some, Option.map_some, getAt_obj_some hm]
            cases getAt m.2 a with
            | none => rfl
            | some sub =>
              simp only [Option.bind_some]
              cases loc q sub with
              | none => rfl
              | some l => simp [Loc.push_under]
    | arr xs =>
      cases c with
      | each => simp [isEach] at hc
      | key k esc =>
        rw [List.cons_append, loc_arr, locS_arr]
        cases idxOf k esc with
        | none => rfl
        | some i =>
          simp only [Option.bind_some]
          cases hx : xs[i]? with
          | none => rfl
          | some x =>
            simp only [Option.bind_some]
            rw [loc_append_distinct pre q x ((distinctG_arr xs).mp hd x (List.mem_of_getElem? hx)) hp']
            cases locS pre x with
            | none => rfl
            | some a =>
              simp only [Option.bind_some, Option.map_some, getAt_arr_some hx]
              cases getAt x a with
              | none => rfl
              | some sub =>
                simp only [Option.bind_some]
                cases loc q sub with
                | none => rfl
                | some l => simp [Loc.push_under]
    | str _ => rw [List.cons_append, loc_scalar _ _ _ rfl, locS_scalar _ _ _ rfl]; rfl
    | num _ => rw [List.cons_append, loc_scalar _ _ _ rfl, locS_scalar _ _ _ rfl]; rfl
    | tru => rw [List.cons_append, loc_scalar _ _ _ rfl, locS_scalar _ _ _ rfl]; rfl
    | fls => rw [List.cons_append, loc_scalar _ _ _ rfl, locS_scalar _ _ _ rfl]; rfl
    | nul => rw [List.cons_append, loc_scalar _ _ _ rfl, locS_scalar _ _ _ rfl]; rfl

/-- the hits of `# . rest` in an array: element `i` contributes `i :: r` for what `rest` finds in it -/
theorem mem_eachElem (f : JV → Option Loc) (xs : List JV) (pos : Pos) :
    pos ∈ eachElem f xs ↔ ∃ i x l, xs[i]? = some x ∧ f x = some l ∧ pos ∈ (l.push i).list := by
  unfold eachElem
  simp only [List.mem_flatMap, List.mem_range]
  constructor
  · rintro ⟨i, hi, hpos⟩
    have hx : xs[i]? = some xs[i] := List.getElem?_eq_getElem hi
    rw [hx] at hpos
    simp only [Option.bind_some] at hpos
    cases hf : f xs[i] with
    | none => rw [hf] at hpos; simp at hpos
    | some l => rw [hf] at hpos; exact ⟨i, xs[i], l, hx, hf, hpos⟩
  · rintro ⟨i, x, l, hx, hf, hpos⟩
    refine ⟨i, lt_of_getElem?_some hx, ?_⟩
    rw [hx]
    simp only [Option.bind_some, hf]
    exact hpos

/-! ## 6. tokens of a tree and positions: the token range of a subtree -/

theorem toks_ne_nil : ∀ v : JV, toks v ≠ []
  | .str _ => by simp [toks]
  | .num _ => by simp [toks]
  | .tru => by simp [toks]
  | .fls => by simp [toks]
  | .nul => by simp [toks]
  | .arr _ => by simp [toks]
  | .obj _ => by simp [toks]

theorem ntoks_pos (v : JV) : 0 < ntoks v := by
  unfold ntoks
  exact List.length_pos_iff.mpr (toks_ne_nil v)

theorem sepTok_set {α : Type} (l : List α) (i : Nat) (x : α) : sepTok (l.set i x) = sepTok l := by
  cases l with
  | nil => rfl
  | cons a l => cases i <;> rfl

/-- the tokens of an array body around element `i` -/
theorem toksL_split : ∀ (xs : List JV) (i : Nat) (x : JV), xs[i]? = some x →
    ∃ pre post, toksL xs = pre ++ toks x ++ post ∧
      pre.length = ((xs.take i).map fun y => ntoks y + 1).sum ∧
      (pre = [] ∨ pre.getLast? = some .comma) ∧ (post = [] ∨ post.head? = some .comma) ∧
      ∀ x', toksL (xs.set i x') = pre ++ toks x' ++ post
  | [], _, _, h => by simp at h
  | y :: ys, 0, x, h => by
    simp only [List.getElem?_cons_zero, Option.some.injEq] at h
    subst h
    refine ⟨[], sepTok ys ++ toksL ys, by simp [toksL], by simp, Or.inl rfl, ?_, fun x' => by simp [toksL]⟩
    cases ys with
    | nil => left; simp [sepTok, toksL]
    | cons z zs => right; simp [sepTok]
  | y :: ys, i + 1, x, h => by
    simp only [List.getElem?_cons_succ] at h
    obtain ⟨pre, post, h1, h2, h3, h4, h5⟩ := toksL_split ys i x h
    have hne : sepTok ys = [.comma] := by
      cases ys with
      | nil => simp at h
      | cons z zs => rfl
    refine ⟨toks y ++ [.comma] ++ pre, post, ?_, ?_, ?_, h4, ?_⟩
    · simp [toksL, hne, h1]
    · simp [h2, ntoks]; omega
    · right
      rcases h3 with rfl | h3
      · simp
      · rw [List.getLast?_append, h3]; rfl
    · intro x'
      simp [toksL, sepTok_set, hne, h5 x']

/-- the tokens of an object body around member `i` -/
theorem toksM_split : ∀ (ms : List (Text × JV)) (i : Nat) (m : Text × JV), ms[i]? = some m →
    ∃ pre post, toksM ms = pre ++ toks m.2 ++ post ∧
      pre.length = ((ms.take i).map fun y => ntoks y.2 + 3).sum + 2 ∧
      pre.getLast? = some .colon ∧ (post = [] ∨ post.head? = some .comma) ∧
      ∀ x', toksM (ms.set i (m.1, x')) = pre ++ toks x' ++ post
  | [], _, _, h => by simp at h
  | (k, v) :: ys, 0, m, h => by
    simp only [List.getElem?_cons_zero, Option.some.injEq] at h
    subst h
    refine ⟨[.str k, .colon], sepTok ys ++ toksM ys, by simp [toksM], by simp, by simp, ?_, fun x' => by simp [toksM]⟩
    cases ys with
    | nil => left; simp [sepTok, toksM]
    | cons z zs => right; simp [sepTok]
  | (k, v) :: ys, i + 1, m, h => by
    simp only [List.getElem?_cons_succ] at h
    obtain ⟨pre, post, h1, h2, h3, h4, h5⟩ := toksM_split ys i m h
    have hne : sepTok ys = [.comma] := by
      cases ys with
      | nil => simp at h
      | cons z zs => rfl
    refine ⟨.str k :: .colon :: toks v ++ [.comma] ++ pre, post, ?_, ?_, ?_, h4, ?_⟩
    · simp [toksM, hne, h1]
    · simp [h2, ntoks]; omega
    · rw [List.getLast?_append, h3]; rfl
    · intro x'
      simp [toksM, sepTok_set, hne, h5 x']

theorem getLast?_append_ne {α : Type} (A B : List α) (h : B ≠ []) : (A ++ B).getLast? = B.getLast? := by
  rw [List.getLast?_append]
  cases hB : B.getLast? with
  | none => exact absurd (List.getLast?_eq_none_iff.mp hB) h
  | some b => rfl

theorem head?_append_ne {α : Type} (A B : List α) (h : A ≠ []) : (A ++ B).head? = A.head? := by
  cases A with
  | nil => exact absurd rfl h
  | cons a A => rfl

/-- a token list that does not end with a number -/
def NoNumEnd (A : List Tok) : Prop := ∀ r, A.getLast? ≠ some (.num r)

/-- what may follow a value inside a document: nothing, `,`, `]` or `}` -/
def EndOk (B : List Tok) : Prop :=
  B.head? = none ∨ B.head? = some .comma ∨ B.head? = some .rbrack ∨ B.head? = some .rbrace

theorem noNumEnd_step (P A1 : List Tok) (hPl : NoNumEnd P) (hA : NoNumEnd A1) : NoNumEnd (P ++ A1) := by
  intro r
  by_cases h : A1 = []
  · subst h; simpa using hPl r
  · rw [getLast?_append_ne _ _ h]; exact hA r

theorem endOk_step (B1 Q : List Tok) (hQh : EndOk Q) (hB : EndOk B1) : EndOk (B1 ++ Q) := by
  by_cases h : B1 = []
  · subst h; simpa using hQh
  · unfold EndOk
    rw [head?_append_ne _ _ h]
    rcases hB with hB | hB
    · cases B1 with
      | nil => exact absurd rfl h
      | cons b B1 => simp at hB
    · exact Or.inr hB

/-- **the token range of the subtree at a position**: the tokens of the tree are `A ++ toks sub ++ B`
with `A.length = tokStart`; `A` does not end with a number, `B` starts with a closing token or a
comma; and the tokens of the tree with that subtree replaced are `A ++ toks w ++ B` -/
theorem toks_splice : ∀ (pos : Pos) (d : JV) (k : Nat) (sub : JV), tokStart d pos = some k → getAt d pos = some sub →
    ∃ A B, toks d = A ++ toks sub ++ B ∧ A.length = k ∧ NoNumEnd A ∧ EndOk B ∧
      ∀ w d', replaceAt d pos w = some d' → toks d' = A ++ toks w ++ B
  | [], d, k, sub, hk, hg => by
    simp only [getAt_nil, Option.some.injEq] at hg
    subst hg
    have : k = 0 := by cases d <;> simp [tokStart] at hk <;> exact hk.symm
    subst this
    exact ⟨[], [], by simp, rfl, by intro r; simp, Or.inl rfl, fun w d' h => by simp at h; subst h; simp⟩
  | i :: p, d, k, sub, hk, hg => by
    cases d with
    | arr xs =>
      cases hx : xs[i]? with
      | none => rw [getAt_arr_none hx] at hg; cases hg
      | some x =>
        rw [getAt_arr_some hx] at hg
        simp only [tokStart, hx, Option.bind_some] at hk
        cases hk1 : tokStart x p with
        | none => rw [hk1] at hk; cases hk
        | some k1 =>
          rw [hk1] at hk
          simp only [Option.map_some, Option.some.injEq] at hk
          obtain ⟨A1, B1, e1, l1, n1, o1, r1⟩ := toks_splice p x k1 sub hk1 hg
          obtain ⟨pre, post, e2, l2, c2, c3, r2⟩ := toksL_split xs i x hx
          refine ⟨(.lbrack :: pre) ++ A1, B1 ++ (post ++ [.rbrack]), ?_, ?_, ?_, ?_, ?_⟩
          · simp [toks, e2, e1]
          · simp [l1, l2, ← hk]; omega
          · apply noNumEnd_step _ _ _ n1
            intro r
            rcases c2 with rfl | c2
            · simp
            · have : pre ≠ [] := by intro e; subst e; simp at c2
              rw [show Tok.lbrack :: pre = [Tok.lbrack] ++ pre from rfl, getLast?_append_ne _ _ this, c2]
              simp
          · apply endOk_step _ _ _ o1
            unfold EndOk
            rcases c3 with rfl | c3
            · simp
            · have : post ≠ [] := by intro e; subst e; simp at c3
              rw [head?_append_ne _ _ this, c3]; simp
          · intro w d' hr
            rcases replaceAt_cons_inv hr with ⟨xs', x0, x', he, hx0, hr', rfl⟩ | ⟨ms, m, x', he, _, _, _⟩
            · cases he
              rw [hx] at hx0
              cases hx0
              simp [toks, r2 x', r1 w x' hr']
            · cases he
    | obj ms =>
      cases hx : ms[i]? with
      | none => rw [getAt_obj_none hx] at hg; cases hg
      | some m =>
        rw [getAt_obj_some hx] at hg
        simp only [tokStart, hx, Option.bind_some] at hk
        cases hk1 : tokStart m.2 p with
        | none => rw [hk1] at hk; cases hk
        | some k1 =>
          rw [hk1] at hk
          simp only [Option.map_some, Option.some.injEq] at hk
          obtain ⟨A1, B1, e1, l1, n1, o1, r1⟩ := toks_splice p m.2 k1 sub hk1 hg
          obtain ⟨pre, post, e2, l2, c2, c3, r2⟩ := toksM_split ms i m hx
          have hpre : pre ≠ [] := by intro e; subst e; simp at c2
          refine ⟨(.lbrace :: pre) ++ A1, B1 ++ (post ++ [.rbrace]), ?_, ?_, ?_, ?_, ?_⟩
          · simp [toks, e2, e1]
          · simp [l1, l2, ← hk]; omega
          · apply noNumEnd_step _ _ _ n1
            intro r
            rw [show Tok.lbrace :: pre = [Tok.lbrace] ++ pre from rfl, getLast?_append_ne _ _ hpre, c2]
            simp
          · apply endOk_step _ _ _ o1
            unfold EndOk
            rcases c3 with rfl | c3
            · simp
            · have : post ≠ [] := by intro e; subst e; simp at c3
              rw [head?_append_ne _ _ this, c3]; simp
          · intro w d' hr
            rcases replaceAt_cons_inv hr with ⟨xs', x0, x', he, _, _, _⟩ | ⟨ms', m0, x', he, hx0, hr', rfl⟩
            · cases he
            · cases he
              rw [hx] at hx0
              cases hx0
              simp [toks, r2 x', r1 w x' hr']
    | str _ => cases hg
    | num _ => cases hg
    | tru => cases hg
    | fls => cases hg
    | nul => cases hg

/-! ## 7. bytes: concatenation of tokenised texts, tokens with offsets -/

theorem numStop_head {c : Byte} {r r' : Text} (h : NumStop (c :: r)) : NumStop (c :: r') := by
  intro c' t e
  simp only [List.cons.injEq] at e
  obtain ⟨e1, _⟩ := e
  subst e1
  exact h c r rfl

theorem tokStop_append {t : Tok} {s1 y : Text} (h : TokStop t s1) (hne : s1 ≠ []) : TokStop t (s1 ++ y) := by
  cases s1 with
  | nil => exact absurd rfl hne
  | cons c r =>
    cases t <;> first | trivial | exact numStop_head h

theorem allWs_of_tokens_nil {x : Text} (h : tokens x = some []) : AllWs x := by
  rw [tokens_unfold] at h
  obtain ⟨w, hw, hs, _⟩ := skipWs_decomp x
  cases hq : skipWs x with
  | nil => rw [hq] at hs; simp at hs; rw [hs]; exact hw
  | cons c r =>
    rw [hq] at h
    simp only at h
    cases hp : nextTok (c :: r) with
    | none => rw [hp] at h; cases h
    | some p => rw [hp] at h; simp at h

/-- boundary condition for gluing two texts: if the first ends with a number token, the second must
not start with a byte that continues a number -/
def Bd (tx : List Tok) (y : Text) : Prop := ∀ r, tx.getLast? = some (.num r) → NumStop y

/-- **tokens of a concatenation** -/
theorem tokens_append : ∀ (tx : List Tok) (x : Text) (ty : List Tok) (y : Text),
    tokens x = some tx → tokens y = some ty → Bd tx y → tokens (x ++ y) = some (tx ++ ty)
  | [], x, ty, y, hx, hy, _ => by
    rw [tokens_ws_prefix x y (allWs_of_tokens_nil hx), hy]; rfl
  | t :: ts', x, ty, y, hx, hy, hb => by
    obtain ⟨c, r, s1, h1, h2, h3⟩ := tokens_cons_inv hx
    obtain ⟨w, hw, hs, _⟩ := skipWs_decomp x
    obtain ⟨e, ok, hst⟩ := nextTok_spec _ _ _ h2
    rw [h1] at hs
    have hxy : x ++ y = w ++ (tokText t ++ (s1 ++ y)) := by rw [hs, e]; simp
    rw [hxy, tokens_ws_prefix _ _ hw]
    have hstop : TokStop t (s1 ++ y) := by
      by_cases hne : s1 = []
      · subst hne
        have : ts' = [] := by
          have := h3; rw [tokens_unfold] at this; simpa [skipWs] using this.symm
        subst this
        cases t <;> first | trivial | exact hb _ rfl
      · exact tokStop_append hst hne
    rw [tokens_tok t _ ok hstop]
    have hb' : Bd ts' y := by
      intro r hr
      apply hb r
      cases ts' with
      | nil => simp at hr
      | cons a l => simpa using hr
    rw [tokens_append ts' s1 ty y h3 hy hb']
    rfl

theorem tokLen_eq (t : Tok) : tokLen t = (tokText t).length := by
  cases t <;> rfl

theorem wsCount_spec : ∀ s : Text, ∃ w, AllWs w ∧ s = w ++ skipWs s ∧ w.length = wsCount s
  | [] => ⟨[], by simp [AllWs], by simp [skipWs], rfl⟩
  | c :: s => by
    by_cases hc : isWs c = true
    · obtain ⟨w, hw, hs, hl⟩ := wsCount_spec s
      refine ⟨c :: w, ?_, ?_, ?_⟩
      · intro x hx
        simp only [List.mem_cons] at hx
        rcases hx with rfl | hx
        · exact hc
        · exact hw x hx
      · simp only [skipWs, hc, ↓reduceIte, List.cons_append]; rw [← hs]
      · simp [wsCount, hc, hl]
    · refine ⟨[], by simp [AllWs], by simp [skipWs, hc], by simp [wsCount, hc]⟩

/-- the tokens with offsets are the tokens -/
theorem ptokensAux_tokens : ∀ (n off : Nat) (s : Text) (pt : List (Tok × Nat × Nat)), ptokensAux n off s = some pt →
    tokens s = some (pt.map (·.1))
  | 0, _, _, _, h => by simp [ptokensAux] at h
  | n + 1, off, s, pt, h => by
    rw [ptokensAux] at h
    rw [tokens_unfold]
    cases hq : skipWs s with
    | nil => rw [hq] at h; simp at h; subst h; rfl
    | cons c r =>
      rw [hq] at h
      simp only at h ⊢
      cases hp : nextTok (c :: r) with
      | none => rw [hp] at h; cases h
      | some p =>
        rw [hp] at h
        simp only at h ⊢
        cases hr : ptokensAux n (off + wsCount s + tokLen p.1) p.2 with
        | none => rw [hr] at h; cases h
        | some pt1 =>
          rw [hr] at h
          simp only [Option.map_some, Option.some.injEq] at h
          subst h
          rw [ptokensAux_tokens n _ p.2 pt1 hr]
          rfl

/-- **an entry of the offset table**: the text splits at the token; the offsets are the lengths; the
part before tokenises to the earlier tokens, the part after to the later ones -/
theorem ptokensAux_split : ∀ (n off : Nat) (s : Text) (pt : List (Tok × Nat × Nat)), ptokensAux n off s = some pt →
    ∀ (pre : List (Tok × Nat × Nat)) (t : Tok) (a b : Nat) (post : List (Tok × Nat × Nat)), pt = pre ++ (t, a, b) :: post →
    ∃ x z, s = x ++ (tokText t ++ z) ∧ a = off + x.length ∧ b = a + (tokText t).length ∧
      tokens x = some (pre.map (·.1)) ∧ tokens z = some (post.map (·.1))
  | 0, _, _, _, h, _, _, _, _, _, _ => by simp [ptokensAux] at h
  | n + 1, off, s, pt, h, pre, t, a, b, post, hpt => by
    rw [ptokensAux] at h
    cases hq : skipWs s with
    | nil =>
      rw [hq] at h; simp at h; subst h
      cases pre <;> simp at hpt
    | cons c r =>
      rw [hq] at h
      simp only at h
      cases hp : nextTok (c :: r) with
      | none => rw [hp] at h; cases h
      | some p =>
        rw [hp] at h
        simp only at h
        obtain ⟨t0, s1⟩ := p
        cases hr : ptokensAux n (off + wsCount s + tokLen t0) s1 with
        | none => rw [hr] at h; cases h
        | some pt1 =>
          rw [hr] at h
          simp only [Option.map_some, Option.some.injEq] at h
          obtain ⟨w, hw, hs, hl⟩ := wsCount_spec s
          obtain ⟨e, ok, hst⟩ := nextTok_spec _ _ _ hp
          rw [hq, e] at hs
          cases pre with
          | nil =>
            rw [← h] at hpt
            simp only [List.nil_append, List.cons.injEq, Prod.mk.injEq] at hpt
            obtain ⟨⟨rfl, rfl, rfl⟩, rfl⟩ := hpt
            refine ⟨w, s1, hs, by omega, by rw [tokLen_eq], ?_, ptokensAux_tokens n _ s1 _ hr⟩
            simpa using tokens_of_ws w hw
          | cons e0 pre' =>
            rw [← h] at hpt
            simp only [List.cons_append, List.cons.injEq] at hpt
            obtain ⟨rfl, hpt1⟩ := hpt
            obtain ⟨x1, z, hs1, ha, hb, hx1, hz⟩ := ptokensAux_split n _ s1 pt1 hr pre' t a b post hpt1
            refine ⟨w ++ (tokText t0 ++ x1), z, ?_, ?_, hb, ?_, hz⟩
            · rw [hs, hs1]; simp
            · rw [ha, tokLen_eq]; simp; omega
            · rw [tokens_ws_prefix _ _ hw]
              have hstop : TokStop t0 x1 := by
                cases x1 with
                | nil => cases t0 <;> first | trivial | exact numStop_nil
                | cons c1 r1 =>
                  rw [hs1] at hst
                  cases t0 <;> first | trivial | exact numStop_head hst
              rw [tokens_tok t0 x1 ok hstop, hx1]
              rfl

/-- a text whose tokens start with `,` `]` `}` (or that has none) does not continue a number -/
theorem numStop_of_endOk {z : Text} {tz : List Tok} (hz : tokens z = some tz) (he : EndOk tz) : NumStop z := by
  cases z with
  | nil => exact numStop_nil
  | cons c r =>
    by_cases hc : isWs c = true
    · exact numStop_of_ws r hc
    · have hc' : isWs c = false := by simpa using hc
      cases tz with
      | nil =>
        have := allWs_of_tokens_nil hz c (by simp)
        rw [this] at hc'; cases hc'
      | cons t tz =>
        obtain ⟨c1, r1, s1, h1, h2, _⟩ := tokens_cons_inv hz
        rw [skipWs_of_nonws c r hc'] at h1
        simp only [List.cons.injEq] at h1
        obtain ⟨rfl, rfl⟩ := h1
        unfold EndOk at he
        simp only [List.head?_cons, Option.some.injEq, reduceCtorEq, false_or] at he
        rcases he with rfl | rfl | rfl
        · obtain ⟨e, _⟩ := nextTok_punct_inv (x := 44) h2 rfl
          subst e; exact numStop_cons _ (by decide)
        · obtain ⟨e, _⟩ := nextTok_punct_inv (x := 93) h2 rfl
          subst e; exact numStop_cons _ (by decide)
        · obtain ⟨e, _⟩ := nextTok_punct_inv (x := 125) h2 rfl
          subst e; exact numStop_cons _ (by decide)

theorem split_at_getElem? {α : Type} : ∀ (l : List α) (k : Nat) (e : α), l[k]? = some e → l = l.take k ++ e :: l.drop (k + 1)
  | [], _, _, h => by simp at h
  | x :: xs, 0, e, h => by simp at h; simp [h]
  | x :: xs, k + 1, e, h => by
    simp only [List.getElem?_cons_succ] at h
    simp only [List.take_succ_cons, List.drop_succ_cons, List.cons_append, List.cons.injEq, true_and]
    exact split_at_getElem? xs k e h

theorem parse_tokens {s : Text} {v : JV} (h : parse s = some v) : tokens s = some (toks v) := by
  unfold parse at h
  cases ht : tokens s with
  | none => rw [ht] at h; cases h
  | some ts =>
    rw [ht] at h
    simp only [Option.bind_some] at h
    rw [parseToks_sound ts v h]

theorem parse_of_tokens {s : Text} {v : JV} (h : tokens s = some (toks v)) : parse s = some v := by
  unfold parse
  rw [h]
  exact parseToks_toks v

/-- **the byte splice is the tree replacement**: in a document `doc` with tree `d`, replacing the bytes
of the subtree at `pos` (as located by the offset table) by a JSON text `val` with tree `w` gives a
document whose tree is `replaceAt d pos w` -/
theorem splice_parse (doc : Text) (d : JV) (pt : List (Tok × Nat × Nat)) (pos : Pos) (ab : Nat × Nat) (val : Text)
    (w d' : JV) (hd : parse doc = some d) (hpt : ptokens doc = some pt) (hsp : spanAt pt d pos = some ab)
    (hv : parse val = some w) (hr : replaceAt d pos w = some d') : parse (splice doc ab val) = some d' := by
  have htd := parse_tokens hd
  have htv := parse_tokens hv
  have hmap : pt.map (·.1) = toks d := by
    have := ptokensAux_tokens _ 0 doc pt hpt
    rw [htd] at this
    exact (Option.some.inj this).symm
  unfold spanAt at hsp
  cases hk : tokStart d pos with
  | none => rw [hk] at hsp; cases hsp
  | some k =>
    obtain ⟨sub, hsub⟩ := getAt_some_of_replaceAt hr
    rw [hk, hsub] at hsp
    simp only at hsp
    cases h1 : pt[k]? with
    | none => rw [h1] at hsp; cases hsp
    | some e1 =>
      cases h2 : pt[k + ntoks sub - 1]? with
      | none => rw [h1, h2] at hsp; cases hsp
      | some e2 =>
        rw [h1, h2] at hsp
        obtain ⟨t1, a, b1⟩ := e1
        obtain ⟨t2, a2, b⟩ := e2
        simp only [Option.some.injEq] at hsp
        subst hsp
        obtain ⟨A, B, eT, lA, nA, oB, rT⟩ := toks_splice pos d k sub hk hsub
        have hn := ntoks_pos sub
        -- the text before the first token of the subtree
        obtain ⟨x, z1, hs1, ha, _, hx, _⟩ := ptokensAux_split _ 0 doc pt hpt _ t1 a b1 _ (split_at_getElem? pt k _ h1)
        -- the text after its last token
        obtain ⟨x2, z, hs2, ha2, hb, _, hz⟩ := ptokensAux_split _ 0 doc pt hpt _ t2 a2 b _ (split_at_getElem? pt _ _ h2)
        have hxA : tokens x = some A := by
          rw [hx, List.map_take, hmap, eT, List.append_assoc, List.take_left' lA]
        have hzB : tokens z = some B := by
          rw [hz, List.map_drop, hmap, eT]
          have : k + ntoks sub - 1 + 1 = (A ++ toks sub).length := by
            simp [lA, ntoks]; have := hn; unfold ntoks at this; omega
          rw [List.drop_left' this.symm]
        have htake : doc.take a = x := by
          rw [hs1]; exact List.take_left' (by omega)
        have hdrop : doc.drop b = z := by
          rw [hs2, ← List.append_assoc]; exact List.drop_left' (by simp; omega)
        unfold splice
        simp only [htake, hdrop]
        apply parse_of_tokens
        rw [rT w d' hr, List.append_assoc, List.append_assoc]
        apply tokens_append A x _ _ hxA
        · exact tokens_append (toks w) val B z htv hzB (fun r _ => numStop_of_endOk hzB oB)
        · intro r hr'; exact absurd hr' (nA r)

/-! ## 8. extensionality on TEXT paths, for documents without duplicate names -/

mutual
/-- every array of the tree has fewer than 2^63 elements (an element beyond that cannot be addressed:
`parseUint` wraps at 2^64 and `int(n)` is negative from 2^63 on) -/
def shortArrays : JV → Bool
  | .arr xs => decide (xs.length < 2 ^ 63) && shortArraysL xs
  | .obj ms => shortArraysM ms
  | _ => true
def shortArraysL : List JV → Bool
  | [] => true
  | x :: xs => shortArrays x && shortArraysL xs
def shortArraysM : List (Text × JV) → Bool
  | [] => true
  | (_, v) :: ms => shortArrays v && shortArraysM ms
end

theorem shortArraysL_iff : ∀ xs : List JV, shortArraysL xs = true ↔ ∀ x ∈ xs, shortArrays x = true
  | [] => by simp [shortArraysL]
  | x :: xs => by simp [shortArraysL, shortArraysL_iff xs]

theorem shortArraysM_iff : ∀ ms : List (Text × JV), shortArraysM ms = true ↔ ∀ m ∈ ms, shortArrays m.2 = true
  | [] => by simp [shortArraysM]
  | (k, v) :: ms => by simp [shortArraysM, shortArraysM_iff ms]

theorem shortArrays_arr (xs : List JV) :
    shortArrays (.arr xs) = true ↔ xs.length < 2 ^ 63 ∧ ∀ x ∈ xs, shortArrays x = true := by
  rw [shortArrays, Bool.and_eq_true, shortArraysL_iff, decide_eq_true_iff]

theorem shortArrays_obj (ms : List (Text × JV)) : shortArrays (.obj ms) = true ↔ ∀ m ∈ ms, shortArrays m.2 = true := by
  rw [shortArrays, shortArraysM_iff]

theorem digitsVal_eq_decodeNat (k : Text) : digitsVal k = decodeNat k := by
  unfold digitsVal decodeNat
  congr 1
  funext a c
  rw [Nat.mul_comm]

/-- the decimal text of an element number is a component that addresses that element -/
theorem idxOf_natToText (i : Nat) (h : i < 2 ^ 63) : idxOf (natToText i) false = some i := by
  obtain ⟨hne, hdig, hval⟩ := natToText_spec i
  unfold idxOf
  have h1 : (natToText i).isEmpty = false := by
    cases hq : natToText i with
    | nil => exact absurd hq hne
    | cons a l => rfl
  have h2 : (natToText i).all isDigit = true := by
    rw [List.all_eq_true]
    intro c hc
    obtain ⟨ha, hb⟩ := hdig c hc
    simp [isDigit, ha, hb]
  rw [digitsVal_eq_decodeNat, hval]
  have h3 : i % 2 ^ 64 = i := Nat.mod_eq_of_lt (by omega)
  simp [h1, h2, h3, h]

/-- in a list of pairwise different names, the member at `i` is the first (and only) one of its name -/
theorem nameIdx_of_distinct (ms : List (Text × JV)) (i : Nat) (m : Text × JV) (hn : nodupT (ms.map fun kv => gkey kv.1) = true)
    (hm : ms[i]? = some m) : nameIdx (gkey m.1) ms = some i := by
  apply memberIdx_some.mpr
  refine ⟨m, hm, rfl, rfl, ?_⟩
  intro t ht m' hm' hc
  have : t = i := by
    apply nodupT_unique _ t i (gkey m.1) hn
    · simp [hm', hc.1]
    · simp [hm]
  omega

theorem labelAt_nil (d : JV) : labelAt d [] = some (label d) := by simp [labelAt]

/-- the labels at all positions are determined by what `#`-free text paths read (label of the value
read, the empty path reading the root) — on documents without duplicate names and with addressable
arrays -/
theorem labelAt_of_getS : ∀ (pos : Pos) (a b : JV), distinctG a = true → distinctG b = true →
    shortArrays a = true → shortArrays b = true →
    (∀ p : Path, plain p = true → (getS a p).map label = (getS b p).map label) → labelAt a pos = labelAt b pos
  | [], a, b, _, _, _, _, h => by
    have := h [] rfl
    simpa [labelAt] using this
  | i :: pos1, a, b, da, db, sa, sb, h => by
    have hl : label a = label b := by
      have := h [] rfl
      simpa using this
    cases a with
    | arr xs =>
      cases b <;> simp [label] at hl
      rename_i ys
      obtain ⟨hlen, hsx⟩ := (shortArrays_arr xs).mp sa
      obtain ⟨_, hsy⟩ := (shortArrays_arr ys).mp sb
      unfold labelAt
      cases hx : xs[i]? with
      | none =>
        have : ys[i]? = none := by
          rw [List.getElem?_eq_none_iff] at hx ⊢; omega
        rw [getAt_arr_none hx, getAt_arr_none this]
      | some x =>
        have hi := lt_of_getElem?_some hx
        have hy : ys[i]? = some ys[i] := List.getElem?_eq_getElem (by omega)
        rw [getAt_arr_some hx, getAt_arr_some hy]
        apply labelAt_of_getS pos1 x ys[i] ((distinctG_arr xs).mp da x (List.mem_of_getElem? hx))
          ((distinctG_arr ys).mp db _ (List.mem_of_getElem? hy)) (hsx x (List.mem_of_getElem? hx))
          (hsy _ (List.mem_of_getElem? hy))
        intro p' hp'
        have := h (.key (natToText i) false :: p') (by simp [plain, isEach] at hp' ⊢; exact hp')
        rw [getS_arr, getS_arr, idxOf_natToText i (by omega)] at this
        simpa [hx, hy] using this
    | obj ms =>
      cases b <;> simp [label] at hl
      rename_i ns
      obtain ⟨hna, hda⟩ := (distinctG_obj ms).mp da
      obtain ⟨hnb, hdb⟩ := (distinctG_obj ns).mp db
      have hlen : ns.length = ms.length := by
        have := congrArg List.length hl; simpa using this.symm
      unfold labelAt
      cases hx : ms[i]? with
      | none =>
        have : ns[i]? = none := by
          rw [List.getElem?_eq_none_iff] at hx ⊢; omega
        rw [getAt_obj_none hx, getAt_obj_none this]
      | some m =>
        have hi := lt_of_getElem?_some hx
        have hy : ns[i]? = some ns[i] := List.getElem?_eq_getElem (by omega)
        have hk : ns[i].1 = m.1 := by
          have e1 : (ms.map (·.1))[i]? = some m.1 := by simp [hx]
          have e2 : (ns.map (·.1))[i]? = some ns[i].1 := by simp [hy]
          rw [hl] at e1
          rw [e1] at e2
          exact (Option.some.inj e2).symm
        rw [getAt_obj_some hx, getAt_obj_some hy]
        apply labelAt_of_getS pos1 m.2 ns[i].2 (hda m (List.mem_of_getElem? hx)) (hdb _ (List.mem_of_getElem? hy))
          ((shortArrays_obj ms).mp sa m (List.mem_of_getElem? hx)) ((shortArrays_obj ns).mp sb _ (List.mem_of_getElem? hy))
        intro p' hp'
        have := h (.key (gkey m.1) false :: p') (by simp [plain, isEach] at hp' ⊢; exact hp')
        rw [getS_obj, getS_obj] at this
        simp only [compName] at this
        rw [nameIdx_of_distinct ms i m hna hx] at this
        have : nameIdx (gkey m.1) ns = some i := by
          rw [← hk]; exact nameIdx_of_distinct ns i ns[i] hnb hy
        rename_i this0
        rw [this] at this0
        simpa [hx, hy] using this0
    | str _ => cases b <;> simp [label] at hl <;> rfl
    | num _ => cases b <;> simp [label] at hl <;> rfl
    | tru => cases b <;> simp [label] at hl <;> rfl
    | fls => cases b <;> simp [label] at hl <;> rfl
    | nul => cases b <;> simp [label] at hl <;> rfl

/-! ## 9. the text sjson writes for a Go string is a JSON string -/

def Transp (body : Text) : Prop :=
  ∀ rest, scanStr (body ++ rest) = (scanStr rest).map fun p => (body ++ p.1, p.2)

theorem transp_nil : Transp [] := by
  intro rest
  simp only [List.nil_append]
  cases scanStr rest <;> rfl

theorem transp_append {a b : Text} (ha : Transp a) (hb : Transp b) : Transp (a ++ b) := by
  intro rest
  rw [List.append_assoc, ha (b ++ rest), hb rest]
  cases scanStr rest <;> simp

theorem transp_byte (c : Byte) (h1 : ¬ c < 32) (h2 : c ≠ 92) (h3 : c ≠ 34) : Transp [c] := by
  intro rest
  exact scanStr_plain c rest h1 h2 h3

theorem transp_esc (e : Byte) (h : isSimpleEsc e = true) : Transp [92, e] := by
  intro rest
  exact scanStr_esc e rest h

theorem transp_u (h1 h2 h3 h4 : Byte) (x1 : isHex h1 = true) (x2 : isHex h2 = true) (x3 : isHex h3 = true)
    (x4 : isHex h4 = true) : Transp [92, 117, h1, h2, h3, h4] := by
  intro rest
  exact scanStr_u h1 h2 h3 h4 rest (by simp [x1, x2, x3, x4])

theorem not_lt32_of_not_lt128 {b : Byte} (h : ¬ b < 128) : ¬ b < 32 ∧ b ≠ 92 ∧ b ≠ 34 := by
  refine ⟨?_, ?_, ?_⟩
  · intro h'
    apply h
    rw [UInt8.lt_iff_toNat_lt] at h' ⊢
    have : (32 : UInt8).toNat = 32 := rfl
    have : (128 : UInt8).toNat = 128 := rfl
    omega
  · intro e; subst e; exact h (by decide)
  · intro e; subst e; exact h (by decide)

theorem transp_of_high : ∀ l : Text, (∀ b ∈ l, ¬ b < 128) → Transp l
  | [], _ => transp_nil
  | b :: l, h => by
    obtain ⟨h1, h2, h3⟩ := not_lt32_of_not_lt128 (h b (by simp))
    exact transp_append (a := [b]) (transp_byte b h1 h2 h3) (transp_of_high l (fun x hx => h x (by simp [hx])))

theorem contB_high {b : Byte} (h : contB b = true) : ¬ b < 128 := by
  simp only [contB, Bool.and_eq_true, decide_eq_true_eq] at h
  intro h'
  rw [UInt8.lt_iff_toNat_lt] at h'
  have := h.1
  rw [UInt8.le_iff_toNat_le] at this
  have e1 : (0x80 : UInt8).toNat = 128 := rfl
  have e2 : (128 : UInt8).toNat = 128 := rfl
  omega

theorem high_of_le {lo b : Byte} (hlo : ¬ lo < 128) (h : lo ≤ b) : ¬ b < 128 := by
  intro h'
  apply hlo
  rw [UInt8.lt_iff_toNat_lt] at h' ⊢
  rw [UInt8.le_iff_toNat_le] at h
  omega

theorem isHex_hexDigitLower (n : Nat) (h : n < 16) : isHex (hexDigitLower n) = true := by
  have : n = 0 ∨ n = 1 ∨ n = 2 ∨ n = 3 ∨ n = 4 ∨ n = 5 ∨ n = 6 ∨ n = 7 ∨ n = 8 ∨ n = 9 ∨ n = 10 ∨ n = 11 ∨
      n = 12 ∨ n = 13 ∨ n = 14 ∨ n = 15 := by omega
  rcases this with rfl | rfl | rfl | rfl | rfl | rfl | rfl | rfl | rfl | rfl | rfl | rfl | rfl | rfl | rfl | rfl <;> decide

theorem utf8_chunk_high (c : Byte) (r : Text) (hc : ¬ c < 128) (hk : utf8Len (c :: r) ≠ 0) :
    ∀ b ∈ (c :: r).take (utf8Len (c :: r)), ¬ b < 128 := by
  generalize hkk : utf8Len (c :: r) = k at hk ⊢
  have hc' : ¬ c < 0x80 := hc
  unfold utf8Len at hkk
  simp only [hc', ↓reduceIte] at hkk
  by_cases hA : (decide (0xC2 ≤ c) && decide (c ≤ 0xDF)) = true
  · simp only [hA, ↓reduceIte] at hkk
    cases r with
    | nil => exact absurd hkk.symm hk
    | cons b1 r1 =>
      simp only at hkk
      by_cases hb : contB b1 = true
      · simp only [hb, ↓reduceIte] at hkk
        subst hkk
        intro b hbm
        simp only [List.take_succ_cons, List.take_zero, List.mem_cons, List.not_mem_nil, or_false] at hbm
        rcases hbm with rfl | rfl
        · exact hc
        · exact contB_high hb
      · simp only [hb] at hkk
        exact absurd hkk.symm hk
  · simp only [hA, Bool.false_eq_true, ↓reduceIte] at hkk
    by_cases hB : (decide (0xE0 ≤ c) && decide (c ≤ 0xEF)) = true
    · simp only [hB, ↓reduceIte] at hkk
      match r, hkk with
      | [], hkk => exact absurd hkk.symm hk
      | [_], hkk => exact absurd hkk.symm hk
      | b1 :: b2 :: r2, hkk =>
        by_cases hb : (decide ((if c = 224 then (160 : Byte) else 128) ≤ b1) && decide (b1 ≤ if c = 237 then (159 : Byte) else 191) && contB b2) = true
        · have hkk' : (if (decide ((if c = 224 then (160 : Byte) else 128) ≤ b1) && decide (b1 ≤ if c = 237 then (159 : Byte) else 191) && contB b2) = true then 3 else 0) = k := hkk
          rw [if_pos hb] at hkk'
          subst hkk'
          simp only [Bool.and_eq_true, decide_eq_true_eq] at hb
          intro b hbm
          simp only [List.take_succ_cons, List.take_zero, List.mem_cons, List.not_mem_nil, or_false] at hbm
          rcases hbm with rfl | rfl | rfl
          · exact hc
          · refine high_of_le ?_ hb.1.1
            split <;> decide
          · exact contB_high hb.2
        · have hkk' : (if (decide ((if c = 224 then (160 : Byte) else 128) ≤ b1) && decide (b1 ≤ if c = 237 then (159 : Byte) else 191) && contB b2) = true then 3 else 0) = k := hkk
          rw [if_neg hb] at hkk'
          exact absurd hkk'.symm hk
    · simp only [hB, Bool.false_eq_true, ↓reduceIte] at hkk
      by_cases hC : (decide (0xF0 ≤ c) && decide (c ≤ 0xF4)) = true
      · simp only [hC, ↓reduceIte] at hkk
        match r, hkk with
        | [], hkk => exact absurd hkk.symm hk
        | [_], hkk => exact absurd hkk.symm hk
        | [_, _], hkk => exact absurd hkk.symm hk
        | b1 :: b2 :: b3 :: r3, hkk =>
          by_cases hb : (decide ((if c = 240 then (144 : Byte) else 128) ≤ b1) && decide (b1 ≤ if c = 244 then (143 : Byte) else 191) && contB b2 && contB b3) = true
          · have hkk' : (if (decide ((if c = 240 then (144 : Byte) else 128) ≤ b1) && decide (b1 ≤ if c = 244 then (143 : Byte) else 191) && contB b2 && contB b3) = true then 4 else 0) = k := hkk
            rw [if_pos hb] at hkk'
            subst hkk'
            simp only [Bool.and_eq_true, decide_eq_true_eq] at hb
            intro b hbm
            simp only [List.take_succ_cons, List.take_zero, List.mem_cons, List.not_mem_nil, or_false] at hbm
            rcases hbm with rfl | rfl | rfl | rfl
            · exact hc
            · refine high_of_le ?_ hb.1.1.1
              split <;> decide
            · exact contB_high hb.1.2
            · exact contB_high hb.2
          · have hkk' : (if (decide ((if c = 240 then (144 : Byte) else 128) ≤ b1) && decide (b1 ≤ if c = 244 then (143 : Byte) else 191) && contB b2 && contB b3) = true then 4 else 0) = k := hkk
            rw [if_neg hb] at hkk'
            exact absurd hkk'.symm hk
      · simp only [hC, Bool.false_eq_true, ↓reduceIte] at hkk
        exact absurd hkk.symm hk

/-- what `encoding/json` writes between the quotes is transparent to the scanner -/
theorem transp_marshalBody : ∀ (n : Nat) (s : Text), Transp (marshalBody n s)
  | 0, _ => by rw [marshalBody]; exact transp_nil
  | _ + 1, [] => by rw [marshalBody]; exact transp_nil
  | n + 1, c :: r => by
    rw [marshalBody]
    by_cases hc : c < 128
    · simp only [hc, ↓reduceIte]
      apply transp_append _ (transp_marshalBody n r)
      split
      · rename_i h1
        simp only [Bool.or_eq_true, decide_eq_true_eq] at h1
        rcases h1 with rfl | rfl <;> exact transp_esc _ (by decide)
      · rename_i h1
        simp only [Bool.or_eq_true, decide_eq_true_eq, not_or] at h1
        split
        · exact transp_esc _ (by decide)
        · split
          · exact transp_esc _ (by decide)
          · split
            · exact transp_esc _ (by decide)
            · split
              · exact transp_esc _ (by decide)
              · split
                · exact transp_esc _ (by decide)
                · split
                  · have hlt : c.toNat < 256 := UInt8.toNat_lt c
                    exact transp_u _ _ _ _ (by decide) (by decide) (isHex_hexDigitLower _ (by omega))
                      (isHex_hexDigitLower _ (Nat.mod_lt _ (by omega)))
                  · rename_i h7
                    simp only [Bool.or_eq_true, decide_eq_true_eq, not_or] at h7
                    exact transp_byte c h7.1.1.1 h1.1 h1.2
    · simp only [hc, ↓reduceIte]
      by_cases hk : utf8Len (c :: r) = 0
      · simp only [hk, ↓reduceIte]
        exact transp_append (transp_u _ _ _ _ (by decide) (by decide) (by decide) (by decide)) (transp_marshalBody n r)
      · simp only [hk, ↓reduceIte]
        split
        · exact transp_append (transp_u _ _ _ _ (by decide) (by decide) (by decide) (by decide)) (transp_marshalBody n _)
        · split
          · exact transp_append (transp_u _ _ _ _ (by decide) (by decide) (by decide) (by decide)) (transp_marshalBody n _)
          · exact transp_append (transp_of_high _ (utf8_chunk_high c r hc hk)) (transp_marshalBody n _)

/-- **the text sjson writes for a Go string is one JSON string token, hence a JSON value** -/
theorem stringify_parse (s : Text) : parse (stringify s) = some (.str (stringify s)) := by
  have key : ∀ body : Text, Transp body → parse (34 :: body ++ [34]) = some (.str (34 :: body ++ [34])) := by
    intro body hb
    have hs : scanStr (body ++ [34]) = some (body ++ [34], []) := by
      rw [hb [34], scanStr_quote]; rfl
    apply parse_of_tokens
    rw [tokens_unfold]
    have : skipWs (34 :: body ++ [34]) = 34 :: (body ++ [34]) := skipWs_of_nonws 34 _ (by decide)
    simp only [List.cons_append] at this ⊢
    rw [this]
    simp only
    rw [nextTok_str hs]
    simp only
    rw [tokens_unfold]
    simp [skipWs, toks]
  unfold stringify
  split
  · exact key _ (transp_marshalBody _ s)
  · rename_i hm
    apply key
    -- no byte needs care: every byte is >= 0x20, not `"`, not `\`
    have hall : ∀ c ∈ s, ¬ c < 32 ∧ c ≠ 92 ∧ c ≠ 34 := by
      intro c hcm
      have : ¬ (mustMarshal s = true) := hm
      unfold mustMarshal at this
      simp only [List.any_eq_true, not_exists, not_and] at this
      have := this c hcm
      simp only [Bool.or_eq_true, decide_eq_true_eq, beq_iff_eq, not_or] at this
      exact ⟨this.1.1.1, this.2, this.1.2⟩
    clear hm
    induction s with
    | nil => exact transp_nil
    | cons c s ih =>
      obtain ⟨h1, h2, h3⟩ := hall c (by simp)
      exact transp_append (a := [c]) (transp_byte c h1 h2 h3) (ih (fun x hx => hall x (by simp [hx])))

end GoSnaps.JsonPath
