/-
Helper lemmas about the top-level `clean` (Clean.lean): a case analysis exposing the three
stages (`occurrences`, `examineFiles`, `examineSnaps`) and the record it returns, and the fact
that `examineFiles` only ever lists registered paths as `used`.
-/
import GoSnaps.Lemmas.Clean
import GoSnaps.Props.C05
namespace GoSnaps

open Generated

/-- the paths `Clean` hands to `examineFiles` as registered snapshot files -/
def cleanRegPaths (w : World) : List Text := dedup (w.cleanup.map (·.1.1))

/-- `len(testEvents.items) > 0` as the model computes it -/
def cleanAnyEvent (w : World) : Bool :=
  decide (w.events.erred + w.events.added + w.events.updated + w.events.passed > 0)

/-- what `Clean` prints, given the two lists its stages returned -/
def cleanStdout (w : World) (sortOpt : Bool) (obsFiles obsTests : List Text) : Text :=
  let s := summary obsFiles obsTests w.skipped.length w.events (cleanAnyEvent w)
    (summaryUpdate w.env sortOpt)
  if s = [] then [] else s ++ [nl]

/-- a supported run of `Clean`: the three stages succeeded with these intermediate results -/
structure CleanRun (o : Oracles) (w : World) (sortOpt : Bool) (runOnly : Text) (count : Nat)
    (standalone : List Text) (fr : FilesResult) (obsTests : List Text) (fs : FS)
    (written : List Text) : Prop where
  count_ne : count ≠ 0
  occ : occurrences w.scleanup count standaloneOccFmt = some standalone
  files : examineFiles o w.fs (cleanRegPaths w) standalone runOnly (cleanFilesUpdate w.env sortOpt)
    = some fr
  snaps : examineSnaps o fr.fs w.cleanup w.skipped fr.used runOnly count
    (cleanSnapsUpdate w.env sortOpt) (cleanSnapsSort w.env sortOpt) = .ok obsTests fs written
  result : clean o w sortOpt runOnly count =
    ({ w with fs := fs },
     { writes := written, removed := fr.removed, stdout := cleanStdout w sortOpt fr.obsolete obsTests })

/-- **case analysis of `clean`**: either the model does not cover the input (`unsup`: the world is
    returned unchanged, nothing written / removed / printed), or all three stages succeeded -/
theorem clean_cases (o : Oracles) (w : World) (sortOpt : Bool) (runOnly : Text) (count : Nat) :
    (∃ why, clean o w sortOpt runOnly count = unsup w why) ∨
    ∃ standalone fr obsTests fs written,
      CleanRun o w sortOpt runOnly count standalone fr obsTests fs written := by
  by_cases hc : count = 0
  · left; exact ⟨_, by unfold clean; simp only [hc, ↓reduceIte]; rfl⟩
  · cases hocc : occurrences w.scleanup count standaloneOccFmt with
    | none => left; exact ⟨_, by unfold clean; simp only [hc, ↓reduceIte, hocc]; rfl⟩
    | some standalone =>
      cases hfiles : examineFiles o w.fs (cleanRegPaths w) standalone runOnly
          (cleanFilesUpdate w.env sortOpt) with
      | none =>
        left; exact ⟨_, by unfold clean; unfold cleanRegPaths at hfiles; simp only [hc, ↓reduceIte, hocc, hfiles]; rfl⟩
      | some fr =>
        have hfiles' := hfiles
        unfold cleanRegPaths at hfiles'
        cases hsn : examineSnaps o fr.fs w.cleanup w.skipped fr.used runOnly count
            (cleanSnapsUpdate w.env sortOpt) (cleanSnapsSort w.env sortOpt) with
        | missingOracle =>
          left; exact ⟨_, by unfold clean; simp only [hc, ↓reduceIte, hocc, hfiles', hsn]; rfl⟩
        | unsupportedOrder =>
          left; exact ⟨_, by unfold clean; simp only [hc, ↓reduceIte, hocc, hfiles', hsn]; rfl⟩
        | panics =>
          left; exact ⟨_, by unfold clean; simp only [hc, ↓reduceIte, hocc, hfiles', hsn]; rfl⟩
        | badFormat =>
          left; exact ⟨_, by unfold clean; simp only [hc, ↓reduceIte, hocc, hfiles', hsn]; rfl⟩
        | ok obsTests fs written =>
          right
          refine ⟨standalone, fr, obsTests, fs, written, hc, hocc, hfiles, hsn, ?_⟩
          unfold clean
          simp only [hc, ↓reduceIte, hocc, hfiles', hsn]
          rfl

/-- a supported run is a `CleanRun` -/
theorem clean_supported (o : Oracles) (w : World) (sortOpt : Bool) (runOnly : Text) (count : Nat)
    (hs : (clean o w sortOpt runOnly count).2.unsupported = none) :
    ∃ standalone fr obsTests fs written,
      CleanRun o w sortOpt runOnly count standalone fr obsTests fs written := by
  rcases clean_cases o w sortOpt runOnly count with ⟨why, h⟩ | h
  · rw [h] at hs; simp [unsup] at hs
  · exact h

/-- a `CleanRun` is supported -/
theorem CleanRun.supported {o : Oracles} {w : World} {sortOpt : Bool} {runOnly : Text} {count : Nat}
    {standalone : List Text} {fr : FilesResult} {obsTests : List Text} {fs : FS} {written : List Text}
    (h : CleanRun o w sortOpt runOnly count standalone fr obsTests fs written) :
    (clean o w sortOpt runOnly count).2.unsupported = none := by
  rw [h.result]

/-- `examineFiles` lists as `used` only registered paths -/
theorem examineFiles_used_sub (o : Oracles) (fs : FS) (regPaths standalone : List Text)
    (runOnly : Text) (update : Bool) (r : FilesResult)
    (h : examineFiles o fs regPaths standalone runOnly update = some r) :
    ∀ p ∈ r.used, p ∈ regPaths := by
  rw [examineFiles_eq] at h
  refine foldl_opt_inv (filesOuter o regPaths standalone runOnly update) (fun _ => rfl)
    (fun r => ∀ p ∈ r.used, p ∈ regPaths) _ ?_ { fs := fs } r (by simp) h
  intro a dir a' _ ha hstep
  unfold filesOuter at hstep
  simp only at hstep
  refine foldl_opt_inv (filesInner o regPaths standalone runOnly update dir) (fun _ => rfl)
    (fun r => ∀ p ∈ r.used, p ∈ regPaths) _ ?_ a a' ha hstep
  intro b x b' _ hb hs
  unfold filesInner at hs
  simp only at hs
  split at hs
  · cases hs; exact hb
  · split at hs
    · rename_i hreg
      cases hs
      intro p hp
      rcases List.mem_append.mp hp with h' | h'
      · exact hb p h'
      · simp only [List.mem_singleton] at h'; subst h'; simpa using hreg
    · split at hs
      · cases hs; exact hb
      · split at hs
        · cases hs
        · cases hs; exact hb
        · split at hs <;> (cases hs; exact hb)

/-- a successful file loop read every used path: each of them existed when the loop started -/
theorem examineSnaps_go_reads (o : Oracles) (cleanup : List (RegKey × Nat)) (skipped : List Text)
    (runOnly : Text) (count : Nat) (update sort : Bool) (used : List Text) (fs : FS)
    (obs written : List Text) (obs' : List Text) (fs' : FS) (w' : List Text)
    (h : examineSnaps.go o cleanup skipped runOnly count update sort used fs obs written =
      .ok obs' fs' w') :
    ∀ p ∈ used, ∃ c, fsRead fs p = some c := by
  induction used generalizing fs obs written with
  | nil => simp
  | cons p rest ih =>
    rw [examineSnaps_go_cons] at h
    split at h
    · cases h
    · rename_i content hread
      have hhead : ∀ q ∈ p :: rest, (q ∈ rest → ∃ c, fsRead fs q = some c) →
          ∃ c, fsRead fs q = some c := by
        intro q hq hr
        rcases List.mem_cons.mp hq with rfl | hq'
        · exact ⟨content, hread⟩
        · exact hr hq'
      split at h
      · cases h
      · rename_i registered _
        simp only [] at h
        generalize exScan o registered skipped runOnly update _ .outer {} = st at h
        generalize (if (sort && !(isSortedNat st.testIDs)) = true then sortNat st.testIDs
          else st.testIDs) = ids' at h
        split at h
        · cases h
        · split at h
          · cases h
          · split at h
            · intro q hq
              exact hhead q hq (fun hq' => ih _ _ _ h q hq')
            · split at h
              · cases h
              · split at h
                · cases h
                · intro q hq
                  refine hhead q hq (fun hq' => ?_)
                  obtain ⟨c, hc⟩ := ih _ _ _ h q hq'
                  by_cases e : q = p
                  · subst e; exact ⟨content, hread⟩
                  · rw [fsRead_fsWrite_ne _ _ _ _ e] at hc; exact ⟨c, hc⟩

end GoSnaps
