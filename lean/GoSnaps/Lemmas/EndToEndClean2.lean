/-
Model-level helper lemmas for `Props/Tie/EndToEndClean2.lean` (completeness of `Clean`'s report, idempotence
of `Clean` in every mode, `-count > 1`):

A. directory listings: `mem_readDir_iff` (an entry is listed iff it is the FIRST entry of its name that a
   path of the file system contributes), `readDir_lists_file` (a regular file `dir/name` under which no path
   lies is listed as a regular file — the listing after the run names the snapshot file),
   `mem_readDir_fsRemove_iff` / `mem_readDir_foldl_fsRemove_iff` (the generalisation of
   `Tie.readDir_fsRemove` to removed paths INSIDE the directory: every entry of another name is listed
   after the removal iff it was before), `not_mem_readDir_removed`, `readDir_congr` (the listing depends on
   the paths only), `paths_fsWrite_of_exists`;
B. `examineFiles_one`: the model's `examineFiles` for one registered path, no `-run` filter, in closed form;
   `cleanRegPaths_single`;
C. what the closed form lists under `JoinFaithful`: `mem_filesObs_iff`, `filesUsed_eq_single`,
   `filesUsed_nil_or_single`;
D. `examineFiles_one_again`: the listing of the directory after the obsolete files are gone (and the snapshot
   file possibly rewritten in place) names no obsolete file and names the snapshot file iff it did;
E. one file step in closed form with the entries that remain (`cleanOutcome_holds`); what is registered after a
   run (`registered_iff_slot`); the run leaves every other file alone (`run_frame`);
F. `-count > 1`: a history of closed rounds (`ClosedRound`): the running counters are all 0 and nothing is
   pending at the end of every round (`run_round_idle`, `run_rounds_idle`), the ordinal of a call is at most
   the number of calls of its test in its round so far (`ordinal_le_round`), and exactly that number for a
   `Scoped` round (`ordinal_eq_round`); `count_rounds`.
-/
import GoSnaps.Lemmas.EndToEndClean
import GoSnaps.Props.Tie.CleanTopIO2
import GoSnaps.Props.C12

namespace GoSnaps.CleanWorld

open GoSnaps GoSnaps.C06Refine GoSnaps.Wld GoSnaps.C01World
open GoSnaps.C03 (testID)
open GoSnaps.Tie (dirPrefix SimpleName JoinFaithful)

/-! ## A. directory listings -/

/-- the entry a path contributes to the listing of the directory whose prefix is `pre`: the first
    component below the directory, and whether the path goes on after it -/
def dirEnt (pre q : Text) : Option (Text × Bool) :=
  if hasPrefix q pre then
    if (q.drop pre.length).takeWhile (· ≠ slash) = [] then none
    else some ((q.drop pre.length).takeWhile (· ≠ slash),
      decide (((q.drop pre.length).takeWhile (· ≠ slash)).length ≠ (q.drop pre.length).length))
  else none

/-- the entries the paths of a file system contribute, in file-system order, with repetitions -/
def dirEnts (fs : FS) (dir : Text) : List (Text × Bool) := fs.filterMap (fun x => dirEnt (dirPrefix dir) x.1)

theorem readDir_eq_dirEnts (fs : FS) (dir : Text) :
    readDir fs dir = ((dirEnts fs dir).foldl (fun acc e => if acc.any (·.1 = e.1) then acc else acc ++ [e])
      []).foldr (fun x acc => readDir.ins x acc) [] := by
  unfold readDir dirEnts
  simp only
  congr 2

/-- the loop that keeps the first entry of every name -/
theorem mem_uniq_iff (ents acc : List (Text × Bool)) (e : Text × Bool) :
    e ∈ ents.foldl (fun acc e => if acc.any (·.1 = e.1) then acc else acc ++ [e]) acc ↔
      e ∈ acc ∨ ((∀ a ∈ acc, a.1 ≠ e.1) ∧ ents.find? (fun x => decide (x.1 = e.1)) = some e) := by
  induction ents generalizing acc with
  | nil => simp
  | cons x xs ih =>
    rw [List.foldl_cons, ih]
    by_cases hany : acc.any (·.1 = x.1) = true
    · simp only [hany, ↓reduceIte]
      obtain ⟨a, ha, hax⟩ := List.any_eq_true.mp hany
      simp only [decide_eq_true_eq] at hax
      by_cases hx : x.1 = e.1
      · constructor
        · rintro (h | ⟨h, _⟩)
          · exact Or.inl h
          · exact absurd (hax.trans hx) (h a ha)
        · rintro (h | ⟨h, _⟩)
          · exact Or.inl h
          · exact absurd (hax.trans hx) (h a ha)
      · simp only [List.find?_cons, hx, decide_false]
    · have hno : ∀ a ∈ acc, a.1 ≠ x.1 := by
        intro a ha hax
        exact hany (List.any_eq_true.mpr ⟨a, ha, by simp [hax]⟩)
      simp only [hany, Bool.false_eq_true, ↓reduceIte, List.mem_append, List.mem_singleton]
      by_cases hx : x.1 = e.1
      · simp only [List.find?_cons, hx, decide_true, Option.some.injEq]
        constructor
        · rintro ((h | h) | ⟨h, _⟩)
          · exact Or.inl h
          · subst h; exact Or.inr ⟨hno, rfl⟩
          · exact absurd hx (h x (Or.inr rfl))
        · rintro (h | ⟨_, h⟩)
          · exact Or.inl (Or.inl h)
          · exact Or.inl (Or.inr h.symm)
      · simp only [List.find?_cons, hx, decide_false]
        constructor
        · rintro ((h | h) | ⟨h, h'⟩)
          · exact Or.inl h
          · subst h; exact absurd rfl hx
          · exact Or.inr ⟨fun a ha => h a (Or.inl ha), h'⟩
        · rintro (h | ⟨h, h'⟩)
          · exact Or.inl (Or.inl h)
          · refine Or.inr ⟨?_, h'⟩
            rintro a (ha | ha)
            · exact h a ha
            · subst ha; exact hx

/-- **the listing, entry by entry**: `e` is listed iff it is the first entry of its name among those the
    paths of the file system contribute -/
theorem mem_readDir_iff (fs : FS) (dir : Text) (e : Text × Bool) :
    e ∈ readDir fs dir ↔ (dirEnts fs dir).find? (fun x => decide (x.1 = e.1)) = some e := by
  rw [readDir_eq_dirEnts, (Tie.readDir_sort_perm _).mem_iff, mem_uniq_iff]
  simp

theorem takeWhile_append_of_all {α : Type} (p : α → Bool) (l r : List α) (h : ∀ a ∈ l, p a = true) :
    (l ++ r).takeWhile p = l ++ r.takeWhile p := by
  induction l with
  | nil => rfl
  | cons a l ih =>
    simp only [List.cons_append, List.takeWhile_cons, h a (by simp), ↓reduceIte]
    rw [ih (fun b hb => h b (by simp [hb]))]

theorem hasPrefix_append (pre r : Text) : hasPrefix (pre ++ r) pre = true := by
  unfold hasPrefix
  exact List.isPrefixOf_iff_prefix.mpr (List.prefix_append _ _)

/-- the regular file `pre ++ n` contributes `(n, false)` -/
theorem dirEnt_file (pre n : Text) (hne : n ≠ []) (hns : slash ∉ n) : dirEnt pre (pre ++ n) = some (n, false) := by
  unfold dirEnt
  have hd : (pre ++ n).drop pre.length = n := by simp
  have ht : n.takeWhile (· ≠ slash) = n := by
    have := takeWhile_append_of_all (· ≠ slash) n [] (fun a ha => by
      simp only [ne_eq, decide_not, Bool.not_eq_eq_eq_not, Bool.not_true, decide_eq_false_iff_not]
      intro e; exact hns (e ▸ ha))
    simpa using this
  simp only [hasPrefix_append, ↓reduceIte, hd, ht, hne]
  simp

theorem not_slash_mem_takeWhile (t : Text) : slash ∉ t.takeWhile (· ≠ slash) := by
  induction t with
  | nil => simp
  | cons a t ih =>
    by_cases ha : a = slash
    · simp [ha]
    · simp only [List.takeWhile_cons, ne_eq, ha, not_false_eq_true, decide_true, ↓reduceIte, List.mem_cons, not_or]
      exact ⟨fun e => ha e.symm, ih⟩

theorem takeWhile_slash_cases (t : Text) :
    t.takeWhile (· ≠ slash) = t ∨ ∃ r, t = t.takeWhile (· ≠ slash) ++ slash :: r := by
  induction t with
  | nil => exact Or.inl rfl
  | cons a t ih =>
    by_cases ha : a = slash
    · right; exact ⟨t, by simp [ha]⟩
    · have e : (a :: t).takeWhile (· ≠ slash) = a :: t.takeWhile (· ≠ slash) := by
        simp [ha]
      rw [e]
      rcases ih with h | ⟨r, h⟩
      · left; rw [h]
      · right; exact ⟨r, by rw [List.cons_append, ← h]⟩

/-- what a contributed entry says about the path -/
theorem dirEnt_some (pre q n : Text) (b : Bool) (h : dirEnt pre q = some (n, b)) :
    n ≠ [] ∧ slash ∉ n ∧ hasPrefix q pre = true ∧ (b = false → q = pre ++ n) ∧
      (b = true → hasPrefix q (pre ++ n ++ [slash]) = true) := by
  unfold dirEnt at h
  cases hp : hasPrefix q pre with
  | false => rw [hp] at h; simp at h
  | true =>
    rw [hp] at h
    simp only [↓reduceIte] at h
    obtain ⟨t, ht⟩ := List.isPrefixOf_iff_prefix.mp hp
    have hd : q.drop pre.length = t := by rw [← ht]; simp
    rw [hd] at h
    generalize hn' : t.takeWhile (· ≠ slash) = n' at h
    split at h
    · cases h
    · rename_i hne
      simp only [Option.some.injEq, Prod.mk.injEq] at h
      obtain ⟨hn, hb⟩ := h
      subst hn
      have hsl : slash ∉ n' := hn' ▸ not_slash_mem_takeWhile t
      refine ⟨hne, hsl, rfl, ?_, ?_⟩
      · intro hb0
        subst hb0
        have hlen : n'.length = t.length := by
          by_cases hl : n'.length = t.length
          · exact hl
          · simp [hl] at hb
        rw [← hn'] at hlen
        have := Tie.takeWhile_eq_self_of_length _ _ hlen
        rw [← ht, ← hn', this]
      · intro hb1
        subst hb1
        have hlen : n'.length ≠ t.length := by
          intro hl
          simp [hl] at hb
        rcases takeWhile_slash_cases t with h1 | ⟨r, h1⟩
        · rw [hn'] at h1
          exact absurd (by rw [h1]) hlen
        · rw [hn'] at h1
          unfold hasPrefix
          apply List.isPrefixOf_iff_prefix.mpr
          refine ⟨r, ?_⟩
          rw [← ht, h1]
          simp

theorem mem_dirEnts (fs : FS) (dir : Text) (e : Text × Bool) :
    e ∈ dirEnts fs dir ↔ ∃ q c, (q, c) ∈ fs ∧ dirEnt (dirPrefix dir) q = some e := by
  unfold dirEnts
  rw [List.mem_filterMap]
  constructor
  · rintro ⟨⟨q, c⟩, hm, he⟩; exact ⟨q, c, hm, he⟩
  · rintro ⟨q, c, hm, he⟩; exact ⟨(q, c), hm, he⟩

theorem mem_of_fsRead_ne_none (fs : FS) (p : Text) (h : fsRead fs p ≠ none) : ∃ c, (p, c) ∈ fs := by
  induction fs with
  | nil => exact absurd rfl h
  | cons kv fs ih =>
    obtain ⟨p', c'⟩ := kv
    by_cases hp : p' = p
    · subst hp; exact ⟨c', by simp⟩
    · simp only [fsRead, hp, ↓reduceIte] at h
      obtain ⟨c, hc⟩ := ih h
      exact ⟨c, List.mem_cons_of_mem _ hc⟩

/-- `p` is not a directory of the file system: no path lies under `p/` -/
def NotDir (fs : FS) (p : Text) : Prop := ∀ q, hasPrefix q (p ++ [slash]) = true → fsRead fs q = none

/-- a decidable sufficient condition for `NotDir` -/
theorem notDir_of_paths (fs : FS) (p : Text)
    (h : ∀ q ∈ fs.map (·.1), hasPrefix q (p ++ [slash]) = false) : NotDir fs p := by
  intro q hq
  cases hr : fsRead fs q with
  | none => rfl
  | some c =>
    obtain ⟨c', hc⟩ := mem_of_fsRead_ne_none fs q (by rw [hr]; simp)
    have := h q (List.mem_map.mpr ⟨(q, c'), hc, rfl⟩)
    rw [hq] at this
    cases this

/-- **the listing names an existing regular file.**  If `dir/name` exists and is not at the same time a
    directory (no path of the file system lies under `dir/name/`), the listing of `dir` has the entry
    `(name, regular file)`. -/
theorem readDir_lists_file (fs : FS) (dir name : Text) (hne : name ≠ []) (hns : slash ∉ name)
    (hex : fsRead fs (dirPrefix dir ++ name) ≠ none) (hnd : NotDir fs (dirPrefix dir ++ name)) :
    (name, false) ∈ readDir fs dir := by
  rw [mem_readDir_iff]
  obtain ⟨c, hc⟩ := mem_of_fsRead_ne_none fs _ hex
  have hmem : (name, false) ∈ dirEnts fs dir :=
    (mem_dirEnts fs dir _).mpr ⟨_, c, hc, dirEnt_file _ _ hne hns⟩
  cases hf : (dirEnts fs dir).find? (fun x => decide (x.1 = (name, false).1)) with
  | none =>
    have := List.find?_eq_none.mp hf (name, false) hmem
    simp at this
  | some x =>
    have hx := List.find?_some hf
    simp only [decide_eq_true_eq] at hx
    have hxm := List.mem_of_find?_eq_some hf
    obtain ⟨n, b⟩ := x
    simp only at hx
    subst hx
    cases b with
    | false => rfl
    | true =>
      obtain ⟨q, c', hq, hd⟩ := (mem_dirEnts fs dir _).mp hxm
      have := (dirEnt_some _ _ _ _ hd).2.2.2.2 rfl
      exact absurd (hnd q this) (Tie.fsRead_of_mem fs q c' hq)

/-- the first entry of a name is not affected by the removal of a path that contributes no entry of
    that name -/
theorem find_dirEnts_fsRemove (fs : FS) (q dir n : Text)
    (h : ∀ b, dirEnt (dirPrefix dir) q ≠ some (n, b)) :
    (dirEnts (fsRemove fs q) dir).find? (fun x => decide (x.1 = n)) =
      (dirEnts fs dir).find? (fun x => decide (x.1 = n)) := by
  unfold dirEnts fsRemove
  induction fs with
  | nil => rfl
  | cons kv fs ih =>
    obtain ⟨q', c⟩ := kv
    by_cases hq : q' = q
    · subst hq
      simp only [ne_eq, not_true_eq_false, decide_false, Bool.false_eq_true, not_false_eq_true,
        List.filter_cons_of_neg, List.filterMap_cons]
      rw [ih]
      cases hd : dirEnt (dirPrefix dir) q' with
      | none => rfl
      | some e =>
        obtain ⟨n', b⟩ := e
        have hne : ¬ n' = n := fun e' => h b (by rw [hd, e'])
        simp only [List.find?_cons, hne, decide_false]
    · simp only [ne_eq, hq, not_false_eq_true, decide_true, List.filter_cons_of_pos, List.filterMap_cons]
      cases hd : dirEnt (dirPrefix dir) q' with
      | none => exact ih
      | some e =>
        simp only [List.find?_cons]
        split
        · rfl
        · exact ih

/-- **`readDir` after `fsRemove`, generalised** (`Tie.readDir_fsRemove` covers paths outside the directory):
    whatever path `q` is removed — outside `dir`, directly inside it, or deeper — an entry whose name is not
    the component of `q` below `dir` is listed afterwards iff it was listed before -/
theorem mem_readDir_fsRemove_iff (fs : FS) (q dir : Text) (e : Text × Bool)
    (h : ∀ b, dirEnt (dirPrefix dir) q ≠ some (e.1, b)) :
    e ∈ readDir (fsRemove fs q) dir ↔ e ∈ readDir fs dir := by
  rw [mem_readDir_iff, mem_readDir_iff, find_dirEnts_fsRemove fs q dir e.1 h]

/-- the special case `Tie.readDir_fsRemove` covers — a path outside the directory —, entry by entry -/
theorem mem_readDir_fsRemove_outside (fs : FS) (q dir : Text) (e : Text × Bool)
    (h : hasPrefix q (dirPrefix dir) = false) :
    e ∈ readDir (fsRemove fs q) dir ↔ e ∈ readDir fs dir :=
  mem_readDir_fsRemove_iff fs q dir e (fun b hd => by unfold dirEnt at hd; rw [h] at hd; simp at hd)

/-- the case that was missing: a regular file `dir/n` directly inside the directory is removed — every entry
    of another name is listed afterwards iff it was listed before -/
theorem mem_readDir_fsRemove_inside (fs : FS) (dir n : Text) (e : Text × Bool) (hne : n ≠ []) (hns : slash ∉ n)
    (he : e.1 ≠ n) :
    e ∈ readDir (fsRemove fs (dirPrefix dir ++ n)) dir ↔ e ∈ readDir fs dir :=
  mem_readDir_fsRemove_iff fs _ dir e (fun b hd => by
    rw [dirEnt_file _ _ hne hns] at hd
    simp only [Option.some.injEq, Prod.mk.injEq] at hd
    exact he hd.1.symm)

theorem mem_readDir_foldl_fsRemove_iff (qs : List Text) (dir : Text) (e : Text × Bool)
    (h : ∀ q ∈ qs, ∀ b, dirEnt (dirPrefix dir) q ≠ some (e.1, b)) (fs : FS) :
    e ∈ readDir (qs.foldl fsRemove fs) dir ↔ e ∈ readDir fs dir := by
  induction qs generalizing fs with
  | nil => rfl
  | cons q qs ih =>
    rw [List.foldl_cons, ih (fun q' hq' => h q' (by simp [hq'])),
      mem_readDir_fsRemove_iff _ _ _ _ (h q (by simp))]

/-- a removed regular file is not listed as a regular file any more -/
theorem not_mem_readDir_removed (fs : FS) (qs : List Text) (dir name : Text)
    (h : dirPrefix dir ++ name ∈ qs) : (name, false) ∉ readDir (qs.foldl fsRemove fs) dir := by
  intro hm
  have := Tie.readDir_file_exists _ _ _ hm
  rw [Tie.fsRead_foldl_fsRemove_iff, if_pos h] at this
  exact this rfl

/-- the listing depends on the paths of the file system only -/
theorem readDir_congr (fs fs' : FS) (dir : Text) (h : fs'.map (·.1) = fs.map (·.1)) :
    readDir fs' dir = readDir fs dir := by
  have hd : ∀ f : FS, dirEnts f dir = (f.map (·.1)).filterMap (dirEnt (dirPrefix dir)) := by
    intro f; unfold dirEnts; rw [List.filterMap_map]; rfl
  rw [readDir_eq_dirEnts, readDir_eq_dirEnts, hd, hd, h]

/-- writing an existing file leaves the list of paths as it is -/
theorem paths_fsWrite_of_exists (fs : FS) (p c : Text) (h : fsRead fs p ≠ none) :
    (fsWrite fs p c).map (·.1) = fs.map (·.1) := by
  induction fs with
  | nil => exact absurd rfl h
  | cons kv fs ih =>
    obtain ⟨p', c'⟩ := kv
    by_cases hp : p' = p
    · subst hp; simp [fsWrite]
    · simp only [fsRead, hp, ↓reduceIte] at h
      simp only [fsWrite, hp, ↓reduceIte, List.map_cons, ih h]

/-- **the listing after a write**: rewriting an existing file changes no listing -/
theorem readDir_fsWrite_of_exists (fs : FS) (p c dir : Text) (h : fsRead fs p ≠ none) :
    readDir (fsWrite fs p c) dir = readDir fs dir :=
  readDir_congr _ _ _ (paths_fsWrite_of_exists fs p c h)

/-- **the listing after the run's write names the snapshot file**: after `fsWrite` of `dir/name` (existing or
    not) the listing of `dir` has the entry `(name, regular file)`, provided nothing lay under `dir/name/` -/
theorem readDir_fsWrite_lists (fs : FS) (dir name c : Text) (hne : name ≠ []) (hns : slash ∉ name)
    (hnd : NotDir fs (dirPrefix dir ++ name)) :
    (name, false) ∈ readDir (fsWrite fs (dirPrefix dir ++ name) c) dir := by
  apply readDir_lists_file _ _ _ hne hns
  · rw [fsRead_fsWrite]; simp
  · intro q hq
    have hqp : q ≠ dirPrefix dir ++ name := by
      intro e
      subst e
      unfold hasPrefix at hq
      have := (List.isPrefixOf_iff_prefix.mp hq).length_le
      simp at this
      omega
    rw [fsRead_fsWrite_ne _ _ _ _ hqp]
    exact hnd q hq

/-! ## B. `examineFiles` for one registered path, no `-run` filter: closed form -/

/-- a regular file whose name contains `.snap` -/
def candM (x : Text × Bool) : Bool := !(x.2 || !(containsSub x.1 Generated.snapsExt))

/-- the obsolete files of one listing: candidates whose path is not the registered one -/
def filesObs (p dir : Text) (L : List (Text × Bool)) : List Text :=
  (L.filter (fun x => candM x && !(fpJoin [dir, x.1] == p))).map (fun x => fpJoin [dir, x.1])

/-- the used files of one listing: candidates whose path is the registered one -/
def filesUsed (p dir : Text) (L : List (Text × Bool)) : List Text :=
  (L.filter (fun x => candM x && (fpJoin [dir, x.1] == p))).map (fun x => fpJoin [dir, x.1])

/-- the inner loop of `examineFiles` over a listing: one registered path, no standalone snapshot, no filter -/
theorem filesInner_fold_one (o : Oracles) (p dir : Text) (update : Bool) (L : List (Text × Bool)) :
    ∀ r : FilesResult, L.foldl (filesInner o [p] [] [] update dir) (some r) =
      some { obsolete := r.obsolete ++ filesObs p dir L, used := r.used ++ filesUsed p dir L,
             fs := if update then (filesObs p dir L).foldl fsRemove r.fs else r.fs,
             removed := r.removed ++ if update then filesObs p dir L else [] } := by
  induction L with
  | nil => intro r; cases update <;> simp [filesObs, filesUsed]
  | cons x L ih =>
    intro r
    rw [List.foldl_cons]
    have hstep : filesInner o [p] [] [] update dir (some r) x =
        some (if candM x then
          if fpJoin [dir, x.1] == p then { r with used := r.used ++ [fpJoin [dir, x.1]] }
          else if update then { r with obsolete := r.obsolete ++ [fpJoin [dir, x.1]],
                                       fs := fsRemove r.fs (fpJoin [dir, x.1]),
                                       removed := r.removed ++ [fpJoin [dir, x.1]] }
          else { r with obsolete := r.obsolete ++ [fpJoin [dir, x.1]] }
        else r) := by
      unfold filesInner candM
      simp only [C08.isFileSkipped_runOnly_empty, List.contains_cons, List.contains_nil, Bool.or_false]
      cases h1 : (x.2 || !containsSub x.1 Generated.snapsExt) <;>
        cases h2 : (fpJoin [dir, x.1] == p) <;> cases update <;> simp
    rw [hstep]
    cases h1 : candM x <;> cases h2 : (fpJoin [dir, x.1] == p) <;> cases update <;>
      simp [ih, filesObs, filesUsed, h1, h2]

theorem dedup_single (x : Text) : dedup [x] = [x] := by simp [dedup]

theorem sortBytes_single (x : Text) : sortBytes [x] = [x] := by simp [sortBytes, sortBytes.ins]

/-- **`examineFiles`, one registered path, no `-run` filter, closed form**: the directory of `p` is listed
    once; the candidates (regular files with `.snap` in their name) whose path is `p` are `used`, the others
    are obsolete and, when `update`, removed -/
theorem examineFiles_one (o : Oracles) (fs : FS) (p : Text) (update : Bool) :
    examineFiles o fs [p] [] [] update =
      some { obsolete := filesObs p (fpDir p) (readDir fs (fpDir p)),
             used := filesUsed p (fpDir p) (readDir fs (fpDir p)),
             fs := if update then (filesObs p (fpDir p) (readDir fs (fpDir p))).foldl fsRemove fs else fs,
             removed := if update then filesObs p (fpDir p) (readDir fs (fpDir p)) else [] } := by
  rw [examineFiles_eq]
  simp only [List.append_nil, List.map_cons, List.map_nil, dedup_single, sortBytes_single, List.foldl_cons,
    List.foldl_nil]
  unfold filesOuter
  simp only
  rw [filesInner_fold_one]
  simp

/-- no registered path: nothing is listed -/
theorem examineFiles_none (o : Oracles) (fs : FS) (update : Bool) :
    examineFiles o fs [] [] [] update = some { fs := fs } := by
  rw [examineFiles_eq]
  rfl

/-- the registered paths `Clean` hands to `examineFiles`, when every key addresses `p` -/
theorem cleanRegPaths_single (w : World) (p : Text) (hne : w.cleanup ≠ [])
    (hkeys : ∀ kv ∈ w.cleanup, kv.1.1 = p) : cleanRegPaths w = [p] := by
  unfold cleanRegPaths
  obtain ⟨hnd, hmem⟩ := Tie.dedup_spec (w.cleanup.map (·.1.1))
  have hall : ∀ x ∈ dedup (w.cleanup.map (·.1.1)), x = p := by
    intro x hx
    obtain ⟨kv, hkv, rfl⟩ := List.mem_map.mp ((hmem x).mp hx)
    exact hkeys kv hkv
  rcases Tie.nodup_all_eq _ p hnd hall with h | h
  · exfalso
    obtain ⟨kv, hkv⟩ := List.exists_mem_of_ne_nil _ hne
    have : kv.1.1 ∈ dedup (w.cleanup.map (·.1.1)) := (hmem _).mpr (List.mem_map.mpr ⟨kv, hkv, rfl⟩)
    rw [h] at this
    cases this
  · exact h

theorem cleanRegPaths_nil (w : World) (h : w.cleanup = []) : cleanRegPaths w = [] := by
  unfold cleanRegPaths; rw [h]; rfl

/-! ## C. what the closed form lists, when `filepath.Join` is faithful on the directory -/

theorem snapsExt_eq' : Generated.snapsExt = Generated.go_snapsExt := by decide

/-- a candidate of a listing has a simple name -/
theorem cand_simple (fs : FS) (dir : Text) (x : Text × Bool) (hx : x ∈ readDir fs dir) (hc : candM x = true) :
    x.2 = false ∧ SimpleName x.1 := by
  unfold candM at hc
  simp only [Bool.not_eq_true', Bool.or_eq_false_iff, Bool.not_eq_false'] at hc
  obtain ⟨h1, h2⟩ := readDir_name fs dir x hx
  exact ⟨hc.1, h1, h2, snapsExt_eq' ▸ hc.2⟩

/-- a listed regular file with a simple name is a candidate -/
theorem candM_of_simple (name : Text) (h : SimpleName name) : candM (name, false) = true := by
  unfold candM
  simp [snapsExt_eq', h.2.2]

/-- **the obsolete files of a listing**: exactly the regular files `dir/name` of the listing with a simple
    name (`.snap` in it) other than the registered path -/
theorem mem_filesObs_iff (fs : FS) (p : Text) (hj : JoinFaithful (fpDir p)) (q : Text) :
    q ∈ filesObs p (fpDir p) (readDir fs (fpDir p)) ↔
      ∃ name, SimpleName name ∧ (name, false) ∈ readDir fs (fpDir p) ∧
        q = dirPrefix (fpDir p) ++ name ∧ q ≠ p := by
  unfold filesObs
  rw [List.mem_map]
  constructor
  · rintro ⟨x, hx, rfl⟩
    obtain ⟨hxm, hxc⟩ := List.mem_filter.mp hx
    simp only [Bool.and_eq_true, Bool.not_eq_true', beq_eq_false_iff_ne, ne_eq] at hxc
    obtain ⟨hd, hs⟩ := cand_simple fs _ x hxm hxc.1
    refine ⟨x.1, hs, ?_, hj _ hs, hxc.2⟩
    have : x = (x.1, false) := by rw [← hd]
    rw [← this]; exact hxm
  · rintro ⟨name, hs, hm, rfl, hne⟩
    refine ⟨(name, false), List.mem_filter.mpr ⟨hm, ?_⟩, hj _ hs⟩
    simp only [Bool.and_eq_true, Bool.not_eq_true', beq_eq_false_iff_ne, ne_eq]
    exact ⟨candM_of_simple name hs, by rw [hj _ hs]; exact hne⟩

/-- **the used files of a listing**: `p` is used iff it is `dir/name` for a listed regular file of simple name -/
theorem mem_filesUsed_iff (fs : FS) (p : Text) (hj : JoinFaithful (fpDir p)) (q : Text) :
    q ∈ filesUsed p (fpDir p) (readDir fs (fpDir p)) ↔
      q = p ∧ ∃ name, SimpleName name ∧ (name, false) ∈ readDir fs (fpDir p) ∧
        p = dirPrefix (fpDir p) ++ name := by
  unfold filesUsed
  rw [List.mem_map]
  constructor
  · rintro ⟨x, hx, rfl⟩
    obtain ⟨hxm, hxc⟩ := List.mem_filter.mp hx
    simp only [Bool.and_eq_true, beq_iff_eq] at hxc
    obtain ⟨hd, hs⟩ := cand_simple fs _ x hxm hxc.1
    refine ⟨hxc.2, x.1, hs, ?_, by rw [← hj _ hs]; exact hxc.2.symm⟩
    have : x = (x.1, false) := by rw [← hd]
    rw [← this]; exact hxm
  · rintro ⟨rfl, name, hs, hm, hp⟩
    refine ⟨(name, false), List.mem_filter.mpr ⟨hm, ?_⟩, by rw [hj _ hs]; exact hp.symm⟩
    simp only [Bool.and_eq_true, beq_iff_eq]
    exact ⟨candM_of_simple name hs, by rw [hj _ hs]; exact hp.symm⟩

/-- the snapshot file is handed on at most once -/
theorem filesUsed_nil_or_single (fs : FS) (p : Text) (hj : JoinFaithful (fpDir p)) :
    filesUsed p (fpDir p) (readDir fs (fpDir p)) = [] ∨ filesUsed p (fpDir p) (readDir fs (fpDir p)) = [p] := by
  apply Tie.nodup_all_eq
  · unfold filesUsed
    apply Tie.nodup_map_of_inj_on (fun x : Text × Bool => fpJoin [fpDir p, x.1]) (fun x : Text × Bool => x.1)
    · exact (List.filter_sublist.map _).nodup (Tie.readDir_names_nodup fs (fpDir p))
    · intro a ha b hb hab
      obtain ⟨ham, hac⟩ := List.mem_filter.mp ha
      obtain ⟨hbm, hbc⟩ := List.mem_filter.mp hb
      simp only [Bool.and_eq_true, beq_iff_eq] at hac hbc
      rw [hj _ (cand_simple fs _ a ham hac.1).2, hj _ (cand_simple fs _ b hbm hbc.1).2] at hab
      exact List.append_cancel_left hab
  · intro q hq
    exact ((mem_filesUsed_iff fs p hj q).mp hq).1

/-- **the snapshot file is examined**: when `p` is `dir/name` with a simple name and the listing names it as a
    regular file, `examineFiles` hands on exactly `[p]` -/
theorem filesUsed_eq_single (fs : FS) (p name : Text) (hj : JoinFaithful (fpDir p)) (hs : SimpleName name)
    (hp : p = dirPrefix (fpDir p) ++ name) (hm : (name, false) ∈ readDir fs (fpDir p)) :
    filesUsed p (fpDir p) (readDir fs (fpDir p)) = [p] := by
  rcases filesUsed_nil_or_single fs p hj with h | h
  · have : p ∈ filesUsed p (fpDir p) (readDir fs (fpDir p)) :=
      (mem_filesUsed_iff fs p hj p).mpr ⟨rfl, name, hs, hm, hp⟩
    rw [h] at this
    cases this
  · exact h

/-! ## D. the listing after the obsolete files are gone -/

/-- after the obsolete files `R` of the first listing have been removed, an entry whose path is not one of
    them is listed iff it was listed before -/
theorem mem_readDir_after_obs (fs : FS) (p : Text) (hj : JoinFaithful (fpDir p)) (x : Text × Bool)
    (hnot : dirPrefix (fpDir p) ++ x.1 ∉ filesObs p (fpDir p) (readDir fs (fpDir p))) :
    x ∈ readDir ((filesObs p (fpDir p) (readDir fs (fpDir p))).foldl fsRemove fs) (fpDir p) ↔
      x ∈ readDir fs (fpDir p) := by
  apply mem_readDir_foldl_fsRemove_iff
  intro q hq b hd
  obtain ⟨name, hs, _, rfl, _⟩ := (mem_filesObs_iff fs p hj q).mp hq
  rw [dirEnt_file _ _ hs.1 hs.2.1] at hd
  simp only [Option.some.injEq, Prod.mk.injEq] at hd
  exact hnot (hd.1 ▸ hq)

theorem nil_or_single_eq {l l' : List Text} {p : Text} (h : l = [] ∨ l = [p]) (h' : l' = [] ∨ l' = [p])
    (hiff : p ∈ l ↔ p ∈ l') : l = l' := by
  rcases h with h | h <;> rcases h' with h' | h' <;> rw [h, h'] at hiff ⊢ <;> simp at hiff

/-- **the second `examineFiles`.**  Let the first one (one registered path `p`, no `-run` filter) have
    returned `fr`, and let `fs'` have the paths of `fr.fs` (the file system after the removals, the snapshot
    file possibly rewritten in place).  Then the listing of the directory names no obsolete file that the
    first call removed and names `p` iff it did: the second `examineFiles` hands on the same `used` list,
    removes nothing, and reports — in clean mode nothing, otherwise the same files again. -/
theorem examineFiles_one_again (o : Oracles) (fs fs' : FS) (p : Text) (update : Bool)
    (hj : JoinFaithful (fpDir p)) (fr : FilesResult)
    (h : examineFiles o fs [p] [] [] update = some fr) (hpaths : fs'.map (·.1) = fr.fs.map (·.1)) :
    examineFiles o fs' [p] [] [] update =
      some { obsolete := if update then [] else fr.obsolete, used := fr.used, fs := fs', removed := [] } := by
  rw [examineFiles_one] at h ⊢
  simp only [Option.some.injEq] at h
  subst h
  simp only at hpaths ⊢
  rw [readDir_congr _ _ _ hpaths]
  cases update with
  | false => simp
  | true =>
    simp only [↓reduceIte]
    generalize hR : filesObs p (fpDir p) (readDir fs (fpDir p)) = R
    have hRp : p ∉ R := by
      intro hm
      rw [← hR] at hm
      obtain ⟨_, _, _, _, hne⟩ := (mem_filesObs_iff fs p hj p).mp hm
      exact hne rfl
    have hobs : filesObs p (fpDir p) (readDir (R.foldl fsRemove fs) (fpDir p)) = [] := by
      apply List.eq_nil_iff_forall_not_mem.mpr
      intro q hq
      obtain ⟨name, hs, hm, rfl, hne⟩ := (mem_filesObs_iff _ p hj q).mp hq
      by_cases hin : dirPrefix (fpDir p) ++ name ∈ R
      · exact not_mem_readDir_removed fs R (fpDir p) name hin hm
      · have hm' := hm
        rw [← hR] at hm' hin
        rw [mem_readDir_after_obs fs p hj (name, false) hin] at hm'
        exact hin ((mem_filesObs_iff fs p hj _).mpr ⟨name, hs, hm', rfl, hne⟩)
    have hused : filesUsed p (fpDir p) (readDir (R.foldl fsRemove fs) (fpDir p)) =
        filesUsed p (fpDir p) (readDir fs (fpDir p)) := by
      apply nil_or_single_eq (filesUsed_nil_or_single _ p hj) (filesUsed_nil_or_single _ p hj)
      rw [mem_filesUsed_iff _ p hj, mem_filesUsed_iff _ p hj]
      constructor
      · rintro ⟨_, name, hs, hm, hp⟩
        refine ⟨rfl, name, hs, ?_, hp⟩
        rw [← hR] at hm hRp
        exact (mem_readDir_after_obs fs p hj (name, false) (hp ▸ hRp)).mp hm
      · rintro ⟨_, name, hs, hm, hp⟩
        refine ⟨rfl, name, hs, ?_, hp⟩
        rw [← hR] at hRp ⊢
        exact (mem_readDir_after_obs fs p hj (name, false) (hp ▸ hRp)).mpr hm
    rw [hobs, hused]
    simp

/-! ## E. one file step with what remains; what is registered after a run; the run's frame -/

/-- **a successful file step, with the entries that remain**: the ids reported are those of the entries the
    step does not keep; afterwards the file holds a `CleanFile` that is a PERMUTATION of the entries kept
    (`K`) — plus the others when `update` is off —, written only when something had to change -/
theorem cleanOutcome_holds (K : Text → Bool) (es : List Entry) (hf : CleanFile es) (p : Text) (fs : FS)
    (update sort : Bool) (obs : List Text) (fs' : FS) (w : List Text)
    (h : cleanOutcome K es p fs update sort = .ok obs fs' w) :
    obs = (es.filter (fun e => !K (tidOf e))).map tidOf ∧
    ∃ es', es'.Perm (es.filter (fun e => K (tidOf e) || !update)) ∧ CleanFile es' ∧
      ((fs' = fs ∧ w = [] ∧ es' = es) ∨ (fs' = fsWrite fs p (render es') ∧ w = [p])) := by
  unfold cleanOutcome at h
  simp only at h
  generalize hids : (if (sort && !(isSortedNat (es.map tidOf))) = true then sortNat (es.map tidOf)
    else es.map tidOf) = ids' at h
  have hperm : ids'.Perm (es.map tidOf) := by
    rw [← hids]
    split
    · exact sortNat_perm _
    · exact List.Perm.refl _
  split at h
  · rename_i hc
    simp only [SnapsOutcome.ok.injEq] at h
    refine ⟨h.1.symm, es, ?_, hf, Or.inl ⟨h.2.1.symm, h.2.2.symm, rfl⟩⟩
    have hall : es.filter (fun e => K (tidOf e) || !update) = es := by
      apply List.filter_eq_self.mpr
      intro e he
      cases hu : update with
      | false => simp
      | true =>
        rw [hu] at hc
        simp only [Bool.true_and, Bool.and_eq_true, Bool.not_eq_true'] at hc
        have := List.any_eq_false.mp hc.1 e he
        simpa using this
    rw [hall]
  · split at h
    · cases h
    · simp only [SnapsOutcome.ok.injEq] at h
      obtain ⟨hf2, _⟩ := cleanFile_reorder es hf (fun e => K (tidOf e) || !update) ids' hperm
      exact ⟨h.1.symm, _, reorder_perm es _ ids' hf.distinct hperm, hf2, Or.inr ⟨h.2.1.symm, h.2.2.symm⟩⟩

/-- the ids `occurrences` protects for the calls `seen` of a process run with `-count = cnt`: for a called
    test `t` with quotient `c = (calls of t) / cnt`, the ordinals `1 … c` — and `c` itself, even when it
    is 0 (a test that makes fewer calls than `cnt` registers `t - 0`: what the code does) -/
def SlotId (seen : List Text) (cnt : Nat) (tid : Text) : Prop :=
  ∃ t ∈ seen, ∃ k, tid = t ++ [32, 45, 32] ++ natToText k ∧
    (k = seen.count t / cnt ∨ (1 ≤ k ∧ k ≤ seen.count t / cnt))

/-- the keys of the cleanup registry are pairwise different and are names that were called -/
structure RegExact (w : World) (seen : List Text) : Prop where
  nodup : (w.cleanup.map (·.1)).Nodup
  called : ∀ kv ∈ w.cleanup, kv.1.2 ∈ seen

theorem run_regExact (c : Cfg) (caller : Text) (h : List Step) :
    ∀ (w : World) (seen : List Text), RegExact w seen →
      RegExact (run c caller w h).1 ((calledNames h).reverse ++ seen) := by
  induction h with
  | nil => intro w seen hi; simpa [run, calledNames] using hi
  | cons st h ih =>
    intro w seen hi
    cases st with
    | call t s cmp x =>
      have hstep : RegExact (matchEntry w c caller t x cmp (.ok s)).1 (t :: seen) := by
        obtain ⟨_, h2, _⟩ := matchEntry_regs w c caller t x cmp (.ok s)
        constructor
        · rw [h2]; exact nodup_keys_alSet _ _ _ hi.nodup
        · intro kv hkv
          rw [h2] at hkv
          rcases mem_alSet_imp _ _ _ _ hkv with e | hm
          · rw [e]; simp
          · exact List.mem_cons_of_mem _ (hi.called kv hm)
      have := ih _ _ hstep
      simpa [run, C01World.step, calledNames] using this
    | done x =>
      have hstep : RegExact (endTest w x) seen :=
        ⟨by rw [endTest_cleanup]; exact hi.nodup, fun kv hkv => hi.called kv (by rw [endTest_cleanup] at hkv; exact hkv)⟩
      have := ih _ _ hstep
      simpa [run, C01World.step, calledNames] using this

/-- **what is registered after a run**: exactly the slots of the called tests -/
theorem registered_iff_slot (w : World) (p : Text) (seen : List Text) (cnt : Nat) (registered : List Text)
    (hi : RegInv p w seen) (hx : RegExact w seen)
    (hreg : registeredFor w.cleanup p cnt = some registered) (tid : Text) :
    tid ∈ registered ↔ SlotId seen cnt tid := by
  unfold registeredFor at hreg
  rw [occurrences_eq] at hreg
  obtain ⟨tail, rfl, hs, hc⟩ := occFold_spec _ cnt snapshotOccFmt [] registered hreg
  have hmine : ∀ (t : Text) (n : Nat),
      (t, n) ∈ (w.cleanup.filter (·.1.1 = p)).map (fun (k, n) => (k.2, n)) ↔ ((p, t), n) ∈ w.cleanup := by
    intro t n
    constructor
    · intro hm
      obtain ⟨⟨⟨p', t'⟩, n'⟩, hm2, heq⟩ := List.mem_map.mp hm
      obtain ⟨hm3, hp⟩ := List.mem_filter.mp hm2
      simp only [decide_eq_true_eq] at hp
      simp only [Prod.mk.injEq] at heq
      obtain ⟨rfl, rfl⟩ := heq
      subst hp
      exact hm3
    · intro hm
      exact List.mem_map.mpr ⟨((p, t), n), List.mem_filter.mpr ⟨hm, by simp⟩, rfl⟩
  constructor
  · intro ht
    obtain ⟨⟨t, n⟩, hxm, k, hk, hfmt⟩ := hs tid ht
    have hm := (hmine t n).mp hxm
    have hn : n = seen.count t := by
      rw [← hi.get t]; exact (alGet_of_mem_nodup _ hx.nodup _ _ hm).symm
    subst hn
    rw [snapshotOccFmt_eq] at hfmt
    exact ⟨t, hx.called _ hm, k, (Option.some.inj hfmt).symm, (mem_occKs _ _).mp hk⟩
  · rintro ⟨t, ht, k, rfl, hk⟩
    obtain ⟨tid', hfmt, hm⟩ := hc (t, seen.count t) ((hmine _ _).mpr (hi.mem t ht)) k ((mem_occKs _ _).mpr hk)
    rw [snapshotOccFmt_eq] at hfmt
    exact (Option.some.inj hfmt) ▸ hm

/-- the header `[t - k]` and the id `t - k` -/
theorem id_eq_testID_of_tid {e : Entry} (hr : Recognised e) {t : Text} {k : Nat}
    (h : tidOf e = t ++ [32, 45, 32] ++ natToText k) : e.id = testID t k := by
  rw [hr.id_eq, h]
  simp [testID]

/-- **every flow leaves every other file alone** (any history, any mode) -/
theorem run_frame (c : Cfg) (caller p rel : Text)
    (hsp : ∀ t, snapshotPath c caller t false = (p, some rel)) (h : List Step) :
    ∀ (w : World) (q : Text), q ≠ p → fsRead (run c caller w h).1.fs q = fsRead w.fs q := by
  induction h with
  | nil => intro w q _; rfl
  | cons st h ih =>
    intro w q hq
    cases st with
    | call t s cmp x =>
      have hstep : (run c caller w (.call t s cmp x :: h)).1 =
          (run c caller (entryTail (bumped w p t x) c p rel
            (testID t (alGet w.running (p, t) + 1)) s cmp).1 h).1 := by
        simp only [run, C01World.step, matchEntry_eq w c caller t x cmp s p rel (hsp t)]
      rw [hstep, ih _ q hq, (C12.entryTail_frame _ c p rel _ s cmp).2 q hq, bumped_fs]
    | done x =>
      have hstep : (run c caller w (.done x :: h)).1 = (run c caller (endTest w x) h).1 := by
        simp only [run, C01World.step]
      rw [hstep, ih _ q hq, endTest_fs]

/-- the snapshot file does not become a directory during the run -/
theorem run_notDir (c : Cfg) (caller p rel : Text)
    (hsp : ∀ t, snapshotPath c caller t false = (p, some rel)) (h : List Step) (w : World)
    (hnd : NotDir w.fs p) : NotDir (run c caller w h).1.fs p := by
  intro q hq
  have hqp : q ≠ p := by
    intro e
    subst e
    unfold hasPrefix at hq
    have := (List.isPrefixOf_iff_prefix.mp hq).length_le
    simp at this
    omega
  rw [run_frame c caller p rel hsp h w q hqp]
  exact hnd q hq

/-! ## F. `-count > 1`: a history of closed rounds -/

/-- a round (one execution of the test functions): every call is followed, in the round, by the end of the
    test execution that made it (`t.Cleanup`) -/
def ClosedRound : List Step → Prop
  | [] => True
  | .call _ _ _ x :: r => Step.done x ∈ r ∧ ClosedRound r
  | .done _ :: r => ClosedRound r

instance decClosedRound : ∀ r : List Step, Decidable (ClosedRound r)
  | [] => isTrue trivial
  | .call _ _ _ x :: r =>
    have := decClosedRound r
    inferInstanceAs (Decidable (Step.done x ∈ r ∧ ClosedRound r))
  | .done _ :: r => decClosedRound r

/-- what is still open in the middle of a round: every running counter that is not 0, and every pending
    cleanup, belongs to a test execution whose end is still to come -/
structure OpenInv (w : World) (r : List Step) : Prop where
  running : ∀ k, alGet w.running k ≠ 0 → ∃ x, (x, Pending.reg k) ∈ w.pending ∧ Step.done x ∈ r
  pending : ∀ e ∈ w.pending, Step.done e.1 ∈ r

/-- a world between two rounds: every running counter is 0, nothing is pending -/
structure Idle (w : World) : Prop where
  running : ∀ k, alGet w.running k = 0
  pending : w.pending = []

theorem Idle.open {w : World} (h : Idle w) (r : List Step) : OpenInv w r :=
  ⟨fun k hk => absurd (h.running k) hk, fun e he => by rw [h.pending] at he; cases he⟩

/-- **a closed round ends idle**: `t.Cleanup` has reset every counter the round bumped -/
theorem run_round_idle (c : Cfg) (caller : Text) (r : List Step) :
    ∀ w : World, ClosedRound r → OpenInv w r → Idle (run c caller w r).1 := by
  induction r with
  | nil =>
    intro w _ hi
    refine ⟨fun k => ?_, ?_⟩
    · by_cases hk : alGet w.running k = 0
      · exact hk
      · obtain ⟨_, _, hm⟩ := hi.running k hk
        cases hm
    · cases hp : w.pending with
      | nil => exact hp
      | cons e es => have := hi.pending e (by rw [hp]; simp); cases this
  | cons st r ih =>
    intro w hcl hi
    cases st with
    | call t s cmp x =>
      have hstep : (run c caller w (.call t s cmp x :: r)).1 =
          (run c caller (matchEntry w c caller t x cmp (.ok s)).1 r).1 := by simp only [run, C01World.step]
      rw [hstep]
      apply ih _ hcl.2
      obtain ⟨m1, _, m3⟩ := matchEntry_regs w c caller t x cmp (.ok s)
      constructor
      · intro k hk
        rw [m1] at hk
        rw [m3]
        by_cases hkk : k = ((snapshotPath c caller t false).1, t)
        · subst hkk
          exact ⟨x, by simp, hcl.1⟩
        · rw [regBump_running_other _ _ _ hkk] at hk
          obtain ⟨x', hp, hd⟩ := hi.running k hk
          refine ⟨x', List.mem_cons_of_mem _ hp, ?_⟩
          rcases List.mem_cons.mp hd with e | hd
          · cases e
          · exact hd
      · intro e he
        rw [m3] at he
        rcases List.mem_cons.mp he with rfl | he
        · exact hcl.1
        · rcases List.mem_cons.mp (hi.pending e he) with e' | hd
          · cases e'
          · exact hd
    | done x =>
      have hstep : (run c caller w (.done x :: r)).1 = (run c caller (endTest w x) r).1 := by
        simp only [run, C01World.step]
      rw [hstep]
      apply ih _ hcl
      constructor
      · intro k hk
        rw [endTest_running] at hk
        split at hk
        · exact absurd rfl hk
        · rename_i hnp
          obtain ⟨x', hp, hd⟩ := hi.running k hk
          have hne : x' ≠ x := fun e => hnp (e ▸ hp)
          refine ⟨x', ?_, ?_⟩
          · rw [endTest_pending]
            exact List.mem_filter.mpr ⟨hp, by simpa using hne⟩
          · rcases List.mem_cons.mp hd with e | hd
            · exact absurd (Step.done.inj e) hne
            · exact hd
      · intro e he
        rw [endTest_pending] at he
        obtain ⟨he1, he2⟩ := List.mem_filter.mp he
        simp only [ne_eq, decide_not, Bool.not_eq_eq_eq_not, Bool.not_true, decide_eq_false_iff_not] at he2
        rcases List.mem_cons.mp (hi.pending e he1) with e' | hd
        · exact absurd (Step.done.inj e') he2
        · exact hd

/-- **consecutive closed rounds end idle** -/
theorem run_rounds_idle (c : Cfg) (caller : Text) (rounds : List (List Step))
    (hcl : ∀ r ∈ rounds, ClosedRound r) : ∀ w : World, Idle w → Idle (run c caller w rounds.flatten).1 := by
  induction rounds with
  | nil => intro w hw; exact hw
  | cons r rs ih =>
    intro w hw
    rw [List.flatten_cons, run_append]
    exact ih (fun r' hr' => hcl r' (by simp [hr'])) _ (run_round_idle c caller r w (hcl r (by simp)) (hw.open r))

theorem calledNames_append' (h1 h2 : List Step) :
    calledNames (h1 ++ h2) = calledNames h1 ++ calledNames h2 := by
  induction h1 with
  | nil => rfl
  | cons st h1 ih => cases st <;> simp [calledNames, ih]

/-- a call bumps the running counter of its test by one, the end of a test execution never raises one -/
theorem run_running_le_count (c : Cfg) (caller p : Text)
    (hsp : ∀ t, (snapshotPath c caller t false).1 = p) (h : List Step) (t : Text) :
    ∀ w : World, alGet (run c caller w h).1.running (p, t) ≤
      alGet w.running (p, t) + (calledNames h).count t := by
  induction h with
  | nil => intro w; simp [run, calledNames]
  | cons st h ih =>
    intro w
    cases st with
    | call t' s cmp x =>
      have hstep : (run c caller w (.call t' s cmp x :: h)).1 =
          (run c caller (matchEntry w c caller t' x cmp (.ok s)).1 h).1 := by simp only [run, C01World.step]
      rw [hstep]
      refine Nat.le_trans (ih _) ?_
      obtain ⟨m1, _, _⟩ := matchEntry_regs w c caller t' x cmp (.ok s)
      simp only [hsp] at m1
      rw [m1]
      by_cases ht : t' = t
      · subst ht
        rw [regBump_running_same]
        simp [calledNames]
        omega
      · have hk : (p, t) ≠ (p, t') := fun e => ht (Prod.mk.inj e).2.symm
        rw [regBump_running_other _ _ _ hk]
        simp [calledNames, ht]
    | done x =>
      have hstep : (run c caller w (.done x :: h)).1 = (run c caller (endTest w x) h).1 := by
        simp only [run, C01World.step]
      rw [hstep]
      refine Nat.le_trans (ih _) ?_
      rw [endTest_running]
      simp only [calledNames]
      split <;> omega

/-- **the ordinal of a call in a later round** (`-count > 1`): after any number of closed rounds `R1`, the
    call of `t` that follows `h1` in the current round obtains an ordinal (`running + 1`) that is at most the
    number of calls of `t` in the CURRENT round up to and including itself -/
theorem ordinal_le_round (c : Cfg) (caller p : Text) (hsp : ∀ t, (snapshotPath c caller t false).1 = p)
    (w : World) (hw : Idle w) (R1 : List (List Step)) (hcl : ∀ r ∈ R1, ClosedRound r)
    (h1 : List Step) (t : Text) :
    alGet (run c caller w (R1.flatten ++ h1)).1.running (p, t) + 1 ≤ (calledNames h1).count t + 1 := by
  rw [run_append]
  have hidle := run_rounds_idle c caller R1 hcl w hw
  have := run_running_le_count c caller p hsp h1 t (run c caller w R1.flatten).1
  rw [hidle.running] at this
  omega

/-- the calls made so far, after a part of a history -/
def pastAfter : List (Text × Nat) → List Step → List (Text × Nat)
  | past, [] => past
  | past, .call t _ _ x :: h => pastAfter ((t, x) :: past) h
  | past, .done _ :: h => pastAfter past h

theorem pastAfter_names (h : List Step) : ∀ past : List (Text × Nat),
    (pastAfter past h).map Prod.fst = (calledNames h).reverse ++ past.map Prod.fst := by
  induction h with
  | nil => intro past; rfl
  | cons st h ih =>
    intro past
    cases st with
    | call t s cmp x => simp [pastAfter, calledNames, ih]
    | done x => simp [pastAfter, calledNames, ih]

/-- `C01World.Inv` through the first part of a `Scoped` history -/
theorem run_inv_scoped (c : Cfg) (caller p : Text)
    (hsp : ∀ t, ∃ rel?, snapshotPath c caller t false = (p, rel?)) (h1 h2 : List Step) :
    ∀ (w : World) (past : List (Text × Nat)), Inv p w past (h1 ++ h2) → Scoped past (h1 ++ h2) →
      Inv p (run c caller w h1).1 (pastAfter past h1) h2 := by
  induction h1 with
  | nil => intro w past hi _; exact hi
  | cons st h1 ih =>
    intro w past hi hs
    cases st with
    | call t s cmp x =>
      obtain ⟨rel?, hr⟩ := hsp t
      exact ih _ _ (hi.call c caller rel? hr) hs
    | done x =>
      exact ih _ _ (hi.done hs.1) hs.2

/-- **the ordinal of a call in a later round, exactly**: if the current round is `Scoped` (a test is not
    called again once its execution has ended), the call of `t` that follows `h1` in it obtains EXACTLY the
    ordinal `(calls of t in h1) + 1`: the `k`-th call of `t` in every execution addresses `[t - k]` -/
theorem ordinal_eq_round (c : Cfg) (caller p : Text)
    (hsp : ∀ t, ∃ rel?, snapshotPath c caller t false = (p, rel?))
    (w : World) (hw : Idle w) (R1 : List (List Step)) (hcl : ∀ r ∈ R1, ClosedRound r)
    (h1 h2 : List Step) (t s : Text) (cmp : Cmp) (x : Nat) (hsc : Scoped [] (h1 ++ .call t s cmp x :: h2)) :
    alGet (run c caller w (R1.flatten ++ h1)).1.running (p, t) + 1 = (calledNames h1).count t + 1 := by
  rw [run_append]
  have hidle := run_rounds_idle c caller R1 hcl w hw
  have hinv : Inv p (run c caller w R1.flatten).1 [] (h1 ++ .call t s cmp x :: h2) :=
    ⟨fun t' _ => by rw [hidle.running]; rfl, fun x' k hm => by rw [hidle.pending] at hm; cases hm⟩
  have := (run_inv_scoped c caller p hsp h1 _ _ [] hinv hsc).ord t (by simp [calledNames])
  rw [this, pastAfter_names]
  simp

/-- the calls of a history of rounds that all make `m` calls of `t` -/
theorem count_rounds (rounds : List (List Step)) (t : Text) (m : Nat)
    (h : ∀ r ∈ rounds, (calledNames r).count t = m) :
    (calledNames rounds.flatten).count t = rounds.length * m := by
  induction rounds with
  | nil => simp [calledNames]
  | cons r rs ih =>
    rw [List.flatten_cons, calledNames_append', List.count_append, h r (by simp),
      ih (fun r' hr' => h r' (by simp [hr'])), List.length_cons, Nat.succ_mul]
    omega

end GoSnaps.CleanWorld
