import GoSnaps.Difflib
import GoSnaps.DifflibSpec

/-! Helper lemmas for `DifflibProps.lean`. -/
set_option linter.unusedSectionVars false
set_option linter.unusedVariables false

namespace GoSnaps.Difflib

variable {α : Type} [DecidableEq α]

/-! ## Part 1: findLongestMatch returns a valid block -/

theorem indicesFrom_mem {x : α} {l : List α} {s j : Nat} (h : j ∈ indicesFrom x l s) :
    s ≤ j ∧ l[j - s]? = some x := by
  induction l generalizing s with
  | nil => simp [indicesFrom] at h
  | cons y ys ih =>
    simp only [indicesFrom] at h
    split at h
    · rename_i hy
      simp only [List.mem_cons] at h
      rcases h with rfl | h
      · simp [hy]
      · obtain ⟨h1, h2⟩ := ih h
        refine ⟨by omega, ?_⟩
        have : j - s = (j - (s + 1)) + 1 := by omega
        rw [this]; simpa using h2
    · obtain ⟨h1, h2⟩ := ih h
      refine ⟨by omega, ?_⟩
      have : j - s = (j - (s + 1)) + 1 := by omega
      rw [this]; simpa using h2

theorem b2j_mem {b : List α} {x : α} {j : Nat} (h : j ∈ b2j b x) : b[j]? = some x := by
  unfold b2j at h
  simp only at h
  split at h
  · simp at h
  · simpa using (indicesFrom_mem h).2

/-- `a[i-k+1 .. i] = b[j-k+1 .. j]`, inside the window -/
def EndsAt (a b : List α) (alo blo bhi i j k : Nat) : Prop :=
  k ≤ i + 1 - alo ∧ alo ≤ i ∧ k ≤ j + 1 - blo ∧ blo ≤ j ∧ j < bhi ∧
  ∀ t, t < k → ∃ x, a[i - t]? = some x ∧ b[j - t]? = some x

def MapOK (a b : List α) (alo blo bhi i : Nat) (m : List (Nat × Nat)) : Prop :=
  ∀ p ∈ m, 1 ≤ p.2 ∧ EndsAt a b alo blo bhi i p.1 p.2

/-- `best` is a real matching block inside the window -/
def BestOK (a b : List α) (alo ahi blo bhi : Nat) (best : Match) : Prop :=
  alo ≤ best.i ∧ best.i + best.k ≤ ahi ∧ blo ≤ best.j ∧ best.j + best.k ≤ bhi ∧
  ∀ t, t < best.k → ∃ x, a[best.i + t]? = some x ∧ b[best.j + t]? = some x

theorem look_ok {a b : List α} {alo blo bhi i : Nat} {m : List (Nat × Nat)}
    (h : MapOK a b alo blo bhi i m) (j : Nat) :
    look m j = 0 ∨ EndsAt a b alo blo bhi i j (look m j) := by
  induction m with
  | nil => simp [look]
  | cons p m ih =>
    obtain ⟨j', k⟩ := p
    simp only [look]
    split
    · rename_i e; subst e; right; exact (h (j', k) (by simp)).2
    · exact ih (fun q hq => h q (by simp [hq]))

theorem endsAt_succ {a b : List α} {alo blo bhi i j k : Nat} {x : α}
    (hi : alo ≤ i) (hj : blo ≤ j) (hjh : j < bhi)
    (hax : a[i]? = some x) (hbx : b[j]? = some x)
    (hprev : k = 0 ∨ (1 ≤ i ∧ 1 ≤ j ∧ EndsAt a b alo blo bhi (i - 1) (j - 1) k)) :
    EndsAt a b alo blo bhi i j (k + 1) := by
  rcases hprev with h0 | ⟨hi1, hj1, h1, h2, h3, h4, h5, h6⟩
  · subst h0
    refine ⟨by omega, hi, by omega, hj, hjh, ?_⟩
    intro t ht
    have : t = 0 := by omega
    subst this
    exact ⟨x, by simpa using hax, by simpa using hbx⟩
  · refine ⟨by omega, hi, by omega, hj, hjh, ?_⟩
    intro t ht
    cases t with
    | zero => exact ⟨x, by simpa using hax, by simpa using hbx⟩
    | succ t =>
      obtain ⟨y, hy1, hy2⟩ := h6 t (by omega)
      refine ⟨y, ?_, ?_⟩
      · have : i - (t + 1) = i - 1 - t := by omega
        rw [this]; exact hy1
      · have : j - (t + 1) = j - 1 - t := by omega
        rw [this]; exact hy2

theorem bestOK_of_endsAt {a b : List α} {alo ahi blo bhi i j k : Nat}
    (hi : i < ahi) (hk : 1 ≤ k) (h : EndsAt a b alo blo bhi i j k) :
    BestOK a b alo ahi blo bhi ⟨i + 1 - k, j + 1 - k, k⟩ := by
  obtain ⟨h1, h2, h3, h4, h5, h6⟩ := h
  refine ⟨by simp; omega, by simp; omega, by simp; omega, by simp; omega, ?_⟩
  intro t ht
  simp only at ht ⊢
  obtain ⟨x, hx1, hx2⟩ := h6 (k - 1 - t) (by omega)
  refine ⟨x, ?_, ?_⟩
  · have : i + 1 - k + t = i - (k - 1 - t) := by omega
    rw [this]; exact hx1
  · have : j + 1 - k + t = j - (k - 1 - t) := by omega
    rw [this]; exact hx2

theorem inner_ok {a b : List α} {alo ahi blo bhi i : Nat} {x : α}
    (hi : alo ≤ i) (hih : i < ahi) (hax : a[i]? = some x)
    (j2len : List (Nat × Nat)) (hprev : i = alo → j2len = [])
    (hm : 1 ≤ i → MapOK a b alo blo bhi (i - 1) j2len)
    (js : List Nat) (hjs : ∀ j ∈ js, b[j]? = some x)
    (nw : List (Nat × Nat)) (hnw : MapOK a b alo blo bhi i nw)
    (best : Match) (hbest : BestOK a b alo ahi blo bhi best) :
    MapOK a b alo blo bhi i (inner blo bhi i j2len js nw best).1 ∧
    BestOK a b alo ahi blo bhi (inner blo bhi i j2len js nw best).2 := by
  induction js generalizing nw best with
  | nil => exact ⟨hnw, hbest⟩
  | cons j js ih =>
    have hjs' : ∀ j ∈ js, b[j]? = some x := fun q hq => hjs q (by simp [hq])
    have hbj : b[j]? = some x := hjs j (by simp)
    simp only [inner]
    split
    · exact ih hjs' nw hnw best hbest
    · split
      · exact ⟨hnw, hbest⟩
      · rename_i hlo hhi
        have hlo' : blo ≤ j := by omega
        have hhi' : j < bhi := by omega
        have hends : EndsAt a b alo blo bhi i j
            ((if j = 0 then 0 else look j2len (j - 1)) + 1) := by
          apply endsAt_succ hi hlo' hhi' hax hbj
          by_cases hj0 : j = 0
          · left; simp [hj0]
          · simp only [hj0, ↓reduceIte]
            by_cases hi0 : i = alo
            · left; rw [hprev hi0]; simp [look]
            · have hi1 : 1 ≤ i := by omega
              rcases look_ok (hm hi1) (j - 1) with h0 | h1
              · left; exact h0
              · right; exact ⟨hi1, by omega, h1⟩
        have hk1 : 1 ≤ (if j = 0 then 0 else look j2len (j - 1)) + 1 := by omega
        generalize ((if j = 0 then 0 else look j2len (j - 1)) + 1) = k at hends hk1 ⊢
        apply ih hjs'
        · intro p hp
          simp only [List.mem_cons] at hp
          rcases hp with rfl | hp
          · exact ⟨hk1, hends⟩
          · exact hnw p hp
        · split
          · exact bestOK_of_endsAt hih hk1 hends
          · exact hbest

theorem outer_ok {a b : List α} {alo ahi blo bhi : Nat} (hahi : ahi ≤ a.length) :
    ∀ (n i : Nat) (j2len : List (Nat × Nat)) (best : Match),
      i + n = ahi → alo ≤ i → (i = alo → j2len = []) →
      (1 ≤ i → MapOK a b alo blo bhi (i - 1) j2len) →
      BestOK a b alo ahi blo bhi best →
      BestOK a b alo ahi blo bhi (outer a b blo bhi n i j2len best) := by
  intro n
  induction n with
  | zero => intro i j2len best _ _ _ _ hb; simpa [outer] using hb
  | succ n ih =>
    intro i j2len best hin hi hprev hm hb
    have hlt : i < a.length := by omega
    obtain ⟨x, hx⟩ : ∃ x, a[i]? = some x := ⟨a[i], by simp [hlt]⟩
    simp only [outer, hx]
    have h := inner_ok (ahi := ahi) hi (by omega) hx j2len hprev hm (b2j b x)
      (fun j hj => b2j_mem hj) [] (by intro p hp; simp at hp) best hb
    exact ih (i + 1) _ _ (by omega) (by omega) (by omega) (fun _ => by simpa using h.1) h.2

theorem eqAt_iff {a b : List α} {i j : Nat} :
    eqAt a b i j = true ↔ ∃ x, a[i]? = some x ∧ b[j]? = some x := by
  unfold eqAt
  split
  · rename_i x y hx hy
    simp [hx, hy, eq_comm]
  · rename_i hno
    simp only [Bool.false_eq_true, false_iff]
    rintro ⟨x, hx, hy⟩
    exact hno x x hx hy

theorem extBack_ok {a b : List α} {alo ahi blo bhi : Nat} :
    ∀ (i j k : Nat), BestOK a b alo ahi blo bhi ⟨i, j, k⟩ →
      BestOK a b alo ahi blo bhi (extBack a b alo blo i j k) := by
  intro i
  induction i with
  | zero => intro j k h; simpa [extBack] using h
  | succ i ih =>
    intro j k h
    simp only [extBack]
    split
    · rename_i hc
      obtain ⟨hc1, hc2, hc3⟩ := hc
      obtain ⟨x, hx1, hx2⟩ := eqAt_iff.mp hc3
      obtain ⟨h1, h2, h3, h4, h5⟩ := h
      simp only at h1 h2 h3 h4 h5
      apply ih
      refine ⟨by simp; omega, by simp; omega, by simp; omega, by simp; omega, ?_⟩
      intro t ht
      simp only at ht ⊢
      cases t with
      | zero => exact ⟨x, by simpa using hx1, by simpa using hx2⟩
      | succ t =>
        obtain ⟨y, hy1, hy2⟩ := h5 t (by omega)
        refine ⟨y, ?_, ?_⟩
        · have : i + (t + 1) = i + 1 + t := by omega
          rw [this]; exact hy1
        · have : j - 1 + (t + 1) = j + t := by omega
          rw [this]; exact hy2
    · exact h

theorem extFwd_ok {a b : List α} {alo ahi blo bhi : Nat} (i j k : Nat)
    (h : BestOK a b alo ahi blo bhi ⟨i, j, k⟩) :
    BestOK a b alo ahi blo bhi ⟨i, j, extFwd a b ahi bhi i j k⟩ := by
  fun_induction extFwd a b ahi bhi i j k with
  | case1 k hc ih =>
    apply ih
    obtain ⟨hc1, hc2, hc3⟩ := hc
    obtain ⟨x, hx1, hx2⟩ := eqAt_iff.mp hc3
    obtain ⟨h1, h2, h3, h4, h5⟩ := h
    simp only at h1 h2 h3 h4 h5
    refine ⟨h1, by simp; omega, h3, by simp; omega, ?_⟩
    intro t ht
    simp only at ht ⊢
    by_cases htk : t < k
    · exact h5 t htk
    · have : t = k := by omega
      subst this
      exact ⟨x, hx1, hx2⟩
  | case2 k hc => exact h

theorem flm_bestOK {a b : List α} {alo ahi blo bhi : Nat}
    (h1 : alo ≤ ahi) (h2 : ahi ≤ a.length) (h3 : blo ≤ bhi) (_h4 : bhi ≤ b.length) :
    BestOK a b alo ahi blo bhi (findLongestMatch a b alo ahi blo bhi) := by
  unfold findLongestMatch
  have h0 : BestOK a b alo ahi blo bhi ⟨alo, blo, 0⟩ :=
    ⟨Nat.le_refl _, by simpa using h1, Nat.le_refl _, by simpa using h3,
      fun t ht => absurd ht (Nat.not_lt_zero _)⟩
  have hA := outer_ok (a := a) (b := b) (alo := alo) (blo := blo) (bhi := bhi) h2
    (ahi - alo) alo [] ⟨alo, blo, 0⟩ (by omega) (Nat.le_refl _) (fun _ => rfl)
    (by intro _ p hp; simp at hp) h0
  have hB := extBack_ok _ _ _ hA
  exact extFwd_ok _ _ _ hB

/-! ## Part 2: matching blocks -/

/-- `a[m.i .. m.i+m.k) = b[m.j .. m.j+m.k)` (element-wise, all in range) -/
def ValidBlock (a b : List α) (m : Match) : Prop :=
  ∀ t, t < m.k → ∃ x, a[m.i + t]? = some x ∧ b[m.j + t]? = some x

/-- The blocks are non-empty real matches, pairwise ordered, all inside the window
`[li,hi) × [lj,hj)`. -/
def InWin (a b : List α) : Nat → Nat → Nat → Nat → List Match → Prop
  | li, lj, hi, hj, [] => li ≤ hi ∧ lj ≤ hj
  | li, lj, hi, hj, m :: ms =>
    li ≤ m.i ∧ lj ≤ m.j ∧ 0 < m.k ∧ ValidBlock a b m ∧
      InWin a b (m.i + m.k) (m.j + m.k) hi hj ms

theorem InWin_le {a b : List α} {L : List Match} : ∀ {li lj hi hj : Nat},
    InWin a b li lj hi hj L → li ≤ hi ∧ lj ≤ hj := by
  induction L with
  | nil => intro li lj hi hj h; exact h
  | cons m ms ih =>
    intro li lj hi hj h
    obtain ⟨h1, h2, h3, h4, h5⟩ := h
    have := ih h5
    omega

theorem InWin_lower {a b : List α} {L : List Match} {li lj li' lj' hi hj : Nat}
    (h1 : li' ≤ li) (h2 : lj' ≤ lj) (h : InWin a b li lj hi hj L) :
    InWin a b li' lj' hi hj L := by
  cases L with
  | nil => obtain ⟨h3, h4⟩ := h; exact ⟨by omega, by omega⟩
  | cons m ms =>
    obtain ⟨h3, h4, h5⟩ := h
    exact ⟨by omega, by omega, h5⟩

theorem InWin_upper {a b : List α} {L : List Match} : ∀ {li lj hi hj hi' hj' : Nat},
    hi ≤ hi' → hj ≤ hj' → InWin a b li lj hi hj L → InWin a b li lj hi' hj' L := by
  induction L with
  | nil => intro li lj hi hj hi' hj' h1 h2 h; obtain ⟨h3, h4⟩ := h; exact ⟨by omega, by omega⟩
  | cons m ms ih =>
    intro li lj hi hj hi' hj' h1 h2 h
    obtain ⟨h3, h4, h5, h6, h7⟩ := h
    exact ⟨h3, h4, h5, h6, ih h1 h2 h7⟩

theorem InWin_append {a b : List α} {L1 L2 : List Match} : ∀ {li lj mi mj hi hj : Nat},
    InWin a b li lj mi mj L1 → InWin a b mi mj hi hj L2 →
    InWin a b li lj hi hj (L1 ++ L2) := by
  induction L1 with
  | nil =>
    intro li lj mi mj hi hj h1 h2
    obtain ⟨h3, h4⟩ := h1
    exact InWin_lower h3 h4 h2
  | cons m ms ih =>
    intro li lj mi mj hi hj h1 h2
    obtain ⟨h3, h4, h5, h6, h7⟩ := h1
    exact ⟨h3, h4, h5, h6, ih h7 h2⟩

/-- every block of an `InWin` list lies inside the window and is a valid non-empty match -/
theorem InWin_mem {a b : List α} {L : List Match} : ∀ {li lj hi hj : Nat},
    InWin a b li lj hi hj L → ∀ m ∈ L,
      li ≤ m.i ∧ lj ≤ m.j ∧ m.i + m.k ≤ hi ∧ m.j + m.k ≤ hj ∧ 0 < m.k ∧ ValidBlock a b m := by
  induction L with
  | nil => intro li lj hi hj _ m hm; simp at hm
  | cons m0 ms ih =>
    intro li lj hi hj h m hm
    obtain ⟨h3, h4, h5, h6, h7⟩ := h
    have hle := InWin_le h7
    simp only [List.mem_cons] at hm
    rcases hm with rfl | hm
    · exact ⟨h3, h4, hle.1, hle.2, h5, h6⟩
    · obtain ⟨g1, g2, g3⟩ := ih h7 m hm
      exact ⟨by omega, by omega, g3⟩

theorem InWin_pairwise {a b : List α} {L : List Match} : ∀ {li lj hi hj : Nat},
    InWin a b li lj hi hj L →
    L.Pairwise (fun m1 m2 =>
      m1.i < m2.i ∧ m1.j < m2.j ∧ m1.i + m1.k ≤ m2.i ∧ m1.j + m1.k ≤ m2.j) := by
  induction L with
  | nil => intro li lj hi hj _; exact List.Pairwise.nil
  | cons m0 ms ih =>
    intro li lj hi hj h
    obtain ⟨h3, h4, h5, h6, h7⟩ := h
    refine List.Pairwise.cons ?_ (ih h7)
    intro m hm
    obtain ⟨g1, g2, _⟩ := InWin_mem h7 m hm
    exact ⟨by omega, by omega, g1, g2⟩

/-- non-accumulating version of `matchBlocksF` -/
def mbN (a b : List α) : Nat → Nat → Nat → Nat → Nat → List Match
  | 0, _, _, _, _ => []
  | f + 1, alo, ahi, blo, bhi =>
    let m := findLongestMatch a b alo ahi blo bhi
    if 0 < m.k then
      (if alo < m.i ∧ blo < m.j then mbN a b f alo m.i blo m.j else []) ++
        m :: (if m.i + m.k < ahi ∧ m.j + m.k < bhi then
                mbN a b f (m.i + m.k) ahi (m.j + m.k) bhi else [])
    else []

theorem matchBlocksF_eq (a b : List α) : ∀ (f alo ahi blo bhi : Nat) (acc : List Match),
    matchBlocksF a b f alo ahi blo bhi acc = acc ++ mbN a b f alo ahi blo bhi := by
  intro f
  induction f with
  | zero => intro alo ahi blo bhi acc; simp [matchBlocksF, mbN]
  | succ f ih =>
    intro alo ahi blo bhi acc
    simp only [matchBlocksF, mbN]
    generalize findLongestMatch a b alo ahi blo bhi = m
    by_cases hk : 0 < m.k
    · simp only [hk, ↓reduceIte]
      by_cases c1 : alo < m.i ∧ blo < m.j <;> by_cases c2 : m.i + m.k < ahi ∧ m.j + m.k < bhi <;>
        simp [c1, c2, ih]
    · simp [hk]

theorem mbN_inWin {a b : List α} : ∀ (f alo ahi blo bhi : Nat),
    alo ≤ ahi → ahi ≤ a.length → blo ≤ bhi → bhi ≤ b.length →
    InWin a b alo blo ahi bhi (mbN a b f alo ahi blo bhi) := by
  intro f
  induction f with
  | zero => intro alo ahi blo bhi h1 _ h3 _; exact ⟨h1, h3⟩
  | succ f ih =>
    intro alo ahi blo bhi h1 h2 h3 h4
    simp only [mbN]
    have hv := flm_bestOK h1 h2 h3 h4
    generalize findLongestMatch a b alo ahi blo bhi = m at hv
    obtain ⟨v1, v2, v3, v4, v5⟩ := hv
    by_cases hk : 0 < m.k
    · simp only [hk, ↓reduceIte]
      have hL : InWin a b alo blo m.i m.j
          (if alo < m.i ∧ blo < m.j then mbN a b f alo m.i blo m.j else []) := by
        split
        · exact ih _ _ _ _ v1 (by omega) v3 (by omega)
        · exact ⟨v1, v3⟩
      have hR : InWin a b (m.i + m.k) (m.j + m.k) ahi bhi
          (if m.i + m.k < ahi ∧ m.j + m.k < bhi then
            mbN a b f (m.i + m.k) ahi (m.j + m.k) bhi else []) := by
        split
        · exact ih _ _ _ _ v2 h2 v4 h4
        · exact ⟨v2, v4⟩
      exact InWin_append hL ⟨Nat.le_refl _, Nat.le_refl _, hk, v5, hR⟩
    · simp only [hk, ↓reduceIte]; exact ⟨h1, h3⟩

/-- any two amounts of fuel `≥ ahi - alo` give the same result -/
theorem mbN_fuel {a b : List α} : ∀ (f g alo ahi blo bhi : Nat),
    alo ≤ ahi → ahi ≤ a.length → blo ≤ bhi → bhi ≤ b.length →
    ahi - alo ≤ f → ahi - alo ≤ g →
    mbN a b f alo ahi blo bhi = mbN a b g alo ahi blo bhi := by
  intro f
  induction f with
  | zero =>
    intro g alo ahi blo bhi h1 h2 h3 h4 hf _
    cases g with
    | zero => rfl
    | succ g =>
      simp only [mbN]
      have hv := flm_bestOK h1 h2 h3 h4
      generalize findLongestMatch a b alo ahi blo bhi = m at hv
      obtain ⟨v1, v2, _⟩ := hv
      have : ¬ 0 < m.k := by omega
      simp [this]
  | succ f ih =>
    intro g alo ahi blo bhi h1 h2 h3 h4 hf hg
    have hv := flm_bestOK h1 h2 h3 h4
    cases g with
    | zero =>
      simp only [mbN]
      generalize findLongestMatch a b alo ahi blo bhi = m at hv
      obtain ⟨v1, v2, _⟩ := hv
      have : ¬ 0 < m.k := by omega
      simp [this]
    | succ g =>
      simp only [mbN]
      generalize findLongestMatch a b alo ahi blo bhi = m at hv
      obtain ⟨v1, v2, v3, v4, v5⟩ := hv
      by_cases hk : 0 < m.k
      · simp only [hk, ↓reduceIte]
        have e1 : mbN a b f alo m.i blo m.j = mbN a b g alo m.i blo m.j :=
          ih g _ _ _ _ v1 (by omega) v3 (by omega) (by omega) (by omega)
        have e2 : mbN a b f (m.i + m.k) ahi (m.j + m.k) bhi =
            mbN a b g (m.i + m.k) ahi (m.j + m.k) bhi :=
          ih g _ _ _ _ v2 h2 v4 h4 (by omega) (by omega)
        rw [e1, e2]
      · simp [hk]

/-- non-accumulating version of `collapse` -/
def collapseN : List Match → Nat → Nat → Nat → List Match
  | [], i1, j1, k1 => if 0 < k1 then [⟨i1, j1, k1⟩] else []
  | m :: ms, i1, j1, k1 =>
    if i1 + k1 = m.i ∧ j1 + k1 = m.j then collapseN ms i1 j1 (k1 + m.k)
    else (if 0 < k1 then [⟨i1, j1, k1⟩] else []) ++ collapseN ms m.i m.j m.k

theorem collapse_eq : ∀ (ms : List Match) (i1 j1 k1 : Nat) (out : List Match),
    collapse ms i1 j1 k1 out = out ++ collapseN ms i1 j1 k1 := by
  intro ms
  induction ms with
  | nil => intro i1 j1 k1 out; simp only [collapse, collapseN]; split <;> simp
  | cons m ms ih =>
    intro i1 j1 k1 out
    simp only [collapse, collapseN]
    split
    · exact ih _ _ _ _
    · rw [ih]; split <;> simp

theorem collapseN_inWin {a b : List α} : ∀ (ms : List Match) (i1 j1 k1 hi hj : Nat),
    ValidBlock a b ⟨i1, j1, k1⟩ → InWin a b (i1 + k1) (j1 + k1) hi hj ms →
    InWin a b i1 j1 hi hj (collapseN ms i1 j1 k1) := by
  intro ms
  induction ms with
  | nil =>
    intro i1 j1 k1 hi hj hv h
    obtain ⟨h1, h2⟩ := h
    simp only [collapseN]
    split
    · rename_i hk
      exact ⟨Nat.le_refl _, Nat.le_refl _, hk, hv, h1, h2⟩
    · exact ⟨by omega, by omega⟩
  | cons m ms ih =>
    intro i1 j1 k1 hi hj hv h
    obtain ⟨h1, h2, h3, h4, h5⟩ := h
    simp only [collapseN]
    split
    · rename_i hadj
      apply ih
      · intro t ht
        simp only at ht ⊢
        by_cases htk : t < k1
        · exact hv t htk
        · obtain ⟨x, hx1, hx2⟩ := h4 (t - k1) (by omega)
          refine ⟨x, ?_, ?_⟩
          · have : i1 + t = m.i + (t - k1) := by omega
            rw [this]; exact hx1
          · have : j1 + t = m.j + (t - k1) := by omega
            rw [this]; exact hx2
      · have e1 : i1 + (k1 + m.k) = m.i + m.k := by omega
        have e2 : j1 + (k1 + m.k) = m.j + m.k := by omega
        rw [e1, e2]; exact h5
    · have hrec := ih m.i m.j m.k hi hj h4 h5
      split
      · rename_i hk
        exact ⟨Nat.le_refl _, Nat.le_refl _, hk, hv, InWin_lower h1 h2 hrec⟩
      · exact InWin_lower (by omega) (by omega) hrec

theorem getMatchingBlocks_eq (a b : List α) :
    getMatchingBlocks a b =
      collapseN (mbN a b a.length 0 a.length 0 b.length) 0 0 0 ++ [⟨a.length, b.length, 0⟩] := by
  simp [getMatchingBlocks, matchBlocks, matchBlocksF_eq, collapse_eq]

theorem matched_inWin (a b : List α) :
    InWin a b 0 0 a.length b.length (mbN a b a.length 0 a.length 0 b.length) :=
  mbN_inWin _ _ _ _ _ (Nat.zero_le _) (Nat.le_refl _) (Nat.zero_le _) (Nat.le_refl _)

theorem collapsed_inWin (a b : List α) :
    InWin a b 0 0 a.length b.length
      (collapseN (mbN a b a.length 0 a.length 0 b.length) 0 0 0) :=
  collapseN_inWin _ 0 0 0 _ _ (fun t ht => absurd ht (Nat.not_lt_zero _)) (matched_inWin a b)

/-! ## Part 3: opcodes -/

def gapOps (i j : Nat) (m : Match) : List OpCode :=
  let tag : Nat :=
    if i < m.i ∧ j < m.j then opReplace
    else if i < m.i then opDelete
    else if j < m.j then opInsert
    else 0
  if 0 < tag then [⟨tag, i, m.i, j, m.j⟩] else []

def eqOps (m : Match) : List OpCode :=
  if 0 < m.k then [⟨opEqual, m.i, m.i + m.k, m.j, m.j + m.k⟩] else []

/-- non-accumulating version of `opLoop` -/
def opN : List Match → Nat → Nat → List OpCode
  | [], _, _ => []
  | m :: ms, i, j => gapOps i j m ++ (eqOps m ++ opN ms (m.i + m.k) (m.j + m.k))

theorem opLoop_eq : ∀ (ms : List Match) (i j : Nat) (out : List OpCode),
    opLoop ms i j out = out ++ opN ms i j := by
  intro ms
  induction ms with
  | nil => intro i j out; simp [opLoop, opN]
  | cons m ms ih =>
    intro i j out
    simp only [opLoop, opN, gapOps, eqOps]
    rw [ih]
    generalize (if i < m.i ∧ j < m.j then opReplace
      else if i < m.i then opDelete else if j < m.j then opInsert else 0) = tag
    by_cases h1 : 0 < tag <;> by_cases h2 : 0 < m.k <;> simp [h1, h2]

/-- per-opcode well-formedness -/
def OpOK (a b : List α) (c : OpCode) : Prop :=
  c.i1 ≤ c.i2 ∧ c.j1 ≤ c.j2 ∧ c.i2 ≤ a.length ∧ c.j2 ≤ b.length ∧
  ((c.tag = opEqual ∧ c.i1 < c.i2 ∧ c.i2 - c.i1 = c.j2 - c.j1 ∧
      ValidBlock a b ⟨c.i1, c.j1, c.i2 - c.i1⟩) ∨
   (c.tag = opInsert ∧ c.i1 = c.i2 ∧ c.j1 < c.j2) ∨
   (c.tag = opDelete ∧ c.i1 < c.i2 ∧ c.j1 = c.j2) ∨
   (c.tag = opReplace ∧ c.i1 < c.i2 ∧ c.j1 < c.j2))

/-- the opcodes tile `[i, len a) × [j, len b)` consecutively -/
def Tile (a b : List α) : Nat → Nat → List OpCode → Prop
  | i, j, [] => i = a.length ∧ j = b.length
  | i, j, c :: cs => c.i1 = i ∧ c.j1 = j ∧ OpOK a b c ∧ Tile a b c.i2 c.j2 cs

theorem Tile_gap {a b : List α} {i j mi mj k : Nat} {rest : List OpCode}
    (h1 : i ≤ mi) (h2 : j ≤ mj) (h3 : mi ≤ a.length) (h4 : mj ≤ b.length)
    (h : Tile a b mi mj rest) : Tile a b i j (gapOps i j ⟨mi, mj, k⟩ ++ rest) := by
  simp only [gapOps]
  by_cases c1 : i < mi <;> by_cases c2 : j < mj
  · simp only [c1, c2, and_self, ↓reduceIte]
    refine ⟨rfl, rfl, ⟨by simp; omega, by simp; omega, h3, h4, ?_⟩, h⟩
    right; right; right; exact ⟨rfl, c1, c2⟩
  · simp only [c1, c2, and_false, ↓reduceIte]
    refine ⟨rfl, rfl, ⟨by simp; omega, by simp; omega, h3, h4, ?_⟩, h⟩
    right; right; left; exact ⟨rfl, c1, by simp; omega⟩
  · simp only [c1, c2, false_and, ↓reduceIte]
    refine ⟨rfl, rfl, ⟨by simp; omega, by simp; omega, h3, h4, ?_⟩, h⟩
    right; left; exact ⟨rfl, by simp; omega, c2⟩
  · simp only [c1, c2, and_self, ↓reduceIte]
    have e1 : i = mi := by omega
    have e2 : j = mj := by omega
    subst e1; subst e2
    simpa using h

theorem opN_tile {a b : List α} : ∀ (L : List Match) (i j : Nat),
    InWin a b i j a.length b.length L →
    Tile a b i j (opN (L ++ [⟨a.length, b.length, 0⟩]) i j) := by
  intro L
  induction L with
  | nil =>
    intro i j h
    obtain ⟨h1, h2⟩ := h
    simp only [List.nil_append, opN, eqOps, Nat.lt_irrefl, ↓reduceIte, List.append_nil]
    have := Tile_gap (a := a) (b := b) (k := 0) (rest := []) h1 h2 (Nat.le_refl _) (Nat.le_refl _)
      ⟨rfl, rfl⟩
    simpa using this
  | cons m ms ih =>
    intro i j h
    obtain ⟨h1, h2, h3, h4, h5⟩ := h
    have hle := InWin_le h5
    simp only [List.cons_append, opN, eqOps, h3, ↓reduceIte]
    have hrec := ih _ _ h5
    have := Tile_gap (a := a) (b := b) (k := m.k) (i := i) (j := j) (mi := m.i) (mj := m.j)
      (rest := ⟨opEqual, m.i, m.i + m.k, m.j, m.j + m.k⟩ ::
        opN (ms ++ [⟨a.length, b.length, 0⟩]) (m.i + m.k) (m.j + m.k))
      h1 h2 (by omega) (by omega)
      ⟨rfl, rfl, ⟨by simp, by simp, hle.1, hle.2, Or.inl ⟨rfl, by simp; omega, by simp, by
        simpa [ValidBlock] using h4⟩⟩, hrec⟩
    exact this

theorem getOpCodes_eq (a b : List α) :
    getOpCodes a b =
      opN (collapseN (mbN a b a.length 0 a.length 0 b.length) 0 0 0 ++
        [⟨a.length, b.length, 0⟩]) 0 0 := by
  simp [getOpCodes, opLoop_eq, getMatchingBlocks_eq]

theorem getOpCodes_tile (a b : List α) : Tile a b 0 0 (getOpCodes a b) := by
  rw [getOpCodes_eq]
  exact opN_tile _ _ _ (collapsed_inWin a b)

/-! ### consequences of `Tile` in elementary form -/

theorem Tile_mem {a b : List α} : ∀ (ops : List OpCode) (i j : Nat),
    Tile a b i j ops → ∀ c ∈ ops, OpOK a b c := by
  intro ops
  induction ops with
  | nil => intro i j _ c hc; simp at hc
  | cons c0 cs ih =>
    intro i j h c hc
    obtain ⟨_, _, h3, h4⟩ := h
    simp only [List.mem_cons] at hc
    rcases hc with rfl | hc
    · exact h3
    · exact ih _ _ h4 c hc

theorem Tile_head {a b : List α} {ops : List OpCode} {i j : Nat} {c : OpCode}
    (h : Tile a b i j ops) (hc : ops.head? = some c) : c.i1 = i ∧ c.j1 = j := by
  cases ops with
  | nil => simp at hc
  | cons c0 cs =>
    simp only [List.head?_cons, Option.some.injEq] at hc
    subst hc
    exact ⟨h.1, h.2.1⟩

theorem Tile_last {a b : List α} : ∀ (ops : List OpCode) (i j : Nat) (c : OpCode),
    Tile a b i j ops → ops.getLast? = some c → c.i2 = a.length ∧ c.j2 = b.length := by
  intro ops
  induction ops with
  | nil => intro i j c _ hc; simp at hc
  | cons c0 cs ih =>
    intro i j c h hc
    obtain ⟨_, _, _, h4⟩ := h
    cases cs with
    | nil =>
      simp only [List.getLast?_singleton, Option.some.injEq] at hc
      subst hc
      exact ⟨h4.1, h4.2⟩
    | cons c1 cs' =>
      rw [List.getLast?_cons_cons] at hc
      exact ih _ _ c h4 hc

theorem Tile_consec {a b : List α} : ∀ (ops : List OpCode) (i j n : Nat)
    (h : n + 1 < ops.length), Tile a b i j ops →
    ops[n + 1].i1 = ops[n].i2 ∧ ops[n + 1].j1 = ops[n].j2 := by
  intro ops
  induction ops with
  | nil => intro i j n h; simp at h
  | cons c0 cs ih =>
    intro i j n h ht
    obtain ⟨_, _, _, h4⟩ := ht
    cases n with
    | zero =>
      cases cs with
      | nil => simp at h
      | cons c1 cs' => exact ⟨h4.1, h4.2.1⟩
    | succ n =>
      have h' : n + 1 < cs.length := by simpa using h
      simpa using ih _ _ n h' h4

theorem Tile_nil_iff {a b : List α} {ops : List OpCode} (h : Tile a b 0 0 ops) :
    ops = [] ↔ a = [] ∧ b = [] := by
  constructor
  · intro e
    subst e
    obtain ⟨h1, h2⟩ := h
    exact ⟨List.eq_nil_of_length_eq_zero h1.symm, List.eq_nil_of_length_eq_zero h2.symm⟩
  · rintro ⟨rfl, rfl⟩
    cases ops with
    | nil => rfl
    | cons c cs =>
      obtain ⟨_, _, ⟨h1, h2, h3, h4, h5⟩, _⟩ := h
      simp only [List.length_nil, Nat.le_zero_eq] at h3 h4
      rcases h5 with ⟨_, h, _⟩ | ⟨_, _, h⟩ | ⟨_, h, _⟩ | ⟨_, h, _⟩ <;> omega

/-! ### slices -/

theorem slice_eq_of_valid {a b : List α} {i j k : Nat} (hv : ValidBlock a b ⟨i, j, k⟩) :
    (a.drop i).take k = (b.drop j).take k := by
  apply List.ext_getElem?
  intro n
  simp only [List.getElem?_take, List.getElem?_drop]
  split
  · rename_i hn
    obtain ⟨x, hx1, hx2⟩ := hv n hn
    simp only at hx1 hx2
    rw [hx1, hx2]
  · rfl

theorem slice_append_drop (l : List α) {j1 j2 : Nat} (h : j1 ≤ j2) :
    slice l j1 j2 ++ l.drop j2 = l.drop j1 := by
  unfold slice
  have : l.drop j2 = (l.drop j1).drop (j2 - j1) := by
    rw [List.drop_drop]; congr 1; omega
  rw [this, List.take_append_drop]

theorem slice_self (l : List α) (i : Nat) : slice l i i = [] := by
  simp [slice]

theorem OpOK_equal_slice {a b : List α} {c : OpCode} (h : OpOK a b c) (ht : c.tag = opEqual) :
    slice a c.i1 c.i2 = slice b c.j1 c.j2 := by
  obtain ⟨_, _, _, _, h5⟩ := h
  rcases h5 with ⟨_, _, he, hv⟩ | ⟨h, _⟩ | ⟨h, _⟩ | ⟨h, _⟩
  · unfold slice
    rw [← he]
    exact slice_eq_of_valid hv
  all_goals (rw [ht] at h; simp [opEqual, opInsert, opDelete, opReplace] at h)

theorem replay_tile {a b : List α} : ∀ (ops : List OpCode) (i j : Nat),
    Tile a b i j ops → replay a b ops = b.drop j := by
  intro ops
  induction ops with
  | nil => intro i j h; obtain ⟨_, h2⟩ := h; subst h2; simp [replay]
  | cons c cs ih =>
    intro i j h
    obtain ⟨h1, h2, h3, h4⟩ := h
    simp only [replay]
    rw [ih _ _ h4, ← h2]
    have hok := h3
    obtain ⟨g1, g2, g3, g4, g5⟩ := h3
    rcases g5 with ⟨ht, _, _, _⟩ | ⟨ht, _, _⟩ | ⟨ht, _, hj⟩ | ⟨ht, _, _⟩
    · simp only [replayPiece, ht, ↓reduceIte]
      rw [OpOK_equal_slice hok ht]
      exact slice_append_drop b g2
    · simp only [replayPiece, ht]
      simp only [opInsert, opEqual, opReplace, Nat.succ_ne_self, ↓reduceIte, true_or]
      exact slice_append_drop b g2
    · simp only [replayPiece, ht]
      simp [opInsert, opEqual, opReplace, opDelete, hj]
    · simp only [replayPiece, ht]
      simp only [opInsert, opEqual, opReplace, or_true, ↓reduceIte]
      exact slice_append_drop b g2

theorem aParts_tile {a b : List α} : ∀ (ops : List OpCode) (i j : Nat),
    Tile a b i j ops → aParts a ops = a.drop i := by
  intro ops
  induction ops with
  | nil => intro i j h; obtain ⟨h1, _⟩ := h; subst h1; simp [aParts]
  | cons c cs ih =>
    intro i j h
    obtain ⟨h1, h2, h3, h4⟩ := h
    simp only [aParts]
    rw [ih _ _ h4, ← h1]
    exact slice_append_drop a h3.1

theorem bParts_tile {a b : List α} : ∀ (ops : List OpCode) (i j : Nat),
    Tile a b i j ops → bParts b ops = b.drop j := by
  intro ops
  induction ops with
  | nil => intro i j h; obtain ⟨_, h2⟩ := h; subst h2; simp [bParts]
  | cons c cs ih =>
    intro i j h
    obtain ⟨h1, h2, h3, h4⟩ := h
    simp only [bParts]
    rw [ih _ _ h4, ← h2]
    exact slice_append_drop b h3.2.1

/-- if every opcode is Equal, replay just concatenates the `a`-sides -/
theorem replay_allEqual (a b : List α) : ∀ (ops : List OpCode),
    (∀ c ∈ ops, c.tag = opEqual) → replay a b ops = aParts a ops := by
  intro ops
  induction ops with
  | nil => intro _; rfl
  | cons c cs ih =>
    intro h
    simp only [replay, aParts, replayPiece]
    rw [ih (fun c hc => h c (by simp [hc]))]
    simp [h c (by simp)]

/-! ## Part 5: grouped opcodes -/

theorem changes_append (l1 l2 : List OpCode) : changes (l1 ++ l2) = changes l1 ++ changes l2 := by
  simp [changes]

theorem changes_cons_equal {c : OpCode} (h : c.tag = opEqual) (l : List OpCode) :
    changes (c :: l) = changes l := by
  simp [changes, h]

theorem fixFirst_changes (n : Nat) (l : List OpCode) : changes (fixFirst n l) = changes l := by
  cases l with
  | nil => rfl
  | cons c cs =>
    simp only [fixFirst]
    split
    · rename_i h
      rw [changes_cons_equal (by simpa using h), changes_cons_equal h]
    · rfl

theorem fixLast_changes (n : Nat) (l : List OpCode) : changes (fixLast n l) = changes l := by
  fun_induction fixLast n l with
  | case1 => rfl
  | case2 c h => rw [changes_cons_equal (by simpa using h), changes_cons_equal h]
  | case3 c h => rfl
  | case4 c c' cs ih =>
    have e1 : changes (c :: fixLast n (c' :: cs)) = changes [c] ++ changes (fixLast n (c' :: cs)) :=
      changes_append [c] _
    have e2 : changes (c :: c' :: cs) = changes [c] ++ changes (c' :: cs) :=
      changes_append [c] _
    rw [e1, e2, ih]

theorem groupLoop_changes (n : Nat) : ∀ (cs : List OpCode) (groups : List (List OpCode))
    (group : List OpCode),
    changes (groupLoop n cs groups group).flatten =
      changes groups.flatten ++ changes group ++ changes cs := by
  intro cs
  induction cs with
  | nil =>
    intro groups group
    simp only [groupLoop]
    split
    · simp [changes_append, changes]
    · rename_i h
      have : changes group = [] := by
        match group, h with
        | [], _ => rfl
        | [c], h =>
          have : c.tag = opEqual := by
            simp only [List.length_singleton, Nat.lt_add_one, List.head?_cons, Option.map_some,
              Option.some.injEq, true_and, Classical.not_not] at h
            exact h
          simp [changes, this]
        | c :: c' :: l, h => simp at h
      rw [this]; simp [changes]
  | cons c cs ih =>
    intro groups group
    simp only [groupLoop]
    split
    · rename_i h
      rw [ih]
      have hc : c.tag = opEqual := h.1
      simp [changes_append, changes, hc]
    · rw [ih]
      have : changes (c :: cs) = changes [c] ++ changes cs := changes_append [c] cs
      rw [this]
      simp [changes_append]

theorem groupOpCodes_changes (n : Nat) (codes : List OpCode) :
    changes (groupOpCodes n codes).flatten = changes codes := by
  unfold groupOpCodes
  simp only
  rw [groupLoop_changes, fixLast_changes, fixFirst_changes]
  split
  · rename_i h
    have : codes = [] := List.eq_nil_of_length_eq_zero h
    subst this
    simp [changes]
  · simp [changes]

/-- well-formedness of an Equal opcode: same length on both sides -/
def WfEq (c : OpCode) : Prop :=
  c.tag = opEqual → c.i1 ≤ c.i2 ∧ c.j1 ≤ c.j2 ∧ c.i2 - c.i1 = c.j2 - c.j1

def Rel (c' c : OpCode) : Prop := c' = c ∨ SubEqual c' c

theorem Rel_trans {c'' c' c : OpCode} (h1 : Rel c'' c') (h2 : Rel c' c) : Rel c'' c := by
  rcases h1 with rfl | h1
  · exact h2
  · rcases h2 with rfl | h2
    · exact Or.inr h1
    · right
      obtain ⟨a1, a2, a3, a4, a5, a6, a7⟩ := h1
      obtain ⟨b1, b2, b3, b4, b5, b6, b7⟩ := h2
      exact ⟨a1, b2, by omega, a4, by omega, by omega, by omega⟩

theorem Rel_wf {c' c : OpCode} (h : Rel c' c) (hw : WfEq c) : WfEq c' := by
  rcases h with rfl | h
  · exact hw
  · obtain ⟨a1, a2, a3, a4, a5, a6, a7⟩ := h
    intro _
    have := hw a2
    omega

theorem fixFirst_rel (n : Nat) (l : List OpCode) (hw : ∀ c ∈ l, WfEq c) :
    ∀ c' ∈ fixFirst n l, ∃ c ∈ l, Rel c' c := by
  cases l with
  | nil => intro c' h; simp [fixFirst] at h
  | cons c cs =>
    intro c' h
    simp only [fixFirst] at h
    split at h
    · rename_i ht
      simp only [List.mem_cons] at h
      rcases h with rfl | h
      · refine ⟨c, by simp, Or.inr ?_⟩
        have := hw c (by simp) ht
        refine ⟨ht, ht, ?_, ?_, ?_, ?_, ?_⟩ <;> simp only <;> omega
      · exact ⟨c', by simp [h], Or.inl rfl⟩
    · exact ⟨c', h, Or.inl rfl⟩

theorem fixLast_rel (n : Nat) (l : List OpCode) (hw : ∀ c ∈ l, WfEq c) :
    ∀ c' ∈ fixLast n l, ∃ c ∈ l, Rel c' c := by
  fun_induction fixLast n l with
  | case1 => intro c' h; simp at h
  | case2 c ht =>
    intro c' h
    simp only [List.mem_singleton] at h
    subst h
    refine ⟨c, by simp, Or.inr ?_⟩
    have := hw c (by simp) ht
    refine ⟨ht, ht, ?_, ?_, ?_, ?_, ?_⟩ <;> simp only <;> omega
  | case3 c ht => intro c' h; exact ⟨c', h, Or.inl rfl⟩
  | case4 c c1 cs ih =>
    intro c' h
    simp only [List.mem_cons] at h
    rcases h with rfl | h
    · exact ⟨c', by simp, Or.inl rfl⟩
    · obtain ⟨c0, hc0, hr⟩ := ih (fun c hc => hw c (by simp [hc])) c' (by simpa using h)
      exact ⟨c0, by simp only [List.mem_cons] at hc0 ⊢; right; exact hc0, hr⟩

theorem groupLoop_rel (n : Nat) : ∀ (cs : List OpCode) (groups : List (List OpCode))
    (group : List OpCode), (∀ c ∈ cs, WfEq c) →
    ∀ g ∈ groupLoop n cs groups group, ∀ c' ∈ g,
      (∃ g0 ∈ groups, c' ∈ g0) ∨ c' ∈ group ∨ ∃ c ∈ cs, Rel c' c := by
  intro cs
  induction cs with
  | nil =>
    intro groups group _ g hg c' hc'
    simp only [groupLoop] at hg
    split at hg
    · simp only [List.mem_append, List.mem_singleton] at hg
      rcases hg with hg | rfl
      · exact Or.inl ⟨g, hg, hc'⟩
      · exact Or.inr (Or.inl hc')
    · exact Or.inl ⟨g, hg, hc'⟩
  | cons c cs ih =>
    intro groups group hw g hg c' hc'
    have hw' : ∀ c ∈ cs, WfEq c := fun c hc => hw c (by simp [hc])
    simp only [groupLoop] at hg
    split at hg
    · rename_i hsplit
      obtain ⟨ht, hlen⟩ := hsplit
      have hwc := hw c (by simp) ht
      rcases ih _ _ hw' g hg c' hc' with ⟨g0, hg0, hin⟩ | hin | ⟨c0, hc0, hr⟩
      · simp only [List.mem_append, List.mem_singleton] at hg0
        rcases hg0 with hg0 | rfl
        · exact Or.inl ⟨g0, hg0, hin⟩
        · simp only [List.mem_append, List.mem_singleton] at hin
          rcases hin with hin | rfl
          · exact Or.inr (Or.inl hin)
          · refine Or.inr (Or.inr ⟨c, by simp, Or.inr ?_⟩)
            refine ⟨ht, ht, ?_, ?_, ?_, ?_, ?_⟩ <;> simp only <;> omega
      · simp only [List.mem_singleton] at hin
        subst hin
        refine Or.inr (Or.inr ⟨c, by simp, Or.inr ?_⟩)
        refine ⟨ht, ht, ?_, ?_, ?_, ?_, ?_⟩ <;> simp only <;> omega
      · exact Or.inr (Or.inr ⟨c0, by simp [hc0], hr⟩)
    · rcases ih _ _ hw' g hg c' hc' with h | hin | ⟨c0, hc0, hr⟩
      · exact Or.inl h
      · simp only [List.mem_append, List.mem_singleton] at hin
        rcases hin with hin | rfl
        · exact Or.inr (Or.inl hin)
        · exact Or.inr (Or.inr ⟨c', by simp, Or.inl rfl⟩)
      · exact Or.inr (Or.inr ⟨c0, by simp [hc0], hr⟩)

theorem groupOpCodes_nil (n : Nat) : groupOpCodes n [] = [] := by
  simp only [groupOpCodes, List.length_nil, ↓reduceIte, fixFirst, fixLast, groupLoop]
  have : ¬ (True ∧ n + n < min 1 (max 0 (1 - n) + n) - max 0 (1 - n)) := by omega
  rw [if_neg this]
  simp

theorem groupOpCodes_rel (n : Nat) (codes : List OpCode) (hw : ∀ c ∈ codes, WfEq c) :
    ∀ g ∈ groupOpCodes n codes, ∀ c' ∈ g, ∃ c ∈ codes, Rel c' c := by
  cases codes with
  | nil => intro g hg; rw [groupOpCodes_nil] at hg; simp at hg
  | cons c0 cs =>
    intro g hg c' hc'
    simp only [groupOpCodes, List.length_cons, Nat.add_one_ne_zero, ↓reduceIte] at hg
    have r1 := fixFirst_rel n (c0 :: cs) hw
    have w1 : ∀ c ∈ fixFirst n (c0 :: cs), WfEq c := by
      intro c hc
      obtain ⟨c1, hc1, hr⟩ := r1 c hc
      exact Rel_wf hr (hw c1 hc1)
    have r2 := fixLast_rel n _ w1
    have w2 : ∀ c ∈ fixLast n (fixFirst n (c0 :: cs)), WfEq c := by
      intro c hc
      obtain ⟨c1, hc1, hr⟩ := r2 c hc
      exact Rel_wf hr (w1 c1 hc1)
    rcases groupLoop_rel n _ [] [] w2 g hg c' hc' with ⟨g0, hg0, _⟩ | h | ⟨c2, hc2, hr2⟩
    · simp at hg0
    · simp at h
    · obtain ⟨c1, hc1, hr1⟩ := r2 c2 hc2
      obtain ⟨c, hc, hr⟩ := r1 c1 hc1
      exact ⟨c, hc, Rel_trans hr2 (Rel_trans hr1 hr)⟩

theorem OpOK_wf {a b : List α} {c : OpCode} (h : OpOK a b c) : WfEq c := by
  intro ht
  obtain ⟨g1, g2, _, _, g5⟩ := h
  rcases g5 with ⟨_, _, he, _⟩ | ⟨h, _⟩ | ⟨h, _⟩ | ⟨h, _⟩
  · exact ⟨g1, g2, he⟩
  all_goals (rw [ht] at h; simp [opEqual, opInsert, opDelete, opReplace] at h)

/-! ## Part 6: identical inputs give a single Equal opcode

We show that for `a = b = s` the main loop of `findLongestMatch s s 0 n 0 n` always keeps its
best block on the diagonal (`best.i = best.j`).  Ghost function: `diagRun s i` = length of the
run of non-popular elements of `s` ending at position `i`. -/

theorem indicesFrom_complete {x : α} {l : List α} : ∀ {s j : Nat},
    s ≤ j → l[j - s]? = some x → j ∈ indicesFrom x l s := by
  induction l with
  | nil => intro s j _ h; simp at h
  | cons y ys ih =>
    intro s j hs h
    simp only [indicesFrom]
    by_cases hj : j = s
    · subst hj
      simp only [Nat.sub_self, List.getElem?_cons_zero, Option.some.injEq] at h
      simp [h]
    · have e : j - s = (j - (s + 1)) + 1 := by omega
      rw [e] at h
      simp only [List.getElem?_cons_succ] at h
      have := ih (s := s + 1) (j := j) (by omega) h
      split
      · simp [this]
      · exact this

theorem indicesFrom_sorted {x : α} {l : List α} : ∀ {s : Nat},
    (indicesFrom x l s).Pairwise (· < ·) := by
  induction l with
  | nil => intro s; simp [indicesFrom]
  | cons y ys ih =>
    intro s
    simp only [indicesFrom]
    split
    · rw [List.pairwise_cons]
      refine ⟨?_, ih⟩
      intro j hj
      have := (indicesFrom_mem hj).1
      omega
    · exact ih

theorem b2j_sorted (b : List α) (x : α) : (b2j b x).Pairwise (· < ·) := by
  unfold b2j
  simp only
  split
  · exact List.Pairwise.nil
  · exact indicesFrom_sorted

theorem b2j_complete {b : List α} {x : α} {j i : Nat} (hj : j ∈ b2j b x)
    (hi : b[i]? = some x) : i ∈ b2j b x := by
  unfold b2j at hj ⊢
  simp only at hj ⊢
  split
  · rename_i h; simp [h] at hj
  · exact indicesFrom_complete (Nat.zero_le _) (by simpa using hi)

def npAt (s : List α) (i : Nat) : Bool :=
  match s[i]? with
  | some x => decide (i ∈ b2j s x)
  | none => false

def diagRun (s : List α) : Nat → Nat
  | 0 => if npAt s 0 = true then 1 else 0
  | i + 1 => if npAt s (i + 1) = true then diagRun s i + 1 else 0

theorem npAt_of_mem {s : List α} {x : α} {j : Nat} (h : j ∈ b2j s x) : npAt s j = true := by
  have := b2j_mem h
  simp [npAt, this, h]

theorem diagRun_pos {s : List α} {m : Nat} (h : npAt s m = true) : 1 ≤ diagRun s m := by
  cases m with
  | zero => simp [diagRun, h]
  | succ m => simp [diagRun, h]

theorem diagRun_succ {s : List α} {m : Nat} (h : npAt s m = true) (hm : 1 ≤ m) :
    diagRun s m = diagRun s (m - 1) + 1 := by
  cases m with
  | zero => omega
  | succ m => simp [diagRun, h]

theorem diagRun_zero_of_not {s : List α} {m : Nat} (h : npAt s m = false) : diagRun s m = 0 := by
  cases m with
  | zero => simp [diagRun, h]
  | succ m => simp [diagRun, h]

theorem look_mem (m : List (Nat × Nat)) (j : Nat) : look m j = 0 ∨ (j, look m j) ∈ m := by
  induction m with
  | nil => simp [look]
  | cons p m ih =>
    obtain ⟨j', k⟩ := p
    simp only [look]
    split
    · rename_i e; subst e; right; simp
    · rcases ih with h | h
      · left; exact h
      · right; simp [h]

theorem inner_diag {s : List α} {i : Nat} {x : α} (hx : s[i]? = some x)
    (j2len : List (Nat × Nat))
    (hrow : ∀ p ∈ j2len, 1 ≤ i ∧ p.2 ≤ diagRun s (min p.1 (i - 1)))
    (hexact : 1 ≤ i → look j2len (i - 1) = diagRun s (i - 1)) :
    ∀ (js : List Nat), (∀ j ∈ js, j ∈ b2j s x) → js.Pairwise (· < ·) →
    ∀ (nw : List (Nat × Nat)) (best : Match),
      (∀ p ∈ nw, p.2 ≤ diagRun s (min p.1 i)) →
      best.i = best.j → (∀ i', i' < i → diagRun s i' ≤ best.k) →
      (i ∈ js ∨ (look nw i = diagRun s i ∧ diagRun s i ≤ best.k)) →
      let r := inner 0 s.length i j2len js nw best
      (∀ p ∈ r.1, p.2 ≤ diagRun s (min p.1 i)) ∧ r.2.i = r.2.j ∧
      (∀ i', i' < i → diagRun s i' ≤ r.2.k) ∧
      look r.1 i = diagRun s i ∧ diagRun s i ≤ r.2.k := by
  intro js
  induction js with
  | nil =>
    intro _ _ nw best hnw hd hh h3
    simp only [inner]
    rcases h3 with h3 | h3
    · simp at h3
    · exact ⟨hnw, hd, hh, h3.1, h3.2⟩
  | cons j js ih =>
    intro hjs hsorted nw best hnw hd hh h3
    have hjmem : j ∈ b2j s x := hjs j (by simp)
    have hjs' : ∀ j ∈ js, j ∈ b2j s x := fun q hq => hjs q (by simp [hq])
    rw [List.pairwise_cons] at hsorted
    obtain ⟨hlt, hsorted'⟩ := hsorted
    have hsj : s[j]? = some x := b2j_mem hjmem
    have hjn : j < s.length := by
      rcases Nat.lt_or_ge j s.length with h | h
      · exact h
      · rw [List.getElem?_eq_none h] at hsj; simp at hsj
    have hnpj : npAt s j = true := npAt_of_mem hjmem
    have hnpi : npAt s i = true := npAt_of_mem (b2j_complete hjmem hx)
    simp only [inner, Nat.not_lt_zero, ↓reduceIte, Nat.not_le.mpr hjn]
    -- the new length
    have hA : (if j = 0 then 0 else look j2len (j - 1)) + 1 ≤ diagRun s (min j i) := by
      have hnpm : npAt s (min j i) = true := by
        rcases Nat.le_total j i with h | h
        · rw [Nat.min_eq_left h]; exact hnpj
        · rw [Nat.min_eq_right h]; exact hnpi
      by_cases hj0 : j = 0
      · simp only [hj0, ↓reduceIte]
        exact diagRun_pos (by simpa [hj0] using hnpm)
      · simp only [hj0, ↓reduceIte]
        rcases look_mem j2len (j - 1) with h0 | hmem
        · rw [h0]; exact diagRun_pos hnpm
        · obtain ⟨hi1, hle⟩ := hrow _ hmem
          simp only at hle
          have hm1 : 1 ≤ min j i := by omega
          rw [diagRun_succ hnpm hm1]
          have : min (j - 1) (i - 1) = min j i - 1 := by omega
          rw [this] at hle
          omega
    have hB : j = i → (if j = 0 then 0 else look j2len (j - 1)) + 1 = diagRun s i := by
      intro e
      subst e
      by_cases hj0 : j = 0
      · subst hj0
        simp [diagRun, hnpi]
      · simp only [hj0, ↓reduceIte]
        rw [hexact (by omega), diagRun_succ hnpi (by omega)]
    generalize ((if j = 0 then 0 else look j2len (j - 1)) + 1) = k at hA hB
    have hC : best.k < k → j = i := by
      intro hk
      rcases Nat.lt_trichotomy j i with h | h | h
      · have := hh j h
        rw [Nat.min_eq_left (Nat.le_of_lt h)] at hA
        omega
      · exact h
      · rw [Nat.min_eq_right (Nat.le_of_lt h)] at hA
        rcases h3 with h3 | h3
        · simp only [List.mem_cons] at h3
          rcases h3 with h3 | h3
          · omega
          · have := hlt i h3; omega
        · omega
    apply ih hjs' hsorted'
    · intro p hp
      simp only [List.mem_cons] at hp
      rcases hp with rfl | hp
      · exact hA
      · exact hnw p hp
    · split
      · rename_i hk
        have := hC hk
        subst this
        rfl
      · exact hd
    · intro i' hi'
      have := hh i' hi'
      split
      · simp only; omega
      · exact this
    · by_cases hji : j = i
      · right
        have hk := hB hji
        subst hji
        refine ⟨by simp [look, hk], ?_⟩
        split
        · simp only; omega
        · omega
      · rcases h3 with h3 | h3
        · simp only [List.mem_cons] at h3
          rcases h3 with h3 | h3
          · exact absurd h3.symm hji
          · left; exact h3
        · right
          refine ⟨by simp [look, hji, h3.1], ?_⟩
          split
          · simp only; omega
          · exact h3.2

theorem outer_diag {s : List α} :
    ∀ (n i : Nat) (j2len : List (Nat × Nat)) (best : Match),
      i + n = s.length →
      (∀ p ∈ j2len, 1 ≤ i ∧ p.2 ≤ diagRun s (min p.1 (i - 1))) →
      (1 ≤ i → look j2len (i - 1) = diagRun s (i - 1)) →
      best.i = best.j → (∀ i', i' < i → diagRun s i' ≤ best.k) →
      (outer s s 0 s.length n i j2len best).i = (outer s s 0 s.length n i j2len best).j := by
  intro n
  induction n with
  | zero => intro i j2len best _ _ _ hd _; simpa [outer] using hd
  | succ n ih =>
    intro i j2len best hin hrow hexact hd hh
    have hlt : i < s.length := by omega
    obtain ⟨x, hx⟩ : ∃ x, s[i]? = some x := ⟨s[i], by simp [hlt]⟩
    simp only [outer, hx]
    have h3 : i ∈ b2j s x ∨ (look [] i = diagRun s i ∧ diagRun s i ≤ best.k) := by
      cases hnp : npAt s i with
      | true =>
        left
        simpa [npAt, hx] using hnp
      | false =>
        right
        rw [diagRun_zero_of_not hnp]
        simp [look]
    obtain ⟨r1, r2, r3, r4, r5⟩ := inner_diag hx j2len hrow hexact (b2j s x) (fun j hj => hj)
      (b2j_sorted s x) [] best (by intro p hp; simp at hp) hd hh h3
    apply ih (i + 1) _ _ (by omega)
    · intro p hp
      exact ⟨by omega, by simpa using r1 p hp⟩
    · intro _; simpa using r4
    · exact r2
    · intro i' hi'
      rcases Nat.lt_or_ge i' i with h | h
      · exact r3 i' h
      · have : i' = i := by omega
        subst this; exact r5

theorem eqAt_self {s : List α} {i : Nat} (h : i < s.length) : eqAt s s i i = true :=
  eqAt_iff.mpr ⟨s[i], by simp [h], by simp [h]⟩

theorem extBack_self {s : List α} : ∀ (i k : Nat), i ≤ s.length →
    extBack s s 0 0 i i k = ⟨0, 0, k + i⟩ := by
  intro i
  induction i with
  | zero => intro k _; simp [extBack]
  | succ i ih =>
    intro k hi
    have h1 : eqAt s s i i = true := eqAt_self (by omega)
    have h2 : (0 < i + 1 ∧ 0 < i + 1 ∧ eqAt s s i (i + 1 - 1) = true) :=
      ⟨by omega, by omega, by simpa using h1⟩
    rw [extBack, if_pos h2]
    have : i + 1 - 1 = i := by omega
    rw [this, ih (k + 1) (by omega)]
    congr 1; omega

theorem extFwd_self {s : List α} (k : Nat) (hk : k ≤ s.length) :
    extFwd s s s.length s.length 0 0 k = s.length := by
  fun_induction extFwd s s s.length s.length 0 0 k with
  | case1 k hc ih => exact ih (by omega)
  | case2 k hc =>
    rcases Nat.lt_or_ge k s.length with h | h
    · exfalso
      apply hc
      refine ⟨by omega, by omega, ?_⟩
      simpa using eqAt_self (s := s) (i := k) h
    · omega

theorem flm_self (s : List α) :
    findLongestMatch s s 0 s.length 0 s.length = ⟨0, 0, s.length⟩ := by
  have hok := outer_ok (a := s) (b := s) (alo := 0) (blo := 0) (bhi := s.length)
    (ahi := s.length) (Nat.le_refl _) (s.length - 0) 0 [] ⟨0, 0, 0⟩ (by omega) (Nat.le_refl _)
    (fun _ => rfl) (by intro _ p hp; simp at hp)
    ⟨Nat.le_refl _, by simp, Nat.le_refl _, by simp, fun t ht => absurd ht (Nat.not_lt_zero _)⟩
  have hdiag := outer_diag (s := s) (s.length - 0) 0 [] ⟨0, 0, 0⟩ (by omega)
    (by intro p hp; simp at hp) (by intro h; omega) rfl (by intro i' h; omega)
  unfold findLongestMatch
  generalize outer s s 0 s.length (s.length - 0) 0 [] ⟨0, 0, 0⟩ = best at hok hdiag
  obtain ⟨bi, bj, bk⟩ := best
  simp only at hdiag
  subst hdiag
  obtain ⟨_, h2, _, _, _⟩ := hok
  simp only at h2
  simp only
  rw [extBack_self bi bk (by omega)]
  simp only
  rw [extFwd_self _ (by omega)]

theorem getOpCodes_self (s : List α) :
    getOpCodes s s = if s.length = 0 then [] else [⟨opEqual, 0, s.length, 0, s.length⟩] := by
  rw [getOpCodes_eq]
  cases hn : s.length with
  | zero => simp [mbN, collapseN, opN, gapOps, eqOps]
  | succ n =>
    have hf := flm_self s
    rw [hn] at hf
    simp [mbN, hf, collapseN, opN, gapOps, eqOps]

theorem groupOpCodes_single_equal (n L : Nat) :
    groupOpCodes n [⟨opEqual, 0, L, 0, L⟩] = [] := by
  simp only [groupOpCodes, List.length_singleton, Nat.succ_ne_self, ↓reduceIte, fixFirst, fixLast,
    groupLoop]
  have : ¬ (True ∧ n + n < min L (max 0 (L - n) + n) - max 0 (L - n)) := by omega
  rw [if_neg this]
  simp

/-! ## Part 7 (bonus): non-adjacency after collapse, alternation of opcodes,
every group contains a change -/

/-- consecutive blocks are never adjacent (Go doc comment of `getMatchingBlocks`) -/
def NA : List Match → Prop
  | [] => True
  | [_] => True
  | m1 :: m2 :: ms => ¬ (m1.i + m1.k = m2.i ∧ m1.j + m1.k = m2.j) ∧ NA (m2 :: ms)

theorem collapseN_head : ∀ (ms : List Match) (i j k : Nat), 0 < k →
    ∃ k' R, collapseN ms i j k = ⟨i, j, k'⟩ :: R := by
  intro ms
  induction ms with
  | nil => intro i j k hk; exact ⟨k, [], by simp [collapseN, hk]⟩
  | cons m ms ih =>
    intro i j k hk
    simp only [collapseN]
    split
    · exact ih i j (k + m.k) (by omega)
    · exact ⟨k, collapseN ms m.i m.j m.k, by simp [hk]⟩

theorem collapseN_NA : ∀ (ms : List Match), (∀ m ∈ ms, 0 < m.k) → ∀ (i1 j1 k1 : Nat),
    NA (collapseN ms i1 j1 k1) := by
  intro ms
  induction ms with
  | nil => intro _ i1 j1 k1; simp only [collapseN]; split <;> simp [NA]
  | cons m ms ih =>
    intro hpos i1 j1 k1
    have hpos' : ∀ m ∈ ms, 0 < m.k := fun q hq => hpos q (by simp [hq])
    have hmk : 0 < m.k := hpos m (by simp)
    simp only [collapseN]
    split
    · exact ih hpos' _ _ _
    · rename_i hna
      have hrec := ih hpos' m.i m.j m.k
      split
      · obtain ⟨k', R, e⟩ := collapseN_head ms m.i m.j m.k hmk
        rw [e] at hrec ⊢
        exact ⟨hna, hrec⟩
      · simpa using hrec

theorem NA_index : ∀ (L : List Match), NA L → ∀ n (h : n + 1 < L.length),
    ¬ (L[n].i + L[n].k = L[n + 1].i ∧ L[n].j + L[n].k = L[n + 1].j) := by
  intro L
  induction L with
  | nil => intro _ n h; simp at h
  | cons m1 ms ih =>
    intro hna n h
    cases ms with
    | nil => simp at h
    | cons m2 ms' =>
      obtain ⟨h1, h2⟩ := hna
      cases n with
      | zero => simpa using h1
      | succ n =>
        have h' : n + 1 < (m2 :: ms').length := by simpa using h
        simpa using ih h2 n h'

/-- no two consecutive tags are both Equal -/
def AltT : List Nat → Prop
  | [] => True
  | [_] => True
  | t1 :: t2 :: ts => ¬ (t1 = opEqual ∧ t2 = opEqual) ∧ AltT (t2 :: ts)

def HeadNonEq (ops : List OpCode) : Prop := ∀ c, ops.head? = some c → c.tag ≠ opEqual

theorem gapOps_cases (i j : Nat) (m : Match) :
    gapOps i j m = [] ∨ ∃ c, gapOps i j m = [c] ∧ c.tag ≠ opEqual := by
  simp only [gapOps]
  by_cases c1 : i < m.i <;> by_cases c2 : j < m.j <;>
    simp [c1, c2, opEqual, opInsert, opDelete, opReplace]

theorem gapOps_ne_nil {i j : Nat} {m : Match} (h1 : i ≤ m.i) (h2 : j ≤ m.j)
    (h : ¬ (i = m.i ∧ j = m.j)) : ∃ c, gapOps i j m = [c] ∧ c.tag ≠ opEqual := by
  simp only [gapOps]
  by_cases c1 : i < m.i <;> by_cases c2 : j < m.j <;>
    simp [c1, c2, opEqual, opInsert, opDelete, opReplace]
  omega

theorem AltT_gap_eq {i j : Nat} {m : Match} {e : OpCode} {rest : List OpCode}
    (he : e.tag = opEqual) (h1 : AltT (rest.map (·.tag))) (h2 : HeadNonEq rest) :
    AltT ((gapOps i j m ++ e :: rest).map (·.tag)) := by
  have hE : AltT ((e :: rest).map (·.tag)) := by
    cases rest with
    | nil => simp [AltT]
    | cons r rs =>
      simp only [List.map_cons, AltT]
      refine ⟨?_, by simpa using h1⟩
      intro hh
      exact h2 r (by simp) hh.2
  rcases gapOps_cases i j m with h | ⟨c, h, hc⟩
  · rw [h]; simpa using hE
  · rw [h]
    simp only [List.cons_append, List.nil_append, List.map_cons, AltT]
    refine ⟨fun hh => hc hh.1, by simpa using hE⟩

theorem opN_alt {a b : List α} : ∀ (L : List Match) (i j : Nat),
    InWin a b i j a.length b.length L → NA L →
    AltT ((opN (L ++ [⟨a.length, b.length, 0⟩]) i j).map (·.tag)) ∧
    ((L = [] ∨ ∃ m ms, L = m :: ms ∧ ¬ (i = m.i ∧ j = m.j)) →
      HeadNonEq (opN (L ++ [⟨a.length, b.length, 0⟩]) i j)) := by
  intro L
  induction L with
  | nil =>
    intro i j _ _
    simp only [List.nil_append, opN, eqOps, Nat.lt_irrefl, ↓reduceIte, List.append_nil]
    rcases gapOps_cases i j ⟨a.length, b.length, 0⟩ with h | ⟨c, h, hc⟩
    · rw [h]; exact ⟨by simp [AltT], fun _ c hc => by simp at hc⟩
    · rw [h]
      refine ⟨by simp [AltT], fun _ c' hc' => ?_⟩
      simp only [List.head?_cons, Option.some.injEq] at hc'
      subst hc'; exact hc
  | cons m ms ih =>
    intro i j hw hna
    obtain ⟨h1, h2, h3, h4, h5⟩ := hw
    have hna' : NA ms := by
      cases ms with
      | nil => simp [NA]
      | cons m' ms' => exact hna.2
    have hcond : ms = [] ∨ ∃ m' ms', ms = m' :: ms' ∧ ¬ (m.i + m.k = m'.i ∧ m.j + m.k = m'.j) := by
      cases ms with
      | nil => left; rfl
      | cons m' ms' => right; exact ⟨m', ms', rfl, hna.1⟩
    obtain ⟨r1, r2⟩ := ih _ _ h5 hna'
    have r2' := r2 hcond
    simp only [List.cons_append, opN, eqOps, h3, ↓reduceIte, List.cons_append, List.nil_append]
    refine ⟨AltT_gap_eq rfl r1 r2', ?_⟩
    intro hc
    rcases hc with hc | ⟨m0, ms0, e, hne⟩
    · simp at hc
    · simp only [List.cons.injEq] at e
      obtain ⟨e1, _⟩ := e
      subst e1
      obtain ⟨c, hg, hct⟩ := gapOps_ne_nil h1 h2 hne
      rw [hg]
      intro c' hc'
      simp only [List.cons_append, List.head?_cons, Option.some.injEq] at hc'
      subst hc'; exact hct

theorem collapsed_NA (a b : List α) :
    NA (collapseN (mbN a b a.length 0 a.length 0 b.length) 0 0 0) :=
  collapseN_NA _ (fun m hm => (InWin_mem (matched_inWin a b) m hm).2.2.2.2.1) 0 0 0

theorem getOpCodes_alt (a b : List α) : AltT ((getOpCodes a b).map (·.tag)) := by
  rw [getOpCodes_eq]
  exact (opN_alt _ 0 0 (collapsed_inWin a b) (collapsed_NA a b)).1

theorem AltT_index : ∀ (ts : List Nat), AltT ts → ∀ n (h : n + 1 < ts.length),
    ¬ (ts[n] = opEqual ∧ ts[n + 1] = opEqual) := by
  intro ts
  induction ts with
  | nil => intro _ n h; simp at h
  | cons t1 ts ih =>
    intro ha n h
    cases ts with
    | nil => simp at h
    | cons t2 ts' =>
      obtain ⟨h1, h2⟩ := ha
      cases n with
      | zero => simpa using h1
      | succ n =>
        have h' : n + 1 < (t2 :: ts').length := by simpa using h
        simpa using ih h2 n h'

theorem fixFirst_tags (n : Nat) (l : List OpCode) :
    (fixFirst n l).map (·.tag) = l.map (·.tag) := by
  cases l with
  | nil => rfl
  | cons c cs => simp only [fixFirst]; split <;> simp

theorem fixLast_tags (n : Nat) (l : List OpCode) :
    (fixLast n l).map (·.tag) = l.map (·.tag) := by
  fun_induction fixLast n l with
  | case1 => rfl
  | case2 c h => simp
  | case3 c h => rfl
  | case4 c c' cs ih => simp only [List.map_cons] at ih ⊢; rw [ih]

def HeadShort (n : Nat) (ops : List OpCode) : Prop :=
  ∀ c, ops.head? = some c → c.tag = opEqual → c.i2 - c.i1 ≤ n + n

theorem fixFirst_headShort (n : Nat) (l : List OpCode) : HeadShort n (fixFirst n l) := by
  cases l with
  | nil => intro c hc; simp [fixFirst] at hc
  | cons c0 cs =>
    intro c hc ht
    simp only [fixFirst] at hc
    split at hc
    · simp only [List.head?_cons, Option.some.injEq] at hc
      subst hc; simp only; omega
    · rename_i hne
      simp only [List.head?_cons, Option.some.injEq] at hc
      subst hc; exact absurd ht hne

theorem fixLast_headShort (n : Nat) (l : List OpCode) (h : HeadShort n l) :
    HeadShort n (fixLast n l) := by
  fun_induction fixLast n l with
  | case1 => exact h
  | case2 c ht =>
    intro c' hc' _
    simp only [List.head?_cons, Option.some.injEq] at hc'
    subst hc'
    have := h c (by simp) ht
    simp only; omega
  | case3 c ht => exact h
  | case4 c c1 cs ih =>
    intro c' hc' ht
    simp only [List.head?_cons, Option.some.injEq] at hc'
    subst hc'
    exact h c (by simp) ht

def HasChange (g : List OpCode) : Prop := ∃ c ∈ g, c.tag ≠ opEqual

theorem groupLoop_hasChange (n : Nat) : ∀ (cs : List OpCode) (groups : List (List OpCode))
    (group : List OpCode),
    AltT (cs.map (·.tag)) → (∀ g ∈ groups, HasChange g) →
    (HasChange group ∨ (group = [] ∧ HeadShort n cs) ∨
      (∃ e, group = [e] ∧ e.tag = opEqual ∧ HeadNonEq cs)) →
    ∀ g ∈ groupLoop n cs groups group, HasChange g := by
  intro cs
  induction cs with
  | nil =>
    intro groups group _ hg hst g hmem
    simp only [groupLoop] at hmem
    split at hmem
    · rename_i hkeep
      simp only [List.mem_append, List.mem_singleton] at hmem
      rcases hmem with hmem | rfl
      · exact hg g hmem
      · rcases hst with h | ⟨h, _⟩ | ⟨e, h, he, _⟩
        · exact h
        · subst h; simp at hkeep
        · subst h; simp [he] at hkeep
    · exact hg g hmem
  | cons c cs ih =>
    intro groups group halt hg hst g hmem
    have halt' : AltT (cs.map (·.tag)) := by
      cases cs with
      | nil => simp [AltT]
      | cons c' cs' => exact halt.2
    have hnext : c.tag = opEqual → HeadNonEq cs := by
      intro ht c' hc'
      cases cs with
      | nil => simp at hc'
      | cons c1 cs' =>
        simp only [List.head?_cons, Option.some.injEq] at hc'
        subst hc'
        intro h2
        exact halt.1 ⟨ht, h2⟩
    simp only [groupLoop] at hmem
    split at hmem
    · rename_i hsplit
      obtain ⟨ht, hlong⟩ := hsplit
      have hgroup : HasChange group := by
        rcases hst with h | ⟨_, h⟩ | ⟨e, _, _, h⟩
        · exact h
        · have := h c (by simp) ht; omega
        · exact absurd ht (h c (by simp))
      apply ih _ _ halt' _ _ g hmem
      · intro g' hg'
        simp only [List.mem_append, List.mem_singleton] at hg'
        rcases hg' with hg' | rfl
        · exact hg g' hg'
        · obtain ⟨x, hx, hxt⟩ := hgroup
          exact ⟨x, by simp [hx], hxt⟩
      · right; right
        exact ⟨_, rfl, ht, hnext ht⟩
    · apply ih _ _ halt' hg _ g hmem
      by_cases ht : c.tag = opEqual
      · rcases hst with h | ⟨h, _⟩ | ⟨e, _, _, h⟩
        · left
          obtain ⟨x, hx, hxt⟩ := h
          exact ⟨x, by simp [hx], hxt⟩
        · subst h
          right; right
          exact ⟨c, by simp, ht, hnext ht⟩
        · exact absurd ht (h c (by simp))
      · left
        exact ⟨c, by simp, ht⟩

theorem groupOpCodes_hasChange (n : Nat) (codes : List OpCode)
    (halt : AltT (codes.map (·.tag))) :
    ∀ g ∈ groupOpCodes n codes, HasChange g := by
  cases codes with
  | nil => intro g hg; rw [groupOpCodes_nil] at hg; simp at hg
  | cons c0 cs =>
    intro g hg
    simp only [groupOpCodes, List.length_cons, Nat.add_one_ne_zero, ↓reduceIte] at hg
    refine groupLoop_hasChange n _ [] [] ?_ (by intro g hg; simp at hg) ?_ g hg
    · rw [fixLast_tags, fixFirst_tags]; exact halt
    · right; left
      exact ⟨rfl, fixLast_headShort n _ (fixFirst_headShort n _)⟩

end GoSnaps.Difflib
