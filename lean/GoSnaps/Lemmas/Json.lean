/-
Lemmas about the JSON model (GoSnaps/Json.lean): lexeme scanners, tokeniser, token parser,
stable insertion sort.  Used by Props/C14Json.lean.
-/
import GoSnaps.Json
namespace GoSnaps.Json
open GoSnaps

/-! ## bytes -/

def AllWs (w : Text) : Prop := ∀ c ∈ w, isWs c = true

theorem skipWs_ws_append (w s : Text) (h : AllWs w) : skipWs (w ++ s) = skipWs s := by
  induction w with
  | nil => rfl
  | cons c w ih =>
    have hc : isWs c = true := h c (by simp)
    simp only [List.cons_append, skipWs, hc, ↓reduceIte]
    exact ih (fun x hx => h x (by simp [hx]))

theorem skipWs_of_nonws (c : Byte) (r : Text) (h : isWs c = false) : skipWs (c :: r) = c :: r := by
  simp [skipWs, h]

/-- `s` is some white space followed by `skipWs s`, which does not start with white space -/
theorem skipWs_decomp (s : Text) :
    ∃ w, AllWs w ∧ s = w ++ skipWs s ∧ (∀ c r, skipWs s = c :: r → isWs c = false) := by
  induction s with
  | nil => exact ⟨[], by simp [AllWs], by simp [skipWs], by simp [skipWs]⟩
  | cons c s ih =>
    by_cases hc : isWs c = true
    · obtain ⟨w, hw, hs, hn⟩ := ih
      refine ⟨c :: w, ?_, ?_, ?_⟩
      · intro x hx
        simp only [List.mem_cons] at hx
        rcases hx with rfl | hx
        · exact hc
        · exact hw x hx
      · simp only [skipWs, hc, ↓reduceIte, List.cons_append]
        rw [← hs]
      · simpa only [skipWs, hc, ↓reduceIte] using hn
    · refine ⟨[], by simp [AllWs], by simp [skipWs, hc], ?_⟩
      intro c' r' h
      simp only [skipWs, hc] at h
      simp only [Bool.false_eq_true, ↓reduceIte, List.cons.injEq] at h
      rw [← h.1]
      simpa using hc

theorem skipWs_length_le (s : Text) : (skipWs s).length ≤ s.length := by
  obtain ⟨w, _, hs, _⟩ := skipWs_decomp s
  have := congrArg List.length hs
  simp only [List.length_append] at this
  omega

theorem skipWs_idem (s : Text) : skipWs (skipWs s) = skipWs s := by
  obtain ⟨w, _, _, hn⟩ := skipWs_decomp s
  cases h : skipWs s with
  | nil => rfl
  | cons c r => exact skipWs_of_nonws c r (hn c r h)

theorem isHex_ge {x : Byte} (h : isHex x = true) : ¬ x < 32 := by
  simp only [isHex, Bool.or_eq_true, Bool.and_eq_true, decide_eq_true_eq, UInt8.le_iff_toNat_le,
    UInt8.lt_iff_toNat_lt] at *
  have : (48 : UInt8).toNat = 48 := rfl
  have : (97 : UInt8).toNat = 97 := rfl
  have : (65 : UInt8).toNat = 65 := rfl
  have : (32 : UInt8).toNat = 32 := rfl
  omega

theorem isSimpleEsc_ge {x : Byte} (h : isSimpleEsc x = true) : ¬ x < 32 := by
  simp only [isSimpleEsc, Bool.or_eq_true, beq_iff_eq] at h
  rcases h with ((((((rfl | rfl) | rfl) | rfl) | rfl) | rfl) | rfl) | rfl <;> decide

theorem isDigit_iff (c : Byte) : isDigit c = true ↔ 48 ≤ c.toNat ∧ c.toNat ≤ 57 := by
  simp only [isDigit, Bool.and_eq_true, decide_eq_true_eq, UInt8.le_iff_toNat_le]
  have : (48 : UInt8).toNat = 48 := rfl
  have : (57 : UInt8).toNat = 57 := rfl
  omega

/-! ## strings -/

theorem scanStr_quote (r : Text) : scanStr (34 :: r) = some ([34], r) := by
  rw [scanStr.eq_def]; simp

theorem scanStr_esc (e : Byte) (r : Text) (he : isSimpleEsc e = true) :
    scanStr (92 :: e :: r) = (scanStr r).map fun p => (92 :: e :: p.1, p.2) := by
  rw [scanStr.eq_def]; simp [he]

theorem scanStr_u (h1 h2 h3 h4 : Byte) (r : Text)
    (hh : (isHex h1 && isHex h2 && isHex h3 && isHex h4) = true) :
    scanStr (92 :: 117 :: h1 :: h2 :: h3 :: h4 :: r) =
      (scanStr r).map fun p => (92 :: 117 :: h1 :: h2 :: h3 :: h4 :: p.1, p.2) := by
  have : isSimpleEsc 117 = false := by decide
  rw [scanStr.eq_def]; simp [hh, this]

theorem scanStr_plain (c : Byte) (r : Text) (h1 : ¬ c < 32) (h2 : c ≠ 92) (h3 : c ≠ 34) :
    scanStr (c :: r) = (scanStr r).map fun p => (c :: p.1, p.2) := by
  rw [scanStr.eq_def]; simp [h1, h2, h3]

/-- what `scanStr` returns: the consumed text and the rest; the consumed text is scanned the
same way whatever follows it; it holds no control byte and ends with the closing quote -/
theorem scanStr_spec (s : Text) : ∀ b r, scanStr s = some (b, r) →
    s = b ++ r ∧ (∀ r', scanStr (b ++ r') = some (b, r')) ∧ (∀ c ∈ b, ¬ c < 32) ∧
      b.getLast? = some 34 := by
  fun_induction scanStr s with
  | case1 => intro b r h; simp at h
  | case2 c r hc => intro b r' h; simp at h
  | case3 hc => intro b r h; simp at h
  | case4 e r1 he hc ih =>
    intro b r h
    simp only [Option.map_eq_some_iff] at h
    obtain ⟨⟨b1, r1'⟩, hs, hb⟩ := h
    simp only [Prod.mk.injEq] at hb
    obtain ⟨rfl, rfl⟩ := hb
    obtain ⟨h1, h2, h3, h4⟩ := ih b1 r1' hs
    refine ⟨by simp [h1], ?_, ?_, ?_⟩
    · intro r'
      simp only [List.cons_append]
      rw [scanStr_esc _ _ he, h2 r']; rfl
    · intro x hx
      simp only [List.mem_cons] at hx
      rcases hx with rfl | rfl | hx
      · exact hc
      · exact isSimpleEsc_ge he
      · exact h3 x hx
    · cases b1 with
      | nil => simp at h4
      | cons x xs => simpa using h4
  | case5 h1 h2 h3 h4 r2 hh hc hne ih =>
    intro b r h
    simp only [Option.map_eq_some_iff] at h
    obtain ⟨⟨b1, r1'⟩, hs, hb⟩ := h
    simp only [Prod.mk.injEq] at hb
    obtain ⟨rfl, rfl⟩ := hb
    obtain ⟨e1, e2, e3, e4⟩ := ih b1 r1' hs
    refine ⟨by simp [e1], ?_, ?_, ?_⟩
    · intro r'
      simp only [List.cons_append]
      rw [scanStr_u _ _ _ _ _ hh, e2 r']; rfl
    · intro x hx
      simp only [List.mem_cons] at hx
      simp only [Bool.and_eq_true] at hh
      rcases hx with rfl | rfl | rfl | rfl | rfl | rfl | hx
      · exact hc
      · decide
      · exact isHex_ge hh.1.1.1
      · exact isHex_ge hh.1.1.2
      · exact isHex_ge hh.1.2
      · exact isHex_ge hh.2
      · exact e3 x hx
    · cases b1 with
      | nil => simp at e4
      | cons x xs => simpa using e4
  | case6 h1 h2 h3 h4 r2 hh hc hne => intro b r h; simp at h
  | case7 r1 hno hc hne => intro b r h; simp at h
  | case8 e r1 he hne hc => intro b r h; simp at h
  | case9 r hc hne =>
    intro b r' h
    simp only [Option.some.injEq, Prod.mk.injEq] at h
    obtain ⟨rfl, rfl⟩ := h
    refine ⟨rfl, ?_, ?_, rfl⟩
    · intro r'; exact scanStr_quote r'
    · intro x hx; simp at hx; subst hx; decide
  | case10 c r hc h92 h34 ih =>
    intro b r' h
    simp only [Option.map_eq_some_iff] at h
    obtain ⟨⟨b1, r1'⟩, hs, hb⟩ := h
    simp only [Prod.mk.injEq] at hb
    obtain ⟨rfl, rfl⟩ := hb
    obtain ⟨e1, e2, e3, e4⟩ := ih b1 r1' hs
    refine ⟨by simp [e1], ?_, ?_, ?_⟩
    · intro r'
      simp only [List.cons_append]
      rw [scanStr_plain _ _ hc h92 h34, e2 r']; rfl
    · intro x hx
      simp only [List.mem_cons] at hx
      rcases hx with rfl | hx
      · exact hc
      · exact e3 x hx
    · cases b1 with
      | nil => simp at e4
      | cons x xs => simpa using e4

/-! ## numbers -/

/-- the bytes a number lexeme is made of -/
def numChar (c : Byte) : Bool := isDigit c || c == 45 || c == 43 || c == 46 || c == 101 || c == 69

/-- what may follow a number lexeme for the scanner to stop exactly there -/
def NumStop (r : Text) : Prop := ∀ c t, r = c :: t → isDigit c = false ∧ c ≠ 46 ∧ c ≠ 101 ∧ c ≠ 69

def NoDigitHead (x : Text) : Prop := ∀ c t, x = c :: t → isDigit c = false

theorem NumStop.noDigit {r : Text} (h : NumStop r) : NoDigitHead r := fun c t e => (h c t e).1

theorem numStop_nil : NumStop [] := by intro c t e; cases e

theorem takeWhile_stop (ds r : Text) (hd : ∀ c ∈ ds, isDigit c = true) (hr : NoDigitHead r) :
    (ds ++ r).takeWhile isDigit = ds ∧ (ds ++ r).dropWhile isDigit = r := by
  rw [List.takeWhile_append_of_pos hd, List.dropWhile_append_of_pos hd]
  cases r with
  | nil => simp
  | cons c t =>
    have := hr c t rfl
    simp [this]

theorem digits1_spec (s x r : Text) (h : digits1 s = some (x, r)) :
    s = x ++ r ∧ (∀ c ∈ x, isDigit c = true) ∧ (∃ d t, x = d :: t) ∧
      (∀ r', NoDigitHead r' → digits1 (x ++ r') = some (x, r')) := by
  cases s with
  | nil => simp [digits1] at h
  | cons d s =>
    simp only [digits1] at h
    split at h
    · rename_i hd
      simp only [Option.some.injEq, Prod.mk.injEq] at h
      obtain ⟨rfl, rfl⟩ := h
      have hall : ∀ c ∈ s.takeWhile isDigit, isDigit c = true := fun c hc => List.all_eq_true.mp List.all_takeWhile c hc
      refine ⟨by simp, ?_, ⟨d, _, rfl⟩, ?_⟩
      · intro c hc
        simp only [List.mem_cons] at hc
        rcases hc with rfl | hc
        · exact hd
        · exact hall c hc
      · intro r' hr'
        obtain ⟨e1, e2⟩ := takeWhile_stop _ r' hall hr'
        simp only [List.cons_append, digits1, hd, ↓reduceIte, e1, e2]
    · cases h

theorem digits_numChar {x : Text} (h : ∀ c ∈ x, isDigit c = true) : ∀ c ∈ x, numChar c = true := by
  intro c hc; simp [numChar, h c hc]

theorem optSign_spec (s : Text) :
    s = (optSign s).1 ++ (optSign s).2 ∧ (∀ c ∈ (optSign s).1, numChar c = true) ∧
      (∀ r', optSign ((optSign s).1 ++ r') = ((optSign s).1, r') ∨ ((optSign s).1 = [] ∧ (optSign s).2 = s)) := by
  cases s with
  | nil => simp [optSign]
  | cons d s =>
    simp only [optSign]
    split
    · rename_i hd
      refine ⟨by simp, ?_, ?_⟩
      · intro c hc
        simp only [List.mem_singleton] at hc
        subst hc
        simp only [Bool.or_eq_true, decide_eq_true_eq] at hd
        rcases hd with rfl | rfl <;> decide
      · intro r'; left; simp [hd]
    · refine ⟨by simp, by simp, ?_⟩
      intro r'; right; simp

theorem scanExp_stop (acc r' : Text) (hr' : NumStop r') : scanExp acc r' = some (acc, r') := by
  cases r' with
  | nil => rfl
  | cons c t =>
    obtain ⟨_, _, h3, h4⟩ := hr' c t rfl
    simp [scanExp, h3, h4]

/-- a phase of the number scanner appends what it consumes (number bytes only, not starting with
a digit) to the accumulator, and consumes the same whatever number-terminating text follows -/
theorem scanExp_key : ∀ acc s l r, scanExp acc s = some (l, r) →
      ∃ x, l = acc ++ x ∧ s = x ++ r ∧ (∀ c ∈ x, numChar c = true) ∧ NoDigitHead x ∧
        (∀ r', NumStop r' → scanExp acc (x ++ r') = some (acc ++ x, r')) := by
    intro acc s l r h
    have stopcase : ∀ r', NumStop r' → scanExp acc r' = some (acc, r') := scanExp_stop acc
    cases s with
    | nil =>
      simp only [scanExp, Option.some.injEq, Prod.mk.injEq] at h
      obtain ⟨rfl, rfl⟩ := h
      exact ⟨[], by simp, rfl, by simp, (by intro c t e; cases e), by simpa using stopcase⟩
    | cons c s =>
      simp only [scanExp] at h
      split at h
      · rename_i hc
        simp only [Option.map_eq_some_iff] at h
        obtain ⟨⟨p1, p2⟩, hd, hp⟩ := h
        simp only [Prod.mk.injEq] at hp
        obtain ⟨rfl, rfl⟩ := hp
        obtain ⟨d1, d2, d3, d4⟩ := digits1_spec _ _ _ hd
        obtain ⟨o1, o2, o3⟩ := optSign_spec s
        have hcn : numChar c = true := by
          simp only [Bool.or_eq_true, decide_eq_true_eq] at hc
          rcases hc with rfl | rfl <;> decide
        have hcd : isDigit c = false := by
          simp only [Bool.or_eq_true, decide_eq_true_eq] at hc
          rcases hc with rfl | rfl <;> decide
        refine ⟨c :: (optSign s).1 ++ p1, by simp, ?_, ?_, ?_, ?_⟩
        · simp only [List.cons_append, List.append_assoc, List.cons.injEq, true_and]
          rw [← d1]; exact o1
        · intro x hx
          simp only [List.cons_append, List.mem_cons, List.mem_append] at hx
          rcases hx with rfl | hx | hx
          · exact hcn
          · exact o2 x hx
          · exact digits_numChar d2 x hx
        · intro c' t e
          simp only [List.cons_append, List.cons.injEq] at e
          rw [← e.1]; exact hcd
        · intro r' hr'
          simp only [List.cons_append, List.append_assoc, scanExp, hc, ↓reduceIte]
          rcases o3 (p1 ++ r') with o3 | ⟨o3a, o3b⟩
          · rw [o3]
            simp only [d4 r' hr'.noDigit, Option.map_some]
          · rw [o3a]
            obtain ⟨d, t, rfl⟩ := d3
            have hdig : isDigit d = true := d2 d (by simp)
            have hd43 : ¬ (d = 43 ∨ d = 45) := by
              intro hh; rcases hh with rfl | rfl <;> revert hdig <;> decide
            have : optSign ([] ++ (d :: t ++ r')) = ([], d :: t ++ r') := by
              simp only [List.nil_append, List.cons_append, optSign]
              simp [hd43]
            rw [this]
            have h4 := d4 r' hr'.noDigit
            simp only [List.cons_append] at h4
            simp [h4]
      · simp only [Option.some.injEq, Prod.mk.injEq] at h
        obtain ⟨rfl, rfl⟩ := h
        exact ⟨[], by simp, rfl, by simp, (by intro c t e; cases e), by simpa using stopcase⟩

theorem noDigitHead_append {x r : Text} (hx : NoDigitHead x) (hr : NoDigitHead r) : NoDigitHead (x ++ r) := by
  cases x with
  | nil => simpa using hr
  | cons c t =>
    intro c' t' e
    simp only [List.cons_append, List.cons.injEq] at e
    rw [← e.1]; exact hx c t rfl

theorem scanFrac_stop (acc r' : Text) (hr' : NumStop r') : scanFrac acc r' = some (acc, r') := by
  cases r' with
  | nil => rfl
  | cons c t =>
    obtain ⟨_, h2, _, _⟩ := hr' c t rfl
    simp only [scanFrac, h2, ↓reduceIte]
    exact scanExp_stop acc _ hr'

theorem scanFrac_key : ∀ acc s l r, scanFrac acc s = some (l, r) →
    ∃ x, l = acc ++ x ∧ s = x ++ r ∧ (∀ c ∈ x, numChar c = true) ∧ NoDigitHead x ∧
      (∀ r', NumStop r' → scanFrac acc (x ++ r') = some (acc ++ x, r')) := by
  intro acc s l r h
  cases s with
  | nil =>
    simp only [scanFrac, Option.some.injEq, Prod.mk.injEq] at h
    obtain ⟨rfl, rfl⟩ := h
    exact ⟨[], by simp, rfl, by simp, (by intro c t e; cases e), by simpa using scanFrac_stop acc⟩
  | cons c s =>
    simp only [scanFrac] at h
    split at h
    · rename_i hc
      subst hc
      simp only [Option.bind_eq_some_iff] at h
      obtain ⟨⟨p1, p2⟩, hd, he⟩ := h
      obtain ⟨d1, d2, d3, d4⟩ := digits1_spec _ _ _ hd
      obtain ⟨x2, e1, e2, e3, e4, e5⟩ := scanExp_key _ _ _ _ he
      refine ⟨46 :: p1 ++ x2, by simp [e1], ?_, ?_, ?_, ?_⟩
      · simp only [List.cons_append, List.append_assoc, List.cons.injEq, true_and]
        rw [← e2]; exact d1
      · intro x hx
        simp only [List.cons_append, List.mem_cons, List.mem_append] at hx
        rcases hx with rfl | hx | hx
        · decide
        · exact digits_numChar d2 x hx
        · exact e3 x hx
      · intro c' t e
        simp only [List.cons_append, List.cons.injEq] at e
        rw [← e.1]; decide
      · intro r' hr'
        have hnd : NoDigitHead (x2 ++ r') := noDigitHead_append e4 hr'.noDigit
        have := d4 (x2 ++ r') hnd
        simp only [List.cons_append, List.append_assoc, scanFrac, ↓reduceIte, this, Option.bind_some]
        rw [e5 r' hr']
        simp
    · rename_i hc
      obtain ⟨x, e1, e2, e3, e4, e5⟩ := scanExp_key _ _ _ _ h
      refine ⟨x, e1, e2, e3, e4, ?_⟩
      intro r' hr'
      cases x with
      | nil => simpa using scanFrac_stop acc r' hr'
      | cons c' t =>
        simp only [List.cons_append, List.cons.injEq] at e2
        obtain ⟨rfl, _⟩ := e2
        simp only [List.cons_append, scanFrac, hc, ↓reduceIte]
        exact e5 r' hr'

/-- the integer part and what follows: the consumed text is not empty and starts with a digit -/
theorem scanInt_key : ∀ acc s l r, scanInt acc s = some (l, r) →
    ∃ x, l = acc ++ x ∧ s = x ++ r ∧ (∀ c ∈ x, numChar c = true) ∧
      (∃ d t, x = d :: t ∧ isDigit d = true) ∧
      (∀ r', NumStop r' → scanInt acc (x ++ r') = some (acc ++ x, r')) := by
  intro acc s l r h
  cases s with
  | nil => simp [scanInt] at h
  | cons c s =>
    simp only [scanInt] at h
    split at h
    · rename_i hc
      subst hc
      obtain ⟨x, e1, e2, e3, e4, e5⟩ := scanFrac_key _ _ _ _ h
      refine ⟨48 :: x, by simp [e1], by simp [e2], ?_, ⟨48, x, rfl, by decide⟩, ?_⟩
      · intro y hy
        simp only [List.mem_cons] at hy
        rcases hy with rfl | hy
        · decide
        · exact e3 y hy
      · intro r' hr'
        simp only [List.cons_append, scanInt, ↓reduceIte]
        rw [e5 r' hr']; simp
    · rename_i hc
      simp only [Option.bind_eq_some_iff] at h
      obtain ⟨⟨p1, p2⟩, hd, hf⟩ := h
      obtain ⟨d1, d2, ⟨d, t, rfl⟩, d4⟩ := digits1_spec _ _ _ hd
      obtain ⟨x2, e1, e2, e3, e4, e5⟩ := scanFrac_key _ _ _ _ hf
      simp only at e1 e2 e5
      have hcd : c = d := by
        have := d1; simp only [List.cons_append, List.cons.injEq] at this; exact this.1
      subst hcd
      refine ⟨c :: t ++ x2, by simp [e1], ?_, ?_, ⟨c, t ++ x2, by simp, d2 c (by simp)⟩, ?_⟩
      · rw [d1, e2]; simp
      · intro y hy
        simp only [List.mem_append] at hy
        rcases hy with hy | hy
        · exact digits_numChar d2 y hy
        · exact e3 y hy
      · intro r' hr'
        have hnd : NoDigitHead (x2 ++ r') := noDigitHead_append e4 hr'.noDigit
        have := d4 (x2 ++ r') hnd
        simp only [List.cons_append, List.append_assoc] at this ⊢
        simp only [scanInt, hc, ↓reduceIte, this, Option.bind_some]
        have := e5 r' hr'
        rw [this]; simp

/-- **the number scanner**: the lexeme and the rest; the lexeme consists of number bytes, starts
with `-` or a digit, and is scanned the same way whatever number-terminating text follows -/
theorem scanNum_spec (s l r : Text) (h : scanNum s = some (l, r)) :
    s = l ++ r ∧ (∀ c ∈ l, numChar c = true) ∧ (∃ d t, l = d :: t ∧ (d = 45 ∨ isDigit d = true)) ∧
      (∀ r', NumStop r' → scanNum (l ++ r') = some (l, r')) := by
  cases s with
  | nil => simp [scanNum] at h
  | cons c s =>
    simp only [scanNum] at h
    split at h
    · rename_i hc
      subst hc
      obtain ⟨x, e1, e2, e3, ⟨d, t, e4, e4'⟩, e5⟩ := scanInt_key _ _ _ _ h
      subst e1
      refine ⟨by simp [e2], ?_, ⟨45, x, rfl, Or.inl rfl⟩, ?_⟩
      · intro y hy
        simp only [List.cons_append, List.nil_append, List.mem_cons] at hy
        rcases hy with rfl | hy
        · decide
        · exact e3 y hy
      · intro r' hr'
        simp only [List.cons_append, List.nil_append, scanNum, ↓reduceIte]
        exact e5 r' hr'
    · rename_i hc
      obtain ⟨x, e1, e2, e3, ⟨d, t, e4, e4'⟩, e5⟩ := scanInt_key _ _ _ _ h
      simp only [List.nil_append] at e1
      subst e1
      refine ⟨e2, e3, ⟨d, t, e4, Or.inr e4'⟩, ?_⟩
      intro r' hr'
      have hd : d = c := by
        rw [e4] at e2; simp only [List.cons_append, List.cons.injEq] at e2; exact e2.1.symm
      subst hd
      subst e4
      simp only [List.cons_append, scanNum, hc, ↓reduceIte]
      have := e5 r' hr'
      simpa using this

/-! ## tokens -/

/-- the text of a token -/
def tokText : Tok → Text
  | .lbrace => [123]
  | .rbrace => [125]
  | .lbrack => [91]
  | .rbrack => [93]
  | .colon => [58]
  | .comma => [44]
  | .str r => r
  | .num r => r
  | .tru => [116, 114, 117, 101]
  | .fls => [102, 97, 108, 115, 101]
  | .nul => [110, 117, 108, 108]

theorem scanLit_spec (w s r : Text) (h : scanLit w s = some r) : s = w ++ r := by
  unfold scanLit at h
  split at h
  · rename_i hp
    simp only [Option.some.injEq] at h
    obtain ⟨t, rfl⟩ := List.isPrefixOf_iff_prefix.mp hp
    simp at h; rw [h]
  · cases h

theorem scanLit_append (w r : Text) : scanLit w (w ++ r) = some r := by
  unfold scanLit
  have : w.isPrefixOf (w ++ r) = true := List.isPrefixOf_iff_prefix.mpr ⟨r, rfl⟩
  simp [this]

theorem numEnds_iff (r : Text) : numEnds r = true ↔ NumStop r := by
  cases r with
  | nil => simp [numEnds, numStop_nil]
  | cons c t =>
    simp only [numEnds, Bool.not_eq_eq_eq_not, Bool.not_true, Bool.or_eq_false_iff, beq_eq_false_iff_ne, ne_eq]
    constructor
    · intro h c' t' e
      simp only [List.cons.injEq] at e
      obtain ⟨rfl, _⟩ := e
      exact ⟨h.1.1.1, h.1.1.2, h.1.2, h.2⟩
    · intro h
      obtain ⟨a, b, c', d⟩ := h c t rfl
      exact ⟨⟨⟨a, b⟩, c'⟩, d⟩

/-- what may follow a token: after a number, nothing that would continue it -/
def TokStop (t : Tok) (r : Text) : Prop :=
  match t with
  | .num _ => NumStop r
  | _ => True

theorem TokStop.of_numStop {t : Tok} {r : Text} (h : NumStop r) : TokStop t r := by
  cases t <;> first | exact h | trivial

/-- a token the scanner can produce: it is found again, whatever admissible text follows -/
def TokOk (t : Tok) : Prop :=
  (∀ r', TokStop t r' → nextTok (tokText t ++ r') = some (t, r')) ∧
  (∃ c u, tokText t = c :: u ∧ isWs c = false) ∧ (∀ c ∈ tokText t, ¬ c < 32) ∧
  (∀ c, (tokText t).getLast? = some c → isWs c = false)

theorem numChar_ge {c : Byte} (h : numChar c = true) : ¬ c < 32 := by
  simp only [numChar, Bool.or_eq_true, beq_iff_eq] at h
  rcases h with ((((h | rfl) | rfl) | rfl) | rfl) | rfl
  · have := (isDigit_iff c).mp h
    simp only [UInt8.lt_iff_toNat_lt]
    have : (32 : UInt8).toNat = 32 := rfl
    omega
  all_goals decide

theorem numChar_notWs {c : Byte} (h : numChar c = true) : isWs c = false := by
  simp only [numChar, Bool.or_eq_true, beq_iff_eq] at h
  rcases h with ((((h | rfl) | rfl) | rfl) | rfl) | rfl
  · have := (isDigit_iff c).mp h
    simp only [isWs, Bool.or_eq_false_iff, beq_eq_false_iff_ne, ne_eq]
    refine ⟨⟨⟨?_, ?_⟩, ?_⟩, ?_⟩ <;> (intro e; subst e; revert this; decide)
  all_goals decide

theorem not_lt32_notWs_of_ne {c : Byte} (h : ¬ c < 32) (h' : c ≠ 32) : isWs c = false := by
  simp only [isWs, Bool.or_eq_false_iff, beq_eq_false_iff_ne, ne_eq]
  refine ⟨⟨⟨h', ?_⟩, ?_⟩, ?_⟩ <;> (intro e; subst e; exact h (by decide))

theorem nextTok_spec (s : Text) (t : Tok) (r : Text) (h : nextTok s = some (t, r)) :
    s = tokText t ++ r ∧ TokOk t ∧ TokStop t r := by
  cases s with
  | nil => simp [nextTok] at h
  | cons c s =>
    unfold nextTok at h
    by_cases h1 : c = 123
    · subst h1
      simp (config := {decide := true}) only [↓reduceIte, Option.some.injEq, Prod.mk.injEq] at h
      obtain ⟨rfl, rfl⟩ := h
      exact ⟨rfl, ⟨fun r' _ => by simp [nextTok, tokText], ⟨_, _, rfl, by decide⟩, by simp [tokText],
        by intro c hc; simp [tokText] at hc; subst hc; decide⟩, trivial⟩
    by_cases h2 : c = 125
    · subst h2
      simp (config := {decide := true}) only [↓reduceIte, Option.some.injEq, Prod.mk.injEq] at h
      obtain ⟨rfl, rfl⟩ := h
      exact ⟨rfl, ⟨fun r' _ => by simp [nextTok, tokText], ⟨_, _, rfl, by decide⟩, by simp [tokText],
        by intro c hc; simp [tokText] at hc; subst hc; decide⟩, trivial⟩
    by_cases h3 : c = 91
    · subst h3
      simp (config := {decide := true}) only [↓reduceIte, Option.some.injEq, Prod.mk.injEq] at h
      obtain ⟨rfl, rfl⟩ := h
      exact ⟨rfl, ⟨fun r' _ => by simp [nextTok, tokText], ⟨_, _, rfl, by decide⟩, by simp [tokText],
        by intro c hc; simp [tokText] at hc; subst hc; decide⟩, trivial⟩
    by_cases h4 : c = 93
    · subst h4
      simp (config := {decide := true}) only [↓reduceIte, Option.some.injEq, Prod.mk.injEq] at h
      obtain ⟨rfl, rfl⟩ := h
      exact ⟨rfl, ⟨fun r' _ => by simp [nextTok, tokText], ⟨_, _, rfl, by decide⟩, by simp [tokText],
        by intro c hc; simp [tokText] at hc; subst hc; decide⟩, trivial⟩
    by_cases h5 : c = 58
    · subst h5
      simp (config := {decide := true}) only [↓reduceIte, Option.some.injEq, Prod.mk.injEq] at h
      obtain ⟨rfl, rfl⟩ := h
      exact ⟨rfl, ⟨fun r' _ => by simp [nextTok, tokText], ⟨_, _, rfl, by decide⟩, by simp [tokText],
        by intro c hc; simp [tokText] at hc; subst hc; decide⟩, trivial⟩
    by_cases h6 : c = 44
    · subst h6
      simp (config := {decide := true}) only [↓reduceIte, Option.some.injEq, Prod.mk.injEq] at h
      obtain ⟨rfl, rfl⟩ := h
      exact ⟨rfl, ⟨fun r' _ => by simp [nextTok, tokText], ⟨_, _, rfl, by decide⟩, by simp [tokText],
        by intro c hc; simp [tokText] at hc; subst hc; decide⟩, trivial⟩
    simp only [h1, h2, h3, h4, h5, h6, ↓reduceIte] at h
    by_cases h7 : c = 34
    · subst h7
      simp only [↓reduceIte, Option.map_eq_some_iff, Prod.mk.injEq] at h
      obtain ⟨⟨b, r0⟩, hs, rfl, rfl⟩ := h
      obtain ⟨e1, e2, e3, e4⟩ := scanStr_spec _ _ _ hs
      refine ⟨by simp [tokText, e1], ⟨?_, ⟨34, b, rfl, by decide⟩, ?_, ?_⟩, trivial⟩
      · intro r' _
        simp only [tokText, List.cons_append, nextTok]
        simp (config := {decide := true}) only [↓reduceIte, e2 r', Option.map_some]
      · intro x hx
        simp only [tokText, List.mem_cons] at hx
        rcases hx with rfl | hx
        · decide
        · exact e3 x hx
      · intro x hx
        obtain ⟨ys, rfl⟩ := List.getLast?_eq_some_iff.mp e4
        have : tokText (Tok.str (34 :: (ys ++ [34]))) = (34 :: ys) ++ [34] := by simp [tokText]
        rw [this, List.getLast?_concat] at hx
        simp only [Option.some.injEq] at hx
        subst hx; decide
    simp only [h7, ↓reduceIte] at h
    by_cases h8 : (c = 45 || isDigit c) = true
    · simp only [h8, ↓reduceIte, Option.bind_eq_some_iff] at h
      obtain ⟨⟨l, r0⟩, hs, h⟩ := h
      split at h
      case isFalse => cases h
      rename_i hends
      simp only [Option.some.injEq, Prod.mk.injEq] at h
      obtain ⟨rfl, rfl⟩ := h
      have hstop : NumStop r0 := (numEnds_iff r0).mp hends
      obtain ⟨e1, e2, ⟨d, u, e3, e3'⟩, e4⟩ := scanNum_spec _ _ _ hs
      have hdc : d = c := by
        rw [e3] at e1; simp only [List.cons_append, List.cons.injEq] at e1; exact e1.1.symm
      subst hdc
      have hge : ¬ d < 32 := numChar_ge (e2 d (by rw [e3]; simp))
      have h32 : d ≠ 32 := by
        intro e; subst e
        rcases e3' with e | e
        · revert e; decide
        · revert e; decide
      refine ⟨by simpa [tokText] using e1, ⟨?_, ⟨d, u, by simpa [tokText] using e3, not_lt32_notWs_of_ne hge h32⟩, ?_, ?_⟩, hstop⟩
      · intro r' hr'
        have hr' : NumStop r' := hr'
        simp only [tokText]
        subst e3
        simp only [List.cons_append, nextTok, h1, h2, h3, h4, h5, h6, h7, h8, ↓reduceIte]
        have := e4 r' hr'
        simp only [List.cons_append] at this
        rw [this]
        simp [(numEnds_iff r').mpr hr']
      · intro x hx
        exact numChar_ge (e2 x (by simpa [tokText] using hx))
      · intro x hx
        have hm : x ∈ l := List.mem_of_getLast? (by simpa [tokText] using hx)
        exact numChar_notWs (e2 x hm)
    simp only [h8] at h
    simp only [Bool.false_eq_true, ↓reduceIte] at h
    by_cases h9 : c = 116
    · subst h9
      simp only [↓reduceIte, Option.map_eq_some_iff, Prod.mk.injEq] at h
      obtain ⟨r0, hs, rfl, rfl⟩ := h
      have := scanLit_spec _ _ _ hs
      refine ⟨by simp [tokText, this, wTrue], ⟨?_, ⟨_, _, rfl, by decide⟩, by simp [tokText],
        by intro c hc; simp [tokText] at hc; subst hc; decide⟩, trivial⟩
      intro r' _
      have := scanLit_append wTrue r'
      simp only [wTrue, List.cons_append, List.nil_append] at this
      simp (config := {decide := true}) only [tokText, List.cons_append, List.nil_append, nextTok, ↓reduceIte, wTrue, this, Option.map_some]
    simp only [h9, ↓reduceIte] at h
    by_cases h10 : c = 102
    · subst h10
      simp only [↓reduceIte, Option.map_eq_some_iff, Prod.mk.injEq] at h
      obtain ⟨r0, hs, rfl, rfl⟩ := h
      have := scanLit_spec _ _ _ hs
      refine ⟨by simp [tokText, this, wFalse], ⟨?_, ⟨_, _, rfl, by decide⟩, by simp [tokText],
        by intro c hc; simp [tokText] at hc; subst hc; decide⟩, trivial⟩
      intro r' _
      have := scanLit_append wFalse r'
      simp only [wFalse, List.cons_append, List.nil_append] at this
      simp (config := {decide := true}) only [tokText, List.cons_append, List.nil_append, nextTok, ↓reduceIte, wFalse, this, Option.map_some]
    simp only [h10, ↓reduceIte] at h
    by_cases h11 : c = 110
    · subst h11
      simp only [↓reduceIte, Option.map_eq_some_iff, Prod.mk.injEq] at h
      obtain ⟨r0, hs, rfl, rfl⟩ := h
      have := scanLit_spec _ _ _ hs
      refine ⟨by simp [tokText, this, wNull], ⟨?_, ⟨_, _, rfl, by decide⟩, by simp [tokText],
        by intro c hc; simp [tokText] at hc; subst hc; decide⟩, trivial⟩
      intro r' _
      have := scanLit_append wNull r'
      simp only [wNull, List.cons_append, List.nil_append] at this
      simp (config := {decide := true}) only [tokText, List.cons_append, List.nil_append, nextTok, ↓reduceIte, wNull, this, Option.map_some]
    simp [h11] at h

theorem numStop_cons {c : Byte} (t : Text) (h : numChar c = false) : NumStop (c :: t) := by
  intro c' t' e
  simp only [List.cons.injEq] at e
  obtain ⟨rfl, _⟩ := e
  simp only [numChar, Bool.or_eq_false_iff, beq_eq_false_iff_ne, ne_eq] at h
  exact ⟨h.1.1.1.1.1, h.1.1.2, h.1.2, h.2⟩

theorem numStop_of_ws {c : Byte} (t : Text) (h : isWs c = true) : NumStop (c :: t) := by
  apply numStop_cons
  simp only [isWs, Bool.or_eq_true, beq_iff_eq] at h
  rcases h with ((rfl | rfl) | rfl) | rfl <;> decide

theorem TokOk.length_pos {t : Tok} (h : TokOk t) : 0 < (tokText t).length := by
  obtain ⟨_, ⟨c, u, e, _⟩, _, _⟩ := h
  rw [e]; simp

theorem nextTok_length {s : Text} {t : Tok} {r : Text} (h : nextTok s = some (t, r)) :
    r.length < s.length := by
  obtain ⟨e, ok, _⟩ := nextTok_spec s t r h
  have := ok.length_pos
  rw [e]; simp only [List.length_append]; omega

/-- enough fuel is enough -/
theorem tokensAux_fuel : ∀ (n m : Nat) (s : Text), s.length < n → s.length < m →
    tokensAux n s = tokensAux m s := by
  intro n
  induction n with
  | zero => intro m s h; omega
  | succ n ih =>
    intro m s hn hm
    cases m with
    | zero => omega
    | succ m =>
      unfold tokensAux
      have hl := skipWs_length_le s
      cases hq : skipWs s with
      | nil => rfl
      | cons c r =>
        simp only
        cases hp : nextTok (c :: r) with
        | none => rfl
        | some p =>
          obtain ⟨t, r'⟩ := p
          simp only
          have := nextTok_length hp
          rw [hq] at hl
          rw [ih m r' (by omega) (by omega)]

/-- **the tokeniser, unfolded once** (no fuel) -/
theorem tokens_unfold (s : Text) :
    tokens s =
      match skipWs s with
      | [] => some []
      | c :: r =>
        match nextTok (c :: r) with
        | none => none
        | some p => (tokens p.2).map (p.1 :: ·) := by
  unfold tokens
  rw [tokensAux]
  have hl := skipWs_length_le s
  cases hq : skipWs s with
  | nil => rfl
  | cons c r =>
    simp only
    cases hp : nextTok (c :: r) with
    | none => rfl
    | some p =>
      obtain ⟨t, r'⟩ := p
      simp only
      have := nextTok_length hp
      rw [hq] at hl
      rw [tokensAux_fuel s.length (r'.length + 1) r' (by omega) (by omega)]

/-- **the tokeniser ignores white space before a token** -/
theorem tokens_ws_prefix (w s : Text) (h : AllWs w) : tokens (w ++ s) = tokens s := by
  rw [tokens_unfold (w ++ s), tokens_unfold s, skipWs_ws_append w s h]

theorem tokens_of_ws (w : Text) (h : AllWs w) : tokens w = some [] := by
  have := tokens_ws_prefix w [] h
  simp only [List.append_nil] at this
  rw [this, tokens_unfold]; rfl

/-- a scanned token followed by text that does not continue a number is found first -/
theorem tokens_tok (t : Tok) (r : Text) (ok : TokOk t) (hr : TokStop t r) :
    tokens (tokText t ++ r) = (tokens r).map (t :: ·) := by
  obtain ⟨h1, ⟨c, u, e, hc⟩, _, _⟩ := ok
  rw [tokens_unfold]
  have : skipWs (tokText t ++ r) = c :: (u ++ r) := by
    rw [e]; exact skipWs_of_nonws c _ hc
  rw [this]
  simp only
  have h2 := h1 r hr
  rw [e] at h2
  simp only [List.cons_append] at h2
  rw [h2]

/-- every token of a tokenised text is one the scanner can produce -/
theorem tokens_ok : ∀ (n : Nat) (s : Text) (ts : List Tok), s.length < n → tokens s = some ts →
    ∀ t ∈ ts, TokOk t := by
  intro n
  induction n with
  | zero => intro s ts h; omega
  | succ n ih =>
    intro s ts hn h
    rw [tokens_unfold] at h
    have hl := skipWs_length_le s
    cases hq : skipWs s with
    | nil =>
      rw [hq] at h
      simp only [Option.some.injEq] at h
      subst h; simp
    | cons c r =>
      rw [hq] at h hl
      simp only at h
      cases hp : nextTok (c :: r) with
      | none => rw [hp] at h; cases h
      | some p =>
        obtain ⟨t, r'⟩ := p
        rw [hp] at h
        simp only [Option.map_eq_some_iff] at h
        obtain ⟨ts', h', rfl⟩ := h
        have hlen := nextTok_length hp
        intro x hx
        simp only [List.mem_cons] at hx
        rcases hx with rfl | hx
        · exact (nextTok_spec _ _ _ hp).2.1
        · exact ih r' ts' (by simp only [List.length_cons] at hlen hl; omega) h' x hx

/-! ## the token parser -/

/-- soundness: what the parser accepts is the token sequence of the tree it returns -/
theorem parser_sound : ∀ n : Nat,
    (∀ ts v rest, pVal n ts = some (v, rest) → ts = toks v ++ rest) ∧
    (∀ ts xs rest, pElems n ts = some (xs, rest) → xs ≠ [] ∧ ts = toksL xs ++ .rbrack :: rest) ∧
    (∀ ts ms rest, pMembers n ts = some (ms, rest) → ms ≠ [] ∧ ts = toksM ms ++ .rbrace :: rest) := by
  intro n
  induction n with
  | zero => simp [pVal, pElems, pMembers]
  | succ n ih =>
    obtain ⟨ihV, ihE, ihM⟩ := ih
    refine ⟨?_, ?_, ?_⟩
    · intro ts v rest h
      rw [pVal.eq_def] at h; simp only at h
      cases ts with
      | nil => simp at h
      | cons t ts =>
        cases t with
        | str r => simp only [Option.some.injEq, Prod.mk.injEq] at h; obtain ⟨rfl, rfl⟩ := h; simp [toks]
        | num r => simp only [Option.some.injEq, Prod.mk.injEq] at h; obtain ⟨rfl, rfl⟩ := h; simp [toks]
        | tru => simp only [Option.some.injEq, Prod.mk.injEq] at h; obtain ⟨rfl, rfl⟩ := h; simp [toks]
        | fls => simp only [Option.some.injEq, Prod.mk.injEq] at h; obtain ⟨rfl, rfl⟩ := h; simp [toks]
        | nul => simp only [Option.some.injEq, Prod.mk.injEq] at h; obtain ⟨rfl, rfl⟩ := h; simp [toks]
        | lbrack =>
          simp only at h
          split at h
          · simp only [Option.some.injEq, Prod.mk.injEq] at h; obtain ⟨rfl, rfl⟩ := h; simp [toks, toksL]
          · simp only [Option.map_eq_some_iff, Prod.mk.injEq] at h
            obtain ⟨⟨xs, r'⟩, he, rfl, rfl⟩ := h
            obtain ⟨_, e⟩ := ihE _ _ _ he
            simp [toks, e]
        | lbrace =>
          simp only at h
          split at h
          · simp only [Option.some.injEq, Prod.mk.injEq] at h; obtain ⟨rfl, rfl⟩ := h; simp [toks, toksM]
          · simp only [Option.map_eq_some_iff, Prod.mk.injEq] at h
            obtain ⟨⟨ms, r'⟩, he, rfl, rfl⟩ := h
            obtain ⟨_, e⟩ := ihM _ _ _ he
            simp [toks, e]
        | rbrace => simp at h
        | rbrack => simp at h
        | colon => simp at h
        | comma => simp at h
    · intro ts xs rest h
      rw [pElems.eq_def] at h; simp only at h
      cases hv : pVal n ts with
      | none => simp [hv] at h
      | some p =>
        obtain ⟨v, r1⟩ := p
        simp only [hv] at h
        have e1 := ihV _ _ _ hv
        split at h
        · rename_i _ r2
          simp only [Option.map_eq_some_iff, Prod.mk.injEq] at h
          obtain ⟨⟨ys, r3⟩, he, rfl, rfl⟩ := h
          obtain ⟨hne, e2⟩ := ihE _ _ _ he
          refine ⟨by simp, ?_⟩
          cases ys with
          | nil => exact absurd rfl hne
          | cons y ys => rw [e1, e2]; simp [toksL, sepTok]
        · rename_i _ r2
          simp only [Option.some.injEq, Prod.mk.injEq] at h
          obtain ⟨rfl, rfl⟩ := h
          refine ⟨by simp, ?_⟩
          rw [e1]; simp [toksL, sepTok]
        · cases h
    · intro ts ms rest h
      rw [pMembers.eq_def] at h; simp only at h
      split at h
      · rename_i k ts'
        cases hv : pVal n ts' with
        | none => simp [hv] at h
        | some p =>
          obtain ⟨v, r1⟩ := p
          simp only [hv] at h
          have e1 := ihV _ _ _ hv
          split at h
          · rename_i _ r2
            simp only [Option.map_eq_some_iff, Prod.mk.injEq] at h
            obtain ⟨⟨ys, r3⟩, he, rfl, rfl⟩ := h
            obtain ⟨hne, e2⟩ := ihM _ _ _ he
            refine ⟨by simp, ?_⟩
            cases ys with
            | nil => exact absurd rfl hne
            | cons y ys => rw [e1, e2]; simp [toksM, sepTok]
          · rename_i _ r2
            simp only [Option.some.injEq, Prod.mk.injEq] at h
            obtain ⟨rfl, rfl⟩ := h
            refine ⟨by simp, ?_⟩
            rw [e1]; simp [toksM, sepTok]
          · cases h
      · cases h


mutual
/-- fuel the token parser needs for a tree -/
def fV : JV → Nat
  | .arr xs => 1 + fL xs
  | .obj ms => 1 + fM ms
  | _ => 1
def fL : List JV → Nat
  | [] => 0
  | x :: xs => 1 + max (fV x) (fL xs)
def fM : List (Text × JV) → Nat
  | [] => 0
  | (_, v) :: ms => 1 + max (fV v) (fM ms)
end

/-- tokens a value can start with -/
def startTok : Tok → Bool
  | .str _ | .num _ | .tru | .fls | .nul | .lbrack | .lbrace => true
  | _ => false

theorem toks_head (v : JV) : ∃ t ts, toks v = t :: ts ∧ startTok t = true := by
  cases v <;> simp [toks, startTok]

mutual
/-- completeness: the token sequence of a tree parses back to the tree -/
theorem pVal_toks : ∀ (v : JV) (n : Nat) (rest : List Tok), fV v ≤ n → pVal n (toks v ++ rest) = some (v, rest)
  | .str r, n, rest, h => by
    cases n with
    | zero => simp [fV] at h
    | succ n => simp [toks, pVal]
  | .num r, n, rest, h => by
    cases n with
    | zero => simp [fV] at h
    | succ n => simp [toks, pVal]
  | .tru, n, rest, h => by
    cases n with
    | zero => simp [fV] at h
    | succ n => simp [toks, pVal]
  | .fls, n, rest, h => by
    cases n with
    | zero => simp [fV] at h
    | succ n => simp [toks, pVal]
  | .nul, n, rest, h => by
    cases n with
    | zero => simp [fV] at h
    | succ n => simp [toks, pVal]
  | .arr xs, n, rest, h => by
    cases n with
    | zero => simp [fV] at h
    | succ n =>
      cases xs with
      | nil => simp [toks, toksL, pVal]
      | cons x xs =>
        have ih := pElems_toksL (x :: xs) n rest (by simp) (by simp only [fV] at h; omega)
        obtain ⟨t, ts, e, hs⟩ := toks_head x
        simp only [toks, List.cons_append, List.append_assoc, List.nil_append]
        rw [pVal.eq_def]
        simp only
        have e2 : toksL (x :: xs) ++ Tok.rbrack :: rest = t :: (ts ++ sepTok xs ++ toksL xs ++ Tok.rbrack :: rest) := by
          simp [toksL, e]
        rw [e2] at ih ⊢
        simp only [List.append_assoc] at ih
        cases t <;> simp [startTok] at hs <;> simp [ih]
  | .obj ms, n, rest, h => by
    cases n with
    | zero => simp [fV] at h
    | succ n =>
      cases ms with
      | nil => simp [toks, toksM, pVal]
      | cons m ms =>
        have ih := pMembers_toksM (m :: ms) n rest (by simp) (by simp only [fV] at h; omega)
        obtain ⟨k, v⟩ := m
        simp only [toks, List.cons_append, List.append_assoc, List.nil_append]
        rw [pVal.eq_def]
        simp only
        have e2 : toksM ((k, v) :: ms) ++ Tok.rbrace :: rest = Tok.str k :: (Tok.colon :: toks v ++ sepTok ms ++ toksM ms ++ Tok.rbrace :: rest) := by
          simp [toksM]
        rw [e2] at ih ⊢
        simp only [List.append_assoc, List.cons_append] at ih
        simp [ih]
theorem pElems_toksL : ∀ (xs : List JV) (n : Nat) (rest : List Tok), xs ≠ [] → fL xs ≤ n →
    pElems n (toksL xs ++ .rbrack :: rest) = some (xs, rest)
  | [], _, _, hne, _ => absurd rfl hne
  | x :: xs, n, rest, _, h => by
    cases n with
    | zero => simp [fL] at h
    | succ n =>
      simp only [fL] at h
      have hv := pVal_toks x n (sepTok xs ++ toksL xs ++ Tok.rbrack :: rest) (by omega)
      rw [pElems.eq_def]
      simp only [toksL, List.append_assoc]
      simp only [List.append_assoc] at hv
      rw [hv]
      cases xs with
      | nil => simp [sepTok, toksL]
      | cons y ys =>
        have ih := pElems_toksL (y :: ys) n rest (by simp) (by omega)
        simp [sepTok, ih]
theorem pMembers_toksM : ∀ (ms : List (Text × JV)) (n : Nat) (rest : List Tok), ms ≠ [] → fM ms ≤ n →
    pMembers n (toksM ms ++ .rbrace :: rest) = some (ms, rest)
  | [], _, _, hne, _ => absurd rfl hne
  | (k, v) :: ms, n, rest, _, h => by
    cases n with
    | zero => simp [fM] at h
    | succ n =>
      simp only [fM] at h
      have hv := pVal_toks v n (sepTok ms ++ toksM ms ++ Tok.rbrace :: rest) (by omega)
      rw [pMembers.eq_def]
      simp only [toksM, List.append_assoc, List.cons_append]
      simp only [List.append_assoc] at hv
      rw [hv]
      cases ms with
      | nil => simp [sepTok, toksM]
      | cons y ys =>
        have ih := pMembers_toksM (y :: ys) n rest (by simp) (by omega)
        simp [sepTok, ih]
end


mutual
theorem fV_le : ∀ v : JV, fV v ≤ (toks v).length
  | .str _ => by simp [fV, toks]
  | .num _ => by simp [fV, toks]
  | .tru => by simp [fV, toks]
  | .fls => by simp [fV, toks]
  | .nul => by simp [fV, toks]
  | .arr xs => by
    have := fL_le xs
    simp only [fV, toks, List.length_cons, List.length_append, List.length_nil]; omega
  | .obj ms => by
    have := fM_le ms
    simp only [fV, toks, List.length_cons, List.length_append, List.length_nil]; omega
theorem fL_le : ∀ xs : List JV, fL xs ≤ (toksL xs).length + 1
  | [] => by simp [fL]
  | x :: xs => by
    have h1 := fV_le x
    have h2 := fL_le xs
    cases xs with
    | nil => simp only [fL, toksL, sepTok, List.length_append, List.length_nil] at *; omega
    | cons y ys => simp only [fL, toksL, sepTok, List.length_append, List.length_cons, List.length_nil] at *; omega
theorem fM_le : ∀ ms : List (Text × JV), fM ms ≤ (toksM ms).length + 1
  | [] => by simp [fM]
  | (k, v) :: ms => by
    have h1 := fV_le v
    have h2 := fM_le ms
    cases ms with
    | nil => simp only [fM, toksM, sepTok, List.length_append, List.length_cons, List.length_nil] at *; omega
    | cons y ys => simp only [fM, toksM, sepTok, List.length_append, List.length_cons, List.length_nil] at *; omega
end

/-- **token round trip**: the token sequence of a tree parses to that tree -/
theorem parseToks_toks (v : JV) : parseToks (toks v) = some v := by
  unfold parseToks
  have h := pVal_toks v (2 * (toks v).length + 2) [] (by have := fV_le v; omega)
  simp only [List.append_nil] at h
  rw [h]

/-- and a token sequence that parses to a tree is that tree's token sequence -/
theorem parseToks_sound (ts : List Tok) (v : JV) (h : parseToks ts = some v) : ts = toks v := by
  unfold parseToks at h
  split at h
  · rename_i v' hv
    simp only [Option.some.injEq] at h
    subst h
    simpa using (parser_sound _).1 _ _ _ hv
  · cases h

/-! ## bytewise order, stable insertion sort -/

theorem ltBytes_irrefl : ∀ a : Text, ltBytes a a = false
  | [] => rfl
  | c :: cs => by simp [ltBytes, ltBytes_irrefl cs]

theorem byte_lt_trichotomy (a b : Byte) : a < b ∨ a = b ∨ b < a := by
  rcases Nat.lt_trichotomy a.toNat b.toNat with h | h | h
  · exact Or.inl (UInt8.lt_iff_toNat_lt.mpr h)
  · exact Or.inr (Or.inl (UInt8.toNat_inj.mp h))
  · exact Or.inr (Or.inr (UInt8.lt_iff_toNat_lt.mpr h))

theorem byte_lt_asymm {a b : Byte} (h : a < b) : ¬ b < a := by
  rw [UInt8.lt_iff_toNat_lt] at *; omega

theorem byte_lt_irrefl (a : Byte) : ¬ a < a := by
  rw [UInt8.lt_iff_toNat_lt]; omega

theorem byte_lt_trans {a b c : Byte} (h : a < b) (h' : b < c) : a < c := by
  rw [UInt8.lt_iff_toNat_lt] at *; omega

theorem ltBytes_total : ∀ a b : Text, a ≠ b → ltBytes a b = true ∨ ltBytes b a = true
  | [], [], h => absurd rfl h
  | [], _ :: _, _ => Or.inl rfl
  | _ :: _, [], _ => Or.inr rfl
  | a :: as, b :: bs, h => by
    rcases byte_lt_trichotomy a b with hab | rfl | hba
    · left; simp [ltBytes, hab]
    · have : as ≠ bs := fun e => h (by rw [e])
      simp only [ltBytes, byte_lt_irrefl, ↓reduceIte]
      exact ltBytes_total as bs this
    · right; simp [ltBytes, hba]

theorem ltBytes_trans : ∀ a b c : Text, ltBytes a b = true → ltBytes b c = true → ltBytes a c = true
  | [], [], _, h, _ => by simp [ltBytes] at h
  | [], _ :: _, [], _, h => by simp [ltBytes] at h
  | [], _ :: _, _ :: _, _, _ => rfl
  | _ :: _, [], _, h, _ => by simp [ltBytes] at h
  | _ :: _, _ :: _, [], _, h => by simp [ltBytes] at h
  | a :: as, b :: bs, c :: cs, h1, h2 => by
    simp only [ltBytes] at h1 h2 ⊢
    rcases byte_lt_trichotomy a b with hab | rfl | hba
    · rcases byte_lt_trichotomy b c with hbc | rfl | hcb
      · simp [byte_lt_trans hab hbc]
      · simp [hab]
      · simp [hcb, byte_lt_asymm hcb] at h2
    · rcases byte_lt_trichotomy a c with hbc | rfl | hcb
      · simp [hbc]
      · simp only [byte_lt_irrefl, ↓reduceIte] at h1 h2 ⊢
        exact ltBytes_trans as bs cs h1 h2
      · simp [hcb, byte_lt_asymm hcb] at h2
    · simp [hba, byte_lt_asymm hba] at h1

theorem ltBytes_asymm (a b : Text) (h : ltBytes a b = true) : ltBytes b a = false := by
  cases hq : ltBytes b a with
  | false => rfl
  | true =>
    have := ltBytes_trans a b a h hq
    rw [ltBytes_irrefl] at this; cases this

theorem insertBy_perm {α : Type} (lt : α → α → Bool) (x : α) : ∀ l : List α, (insertBy lt x l).Perm (x :: l)
  | [] => List.Perm.refl _
  | y :: ys => by
    simp only [insertBy]
    split
    · exact ((insertBy_perm lt x ys).cons y).trans (List.Perm.swap x y ys)
    · exact List.Perm.refl _

theorem sortBy_perm {α : Type} (lt : α → α → Bool) : ∀ l : List α, (sortBy lt l).Perm l
  | [] => List.Perm.refl _
  | x :: xs => by
    simp only [sortBy, List.foldr_cons]
    exact (insertBy_perm lt x _).trans ((sortBy_perm lt xs).cons x)

theorem insertBy_map {α β : Type} (lt' : α → α → Bool) (lt : β → β → Bool) (f : α → β)
    (h : ∀ a b, lt' a b = lt (f a) (f b)) (x : α) :
    ∀ l : List α, (insertBy lt' x l).map f = insertBy lt (f x) (l.map f)
  | [] => rfl
  | y :: ys => by
    simp only [insertBy, List.map_cons, h y x]
    split
    · simp [insertBy_map lt' lt f h x ys]
    · simp

/-- sorting commutes with a map that carries the order -/
theorem sortBy_map {α β : Type} (lt' : α → α → Bool) (lt : β → β → Bool) (f : α → β)
    (h : ∀ a b, lt' a b = lt (f a) (f b)) : ∀ l : List α, (sortBy lt' l).map f = sortBy lt (l.map f)
  | [] => rfl
  | x :: xs => by
    simp only [sortBy, List.foldr_cons, List.map_cons]
    rw [insertBy_map lt' lt f h]
    congr 1
    exact sortBy_map lt' lt f h xs

section Keyed
variable {α : Type} (lt : α → α → Bool) (key : α → Text)

/-- strictly increasing keys -/
def KeySorted (l : List α) : Prop := l.Pairwise (fun a b => ltBytes (key a) (key b) = true)

theorem insertBy_keySorted (hlt : ∀ a b, key a ≠ key b → lt a b = ltBytes (key a) (key b)) (x : α) :
    ∀ l : List α, KeySorted key l → (∀ y ∈ l, key y ≠ key x) → KeySorted key (insertBy lt x l)
  | [], _, _ => by simp [insertBy, KeySorted]
  | y :: ys, hs, hne => by
    have hyx : key y ≠ key x := hne y (by simp)
    simp only [KeySorted, List.pairwise_cons] at hs
    simp only [insertBy, hlt y x hyx]
    split
    · rename_i h
      have ih := insertBy_keySorted hlt x ys hs.2 (fun z hz => hne z (by simp [hz]))
      simp only [KeySorted, List.pairwise_cons]
      refine ⟨?_, ih⟩
      intro z hz
      have := (insertBy_perm lt x ys).mem_iff.mp hz
      simp only [List.mem_cons] at this
      rcases this with rfl | hz'
      · exact h
      · exact hs.1 z hz'
    · rename_i h
      have hxy : ltBytes (key x) (key y) = true := by
        rcases ltBytes_total (key y) (key x) hyx with h' | h'
        · exact absurd h' h
        · exact h'
      simp only [KeySorted, List.pairwise_cons]
      refine ⟨?_, hs⟩
      intro z hz
      simp only [List.mem_cons] at hz
      rcases hz with rfl | hz
      · exact hxy
      · exact ltBytes_trans _ _ _ hxy (hs.1 z hz)

/-- with pairwise different keys, the sorted list has strictly increasing keys -/
theorem sortBy_keySorted (hlt : ∀ a b, key a ≠ key b → lt a b = ltBytes (key a) (key b)) :
    ∀ l : List α, l.Pairwise (fun a b => key a ≠ key b) → KeySorted key (sortBy lt l)
  | [], _ => by simp [sortBy, KeySorted]
  | x :: xs, h => by
    simp only [List.pairwise_cons] at h
    simp only [sortBy, List.foldr_cons]
    apply insertBy_keySorted lt key hlt x _ (sortBy_keySorted hlt xs h.2)
    intro y hy
    have := (sortBy_perm lt xs).mem_iff.mp hy
    exact fun e => h.1 y this e.symm

/-- two lists with strictly increasing keys and the same elements are equal -/
theorem keySorted_unique : ∀ l₁ l₂ : List α, l₁.Perm l₂ → KeySorted key l₁ → KeySorted key l₂ → l₁ = l₂
  | [], l₂, hp, _, _ => by simpa using hp.symm.eq_nil
  | a :: l₁, [], hp, _, _ => by simpa using hp.eq_nil
  | a :: l₁, b :: l₂, hp, h1, h2 => by
    simp only [KeySorted, List.pairwise_cons] at h1 h2
    have hab : a = b := by
      have ha : a ∈ b :: l₂ := hp.mem_iff.mp (by simp)
      have hb : b ∈ a :: l₁ := hp.mem_iff.mpr (by simp)
      simp only [List.mem_cons] at ha hb
      rcases ha with e | ha
      · exact e
      · rcases hb with e | hb
        · exact e.symm
        · have x1 := h1.1 b hb
          have x2 := h2.1 a ha
          rw [ltBytes_asymm _ _ x1] at x2; cases x2
    subst hab
    rw [keySorted_unique l₁ l₂ hp.cons_inv h1.2 h2.2]

/-- **the sorted order does not depend on the input order** when the keys are pairwise different -/
theorem sortBy_perm_eq (hlt : ∀ a b, key a ≠ key b → lt a b = ltBytes (key a) (key b))
    (l₁ l₂ : List α) (hp : l₁.Perm l₂) (hd : l₁.Pairwise (fun a b => key a ≠ key b)) :
    sortBy lt l₁ = sortBy lt l₂ := by
  have hd2 : l₂.Pairwise (fun a b => key a ≠ key b) :=
    hp.pairwise_iff (fun {x y} (h : key x ≠ key y) => (fun e => h e.symm : key y ≠ key x)) |>.mp hd
  exact keySorted_unique key _ _
    (((sortBy_perm lt l₁).trans hp).trans (sortBy_perm lt l₂).symm)
    (sortBy_keySorted lt key hlt l₁ hd) (sortBy_keySorted lt key hlt l₂ hd2)

end Keyed

/-- on members with different sort keys `Less` is the comparison of the keys -/
theorem memberLess_of_ne (a b : Member) (h : sortKey a.key ≠ sortKey b.key) :
    memberLess a b = ltBytes (sortKey a.key) (sortKey b.key) := by
  unfold memberLess
  rcases ltBytes_total _ _ h with h1 | h1
  · simp [h1]
  · simp [h1, ltBytes_asymm _ _ h1]


/-! ## the tree the printer prints: members sorted as `sortPairs` sorts them -/

/-- the same options without `SortKeys` -/
def Opts.unsorted (o : Opts) : Opts := { o with sortKeys := false }

@[simp] theorem unsorted_indentN (o : Opts) (n : Nat) : indentN o.unsorted n = indentN o n := by
  induction n with
  | zero => rfl
  | succ n ih => simp only [indentN, ih]; rfl
@[simp] theorem unsorted_elemCol (o : Opts) (t : Nat) (f : Bool) : elemCol o.unsorted t f = elemCol o t f := rfl
@[simp] theorem unsorted_memberCol (o : Opts) (t : Nat) (k : Text) : memberCol o.unsorted t k = memberCol o t k := rfl
@[simp] theorem unsorted_fits (o : Opts) (c : Nat) (v : JV) : fitsOneLine o.unsorted c v = fitsOneLine o c v := rfl
@[simp] theorem unsorted_sortKeys (o : Opts) : o.unsorted.sortKeys = false := rfl
@[simp] theorem unsorted_memberLine (o : Opts) (t : Nat) (m : Member) : memberLine o.unsorted t m = memberLine o t m := by
  simp [memberLine]
@[simp] theorem unsorted_joinMembers (o : Opts) (t : Nat) (l : List Member) : joinMembers o.unsorted t l = joinMembers o t l := by
  induction l with
  | nil => rfl
  | cons m ms ih => simp only [joinMembers, ih, unsorted_memberLine]

/-- the order on (rendered member, member) pairs: `byKeyVal.Less` on the rendered member -/
def pairLess (a b : Member × (Text × JV)) : Bool := memberLess a.1 b.1

mutual
/-- the tree whose plain (unsorted) print is the print of `v` under `o`: in every object the
members are in the order `sortPairs` gives them (which depends on the rendered values, hence on
the position) -/
def srt (o : Opts) : Nat → Nat → JV → JV
  | tabs, _, .arr xs => .arr (srtL o (tabs + 1) true xs)
  | tabs, _, .obj ms =>
    .obj ((if o.sortKeys then sortBy pairLess (srtM o (tabs + 1) ms) else srtM o (tabs + 1) ms).map (·.2))
  | _, _, v => v
def srtL (o : Opts) : Nat → Bool → List JV → List JV
  | _, _, [] => []
  | tabs, first, x :: xs => srt o tabs (elemCol o tabs first) x :: srtL o tabs false xs
/-- each member with its rendering -/
def srtM (o : Opts) : Nat → List (Text × JV) → List (Member × (Text × JV))
  | _, [] => []
  | tabs, (k, v) :: ms =>
    (⟨k, ppV o tabs (memberCol o tabs k) v⟩, (k, srt o tabs (memberCol o tabs k) v)) :: srtM o tabs ms
end

theorem srtL_length (o : Opts) : ∀ (tabs : Nat) (first : Bool) (xs : List JV), (srtL o tabs first xs).length = xs.length
  | _, _, [] => rfl
  | tabs, first, x :: xs => by simp [srtL, srtL_length o tabs false xs]

theorem srtM_length (o : Opts) : ∀ (tabs : Nat) (ms : List (Text × JV)), (srtM o tabs ms).length = ms.length
  | _, [] => rfl
  | tabs, (k, v) :: ms => by simp [srtM, srtM_length o tabs ms]

theorem srtM_fst (o : Opts) : ∀ (tabs : Nat) (ms : List (Text × JV)), (srtM o tabs ms).map (·.1) = ppMembers o tabs ms
  | _, [] => rfl
  | tabs, (k, v) :: ms => by simp [srtM, ppMembers, srtM_fst o tabs ms]

mutual
theorem oneLine_srt (o : Opts) : ∀ (tabs col : Nat) (v : JV), oneLine (srt o tabs col v) = oneLine v
  | _, _, .str _ => rfl
  | _, _, .num _ => rfl
  | _, _, .tru => rfl
  | _, _, .fls => rfl
  | _, _, .nul => rfl
  | tabs, _, .arr xs => by simp only [srt, oneLine, oneLineL_srt o (tabs + 1) true xs]
  | _, _, .obj ms => by simp [srt, oneLine]
theorem oneLineL_srt (o : Opts) : ∀ (tabs : Nat) (first : Bool) (xs : List JV), oneLineL (srtL o tabs first xs) = oneLineL xs
  | _, _, [] => rfl
  | tabs, first, x :: xs => by
    have hs : sepText [44, 32] (srtL o tabs false xs) = sepText [44, 32] xs := by
      have := srtL_length o tabs false xs
      cases xs <;> cases h : srtL o tabs false _ <;> simp_all [sepText]
    simp only [srtL, oneLineL, oneLine_srt o tabs _ x, oneLineL_srt o tabs false xs, hs]
end

mutual
/-- **printing with `SortKeys` is plain printing of the sorted tree** -/
theorem ppV_srt (o : Opts) : ∀ (tabs col : Nat) (v : JV),
    ppV o tabs col v = ppV o.unsorted tabs col (srt o tabs col v)
  | _, _, .str _ => rfl
  | _, _, .num _ => rfl
  | _, _, .tru => rfl
  | _, _, .fls => rfl
  | _, _, .nul => rfl
  | tabs, col, .arr xs => by
    have h1 : fitsOneLine o col (.arr (srtL o (tabs + 1) true xs)) = fitsOneLine o col (.arr xs) := by
      have := oneLine_srt o tabs col (.arr xs)
      simp only [srt] at this
      simp only [fitsOneLine, this]
    have he : (srtL o (tabs + 1) true xs).isEmpty = xs.isEmpty := by
      have := srtL_length o (tabs + 1) true xs
      cases xs <;> cases h : srtL o (tabs + 1) true _ <;> simp_all
    simp only [srt, ppV, unsorted_fits, h1, he, unsorted_indentN, ← ppElems_srt o (tabs + 1) true xs]
  | tabs, col, .obj ms => by
    have key : ∀ l : List (Member × (Text × JV)), (∀ e ∈ l, ⟨e.2.1, ppV o.unsorted (tabs + 1) (memberCol o (tabs + 1) e.2.1) e.2.2⟩ = e.1) →
        ppMembers o.unsorted (tabs + 1) (l.map (·.2)) = l.map (·.1) := by
      intro l
      induction l with
      | nil => intro _; rfl
      | cons e l ih =>
        intro h
        obtain ⟨m, k, v⟩ := e
        have h1 := h (m, k, v) (by simp)
        simp only at h1
        simp only [List.map_cons, ppMembers, unsorted_memberCol, h1]
        rw [ih (fun e he => h e (by simp [he]))]
    have hL : ∀ e ∈ srtM o (tabs + 1) ms, (⟨e.2.1, ppV o.unsorted (tabs + 1) (memberCol o (tabs + 1) e.2.1) e.2.2⟩ : Member) = e.1 :=
      srtM_pointwise o (tabs + 1) ms
    have he : ∀ l : List (Member × (Text × JV)), l.length = ms.length → (l.map (·.2)).isEmpty = ms.isEmpty := by
      intro l hl
      cases ms <;> cases l <;> simp_all
    by_cases hs : o.sortKeys = true
    · have hperm := sortBy_perm pairLess (srtM o (tabs + 1) ms)
      have e1 := key (sortBy pairLess (srtM o (tabs + 1) ms)) (fun e he' => hL e (hperm.mem_iff.mp he'))
      have e2 : (sortBy pairLess (srtM o (tabs + 1) ms)).map (·.1) = sortMembers (ppMembers o (tabs + 1) ms) := by
        rw [sortBy_map pairLess memberLess (·.1) (fun _ _ => rfl), srtM_fst]; rfl
      simp only [srt, hs, ↓reduceIte, ppV, unsorted_sortKeys, Bool.false_eq_true, e1, e2,
        he _ (hperm.length_eq.trans (srtM_length o (tabs + 1) ms)), unsorted_joinMembers, unsorted_indentN]
    · have e1 := key (srtM o (tabs + 1) ms) hL
      simp only [srt, hs, ↓reduceIte, ppV, unsorted_sortKeys, Bool.false_eq_true, e1, srtM_fst,
        he _ (srtM_length o (tabs + 1) ms), unsorted_joinMembers, unsorted_indentN]
theorem ppElems_srt (o : Opts) : ∀ (tabs : Nat) (first : Bool) (xs : List JV),
    ppElems o tabs first xs = ppElems o.unsorted tabs first (srtL o tabs first xs)
  | _, _, [] => rfl
  | tabs, first, x :: xs => by
    simp only [srtL, ppElems, unsorted_indentN, unsorted_elemCol, ← ppV_srt o tabs _ x, ← ppElems_srt o tabs false xs]
theorem srtM_pointwise (o : Opts) : ∀ (tabs : Nat) (ms : List (Text × JV)),
    ∀ e ∈ srtM o tabs ms, (⟨e.2.1, ppV o.unsorted tabs (memberCol o tabs e.2.1) e.2.2⟩ : Member) = e.1
  | _, [], e, he => by simp [srtM] at he
  | tabs, (k, v) :: ms, e, he => by
    simp only [srtM, List.mem_cons] at he
    rcases he with rfl | he
    · simp only [← ppV_srt o tabs _ v]
    · exact srtM_pointwise o tabs ms e he
end


/-! ## printed text tokenises to the tree's tokens -/

theorem tokOk_of_nextTok {s : Text} {t : Tok} {r : Text} (h : nextTok s = some (t, r)) : TokOk t :=
  (nextTok_spec s t r h).2.1

theorem tokOk_lbrace : TokOk .lbrace := tokOk_of_nextTok (s := [123]) (r := []) (by decide)
theorem tokOk_rbrace : TokOk .rbrace := tokOk_of_nextTok (s := [125]) (r := []) (by decide)
theorem tokOk_lbrack : TokOk .lbrack := tokOk_of_nextTok (s := [91]) (r := []) (by decide)
theorem tokOk_rbrack : TokOk .rbrack := tokOk_of_nextTok (s := [93]) (r := []) (by decide)
theorem tokOk_colon : TokOk .colon := tokOk_of_nextTok (s := [58]) (r := []) (by decide)
theorem tokOk_comma : TokOk .comma := tokOk_of_nextTok (s := [44]) (r := []) (by decide)
theorem tokOk_tru : TokOk .tru := tokOk_of_nextTok (s := [116, 114, 117, 101]) (r := []) (by decide)
theorem tokOk_fls : TokOk .fls := tokOk_of_nextTok (s := [102, 97, 108, 115, 101]) (r := []) (by decide)
theorem tokOk_nul : TokOk .nul := tokOk_of_nextTok (s := [110, 117, 108, 108]) (r := []) (by decide)

mutual
/-- every scalar and every key of the tree is a lexeme the scanner produces -/
def WF : JV → Prop
  | .str r => TokOk (.str r)
  | .num r => TokOk (.num r)
  | .arr xs => WFL xs
  | .obj ms => WFM ms
  | _ => True
def WFL : List JV → Prop
  | [] => True
  | x :: xs => WF x ∧ WFL xs
def WFM : List (Text × JV) → Prop
  | [] => True
  | (k, v) :: ms => TokOk (.str k) ∧ WF v ∧ WFM ms
end

mutual
theorem wf_of_toks : ∀ v : JV, (∀ t ∈ toks v, TokOk t) → WF v
  | .str r, h => by simp only [WF]; exact h _ (by simp [toks])
  | .num r, h => by simp only [WF]; exact h _ (by simp [toks])
  | .tru, _ => by simp [WF]
  | .fls, _ => by simp [WF]
  | .nul, _ => by simp [WF]
  | .arr xs, h => by
    simp only [WF]
    exact wfL_of_toks xs (fun t ht => h t (by simp [toks, ht]))
  | .obj ms, h => by
    simp only [WF]
    exact wfM_of_toks ms (fun t ht => h t (by simp [toks, ht]))
theorem wfL_of_toks : ∀ xs : List JV, (∀ t ∈ toksL xs, TokOk t) → WFL xs
  | [], _ => by simp [WFL]
  | x :: xs, h => by
    simp only [WFL]
    exact ⟨wf_of_toks x (fun t ht => h t (by simp [toksL, ht])), wfL_of_toks xs (fun t ht => h t (by simp [toksL, ht]))⟩
theorem wfM_of_toks : ∀ ms : List (Text × JV), (∀ t ∈ toksM ms, TokOk t) → WFM ms
  | [], _ => by simp [WFM]
  | (k, v) :: ms, h => by
    simp only [WFM]
    exact ⟨h _ (by simp [toksM]), wf_of_toks v (fun t ht => h t (by simp [toksM, ht])),
      wfM_of_toks ms (fun t ht => h t (by simp [toksM, ht]))⟩
end

/-- the indent is JSON white space (otherwise the output is not JSON) -/
def IndentWs (o : Opts) : Prop := AllWs o.indent

theorem indentN_ws (o : Opts) (h : IndentWs o) : ∀ n, AllWs (indentN o n)
  | 0 => by simp [indentN, AllWs]
  | n + 1 => by
    intro c hc
    simp only [indentN, List.mem_append] at hc
    rcases hc with hc | hc
    · exact h c hc
    · exact indentN_ws o h n c hc

theorem numStop_comma (t : Text) : NumStop (44 :: t) := numStop_cons t (by decide)
theorem numStop_nl (t : Text) : NumStop (10 :: t) := numStop_cons t (by decide)
theorem numStop_rbrack (t : Text) : NumStop (93 :: t) := numStop_cons t (by decide)

/-- tokenising a punctuation byte -/
theorem tokens_punct (t : Tok) (c : Byte) (r : Text) (ok : TokOk t) (ht : tokText t = [c])
    (hs : TokStop t r) : tokens (c :: r) = (tokens r).map (t :: ·) := by
  have := tokens_tok t r ok hs
  rw [ht] at this
  simpa using this

theorem tokens_lit (t : Tok) (r : Text) (ok : TokOk t) (hs : TokStop t r) :
    tokens (tokText t ++ r) = (tokens r).map (t :: ·) := tokens_tok t r ok hs

theorem tokens_ws_cons (c : Byte) (s : Text) (h : isWs c = true) : tokens (c :: s) = tokens s :=
  tokens_ws_prefix [c] s (by intro x hx; simp at hx; subst hx; exact h)

theorem map_nil_append {α : Type} (o : Option (List α)) : o.map ([] ++ ·) = o := by
  cases o <;> rfl

mutual
/-- the single-line form tokenises to the tree's tokens -/
theorem tokens_oneLine : ∀ (v : JV) (t rest : Text), oneLine v = some t → WF v → NumStop rest →
    tokens (t ++ rest) = (tokens rest).map (toks v ++ ·)
  | .str r, t, rest, h, hw, hr => by
    simp only [oneLine, Option.some.injEq] at h; subst h
    simp only [WF] at hw
    simpa [toks, tokText] using tokens_tok (.str r) rest hw trivial
  | .num r, t, rest, h, hw, hr => by
    simp only [oneLine, Option.some.injEq] at h; subst h
    simp only [WF] at hw
    simpa [toks, tokText] using tokens_tok (.num r) rest hw hr
  | .tru, t, rest, h, _, _ => by
    simp only [oneLine, Option.some.injEq] at h; subst h
    simpa [toks, tokText] using tokens_tok .tru rest tokOk_tru trivial
  | .fls, t, rest, h, _, _ => by
    simp only [oneLine, Option.some.injEq] at h; subst h
    simpa [toks, tokText] using tokens_tok .fls rest tokOk_fls trivial
  | .nul, t, rest, h, _, _ => by
    simp only [oneLine, Option.some.injEq] at h; subst h
    simpa [toks, tokText] using tokens_tok .nul rest tokOk_nul trivial
  | .obj ms, t, rest, h, _, _ => by simp [oneLine] at h
  | .arr xs, t, rest, h, hw, hr => by
    simp only [oneLine, Option.map_eq_some_iff] at h
    obtain ⟨b, hb, rfl⟩ := h
    simp only [WF] at hw
    have ih := tokens_oneLineL xs b rest hb hw
    simp only [List.cons_append, List.append_assoc, List.nil_append]
    rw [tokens_punct .lbrack 91 _ tokOk_lbrack rfl trivial, ih,
      tokens_punct .rbrack 93 _ tokOk_rbrack rfl trivial]
    cases tokens rest <;> simp [toks]
theorem tokens_oneLineL : ∀ (xs : List JV) (t tail : Text), oneLineL xs = some t → WFL xs →
    tokens (t ++ 93 :: tail) = (tokens (93 :: tail)).map (toksL xs ++ ·)
  | [], t, tail, h, _ => by
    simp only [oneLineL, Option.some.injEq] at h; subst h
    simp only [toksL, List.nil_append]
    cases tokens (93 :: tail) <;> rfl
  | x :: xs, t, tail, h, hw => by
    simp only [oneLineL] at h
    cases h1 : oneLine x with
    | none => simp [h1] at h
    | some a =>
      cases h2 : oneLineL xs with
      | none => simp [h1, h2] at h
      | some b =>
        simp only [h1, h2, Option.some.injEq] at h
        subst h
        simp only [WFL] at hw
        have ihL := tokens_oneLineL xs b tail h2 hw.2
        cases xs with
        | nil =>
          simp only [oneLineL, Option.some.injEq] at h2; subst h2
          simp only [sepText, List.append_nil]
          rw [tokens_oneLine x a (93 :: tail) h1 hw.1 (numStop_rbrack tail)]
          cases tokens (93 :: tail) <;> simp [toksL, sepTok]
        | cons y ys =>
          simp only [sepText, List.append_assoc, List.cons_append, List.nil_append]
          rw [tokens_oneLine x a _ h1 hw.1 (numStop_comma _),
            tokens_punct .comma 44 _ tokOk_comma rfl trivial,
            tokens_ws_cons 32 _ (by decide), ihL]
          cases tokens (93 :: tail) <;> simp [toksL, sepTok]
end

theorem fitsOneLine_some {o : Opts} {col : Nat} {v : JV} {t : Text} (h : fitsOneLine o col v = some t) :
    oneLine v = some t := by
  unfold fitsOneLine at h
  split at h
  · simp only at h
    split at h
    · cases hq : oneLine v with
      | none => simp [hq] at h
      | some t' =>
        simp only [hq] at h
        split at h
        · simpa using h
        · cases h
    · cases h
  · cases h

theorem map_map_append {α : Type} (o : Option (List α)) (a b : List α) :
    (o.map (b ++ ·)).map (a ++ ·) = o.map (a ++ b ++ ·) := by
  cases o <;> simp

theorem map_cons_eq {α : Type} (o : Option (List α)) (a : α) :
    o.map (a :: ·) = o.map ([a] ++ ·) := by
  cases o <;> simp

mutual
/-- **the printed text of a tree tokenises to the tree's tokens** (plain printing; with `SortKeys`
see `ppV_srt`) -/
theorem tokens_ppV (o : Opts) (hs : o.sortKeys = false) (hi : IndentWs o) :
    ∀ (v : JV) (tabs col : Nat) (rest : Text), WF v → NumStop rest →
      tokens (ppV o tabs col v ++ rest) = (tokens rest).map (toks v ++ ·)
  | .str r, _, _, rest, hw, _ => by
    simp only [WF] at hw
    simpa [ppV, toks, tokText] using tokens_tok (.str r) rest hw trivial
  | .num r, _, _, rest, hw, hr => by
    simp only [WF] at hw
    simpa [ppV, toks, tokText] using tokens_tok (.num r) rest hw hr
  | .tru, _, _, rest, _, _ => by
    simpa [ppV, toks, tokText] using tokens_tok .tru rest tokOk_tru trivial
  | .fls, _, _, rest, _, _ => by
    simpa [ppV, toks, tokText] using tokens_tok .fls rest tokOk_fls trivial
  | .nul, _, _, rest, _, _ => by
    simpa [ppV, toks, tokText] using tokens_tok .nul rest tokOk_nul trivial
  | .arr xs, tabs, col, rest, hw, hr => by
    simp only [ppV]
    cases hf : fitsOneLine o col (.arr xs) with
    | some t => exact tokens_oneLine (.arr xs) t rest (fitsOneLine_some hf) hw hr
    | none =>
      simp only
      simp only [WF] at hw
      cases xs with
      | nil =>
        simp only [List.isEmpty_nil, ↓reduceIte, List.cons_append, List.nil_append]
        rw [tokens_punct .lbrack 91 _ tokOk_lbrack rfl trivial,
          tokens_punct .rbrack 93 _ tokOk_rbrack rfl trivial]
        cases tokens rest <;> simp [toks, toksL]
      | cons x xs =>
        have ih := tokens_ppElems o hs hi (x :: xs) (tabs + 1) true (10 :: (indentN o tabs ++ 93 :: rest)) hw (numStop_nl _)
        simp only [List.isEmpty_cons, Bool.false_eq_true, ↓reduceIte, List.cons_append, List.append_assoc, List.nil_append]
        rw [tokens_punct .lbrack 91 _ tokOk_lbrack rfl trivial, ih, tokens_ws_cons 10 _ (by decide),
          tokens_ws_prefix _ _ (indentN_ws o hi tabs), tokens_punct .rbrack 93 _ tokOk_rbrack rfl trivial]
        cases tokens rest <;> simp [toks]
  | .obj ms, tabs, col, rest, hw, hr => by
    simp only [ppV, hs, Bool.false_eq_true, ↓reduceIte]
    simp only [WF] at hw
    cases ms with
    | nil =>
      simp only [List.isEmpty_nil, ↓reduceIte, List.cons_append, List.nil_append]
      rw [tokens_punct .lbrace 123 _ tokOk_lbrace rfl trivial,
        tokens_punct .rbrace 125 _ tokOk_rbrace rfl trivial]
      cases tokens rest <;> simp [toks, toksM]
    | cons m ms =>
      have ih := tokens_join o hs hi (m :: ms) (tabs + 1) (10 :: (indentN o tabs ++ 125 :: rest)) hw (numStop_nl _)
      simp only [List.isEmpty_cons, Bool.false_eq_true, ↓reduceIte, List.cons_append, List.append_assoc, List.nil_append]
      rw [tokens_punct .lbrace 123 _ tokOk_lbrace rfl trivial, tokens_ws_cons 10 _ (by decide), ih,
        tokens_ws_cons 10 _ (by decide), tokens_ws_prefix _ _ (indentN_ws o hi tabs),
        tokens_punct .rbrace 125 _ tokOk_rbrace rfl trivial]
      cases tokens rest <;> simp [toks]
theorem tokens_ppElems (o : Opts) (hs : o.sortKeys = false) (hi : IndentWs o) :
    ∀ (xs : List JV) (tabs : Nat) (first : Bool) (tail : Text), WFL xs → NumStop tail →
      tokens (ppElems o tabs first xs ++ tail) =
        (tokens tail).map ((if first then [] else sepTok xs) ++ toksL xs ++ ·)
  | [], _, first, tail, _, _ => by
    simp only [ppElems, toksL, sepTok, List.nil_append, ite_self]
    cases tokens tail <;> rfl
  | x :: xs, tabs, first, tail, hw, hr => by
    simp only [WFL] at hw
    have ihL := tokens_ppElems o hs hi xs tabs false tail hw.2 hr
    have hstop : NumStop (ppElems o tabs false xs ++ tail) := by
      cases xs with
      | nil => simpa [ppElems] using hr
      | cons y ys => simp only [ppElems, Bool.false_eq_true, ↓reduceIte, List.cons_append, List.nil_append, List.append_assoc]; exact numStop_comma _
    have ihV := tokens_ppV o hs hi x tabs (elemCol o tabs first) (ppElems o tabs false xs ++ tail) hw.1 hstop
    simp only [ppElems, List.append_assoc, List.cons_append]
    cases first with
    | true =>
      simp only [↓reduceIte, List.nil_append]
      rw [tokens_ws_cons 10 _ (by decide), tokens_ws_prefix _ _ (indentN_ws o hi tabs), ihV, ihL]
      cases tokens tail <;> simp [toksL]
    | false =>
      simp only [Bool.false_eq_true, ↓reduceIte, List.cons_append, List.nil_append]
      rw [tokens_punct .comma 44 _ tokOk_comma rfl trivial, tokens_ws_cons 10 _ (by decide),
        tokens_ws_prefix _ _ (indentN_ws o hi tabs), ihV, ihL]
      cases tokens tail <;> simp [toksL, sepTok]
theorem tokens_join (o : Opts) (hs : o.sortKeys = false) (hi : IndentWs o) :
    ∀ (ms : List (Text × JV)) (tabs : Nat) (tail : Text), WFM ms → NumStop tail →
      tokens (joinMembers o tabs (ppMembers o tabs ms) ++ tail) = (tokens tail).map (toksM ms ++ ·)
  | [], _, tail, _, _ => by
    simp only [ppMembers, joinMembers, toksM, List.nil_append]
    cases tokens tail <;> rfl
  | (k, v) :: ms, tabs, tail, hw, hr => by
    simp only [WFM] at hw
    have ihL := tokens_join o hs hi ms tabs tail hw.2.2 hr
    have hstop : NumStop (sepText [44, 10] (ppMembers o tabs ms) ++ (joinMembers o tabs (ppMembers o tabs ms) ++ tail)) := by
      cases ms with
      | nil => simpa [ppMembers, joinMembers, sepText] using hr
      | cons y ys =>
        obtain ⟨k', v'⟩ := y
        simp only [ppMembers, sepText, List.cons_append]; exact numStop_comma _
    have ihV := tokens_ppV o hs hi v tabs (memberCol o tabs k) _ hw.2.1 hstop
    simp only [ppMembers, joinMembers, memberLine, List.append_assoc, List.cons_append]
    have hk := tokens_tok (.str k) (58 :: 32 :: (ppV o tabs (memberCol o tabs k) v ++
      (sepText [44, 10] (ppMembers o tabs ms) ++ (joinMembers o tabs (ppMembers o tabs ms) ++ tail)))) hw.1 trivial
    simp only [tokText] at hk
    rw [tokens_ws_prefix _ _ (indentN_ws o hi tabs), hk, tokens_punct .colon 58 _ tokOk_colon rfl trivial,
      tokens_ws_cons 32 _ (by decide), ihV]
    cases ms with
    | nil =>
      simp only [ppMembers, joinMembers, sepText, List.nil_append, toksM, sepTok, List.append_nil]
      cases tokens tail <;> simp
    | cons y ys =>
      obtain ⟨k', v'⟩ := y
      simp only [ppMembers, sepText, List.cons_append, List.nil_append] at ihL ⊢
      rw [tokens_punct .comma 44 _ tokOk_comma rfl trivial, tokens_ws_cons 10 _ (by decide), ihL]
      cases tokens tail <;> simp [toksM, sepTok]
end


/-! ## the sorted tree is made of the same lexemes -/

theorem wfM_iff : ∀ ms : List (Text × JV), WFM ms ↔ ∀ kv ∈ ms, TokOk (.str kv.1) ∧ WF kv.2
  | [] => by simp [WFM]
  | (k, v) :: ms => by
    simp only [WFM, wfM_iff ms, List.mem_cons, forall_eq_or_imp]
    constructor
    · rintro ⟨a, b, c⟩; exact ⟨⟨a, b⟩, c⟩
    · rintro ⟨⟨a, b⟩, c⟩; exact ⟨a, b, c⟩

mutual
theorem wf_srt (o : Opts) : ∀ (tabs col : Nat) (v : JV), WF v → WF (srt o tabs col v)
  | _, _, .str _, h => by simpa [srt] using h
  | _, _, .num _, h => by simpa [srt] using h
  | _, _, .tru, _ => by simp [srt, WF]
  | _, _, .fls, _ => by simp [srt, WF]
  | _, _, .nul, _ => by simp [srt, WF]
  | tabs, _, .arr xs, h => by
    simp only [WF] at h
    simp only [srt, WF]
    exact wfL_srt o (tabs + 1) true xs h
  | tabs, _, .obj ms, h => by
    simp only [WF] at h
    simp only [srt, WF]
    rw [wfM_iff]
    intro kv hkv
    have hall := wfM_srtM o (tabs + 1) ms h
    simp only [List.mem_map] at hkv
    obtain ⟨e, he, rfl⟩ := hkv
    split at he
    · exact hall e ((sortBy_perm pairLess _).mem_iff.mp he)
    · exact hall e he
theorem wfL_srt (o : Opts) : ∀ (tabs : Nat) (first : Bool) (xs : List JV), WFL xs → WFL (srtL o tabs first xs)
  | _, _, [], _ => by simp [srtL, WFL]
  | tabs, first, x :: xs, h => by
    simp only [WFL] at h
    simp only [srtL, WFL]
    exact ⟨wf_srt o tabs _ x h.1, wfL_srt o tabs false xs h.2⟩
theorem wfM_srtM (o : Opts) : ∀ (tabs : Nat) (ms : List (Text × JV)), WFM ms →
    ∀ e ∈ srtM o tabs ms, TokOk (.str e.2.1) ∧ WF e.2.2
  | _, [], _, e, he => by simp [srtM] at he
  | tabs, (k, v) :: ms, h, e, he => by
    simp only [WFM] at h
    simp only [srtM, List.mem_cons] at he
    rcases he with rfl | he
    · exact ⟨h.1, wf_srt o tabs _ v h.2.1⟩
    · exact wfM_srtM o tabs ms h.2.2 e he
end


/-! ## white space after the last token -/

theorem skipWs_append_of_cons {s : Text} {d : Byte} {r : Text} (h : skipWs s = d :: r) (x : Text) :
    skipWs (s ++ x) = d :: (r ++ x) := by
  obtain ⟨w, hw, hs, hn⟩ := skipWs_decomp s
  have hd := hn d r h
  rw [h] at hs
  rw [hs, List.append_assoc, skipWs_ws_append _ _ hw]
  exact skipWs_of_nonws d _ hd

theorem skipWs_append_of_nil {s : Text} (h : skipWs s = []) : AllWs s := by
  obtain ⟨w, hw, hs, _⟩ := skipWs_decomp s
  rw [h, List.append_nil] at hs
  rw [hs]; exact hw

theorem tokStop_snoc {t : Tok} {r : Text} {c : Byte} (hc : isWs c = true) (h : TokStop t r) : TokStop t (r ++ [c]) := by
  cases t <;> try trivial
  simp only [TokStop] at h ⊢
  cases r with
  | nil => exact numStop_of_ws [] hc
  | cons d r' =>
    intro c' t' e
    simp only [List.cons_append, List.cons.injEq] at e
    exact h c' r' (by rw [e.1])

/-- one token at the head: a white-space byte appended at the very end changes nothing -/
theorem nextTok_snoc (u : Text) (c : Byte) (hc : isWs c = true) :
    nextTok (u ++ [c]) = (nextTok u).map fun p => (p.1, p.2 ++ [c]) := by
  cases hq : nextTok u with
  | some p =>
    obtain ⟨t, r⟩ := p
    obtain ⟨e, ok, hs⟩ := nextTok_spec u t r hq
    simp only [Option.map_some]
    rw [e, List.append_assoc]
    exact ok.1 _ (tokStop_snoc hc hs)
  | none =>
    simp only [Option.map_none]
    cases hq' : nextTok (u ++ [c]) with
    | none => rfl
    | some p =>
      exfalso
      obtain ⟨t, r⟩ := p
      obtain ⟨e, ok, hs⟩ := nextTok_spec _ t r hq'
      rcases List.eq_nil_or_concat r with rfl | ⟨r', b, rfl⟩
      · -- the token would end with the white-space byte
        simp only [List.append_nil] at e
        have : (tokText t).getLast? = some c := by rw [← e, List.getLast?_concat]
        have := ok.2.2.2 c this
        rw [hc] at this; cases this
      · simp only [List.concat_eq_append] at e hs
        rw [← List.append_assoc] at e
        have hb := List.append_inj' e rfl
        obtain ⟨e1, e2⟩ := hb
        simp only [List.cons.injEq, and_true] at e2
        subst e2
        have hs' : TokStop t r' := by
          cases t <;> try trivial
          simp only [TokStop] at hs ⊢
          cases r' with
          | nil => exact numStop_nil
          | cons d r'' =>
            intro c' t' e'
            simp only [List.cons.injEq] at e'
            exact hs c' (r'' ++ [c]) (by rw [e'.1]; rfl)
        have := ok.1 r' hs'
        rw [← e1, hq] at this
        cases this

/-- **a white-space byte after the last token is insignificant** (both ways: a text that does
not tokenise does not tokenise with it either) -/
theorem tokens_snoc_ws (c : Byte) (hc : isWs c = true) : ∀ (n : Nat) (s : Text), s.length < n →
    tokens (s ++ [c]) = tokens s := by
  intro n
  induction n with
  | zero => intro s h; omega
  | succ n ih =>
    intro s hn
    cases hq : skipWs s with
    | nil =>
      have h1 := skipWs_append_of_nil hq
      have h2 : AllWs (s ++ [c]) := by
        intro x hx
        simp only [List.mem_append, List.mem_singleton] at hx
        rcases hx with hx | rfl
        · exact h1 x hx
        · exact hc
      rw [tokens_of_ws _ h1, tokens_of_ws _ h2]
    | cons d r =>
      rw [tokens_unfold (s ++ [c]), tokens_unfold s, skipWs_append_of_cons hq, hq]
      simp only
      have := nextTok_snoc (d :: r) c hc
      simp only [List.cons_append] at this
      rw [this]
      cases hp : nextTok (d :: r) with
      | none => rfl
      | some p =>
        obtain ⟨t, r'⟩ := p
        simp only [Option.map_some]
        have hl := nextTok_length hp
        have hl2 := skipWs_length_le s
        rw [hq] at hl2
        rw [ih r' (by simp only [List.length_cons] at hl hl2; omega)]

/-- white space after the last token is insignificant -/
theorem tokens_ws_suffix (s : Text) : ∀ w : Text, AllWs w → tokens (s ++ w) = tokens s := by
  intro w
  induction w generalizing s with
  | nil => intro _; simp
  | cons c w ih =>
    intro hw
    have hc : isWs c = true := hw c (by simp)
    have : s ++ c :: w = (s ++ [c]) ++ w := by simp
    rw [this, ih (s ++ [c]) (fun x hx => hw x (by simp [hx])), tokens_snoc_ws c hc _ s (Nat.lt_succ_self _)]


/-! ## (e) the validator and the structural parser accept the same byte strings -/

theorem tokens_skip (s : Text) : tokens s = tokens (skipWs s) := by
  obtain ⟨w, hw, hs, _⟩ := skipWs_decomp s
  have := tokens_ws_prefix w (skipWs s) hw
  rw [← hs] at this
  exact this

theorem tokens_of_nextTok {u : Text} {t : Tok} {rest : Text} (h : nextTok u = some (t, rest)) :
    tokens u = (tokens rest).map (t :: ·) := by
  obtain ⟨e, ok, hs⟩ := nextTok_spec u t rest h
  rw [e]; exact tokens_tok t rest ok hs

theorem nextTok_str {r b rest : Text} (h : scanStr r = some (b, rest)) :
    nextTok (34 :: r) = some (.str (34 :: b), rest) := by
  simp (config := {decide := true}) [nextTok, h]

theorem digit_or_minus_ne {c : Byte} (h : (decide (c = 45) || isDigit c) = true) :
    c ≠ 123 ∧ c ≠ 125 ∧ c ≠ 91 ∧ c ≠ 93 ∧ c ≠ 58 ∧ c ≠ 44 ∧ c ≠ 34 := by
  simp only [Bool.or_eq_true, decide_eq_true_eq] at h
  rcases h with rfl | h
  · decide
  · have := (isDigit_iff c).mp h
    refine ⟨?_, ?_, ?_, ?_, ?_, ?_, ?_⟩ <;> (intro e; subst e; revert this; decide)

theorem nextTok_num {c : Byte} {r l rest : Text} (hc : (decide (c = 45) || isDigit c) = true)
    (h : scanNum (c :: r) = some (l, rest)) (hr : NumStop rest) :
    nextTok (c :: r) = some (.num l, rest) := by
  obtain ⟨h1, h2, h3, h4, h5, h6, h7⟩ := digit_or_minus_ne hc
  simp only [nextTok, h1, h2, h3, h4, h5, h6, h7, ↓reduceIte, hc, h, Option.bind_some, (numEnds_iff rest).mpr hr]

theorem nextTok_tru {r rest : Text} (h : scanLit wTrue r = some rest) : nextTok (116 :: r) = some (.tru, rest) := by
  simp (config := {decide := true}) [nextTok, h]
theorem nextTok_fls {r rest : Text} (h : scanLit wFalse r = some rest) : nextTok (102 :: r) = some (.fls, rest) := by
  simp (config := {decide := true}) [nextTok, h]
theorem nextTok_nul {r rest : Text} (h : scanLit wNull r = some rest) : nextTok (110 :: r) = some (.nul, rest) := by
  simp (config := {decide := true}) [nextTok, h]

/-- after `validcomma` the text that followed the value does not continue a number -/
theorem vComma_stop {s : Text} {close c : Byte} {r : Text} (h : vComma s close = some (c, r))
    (hcl : close = 93 ∨ close = 125) :
    NumStop s ∧ skipWs s = c :: r ∧ (c = 44 ∨ c = close) := by
  unfold vComma at h
  obtain ⟨w, hw, hs, hn⟩ := skipWs_decomp s
  cases hq : skipWs s with
  | nil => simp [hq] at h
  | cons d r' =>
    simp only [hq] at h
    split at h
    · rename_i hd
      simp only [Option.some.injEq, Prod.mk.injEq] at h
      obtain ⟨rfl, rfl⟩ := h
      simp only [Bool.or_eq_true, decide_eq_true_eq] at hd
      refine ⟨?_, rfl, hd⟩
      rw [hs, hq]
      cases w with
      | nil =>
        simp only [List.nil_append]
        apply numStop_cons
        rcases hd with rfl | rfl
        · decide
        · rcases hcl with rfl | rfl <;> decide
      | cons x w' => exact numStop_of_ws _ (hw x (by simp))
    · cases h

theorem map_append_cons {α : Type} (o : Option (List α)) (a : List α) (b : α) :
    (o.map (b :: ·)).map (a ++ ·) = o.map (a ++ [b] ++ ·) := by
  cases o <;> simp

/-- **soundness of the validator w.r.t. the tokeniser**: whatever `validany` (…) consumes is, as
tokens, the token sequence of a tree, followed by the tokens of the rest -/
theorem valid_sound : ∀ n : Nat,
    (∀ s rest, vAny n s = some rest → ∃ v, NumStop rest → tokens s = (tokens rest).map (toks v ++ ·)) ∧
    (∀ s rest, vObj n s = some rest → ∃ ms, tokens s = (tokens rest).map (toksM ms ++ [.rbrace] ++ ·)) ∧
    (∀ s rest, vMembers n s = some rest → ∃ ms, ms ≠ [] ∧ tokens (34 :: s) = (tokens rest).map (toksM ms ++ [.rbrace] ++ ·)) ∧
    (∀ s rest, vArr n s = some rest → ∃ xs, tokens s = (tokens rest).map (toksL xs ++ [.rbrack] ++ ·)) ∧
    (∀ s rest, vElems n s = some rest → ∃ xs, xs ≠ [] ∧ tokens s = (tokens rest).map (toksL xs ++ [.rbrack] ++ ·)) := by
  intro n
  induction n with
  | zero => simp [vAny, vObj, vMembers, vArr, vElems]
  | succ n ih =>
    obtain ⟨ihA, ihO, ihM, ihR, ihE⟩ := ih
    refine ⟨?_, ?_, ?_, ?_, ?_⟩
    · -- vAny
      intro s rest h
      rw [vAny.eq_def] at h; simp only at h
      rw [tokens_skip s]
      cases hq : skipWs s with
      | nil => simp [hq] at h
      | cons c r =>
        simp only [hq] at h
        split at h
        · rename_i hc; subst hc
          obtain ⟨ms, e⟩ := ihO _ _ h
          refine ⟨.obj ms, fun _ => ?_⟩
          rw [tokens_punct .lbrace 123 _ tokOk_lbrace rfl trivial, e]
          cases tokens rest <;> simp [toks]
        split at h
        · rename_i hc; subst hc
          obtain ⟨xs, e⟩ := ihR _ _ h
          refine ⟨.arr xs, fun _ => ?_⟩
          rw [tokens_punct .lbrack 91 _ tokOk_lbrack rfl trivial, e]
          cases tokens rest <;> simp [toks]
        split at h
        · rename_i hc; subst hc
          simp only [Option.map_eq_some_iff] at h
          obtain ⟨⟨b, r'⟩, hs, rfl⟩ := h
          refine ⟨.str (34 :: b), fun _ => ?_⟩
          rw [tokens_of_nextTok (nextTok_str hs)]
          cases tokens r' <;> simp [toks]
        split at h
        · rename_i hc
          simp only [Option.map_eq_some_iff] at h
          obtain ⟨⟨l, r'⟩, hs, rfl⟩ := h
          refine ⟨.num l, fun hr => ?_⟩
          rw [tokens_of_nextTok (nextTok_num hc hs hr)]
          cases tokens r' <;> simp [toks]
        split at h
        · rename_i hc; subst hc
          refine ⟨.tru, fun _ => ?_⟩
          rw [tokens_of_nextTok (nextTok_tru h)]
          cases tokens rest <;> simp [toks]
        split at h
        · rename_i hc; subst hc
          refine ⟨.fls, fun _ => ?_⟩
          rw [tokens_of_nextTok (nextTok_fls h)]
          cases tokens rest <;> simp [toks]
        split at h
        · rename_i hc; subst hc
          refine ⟨.nul, fun _ => ?_⟩
          rw [tokens_of_nextTok (nextTok_nul h)]
          cases tokens rest <;> simp [toks]
        · cases h
    · -- vObj
      intro s rest h
      rw [vObj.eq_def] at h; simp only at h
      rw [tokens_skip s]
      cases hq : skipWs s with
      | nil => simp [hq] at h
      | cons c r =>
        simp only [hq] at h
        split at h
        · rename_i hc; subst hc
          simp only [Option.some.injEq] at h; subst h
          refine ⟨[], ?_⟩
          rw [tokens_punct .rbrace 125 _ tokOk_rbrace rfl trivial]
          cases tokens r <;> simp [toksM]
        split at h
        · rename_i hc; subst hc
          obtain ⟨ms, _, e⟩ := ihM _ _ h
          exact ⟨ms, e⟩
        · cases h
    · -- vMembers
      intro s rest h
      rw [vMembers.eq_def] at h; simp only at h
      cases h1 : scanStr s with
      | none => simp [h1] at h
      | some p =>
        obtain ⟨b, s1⟩ := p
        simp only [h1] at h
        cases h2 : vColon s1 with
        | none => simp [h2] at h
        | some s2 =>
          simp only [h2] at h
          cases h3 : vAny n s2 with
          | none => simp [h3] at h
          | some s3 =>
            simp only [h3] at h
            cases h4 : vComma s3 125 with
            | none => simp [h4] at h
            | some q =>
              obtain ⟨c, r⟩ := q
              simp only [h4] at h
              obtain ⟨hstop, hsk, hc⟩ := vComma_stop h4 (Or.inr rfl)
              obtain ⟨v, hv⟩ := ihA _ _ h3
              have hv := hv hstop
              -- the key, the colon
              have e1 : tokens (34 :: s) = (tokens s1).map (Tok.str (34 :: b) :: ·) := tokens_of_nextTok (nextTok_str h1)
              have e2 : tokens s1 = (tokens s2).map (Tok.colon :: ·) := by
                unfold vColon at h2
                rw [tokens_skip s1]
                cases hq : skipWs s1 with
                | nil => simp [hq] at h2
                | cons d r' =>
                  simp only [hq] at h2
                  split at h2
                  · rename_i hd; subst hd
                    simp only [Option.some.injEq] at h2; subst h2
                    exact tokens_punct .colon 58 _ tokOk_colon rfl trivial
                  · cases h2
              have e3 : tokens s3 = tokens (c :: r) := by rw [tokens_skip s3, hsk]
              split at h
              · rename_i hcl
                subst hcl
                simp only [Option.some.injEq] at h; subst h
                refine ⟨[(34 :: b, v)], by simp, ?_⟩
                rw [e1, e2, hv, e3, tokens_punct .rbrace 125 _ tokOk_rbrace rfl trivial]
                cases tokens r <;> simp [toksM, sepTok]
              · rename_i hcl
                have hc44 : c = 44 := by rcases hc with h' | h'; exact h'; exact absurd h' hcl
                subst hc44
                cases hq : skipWs r with
                | nil => simp [hq] at h
                | cons d r' =>
                  simp only [hq] at h
                  split at h
                  · rename_i hd; subst hd
                    obtain ⟨ms, hne, e⟩ := ihM _ _ h
                    refine ⟨(34 :: b, v) :: ms, by simp, ?_⟩
                    rw [e1, e2, hv, e3, tokens_punct .comma 44 _ tokOk_comma rfl trivial, tokens_skip r, hq, e]
                    cases ms with
                    | nil => exact absurd rfl hne
                    | cons m ms' => cases tokens rest <;> simp [toksM, sepTok]
                  · cases h
    · -- vArr
      intro s rest h
      rw [vArr.eq_def] at h; simp only at h
      rw [tokens_skip s]
      cases hq : skipWs s with
      | nil => simp [hq] at h
      | cons c r =>
        simp only [hq] at h
        split at h
        · rename_i hc; subst hc
          simp only [Option.some.injEq] at h; subst h
          refine ⟨[], ?_⟩
          rw [tokens_punct .rbrack 93 _ tokOk_rbrack rfl trivial]
          cases tokens r <;> simp [toksL]
        · obtain ⟨xs, _, e⟩ := ihE _ _ h
          exact ⟨xs, e⟩
    · -- vElems
      intro s rest h
      rw [vElems.eq_def] at h; simp only at h
      cases h3 : vAny n s with
      | none => simp [h3] at h
      | some s3 =>
        simp only [h3] at h
        cases h4 : vComma s3 93 with
        | none => simp [h4] at h
        | some q =>
          obtain ⟨c, r⟩ := q
          simp only [h4] at h
          obtain ⟨hstop, hsk, hc⟩ := vComma_stop h4 (Or.inl rfl)
          obtain ⟨v, hv⟩ := ihA _ _ h3
          have hv := hv hstop
          have e3 : tokens s3 = tokens (c :: r) := by rw [tokens_skip s3, hsk]
          split at h
          · rename_i hcl
            subst hcl
            simp only [Option.some.injEq] at h; subst h
            refine ⟨[v], by simp, ?_⟩
            rw [hv, e3, tokens_punct .rbrack 93 _ tokOk_rbrack rfl trivial]
            cases tokens r <;> simp [toksL, sepTok]
          · rename_i hcl
            have hc44 : c = 44 := by rcases hc with h' | h'; exact h'; exact absurd h' hcl
            subst hc44
            obtain ⟨xs, hne, e⟩ := ihE _ _ h
            refine ⟨v :: xs, by simp, ?_⟩
            rw [hv, e3, tokens_punct .comma 44 _ tokOk_comma rfl trivial, e]
            cases xs with
            | nil => exact absurd rfl hne
            | cons x xs' => cases tokens rest <;> simp [toksL, sepTok]


/-- which branch of `nextTok` produced a token -/
theorem nextTok_cases (c : Byte) (r : Text) (t : Tok) (s1 : Text) (h : nextTok (c :: r) = some (t, s1)) :
    (c = 123 ∧ t = .lbrace ∧ s1 = r) ∨
    (c = 125 ∧ t = .rbrace ∧ s1 = r) ∨
    (c = 91 ∧ t = .lbrack ∧ s1 = r) ∨
    (c = 93 ∧ t = .rbrack ∧ s1 = r) ∨
    (c = 58 ∧ t = .colon ∧ s1 = r) ∨
    (c = 44 ∧ t = .comma ∧ s1 = r) ∨
    (c = 34 ∧ ∃ b, t = .str (34 :: b) ∧ scanStr r = some (b, s1)) ∨
    ((decide (c = 45) || isDigit c) = true ∧ ∃ l, t = .num l ∧ scanNum (c :: r) = some (l, s1)) ∨
    (c = 116 ∧ t = .tru ∧ scanLit wTrue r = some s1) ∨
    (c = 102 ∧ t = .fls ∧ scanLit wFalse r = some s1) ∨
    (c = 110 ∧ t = .nul ∧ scanLit wNull r = some s1) := by
  unfold nextTok at h
  by_cases h1 : c = 123
  · subst h1
    simp (config := {decide := true}) only [↓reduceIte, Option.some.injEq, Prod.mk.injEq] at h
    obtain ⟨rfl, rfl⟩ := h
    exact Or.inl ⟨rfl, rfl, rfl⟩
  by_cases h2 : c = 125
  · subst h2
    simp (config := {decide := true}) only [↓reduceIte, Option.some.injEq, Prod.mk.injEq] at h
    obtain ⟨rfl, rfl⟩ := h
    exact Or.inr (Or.inl ⟨rfl, rfl, rfl⟩)
  by_cases h3 : c = 91
  · subst h3
    simp (config := {decide := true}) only [↓reduceIte, Option.some.injEq, Prod.mk.injEq] at h
    obtain ⟨rfl, rfl⟩ := h
    exact Or.inr (Or.inr (Or.inl ⟨rfl, rfl, rfl⟩))
  by_cases h4 : c = 93
  · subst h4
    simp (config := {decide := true}) only [↓reduceIte, Option.some.injEq, Prod.mk.injEq] at h
    obtain ⟨rfl, rfl⟩ := h
    exact Or.inr (Or.inr (Or.inr (Or.inl ⟨rfl, rfl, rfl⟩)))
  by_cases h5 : c = 58
  · subst h5
    simp (config := {decide := true}) only [↓reduceIte, Option.some.injEq, Prod.mk.injEq] at h
    obtain ⟨rfl, rfl⟩ := h
    exact Or.inr (Or.inr (Or.inr (Or.inr (Or.inl ⟨rfl, rfl, rfl⟩))))
  by_cases h6 : c = 44
  · subst h6
    simp (config := {decide := true}) only [↓reduceIte, Option.some.injEq, Prod.mk.injEq] at h
    obtain ⟨rfl, rfl⟩ := h
    exact Or.inr (Or.inr (Or.inr (Or.inr (Or.inr (Or.inl ⟨rfl, rfl, rfl⟩)))))
  simp only [h1, h2, h3, h4, h5, h6, ↓reduceIte] at h
  by_cases h7 : c = 34
  · subst h7
    simp only [↓reduceIte, Option.map_eq_some_iff, Prod.mk.injEq] at h
    obtain ⟨⟨b, r0⟩, hs, rfl, rfl⟩ := h
    exact Or.inr (Or.inr (Or.inr (Or.inr (Or.inr (Or.inr (Or.inl ⟨rfl, b, rfl, hs⟩))))))
  simp only [h7, ↓reduceIte] at h
  by_cases h8 : (decide (c = 45) || isDigit c) = true
  · simp only [h8, ↓reduceIte, Option.bind_eq_some_iff] at h
    obtain ⟨⟨l, r0⟩, hs, h⟩ := h
    split at h
    case isFalse => cases h
    simp only [Option.some.injEq, Prod.mk.injEq] at h
    obtain ⟨rfl, rfl⟩ := h
    exact Or.inr (Or.inr (Or.inr (Or.inr (Or.inr (Or.inr (Or.inr (Or.inl ⟨h8, l, rfl, hs⟩)))))))
  simp only [h8] at h
  simp only [Bool.false_eq_true, ↓reduceIte] at h
  by_cases h9 : c = 116
  · subst h9
    simp only [↓reduceIte, Option.map_eq_some_iff, Prod.mk.injEq] at h
    obtain ⟨r0, hs, rfl, rfl⟩ := h
    exact Or.inr (Or.inr (Or.inr (Or.inr (Or.inr (Or.inr (Or.inr (Or.inr (Or.inl ⟨rfl, rfl, hs⟩))))))))
  simp only [h9, ↓reduceIte] at h
  by_cases h10 : c = 102
  · subst h10
    simp only [↓reduceIte, Option.map_eq_some_iff, Prod.mk.injEq] at h
    obtain ⟨r0, hs, rfl, rfl⟩ := h
    exact Or.inr (Or.inr (Or.inr (Or.inr (Or.inr (Or.inr (Or.inr (Or.inr (Or.inr (Or.inl ⟨rfl, rfl, hs⟩)))))))))
  simp only [h10, ↓reduceIte] at h
  by_cases h11 : c = 110
  · subst h11
    simp only [↓reduceIte, Option.map_eq_some_iff, Prod.mk.injEq] at h
    obtain ⟨r0, hs, rfl, rfl⟩ := h
    exact Or.inr (Or.inr (Or.inr (Or.inr (Or.inr (Or.inr (Or.inr (Or.inr (Or.inr (Or.inr (⟨rfl, rfl, hs⟩))))))))))
  simp [h11] at h


theorem tokens_cons_inv {s : Text} {t : Tok} {ts : List Tok} (h : tokens s = some (t :: ts)) :
    ∃ c r s1, skipWs s = c :: r ∧ nextTok (c :: r) = some (t, s1) ∧ tokens s1 = some ts := by
  rw [tokens_unfold] at h
  cases hq : skipWs s with
  | nil => simp [hq] at h
  | cons c r =>
    simp only [hq] at h
    cases hp : nextTok (c :: r) with
    | none => simp [hp] at h
    | some p =>
      obtain ⟨t', s1⟩ := p
      simp only [hp, Option.map_eq_some_iff, List.cons.injEq] at h
      obtain ⟨ts', h1, rfl, rfl⟩ := h
      exact ⟨c, r, s1, rfl, hp, h1⟩

theorem nextTok_punct_inv {c : Byte} {r : Text} {t : Tok} {s1 : Text} {x : Byte}
    (h : nextTok (c :: r) = some (t, s1)) (ht : tokText t = [x]) : c = x ∧ s1 = r := by
  obtain ⟨e, _, _⟩ := nextTok_spec _ _ _ h
  rw [ht] at e
  simp only [List.cons_append, List.nil_append, List.cons.injEq] at e
  exact ⟨e.1, e.2.symm⟩

/-- tokens of a text: at most one per byte -/
theorem tokens_length : ∀ (n : Nat) (s : Text) (ts : List Tok), s.length < n → tokens s = some ts →
    ts.length ≤ s.length := by
  intro n
  induction n with
  | zero => intro s ts h; omega
  | succ n ih =>
    intro s ts hn h
    cases ts with
    | nil => simp
    | cons t ts =>
      obtain ⟨c, r, s1, h1, h2, h3⟩ := tokens_cons_inv h
      have hl := nextTok_length h2
      have hl2 := skipWs_length_le s
      rw [h1] at hl2
      have := ih s1 ts (by simp only [List.length_cons] at hl hl2; omega) h3
      simp only [List.length_cons] at hl hl2 ⊢
      omega

mutual
/-- fuel `validany` needs for a tree -/
def gV : JV → Nat
  | .arr xs => 2 + gE xs
  | .obj ms => 2 + gM ms
  | _ => 1
def gE : List JV → Nat
  | [] => 0
  | x :: xs => 1 + max (gV x) (gE xs)
def gM : List (Text × JV) → Nat
  | [] => 0
  | (_, v) :: ms => 1 + max (gV v) (gM ms)
end

mutual
theorem gV_le : ∀ v : JV, gV v ≤ 3 * (toks v).length
  | .str _ => by simp [gV, toks]
  | .num _ => by simp [gV, toks]
  | .tru => by simp [gV, toks]
  | .fls => by simp [gV, toks]
  | .nul => by simp [gV, toks]
  | .arr xs => by
    have := gE_le xs
    simp only [gV, toks, List.length_cons, List.length_append, List.length_nil]; omega
  | .obj ms => by
    have := gM_le ms
    simp only [gV, toks, List.length_cons, List.length_append, List.length_nil]; omega
theorem gE_le : ∀ xs : List JV, gE xs ≤ 3 * (toksL xs).length + 1
  | [] => by simp [gE]
  | x :: xs => by
    have h1 := gV_le x
    have h2 := gE_le xs
    cases xs with
    | nil => simp only [gE, toksL, sepTok, List.length_append, List.length_nil] at *; omega
    | cons y ys => simp only [gE, toksL, sepTok, List.length_append, List.length_cons, List.length_nil] at *; omega
theorem gM_le : ∀ ms : List (Text × JV), gM ms ≤ 3 * (toksM ms).length + 1
  | [] => by simp [gM]
  | (k, v) :: ms => by
    have h1 := gV_le v
    have h2 := gM_le ms
    cases ms with
    | nil => simp only [gM, toksM, sepTok, List.length_append, List.length_cons, List.length_nil] at *; omega
    | cons y ys => simp only [gM, toksM, sepTok, List.length_append, List.length_cons, List.length_nil] at *; omega
end

theorem vColon_of_tokens {s : Text} {ts : List Tok} (h : tokens s = some (.colon :: ts)) :
    ∃ r, vColon s = some r ∧ tokens r = some ts := by
  obtain ⟨c, r, s1, h1, h2, h3⟩ := tokens_cons_inv h
  obtain ⟨rfl, rfl⟩ := nextTok_punct_inv h2 (x := 58) rfl
  exact ⟨s1, by simp [vColon, h1], h3⟩

theorem vComma_of_tokens {s : Text} {t : Tok} {ts : List Tok} {x close : Byte} (h : tokens s = some (t :: ts))
    (ht : tokText t = [x]) (hx : x = 44 ∨ x = close) :
    ∃ r, vComma s close = some (x, r) ∧ tokens r = some ts := by
  obtain ⟨c, r, s1, h1, h2, h3⟩ := tokens_cons_inv h
  obtain ⟨rfl, rfl⟩ := nextTok_punct_inv h2 ht
  refine ⟨s1, ?_, h3⟩
  unfold vComma
  rw [h1]
  rcases hx with rfl | rfl <;> simp

theorem vAny_obj {s r : Text} (n : Nat) (h : skipWs s = 123 :: r) : vAny (n + 1) s = vObj n r := by
  rw [vAny.eq_def]; simp only [h, ↓reduceIte]
theorem vAny_arr {s r : Text} (n : Nat) (h : skipWs s = 91 :: r) : vAny (n + 1) s = vArr n r := by
  rw [vAny.eq_def]; simp (config := {decide := true}) only [h, ↓reduceIte]
theorem vAny_str {s r b s1 : Text} (n : Nat) (h : skipWs s = 34 :: r) (hs : scanStr r = some (b, s1)) :
    vAny (n + 1) s = some s1 := by
  rw [vAny.eq_def]; simp (config := {decide := true}) only [h, ↓reduceIte, hs, Option.map_some]
theorem vAny_num {s r l s1 : Text} {c : Byte} (n : Nat) (h : skipWs s = c :: r)
    (hc : (decide (c = 45) || isDigit c) = true) (hs : scanNum (c :: r) = some (l, s1)) :
    vAny (n + 1) s = some s1 := by
  obtain ⟨h1, _, h3, _, _, _, h7⟩ := digit_or_minus_ne hc
  rw [vAny.eq_def]; simp only [h, h1, h3, h7, ↓reduceIte, hc, hs, Option.map_some]
theorem vAny_tru {s r s1 : Text} (n : Nat) (h : skipWs s = 116 :: r) (hs : scanLit wTrue r = some s1) :
    vAny (n + 1) s = some s1 := by
  rw [vAny.eq_def]; simp (config := {decide := true}) only [h, ↓reduceIte, hs]
theorem vAny_fls {s r s1 : Text} (n : Nat) (h : skipWs s = 102 :: r) (hs : scanLit wFalse r = some s1) :
    vAny (n + 1) s = some s1 := by
  rw [vAny.eq_def]; simp (config := {decide := true}) only [h, ↓reduceIte, hs]
theorem vAny_nul {s r s1 : Text} (n : Nat) (h : skipWs s = 110 :: r) (hs : scanLit wNull r = some s1) :
    vAny (n + 1) s = some s1 := by
  rw [vAny.eq_def]; simp (config := {decide := true}) only [h, ↓reduceIte, hs]

theorem vAny_skip (n : Nat) (s : Text) : vAny n (skipWs s) = vAny n s := by
  cases n with
  | zero => simp [vAny]
  | succ n => rw [vAny.eq_def, vAny.eq_def]; simp only [skipWs_idem]

theorem vElems_skip (n : Nat) (s : Text) : vElems n (skipWs s) = vElems n s := by
  cases n with
  | zero => simp [vElems]
  | succ n => rw [vElems.eq_def, vElems.eq_def]; simp only [vAny_skip]

mutual
/-- **completeness of the validator w.r.t. the tokeniser**: a text whose tokens begin with the
token sequence of a tree is accepted by `validany` up to the end of that sequence -/
theorem vAny_complete : ∀ (v : JV) (s : Text) (ts : List Tok) (n : Nat),
    tokens s = some (toks v ++ ts) → gV v ≤ n → ∃ rest, vAny n s = some rest ∧ tokens rest = some ts
  | .str raw, s, ts, n, h, hn => by
    cases n with
    | zero => simp [gV] at hn
    | succ n =>
      simp only [toks, List.cons_append, List.nil_append] at h
      obtain ⟨c, r, s1, h1, h2, h3⟩ := tokens_cons_inv h
      rcases nextTok_cases c r _ s1 h2 with ⟨_, ht, _⟩ | ⟨_, ht, _⟩ | ⟨_, ht, _⟩ | ⟨_, ht, _⟩ | ⟨_, ht, _⟩ | ⟨_, ht, _⟩ | ⟨hc, b, ht, hs⟩ | ⟨hc, l, ht, hs⟩ | ⟨hc, ht, hs⟩ | ⟨hc, ht, hs⟩ | ⟨hc, ht, hs⟩
      all_goals first | cases ht | skip
      subst hc
      exact ⟨s1, vAny_str n h1 hs, h3⟩
  | .num raw, s, ts, n, h, hn => by
    cases n with
    | zero => simp [gV] at hn
    | succ n =>
      simp only [toks, List.cons_append, List.nil_append] at h
      obtain ⟨c, r, s1, h1, h2, h3⟩ := tokens_cons_inv h
      rcases nextTok_cases c r _ s1 h2 with ⟨_, ht, _⟩ | ⟨_, ht, _⟩ | ⟨_, ht, _⟩ | ⟨_, ht, _⟩ | ⟨_, ht, _⟩ | ⟨_, ht, _⟩ | ⟨hc, b, ht, hs⟩ | ⟨hc, l, ht, hs⟩ | ⟨hc, ht, hs⟩ | ⟨hc, ht, hs⟩ | ⟨hc, ht, hs⟩
      all_goals first | cases ht | skip
      exact ⟨s1, vAny_num n h1 hc hs, h3⟩
  | .tru, s, ts, n, h, hn => by
    cases n with
    | zero => simp [gV] at hn
    | succ n =>
      simp only [toks, List.cons_append, List.nil_append] at h
      obtain ⟨c, r, s1, h1, h2, h3⟩ := tokens_cons_inv h
      rcases nextTok_cases c r _ s1 h2 with ⟨_, ht, _⟩ | ⟨_, ht, _⟩ | ⟨_, ht, _⟩ | ⟨_, ht, _⟩ | ⟨_, ht, _⟩ | ⟨_, ht, _⟩ | ⟨hc, b, ht, hs⟩ | ⟨hc, l, ht, hs⟩ | ⟨hc, ht, hs⟩ | ⟨hc, ht, hs⟩ | ⟨hc, ht, hs⟩
      all_goals first | cases ht | skip
      subst hc
      exact ⟨s1, vAny_tru n h1 hs, h3⟩
  | .fls, s, ts, n, h, hn => by
    cases n with
    | zero => simp [gV] at hn
    | succ n =>
      simp only [toks, List.cons_append, List.nil_append] at h
      obtain ⟨c, r, s1, h1, h2, h3⟩ := tokens_cons_inv h
      rcases nextTok_cases c r _ s1 h2 with ⟨_, ht, _⟩ | ⟨_, ht, _⟩ | ⟨_, ht, _⟩ | ⟨_, ht, _⟩ | ⟨_, ht, _⟩ | ⟨_, ht, _⟩ | ⟨hc, b, ht, hs⟩ | ⟨hc, l, ht, hs⟩ | ⟨hc, ht, hs⟩ | ⟨hc, ht, hs⟩ | ⟨hc, ht, hs⟩
      all_goals first | cases ht | skip
      subst hc
      exact ⟨s1, vAny_fls n h1 hs, h3⟩
  | .nul, s, ts, n, h, hn => by
    cases n with
    | zero => simp [gV] at hn
    | succ n =>
      simp only [toks, List.cons_append, List.nil_append] at h
      obtain ⟨c, r, s1, h1, h2, h3⟩ := tokens_cons_inv h
      rcases nextTok_cases c r _ s1 h2 with ⟨_, ht, _⟩ | ⟨_, ht, _⟩ | ⟨_, ht, _⟩ | ⟨_, ht, _⟩ | ⟨_, ht, _⟩ | ⟨_, ht, _⟩ | ⟨hc, b, ht, hs⟩ | ⟨hc, l, ht, hs⟩ | ⟨hc, ht, hs⟩ | ⟨hc, ht, hs⟩ | ⟨hc, ht, hs⟩
      all_goals first | cases ht | skip
      subst hc
      exact ⟨s1, vAny_nul n h1 hs, h3⟩
  | .arr xs, s, ts, n, h, hn => by
    cases n with
    | zero => simp [gV] at hn
    | succ n =>
      simp only [toks, List.cons_append, List.append_assoc, List.nil_append] at h
      obtain ⟨c, r, s1, h1, h2, h3⟩ := tokens_cons_inv h
      obtain ⟨rfl, rfl⟩ := nextTok_punct_inv h2 (x := 91) rfl
      rw [vAny_arr n h1]
      cases n with
      | zero => simp only [gV] at hn; omega
      | succ n =>
        rw [vArr.eq_def]; simp only
        cases xs with
        | nil =>
          simp only [toksL, List.nil_append] at h3
          obtain ⟨c, r, s2, g1, g2, g3⟩ := tokens_cons_inv h3
          obtain ⟨rfl, rfl⟩ := nextTok_punct_inv g2 (x := 93) rfl
          exact ⟨s2, by simp [g1], g3⟩
        | cons x xs =>
          have hx : ∃ rest, vElems n s1 = some rest ∧ tokens rest = some ts :=
            vElems_complete (x :: xs) s1 ts n (by simp) (by simpa using h3) (by simp only [gV] at hn; omega)
          -- the first byte after `[` starts a value, so it is not `]`
          obtain ⟨t, tl, e, hst⟩ := toks_head x
          have h3' : tokens s1 = some (t :: (tl ++ sepTok xs ++ toksL xs ++ Tok.rbrack :: ts)) := by
            rw [h3]; simp [toksL, e]
          obtain ⟨c, r, s2, g1, g2, g3⟩ := tokens_cons_inv h3'
          have hc : c ≠ 93 := by
            intro hc; subst hc
            have hh : nextTok (93 :: r) = some (Tok.rbrack, r) := by simp (config := {decide := true}) [nextTok]
            rw [hh] at g2
            simp only [Option.some.injEq, Prod.mk.injEq] at g2
            rw [← g2.1] at hst; simp [startTok] at hst
          rw [g1]; simp only [hc, ↓reduceIte]
          obtain ⟨rest, hr1, hr2⟩ := hx
          have : vElems n (c :: r) = vElems n s1 := by rw [← g1, vElems_skip]
          exact ⟨rest, by rw [this]; exact hr1, hr2⟩
  | .obj ms, s, ts, n, h, hn => by
    cases n with
    | zero => simp [gV] at hn
    | succ n =>
      simp only [toks, List.cons_append, List.append_assoc, List.nil_append] at h
      obtain ⟨c, r, s1, h1, h2, h3⟩ := tokens_cons_inv h
      obtain ⟨rfl, rfl⟩ := nextTok_punct_inv h2 (x := 123) rfl
      rw [vAny_obj n h1]
      cases n with
      | zero => simp only [gV] at hn; omega
      | succ n =>
        rw [vObj.eq_def]; simp only
        cases ms with
        | nil =>
          simp only [toksM, List.nil_append] at h3
          obtain ⟨c, r, s2, g1, g2, g3⟩ := tokens_cons_inv h3
          obtain ⟨rfl, rfl⟩ := nextTok_punct_inv g2 (x := 125) rfl
          exact ⟨s2, by simp [g1], g3⟩
        | cons m ms =>
          obtain ⟨k, v⟩ := m
          have h3' : tokens s1 = some (Tok.str k :: (Tok.colon :: toks v ++ sepTok ms ++ toksM ms ++ Tok.rbrace :: ts)) := by
            rw [h3]; simp [toksM]
          obtain ⟨c, r, s2, g1, g2, g3⟩ := tokens_cons_inv h3'
          rcases nextTok_cases c r _ s2 g2 with ⟨_, ht, _⟩ | ⟨_, ht, _⟩ | ⟨_, ht, _⟩ | ⟨_, ht, _⟩ | ⟨_, ht, _⟩ | ⟨_, ht, _⟩ | ⟨hc, b, ht, hs⟩ | ⟨hc, l, ht, hs⟩ | ⟨hc, ht, hs⟩ | ⟨hc, ht, hs⟩ | ⟨hc, ht, hs⟩
          all_goals first | cases ht | skip
          subst hc
          rw [g1]
          simp (config := {decide := true}) only [↓reduceIte]
          have hk : tokens (34 :: r) = some (toksM ((34 :: b, v) :: ms) ++ Tok.rbrace :: ts) := by
            rw [← g1, ← tokens_skip, h3]
          exact vMembers_complete ((34 :: b, v) :: ms) r ts n (by simp) hk (by simp only [gV] at hn; omega)
theorem vElems_complete : ∀ (xs : List JV) (s : Text) (ts : List Tok) (n : Nat), xs ≠ [] →
    tokens s = some (toksL xs ++ .rbrack :: ts) → gE xs ≤ n → ∃ rest, vElems n s = some rest ∧ tokens rest = some ts
  | [], _, _, _, hne, _, _ => absurd rfl hne
  | x :: xs, s, ts, n, _, h, hn => by
    cases n with
    | zero => simp [gE] at hn
    | succ n =>
      simp only [gE] at hn
      simp only [toksL, List.append_assoc] at h
      obtain ⟨s3, a1, a2⟩ := vAny_complete x s _ n h (by omega)
      rw [vElems.eq_def]; simp only [a1]
      cases xs with
      | nil =>
        simp only [sepTok, toksL, List.nil_append] at a2
        obtain ⟨r, c1, c2⟩ := vComma_of_tokens (x := 93) (close := 93) a2 rfl (Or.inr rfl)
        exact ⟨r, by simp [c1], c2⟩
      | cons y ys =>
        simp only [sepTok, List.cons_append, List.nil_append] at a2
        obtain ⟨r, c1, c2⟩ := vComma_of_tokens (x := 44) (close := 93) a2 rfl (Or.inl rfl)
        obtain ⟨rest, e1, e2⟩ := vElems_complete (y :: ys) r ts n (by simp) c2 (by omega)
        exact ⟨rest, by simp (config := {decide := true}) [c1, e1], e2⟩
theorem vMembers_complete : ∀ (ms : List (Text × JV)) (r : Text) (ts : List Tok) (n : Nat), ms ≠ [] →
    tokens (34 :: r) = some (toksM ms ++ .rbrace :: ts) → gM ms ≤ n →
      ∃ rest, vMembers n r = some rest ∧ tokens rest = some ts
  | [], _, _, _, hne, _, _ => absurd rfl hne
  | (k, v) :: ms, r, ts, n, _, h, hn => by
    cases n with
    | zero => simp [gM] at hn
    | succ n =>
      simp only [gM] at hn
      simp only [toksM, List.cons_append, List.append_assoc] at h
      obtain ⟨c, r', s1, h1, h2, h3⟩ := tokens_cons_inv h
      have hsk : skipWs (34 :: r) = 34 :: r := skipWs_of_nonws 34 r (by decide)
      rw [hsk] at h1
      simp only [List.cons.injEq] at h1
      obtain ⟨rfl, rfl⟩ := h1
      rcases nextTok_cases 34 r _ s1 h2 with ⟨_, ht, _⟩ | ⟨_, ht, _⟩ | ⟨_, ht, _⟩ | ⟨_, ht, _⟩ | ⟨_, ht, _⟩ | ⟨_, ht, _⟩ | ⟨hc, b, ht, hs⟩ | ⟨hc, l, ht, hs⟩ | ⟨hc, ht, hs⟩ | ⟨hc, ht, hs⟩ | ⟨hc, ht, hs⟩
      all_goals first | cases ht | skip
      obtain ⟨s2, b1, b2⟩ := vColon_of_tokens h3
      obtain ⟨s3, a1, a2⟩ := vAny_complete v s2 _ n b2 (by omega)
      rw [vMembers.eq_def]; simp only [hs, b1, a1]
      cases ms with
      | nil =>
        simp only [sepTok, toksM, List.nil_append] at a2
        obtain ⟨r2, c1, c2⟩ := vComma_of_tokens (x := 125) (close := 125) a2 rfl (Or.inr rfl)
        exact ⟨r2, by simp [c1], c2⟩
      | cons m ms' =>
        obtain ⟨k', v'⟩ := m
        simp only [sepTok, List.cons_append, List.nil_append] at a2
        obtain ⟨r2, c1, c2⟩ := vComma_of_tokens (x := 44) (close := 125) a2 rfl (Or.inl rfl)
        have c2' : tokens r2 = some (Tok.str k' :: (Tok.colon :: toks v' ++ sepTok ms' ++ toksM ms' ++ Tok.rbrace :: ts)) := by
          rw [c2]; simp [toksM]
        obtain ⟨c, r3, s4, g1, g2, g3⟩ := tokens_cons_inv c2'
        rcases nextTok_cases c r3 _ s4 g2 with ⟨_, ht, _⟩ | ⟨_, ht, _⟩ | ⟨_, ht, _⟩ | ⟨_, ht, _⟩ | ⟨_, ht, _⟩ | ⟨_, ht, _⟩ | ⟨hc, b, ht, hs⟩ | ⟨hc, l, ht, hs⟩ | ⟨hc, ht, hs⟩ | ⟨hc, ht, hs⟩ | ⟨hc, ht, hs⟩
        all_goals first | cases ht | skip
        subst hc
        have hk : tokens (34 :: r3) = some (toksM ((34 :: b, v') :: ms') ++ Tok.rbrace :: ts) := by
          rw [← g1, ← tokens_skip, c2]
        obtain ⟨rest, e1, e2⟩ := vMembers_complete ((34 :: b, v') :: ms') r3 ts n (by simp) hk (by omega)
        exact ⟨rest, by simp (config := {decide := true}) [c1, g1, e1], e2⟩
end


/-! ## `byKeyVal.Less` is a strict weak order (so `sort.Stable` = any stable sort) -/

/-- strict weak order, for a Boolean comparison -/
structure SWO {α : Type} (lt : α → α → Bool) : Prop where
  irrefl : ∀ a, lt a a = false
  trans : ∀ a b c, lt a b = true → lt b c = true → lt a c = true
  ntrans : ∀ a b c, lt a b = false → lt b c = false → lt a c = false

theorem SWO.asymm {α : Type} {lt : α → α → Bool} (h : SWO lt) {a b : α} (hab : lt a b = true) : lt b a = false := by
  cases hq : lt b a with
  | false => rfl
  | true => have := h.trans a b a hab hq; rw [h.irrefl] at this; cases this

theorem swo_pullback {α β : Type} {lt : β → β → Bool} (h : SWO lt) (f : α → β) : SWO (fun a b => lt (f a) (f b)) :=
  ⟨fun _ => h.irrefl _, fun _ _ _ => h.trans _ _ _, fun _ _ _ => h.ntrans _ _ _⟩

theorem swo_ltBytes : SWO ltBytes where
  irrefl := ltBytes_irrefl
  trans := ltBytes_trans
  ntrans a b c h1 h2 := by
    cases hq : ltBytes a c with
    | false => rfl
    | true =>
      by_cases e : a = b
      · subst e; rw [hq] at h2; cases h2
      · rcases ltBytes_total a b e with h | h
        · rw [h] at h1; cases h1
        · have := ltBytes_trans b a c h hq
          rw [this] at h2; cases h2

theorem swo_int : SWO (fun a b : Int => decide (a < b)) where
  irrefl a := by simp
  trans a b c h1 h2 := by simp only [decide_eq_true_eq] at *; omega
  ntrans a b c h1 h2 := by simp only [decide_eq_false_iff_not] at *; omega

theorem swo_nat : SWO (fun a b : Nat => decide (a < b)) where
  irrefl a := by simp
  trans a b c h1 h2 := by simp only [decide_eq_true_eq] at *; omega
  ntrans a b c h1 h2 := by simp only [decide_eq_false_iff_not] at *; omega

/-- lexicographic combination; the second comparison needs to be a strict weak order only among
elements the first one does not separate -/
theorem swo_lex {α : Type} (lt1 lt2 : α → α → Bool) (h1 : SWO lt1)
    (ir : ∀ a, lt2 a a = false)
    (tr : ∀ a b c, lt1 a b = false → lt1 b a = false → lt1 b c = false → lt1 c b = false →
      lt2 a b = true → lt2 b c = true → lt2 a c = true)
    (nt : ∀ a b c, lt1 a b = false → lt1 b a = false → lt1 b c = false → lt1 c b = false →
      lt2 a b = false → lt2 b c = false → lt2 a c = false) :
    SWO (fun a b => if lt1 a b = true then true else if lt1 b a = true then false else lt2 a b) where
  irrefl a := by simp [h1.irrefl, ir]
  trans a b c hab hbc := by
    cases x1 : lt1 a b <;> cases x2 : lt1 b a <;> cases x3 : lt1 b c <;> cases x4 : lt1 c b <;>
      simp only [x1, x2, x3, x4, Bool.false_eq_true, ↓reduceIte] at hab hbc
    all_goals try (cases hab; done)
    all_goals try (cases hbc; done)
    · have y1 := h1.ntrans a b c x1 x3
      have y2 := h1.ntrans c b a x4 x2
      simp only [y1, y2, Bool.false_eq_true, ↓reduceIte]
      exact tr a b c x1 x2 x3 x4 hab hbc
    · -- a ~ b, b < c
      have : lt1 a c = true := by
        cases hq : lt1 a c with
        | true => rfl
        | false => have := h1.ntrans b a c x2 hq; rw [x3] at this; cases this
      simp [this]
    · have : lt1 a c = true := by
        cases hq : lt1 a c with
        | true => rfl
        | false => have := h1.ntrans b a c x2 hq; rw [x3] at this; cases this
      simp [this]
    · -- a < b, b ~ c
      have : lt1 a c = true := by
        cases hq : lt1 a c with
        | true => rfl
        | false => have := h1.ntrans a c b hq x4; rw [x1] at this; cases this
      simp [this]
    · simp [h1.trans a b c x1 x3]
    · simp [h1.trans a b c x1 x3]
    · have : lt1 a c = true := by
        cases hq : lt1 a c with
        | true => rfl
        | false => have := h1.ntrans a c b hq x4; rw [x1] at this; cases this
      simp [this]
    · simp [h1.trans a b c x1 x3]
    · simp [h1.trans a b c x1 x3]
  ntrans a b c hab hbc := by
    cases x1 : lt1 a b <;> cases x2 : lt1 b a <;> cases x3 : lt1 b c <;> cases x4 : lt1 c b <;>
      simp only [x1, x2, x3, x4, Bool.false_eq_true, ↓reduceIte] at hab hbc
    all_goals try (cases hab; done)
    all_goals try (cases hbc; done)
    · have y1 := h1.ntrans a b c x1 x3
      have y2 := h1.ntrans c b a x4 x2
      simp only [y1, y2, Bool.false_eq_true, ↓reduceIte]
      exact nt a b c x1 x2 x3 x4 hab hbc
    all_goals
      have hca : lt1 c a = true := by
        cases hq : lt1 c a with
        | true => rfl
        | false =>
          exfalso
          first
            | (have h' := h1.trans c b a x4 x2; rw [hq] at h'; exact Bool.noConfusion h')
            | (have h' := h1.ntrans c a b hq x1; rw [x4] at h'; exact Bool.noConfusion h')
            | (have h' := h1.ntrans b c a x3 hq; rw [x2] at h'; exact Bool.noConfusion h')
      have hac := h1.asymm hca
      simp [hca, hac]

/-- `isLess … byVal` once the kinds agree -/
def sameKindLess (v w : Text) : Bool :=
  if jtype v = 3 then ltBytes (parsestr v) (parsestr w)
  else if jtype v = 2 then fltLt v w
  else ltBytes v w

theorem textLess_eq (v w : Text) :
    textLess v w = (if decide (jtype v < jtype w) = true then true
      else if decide (jtype w < jtype v) = true then false else sameKindLess v w) := by
  simp only [textLess, sameKindLess, decide_eq_true_eq, GT.gt]

theorem swo_textLess : SWO textLess := by
  have h1 : SWO (fun a b : Text => decide (jtype a < jtype b)) := swo_pullback swo_nat jtype
  have hS : SWO (fun a b : Text => ltBytes (parsestr a) (parsestr b)) := swo_pullback swo_ltBytes parsestr
  have hF : SWO fltLt := swo_pullback swo_int fltKey
  have hB := swo_ltBytes
  have same : ∀ a b : Text, decide (jtype a < jtype b) = false → decide (jtype b < jtype a) = false → jtype a = jtype b := by
    intro a b x y
    simp only [decide_eq_false_iff_not] at x y
    omega
  have key := swo_lex (fun a b : Text => decide (jtype a < jtype b)) sameKindLess h1
    (by
      intro a
      simp only [sameKindLess]
      split
      · exact hS.irrefl a
      · split
        · exact hF.irrefl a
        · exact hB.irrefl a)
    (by
      intro a b c x1 x2 x3 x4
      have e1 := same a b x1 x2
      have e2 := same b c x3 x4
      simp only [sameKindLess, ← e1]
      split
      · exact hS.trans a b c
      · split
        · exact hF.trans a b c
        · exact hB.trans a b c)
    (by
      intro a b c x1 x2 x3 x4
      have e1 := same a b x1 x2
      have e2 := same b c x3 x4
      simp only [sameKindLess, ← e1]
      split
      · exact hS.ntrans a b c
      · split
        · exact hF.ntrans a b c
        · exact hB.ntrans a b c)
  have e : textLess = (fun a b => if decide (jtype a < jtype b) = true then true
      else if decide (jtype b < jtype a) = true then false else sameKindLess a b) := by
    funext a b; exact textLess_eq a b
  rw [e]; exact key

/-- **`byKeyVal.Less` is a strict weak order**: irreflexive, transitive, and incomparability is
transitive — the condition under which every stable sorting algorithm (Go's insertion sort +
SymMerge, the model's insertion sort) produces the same list -/
theorem swo_memberLess : SWO memberLess := by
  have h1 : SWO (fun a b : Member => ltBytes (sortKey a.key) (sortKey b.key)) :=
    swo_pullback swo_ltBytes (fun m : Member => sortKey m.key)
  have h2 : SWO (fun a b : Member => textLess a.val b.val) := swo_pullback swo_textLess (fun m : Member => m.val)
  have key := swo_lex _ _ h1 h2.irrefl (fun a b c _ _ _ _ => h2.trans a b c) (fun a b c _ _ _ _ => h2.ntrans a b c)
  have e : memberLess = (fun a b : Member => if ltBytes (sortKey a.key) (sortKey b.key) = true then true
      else if ltBytes (sortKey b.key) (sortKey a.key) = true then false else textLess a.val b.val) := by
    funext a b; rfl
  rw [e]; exact key

/-- sorted: no element is strictly less than an earlier one -/
def SortedBy {α : Type} (lt : α → α → Bool) (l : List α) : Prop := l.Pairwise (fun a b => lt b a = false)

theorem insertBy_sorted {α : Type} {lt : α → α → Bool} (h : SWO lt) (x : α) :
    ∀ l : List α, SortedBy lt l → SortedBy lt (insertBy lt x l)
  | [], _ => by simp [insertBy, SortedBy]
  | y :: ys, hs => by
    simp only [SortedBy, List.pairwise_cons] at hs
    simp only [insertBy]
    split
    · rename_i hyx
      simp only [SortedBy, List.pairwise_cons]
      refine ⟨?_, insertBy_sorted h x ys hs.2⟩
      intro z hz
      have := (insertBy_perm lt x ys).mem_iff.mp hz
      simp only [List.mem_cons] at this
      rcases this with rfl | hz'
      · exact h.asymm hyx
      · exact hs.1 z hz'
    · rename_i hyx
      have hyx : lt y x = false := by simpa using hyx
      simp only [SortedBy, List.pairwise_cons]
      refine ⟨?_, hs⟩
      intro z hz
      simp only [List.mem_cons] at hz
      rcases hz with rfl | hz
      · exact hyx
      · exact h.ntrans z y x (hs.1 z hz) hyx

/-- the result of the sort is sorted -/
theorem sortBy_sorted {α : Type} {lt : α → α → Bool} (h : SWO lt) : ∀ l : List α, SortedBy lt (sortBy lt l)
  | [] => by simp [sortBy, SortedBy]
  | x :: xs => by
    simp only [sortBy, List.foldr_cons]
    exact insertBy_sorted h x _ (sortBy_sorted h xs)

/-- a sorted list is left as it is (stability: nothing moves unless it must) -/
theorem sortBy_of_sorted {α : Type} {lt : α → α → Bool} : ∀ l : List α, SortedBy lt l → sortBy lt l = l
  | [], _ => rfl
  | x :: xs, hs => by
    simp only [SortedBy, List.pairwise_cons] at hs
    simp only [sortBy, List.foldr_cons]
    have ih := sortBy_of_sorted xs hs.2
    simp only [sortBy] at ih
    rw [ih]
    cases xs with
    | nil => rfl
    | cons y ys => simp [insertBy, hs.1 y (by simp)]

theorem sortBy_idem {α : Type} {lt : α → α → Bool} (h : SWO lt) (l : List α) : sortBy lt (sortBy lt l) = sortBy lt l :=
  sortBy_of_sorted _ (sortBy_sorted h l)


/-! ## the sorted tree prints as the tree (sorting is idempotent) -/

theorem ppMembers_of_pointwise (o : Opts) (tabs : Nat) :
    ∀ l : List (Member × (Text × JV)),
      (∀ e ∈ l, (⟨e.2.1, ppV o tabs (memberCol o tabs e.2.1) e.2.2⟩ : Member) = e.1) →
      ppMembers o tabs (l.map (·.2)) = l.map (·.1)
  | [], _ => rfl
  | (m, k, v) :: l, h => by
    have h1 := h (m, k, v) (by simp)
    simp only at h1
    simp only [List.map_cons, ppMembers, h1]
    rw [ppMembers_of_pointwise o tabs l (fun e he => h e (by simp [he]))]

mutual
/-- printing the sorted tree with `SortKeys` gives the print of the tree: the members are
already in `sortPairs`' order, and a stable sort leaves a sorted list alone -/
theorem ppV_srt_idem (o : Opts) : ∀ (tabs col : Nat) (v : JV), ppV o tabs col (srt o tabs col v) = ppV o tabs col v
  | _, _, .str _ => rfl
  | _, _, .num _ => rfl
  | _, _, .tru => rfl
  | _, _, .fls => rfl
  | _, _, .nul => rfl
  | tabs, col, .arr xs => by
    have h1 : fitsOneLine o col (.arr (srtL o (tabs + 1) true xs)) = fitsOneLine o col (.arr xs) := by
      have := oneLine_srt o tabs col (.arr xs)
      simp only [srt] at this
      simp only [fitsOneLine, this]
    have he : (srtL o (tabs + 1) true xs).isEmpty = xs.isEmpty := by
      have := srtL_length o (tabs + 1) true xs
      cases xs <;> cases h : srtL o (tabs + 1) true _ <;> simp_all
    simp only [srt, ppV, h1, he, ppElems_srt_idem o (tabs + 1) true xs]
  | tabs, col, .obj ms => by
    have hL := srtM_pointwise_idem o (tabs + 1) ms
    have he : ∀ l : List (Member × (Text × JV)), l.length = ms.length → (l.map (·.2)).isEmpty = ms.isEmpty := by
      intro l hl
      cases ms <;> cases l <;> simp_all
    by_cases hs : o.sortKeys = true
    · have hperm := sortBy_perm pairLess (srtM o (tabs + 1) ms)
      have e1 := ppMembers_of_pointwise o (tabs + 1) (sortBy pairLess (srtM o (tabs + 1) ms))
        (fun e he' => hL e (hperm.mem_iff.mp he'))
      have e2 : (sortBy pairLess (srtM o (tabs + 1) ms)).map (·.1) = sortMembers (ppMembers o (tabs + 1) ms) := by
        rw [sortBy_map pairLess memberLess (·.1) (fun _ _ => rfl), srtM_fst]; rfl
      have e3 : sortMembers (sortMembers (ppMembers o (tabs + 1) ms)) = sortMembers (ppMembers o (tabs + 1) ms) :=
        sortBy_idem swo_memberLess _
      simp only [srt, hs, ↓reduceIte, ppV, e1, e2, e3,
        he _ (hperm.length_eq.trans (srtM_length o (tabs + 1) ms))]
    · have e1 := ppMembers_of_pointwise o (tabs + 1) (srtM o (tabs + 1) ms) hL
      simp only [srt, hs, Bool.false_eq_true, ↓reduceIte, ppV, e1, srtM_fst, he _ (srtM_length o (tabs + 1) ms)]
theorem ppElems_srt_idem (o : Opts) : ∀ (tabs : Nat) (first : Bool) (xs : List JV),
    ppElems o tabs first (srtL o tabs first xs) = ppElems o tabs first xs
  | _, _, [] => rfl
  | tabs, first, x :: xs => by
    simp only [srtL, ppElems, ppV_srt_idem o tabs _ x, ppElems_srt_idem o tabs false xs]
theorem srtM_pointwise_idem (o : Opts) : ∀ (tabs : Nat) (ms : List (Text × JV)),
    ∀ e ∈ srtM o tabs ms, (⟨e.2.1, ppV o tabs (memberCol o tabs e.2.1) e.2.2⟩ : Member) = e.1
  | _, [], e, he => by simp [srtM] at he
  | tabs, (k, v) :: ms, e, he => by
    simp only [srtM, List.mem_cons] at he
    rcases he with rfl | he
    · simp only [ppV_srt_idem o tabs _ v]
    · exact srtM_pointwise_idem o tabs ms e he
end


end GoSnaps.Json
