/- Helper lemmas about the snapshot file framing (used by Props/C01, C03, C04). -/
import GoSnaps.Format
import GoSnaps.Escape
namespace GoSnaps

/-- side conditions on the generated constants, discharged on their current values -/
theorem endSeq_noNL : NoNL endSeq := by decide
theorem endSeq_ne_nil : endSeq ≠ [] := by decide

def frameCore (e : Entry) : Text := nl :: (e.id ++ nl :: (e.body ++ nl :: endSeq))

theorem frame_eq (e : Entry) : frame e = frameCore e ++ [nl] := by
  simp [frame, frameCore]

/-- the tie between the executable `frameFmt` (which interprets the format string read from
    the source) and the `frame` the proofs are about -/
theorem frameFmt_eq (id : Line) (body : Text) : frameFmt id body = some (frame ⟨id, body⟩) := by
  have hp : parseFmt Generated.addFmt =
      some [.lit [nl], .verb 115, .lit [nl], .verb 115, .lit (nl :: (endSeq ++ [nl]))] := by decide
  simp [frameFmt, sprintf, hp, fmtPieces, fmtVerb, frame]

theorem lines_frameCore (e : Entry) (hid : NoNL e.id) :
    lines (frameCore e) = entryLines e := by
  unfold frameCore entryLines
  have h1 : lines (nl :: (e.id ++ nl :: (e.body ++ nl :: endSeq))) =
      lines ([] ++ nl :: (e.id ++ nl :: (e.body ++ nl :: endSeq))) := by simp
  rw [h1, lines_append_nl, lines_append_nl, lines_append_nl, lines_of_noNL e.id hid,
    lines_of_noNL endSeq endSeq_noNL]
  simp [lines]

theorem lines_render (es : List Entry) (hid : ∀ e ∈ es, NoNL e.id) :
    lines (render es) = fileLines es ++ [[]] := by
  induction es with
  | nil => simp [render, fileLines, lines]
  | cons e es ih =>
    have he : NoNL e.id := hid e (by simp)
    have hes : ∀ e ∈ es, NoNL e.id := fun x hx => hid x (by simp [hx])
    have : render (e :: es) = frameCore e ++ nl :: render es := by
      simp [render, frame_eq]
    rw [this, lines_append_nl, lines_frameCore e he, ih hes]
    simp [fileLines]

theorem scan_render (es : List Entry) (hid : ∀ e ∈ es, NoNL e.id)
    (hcr : ∀ l ∈ fileLines es, NoCRLine l) : scan (render es) = fileLines es := by
  unfold scan
  rw [lines_render es hid]
  simp only [List.getLast?_append, List.getLast?_singleton, Option.some_or]
  simp only [↓reduceIte, List.dropLast_concat]
  rw [List.map_congr_left (fun l hl => dropCR_id l (hcr l hl))]
  simp

theorem collect_go (ls : List Line) (rest : List Line) (acc : Text) (h : endSeq ∉ ls) :
    collect (ls ++ endSeq :: rest) acc = some (acc ++ ls.flatMap (· ++ [nl])) := by
  induction ls generalizing acc with
  | nil => simp [collect]
  | cons l ls ih =>
    have hl : l ≠ endSeq := by intro e; apply h; simp [e]
    have hls : endSeq ∉ ls := by intro e; apply h; simp [e]
    simp [collect, hl, ih _ hls]

theorem getPrevL_skip (id : Line) (pre rest : List Line) (n : Nat) (h : id ∉ pre) :
    getPrevL id (pre ++ rest) n = getPrevL id rest (n + pre.length) := by
  induction pre generalizing n with
  | nil => simp
  | cons l ls ih =>
    have hl : l ≠ id := by intro e; apply h; simp [e]
    have hls : id ∉ ls := by intro e; apply h; simp [e]
    simp [getPrevL, hl, ih _ hls]; congr 1; omega

theorem getPrevL_none (id : Line) (ls : List Line) (n : Nat) (h : id ∉ ls) :
    getPrevL id ls n = none := by
  induction ls generalizing n with
  | nil => simp [getPrevL]
  | cons l ls ih =>
    have hl : l ≠ id := by intro e; apply h; simp [e]
    have hls : id ∉ ls := by intro e; apply h; simp [e]
    simp [getPrevL, hl, ih _ hls]

/-- a stored body is *escaped* when none of its lines is the terminator -/
def Escaped (b : Text) : Prop := endSeq ∉ lines b

instance (b : Text) : Decidable (Escaped b) := by unfold Escaped; infer_instance

theorem getPrevL_hit (e : Entry) (rest : List Line) (n : Nat) (hne : e.id ≠ []) (hesc : Escaped e.body) :
    getPrevL e.id (entryLines e ++ rest) n = some (e.body, n + 1) := by
  unfold entryLines
  have : ([] : Line) ≠ e.id := fun h => hne h.symm
  simp only [List.cons_append, List.nil_append, getPrevL, this, ↓reduceIte, List.append_assoc]
  rw [collect_go (lines e.body) rest [] hesc]
  simp [flatMap_lines, trimNL_append]

/-- `escapeEndChars` output never contains the terminator as a line -/
theorem escape_escaped (v : Text) : Escaped (escape v) := by
  unfold Escaped escape mapLines
  have hne : Generated.escapeTo ≠ endSeq := by decide
  have hfrom : Generated.escapeFrom = endSeq := by decide
  -- lines (unlines ls) = ls for newline-free, non-empty lists of lines
  have key : ∀ (ls : List Line), ls ≠ [] → (∀ l ∈ ls, NoNL l) → lines (unlines ls) = ls := by
    intro ls
    induction ls with
    | nil => intro h; exact absurd rfl h
    | cons l ls ih =>
      intro _ hn
      cases ls with
      | nil => simpa [unlines] using lines_of_noNL l (hn l (by simp))
      | cons m ms =>
        have : unlines (l :: m :: ms) = l ++ nl :: unlines (m :: ms) := rfl
        rw [this, lines_append_nl, lines_of_noNL l (hn l (by simp)),
          ih (by simp) (fun x hx => hn x (by simp [hx]))]
        simp
  have hto : NoNL Generated.escapeTo := by decide
  rw [key]
  · intro hmem
    simp only [List.mem_map] at hmem
    obtain ⟨l, _, hl⟩ := hmem
    split at hl
    · exact hne hl
    · rename_i h; rw [hfrom] at h; exact h hl
  · simp [lines_ne_nil]
  · intro l hl
    simp only [List.mem_map] at hl
    obtain ⟨m, hm, rfl⟩ := hl
    split
    · exact hto
    · exact noNL_of_mem_lines v m hm

end GoSnaps
