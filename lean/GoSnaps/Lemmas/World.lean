/-
Helper lemmas that lift the file-level results (C01, C04, C06Refine) to CALLS of the step
functions `entryTail` / `matchEntry` / `standaloneTail` of `GoSnaps/Model.lean`
(used by Props/C01World, C02World, C04World).

* `Holds fs p es`    : the file state "path `p` holds the entry list `es`";
* `cmpText`          : the text a taker compares (`unescape` for MatchSnapshot/MatchYAML, identity
                       for MatchJSON);
* `entryTail_absent`, `entryTail_found` : `entryTail` as a function of the lookup result only;
* lookup lemmas on `Good` files, `Good` algebra (prefix, replace, header uniqueness);
* `matchEntry_eq`    : `matchEntry` = registry bump + `entryTail` at header `testID t (n+1)`;
* `endTest` leaves `fs` and `env` alone.
-/
import GoSnaps.Props.C02
import GoSnaps.Props.C03
import GoSnaps.Props.C05
import GoSnaps.Props.C06Refine
import GoSnaps.Props.C19
import GoSnaps.Props.C20

namespace GoSnaps.Wld

open GoSnaps GoSnaps.C06Refine
open GoSnaps.C03 (testID testID_eq)

/-! ## file states -/

/-- path `p` holds the entry list `es`: the file's bytes are `render es`, or the file does not
exist and `es` is empty -/
def Holds (fs : FS) (p : Text) (es : List Entry) : Prop :=
  fsRead fs p = some (render es) ∨ (fsRead fs p = none ∧ es = [])

/-- what `os.OpenFile(O_APPEND|O_CREATE)` sees: a missing file starts empty -/
def fileOf (fs : FS) (p : Text) : Text :=
  match fsRead fs p with
  | some t => t
  | none => []

/-- the text that is compared: `unescapeEndChars` of the stored / received text for
MatchSnapshot and MatchYAML, the text itself for MatchJSON -/
def cmpText : Cmp → Text → Text
  | .escaped, s => unescape s
  | .raw, s => s

theorem Holds.fileOf {fs : FS} {p : Text} {es : List Entry} (h : Holds fs p es) :
    fileOf fs p = render es := by
  unfold Wld.fileOf
  rcases h with h | ⟨h, rfl⟩
  · rw [h]
  · rw [h]; rfl

theorem frame_ne_nil (e : Entry) : frame e ≠ [] := by simp [frame]

theorem render_eq_nil {es : List Entry} (h : render es = []) : es = [] := by
  cases es with
  | nil => rfl
  | cons e es => rw [render_cons] at h; simp [frame] at h

theorem Holds.some_of_ne_nil {fs : FS} {p : Text} {es : List Entry} (h : Holds fs p es)
    (hne : es ≠ []) : fsRead fs p = some (render es) := by
  rcases h with h | ⟨_, rfl⟩
  · exact h
  · exact absurd rfl hne

theorem getPrev_nil (id : Line) : getPrev id [] = none := by
  simp [getPrev, scan, lines, getPrevL]

/-- the lookup `entryTail` starts with, on a file state -/
theorem Holds.lookup {fs : FS} {p : Text} {es : List Entry} (h : Holds fs p es) (id : Line) :
    (fsRead fs p).bind (getPrev id) = getPrev id (render es) := by
  rcases h with h | ⟨h, rfl⟩
  · rw [h]; rfl
  · rw [h]; simp [render, getPrev_nil]

theorem Holds.write {fs : FS} {p : Text} (t : Text) {es : List Entry} (h : t = render es) :
    Holds (fsWrite fs p t) p es := by
  left; rw [C19.fsRead_fsWrite_same, h]

/-! ## `Good` algebra -/

theorem good_prefix {a b : List Entry} (h : Good (a ++ b)) : Good a := by
  obtain ⟨⟨h1, h2⟩, h3⟩ := h
  refine ⟨⟨fun e he => h1 e (by simp [he]), fun e he o ho => h2 e (by simp [he]) o (by simp [ho])⟩, ?_⟩
  simp only [ids, List.map_append] at h3 ⊢
  exact (List.nodup_append.mp h3).1

theorem good_suffix {a b : List Entry} (h : Good (a ++ b)) : Good b := by
  obtain ⟨⟨h1, h2⟩, h3⟩ := h
  refine ⟨⟨fun e he => h1 e (by simp [he]), fun e he o ho => h2 e (by simp [he]) o (by simp [ho])⟩, ?_⟩
  simp only [ids, List.map_append] at h3 ⊢
  exact (List.nodup_append.mp h3).2.1

theorem good_nil : Good [] := by decide

/-- in a `Good` file the header of an entry occurs on no other line of the file -/
theorem good_headerUnique {pre post : List Entry} {e : Entry} (h : Good (pre ++ e :: post)) :
    C04.HeaderUnique pre e post := by
  have he : e ∈ pre ++ e :: post := by simp
  obtain ⟨hgid, _⟩ := h.1.1 e he
  have hnd := h.2
  simp only [ids, List.map_append, List.map_cons] at hnd
  rw [List.nodup_append] at hnd
  obtain ⟨_, hnd2, hdisj⟩ := hnd
  rw [List.nodup_cons] at hnd2
  constructor
  · apply not_mem_fileLines _ _ hgid.2.2.1 hgid.2.2.2
    intro o ho
    refine ⟨?_, h.1.2 o (by simp [ho]) e he⟩
    intro heq
    exact hdisj o.id (List.mem_map.mpr ⟨o, ho, rfl⟩) e.id (by simp) heq
  · apply not_mem_fileLines _ _ hgid.2.2.1 hgid.2.2.2
    intro o ho
    refine ⟨?_, h.1.2 o (by simp [ho]) e he⟩
    intro heq
    exact hnd2.1 (heq ▸ List.mem_map.mpr ⟨o, ho, rfl⟩)

/-- **lookup of an entry of a `Good` file**: exactly its body, at its header's line -/
theorem good_lookup_split {pre post : List Entry} {e : Entry} (h : Good (pre ++ e :: post)) :
    getPrev e.id (render (pre ++ e :: post)) = some (e.body, (fileLines pre).length + 2) := by
  have he : e ∈ pre ++ e :: post := by simp
  obtain ⟨hgid, hgb⟩ := h.1.1 e he
  exact C01.getPrev_render pre e post h.wf hgid.2.2.1 hgb.1 (good_headerUnique h).1

theorem good_lookup_mem {es : List Entry} (h : Good es) {id : Line} {s : Text}
    (hm : (⟨id, s⟩ : Entry) ∈ es) : ∃ line, getPrev id (render es) = some (s, line) := by
  obtain ⟨pre, post, rfl⟩ := List.append_of_mem hm
  exact ⟨_, good_lookup_split h⟩

/-- an id that occurs on no line of a `Sound` file is not found -/
theorem good_lookup_absent {es : List Entry} (h : Good es) {id : Line} (ha : id ∉ fileLines es) :
    getPrev id (render es) = none :=
  C01.getPrev_absent id es h.wf ha

/-- the header of the last entry of a `Good` file occurs on no line before it -/
theorem good_fresh_last {es : List Entry} {e : Entry} (h : Good (es ++ [e])) :
    e.id ∉ fileLines es := (good_headerUnique h).1

/-- with pairwise distinct headers, `setBody` rewrites exactly the one entry -/
theorem setBody_split (pre post : List Entry) (e : Entry) (b : Text)
    (hnd : (ids (pre ++ e :: post)).Nodup) :
    setBody (pre ++ e :: post) e.id b = pre ++ ⟨e.id, b⟩ :: post := by
  simp only [ids, List.map_append, List.map_cons] at hnd
  rw [List.nodup_append] at hnd
  obtain ⟨_, hnd2, hdisj⟩ := hnd
  rw [List.nodup_cons] at hnd2
  have hpre : ∀ o ∈ pre, o.id ≠ e.id := fun o ho heq =>
    hdisj o.id (List.mem_map.mpr ⟨o, ho, rfl⟩) e.id (by simp) heq
  have hpost : ∀ o ∈ post, o.id ≠ e.id := fun o ho heq =>
    hnd2.1 (heq ▸ List.mem_map.mpr ⟨o, ho, rfl⟩)
  have hid : ∀ (l : List Entry), (∀ o ∈ l, o.id ≠ e.id) →
      l.map (fun x => if x.id = e.id then (⟨e.id, b⟩ : Entry) else x) = l := by
    intro l hl
    induction l with
    | nil => rfl
    | cons x xs ih =>
      simp only [List.map_cons, hl x (by simp), ↓reduceIte]
      rw [ih (fun o ho => hl o (by simp [ho]))]
  simp only [setBody, List.map_append, List.map_cons, ↓reduceIte]
  rw [hid pre hpre, hid post hpost]

/-- **`Good` is preserved by replacing one body** with a usable body none of whose lines is a
header of the file -/
theorem good_replace {pre post : List Entry} {e : Entry} (h : Good (pre ++ e :: post)) {b : Text}
    (hb : GoodBody b) (hold : ∀ o ∈ pre ++ e :: post, o.id ∉ lines b) :
    Good (pre ++ ⟨e.id, b⟩ :: post) := by
  rw [← setBody_split pre post e b h.2]
  exact h.setBody e.id hb hold

/-- the byte-level update of an entry of a `Good` file rewrites exactly that entry; ANY new body -/
theorem good_update_split {pre post : List Entry} {e : Entry} (h : Good (pre ++ e :: post))
    (b : Text) :
    update e.id b (render (pre ++ e :: post)) = render (pre ++ ⟨e.id, b⟩ :: post) := by
  have he : e ∈ pre ++ e :: post := by simp
  obtain ⟨hgid, hgb⟩ := h.1.1 e he
  exact C04.update_render pre e post b h.wf hgid.2.2.1 hgb.1 (good_headerUnique h)

/-! ## headers `[name - k]` are usable ids -/

/-- the header of a test whose name has no newline is a usable id -/
theorem goodId_testID (t : Text) (k : Nat) (ht : NoNL t) : GoodId (testID t k) := by
  refine ⟨C03.testID_noNL t k ht, ?_, C03.testID_ne_nil t k, ?_⟩
  · unfold NoCRLine testID
    have : (91 :: t ++ [32, 45, 32] ++ natToText k ++ [93] : Text).getLast? = some 93 :=
      List.getLast?_concat
    rw [this]; decide
  · intro h
    have : (testID t k).head? = some 91 := by simp [testID]
    rw [h] at this
    exact absurd this (by decide)

/-! ## `entryTail` as a function of the lookup result -/

theorem entryTail_absent (w : World) (c : Cfg) (p rel id s : Text) (cmp : Cmp)
    (hq : (fsRead w.fs p).bind (getPrev id) = none)
    (hc : Generated.shouldCreate w.env c.update = true) :
    entryTail w c p rel id s cmp =
      ({ w with fs := fsWrite w.fs p (fileOf w.fs p ++ frame ⟨id, s⟩),
                events := { w.events with added := w.events.added + 1 } },
       { events := [.log Generated.go_addedMsg], writes := [p] }) := by
  unfold entryTail fileOf
  simp only [hq, hc, frameFmt_eq]
  rfl

theorem entryTail_absent_ro (w : World) (c : Cfg) (p rel id s : Text) (cmp : Cmp)
    (hq : (fsRead w.fs p).bind (getPrev id) = none)
    (hc : Generated.shouldCreate w.env c.update = false) :
    entryTail w c p rel id s cmp = handleError w errNotFound := by
  unfold entryTail
  simp only [hq, hc]
  rfl

theorem entryTail_found (w : World) (c : Cfg) (p rel id s : Text) (cmp : Cmp) (prev : Text)
    (line : Nat) (hq : (fsRead w.fs p).bind (getPrev id) = some (prev, line)) :
    entryTail w c p rel id s cmp =
      if prettyDiff (cmpText cmp prev) (cmpText cmp s) rel line = [] then
        ({ w with events := { w.events with passed := w.events.passed + 1 } }, {})
      else if !Generated.shouldUpdate w.env c.update then
        handleError w (prettyDiff (cmpText cmp prev) (cmpText cmp s) rel line)
      else
        match fsRead w.fs p with
        | none => unsup w "update of a vanished file"
        | some file =>
          ({ w with fs := fsWrite w.fs p (update id s file),
                    events := { w.events with updated := w.events.updated + 1 } },
           { events := [.log Generated.go_updatedMsg], writes := [p] }) := by
  unfold entryTail
  simp only [hq]
  cases cmp <;> rfl

/-- found and the compared texts are equal: silent pass in every mode -/
theorem entryTail_found_eq (w : World) (c : Cfg) (p rel id s : Text) (cmp : Cmp) (prev : Text)
    (line : Nat) (hq : (fsRead w.fs p).bind (getPrev id) = some (prev, line))
    (heq : cmpText cmp prev = cmpText cmp s) :
    entryTail w c p rel id s cmp =
      ({ w with events := { w.events with passed := w.events.passed + 1 } }, {}) := by
  rw [entryTail_found w c p rel id s cmp prev line hq, heq,
    if_pos ((C13.report_empty_iff _ _ _ _).mpr rfl)]

/-- found, the compared texts differ, updating not allowed: one non-empty error -/
theorem entryTail_found_ne_ro (w : World) (c : Cfg) (p rel id s : Text) (cmp : Cmp) (prev : Text)
    (line : Nat) (hq : (fsRead w.fs p).bind (getPrev id) = some (prev, line))
    (hne : cmpText cmp prev ≠ cmpText cmp s)
    (hu : Generated.shouldUpdate w.env c.update = false) :
    entryTail w c p rel id s cmp =
      handleError w (prettyDiff (cmpText cmp prev) (cmpText cmp s) rel line) ∧
    prettyDiff (cmpText cmp prev) (cmpText cmp s) rel line ≠ [] := by
  have hd : prettyDiff (cmpText cmp prev) (cmpText cmp s) rel line ≠ [] :=
    fun h => hne ((C13.report_empty_iff _ _ _ _).mp h)
  refine ⟨?_, hd⟩
  rw [entryTail_found w c p rel id s cmp prev line hq, if_neg hd, hu]
  rfl

/-- found, the compared texts differ, updating allowed: the file is rewritten by `update` -/
theorem entryTail_found_ne_upd (w : World) (c : Cfg) (p rel id s : Text) (cmp : Cmp) (prev : Text)
    (line : Nat) (file : Text) (hf : fsRead w.fs p = some file)
    (hq : getPrev id file = some (prev, line))
    (hne : cmpText cmp prev ≠ cmpText cmp s)
    (hu : Generated.shouldUpdate w.env c.update = true) :
    entryTail w c p rel id s cmp =
      ({ w with fs := fsWrite w.fs p (update id s file),
                events := { w.events with updated := w.events.updated + 1 } },
       { events := [.log Generated.go_updatedMsg], writes := [p] }) := by
  have hd : prettyDiff (cmpText cmp prev) (cmpText cmp s) rel line ≠ [] :=
    fun h => hne ((C13.report_empty_iff _ _ _ _).mp h)
  have hq' : (fsRead w.fs p).bind (getPrev id) = some (prev, line) := by rw [hf]; exact hq
  rw [entryTail_found w c p rel id s cmp prev line hq', if_neg hd, hu, hf]
  rfl

/-- `entryTail` never changes the environment (mode) -/
theorem entryTail_env (w : World) (c : Cfg) (p rel id s : Text) (cmp : Cmp) :
    (entryTail w c p rel id s cmp).1.env = w.env := by
  unfold entryTail
  dsimp only
  repeat' split
  all_goals rfl

/-! ## `matchEntry` = registry bump, then `entryTail` at the header `[tName - n]` -/

/-- the world `entryTail` runs in: both counters of `(p, tName)` bumped, cleanup registered -/
def bumped (w : World) (p tName : Text) (texec : Nat) : World :=
  { (regBump w (p, tName)).1 with
    pending := (texec, .reg (p, tName)) :: (regBump w (p, tName)).1.pending }

theorem bumped_fs (w : World) (p t : Text) (x : Nat) : (bumped w p t x).fs = w.fs := rfl
theorem bumped_env (w : World) (p t : Text) (x : Nat) : (bumped w p t x).env = w.env := rfl
theorem bumped_events (w : World) (p t : Text) (x : Nat) : (bumped w p t x).events = w.events := rfl
theorem bumped_running (w : World) (p t : Text) (x : Nat) :
    (bumped w p t x).running = (regBump w (p, t)).1.running := rfl
theorem bumped_pending (w : World) (p t : Text) (x : Nat) :
    (bumped w p t x).pending = (x, .reg (p, t)) :: w.pending := rfl

theorem matchEntry_eq (w : World) (c : Cfg) (caller tName : Text) (texec : Nat) (cmp : Cmp)
    (s p rel : Text) (hsp : snapshotPath c caller tName false = (p, some rel)) :
    matchEntry w c caller tName texec cmp (.ok s) =
      entryTail (bumped w p tName texec) c p rel
        (testID tName (alGet w.running (p, tName) + 1)) s cmp := by
  unfold matchEntry
  rw [hsp]
  simp only [regBump, testID_eq]
  rfl

theorem matchEntry_error_eq (w : World) (c : Cfg) (caller tName : Text) (texec : Nat) (cmp : Cmp)
    (msg p rel : Text) (hsp : snapshotPath c caller tName false = (p, some rel)) :
    matchEntry w c caller tName texec cmp (.error msg) =
      handleError (bumped w p tName texec) msg := by
  unfold matchEntry
  rw [hsp]
  simp only [regBump, testID_eq]
  rfl

/-! ## `endTest` touches registries only -/

theorem resetFold_fs (ps : List (Nat × Pending)) (w : World) :
    (ps.foldl resetStep w).fs = w.fs := by
  induction ps generalizing w with
  | nil => rfl
  | cons q ps ih =>
    rw [List.foldl_cons, ih]
    unfold resetStep; split <;> rfl

theorem resetFold_env (ps : List (Nat × Pending)) (w : World) :
    (ps.foldl resetStep w).env = w.env := by
  induction ps generalizing w with
  | nil => rfl
  | cons q ps ih =>
    rw [List.foldl_cons, ih]
    unfold resetStep; split <;> rfl

theorem endTest_fs (w : World) (texec : Nat) : (endTest w texec).fs = w.fs := by
  rw [endTest_eq]; exact resetFold_fs _ _

theorem endTest_env (w : World) (texec : Nat) : (endTest w texec).env = w.env := by
  rw [endTest_eq]; exact resetFold_env _ _

theorem resetFold_srunning (ps : List (Nat × Pending)) (w : World) (g : Text) :
    alGet (ps.foldl resetStep w).srunning g =
      if (∃ q ∈ ps, q.2 = .sreg g) then 0 else alGet w.srunning g := by
  induction ps generalizing w with
  | nil => simp
  | cons q ps ih =>
    rw [List.foldl_cons, ih]
    by_cases hps : ∃ r ∈ ps, r.2 = Pending.sreg g
    · have : ∃ r ∈ q :: ps, r.2 = Pending.sreg g := by
        obtain ⟨r, hr, hr2⟩ := hps; exact ⟨r, by simp [hr], hr2⟩
      rw [if_pos hps, if_pos this]
    · simp only [hps, ↓reduceIte]
      by_cases hq : q.2 = Pending.sreg g
      · have : ∃ r ∈ q :: ps, r.2 = Pending.sreg g := ⟨q, by simp, hq⟩
        simp only [this, ↓reduceIte]
        unfold resetStep; rw [hq]; exact alGet_alSet_same _ _ _
      · have : ¬ ∃ r ∈ q :: ps, r.2 = Pending.sreg g := by
          rintro ⟨r, hr, hr2⟩
          simp only [List.mem_cons] at hr
          rcases hr with rfl | hr
          · exact hq hr2
          · exact hps ⟨r, hr, hr2⟩
        simp only [this, ↓reduceIte]
        unfold resetStep
        split
        · rfl
        · rename_i g' hg'
          have : g ≠ g' := by intro e; apply hq; rw [hg', e]
          exact alGet_alSet_other _ _ _ _ this

theorem endTest_srunning (w : World) (texec : Nat) (g : Text) :
    alGet (endTest w texec).srunning g =
      if (texec, Pending.sreg g) ∈ w.pending then 0 else alGet w.srunning g := by
  rw [endTest_eq]
  show alGet (List.foldl resetStep w _).srunning g = _
  rw [resetFold_srunning]
  have : (∃ q ∈ w.pending.filter (·.1 = texec), q.2 = Pending.sreg g) ↔
      (texec, Pending.sreg g) ∈ w.pending := by
    constructor
    · rintro ⟨⟨t, q⟩, hp, hq⟩
      simp only [List.mem_filter, decide_eq_true_eq] at hp
      obtain ⟨hp, rfl⟩ := hp
      simp only at hq; subst hq; exact hp
    · intro h; exact ⟨(texec, Pending.sreg g), by simp [h], rfl⟩
  simp only [this]

/-! ## `matchStandalone` = registry bump, then `standaloneTail` at the numbered path -/

def sbumped (w : World) (g : Text) (texec : Nat) : World :=
  { (sregBump w g).1 with pending := (texec, .sreg g) :: (sregBump w g).1.pending }

theorem matchStandalone_eq (w : World) (c : Cfg) (caller tName : Text) (texec : Nat)
    (s g grel pth rel : Text) (hsp : snapshotPath c caller tName true = (g, some grel))
    (hp : sprintf g [.d (alGet w.srunning g + 1)] = some pth)
    (hr : sprintf grel [.d (alGet w.srunning g + 1)] = some rel) :
    matchStandalone w c caller tName texec (.ok s) =
      standaloneTail (sbumped w g texec) c pth rel s := by
  unfold matchStandalone
  rw [hsp]
  simp only [sregBump, hp, hr]
  rfl

theorem standaloneTail_create_eq (w : World) (c : Cfg) (p rel s : Text)
    (hf : fsRead w.fs p = none) (hc : Generated.shouldCreate w.env c.update = true) :
    standaloneTail w c p rel s =
      ({ w with fs := fsWrite w.fs p s,
                events := { w.events with added := w.events.added + 1 } },
       { events := [.log Generated.go_addedMsg], writes := [p] }) := by
  unfold standaloneTail
  simp only [hf, hc]
  rfl

theorem standaloneTail_replay_eq (w : World) (c : Cfg) (p rel s : Text)
    (hf : fsRead w.fs p = some s) :
    standaloneTail w c p rel s =
      ({ w with events := { w.events with passed := w.events.passed + 1 } }, {}) := by
  unfold standaloneTail
  simp [hf, prettyDiff]

end GoSnaps.Wld
