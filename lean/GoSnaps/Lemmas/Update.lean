/-
Helper lemmas for Props/C03 and Props/C04: `updateL` over `fileLines`, monotonicity of
`getPrevL` under appending, decimal rendering, header injectivity, association-list registries.
-/
import GoSnaps.Lemmas.Format
import GoSnaps.Props.C01
import GoSnaps.Model
namespace GoSnaps

/-! ### `fileLines` / `render` algebra -/

theorem fileLines_append (a b : List Entry) : fileLines (a ++ b) = fileLines a ++ fileLines b := by
  simp [fileLines]

theorem fileLines_cons (e : Entry) (es : List Entry) :
    fileLines (e :: es) = entryLines e ++ fileLines es := by
  simp [fileLines]

theorem fileLines_split (pre : List Entry) (e : Entry) (post : List Entry) :
    fileLines (pre ++ e :: post) = fileLines pre ++ (entryLines e ++ fileLines post) := by
  simp [fileLines]

theorem render_append (a b : List Entry) : render (a ++ b) = render a ++ render b := by
  simp [render]

theorem render_cons (e : Entry) (es : List Entry) : render (e :: es) = frame e ++ render es := by
  simp [render]

theorem render_split (pre : List Entry) (e : Entry) (post : List Entry) :
    render (pre ++ e :: post) = render pre ++ (frame e ++ render post) := by
  simp [render]

/-- re-emitting every logical line of an entry followed by "\n" gives back its frame -/
theorem flatMap_entryLines (e : Entry) : (entryLines e).flatMap (· ++ [nl]) = frame e := by
  simp [entryLines, frame, List.flatMap_append, flatMap_lines]

/-- re-emitting every logical line of a file followed by "\n" gives back the file -/
theorem flatMap_fileLines (es : List Entry) : (fileLines es).flatMap (· ++ [nl]) = render es := by
  induction es with
  | nil => simp [fileLines, render]
  | cons e es ih =>
    rw [fileLines_cons, List.flatMap_append, ih, flatMap_entryLines, render_cons]

theorem length_entryLines (e : Entry) : (entryLines e).length = (lines e.body).length + 3 := by
  simp [entryLines]

/-! ### `updateL` -/

/-- copying mode: lines different from the header are re-emitted verbatim -/
theorem updateL_copy (id : Line) (b : Text) (ls rest : List Line) (h : id ∉ ls) :
    updateL id b false (ls ++ rest) = ls.flatMap (· ++ [nl]) ++ updateL id b false rest := by
  induction ls with
  | nil => simp
  | cons l ls ih =>
    have hl : l ≠ id := by intro e; apply h; simp [e]
    have hls : id ∉ ls := by intro e; apply h; simp [e]
    simp [updateL, hl, ih hls]

theorem updateL_copy_all (id : Line) (b : Text) (ls : List Line) (h : id ∉ ls) :
    updateL id b false ls = ls.flatMap (· ++ [nl]) := by
  have := updateL_copy id b ls [] h
  simpa [updateL] using this

/-- skipping mode (`removeSnapshot`): everything up to and including the first terminator is dropped -/
theorem updateL_skip (id : Line) (b : Text) (ls rest : List Line) (h : endSeq ∉ ls) :
    updateL id b true (ls ++ endSeq :: rest) = updateL id b false rest := by
  induction ls with
  | nil => simp [updateL]
  | cons l ls ih =>
    have hl : l ≠ endSeq := by intro e; apply h; simp [e]
    have hls : endSeq ∉ ls := by intro e; apply h; simp [e]
    simp [updateL, hl, ih hls]

/-- the entry whose header matches is replaced by the frame of the new body -/
theorem updateL_entry (e : Entry) (b' : Text) (rest : List Line) (hne : e.id ≠ [])
    (hesc : Escaped e.body) :
    updateL e.id b' false (entryLines e ++ rest) =
      frame ⟨e.id, b'⟩ ++ updateL e.id b' false rest := by
  have h0 : ([] : Line) ≠ e.id := fun h => hne h.symm
  have : entryLines e ++ rest = [] :: e.id :: (lines e.body ++ endSeq :: rest) := by
    simp [entryLines]
  rw [this]
  simp only [updateL, h0, ↓reduceIte]
  rw [updateL_skip _ _ _ _ hesc]
  simp [frame]

/-- `updateL` on the logical lines of a file in which the header occurs only as `e`'s header -/
theorem updateL_fileLines (pre : List Entry) (e : Entry) (post : List Entry) (b' : Text)
    (hne : e.id ≠ []) (hesc : Escaped e.body)
    (hpre : e.id ∉ fileLines pre) (hpost : e.id ∉ fileLines post) :
    updateL e.id b' false (fileLines (pre ++ e :: post)) = render (pre ++ ⟨e.id, b'⟩ :: post) := by
  rw [fileLines_split, updateL_copy _ _ _ _ hpre, updateL_entry e b' _ hne hesc,
    updateL_copy_all _ _ _ hpost, flatMap_fileLines, flatMap_fileLines, render_split]

/-! ### `collect` / `getPrevL` are monotone under appending lines -/

theorem collect_append_some (ls more : List Line) (acc r : Text) (h : collect ls acc = some r) :
    collect (ls ++ more) acc = some r := by
  induction ls generalizing acc with
  | nil => simp [collect] at h
  | cons l ls ih =>
    simp only [collect, List.cons_append] at h ⊢
    split
    · rename_i hl; simpa [hl] using h
    · rename_i hl; simp only [hl, ↓reduceIte] at h; exact ih _ h

theorem getPrevL_append_some (id : Line) (ls more : List Line) (n : Nat) (r : Text × Nat)
    (h : getPrevL id ls n = some r) : getPrevL id (ls ++ more) n = some r := by
  induction ls generalizing n with
  | nil => simp [getPrevL] at h
  | cons l ls ih =>
    simp only [getPrevL, List.cons_append] at h ⊢
    split
    · rename_i hl
      simp only [hl, ↓reduceIte, Option.map_eq_some_iff] at h
      obtain ⟨b, hb, rfl⟩ := h
      simp [collect_append_some ls more [] b hb]
    · rename_i hl; simp only [hl, ↓reduceIte] at h; exact ih _ h

theorem collect_isSome (ls : List Line) (acc : Text) (h : endSeq ∈ ls) :
    (collect ls acc).isSome := by
  induction ls generalizing acc with
  | nil => simp at h
  | cons l ls ih =>
    simp only [collect]
    split
    · simp
    · rename_i hl
      have : endSeq ∈ ls := by
        simp only [List.mem_cons] at h
        rcases h with h | h
        · exact absurd h.symm hl
        · exact h
      exact ih _ this

/-- a line that is followed (anywhere later) by a terminator is always found -/
theorem getPrevL_isSome (id : Line) (a b c : List Line) (n : Nat) :
    (getPrevL id (a ++ id :: (b ++ endSeq :: c)) n).isSome := by
  induction a generalizing n with
  | nil =>
    simp only [List.nil_append, getPrevL, ↓reduceIte, Option.isSome_map]
    exact collect_isSome _ _ (by simp)
  | cons l ls ih =>
    simp only [List.cons_append, getPrevL]
    split
    · simp only [Option.isSome_map]
      exact collect_isSome _ _ (by simp)
    · exact ih _

/-- every entry of a file is found by a lookup of its header (maybe shadowed, but found) -/
theorem getPrevL_fileLines_isSome (es : List Entry) (o : Entry) (ho : o ∈ es) (n : Nat) :
    (getPrevL o.id (fileLines es) n).isSome := by
  obtain ⟨pre, post, rfl⟩ := List.append_of_mem ho
  have : fileLines (pre ++ o :: post) =
      (fileLines pre ++ [[]]) ++ o.id :: (lines o.body ++ endSeq :: fileLines post) := by
    simp [fileLines, entryLines]
  rw [this]
  exact getPrevL_isSome _ _ _ _ _

/-! ### well-formedness (`C01.WF`) is stable under splitting and under replacing a body -/

/-- no line of the body ends in a carriage return (`bufio.ScanLines` would strip it) -/
def NoCRBody (b : Text) : Prop := ∀ l ∈ lines b, NoCRLine l

instance (b : Text) : Decidable (NoCRBody b) := by unfold NoCRBody; infer_instance

theorem WF_append_left {a b : List Entry} (h : C01.WF (a ++ b)) : C01.WF a :=
  ⟨fun e he => h.idNoNL e (by simp [he]),
   fun l hl => h.noCR l (by rw [fileLines_append]; simp [hl])⟩

theorem WF_append_right {a b : List Entry} (h : C01.WF (a ++ b)) : C01.WF b :=
  ⟨fun e he => h.idNoNL e (by simp [he]),
   fun l hl => h.noCR l (by rw [fileLines_append]; simp [hl])⟩

theorem WF_replace {pre post : List Entry} {e : Entry} (b' : Text)
    (h : C01.WF (pre ++ e :: post)) (hcr : NoCRBody b') :
    C01.WF (pre ++ ⟨e.id, b'⟩ :: post) := by
  constructor
  · intro x hx
    simp only [List.mem_append, List.mem_cons] at hx
    rcases hx with hx | rfl | hx
    · exact h.idNoNL x (by simp [hx])
    · exact h.idNoNL e (by simp)
    · exact h.idNoNL x (by simp [hx])
  · intro l hl
    have hold := h.noCR
    rw [fileLines_split] at hl hold
    simp only [List.mem_append, entryLines, List.mem_cons, List.not_mem_nil, or_false] at hl hold
    rcases hl with hl | (((rfl | rfl) | hl) | rfl) | hl
    · exact hold l (by simp [hl])
    · exact hold [] (by simp)
    · exact hold e.id (by simp)
    · exact hcr l hl
    · exact hold endSeq (by simp)
    · exact hold l (by simp [hl])

/-! ### decimal rendering -/

/-- value of a big-endian decimal digit string -/
def decodeNat (t : Text) : Nat := t.foldl (fun a c => 10 * a + (c.toNat - 48)) 0

def IsDigit (c : Byte) : Prop := 48 ≤ c ∧ c ≤ 57

theorem digit_toNat (n : Nat) : (UInt8.ofNat (48 + n % 10)).toNat = 48 + n % 10 := by
  have : n % 10 < 10 := Nat.mod_lt _ (by omega)
  simp [UInt8.toNat_ofNat']
  omega

theorem digit_isDigit (n : Nat) : IsDigit (UInt8.ofNat (48 + n % 10)) := by
  have h := digit_toNat n
  have : n % 10 < 10 := Nat.mod_lt _ (by omega)
  unfold IsDigit
  rw [UInt8.le_iff_toNat_le, UInt8.le_iff_toNat_le, h]
  simp
  omega

theorem natToTextAux_spec (fuel n : Nat) (acc : Text) (h : n < fuel) :
    ∃ ds : Text, natToTextAux fuel n acc = ds ++ acc ∧ ds ≠ [] ∧ (∀ c ∈ ds, IsDigit c) ∧
      decodeNat ds = n := by
  induction fuel generalizing n acc with
  | zero => omega
  | succ f ih =>
    simp only [natToTextAux]
    split
    · rename_i hn
      refine ⟨[UInt8.ofNat (48 + n % 10)], by simp, by simp, ?_, ?_⟩
      · intro c hc; simp only [List.mem_singleton] at hc; subst hc; exact digit_isDigit n
      · simp only [decodeNat, List.foldl_cons, List.foldl_nil, digit_toNat]; omega
    · rename_i hn
      obtain ⟨ds, h1, _, h3, h4⟩ := ih (n / 10) (UInt8.ofNat (48 + n % 10) :: acc) (by omega)
      refine ⟨ds ++ [UInt8.ofNat (48 + n % 10)], by rw [h1]; simp, by simp, ?_, ?_⟩
      · intro c hc
        simp only [List.mem_append, List.mem_singleton] at hc
        rcases hc with hc | rfl
        · exact h3 c hc
        · exact digit_isDigit n
      · unfold decodeNat at h4 ⊢
        simp only [List.foldl_append, List.foldl_cons, List.foldl_nil, h4, digit_toNat]; omega

theorem natToText_spec (n : Nat) :
    natToText n ≠ [] ∧ (∀ c ∈ natToText n, IsDigit c) ∧ decodeNat (natToText n) = n := by
  obtain ⟨ds, h1, h2, h3, h4⟩ := natToTextAux_spec (n + 1) n [] (by omega)
  have : natToText n = ds := by simpa [natToText] using h1
  rw [this]; exact ⟨h2, h3, h4⟩

/-! ### header injectivity -/

/-- two strings `A ++ ' ' :: R` with space-free `A` agree only if the parts agree -/
theorem split_at_first_space (A A' R R' : Text) (hA : (32 : Byte) ∉ A) (hA' : (32 : Byte) ∉ A')
    (h : A ++ 32 :: R = A' ++ 32 :: R') : A = A' ∧ R = R' := by
  induction A generalizing A' with
  | nil =>
    cases A' with
    | nil => simpa using h
    | cons a' As' =>
      simp only [List.nil_append, List.cons_append, List.cons.injEq] at h
      exact absurd h.1 (by intro e; apply hA'; simp [e])
  | cons a As ih =>
    cases A' with
    | nil =>
      simp only [List.nil_append, List.cons_append, List.cons.injEq] at h
      exact absurd h.1.symm (by intro e; apply hA; simp [e])
    | cons a' As' =>
      simp only [List.cons_append, List.cons.injEq] at h
      obtain ⟨rfl, h⟩ := h
      have := ih As' (by intro e; apply hA; simp [e]) (by intro e; apply hA'; simp [e]) h
      simp [this.1, this.2]

/-! ### association lists (Go `map[K]int`) -/

section AL
variable {κ : Type} [DecidableEq κ]

theorem alGet_alSet_same (m : List (κ × Nat)) (k : κ) (v : Nat) : alGet (alSet m k v) k = v := by
  induction m with
  | nil => simp [alSet, alGet]
  | cons p m ih =>
    obtain ⟨k', v'⟩ := p
    simp only [alSet]
    split
    · simp [alGet]
    · rename_i h; simp [alGet, h, ih]

theorem alGet_alSet_other (m : List (κ × Nat)) (k k' : κ) (v : Nat) (h : k' ≠ k) :
    alGet (alSet m k v) k' = alGet m k' := by
  induction m with
  | nil => simp [alSet, alGet, Ne.symm h]
  | cons p m ih =>
    obtain ⟨k'', v''⟩ := p
    simp only [alSet]
    split
    · rename_i h2; subst h2; simp [alGet, Ne.symm h]
    · rename_i h2
      simp only [alGet]
      split
      · rfl
      · exact ih

theorem alGet_alSet (m : List (κ × Nat)) (k k' : κ) (v : Nat) :
    alGet (alSet m k v) k' = if k' = k then v else alGet m k' := by
  split
  · rename_i h; subst h; exact alGet_alSet_same m _ v
  · rename_i h; exact alGet_alSet_other m k k' v h

end AL

/-- two strings `X ++ ' ' :: D` with space-free `D` agree only if the parts agree
    (the LAST space is the separator) -/
theorem split_at_last_space (X X' D D' : Text) (hD : (32 : Byte) ∉ D) (hD' : (32 : Byte) ∉ D')
    (h : X ++ 32 :: D = X' ++ 32 :: D') : X = X' ∧ D = D' := by
  have hr : ∀ X D : Text, (X ++ 32 :: D).reverse = D.reverse ++ 32 :: X.reverse := by
    intro X D; simp
  have h' := congrArg List.reverse h
  rw [hr, hr] at h'
  have := split_at_first_space D.reverse D'.reverse X.reverse X'.reverse
    (by simpa using hD) (by simpa using hD') h'
  exact ⟨List.reverse_inj.mp this.2, List.reverse_inj.mp this.1⟩

theorem isDigit_ne_space (c : Byte) (h : IsDigit c) : c ≠ 32 := by
  intro e; subst e; unfold IsDigit at h; exact absurd h (by decide)

/-! ### registries: `regBump`, `endTest`, and the Match* steps -/

theorem regBump_snd (w : World) (k : RegKey) : (regBump w k).2 = alGet w.running k + 1 := rfl

theorem regBump_running_same (w : World) (k : RegKey) :
    alGet (regBump w k).1.running k = alGet w.running k + 1 := by
  simp [regBump, alGet_alSet_same]

theorem regBump_running_other (w : World) (k k' : RegKey) (h : k' ≠ k) :
    alGet (regBump w k).1.running k' = alGet w.running k' := by
  simp [regBump, alGet_alSet_other _ _ _ _ h]

theorem regBump_cleanup_same (w : World) (k : RegKey) :
    alGet (regBump w k).1.cleanup k = alGet w.cleanup k + 1 := by
  simp [regBump, alGet_alSet_same]

theorem regBump_cleanup_other (w : World) (k k' : RegKey) (h : k' ≠ k) :
    alGet (regBump w k).1.cleanup k' = alGet w.cleanup k' := by
  simp [regBump, alGet_alSet_other _ _ _ _ h]

/-- the body of the `endTest` fold -/
def resetStep (w : World) (p : Nat × Pending) : World :=
  match p.2 with
  | .reg k => { w with running := alSet w.running k 0 }
  | .sreg g => { w with srunning := alSet w.srunning g 0 }

theorem endTest_eq (w : World) (texec : Nat) :
    endTest w texec =
      { (w.pending.filter (·.1 = texec)).foldl resetStep w with
        pending := ((w.pending.filter (·.1 = texec)).foldl resetStep w).pending.filter
          (·.1 ≠ texec) } := by
  unfold endTest resetStep; rfl

theorem resetFold_cleanup (ps : List (Nat × Pending)) (w : World) :
    (ps.foldl resetStep w).cleanup = w.cleanup := by
  induction ps generalizing w with
  | nil => rfl
  | cons p ps ih =>
    rw [List.foldl_cons, ih]
    unfold resetStep; split <;> rfl

theorem resetFold_running (ps : List (Nat × Pending)) (w : World) (k : RegKey) :
    alGet (ps.foldl resetStep w).running k =
      if (∃ p ∈ ps, p.2 = .reg k) then 0 else alGet w.running k := by
  induction ps generalizing w with
  | nil => simp
  | cons p ps ih =>
    rw [List.foldl_cons, ih]
    by_cases hps : ∃ q ∈ ps, q.2 = Pending.reg k
    · have : ∃ q ∈ p :: ps, q.2 = Pending.reg k := by
        obtain ⟨q, hq, hq2⟩ := hps; exact ⟨q, by simp [hq], hq2⟩
      rw [if_pos hps, if_pos this]
    · simp only [hps, ↓reduceIte]
      by_cases hp : p.2 = Pending.reg k
      · have : ∃ q ∈ p :: ps, q.2 = Pending.reg k := ⟨p, by simp, hp⟩
        simp only [this, ↓reduceIte]
        unfold resetStep; rw [hp]; exact alGet_alSet_same _ _ _
      · have : ¬ ∃ q ∈ p :: ps, q.2 = Pending.reg k := by
          rintro ⟨q, hq, hq2⟩
          simp only [List.mem_cons] at hq
          rcases hq with rfl | hq
          · exact hp hq2
          · exact hps ⟨q, hq, hq2⟩
        simp only [this, ↓reduceIte]
        unfold resetStep
        split
        · rename_i k' hk'
          have : k ≠ k' := by intro e; apply hp; rw [hk', e]
          exact alGet_alSet_other _ _ _ _ this
        · rfl

theorem resetFold_pending (ps : List (Nat × Pending)) (w : World) :
    (ps.foldl resetStep w).pending = w.pending := by
  induction ps generalizing w with
  | nil => rfl
  | cons p ps ih =>
    rw [List.foldl_cons, ih]
    unfold resetStep; split <;> rfl

theorem endTest_pending (w : World) (texec : Nat) :
    (endTest w texec).pending = w.pending.filter (·.1 ≠ texec) := by
  rw [endTest_eq]
  show List.filter _ (List.foldl resetStep w _).pending = _
  rw [resetFold_pending]

theorem endTest_cleanup (w : World) (texec : Nat) : (endTest w texec).cleanup = w.cleanup := by
  rw [endTest_eq]; exact resetFold_cleanup _ _

theorem endTest_running (w : World) (texec : Nat) (k : RegKey) :
    alGet (endTest w texec).running k =
      if (texec, Pending.reg k) ∈ w.pending then 0 else alGet w.running k := by
  rw [endTest_eq]
  show alGet (List.foldl resetStep w _).running k = _
  rw [resetFold_running]
  have : (∃ p ∈ w.pending.filter (·.1 = texec), p.2 = Pending.reg k) ↔
      (texec, Pending.reg k) ∈ w.pending := by
    constructor
    · rintro ⟨⟨t, q⟩, hp, hq⟩
      simp only [List.mem_filter, decide_eq_true_eq] at hp
      obtain ⟨hp, rfl⟩ := hp
      simp only at hq; subst hq; exact hp
    · intro h; exact ⟨(texec, Pending.reg k), by simp [h], rfl⟩
  simp only [this]

/-- the step left every registry and the pending-cleanup list as they were -/
structure SameRegs (w w' : World) : Prop where
  running : w'.running = w.running
  cleanup : w'.cleanup = w.cleanup
  srunning : w'.srunning = w.srunning
  scleanup : w'.scleanup = w.scleanup
  pending : w'.pending = w.pending

theorem handleError_regs (w : World) (msg : Text) : SameRegs w (handleError w msg).1 :=
  ⟨rfl, rfl, rfl, rfl, rfl⟩

/-- the lookup/create/compare/update tail never touches the registries -/
theorem entryTail_regs (w : World) (c : Cfg) (snapPath rel testID snapshot : Text) (cmp : Cmp) :
    SameRegs w (entryTail w c snapPath rel testID snapshot cmp).1 := by
  unfold entryTail
  dsimp only
  repeat' split
  all_goals exact ⟨rfl, rfl, rfl, rfl, rfl⟩

theorem standaloneTail_regs (w : World) (c : Cfg) (snapPath rel snapshot : Text) :
    SameRegs w (standaloneTail w c snapPath rel snapshot).1 := by
  unfold standaloneTail
  dsimp only
  repeat' split
  all_goals exact ⟨rfl, rfl, rfl, rfl, rfl⟩

/-- whatever `pre` is, `matchEntry` leaves the registries exactly as `getTestID` left them,
    and has registered the cleanup for mock T number `texec` -/
theorem matchEntry_regs (w : World) (c : Cfg) (caller tName : Text) (texec : Nat) (cmp : Cmp)
    (pre : Except Text Text) :
    let k : RegKey := ((snapshotPath c caller tName false).1, tName)
    (matchEntry w c caller tName texec cmp pre).1.running = (regBump w k).1.running ∧
    (matchEntry w c caller tName texec cmp pre).1.cleanup = (regBump w k).1.cleanup ∧
    (matchEntry w c caller tName texec cmp pre).1.pending = (texec, Pending.reg k) :: w.pending := by
  unfold matchEntry
  generalize snapshotPath c caller tName false = sp
  obtain ⟨snapPath, rel?⟩ := sp
  dsimp only
  split
  · cases pre with
    | error msg => exact ⟨rfl, rfl, rfl⟩
    | ok s =>
      exact ⟨(entryTail_regs _ _ _ _ _ _ _).running, (entryTail_regs _ _ _ _ _ _ _).cleanup,
        (entryTail_regs _ _ _ _ _ _ _).pending⟩
  · exact ⟨rfl, rfl, rfl⟩

theorem matchStandalone_regs (w : World) (c : Cfg) (caller tName : Text) (texec : Nat)
    (pre : Except Text Text) :
    let g : Text := (snapshotPath c caller tName true).1
    (matchStandalone w c caller tName texec pre).1.srunning = (sregBump w g).1.srunning ∧
    (matchStandalone w c caller tName texec pre).1.scleanup = (sregBump w g).1.scleanup ∧
    (matchStandalone w c caller tName texec pre).1.pending = (texec, Pending.sreg g) :: w.pending := by
  unfold matchStandalone
  generalize snapshotPath c caller tName true = sp
  obtain ⟨generic, grel?⟩ := sp
  dsimp only
  split
  · exact ⟨rfl, rfl, rfl⟩
  · split
    · cases pre with
      | error msg => exact ⟨rfl, rfl, rfl⟩
      | ok s =>
        exact ⟨(standaloneTail_regs _ _ _ _ _).srunning, (standaloneTail_regs _ _ _ _ _).scleanup,
          (standaloneTail_regs _ _ _ _ _).pending⟩
    · exact ⟨rfl, rfl, rfl⟩

end GoSnaps
