/-
Model-level helper lemmas for `Props/Tie/EndToEndSkip.lean` (histories in which some tests call
`snaps.Skip` / `Skipf` / `SkipNow`, then `Clean`, about the transliterated code):

* §A  histories with skip steps: `SStep`, `strip` (the Match*/done steps), `skipNames` (the names recorded, in
      order), the model's `runS` (a skip step is `trackSkip`), and `runS_world`: the skip list is a FRAME of
      the model's flows — the world after `runS` is the world after `run` of the stripped history, with the
      skip list `w.skipped ++ skipNames h` (`entryTail_skipped`, `matchEntry_skipped`, `endTest_skipped`).
      Every model-level fact about `run` (registry, snapshot file, frame) is thereby a fact about `runS`.
* §B  the protection rule on headers `[t - k]` (`protected_header_iff`): for a name without a space the
      entry is protected iff `t` is a skipped name or starts with `name/`; siblings (`sibling_not_covered`).
* §C  `go_keeps_kept` / `clean_keeps_kept`: `CleanWorld.go_keeps` / `clean_keeps_count` for entries that the
      scan KEEPS (`keptId`: registered or skip-protected), for any skip list (and any `-run` pattern).
* §D  the summary prints the number of skips (`summary_skipped_line`).
* §E  `-run`: finite oracle tables read off the functions standing for `regexp` / `go/parser` (`runOracles`,
      `cleanOracles`), sound and complete for one `Clean` (`runOracles_oracleSound`, `runOracles_parseSound`,
      `cleanOracles_entry`, `cleanOracles_file`); `clean_supported_run`, `clean_keeps_kept_run`, `keptId_run`;
      the `used` files of `examineFiles` do not depend on the pattern (`examineFiles_run_used`).
-/
import GoSnaps.Lemmas.EndToEndClean2

namespace GoSnaps.SkipHist

open GoSnaps GoSnaps.C06Refine GoSnaps.Wld GoSnaps.C01World GoSnaps.CleanWorld
open GoSnaps.C03 (testID)

/-! ## A. histories with skip steps -/

/-- which exported wrapper the test calls: `snaps.Skip(t, args...)`, `snaps.Skipf(t, format, args...)`,
    `snaps.SkipNow(t)` -/
inductive SkipKind
  | skip (args : List Text)
  | skipf (format : Text) (args : List Text)
  | skipNow
deriving DecidableEq, Repr

/-- a step of a test process: a step of `C01World.Step` (a Match* call, the end of a `testing.T`), or a call of
    a skip wrapper by the test named `t` on `testing.T` number `x` -/
inductive SStep
  | run (s : Step)
  | skip (t : Text) (x : Nat) (kind : SkipKind)
deriving DecidableEq, Repr

/-- the Match* calls and test ends of a history -/
def strip : List SStep → List Step
  | [] => []
  | .run s :: h => s :: strip h
  | .skip _ _ _ :: h => strip h

/-- the names the skip steps record, in order (with repetitions) -/
def skipNames : List SStep → List Text
  | [] => []
  | .run _ :: h => skipNames h
  | .skip t _ _ :: h => t :: skipNames h

/-- the number of skip steps -/
def skipCount (h : List SStep) : Nat := (skipNames h).length

theorem strip_map_run (h : List Step) : strip (h.map SStep.run) = h := by
  induction h with
  | nil => rfl
  | cons s h ih => simp [strip, ih]

theorem skipNames_map_run (h : List Step) : skipNames (h.map SStep.run) = [] := by
  induction h with
  | nil => rfl
  | cons s h ih => simp [skipNames, ih]

theorem strip_append (h1 h2 : List SStep) : strip (h1 ++ h2) = strip h1 ++ strip h2 := by
  induction h1 with
  | nil => rfl
  | cons s h1 ih => cases s <;> simp [strip, ih]

theorem skipNames_append (h1 h2 : List SStep) : skipNames (h1 ++ h2) = skipNames h1 ++ skipNames h2 := by
  induction h1 with
  | nil => rfl
  | cons s h1 ih => cases s <;> simp [skipNames, ih]

/-- what a skip wrapper reports to its `testing.T`: the log line of `trackSkip`, then `testing`'s own skip -/
def skipEvents : SkipKind → List TEvent
  | .skip _ => [.log Generated.go_skippedMsg, .skip []]
  | .skipf _ _ => [.log Generated.go_skippedMsg, .skipf []]
  | .skipNow => [.log Generated.go_skippedMsg, .skipNow]

/-- one step of the model: a skip step is `trackSkip` -/
def stepS (c : Cfg) (caller : Text) (w : World) : SStep → World × List Out
  | .run s => C01World.step c caller w s
  | .skip t _ k => (trackSkip w t, [{ events := skipEvents k }])

/-- the model's run of a history with skip steps -/
def runS (c : Cfg) (caller : Text) : World → List SStep → World × List Out
  | w, [] => (w, [])
  | w, s :: h =>
    ((runS c caller (stepS c caller w s).1 h).1,
     (stepS c caller w s).2 ++ (runS c caller (stepS c caller w s).1 h).2)

/-! ### the skip list is a frame of the model's flows -/

theorem entryTail_skipped (w : World) (c : Cfg) (p rel id s : Text) (cmp : Cmp) (sk : List Text) :
    entryTail { w with skipped := sk } c p rel id s cmp =
      ({ (entryTail w c p rel id s cmp).1 with skipped := sk }, (entryTail w c p rel id s cmp).2) := by
  unfold entryTail
  simp only
  cases (fsRead w.fs p).bind (getPrev id) with
  | none =>
    simp only
    split
    · rfl
    · cases frameFmt id s <;> rfl
  | some pl =>
    obtain ⟨prev, line⟩ := pl
    cases cmp <;> simp only <;> (split; · rfl) <;> (split; · rfl) <;> cases fsRead w.fs p <;> rfl

theorem matchEntry_skipped (w : World) (c : Cfg) (caller t : Text) (x : Nat) (cmp : Cmp)
    (pre : Except Text Text) (sk : List Text) :
    matchEntry { w with skipped := sk } c caller t x cmp pre =
      ({ (matchEntry w c caller t x cmp pre).1 with skipped := sk }, (matchEntry w c caller t x cmp pre).2) := by
  unfold matchEntry
  generalize snapshotPath c caller t false = sp
  obtain ⟨snapPath, rel?⟩ := sp
  simp only [regBump]
  cases sprintf Generated.idFmt [.s t, .d (alGet w.running (snapPath, t) + 1)] with
  | none => rfl
  | some id =>
    cases rel? with
    | none => rfl
    | some rel =>
      cases pre with
      | error msg => rfl
      | ok s => exact entryTail_skipped (bumped w snapPath t x) c snapPath rel id s cmp sk

theorem resetFold_skipped (ps : List (Nat × Pending)) (w : World) (sk : List Text) :
    ps.foldl resetStep { w with skipped := sk } = { ps.foldl resetStep w with skipped := sk } := by
  induction ps generalizing w with
  | nil => rfl
  | cons q ps ih =>
    rw [List.foldl_cons, List.foldl_cons, ← ih]
    congr 1
    unfold resetStep
    split <;> rfl

theorem endTest_skipped (w : World) (x : Nat) (sk : List Text) :
    endTest { w with skipped := sk } x = { endTest w x with skipped := sk } := by
  rw [endTest_eq, endTest_eq]
  simp only [resetFold_skipped]

theorem step_skipped (c : Cfg) (caller : Text) (w : World) (s : Step) (sk : List Text) :
    C01World.step c caller { w with skipped := sk } s =
      ({ (C01World.step c caller w s).1 with skipped := sk }, (C01World.step c caller w s).2) := by
  cases s with
  | call t txt cmp x => simp only [C01World.step, matchEntry_skipped]
  | done x => simp only [C01World.step, endTest_skipped]

theorem run_skipped (c : Cfg) (caller : Text) (h : List Step) : ∀ (w : World) (sk : List Text),
    C01World.run c caller { w with skipped := sk } h =
      ({ (C01World.run c caller w h).1 with skipped := sk }, (C01World.run c caller w h).2) := by
  induction h with
  | nil => intro w sk; rfl
  | cons s h ih =>
    intro w sk
    simp only [C01World.run]
    rw [step_skipped]
    simp only
    rw [ih]

/-- no flow of the model touches the skip list -/
theorem step_keeps_skipped (c : Cfg) (caller : Text) (w : World) (s : Step) :
    (C01World.step c caller w s).1.skipped = w.skipped :=
  congrArg (fun r => r.1.skipped) (step_skipped c caller w s w.skipped)

theorem run_keeps_skipped (c : Cfg) (caller : Text) (w : World) (h : List Step) :
    (C01World.run c caller w h).1.skipped = w.skipped :=
  congrArg (fun r => r.1.skipped) (run_skipped c caller h w w.skipped)

/-- **the world after a history with skip steps** is the world after the history without them, with the
    names of the skip steps appended to the skip list -/
theorem runS_world (c : Cfg) (caller : Text) (h : List SStep) : ∀ w : World,
    (runS c caller w h).1 =
      { (C01World.run c caller w (strip h)).1 with skipped := w.skipped ++ skipNames h } := by
  induction h with
  | nil =>
    intro w
    simp only [runS, strip, skipNames, C01World.run, List.append_nil]
  | cons s h ih =>
    intro w
    cases s with
    | run s =>
      simp only [runS, stepS, strip, skipNames, C01World.run]
      rw [ih, step_keeps_skipped]
    | skip t x k =>
      simp only [runS, stepS, strip, skipNames]
      rw [ih]
      show _ = { (C01World.run c caller w (strip h)).1 with skipped := w.skipped ++ t :: skipNames h }
      have := run_skipped c caller (strip h) w (w.skipped ++ [t])
      rw [show trackSkip w t = { w with skipped := w.skipped ++ [t] } from rfl, this]
      simp only [List.append_assoc, List.cons_append, List.nil_append]

theorem runS_skipped (c : Cfg) (caller : Text) (h : List SStep) (w : World) :
    (runS c caller w h).1.skipped = w.skipped ++ skipNames h := by
  rw [runS_world]

/-! ## B. the protection rule on headers `[t - k]` -/

/-- the test-name part of the id of the header `[t - k]` is `t` (test names contain no space) -/
theorem tid_beforeSep {e : Entry} {t : Text} {k : Nat} (hid : e.id = testID t k) (h : (32 : Byte) ∉ t) :
    beforeSep (tidOf e) Generated.skipSep = t := by
  rw [tidOf_of_id hid]; exact C08.beforeSep_testID t k h

/-- **the rule, on headers**: the entry `[t - k]` is protected by the skip list `sk` iff `t` is a skipped name
    or starts with `name/` for a skipped name -/
theorem protected_header_iff (sk : List Text) {e : Entry} {t : Text} {k : Nat} (hid : e.id = testID t k)
    (h : (32 : Byte) ∉ t) :
    C08.Protected sk (tidOf e) ↔ ∃ N ∈ sk, t = N ∨ hasPrefix t (N ++ [slash]) = true := by
  unfold C08.Protected
  rw [tid_beforeSep hid h]

/-- the skipped test's own entries -/
theorem protected_self (sk : List Text) {e : Entry} {N : Text} {k : Nat} (hN : N ∈ sk)
    (hid : e.id = testID N k) (h : (32 : Byte) ∉ N) : C08.Protected sk (tidOf e) :=
  (protected_header_iff sk hid h).mpr ⟨N, hN, Or.inl rfl⟩

/-- the entries of every descendant `N/sub` -/
theorem protected_descendant (sk : List Text) {e : Entry} {N sub : Text} {k : Nat} (hN : N ∈ sk)
    (hid : e.id = testID (N ++ slash :: sub) k) (h : (32 : Byte) ∉ N) (hs : (32 : Byte) ∉ sub) :
    C08.Protected sk (tidOf e) := by
  have hns : (32 : Byte) ∉ N ++ slash :: sub := by
    simp only [List.mem_append, List.mem_cons, not_or]
    exact ⟨h, by decide, hs⟩
  refine (protected_header_iff sk hid hns).mpr ⟨N, hN, Or.inr ?_⟩
  simp only [hasPrefix, List.isPrefixOf_iff_prefix]
  exact ⟨sub, by simp⟩

/-- a name that extends `N` by bytes that do not start with `/` (`TestAB` for `TestA`, `TestA/x#01` for
    `TestA/x`) is neither `N` nor a descendant of `N` -/
theorem sibling_not_covered (N rest : Text) (c : Byte) (hc : c ≠ slash) :
    ¬ (N ++ c :: rest = N ∨ hasPrefix (N ++ c :: rest) (N ++ [slash]) = true) := by
  rintro (h | h)
  · have := congrArg List.length h
    simp at this
  · simp only [hasPrefix, List.isPrefixOf_iff_prefix] at h
    obtain ⟨t, ht⟩ := h
    simp only [List.append_assoc, List.append_cancel_left_eq, List.cons_append, List.nil_append,
      List.cons.injEq] at ht
    exact hc ht.1.symm

/-- in `Bool` form: `skipListed` is `Protected` -/
theorem skipListed_false_iff (sk : List Text) (tid : Text) :
    skipListed sk tid = false ↔ ¬ C08.Protected sk tid := by
  rw [← C08.skipListed_iff]; simp

/-! ## C. `Clean` keeps what the scan keeps: registered OR skip-protected -/

/-- `CleanWorld.go_keeps` for entries that the scan keeps (`keptId`), whatever the reason, and for ANY `-run`
    pattern: the oracle tables must classify every entry of the file (`Classified`; without a pattern they
    always do: `classified_noRun`) -/
theorem go_keeps_kept (o : Oracles) (cleanup : List (RegKey × Nat)) (skipped : List Text) (runOnly : Text)
    (count : Nat) (update sort : Bool) (p : Text) (registered : List Text)
    (hreg : registeredFor cleanup p count = some registered)
    (must : List Entry) (hK : ∀ e ∈ must, keptId o registered skipped runOnly (tidOf e) = true) :
    ∀ (used : List Text), (∀ q ∈ used, q = p) →
    ∀ (fs : FS) (obs written : List Text) (es : List Entry),
      CleanFile es → Holds fs p es → (∀ e ∈ es, Classified o registered skipped runOnly (tidOf e)) →
      (∀ e ∈ must, e ∈ es) → (∀ e ∈ must, tidOf e ∉ obs) →
      ∀ (obs' : List Text) (fs' : FS) (w' : List Text),
        examineSnaps.go o cleanup skipped runOnly count update sort used fs obs written =
          .ok obs' fs' w' →
        ∃ es', CleanFile es' ∧ Holds fs' p es' ∧ (∀ e ∈ must, e ∈ es') ∧ (∀ e ∈ es', e ∈ es) ∧
          (∀ e ∈ must, tidOf e ∉ obs') ∧ (∀ q, q ≠ p → fsRead fs' q = fsRead fs q) := by
  intro used
  induction used with
  | nil =>
    intro _ fs obs written es hf hh _ hall hobs obs' fs' w' h
    rw [examineSnaps_go_nil] at h
    simp only [SnapsOutcome.ok.injEq] at h
    obtain ⟨rfl, rfl, _⟩ := h
    exact ⟨es, hf, hh, hall, fun _ he => he, hobs, fun _ _ => rfl⟩
  | cons q rest ih =>
    intro hused fs obs written es hf hh hcls hall hobs obs' fs' w' h
    have hq : q = p := hused q (by simp)
    subst hq
    have hrest : ∀ q' ∈ rest, q' = q := fun q' hq' => hused q' (by simp [hq'])
    rcases hh with hread | ⟨hnone, _⟩
    · rw [examineSnaps_go_cons_clean o registered skipped runOnly fs cleanup q rest count update sort
        obs written es hf hread hreg hcls] at h
      cases hco : cleanOutcome (keptId o registered skipped runOnly) es q fs update sort with
      | ok st fs1 w1 =>
        rw [hco] at h
        simp only at h
        obtain ⟨hst, hfs⟩ := cleanOutcome_ok _ es q fs update sort st fs1 w1 hco
        have hobs1 : ∀ e ∈ must, tidOf e ∉ obs ++ st := by
          intro e he hm
          rcases List.mem_append.mp hm with hm | hm
          · exact hobs e he hm
          · rw [hst] at hm
            obtain ⟨x, hx, hxe⟩ := List.mem_map.mp hm
            have := (List.mem_filter.mp hx).2
            rw [hxe, hK e he] at this
            cases this
        rcases hfs with ⟨rfl, rfl⟩ | ⟨ids', hperm, rfl, rfl⟩
        · exact ih hrest fs1 _ _ es hf (Or.inl hread) hcls hall hobs1 obs' fs' w' h
        · obtain ⟨hf2, hsub⟩ := cleanFile_reorder es hf
            (fun e => keptId o registered skipped runOnly (tidOf e) || !update) ids' hperm
          have hp2 := reorder_perm es (fun e => keptId o registered skipped runOnly (tidOf e) || !update)
            ids' hf.distinct hperm
          have hall2 : ∀ e ∈ must, e ∈ reorder
              (es.filter (fun e => keptId o registered skipped runOnly (tidOf e) || !update)) ids' := by
            intro e he
            exact hp2.mem_iff.mpr (List.mem_filter.mpr ⟨hall e he, by simp [hK e he]⟩)
          obtain ⟨es', h1, h2, h3, h4, h5, h6⟩ := ih hrest _ _ _ _ hf2
            (Or.inl (fsRead_fsWrite _ _ _)) (fun e he => hcls e (hsub e he).1) hall2 hobs1 obs' fs' w' h
          refine ⟨es', h1, h2, h3, fun e he => (hsub e (h4 e he)).1, h5, ?_⟩
          intro q' hq'
          rw [h6 q' hq']
          exact fsRead_fsWrite_ne _ _ _ _ hq'
      | missingOracle => rw [hco] at h; cases h
      | unsupportedOrder => rw [hco] at h; cases h
      | panics => rw [hco] at h; cases h
      | badFormat => rw [hco] at h; cases h
    · rw [examineSnaps_go_cons, hnone] at h
      cases h

/-- **`clean_keeps_count` with skip protection.**  World `w`: every cleanup key addresses the file `p`, no
standalone snapshot is registered; `p` holds the `CleanFile` `es`; every entry of `must` is in the file and is
EITHER `[t - k]` with `1 ≤ k ≤ n / count` for a registered pair `((p, t), n)` OR protected by the skip list of
`w` (`C08.Protected`).  Then for a supported `Clean` with no `-run` filter, in every mode: `p` is not removed,
no id of `must` is reported obsolete, and afterwards `p` holds a `CleanFile` made of entries of `es` that
contains every entry of `must`; every other path that was not removed reads as before. -/
theorem clean_keeps_kept (o : Oracles) (w : World) (sortOpt : Bool) (count : Nat) (p : Text)
    (es must : List Entry)
    (hkeys : ∀ kv ∈ w.cleanup, kv.1.1 = p) (hs : w.scleanup = [])
    (hcov : ∀ e ∈ must,
      (∃ t k n, e.id = testID t k ∧ 1 ≤ k ∧ k ≤ n / count ∧ ((p, t), n) ∈ w.cleanup) ∨
      C08.Protected w.skipped (tidOf e))
    (hf : CleanFile es) (hfile : Holds w.fs p es) (hall : ∀ e ∈ must, e ∈ es)
    (sa : List Text) (fr : FilesResult) (obsT : List Text) (fs : FS) (wr : List Text)
    (run : CleanRun o w sortOpt [] count sa fr obsT fs wr) :
    p ∉ fr.removed ∧ (∀ e ∈ must, tidOf e ∉ obsT) ∧
    (∃ es', CleanFile es' ∧ Holds fs p es' ∧ (∀ e ∈ must, e ∈ es') ∧ (∀ e ∈ es', e ∈ es)) ∧
    (∀ q, q ≠ p → q ∉ fr.removed → fsRead fs q = fsRead w.fs q) := by
  have hsa : sa = [] := by
    have := run.occ
    rw [hs, occurrences_nil] at this
    exact (Option.some.inj this).symm
  subst hsa
  have hused : ∀ q ∈ fr.used, q = p := used_all_p o w p hkeys [] [] _ fr run.files
  have hnrem : p ∉ fr.removed := regPath_not_removed o w p hkeys [] _ fr run.files
  have hframe := (C09.examineFiles_untouched _ _ _ _ _ _ _ run.files).2.2.2
  have hfile1 : Holds fr.fs p es := holds_congr (hframe p hnrem) hfile
  obtain ⟨registered, hreg⟩ : ∃ r, registeredFor w.cleanup p count = some r :=
    occurrences_snapshot_total _ count
  have hK : ∀ e ∈ must, keptId o registered w.skipped [] (tidOf e) = true := by
    intro e he
    rcases hcov e he with ⟨t, k, n, hid, hk1, hk2, hm⟩ | hp
    · have hmem : (t, n) ∈ (w.cleanup.filter (·.1.1 = p)).map (fun (k, n) => (k.2, n)) :=
        List.mem_map.mpr ⟨((p, t), n), List.mem_filter.mpr ⟨hm, by simp⟩, rfl⟩
      obtain ⟨x, hx, hxm⟩ := C07.occurrences_cover_div _ count snapshotOccFmt registered t n hmem hreg k hk1 hk2
      rw [snapshotOccFmt_eq] at hx
      cases hx
      rw [tidOf_of_id hid]
      have hc : registered.contains (t ++ [32, 45, 32] ++ natToText k) = true := by simpa using hxm
      unfold keptId
      rw [hc]
      rfl
    · exact C08.protected_kept o registered w.skipped [] _ hp
  obtain ⟨es', h1, h2, h3, h4, h5, h6⟩ := go_keeps_kept o w.cleanup w.skipped [] count _ _ p registered hreg
    must hK fr.used hused fr.fs [] [] es hf hfile1 (fun e _ => classified_noRun o registered w.skipped _) hall
    (fun _ _ h => by cases h) obsT fs wr run.snaps
  refine ⟨hnrem, h5, ⟨es', h1, h2, h3, h4⟩, ?_⟩
  intro q hq hqr
  rw [h6 q hq, hframe q hqr]

/-! ## D. the summary prints the number of skips -/

/-- with at least one skip the summary is not empty and contains the line `printEvent "⟳ " "skipped" n`
    (`⟳ n snapshot(s) skipped`), whatever else there is to report -/
theorem summary_skipped_line (obsF obsT : List Text) (n : Nat) (ev : Events) (anyEvent upd : Bool) (hn : n > 0) :
    ∃ pre post, summary obsF obsT n ev anyEvent upd =
      pre ++ printEvent Generated.go_skipSymbol (ofString "skipped") n ++ post := by
  unfold summary
  rw [if_neg (by simp; omega)]
  rw [List.append_assoc (_ ++ printEvent Generated.go_skipSymbol (ofString "skipped") n),
    List.append_assoc (_ ++ printEvent Generated.go_skipSymbol (ofString "skipped") n)]
  exact ⟨_, _, rfl⟩

/-- the line itself: the symbol, the number, `snapshot` or `snapshots`, `skipped` -/
theorem printEvent_skipped (n : Nat) (hn : n > 0) :
    printEvent Generated.go_skipSymbol (ofString "skipped") n =
      Generated.go_skipSymbol ++ natToText n ++ ofString " " ++
        (if n > 1 then ofString "snapshot" ++ ofString "s" else ofString "snapshot") ++ ofString " " ++
        ofString "skipped" ++ [nl] := by
  unfold printEvent plural
  rw [if_neg (by omega)]

/-! ## E. `-run`: oracle tables read off the functions standing for `regexp` and `go/parser`

The model of `Clean` consults FINITE tables (`Oracles`); the transliteration calls functions (`re`,
`parseFile`).  For a given pattern, file system and snapshot file the tables below answer every question the
model asks (`cleanOracles_…`), and answer it as the functions do (`runOracles_oracleSound`,
`runOracles_parseSound`): the model covers the call (`clean_supported_run`). -/

section RunFilter
open GoSnaps.GoIO (GoDecl Err)
open GoSnaps.Tie (ParseSound OracleSound SkipConsistent skipPath funcNames)

/-- the tables for the pattern `r`: the regexp answers for the strings `ss`, the parse results for the
    paths `ps` -/
def runOracles (parseFile : Text → List GoDecl × Err) (re : Text → Text → Bool × Bool) (r : Text)
    (ss ps : List Text) : Oracles :=
  { re := ss.map (fun s => ((r, s), (re r s).1)),
    gofuncs := ps.map (fun q =>
      (q, if (parseFile q).2.notNil then none else some (funcNames (parseFile q).1))) }

theorem find?_map_key_some {α κ β : Type} [DecidableEq κ] (l : List α) (k : α → κ) (v : α → β) (key : κ)
    (kv : κ × β) (h : (l.map (fun s => (k s, v s))).find? (·.1 = key) = some kv) :
    ∃ s ∈ l, k s = key ∧ kv = (k s, v s) := by
  have h1 := List.find?_some h
  obtain ⟨s, hs, e⟩ := List.mem_map.mp (List.mem_of_find?_eq_some h)
  subst e
  exact ⟨s, hs, by simpa using h1, rfl⟩

theorem find?_map_key_mem {α κ β : Type} [DecidableEq κ] (l : List α) (k : α → κ) (v : α → β) (a : α)
    (ha : a ∈ l) : ∃ s ∈ l, k s = k a ∧
      (l.map (fun s => (k s, v s))).find? (·.1 = k a) = some (k s, v s) := by
  cases h : (l.map (fun s => (k s, v s))).find? (·.1 = k a) with
  | none =>
    have := List.find?_eq_none.mp h (k a, v a) (List.mem_map.mpr ⟨a, ha, rfl⟩)
    simp at this
  | some kv =>
    obtain ⟨s, hs, e1, e2⟩ := find?_map_key_some l k v (k a) kv h
    exact ⟨s, hs, e1, by rw [e2]⟩

/-- the regexp table answers for every listed string, as the function does -/
theorem runOracles_reMatch (parseFile : Text → List GoDecl × Err) (re : Text → Text → Bool × Bool) (r : Text)
    (ss ps : List Text) (hr : r ≠ []) (s : Text) (hs : s ∈ ss) :
    (runOracles parseFile re r ss ps).reMatch r s = some (re r s).1 := by
  unfold Oracles.reMatch runOracles
  rw [if_neg hr]
  obtain ⟨s', _, e1, e2⟩ := find?_map_key_mem ss (fun s => (r, s)) (fun s => (re r s).1) s hs
  have : s' = s := (Prod.mk.inj e1).2
  subst this
  rw [e2]; rfl

/-- … and says nothing else -/
theorem runOracles_oracleSound (parseFile : Text → List GoDecl × Err) (re : Text → Text → Bool × Bool)
    (r : Text) (ss ps : List Text) (hr : r ≠ []) : OracleSound (runOracles parseFile re r ss ps) re r := by
  intro s b h
  unfold Oracles.reMatch runOracles at h
  rw [if_neg hr] at h
  simp only at h
  cases hf : (ss.map (fun s => ((r, s), (re r s).1))).find? (·.1 = (r, s)) with
  | none => rw [hf] at h; cases h
  | some kv =>
    rw [hf] at h
    obtain ⟨s', _, e1, e2⟩ := find?_map_key_some ss (fun s => (r, s)) (fun s => (re r s).1) (r, s) kv hf
    have : s' = s := (Prod.mk.inj e1).2
    subst this
    rw [e2] at h
    exact Option.some.inj h

theorem runOracles_parseSound (parseFile : Text → List GoDecl × Err) (re : Text → Text → Bool × Bool)
    (r : Text) (ss ps : List Text) : ParseSound (runOracles parseFile re r ss ps) parseFile := by
  intro q key entry h
  obtain ⟨q', _, e1, e2⟩ := find?_map_key_some ps (fun q => q)
    (fun q => if (parseFile q).2.notNil then none else some (funcNames (parseFile q).1)) q (key, entry) h
  have e1' : q' = q := e1
  subst e1'
  exact (Prod.mk.inj e2).2

/-- the tables are consistent for every listed path whose function names are listed -/
theorem runOracles_skipConsistent (parseFile : Text → List GoDecl × Err) (re : Text → Text → Bool × Bool)
    (r : Text) (ss ps : List Text) (hr : r ≠ []) (q : Text) (hq : q ∈ ps)
    (hn : ∀ n ∈ funcNames (parseFile q).1, n ∈ ss) :
    SkipConsistent (runOracles parseFile re r ss ps) parseFile re r q := by
  refine ⟨?_, fun _ n hn' => runOracles_reMatch parseFile re r ss ps hr n (hn n hn')⟩
  obtain ⟨q', _, e1, e2⟩ := find?_map_key_mem ps (fun q => q)
    (fun q => if (parseFile q).2.notNil then none else some (funcNames (parseFile q).1)) q hq
  have e1' : q' = q := e1
  subst e1'
  exact ⟨q', e2⟩

/-- **the tables for one `Clean`**: the ids of the entries of the snapshot file, the test files
    `isFileSkipped` would parse for the names listed in the snapshot directory, and the functions those
    declare -/
def cleanOracles (parseFile : Text → List GoDecl × Err) (re : Text → Text → Bool × Bool) (r : Text)
    (fs : FS) (dir : Text) (es : List Entry) : Oracles :=
  runOracles parseFile re r
    (es.map tidOf ++
      ((readDir fs dir).map (fun x => skipPath dir x.1)).flatMap (fun q => funcNames (parseFile q).1))
    ((readDir fs dir).map (fun x => skipPath dir x.1))

theorem cleanOracles_entry (parseFile : Text → List GoDecl × Err) (re : Text → Text → Bool × Bool) (r : Text)
    (fs : FS) (dir : Text) (es : List Entry) (hr : r ≠ []) (e : Entry) (he : e ∈ es) :
    (cleanOracles parseFile re r fs dir es).reMatch r (tidOf e) = some (re r (tidOf e)).1 :=
  runOracles_reMatch parseFile re r _ _ hr _ (List.mem_append_left _ (List.mem_map_of_mem he))

theorem cleanOracles_file (parseFile : Text → List GoDecl × Err) (re : Text → Text → Bool × Bool) (r : Text)
    (fs : FS) (dir : Text) (es : List Entry) (hr : r ≠ []) (x : Text × Bool) (hx : x ∈ readDir fs dir) :
    isFileSkipped (cleanOracles parseFile re r fs dir es) dir x.1 r =
      some (Generated.FuncsIO.isFileSkipped parseFile re dir x.1 r) := by
  apply Tie.isFileSkipped_tied
  intro _
  refine runOracles_skipConsistent parseFile re r _ _ hr _
    (List.mem_map.mpr ⟨x, hx, rfl⟩) (fun n hn => List.mem_append_right _ ?_)
  exact List.mem_flatMap.mpr ⟨_, List.mem_map.mpr ⟨x, hx, rfl⟩, hn⟩

theorem testSkipped_eq (o : Oracles) (skipped : List Text) (tid r : Text) :
    testSkipped o skipped tid r =
      if skipListed skipped tid then some true else (o.reMatch r tid).map (!·) := rfl

/-- an id the regexp table answers for is classified -/
theorem classified_of_reMatch (o : Oracles) (registered skipped : List Text) (r tid : Text) (b : Bool)
    (h : o.reMatch r tid = some b) : Classified o registered skipped r tid := by
  unfold Classified keptId staleId
  rw [testSkipped_eq, h]
  cases registered.contains tid <;> cases b <;> cases skipListed skipped tid <;> simp

/-- **what is kept under `-run r`**: registered, or skip-protected, or the pattern does not match the WHOLE id
    (finding D7: the id, not the name of the test `go test -run` selects) -/
theorem keptId_run (o : Oracles) (registered skipped : List Text) (r tid : Text) (b : Bool)
    (h : o.reMatch r tid = some b) :
    keptId o registered skipped r tid = (registered.contains tid || skipListed skipped tid || !b) := by
  unfold keptId
  rw [testSkipped_eq, h]
  cases registered.contains tid <;> cases b <;> cases skipListed skipped tid <;> simp

/-- `examineFiles` over one snapshot directory has a result with these tables, whatever the pattern -/
theorem examineFiles_run_some (parseFile : Text → List GoDecl × Err) (re : Text → Text → Bool × Bool)
    (r : Text) (hr : r ≠ []) (w : World) (p : Text) (es : List Entry)
    (hkeys : ∀ kv ∈ w.cleanup, kv.1.1 = p) (update : Bool) :
    ∃ fr, examineFiles (cleanOracles parseFile re r w.fs (fpDir p) es) w.fs (cleanRegPaths w) [] r update =
      some fr := by
  by_cases hne : w.cleanup = []
  · rw [cleanRegPaths_nil w hne, examineFiles_eq]
    exact ⟨_, rfl⟩
  · rw [cleanRegPaths_single w p hne hkeys, examineFiles_eq]
    simp only [List.append_nil, List.map_cons, List.map_nil, dedup_single, sortBytes_single, List.foldl_cons,
      List.foldl_nil]
    unfold filesOuter
    simp only
    apply foldl_some_of_step
    intro a x hx
    unfold filesInner
    simp only [cleanOracles_file parseFile re r w.fs (fpDir p) es hr x hx]
    repeat' split
    all_goals first | exact ⟨_, rfl⟩ | simp_all

theorem filesInner_fold_none (o : Oracles) (rp sa : List Text) (r : Text) (update : Bool) (dir : Text)
    (L : List (Text × Bool)) : L.foldl (filesInner o rp sa r update dir) none = none := by
  induction L with
  | nil => rfl
  | cons x L ih => rw [List.foldl_cons]; exact ih

/-- one step of the inner loop of `examineFiles`: a registered path is handed on as `used` before
    `isFileSkipped` is consulted -/
theorem filesInner_used (o : Oracles) (p dir r : Text) (update : Bool) (r0 r1 : FilesResult) (x : Text × Bool)
    (h : filesInner o [p] [] r update dir (some r0) x = some r1) :
    r1.used = r0.used ++ (if candM x && (fpJoin [dir, x.1] == p) then [fpJoin [dir, x.1]] else []) := by
  unfold filesInner at h
  unfold candM
  simp only [List.contains_cons, List.contains_nil, Bool.or_false] at h
  cases h1 : (x.2 || !containsSub x.1 Generated.snapsExt) with
  | true =>
    simp only [h1, ↓reduceIte, Option.some.injEq] at h
    subst h; simp
  | false =>
    cases h2 : (fpJoin [dir, x.1] == p) with
    | true =>
      simp only [h1, h2, Bool.false_eq_true, ↓reduceIte, Option.some.injEq] at h
      subst h; simp
    | false =>
      simp only [h1, h2, Bool.false_eq_true, ↓reduceIte] at h
      cases hs : isFileSkipped o dir x.1 r with
      | none => rw [hs] at h; cases h
      | some b =>
        rw [hs] at h
        cases b <;> cases update <;> simp only [Bool.false_eq_true, ↓reduceIte, Option.some.injEq] at h <;>
          subst h <;> simp

/-- which files the inner loop of `examineFiles` hands on as `used` does not depend on the pattern -/
theorem filesInner_fold_used (o : Oracles) (p dir r : Text) (update : Bool) (L : List (Text × Bool)) :
    ∀ r0 fr : FilesResult, L.foldl (filesInner o [p] [] r update dir) (some r0) = some fr →
      fr.used = r0.used ++ filesUsed p dir L := by
  induction L with
  | nil =>
    intro r0 fr h
    simp only [List.foldl_nil, Option.some.injEq] at h
    subst h
    simp [filesUsed]
  | cons x L ih =>
    intro r0 fr h
    rw [List.foldl_cons] at h
    cases hstep : filesInner o [p] [] r update dir (some r0) x with
    | none => rw [hstep, filesInner_fold_none] at h; cases h
    | some r1 =>
      rw [hstep] at h
      rw [ih r1 fr h, filesInner_used o p dir r update r0 r1 x hstep]
      unfold filesUsed
      cases hc : (candM x && (fpJoin [dir, x.1] == p)) <;> simp [hc]

/-- `examineFiles` for one registered path under ANY pattern: the used files are those of `examineFiles_one` -/
theorem examineFiles_run_used (o : Oracles) (fs : FS) (p r : Text) (update : Bool) (fr : FilesResult)
    (h : examineFiles o fs [p] [] r update = some fr) :
    fr.used = filesUsed p (fpDir p) (readDir fs (fpDir p)) := by
  rw [examineFiles_eq] at h
  simp only [List.append_nil, List.map_cons, List.map_nil, dedup_single, sortBytes_single, List.foldl_cons,
    List.foldl_nil] at h
  unfold filesOuter at h
  simp only at h
  have := filesInner_fold_used o p (fpDir p) r update _ _ _ h
  simpa using this

/-- the file loop has a result when the tables classify every entry (`go_ok_of_total`, any pattern) -/
theorem go_ok_of_total_run (o : Oracles) (cleanup : List (RegKey × Nat)) (skipped : List Text) (r : Text)
    (count : Nat) (update sort : Bool) (p : Text) :
    ∀ (used : List Text), (∀ q ∈ used, q = p) →
    ∀ (fs : FS) (obs written : List Text) (es : List Entry),
      CleanFile es → fsRead fs p = some (render es) → (sort = true → TotalOn (es.map tidOf)) →
      (∀ registered, ∀ e ∈ es, Classified o registered skipped r (tidOf e)) →
      ∃ obs' fs' w', examineSnaps.go o cleanup skipped r count update sort used fs obs written =
        .ok obs' fs' w' := by
  intro used
  induction used with
  | nil => intro _ fs obs written es _ _ _ _; exact ⟨_, _, _, examineSnaps_go_nil _ _ _ _ _ _ _ _ _ _⟩
  | cons q rest ih =>
    intro hused fs obs written es hf hread hto hcls
    have hq : q = p := hused q (by simp)
    subst hq
    have hrest : ∀ q' ∈ rest, q' = q := fun q' hq' => hused q' (by simp [hq'])
    obtain ⟨registered, hreg⟩ : ∃ r, registeredFor cleanup q count = some r :=
      occurrences_snapshot_total _ count
    rw [examineSnaps_go_cons_clean o registered skipped r fs cleanup q rest count update sort
      obs written es hf hread hreg (hcls registered)]
    obtain ⟨st, fs1, w1, hco⟩ := cleanOutcome_ok_of_total (keptId o registered skipped r) es q fs update
      sort hto
    rw [hco]
    simp only
    obtain ⟨_, hfs⟩ := cleanOutcome_ok _ es q fs update sort st fs1 w1 hco
    rcases hfs with ⟨rfl, rfl⟩ | ⟨ids', hperm, rfl, rfl⟩
    · exact ih hrest fs1 _ _ es hf hread hto hcls
    · obtain ⟨hf2, hsub⟩ := cleanFile_reorder es hf
        (fun e => keptId o registered skipped r (tidOf e) || !update) ids' hperm
      refine ih hrest _ _ _ _ hf2 (fsRead_fsWrite _ _ _) (fun hs => (hto hs).mono ?_)
        (fun reg e he => hcls reg e (hsub e he).1)
      intro x hx
      obtain ⟨e, he, rfl⟩ := List.mem_map.mp hx
      exact List.mem_map.mpr ⟨e, (hsub e he).1, rfl⟩

/-- **the model covers `Clean` under a `-run` filter** with the tables `cleanOracles` (hypotheses of
    `clean_supported_noRun`) -/
theorem clean_supported_run (parseFile : Text → List GoDecl × Err) (re : Text → Text → Bool × Bool)
    (r : Text) (hr : r ≠ []) (w : World) (sortOpt : Bool) (count : Nat) (p : Text)
    (es : List Entry) (hcnt : count > 0)
    (hkeys : ∀ kv ∈ w.cleanup, kv.1.1 = p) (hs : w.scleanup = [])
    (hf : CleanFile es) (hfile : Holds w.fs p es) (hex : w.cleanup ≠ [] → fsRead w.fs p ≠ none)
    (hto : sortOpt = true → TotalOn (es.map tidOf)) :
    (clean (cleanOracles parseFile re r w.fs (fpDir p) es) w sortOpt r count).2.unsupported = none := by
  have hocc : occurrences w.scleanup count standaloneOccFmt = some [] := by rw [hs]; rfl
  obtain ⟨fr, hfiles⟩ := examineFiles_run_some parseFile re r hr w p es hkeys
    (Generated.cleanFilesUpdate w.env sortOpt)
  have hused : ∀ q ∈ fr.used, q = p := used_all_p _ w p hkeys [] r _ fr hfiles
  have hnrem : p ∉ fr.removed := regPath_not_removed _ w p hkeys r _ fr hfiles
  have hframe := (C09.examineFiles_untouched _ _ _ _ _ _ _ hfiles).2.2.2
  have hsn : ∃ obsT fs wr, examineSnaps (cleanOracles parseFile re r w.fs (fpDir p) es) fr.fs w.cleanup
      w.skipped fr.used r count
      (Generated.cleanSnapsUpdate w.env sortOpt) (Generated.cleanSnapsSort w.env sortOpt) = .ok obsT fs wr := by
    by_cases hu : fr.used = []
    · rw [hu]; exact ⟨_, _, _, rfl⟩
    · have hne : w.cleanup ≠ [] := by
        intro h0
        obtain ⟨q, hq⟩ := List.exists_mem_of_ne_nil _ hu
        have := examineFiles_used_sub _ _ _ _ _ _ _ hfiles q hq
        unfold cleanRegPaths at this
        rw [h0] at this
        exact absurd (mem_dedup _ _ this) (by simp)
      have hread : fsRead fr.fs p = some (render es) := by
        rw [hframe p hnrem]
        rcases hfile with h1 | ⟨h1, _⟩
        · exact h1
        · exact absurd h1 (hex hne)
      refine go_ok_of_total_run _ w.cleanup w.skipped r count _ _ p fr.used hused fr.fs [] [] es hf hread ?_
        (fun reg e he => classified_of_reMatch _ reg w.skipped r _ _
          (cleanOracles_entry parseFile re r w.fs (fpDir p) es hr e he))
      intro hsort
      apply hto
      unfold Generated.cleanSnapsSort at hsort
      simp only [Bool.and_eq_true] at hsort
      exact hsort.1
  obtain ⟨obsT, fs, wr, hsn⟩ := hsn
  exact (clean_of_stages _ w sortOpt r count (by omega) [] fr obsT fs wr hocc hfiles hsn).supported

/-- **`clean_keeps_kept` under a `-run` filter**: what survives is what is registered, skip-protected, or has
    an id the pattern does not match -/
theorem clean_keeps_kept_run (parseFile : Text → List GoDecl × Err) (re : Text → Text → Bool × Bool)
    (r : Text) (hr : r ≠ []) (w : World) (sortOpt : Bool) (count : Nat) (p : Text)
    (es must : List Entry)
    (hkeys : ∀ kv ∈ w.cleanup, kv.1.1 = p) (hs : w.scleanup = [])
    (hcov : ∀ e ∈ must,
      (∃ t k n, e.id = testID t k ∧ 1 ≤ k ∧ k ≤ n / count ∧ ((p, t), n) ∈ w.cleanup) ∨
      C08.Protected w.skipped (tidOf e) ∨ (re r (tidOf e)).1 = false)
    (hf : CleanFile es) (hfile : Holds w.fs p es) (hall : ∀ e ∈ must, e ∈ es)
    (sa : List Text) (fr : FilesResult) (obsT : List Text) (fs : FS) (wr : List Text)
    (run : CleanRun (cleanOracles parseFile re r w.fs (fpDir p) es) w sortOpt r count sa fr obsT fs wr) :
    p ∉ fr.removed ∧ (∀ e ∈ must, tidOf e ∉ obsT) ∧
    (∃ es', CleanFile es' ∧ Holds fs p es' ∧ (∀ e ∈ must, e ∈ es') ∧ (∀ e ∈ es', e ∈ es)) ∧
    (∀ q, q ≠ p → q ∉ fr.removed → fsRead fs q = fsRead w.fs q) := by
  have hsa : sa = [] := by
    have := run.occ
    rw [hs, occurrences_nil] at this
    exact (Option.some.inj this).symm
  subst hsa
  have hused : ∀ q ∈ fr.used, q = p := used_all_p _ w p hkeys [] r _ fr run.files
  have hnrem : p ∉ fr.removed := regPath_not_removed _ w p hkeys r _ fr run.files
  have hframe := (C09.examineFiles_untouched _ _ _ _ _ _ _ run.files).2.2.2
  have hfile1 : Holds fr.fs p es := holds_congr (hframe p hnrem) hfile
  obtain ⟨registered, hreg⟩ : ∃ r, registeredFor w.cleanup p count = some r :=
    occurrences_snapshot_total _ count
  have hK : ∀ e ∈ must, keptId (cleanOracles parseFile re r w.fs (fpDir p) es) registered w.skipped r
      (tidOf e) = true := by
    intro e he
    rcases hcov e he with ⟨t, k, n, hid, hk1, hk2, hm⟩ | hp | hno
    · have hmem : (t, n) ∈ (w.cleanup.filter (·.1.1 = p)).map (fun (k, n) => (k.2, n)) :=
        List.mem_map.mpr ⟨((p, t), n), List.mem_filter.mpr ⟨hm, by simp⟩, rfl⟩
      obtain ⟨x, hx, hxm⟩ := C07.occurrences_cover_div _ count snapshotOccFmt registered t n hmem hreg k hk1 hk2
      rw [snapshotOccFmt_eq] at hx
      cases hx
      rw [tidOf_of_id hid]
      have hc : registered.contains (t ++ [32, 45, 32] ++ natToText k) = true := by simpa using hxm
      unfold keptId
      rw [hc]
      rfl
    · exact C08.protected_kept _ registered w.skipped r _ hp
    · rw [keptId_run _ registered w.skipped r _ _
        (cleanOracles_entry parseFile re r w.fs (fpDir p) es hr e (hall e he)), hno]
      simp
  obtain ⟨es', h1, h2, h3, h4, h5, h6⟩ := go_keeps_kept _ w.cleanup w.skipped r count _ _ p registered hreg
    must hK fr.used hused fr.fs [] [] es hf hfile1
    (fun e he => classified_of_reMatch _ registered w.skipped r _ _
      (cleanOracles_entry parseFile re r w.fs (fpDir p) es hr e he)) hall
    (fun _ _ h => by cases h) obsT fs wr run.snaps
  refine ⟨hnrem, h5, ⟨es', h1, h2, h3, h4⟩, ?_⟩
  intro q hq hqr
  rw [h6 q hq, hframe q hqr]

end RunFilter

end GoSnaps.SkipHist
