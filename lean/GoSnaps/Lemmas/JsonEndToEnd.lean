/-
Helper lemmas for Props/Tie/JsonEndToEnd.lean: the byte-level model of gjson / sjson (`jsonGet`, `jsonSet`,
GoSnaps/JsonPath.lean) ANSWERS on every valid document and every `#`-free path that the component-by-component
lookup finds (Lemmas/JsonPath.lean proves what the answer is WHEN there is one: `splice_parse`,
`jsonSet_parse_partial`; here: that there is one).

  §1  the offset table exists for every text that tokenises; the byte range of every existing position exists
  §2  `covers` for `#`-free paths without `|`; positions found by `locS`
  §3  `jsonSet_of_locS`, `jsonGet_of_locS`, `jsonGet_of_locS_none`
  §4  `locS_replaceAt_other`: a target survives a replacement that is not at or above it
  §5  C16's `masked_irrelevant` / `unmasked_relevant` for a list of (path, value) pairs — a placeholder per path, as a
      sequence of matchers writes them (`C16.maskEach`), relative to the same contract `C16.LensSpec`
-/
import GoSnaps.Lemmas.JsonPath
import GoSnaps.Props.C16
namespace GoSnaps.JsonPath
open GoSnaps GoSnaps.Json

/-! ## 1. offsets -/

/-- the tokeniser with offsets answers whenever the tokeniser does, with the same tokens -/
theorem ptokensAux_of_tokensAux : ∀ (n : Nat) (s : Text) (ts : List Tok), tokensAux n s = some ts →
    ∀ off, ∃ pt, ptokensAux n off s = some pt ∧ pt.map (·.1) = ts
  | 0, _, _, h, _ => by simp [tokensAux] at h
  | n + 1, s, ts, h, off => by
    rw [tokensAux] at h
    rw [ptokensAux]
    cases hq : skipWs s with
    | nil =>
      rw [hq] at h
      simp only [Option.some.injEq] at h
      subst h
      exact ⟨[], rfl, rfl⟩
    | cons c r =>
      rw [hq] at h
      simp only at h ⊢
      cases hp : nextTok (c :: r) with
      | none => rw [hp] at h; cases h
      | some p =>
        rw [hp] at h
        simp only at h ⊢
        cases hr : tokensAux n p.2 with
        | none => rw [hr] at h; cases h
        | some ts1 =>
          rw [hr] at h
          simp only [Option.map_some, Option.some.injEq] at h
          subst h
          obtain ⟨pt1, h1, h2⟩ := ptokensAux_of_tokensAux n p.2 ts1 hr (off + wsCount s + tokLen p.1)
          exact ⟨_, by rw [h1]; rfl, by simp [h2]⟩

theorem ptokens_of_parse {doc : Text} {d : JV} (h : parse doc = some d) :
    ∃ pt, ptokens doc = some pt ∧ pt.map (·.1) = toks d :=
  ptokensAux_of_tokensAux _ doc _ (parse_tokens h) 0

/-- an existing position has a first token -/
theorem tokStart_of_getAt : ∀ (pos : Pos) (d : JV), getAt d pos ≠ none → ∃ k, tokStart d pos = some k
  | [], d, _ => ⟨0, by cases d <;> rfl⟩
  | i :: p, d, h => by
    cases d with
    | arr xs =>
      cases hx : xs[i]? with
      | none => rw [getAt_arr_none hx] at h; exact absurd rfl h
      | some x =>
        rw [getAt_arr_some hx] at h
        obtain ⟨k, hk⟩ := tokStart_of_getAt p x h
        exact ⟨_, by simp only [tokStart, hx, Option.bind_some, hk, Option.map_some]; rfl⟩
    | obj ms =>
      cases hx : ms[i]? with
      | none => rw [getAt_obj_none hx] at h; exact absurd rfl h
      | some m =>
        rw [getAt_obj_some hx] at h
        obtain ⟨k, hk⟩ := tokStart_of_getAt p m.2 h
        exact ⟨_, by simp only [tokStart, hx, Option.bind_some, hk, Option.map_some]; rfl⟩
    | str _ => exact absurd rfl h
    | num _ => exact absurd rfl h
    | tru => exact absurd rfl h
    | fls => exact absurd rfl h
    | nul => exact absurd rfl h

/-- **the byte range of every existing position exists** -/
theorem spanAt_of_getAt (pt : List (Tok × Nat × Nat)) (d : JV) (pos : Pos) (hmap : pt.map (·.1) = toks d)
    (h : getAt d pos ≠ none) : ∃ ab, spanAt pt d pos = some ab := by
  obtain ⟨k, hk⟩ := tokStart_of_getAt pos d h
  cases hg : getAt d pos with
  | none => exact absurd hg h
  | some sub =>
    obtain ⟨A, B, eT, lA, _, _, _⟩ := toks_splice pos d k sub hk hg
    have hn := ntoks_pos sub
    have hlen : pt.length = A.length + ntoks sub + B.length := by
      have := congrArg List.length hmap
      rw [eT] at this
      simp [ntoks] at this ⊢; omega
    have h1 : k < pt.length := by omega
    have h2 : k + ntoks sub - 1 < pt.length := by omega
    unfold spanAt
    rw [hk, hg]
    simp only
    rw [List.getElem?_eq_getElem h1, List.getElem?_eq_getElem h2]
    exact ⟨_, rfl⟩

/-! ## 2. `covers`; the positions `locS` finds -/

/-- no component of the path contains `|` (gjson's `parseArrayPath` does not know escapes: JsonPath.lean,
`eachClean`) -/
def nopipe (p : Path) : Bool :=
  p.all fun c => match c with
    | .key k _ => !k.any (· == 124)
    | .each => true

theorem eachClean_plain : ∀ (p : Path) (d : JV), plain p = true → nopipe p = true → eachClean p d = true
  | [], d, _, _ => by cases d <;> rfl
  | c :: rest, d, hp, hn => by
    obtain ⟨hc, hp'⟩ := (plain_cons c rest).mp hp
    have hn' : nopipe rest = true := by
      simp only [nopipe, List.all_cons, Bool.and_eq_true] at hn ⊢
      exact hn.2
    cases d with
    | obj ms =>
      simp only [eachClean, List.all_eq_true]
      intro m _
      rw [eachClean_plain rest m.2 hp' hn']
      simp
    | arr xs =>
      cases c with
      | each => cases hc
      | key k esc =>
        have hk : k.any (· == 124) = false := by
          simp only [nopipe, List.all_cons, Bool.and_eq_true] at hn
          simpa using hn.1
        simp only [eachClean, hk, Bool.false_eq_true, ↓reduceIte]
        cases idxOf k esc with
        | none => rfl
        | some i =>
          simp only
          cases hx : xs[i]? with
          | none => rfl
          | some x => exact eachClean_plain rest x hp' hn'
    | str _ => cases c <;> rfl
    | num _ => cases c <;> rfl
    | tru => cases c <;> rfl
    | fls => cases c <;> rfl
    | nul => cases c <;> rfl

/-- what `locS` finds exists -/
theorem getAt_of_locS : ∀ (p : Path) (d : JV) (pos : Pos), locS p d = some pos → getAt d pos ≠ none
  | [], d, pos, h => by
    have : pos = [] := by cases d <;> simpa [locS] using h.symm
    subst this; simp
  | c :: rest, d, pos, h => by
    cases d with
    | obj ms =>
      rw [locS_obj] at h
      cases hj : nameIdx (compName c) ms with
      | none => simp [nameIdx, hj] at h
      | some j =>
        cases hm : ms[j]? with
        | none => simp [nameIdx, hj, hm] at h
        | some m =>
          cases hl : locS rest m.2 with
          | none => simp [nameIdx, hj, hm, hl] at h
          | some q =>
            simp only [nameIdx, hj, hm, hl, Option.bind_some, Option.map_some, Option.some.injEq] at h
            subst h
            rw [getAt_obj_some hm]
            exact getAt_of_locS rest m.2 q hl
    | arr xs =>
      cases c with
      | each => simp [locS_arr_each] at h
      | key k esc =>
        rw [locS_arr] at h
        cases hi : idxOf k esc with
        | none => simp [hi] at h
        | some i =>
          cases hx : xs[i]? with
          | none => simp [hi, hx] at h
          | some x =>
            cases hl : locS rest x with
            | none => simp [hi, hx, hl] at h
            | some q =>
              simp only [hi, hx, hl, Option.bind_some, Option.map_some, Option.some.injEq] at h
              subst h
              rw [getAt_arr_some hx]
              exact getAt_of_locS rest x q hl
    | str _ => rw [locS_scalar _ _ _ rfl] at h; cases h
    | num _ => rw [locS_scalar _ _ _ rfl] at h; cases h
    | tru => rw [locS_scalar _ _ _ rfl] at h; cases h
    | fls => rw [locS_scalar _ _ _ rfl] at h; cases h
    | nul => rw [locS_scalar _ _ _ rfl] at h; cases h

/-- a non-empty path is found in containers only; the root is then no string -/
theorem strBracket_of_locS (c : Comp) (rest : Path) (d : JV) (pos : Pos) (h : locS (c :: rest) d = some pos) :
    strBracket d = false := by
  cases d with
  | str _ => rw [locS_scalar _ _ _ rfl] at h; cases h
  | _ => rfl

theorem covers_of_locS (p : Path) (d : JV) (pos : Pos) (hne : p ≠ []) (hp : plain p = true) (hn : nopipe p = true)
    (h : locS p d = some pos) : covers d p = true := by
  cases p with
  | nil => exact absurd rfl hne
  | cons c rest =>
    unfold covers
    rw [strBracket_of_locS c rest d pos h, eachClean_plain _ d hp hn]
    rfl


/-! ## 3. the byte-level model answers on every path the stepwise lookup finds -/

theorem parsePath_ne_nil' {s : Text} {p : Path} (h : parsePath s = some p) : p ≠ [] := parsePath_ne_nil s p h

/-- all three routes of sjson write where the stepwise lookup points, when it finds the path — every document -/
theorem setLocO_of_locS (opt : Bool) (d : JV) (p : Path) (pos : Pos) (hp : plain p = true) (h : locS p d = some pos) :
    setLocO opt d p = some (.one pos) := by
  unfold setLocO
  rw [loc_of_locS p d pos h, h, hp]
  simp

/-- **`jsonSet` answers**: valid document, valid value, a `#`-free path without `|` that the stepwise lookup
finds: the result is the splice of the value into the byte range of the target, and parses to the tree with the
subtree at the target position replaced.  No hypothesis on duplicate names. -/
theorem jsonSet_of_locS (doc path val : Text) (p : Path) (d w : JV) (pos : Pos)
    (hpp : parsePath path = some p) (hp : plain p = true) (hn : nopipe p = true)
    (hd : parse doc = some d) (hv : parse val = some w) (hl : locS p d = some pos) :
    ∃ ab d', jsonSet doc path val = some (splice doc ab val) ∧ replaceAt d pos w = some d' ∧
      parse (splice doc ab val) = some d' := by
  obtain ⟨pt, hpt, hmap⟩ := ptokens_of_parse hd
  have hg := getAt_of_locS p d pos hl
  obtain ⟨ab, hab⟩ := spanAt_of_getAt pt d pos hmap hg
  obtain ⟨d', hd'⟩ := replaceAt_some_of_getAt w hg
  refine ⟨ab, d', ?_, hd', splice_parse doc d pt pos ab val w d' hd hpt hab hv hd'⟩
  unfold jsonSet
  rw [hpp, hd, hv]
  simp only [covers_of_locS p d pos (parsePath_ne_nil' hpp) hp hn hl, ↓reduceIte]
  unfold setB
  rw [hpt, setLocO_of_locS _ d p pos hp hl]
  simp [Loc.list, hab]

/-- **`jsonGet` answers** on the same inputs: the path exists, `Raw` is the byte range of the target -/
theorem jsonGet_of_locS (doc path : Text) (p : Path) (d : JV) (pos : Pos)
    (hpp : parsePath path = some p) (hp : plain p = true) (hn : nopipe p = true)
    (hd : parse doc = some d) (hl : locS p d = some pos) :
    ∃ ab, jsonGet doc path = some (some (slice doc ab, [ab.1])) := by
  obtain ⟨pt, hpt, hmap⟩ := ptokens_of_parse hd
  have hg := getAt_of_locS p d pos hl
  obtain ⟨ab, hab⟩ := spanAt_of_getAt pt d pos hmap hg
  refine ⟨ab, ?_⟩
  unfold jsonGet
  rw [hpp, hd]
  simp only [covers_of_locS p d pos (parsePath_ne_nil' hpp) hp hn hl, ↓reduceIte]
  unfold getB
  rw [hpt, loc_of_locS p d pos hl]
  simp [hab]

/-- a path gjson does not find: `Exists()` is false -/
theorem jsonGet_of_loc_none (doc path : Text) (p : Path) (d : JV)
    (hpp : parsePath path = some p) (hd : parse doc = some d) (hc : covers d p = true) (hl : loc p d = none) :
    jsonGet doc path = some none := by
  obtain ⟨pt, hpt, _⟩ := ptokens_of_parse hd
  unfold jsonGet
  rw [hpp, hd]
  simp only [hc, ↓reduceIte]
  unfold getB
  rw [hpt, hl]


/-! ## 4. a target survives a replacement that is not at or above it -/

theorem not_prefix_cons {i : Nat} {r q : Pos} (h : ¬ (i :: r) <+: (i :: q)) : ¬ r <+: q := by
  intro ⟨t, ht⟩
  exact h ⟨t, by simp [ht]⟩

/-- **the stepwise lookup still finds the path, at the same position**, after the subtree at a position that is
not at or above the target has been replaced (beside it, or below it) — every document -/
theorem locS_replaceAt_other : ∀ (p : Path) (d d' w : JV) (pos pos1 : Pos), locS p d = some pos →
    replaceAt d pos1 w = some d' → ¬ pos1 <+: pos → locS p d' = some pos
  | [], d, d', w, pos, pos1, h, _, _ => by
    have : pos = [] := by cases d <;> simpa [locS] using h.symm
    subst this
    cases d' <;> rfl
  | c :: rest, d, d', w, pos, pos1, h, hr, hn => by
    cases pos1 with
    | nil => exact absurd (List.nil_prefix) hn
    | cons i r =>
      rcases replaceAt_cons_inv hr with ⟨xs, x, x', rfl, hx, hr', rfl⟩ | ⟨ms, m, x', rfl, hx, hr', rfl⟩
      · cases c with
        | each => simp [locS_arr_each] at h
        | key k esc =>
          rw [locS_arr] at h ⊢
          cases hi : idxOf k esc with
          | none => simp [hi] at h
          | some j =>
            cases hxj : xs[j]? with
            | none => simp [hi, hxj] at h
            | some y =>
              cases hl : locS rest y with
              | none => simp [hi, hxj, hl] at h
              | some q =>
                simp only [hi, hxj, hl, Option.bind_some, Option.map_some, Option.some.injEq] at h
                subst h
                by_cases hij : i = j
                · subst hij
                  rw [hx] at hxj
                  cases hxj
                  have hlt := lt_of_getElem?_some hx
                  simp only [Option.bind_some, List.getElem?_set_self hlt, Option.map_eq_some_iff]
                  exact ⟨q, locS_replaceAt_other rest x x' w q r hl hr' (not_prefix_cons hn), rfl⟩
                · simp only [Option.bind_some, List.getElem?_set_ne hij, hxj, hl, Option.map_some]
      · rw [locS_obj] at h ⊢
        obtain ⟨k0, v0⟩ := m
        rw [nameIdx_set (compName c) ms i k0 v0 x' hx]
        cases hj : nameIdx (compName c) ms with
        | none => simp [nameIdx, hj] at h
        | some j =>
          cases hm : ms[j]? with
          | none => simp [nameIdx, hj, hm] at h
          | some m' =>
            cases hl : locS rest m'.2 with
            | none => simp [nameIdx, hj, hm, hl] at h
            | some q =>
              simp only [nameIdx, hj, hm, hl, Option.bind_some, Option.map_some, Option.some.injEq] at h
              subst h
              by_cases hij : i = j
              · subst hij
                rw [hx] at hm
                cases hm
                have hlt := lt_of_getElem?_some hx
                simp only [Option.bind_some, List.getElem?_set_self hlt, Option.map_eq_some_iff]
                exact ⟨q, locS_replaceAt_other rest v0 x' w q r hl hr' (not_prefix_cons hn), rfl⟩
              · simp only [Option.bind_some, List.getElem?_set_ne hij, hm, hl, Option.map_some]

end GoSnaps.JsonPath

/-! ## 5. C16's abstract loop with one value per path -/

namespace GoSnaps.C16
section Each
variable {Doc Path Val : Type} {get : Doc → Path → Option Val} {set : Doc → Path → Val → Doc}
  {Disj : Path → Path → Prop} {overlap : Path → Path → Val → Option Val}

/-- a sequence of `match.Any` matchers, flattened: for each (path, placeholder), in order, replace the value at
the path (`C16.mask set M ph` is the case of one placeholder: `mask_eq_maskEach`) -/
def maskEach (set : Doc → Path → Val → Doc) (M : List (Path × Val)) (d : Doc) : Doc :=
  M.foldl (fun d pv => set d pv.1 pv.2) d

theorem mask_eq_maskEach (set : Doc → Path → Val → Doc) (M : List Path) (ph : Val) (d : Doc) :
    mask set M ph d = maskEach set (M.map fun p => (p, ph)) d := by
  unfold mask maskEach
  rw [List.foldl_map]

theorem maskEach_append (set : Doc → Path → Val → Doc) (M N : List (Path × Val)) (d : Doc) :
    maskEach set (M ++ N) d = maskEach set N (maskEach set M d) := by
  unfold maskEach
  rw [List.foldl_append]

/-- a path disjoint from every written path is observed unchanged -/
theorem get_maskEach_disj (h : LensSpec get set Disj overlap) (M : List (Path × Val)) (d : Doc) (q : Path)
    (hq : ∀ pv ∈ M, Disj pv.1 q) : get (maskEach set M d) q = get d q := by
  induction M generalizing d with
  | nil => rfl
  | cons pv M ih =>
    show get (maskEach set M (set d pv.1 pv.2)) q = get d q
    rw [ih _ (fun p' hp' => hq p' (by simp [hp'])), h.get_set_other d pv.1 q pv.2 (hq pv (by simp))]

/-- **masked_irrelevant, one value per path**: two documents that agree on every path disjoint from the written
paths (no earlier one at or above a later one, all present in both) are the SAME document after the writes -/
theorem masked_irrelevant_each (h : LensSpec get set Disj overlap) (M : List (Path × Val)) (a b : Doc)
    (hM : (M.map (·.1)).Pairwise Disj)
    (hpa : ∀ pv ∈ M, get a pv.1 ≠ none) (hpb : ∀ pv ∈ M, get b pv.1 ≠ none)
    (hag : ∀ q, (∀ pv ∈ M, Disj pv.1 q) → get a q = get b q) :
    maskEach set M a = maskEach set M b := by
  induction M generalizing a b with
  | nil => exact h.ext a b (fun q => hag q (by simp))
  | cons pv M ih =>
    show maskEach set M (set a pv.1 pv.2) = maskEach set M (set b pv.1 pv.2)
    rw [List.map_cons] at hM
    obtain ⟨hp, hM'⟩ := List.pairwise_cons.mp hM
    have hp' : ∀ pv' ∈ M, Disj pv.1 pv'.1 := fun pv' hm => hp pv'.1 (List.mem_map_of_mem hm)
    apply ih _ _ hM'
    · intro p' hm
      rw [h.get_set_other a pv.1 p'.1 pv.2 (hp' p' hm)]; exact hpa p' (by simp [hm])
    · intro p' hm
      rw [h.get_set_other b pv.1 p'.1 pv.2 (hp' p' hm)]; exact hpb p' (by simp [hm])
    · intro q hq
      by_cases hd : Disj pv.1 q
      · rw [h.get_set_other a pv.1 q pv.2 hd, h.get_set_other b pv.1 q pv.2 hd]
        apply hag
        intro p' hm
        rcases List.mem_cons.mp hm with rfl | hm
        · exact hd
        · exact hq p' hm
      · rw [h.get_set_overlap a pv.1 q pv.2 hd (hpa pv (by simp)),
          h.get_set_overlap b pv.1 q pv.2 hd (hpb pv (by simp))]

/-- **unmasked_relevant, one value per path** — the two documents may be written at DIFFERENT paths (`M`, `N`): a
difference at a path disjoint from all of them survives -/
theorem unmasked_relevant_each (h : LensSpec get set Disj overlap) (M N : List (Path × Val)) (a b : Doc)
    (q : Path) (hqa : ∀ pv ∈ M, Disj pv.1 q) (hqb : ∀ pv ∈ N, Disj pv.1 q) (hne : get a q ≠ get b q) :
    maskEach set M a ≠ maskEach set N b := by
  intro e
  apply hne
  rw [← get_maskEach_disj h M a q hqa, ← get_maskEach_disj h N b q hqb, e]

end Each
end GoSnaps.C16
