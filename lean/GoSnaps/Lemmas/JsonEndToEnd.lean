/-
Helper lemmas for Props/Tie/JsonEndToEnd.lean: the byte-level model of gjson / sjson (`jsonGet`, `jsonSet`,
GoSnaps/JsonPath.lean) ANSWERS on every valid document and every `#`-free path that the component-by-component
lookup finds (Lemmas/JsonPath.lean proves what the answer is WHEN there is one: `splice_parse`,
`jsonSet_parse_partial`; here: that there is one).

  §1  the offset table exists for every text that tokenises; the byte range of every existing position exists
  §2  `covers` for `#`-free paths without `|` (`nopipe`, `eachClean_plain`); what `locS` finds exists
  §3  `jsonSet_of_locS`, `jsonGet_of_locS`, `jsonGet_of_loc_none`
  §4  `locS_replaceAt_other`: a target survives a replacement that is not at or above it
  §4b `locS_agree`: the stepwise lookup reads the labels above the target only
  §4c `slice_kind`, `jsonGet_of_locS_kind`: the first byte of the raw text gjson reports tells the kind (Go dynamic type)
  §4d `getS_permV`: text paths do not observe member order (trees without duplicate names)
  §5  C16's `masked_irrelevant` / `unmasked_relevant` for a list of (path, value) pairs — a placeholder per path, as a
      sequence of matchers writes them (`C16.maskEach`), relative to the same contract `C16.LensSpec`
-/
import GoSnaps.Lemmas.JsonPath
import GoSnaps.Props.C16
import GoSnaps.Props.C14Json
namespace GoSnaps.JsonPath
open GoSnaps GoSnaps.Json

/-! ## 1. offsets -/

/-- the tokeniser with offsets answers whenever the tokeniser does, with the same tokens -/
theorem ptokensAux_of_tokensAux : ∀ (n : Nat) (s : Text) (ts : List Tok), tokensAux n s = some ts →
    ∀ off, ∃ pt, ptokensAux n off s = some pt ∧ pt.map (·.1) = ts
  | 0, _, _, h, _ => by simp [tokensAux] at h
  | n + 1, s, ts, h, off => by
    rw [tokensAux] at h
    rw [ptokensAux]
    cases hq : skipWs s with
    | nil =>
      rw [hq] at h
      simp only [Option.some.injEq] at h
      subst h
      exact ⟨[], rfl, rfl⟩
    | cons c r =>
      rw [hq] at h
      simp only at h ⊢
      cases hp : nextTok (c :: r) with
      | none => rw [hp] at h; cases h
      | some p =>
        rw [hp] at h
        simp only at h ⊢
        cases hr : tokensAux n p.2 with
        | none => rw [hr] at h; cases h
        | some ts1 =>
          rw [hr] at h
          simp only [Option.map_some, Option.some.injEq] at h
          subst h
          obtain ⟨pt1, h1, h2⟩ := ptokensAux_of_tokensAux n p.2 ts1 hr (off + wsCount s + tokLen p.1)
          exact ⟨_, by rw [h1]; rfl, by simp [h2]⟩

theorem ptokens_of_parse {doc : Text} {d : JV} (h : parse doc = some d) :
    ∃ pt, ptokens doc = some pt ∧ pt.map (·.1) = toks d :=
  ptokensAux_of_tokensAux _ doc _ (parse_tokens h) 0

/-- an existing position has a first token -/
theorem tokStart_of_getAt : ∀ (pos : Pos) (d : JV), getAt d pos ≠ none → ∃ k, tokStart d pos = some k
  | [], d, _ => ⟨0, by cases d <;> rfl⟩
  | i :: p, d, h => by
    cases d with
    | arr xs =>
      cases hx : xs[i]? with
      | none => rw [getAt_arr_none hx] at h; exact absurd rfl h
      | some x =>
        rw [getAt_arr_some hx] at h
        obtain ⟨k, hk⟩ := tokStart_of_getAt p x h
        exact ⟨_, by simp only [tokStart, hx, Option.bind_some, hk, Option.map_some]; rfl⟩
    | obj ms =>
      cases hx : ms[i]? with
      | none => rw [getAt_obj_none hx] at h; exact absurd rfl h
      | some m =>
        rw [getAt_obj_some hx] at h
        obtain ⟨k, hk⟩ := tokStart_of_getAt p m.2 h
        exact ⟨_, by simp only [tokStart, hx, Option.bind_some, hk, Option.map_some]; rfl⟩
    | str _ => exact absurd rfl h
    | num _ => exact absurd rfl h
    | tru => exact absurd rfl h
    | fls => exact absurd rfl h
    | nul => exact absurd rfl h

/-- **the byte range of every existing position exists** -/
theorem spanAt_of_getAt (pt : List (Tok × Nat × Nat)) (d : JV) (pos : Pos) (hmap : pt.map (·.1) = toks d)
    (h : getAt d pos ≠ none) : ∃ ab, spanAt pt d pos = some ab := by
  obtain ⟨k, hk⟩ := tokStart_of_getAt pos d h
  cases hg : getAt d pos with
  | none => exact absurd hg h
  | some sub =>
    obtain ⟨A, B, eT, lA, _, _, _⟩ := toks_splice pos d k sub hk hg
    have hn := ntoks_pos sub
    have hlen : pt.length = A.length + ntoks sub + B.length := by
      have := congrArg List.length hmap
      rw [eT] at this
      simp [ntoks] at this ⊢; omega
    have h1 : k < pt.length := by omega
    have h2 : k + ntoks sub - 1 < pt.length := by omega
    unfold spanAt
    rw [hk, hg]
    simp only
    rw [List.getElem?_eq_getElem h1, List.getElem?_eq_getElem h2]
    exact ⟨_, rfl⟩

/-! ## 2. `covers`; the positions `locS` finds -/

/-- no component of the path contains `|` (gjson's `parseArrayPath` does not know escapes: JsonPath.lean,
`eachClean`) -/
def nopipe (p : Path) : Bool :=
  p.all fun c => match c with
    | .key k _ => !k.any (· == 124)
    | .each => true

theorem eachClean_plain : ∀ (p : Path) (d : JV), plain p = true → nopipe p = true → eachClean p d = true
  | [], d, _, _ => by cases d <;> rfl
  | c :: rest, d, hp, hn => by
    obtain ⟨hc, hp'⟩ := (plain_cons c rest).mp hp
    have hn' : nopipe rest = true := by
      simp only [nopipe, List.all_cons, Bool.and_eq_true] at hn ⊢
      exact hn.2
    cases d with
    | obj ms =>
      simp only [eachClean, List.all_eq_true]
      intro m _
      rw [eachClean_plain rest m.2 hp' hn']
      simp
    | arr xs =>
      cases c with
      | each => cases hc
      | key k esc =>
        have hk : k.any (· == 124) = false := by
          simp only [nopipe, List.all_cons, Bool.and_eq_true] at hn
          simpa using hn.1
        simp only [eachClean, hk, Bool.false_eq_true, ↓reduceIte]
        cases idxOf k esc with
        | none => rfl
        | some i =>
          simp only
          cases hx : xs[i]? with
          | none => rfl
          | some x => exact eachClean_plain rest x hp' hn'
    | str _ => cases c <;> rfl
    | num _ => cases c <;> rfl
    | tru => cases c <;> rfl
    | fls => cases c <;> rfl
    | nul => cases c <;> rfl

/-- what `locS` finds exists -/
theorem getAt_of_locS : ∀ (p : Path) (d : JV) (pos : Pos), locS p d = some pos → getAt d pos ≠ none
  | [], d, pos, h => by
    have : pos = [] := by cases d <;> simpa [locS] using h.symm
    subst this; simp
  | c :: rest, d, pos, h => by
    cases d with
    | obj ms =>
      rw [locS_obj] at h
      cases hj : nameIdx (compName c) ms with
      | none => simp [nameIdx, hj] at h
      | some j =>
        cases hm : ms[j]? with
        | none => simp [nameIdx, hj, hm] at h
        | some m =>
          cases hl : locS rest m.2 with
          | none => simp [nameIdx, hj, hm, hl] at h
          | some q =>
            simp only [nameIdx, hj, hm, hl, Option.bind_some, Option.map_some, Option.some.injEq] at h
            subst h
            rw [getAt_obj_some hm]
            exact getAt_of_locS rest m.2 q hl
    | arr xs =>
      cases c with
      | each => simp [locS_arr_each] at h
      | key k esc =>
        rw [locS_arr] at h
        cases hi : idxOf k esc with
        | none => simp [hi] at h
        | some i =>
          cases hx : xs[i]? with
          | none => simp [hi, hx] at h
          | some x =>
            cases hl : locS rest x with
            | none => simp [hi, hx, hl] at h
            | some q =>
              simp only [hi, hx, hl, Option.bind_some, Option.map_some, Option.some.injEq] at h
              subst h
              rw [getAt_arr_some hx]
              exact getAt_of_locS rest x q hl
    | str _ => rw [locS_scalar _ _ _ rfl] at h; cases h
    | num _ => rw [locS_scalar _ _ _ rfl] at h; cases h
    | tru => rw [locS_scalar _ _ _ rfl] at h; cases h
    | fls => rw [locS_scalar _ _ _ rfl] at h; cases h
    | nul => rw [locS_scalar _ _ _ rfl] at h; cases h

/-- a non-empty path is found in containers only; the root is then no string -/
theorem strBracket_of_locS (c : Comp) (rest : Path) (d : JV) (pos : Pos) (h : locS (c :: rest) d = some pos) :
    strBracket d = false := by
  cases d with
  | str _ => rw [locS_scalar _ _ _ rfl] at h; cases h
  | _ => rfl

theorem covers_of_locS (p : Path) (d : JV) (pos : Pos) (hne : p ≠ []) (hp : plain p = true) (hn : nopipe p = true)
    (h : locS p d = some pos) : covers d p = true := by
  cases p with
  | nil => exact absurd rfl hne
  | cons c rest =>
    unfold covers
    rw [strBracket_of_locS c rest d pos h, eachClean_plain _ d hp hn]
    rfl


/-! ## 3. the byte-level model answers on every path the stepwise lookup finds -/

theorem parsePath_ne_nil' {s : Text} {p : Path} (h : parsePath s = some p) : p ≠ [] := parsePath_ne_nil s p h

/-- all three routes of sjson write where the stepwise lookup points, when it finds the path — every document -/
theorem setLocO_of_locS (opt : Bool) (d : JV) (p : Path) (pos : Pos) (hp : plain p = true) (h : locS p d = some pos) :
    setLocO opt d p = some (.one pos) := by
  unfold setLocO
  rw [loc_of_locS p d pos h, h, hp]
  simp

/-- **`jsonSet` answers**: valid document, valid value, a `#`-free path without `|` that the stepwise lookup
finds: the result is the splice of the value into the byte range of the target, and parses to the tree with the
subtree at the target position replaced.  No hypothesis on duplicate names. -/
theorem jsonSet_of_locS (doc path val : Text) (p : Path) (d w : JV) (pos : Pos)
    (hpp : parsePath path = some p) (hp : plain p = true) (hn : nopipe p = true)
    (hd : parse doc = some d) (hv : parse val = some w) (hl : locS p d = some pos) :
    ∃ ab d', jsonSet doc path val = some (splice doc ab val) ∧ replaceAt d pos w = some d' ∧
      parse (splice doc ab val) = some d' := by
  obtain ⟨pt, hpt, hmap⟩ := ptokens_of_parse hd
  have hg := getAt_of_locS p d pos hl
  obtain ⟨ab, hab⟩ := spanAt_of_getAt pt d pos hmap hg
  obtain ⟨d', hd'⟩ := replaceAt_some_of_getAt w hg
  refine ⟨ab, d', ?_, hd', splice_parse doc d pt pos ab val w d' hd hpt hab hv hd'⟩
  unfold jsonSet
  rw [hpp, hd, hv]
  simp only [covers_of_locS p d pos (parsePath_ne_nil' hpp) hp hn hl, ↓reduceIte]
  unfold setB
  rw [hpt, setLocO_of_locS _ d p pos hp hl]
  simp [Loc.list, hab]

/-- **`jsonGet` answers** on the same inputs: the path exists, `Raw` is the byte range of the target -/
theorem jsonGet_of_locS (doc path : Text) (p : Path) (d : JV) (pos : Pos)
    (hpp : parsePath path = some p) (hp : plain p = true) (hn : nopipe p = true)
    (hd : parse doc = some d) (hl : locS p d = some pos) :
    ∃ ab, jsonGet doc path = some (some (slice doc ab, [ab.1])) := by
  obtain ⟨pt, hpt, hmap⟩ := ptokens_of_parse hd
  have hg := getAt_of_locS p d pos hl
  obtain ⟨ab, hab⟩ := spanAt_of_getAt pt d pos hmap hg
  refine ⟨ab, ?_⟩
  unfold jsonGet
  rw [hpp, hd]
  simp only [covers_of_locS p d pos (parsePath_ne_nil' hpp) hp hn hl, ↓reduceIte]
  unfold getB
  rw [hpt, loc_of_locS p d pos hl]
  simp [hab]

/-- a path gjson does not find: `Exists()` is false -/
theorem jsonGet_of_loc_none (doc path : Text) (p : Path) (d : JV)
    (hpp : parsePath path = some p) (hd : parse doc = some d) (hc : covers d p = true) (hl : loc p d = none) :
    jsonGet doc path = some none := by
  obtain ⟨pt, hpt, _⟩ := ptokens_of_parse hd
  unfold jsonGet
  rw [hpp, hd]
  simp only [hc, ↓reduceIte]
  unfold getB
  rw [hpt, hl]


/-! ## 4. a target survives a replacement that is not at or above it -/

theorem not_prefix_cons {i : Nat} {r q : Pos} (h : ¬ (i :: r) <+: (i :: q)) : ¬ r <+: q := by
  intro ⟨t, ht⟩
  exact h ⟨t, by simp [ht]⟩

/-- **the stepwise lookup still finds the path, at the same position**, after the subtree at a position that is
not at or above the target has been replaced (beside it, or below it) — every document -/
theorem locS_replaceAt_other : ∀ (p : Path) (d d' w : JV) (pos pos1 : Pos), locS p d = some pos →
    replaceAt d pos1 w = some d' → ¬ pos1 <+: pos → locS p d' = some pos
  | [], d, d', w, pos, pos1, h, _, _ => by
    have : pos = [] := by cases d <;> simpa [locS] using h.symm
    subst this
    cases d' <;> rfl
  | c :: rest, d, d', w, pos, pos1, h, hr, hn => by
    cases pos1 with
    | nil => exact absurd (List.nil_prefix) hn
    | cons i r =>
      rcases replaceAt_cons_inv hr with ⟨xs, x, x', rfl, hx, hr', rfl⟩ | ⟨ms, m, x', rfl, hx, hr', rfl⟩
      · cases c with
        | each => simp [locS_arr_each] at h
        | key k esc =>
          rw [locS_arr] at h ⊢
          cases hi : idxOf k esc with
          | none => simp [hi] at h
          | some j =>
            cases hxj : xs[j]? with
            | none => simp [hi, hxj] at h
            | some y =>
              cases hl : locS rest y with
              | none => simp [hi, hxj, hl] at h
              | some q =>
                simp only [hi, hxj, hl, Option.bind_some, Option.map_some, Option.some.injEq] at h
                subst h
                by_cases hij : i = j
                · subst hij
                  rw [hx] at hxj
                  cases hxj
                  have hlt := lt_of_getElem?_some hx
                  simp only [Option.bind_some, List.getElem?_set_self hlt, Option.map_eq_some_iff]
                  exact ⟨q, locS_replaceAt_other rest x x' w q r hl hr' (not_prefix_cons hn), rfl⟩
                · simp only [Option.bind_some, List.getElem?_set_ne hij, hxj, hl, Option.map_some]
      · rw [locS_obj] at h ⊢
        obtain ⟨k0, v0⟩ := m
        rw [nameIdx_set (compName c) ms i k0 v0 x' hx]
        cases hj : nameIdx (compName c) ms with
        | none => simp [nameIdx, hj] at h
        | some j =>
          cases hm : ms[j]? with
          | none => simp [nameIdx, hj, hm] at h
          | some m' =>
            cases hl : locS rest m'.2 with
            | none => simp [nameIdx, hj, hm, hl] at h
            | some q =>
              simp only [nameIdx, hj, hm, hl, Option.bind_some, Option.map_some, Option.some.injEq] at h
              subst h
              by_cases hij : i = j
              · subst hij
                rw [hx] at hm
                cases hm
                have hlt := lt_of_getElem?_some hx
                simp only [Option.bind_some, List.getElem?_set_self hlt, Option.map_eq_some_iff]
                exact ⟨q, locS_replaceAt_other rest v0 x' w q r hl hr' (not_prefix_cons hn), rfl⟩
              · simp only [Option.bind_some, List.getElem?_set_ne hij, hm, hl, Option.map_some]

/-! ## 4b. the stepwise lookup reads LABELS above the target only -/

/-- the name-only search looks at the keys -/
theorem nameIdx_keys (name : Text) : ∀ (ms ns : List (Text × JV)), ms.map (·.1) = ns.map (·.1) →
    nameIdx name ms = nameIdx name ns
  | [], [], _ => rfl
  | [], _ :: _, h => by simp at h
  | _ :: _, [], h => by simp at h
  | m :: ms, n :: ns, h => by
    simp only [List.map_cons, List.cons.injEq] at h
    have ih := nameIdx_keys name ms ns h.2
    simp only [nameIdx, memberIdx, List.findIdx?_cons, h.1] at ih ⊢
    rw [ih]

/-- **two trees that carry the same labels at every position strictly above the target are addressed alike**: the
stepwise lookup finds the path at the same position in the second tree (member names in order / array lengths above
the target are all it reads) -/
theorem locS_agree : ∀ (p : Path) (ta tb : JV) (pos : Pos), locS p ta = some pos →
    (∀ q, q <+: pos → q ≠ pos → labelAt ta q = labelAt tb q) → locS p tb = some pos
  | [], ta, tb, pos, h, _ => by
    have : pos = [] := by cases ta <;> simpa [locS] using h.symm
    subst this
    cases tb <;> rfl
  | c :: rest, ta, tb, pos, h, hag => by
    cases ta with
    | obj ms =>
      rw [locS_obj] at h
      cases hj : nameIdx (compName c) ms with
      | none => simp [nameIdx, hj] at h
      | some j =>
        cases hm : ms[j]? with
        | none => simp [nameIdx, hj, hm] at h
        | some m =>
          cases hl : locS rest m.2 with
          | none => simp [nameIdx, hj, hm, hl] at h
          | some q' =>
            simp only [nameIdx, hj, hm, hl, Option.bind_some, Option.map_some, Option.some.injEq] at h
            subst h
            have h0 := hag [] List.nil_prefix (by simp)
            cases tb with
            | obj ns =>
              have hk : ms.map (·.1) = ns.map (·.1) := by simpa [labelAt, label] using h0
              have hlen : ms.length = ns.length := by simpa using congrArg List.length hk
              have hjl := lt_of_getElem?_some hm
              rw [locS_obj, ← nameIdx_keys (compName c) ms ns hk]
              simp only [nameIdx] at hj
              simp only [nameIdx, hj, Option.bind_some, List.getElem?_eq_getElem (hlen ▸ hjl), Option.map_eq_some_iff]
              refine ⟨q', ?_, rfl⟩
              apply locS_agree rest m.2 _ q' hl
              intro q hq hne
              have := hag (j :: q) (by obtain ⟨t, ht⟩ := hq; exact ⟨t, by simp [ht]⟩) (by simpa using hne)
              simpa [labelAt, getAt_obj, hm, List.getElem?_eq_getElem (hlen ▸ hjl)] using this
            | arr _ => simp [labelAt, label] at h0
            | str _ => simp [labelAt, label] at h0
            | num _ => simp [labelAt, label] at h0
            | tru => simp [labelAt, label] at h0
            | fls => simp [labelAt, label] at h0
            | nul => simp [labelAt, label] at h0
    | arr xs =>
      cases c with
      | each => simp [locS_arr_each] at h
      | key k esc =>
        rw [locS_arr] at h
        cases hi : idxOf k esc with
        | none => simp [hi] at h
        | some i =>
          cases hx : xs[i]? with
          | none => simp [hi, hx] at h
          | some x =>
            cases hl : locS rest x with
            | none => simp [hi, hx, hl] at h
            | some q' =>
              simp only [hi, hx, hl, Option.bind_some, Option.map_some, Option.some.injEq] at h
              subst h
              have h0 := hag [] List.nil_prefix (by simp)
              cases tb with
              | arr ys =>
                have hlen : xs.length = ys.length := by simpa [labelAt, label] using h0
                have hil := lt_of_getElem?_some hx
                rw [locS_arr]
                simp only [hi, Option.bind_some, List.getElem?_eq_getElem (hlen ▸ hil), Option.map_eq_some_iff]
                refine ⟨q', ?_, rfl⟩
                apply locS_agree rest x _ q' hl
                intro q hq hne
                have := hag (i :: q) (by obtain ⟨t, ht⟩ := hq; exact ⟨t, by simp [ht]⟩) (by simpa using hne)
                simpa [labelAt, getAt_arr, hx, List.getElem?_eq_getElem (hlen ▸ hil)] using this
              | obj _ => simp [labelAt, label] at h0
              | str _ => simp [labelAt, label] at h0
              | num _ => simp [labelAt, label] at h0
              | tru => simp [labelAt, label] at h0
              | fls => simp [labelAt, label] at h0
              | nul => simp [labelAt, label] at h0
    | str _ => rw [locS_scalar _ _ _ rfl] at h; cases h
    | num _ => rw [locS_scalar _ _ _ rfl] at h; cases h
    | tru => rw [locS_scalar _ _ _ rfl] at h; cases h
    | fls => rw [locS_scalar _ _ _ rfl] at h; cases h
    | nul => rw [locS_scalar _ _ _ rfl] at h; cases h

/-! ## 4c. the first byte of the raw text of a value tells its kind -/

/-- the Go dynamic type of `gjson.Result.Value()` by the FIRST BYTE of the value's raw text: `"` string, `{` map,
`[` slice, `t` / `f` bool, `n` nil, anything else (`-`, a digit) float64 -/
def kindOfByte (c : Byte) : C16.GoType :=
  if c = 34 then .string else if c = 123 then .map else if c = 91 then .slice
  else if c = 116 then .bool else if c = 102 then .bool else if c = 110 then .nil else .float64

/-- … of a raw text -/
def rawType (raw : Text) : C16.GoType :=
  match raw with
  | c :: _ => kindOfByte c
  | [] => .float64

/-- … and of a tree -/
def kindOf : JV → C16.GoType
  | .str _ => .string
  | .num _ => .float64
  | .tru => .bool
  | .fls => .bool
  | .nul => .nil
  | .arr _ => .slice
  | .obj _ => .map

/-- the kind a label stands for (the label of a node determines its kind) -/
def kindOfLabel : Label → C16.GoType
  | .str _ => .string
  | .num _ => .float64
  | .tru => .bool
  | .fls => .bool
  | .nul => .nil
  | .arr _ => .slice
  | .obj _ => .map

theorem kindOfLabel_label (v : JV) : kindOfLabel (label v) = kindOf v := by cases v <;> rfl

def kindOfTok : Tok → C16.GoType
  | .str _ => .string
  | .lbrace => .map
  | .lbrack => .slice
  | .tru => .bool
  | .fls => .bool
  | .nul => .nil
  | _ => .float64

theorem kindOfByte_digit {c : Byte} (h : (c = 45 || isDigit c) = true) : kindOfByte c = .float64 := by
  unfold kindOfByte
  by_cases e1 : c = 34
  · subst e1; exact absurd h (by decide)
  by_cases e2 : c = 123
  · subst e2; exact absurd h (by decide)
  by_cases e3 : c = 91
  · subst e3; exact absurd h (by decide)
  by_cases e4 : c = 116
  · subst e4; exact absurd h (by decide)
  by_cases e5 : c = 102
  · subst e5; exact absurd h (by decide)
  by_cases e6 : c = 110
  · subst e6; exact absurd h (by decide)
  simp [e1, e2, e3, e4, e5, e6]

/-- the first byte of a token tells its kind -/
theorem nextTok_kind {c : Byte} {u r : Text} {t : Tok} (h : nextTok (c :: u) = some (t, r)) :
    kindOfByte c = kindOfTok t := by
  unfold nextTok at h
  by_cases h1 : c = 123
  · subst h1
    simp (config := {decide := true}) only [↓reduceIte, Option.some.injEq, Prod.mk.injEq] at h
    obtain ⟨rfl, _⟩ := h; rfl
  by_cases h2 : c = 125
  · subst h2
    simp (config := {decide := true}) only [↓reduceIte, Option.some.injEq, Prod.mk.injEq] at h
    obtain ⟨rfl, _⟩ := h; rfl
  by_cases h3 : c = 91
  · subst h3
    simp (config := {decide := true}) only [↓reduceIte, Option.some.injEq, Prod.mk.injEq] at h
    obtain ⟨rfl, _⟩ := h; rfl
  by_cases h4 : c = 93
  · subst h4
    simp (config := {decide := true}) only [↓reduceIte, Option.some.injEq, Prod.mk.injEq] at h
    obtain ⟨rfl, _⟩ := h; rfl
  by_cases h5 : c = 58
  · subst h5
    simp (config := {decide := true}) only [↓reduceIte, Option.some.injEq, Prod.mk.injEq] at h
    obtain ⟨rfl, _⟩ := h; rfl
  by_cases h6 : c = 44
  · subst h6
    simp (config := {decide := true}) only [↓reduceIte, Option.some.injEq, Prod.mk.injEq] at h
    obtain ⟨rfl, _⟩ := h; rfl
  simp only [h1, h2, h3, h4, h5, h6, ↓reduceIte] at h
  by_cases h7 : c = 34
  · subst h7
    simp only [↓reduceIte, Option.map_eq_some_iff, Prod.mk.injEq] at h
    obtain ⟨_, _, rfl, _⟩ := h; rfl
  simp only [h7, ↓reduceIte] at h
  by_cases h8 : (c = 45 || isDigit c) = true
  · simp only [h8, ↓reduceIte, Option.bind_eq_some_iff] at h
    obtain ⟨_, _, h⟩ := h
    split at h
    case isFalse => cases h
    simp only [Option.some.injEq, Prod.mk.injEq] at h
    obtain ⟨rfl, _⟩ := h
    exact kindOfByte_digit h8
  simp only [h8, Bool.false_eq_true, ↓reduceIte] at h
  by_cases h9 : c = 116
  · subst h9
    simp only [↓reduceIte, Option.map_eq_some_iff, Prod.mk.injEq] at h
    obtain ⟨_, _, rfl, _⟩ := h; rfl
  simp only [h9, ↓reduceIte] at h
  by_cases h10 : c = 102
  · subst h10
    simp only [↓reduceIte, Option.map_eq_some_iff, Prod.mk.injEq] at h
    obtain ⟨_, _, rfl, _⟩ := h; rfl
  simp only [h10, ↓reduceIte] at h
  by_cases h11 : c = 110
  · subst h11
    simp only [↓reduceIte, Option.map_eq_some_iff, Prod.mk.injEq] at h
    obtain ⟨_, _, rfl, _⟩ := h; rfl
  simp [h11] at h

/-- a token the scanner can produce starts with a byte that tells its kind -/
theorem tokOk_kind {t : Tok} (h : TokOk t) : ∃ c u, tokText t = c :: u ∧ kindOfByte c = kindOfTok t := by
  obtain ⟨h1, ⟨c, u, e, _⟩, _, _⟩ := h
  have hs : TokStop t [] := TokStop.of_numStop numStop_nil
  have := h1 [] hs
  rw [e] at this
  exact ⟨c, u, e, nextTok_kind this⟩

/-- the first token of a tree tells its kind -/
theorem toks_head (v : JV) : ∃ t rest, toks v = t :: rest ∧ kindOfTok t = kindOf v := by
  cases v with
  | str r => exact ⟨.str r, [], by simp [toks], rfl⟩
  | num r => exact ⟨.num r, [], by simp [toks], rfl⟩
  | tru => exact ⟨.tru, [], by simp [toks], rfl⟩
  | fls => exact ⟨.fls, [], by simp [toks], rfl⟩
  | nul => exact ⟨.nul, [], by simp [toks], rfl⟩
  | arr xs => exact ⟨.lbrack, toksL xs ++ [.rbrack], by simp [toks], rfl⟩
  | obj ms => exact ⟨.lbrace, toksM ms ++ [.rbrace], by simp [toks], rfl⟩

theorem C14Json_tokens_ok (doc : Text) (ts : List Tok) (h : tokens doc = some ts) : ∀ t ∈ ts, TokOk t :=
  tokens_ok (doc.length + 1) doc ts (Nat.lt_succ_self _) h

/-- offsets: every entry starts at or after the offset the scan started from, and ends at or after its start -/
theorem ptokensAux_bounds : ∀ (n off : Nat) (s : Text) (pt : List (Tok × Nat × Nat)), ptokensAux n off s = some pt →
    ∀ e ∈ pt, off ≤ e.2.1 ∧ e.2.1 ≤ e.2.2
  | 0, _, _, _, h => by simp [ptokensAux] at h
  | n + 1, off, s, pt, h => by
    rw [ptokensAux] at h
    cases hq : skipWs s with
    | nil => rw [hq] at h; simp at h; subst h; intro e he; cases he
    | cons c r =>
      rw [hq] at h
      simp only at h
      cases hp : nextTok (c :: r) with
      | none => rw [hp] at h; cases h
      | some p =>
        rw [hp] at h
        simp only at h
        cases hr : ptokensAux n (off + wsCount s + tokLen p.1) p.2 with
        | none => rw [hr] at h; cases h
        | some pt1 =>
          rw [hr] at h
          simp only [Option.map_some, Option.some.injEq] at h
          subst h
          intro e he
          rcases List.mem_cons.mp he with rfl | he
          · simp
          · have := ptokensAux_bounds n _ p.2 pt1 hr e he
            omega

/-- offsets: a later entry starts at or after the end of an earlier one -/
theorem ptokensAux_sorted : ∀ (n off : Nat) (s : Text) (pt : List (Tok × Nat × Nat)), ptokensAux n off s = some pt →
    ∀ (i j : Nat) (e1 e2 : Tok × Nat × Nat), i < j → pt[i]? = some e1 → pt[j]? = some e2 → e1.2.2 ≤ e2.2.1
  | 0, _, _, _, h => by simp [ptokensAux] at h
  | n + 1, off, s, pt, h => by
    rw [ptokensAux] at h
    cases hq : skipWs s with
    | nil => rw [hq] at h; simp at h; subst h; intro i j e1 e2 _ h1; simp at h1
    | cons c r =>
      rw [hq] at h
      simp only at h
      cases hp : nextTok (c :: r) with
      | none => rw [hp] at h; cases h
      | some p =>
        rw [hp] at h
        simp only at h
        cases hr : ptokensAux n (off + wsCount s + tokLen p.1) p.2 with
        | none => rw [hr] at h; cases h
        | some pt1 =>
          rw [hr] at h
          simp only [Option.map_some, Option.some.injEq] at h
          subst h
          intro i j e1 e2 hij h1 h2
          cases j with
          | zero => omega
          | succ j =>
            simp only [List.getElem?_cons_succ] at h2
            cases i with
            | zero =>
              simp only [List.getElem?_cons_zero, Option.some.injEq] at h1
              subst h1
              exact (ptokensAux_bounds n _ p.2 pt1 hr e2 (List.mem_of_getElem? h2)).1
            | succ i =>
              simp only [List.getElem?_cons_succ] at h1
              exact ptokensAux_sorted n _ p.2 pt1 hr i j e1 e2 (by omega) h1 h2

/-- **the raw text gjson reports for an existing position starts with a byte that tells the kind of the subtree** -/
theorem slice_kind (doc : Text) (d : JV) (pt : List (Tok × Nat × Nat)) (pos : Pos) (ab : Nat × Nat) (sub : JV)
    (hd : parse doc = some d) (hpt : ptokens doc = some pt) (hsp : spanAt pt d pos = some ab)
    (hg : getAt d pos = some sub) : rawType (slice doc ab) = kindOf sub := by
  have htd := parse_tokens hd
  have hmap : pt.map (·.1) = toks d := by
    have := ptokensAux_tokens _ 0 doc pt hpt
    rw [htd] at this
    exact (Option.some.inj this).symm
  unfold spanAt at hsp
  cases hk : tokStart d pos with
  | none => rw [hk] at hsp; cases hsp
  | some k =>
    rw [hk, hg] at hsp
    simp only at hsp
    cases h1 : pt[k]? with
    | none => rw [h1] at hsp; cases hsp
    | some e1 =>
      cases h2 : pt[k + ntoks sub - 1]? with
      | none => rw [h1, h2] at hsp; cases hsp
      | some e2 =>
        rw [h1, h2] at hsp
        obtain ⟨t1, a, b1⟩ := e1
        obtain ⟨t2, a2, b⟩ := e2
        simp only [Option.some.injEq] at hsp
        subst hsp
        obtain ⟨A, B, eT, lA, _, _, _⟩ := toks_splice pos d k sub hk hg
        obtain ⟨t, rest, eh, ek⟩ := toks_head sub
        -- the first token of the subtree is entry `k` of the table
        have ht1 : t1 = t := by
          have := congrArg (fun l => l[k]?) hmap
          simp only [List.getElem?_map, h1, Option.map_some] at this
          rw [eT, eh, List.append_assoc, List.getElem?_append_right (by omega)] at this
          simpa [lA] using this
        subst ht1
        have hok : TokOk t1 := by
          apply C14Json_tokens_ok doc (toks d) htd
          rw [eT, eh]; simp
        obtain ⟨c, u, etx, ekb⟩ := tokOk_kind hok
        obtain ⟨x, z1, hs1, ha, hb1, _, _⟩ := ptokensAux_split _ 0 doc pt hpt _ t1 a b1 _ (split_at_getElem? pt k _ h1)
        have hbb : b1 ≤ b := by
          have hn := ntoks_pos sub
          by_cases hone : ntoks sub = 1
          · have : k + ntoks sub - 1 = k := by omega
            rw [this, h1] at h2
            simp only [Option.some.injEq, Prod.mk.injEq] at h2
            omega
          · have l1 := ptokensAux_sorted _ 0 doc pt hpt k (k + ntoks sub - 1) _ _ (by omega) h1 h2
            have l2 := ptokensAux_bounds _ 0 doc pt hpt _ (List.mem_of_getElem? h2)
            simp only at l1 l2
            omega
        have hdrop : doc.drop a = c :: (u ++ z1) := by
          rw [hs1, List.drop_left' (by omega), etx]; rfl
        have hpos : b - a = (b - a - 1) + 1 := by
          rw [etx] at hb1; simp at hb1; omega
        unfold slice
        simp only [hdrop]
        rw [hpos, List.take_succ_cons]
        simp only [rawType, ekb, ek]

/-- `jsonGet_of_locS` with the kind: the raw text reported starts with a byte that tells the kind of the subtree found -/
theorem jsonGet_of_locS_kind (doc path : Text) (p : Path) (d sub : JV) (pos : Pos)
    (hpp : parsePath path = some p) (hp : plain p = true) (hn : nopipe p = true)
    (hd : parse doc = some d) (hl : locS p d = some pos) (hg : getAt d pos = some sub) :
    ∃ ab, jsonGet doc path = some (some (slice doc ab, [ab.1])) ∧ rawType (slice doc ab) = kindOf sub := by
  obtain ⟨pt, hpt, hmap⟩ := ptokens_of_parse hd
  obtain ⟨ab, hab⟩ := spanAt_of_getAt pt d pos hmap (by rw [hg]; simp)
  refine ⟨ab, ?_, slice_kind doc d pt pos ab sub hd hpt hab hg⟩
  unfold jsonGet
  rw [hpp, hd]
  simp only [covers_of_locS p d pos (parsePath_ne_nil' hpp) hp hn hl, ↓reduceIte]
  unfold getB
  rw [hpt, loc_of_locS p d pos hl]
  simp [hab]

/-! ## 4d. text paths do not observe member order: the stepwise lookup on trees equal up to member order -/

open GoSnaps.C14Json (PermV PermL PermM) in
theorem permM_get : ∀ (ms ns : List (Text × JV)) (j : Nat) (k : Text) (x : JV), PermM ms ns → ms[j]? = some (k, x) →
    ∃ y, ns[j]? = some (k, y) ∧ PermV x y
  | [], _, _, _, _, _, h => by simp at h
  | (k0, x0) :: ms, ns, j, k, x, hp, h => by
    simp only [PermM] at hp
    obtain ⟨y, ns', rfl, h1, h2⟩ := hp
    cases j with
    | zero =>
      simp only [List.getElem?_cons_zero, Option.some.injEq, Prod.mk.injEq] at h
      obtain ⟨rfl, rfl⟩ := h
      exact ⟨y, rfl, h1⟩
    | succ j =>
      simp only [List.getElem?_cons_succ] at h ⊢
      exact permM_get ms ns' j k x h2 h

open GoSnaps.C14Json (PermV PermL PermM) in
theorem permL_get : ∀ (xs ys : List JV) (i : Nat), PermL xs ys →
    (xs[i]? = none → ys[i]? = none) ∧ ∀ x, xs[i]? = some x → ∃ y, ys[i]? = some y ∧ PermV x y
  | [], ys, i, hp => by simp only [PermL] at hp; subst hp; simp
  | x0 :: xs, ys, i, hp => by
    simp only [PermL] at hp
    obtain ⟨y, ys', rfl, h1, h2⟩ := hp
    cases i with
    | zero => simp; exact h1
    | succ i =>
      simp only [List.getElem?_cons_succ]
      exact permL_get xs ys' i h2

open GoSnaps.C14Json (PermV PermL PermM) in
/-- a scalar is related to itself only -/
theorem permV_scalar_iff (v u s : JV) (h : PermV v u) (hs : isScalar s = true) : v = s ↔ u = s := by
  cases v with
  | str r => simp only [PermV] at h; subst h; rfl
  | num r => simp only [PermV] at h; subst h; rfl
  | tru => simp only [PermV] at h; subst h; rfl
  | fls => simp only [PermV] at h; subst h; rfl
  | nul => simp only [PermV] at h; subst h; rfl
  | arr xs =>
    simp only [PermV] at h
    obtain ⟨ys, rfl, _⟩ := h
    constructor <;> intro e <;> subst e <;> simp [isScalar] at hs
  | obj ms =>
    simp only [PermV] at h
    obtain ⟨ns, _, rfl, _, _⟩ := h
    constructor <;> intro e <;> subst e <;> simp [isScalar] at hs

open GoSnaps.C14Json (PermV PermL PermM) in
/-- **looking a name up in an object and in a reordering of it** (names pairwise different): neither has it, or both
have it, with the same raw key and related values -/
theorem obj_lookup_perm (ms ns ns' : List (Text × JV)) (name : Text) (hperm : ns.Perm ns') (hm : PermM ms ns')
    (hnd : nodupT (ms.map fun kv => gkey kv.1) = true) :
    (nameIdx name ms = none ∧ nameIdx name ns = none) ∨
    ∃ j j' k x y, nameIdx name ms = some j ∧ ms[j]? = some (k, x) ∧ nameIdx name ns = some j' ∧
      ns[j']? = some (k, y) ∧ PermV x y := by
  have hkeys := C14Json.permM_keys ms ns' hm
  cases hj : nameIdx name ms with
  | none =>
    left
    refine ⟨rfl, ?_⟩
    simp only [nameIdx] at hj ⊢
    rw [memberIdx_none] at hj ⊢
    intro n hn hc
    have hn' : n ∈ ns' := hperm.mem_iff.mp hn
    have : n.1 ∈ ms.map (·.1) := by rw [← hkeys]; exact List.mem_map_of_mem hn'
    obtain ⟨m, hmm, hmk⟩ := List.mem_map.mp this
    exact hj m hmm ⟨by rw [hmk]; exact hc.1, rfl⟩
  | some j =>
    right
    simp only [nameIdx] at hj
    obtain ⟨m, hmj, hmk, _, _⟩ := memberIdx_some.mp hj
    obtain ⟨k, x⟩ := m
    obtain ⟨y, hy, hxy⟩ := permM_get ms ns' j k x hm hmj
    have hyn : (k, y) ∈ ns := hperm.mem_iff.mpr (List.mem_of_getElem? hy)
    cases hj' : nameIdx name ns with
    | none =>
      simp only [nameIdx] at hj'
      rw [memberIdx_none] at hj'
      exact absurd ⟨hmk, rfl⟩ (hj' (k, y) hyn)
    | some j' =>
      simp only [nameIdx] at hj'
      obtain ⟨n', hn'j, hn'k, _, _⟩ := memberIdx_some.mp hj'
      have hn'mem : n' ∈ ns' := hperm.mem_iff.mp (List.mem_of_getElem? hn'j)
      obtain ⟨i, hi⟩ := List.getElem?_of_mem hn'mem
      have hki : (ms.map fun kv => gkey kv.1)[i]? = some name := by
        have h1 : (ns'.map (·.1))[i]? = some n'.1 := by simp [hi]
        rw [hkeys] at h1
        have h2 := congrArg (Option.map gkey) h1
        simpa [List.getElem?_map, hn'k] using h2
      have hkj : (ms.map fun kv => gkey kv.1)[j]? = some name := by simp [hmj, hmk]
      have hij : i = j := nodupT_unique _ i j name hnd hki hkj
      subst hij
      rw [hy] at hi
      cases hi
      exact ⟨i, j', k, x, y, rfl, hmj, rfl, hn'j, hxy⟩

open GoSnaps.C14Json (PermV PermL PermM) in
/-- **text paths do not observe member order**: on a tree without duplicate names, the stepwise lookup reads a SCALAR
at a path iff it reads the same scalar there in any reordering of the tree -/
theorem getS_permV : ∀ (p : Path) (v u : JV), PermV v u → distinctG v = true → ∀ s, isScalar s = true →
    (getS v p = some s ↔ getS u p = some s)
  | [], v, u, h, _, s, hs => by
    simp only [getS_nil, Option.some.injEq]
    exact permV_scalar_iff v u s h hs
  | c :: rest, v, u, h, hd, s, hs => by
    cases v with
    | str r => simp only [PermV] at h; subst h; rfl
    | num r => simp only [PermV] at h; subst h; rfl
    | tru => simp only [PermV] at h; subst h; rfl
    | fls => simp only [PermV] at h; subst h; rfl
    | nul => simp only [PermV] at h; subst h; rfl
    | arr xs =>
      simp only [PermV] at h
      obtain ⟨ys, rfl, hl⟩ := h
      cases c with
      | each => rw [getS_arr_each, getS_arr_each]
      | key k esc =>
        rw [getS_arr, getS_arr]
        cases idxOf k esc with
        | none => rfl
        | some i =>
          simp only [Option.bind_some]
          obtain ⟨h1, h2⟩ := permL_get xs ys i hl
          cases hx : xs[i]? with
          | none => rw [h1 hx]
          | some x =>
            obtain ⟨y, hy, hxy⟩ := h2 x hx
            rw [hy]
            simp only [Option.bind_some]
            exact getS_permV rest x y hxy ((distinctG_arr xs).mp hd x (List.mem_of_getElem? hx)) s hs
    | obj ms =>
      simp only [PermV] at h
      obtain ⟨ns, ns', rfl, hperm, hm⟩ := h
      obtain ⟨hnd, hdm⟩ := (distinctG_obj ms).mp hd
      rw [getS_obj, getS_obj]
      rcases obj_lookup_perm ms ns ns' (compName c) hperm hm hnd with ⟨e1, e2⟩ | ⟨j, j', k, x, y, e1, e2, e3, e4, hxy⟩
      · rw [e1, e2]; rfl
      · rw [e1, e3]
        simp only [Option.bind_some, e2, e4]
        exact getS_permV rest x y hxy (hdm (k, x) (List.mem_of_getElem? e2)) s hs

end GoSnaps.JsonPath

/-! ## 5. C16's abstract loop with one value per path -/

namespace GoSnaps.C16
section Each
variable {Doc Path Val : Type} {get : Doc → Path → Option Val} {set : Doc → Path → Val → Doc}
  {Disj : Path → Path → Prop} {overlap : Path → Path → Val → Option Val}

/-- a sequence of `match.Any` matchers, flattened: for each (path, placeholder), in order, replace the value at
the path (`C16.mask set M ph` is the case of one placeholder: `mask_eq_maskEach`) -/
def maskEach (set : Doc → Path → Val → Doc) (M : List (Path × Val)) (d : Doc) : Doc :=
  M.foldl (fun d pv => set d pv.1 pv.2) d

theorem mask_eq_maskEach (set : Doc → Path → Val → Doc) (M : List Path) (ph : Val) (d : Doc) :
    mask set M ph d = maskEach set (M.map fun p => (p, ph)) d := by
  unfold mask maskEach
  rw [List.foldl_map]

theorem maskEach_append (set : Doc → Path → Val → Doc) (M N : List (Path × Val)) (d : Doc) :
    maskEach set (M ++ N) d = maskEach set N (maskEach set M d) := by
  unfold maskEach
  rw [List.foldl_append]

/-- a path disjoint from every written path is observed unchanged -/
theorem get_maskEach_disj (h : LensSpec get set Disj overlap) (M : List (Path × Val)) (d : Doc) (q : Path)
    (hq : ∀ pv ∈ M, Disj pv.1 q) : get (maskEach set M d) q = get d q := by
  induction M generalizing d with
  | nil => rfl
  | cons pv M ih =>
    show get (maskEach set M (set d pv.1 pv.2)) q = get d q
    rw [ih _ (fun p' hp' => hq p' (by simp [hp'])), h.get_set_other d pv.1 q pv.2 (hq pv (by simp))]

/-- **masked_irrelevant, one value per path**: two documents that agree on every path disjoint from the written
paths (no earlier one at or above a later one, all present in both) are the SAME document after the writes -/
theorem masked_irrelevant_each (h : LensSpec get set Disj overlap) (M : List (Path × Val)) (a b : Doc)
    (hM : (M.map (·.1)).Pairwise Disj)
    (hpa : ∀ pv ∈ M, get a pv.1 ≠ none) (hpb : ∀ pv ∈ M, get b pv.1 ≠ none)
    (hag : ∀ q, (∀ pv ∈ M, Disj pv.1 q) → get a q = get b q) :
    maskEach set M a = maskEach set M b := by
  induction M generalizing a b with
  | nil => exact h.ext a b (fun q => hag q (by simp))
  | cons pv M ih =>
    show maskEach set M (set a pv.1 pv.2) = maskEach set M (set b pv.1 pv.2)
    rw [List.map_cons] at hM
    obtain ⟨hp, hM'⟩ := List.pairwise_cons.mp hM
    have hp' : ∀ pv' ∈ M, Disj pv.1 pv'.1 := fun pv' hm => hp pv'.1 (List.mem_map_of_mem hm)
    apply ih _ _ hM'
    · intro p' hm
      rw [h.get_set_other a pv.1 p'.1 pv.2 (hp' p' hm)]; exact hpa p' (by simp [hm])
    · intro p' hm
      rw [h.get_set_other b pv.1 p'.1 pv.2 (hp' p' hm)]; exact hpb p' (by simp [hm])
    · intro q hq
      by_cases hd : Disj pv.1 q
      · rw [h.get_set_other a pv.1 q pv.2 hd, h.get_set_other b pv.1 q pv.2 hd]
        apply hag
        intro p' hm
        rcases List.mem_cons.mp hm with rfl | hm
        · exact hd
        · exact hq p' hm
      · rw [h.get_set_overlap a pv.1 q pv.2 hd (hpa pv (by simp)),
          h.get_set_overlap b pv.1 q pv.2 hd (hpb pv (by simp))]

/-- **unmasked_relevant, one value per path** — the two documents may be written at DIFFERENT paths (`M`, `N`): a
difference at a path disjoint from all of them survives -/
theorem unmasked_relevant_each (h : LensSpec get set Disj overlap) (M N : List (Path × Val)) (a b : Doc)
    (q : Path) (hqa : ∀ pv ∈ M, Disj pv.1 q) (hqb : ∀ pv ∈ N, Disj pv.1 q) (hne : get a q ≠ get b q) :
    maskEach set M a ≠ maskEach set N b := by
  intro e
  apply hne
  rw [← get_maskEach_disj h M a q hqa, ← get_maskEach_disj h N b q hqb, e]

end Each
end GoSnaps.C16
