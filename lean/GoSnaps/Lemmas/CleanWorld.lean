/-
Helper lemmas for Props/C07World: what the cleanup registry looks like after a run of a history
(`RegInv`), `Good` + `Recognised` ⇒ `CleanFile`, and the file loop of `examineSnaps` on a list of
used files that are all the one snapshot file `p` (`go_keeps`): every entry whose id is
registered stays in the file, with its body, and is never reported.
-/
import GoSnaps.Props.C01World
import GoSnaps.Lemmas.CleanTop
import GoSnaps.Props.C07
import GoSnaps.Props.C09

namespace GoSnaps.CleanWorld

open GoSnaps GoSnaps.C06Refine GoSnaps.Wld GoSnaps.C01World
open GoSnaps.C03 (testID)

/-! ## association lists: membership after `alSet` -/

section AL
variable {κ : Type} [DecidableEq κ]

theorem mem_alSet_self (m : List (κ × Nat)) (k : κ) (v : Nat) : (k, v) ∈ alSet m k v := by
  induction m with
  | nil => simp [alSet]
  | cons q m ih =>
    obtain ⟨k', v'⟩ := q
    simp only [alSet]
    split
    · simp
    · simp [ih]

theorem mem_alSet_of_mem (m : List (κ × Nat)) (k k' : κ) (v v' : Nat) (h : (k', v') ∈ m)
    (hne : k' ≠ k) : (k', v') ∈ alSet m k v := by
  induction m with
  | nil => cases h
  | cons q m ih =>
    obtain ⟨k'', v''⟩ := q
    simp only [alSet]
    split
    · rename_i hk
      rcases List.mem_cons.mp h with heq | hm
      · obtain ⟨h1, _⟩ := Prod.mk.inj heq
        exact absurd (h1.trans hk) hne
      · exact List.mem_cons_of_mem _ hm
    · rcases List.mem_cons.mp h with heq | hm
      · rw [heq]; exact List.mem_cons_self
      · exact List.mem_cons_of_mem _ (ih hm)

theorem mem_alSet_imp (m : List (κ × Nat)) (k : κ) (v : Nat) (x : κ × Nat)
    (h : x ∈ alSet m k v) : x = (k, v) ∨ x ∈ m := by
  induction m with
  | nil => left; simpa [alSet] using h
  | cons q m ih =>
    obtain ⟨k'', v''⟩ := q
    simp only [alSet] at h
    split at h
    · rcases List.mem_cons.mp h with heq | hm
      · exact Or.inl heq
      · exact Or.inr (List.mem_cons_of_mem _ hm)
    · rcases List.mem_cons.mp h with heq | hm
      · right; rw [heq]; exact List.mem_cons_self
      · rcases ih hm with h' | h'
        · exact Or.inl h'
        · exact Or.inr (List.mem_cons_of_mem _ h')

end AL

/-! ## `matchEntry` / `endTest` never touch the standalone cleanup registry -/

theorem matchEntry_scleanup (w : World) (c : Cfg) (caller tName : Text) (texec : Nat) (cmp : Cmp)
    (pre : Except Text Text) :
    (matchEntry w c caller tName texec cmp pre).1.scleanup = w.scleanup := by
  unfold matchEntry
  generalize snapshotPath c caller tName false = sp
  obtain ⟨snapPath, rel?⟩ := sp
  dsimp only
  split
  · cases pre with
    | error msg => rfl
    | ok s => exact (entryTail_regs _ _ _ _ _ _ _).scleanup
  · rfl

theorem resetFold_scleanup (ps : List (Nat × Pending)) (w : World) :
    (ps.foldl resetStep w).scleanup = w.scleanup := by
  induction ps generalizing w with
  | nil => rfl
  | cons p ps ih =>
    rw [List.foldl_cons, ih]
    unfold resetStep; split <;> rfl

theorem endTest_scleanup (w : World) (texec : Nat) : (endTest w texec).scleanup = w.scleanup := by
  rw [endTest_eq]; exact resetFold_scleanup _ _

/-! ## the cleanup registry after a run

`seen` = the names of the calls made so far in this process (most recent first).  With
`-count=1` the cumulative counter of `(p, t)` is the total number of calls of `t`. -/

structure RegInv (p : Text) (w : World) (seen : List Text) : Prop where
  get : ∀ t, alGet w.cleanup (p, t) = seen.count t
  mem : ∀ t ∈ seen, ((p, t), seen.count t) ∈ w.cleanup
  keys : ∀ kv ∈ w.cleanup, kv.1.1 = p
  sclean : w.scleanup = []

theorem RegInv.fresh (p : Text) (env : Generated.Env) (fs : FS) :
    RegInv p { env := env, fs := fs } [] :=
  ⟨fun _ => rfl, fun _ h => (by cases h), fun _ h => (by cases h), rfl⟩

theorem RegInv.call {p : Text} {w : World} {seen : List Text} (hi : RegInv p w seen)
    (c : Cfg) (caller t : Text) (x : Nat) (cmp : Cmp) (pre : Except Text Text)
    (hsp : (snapshotPath c caller t false).1 = p) :
    RegInv p (matchEntry w c caller t x cmp pre).1 (t :: seen) := by
  obtain ⟨_, h2, _⟩ := matchEntry_regs w c caller t x cmp pre
  simp only [hsp] at h2
  have hcl : (matchEntry w c caller t x cmp pre).1.cleanup =
      alSet w.cleanup (p, t) (seen.count t + 1) := by
    rw [h2]; simp only [regBump, hi.get t]
  constructor
  · intro t'
    rw [hcl, alGet_alSet]
    by_cases hcase : t' = t
    · subst hcase; simp
    · have hk : (p, t') ≠ (p, t) := fun e => hcase (Prod.mk.inj e).2
      rw [if_neg hk, hi.get t']
      simp [Ne.symm hcase]
  · intro t' ht'
    rw [hcl]
    by_cases hcase : t' = t
    · subst hcase
      have : (t' :: seen).count t' = seen.count t' + 1 := by simp
      rw [this]; exact mem_alSet_self _ _ _
    · have hk : (p, t') ≠ (p, t) := fun e => hcase (Prod.mk.inj e).2
      have hm : t' ∈ seen := by
        rcases List.mem_cons.mp ht' with h | h
        · exact absurd h hcase
        · exact h
      have : (t :: seen).count t' = seen.count t' := by simp [Ne.symm hcase]
      rw [this]
      exact mem_alSet_of_mem _ _ _ _ _ (hi.mem t' hm) hk
  · intro kv hkv
    rw [hcl] at hkv
    rcases mem_alSet_imp _ _ _ _ hkv with h | h
    · rw [h]
    · exact hi.keys kv h
  · rw [matchEntry_scleanup]; exact hi.sclean

theorem RegInv.done {p : Text} {w : World} {seen : List Text} (hi : RegInv p w seen) (x : Nat) :
    RegInv p (endTest w x) seen := by
  constructor
  · intro t; rw [endTest_cleanup]; exact hi.get t
  · intro t ht; rw [endTest_cleanup]; exact hi.mem t ht
  · intro kv hkv; rw [endTest_cleanup] at hkv; exact hi.keys kv hkv
  · rw [endTest_scleanup]; exact hi.sclean

/-- **the cleanup registry after a run**: whatever the calls did to the file (record, compare,
fail), every name called has its total number of calls as cumulative counter -/
theorem run_regInv (c : Cfg) (caller p : Text)
    (hsp : ∀ t, (snapshotPath c caller t false).1 = p) (h : List Step) :
    ∀ (w : World) (seen : List Text), RegInv p w seen →
      RegInv p (run c caller w h).1 ((calledNames h).reverse ++ seen) := by
  induction h with
  | nil => intro w seen hi; simpa [run, calledNames] using hi
  | cons st h ih =>
    intro w seen hi
    cases st with
    | call t s cmp x =>
      have := ih _ _ (hi.call c caller t x cmp (.ok s) (hsp t))
      simpa [run, step, calledNames] using this
    | done x =>
      have := ih _ _ (hi.done x)
      simpa [run, step, calledNames] using this

/-- every header of a history is `[t - k]` with `1 ≤ k ≤` the number of calls of `t` -/
theorem entriesFrom_bound (h : List Step) : ∀ seen, ∀ e ∈ entriesFrom seen h,
    ∃ t k, e.id = testID t k ∧ 1 ≤ k ∧ k ≤ seen.count t + (calledNames h).count t ∧
      t ∈ calledNames h := by
  induction h with
  | nil => intro _ e he; simp [entriesFrom] at he
  | cons st h ih =>
    intro seen e he
    cases st with
    | call t s cmp x =>
      simp only [entriesFrom, List.mem_cons] at he
      rcases he with rfl | he
      · refine ⟨t, _, rfl, by omega, ?_, by simp [calledNames]⟩
        simp [calledNames]
      · obtain ⟨t', k', h1, h2, h3, h4⟩ := ih (t :: seen) e he
        refine ⟨t', k', h1, h2, ?_, by simp [calledNames, h4]⟩
        simp only [calledNames, List.count_cons] at h3 ⊢
        omega
    | done x =>
      simp only [entriesFrom] at he
      obtain ⟨t', k', h1, h2, h3, h4⟩ := ih seen e he
      exact ⟨t', k', h1, h2, by simpa [calledNames] using h3, by simpa [calledNames] using h4⟩

/-! ## ids -/

/-- the id `getTestID` extracts from the header `[t - k]` -/
theorem tidOf_testID (t s : Text) (k : Nat) :
    tidOf ⟨testID t k, s⟩ = t ++ [32, 45, 32] ++ natToText k := by
  have h : testID t k = 91 :: ((t ++ [32, 45, 32] ++ natToText k) ++ [93]) := by simp [testID]
  unfold tidOf
  simp only [h, List.drop_succ_cons, List.drop_zero, List.length_cons, List.length_append,
    List.length_nil]
  have : (t.length + (0 + 1 + 1 + 1) + (natToText k).length + (0 + 1) + 1 - 2) =
      (t ++ [32, 45, 32] ++ natToText k).length := by
    simp only [List.length_append, List.length_cons, List.length_nil]; omega
  rw [this, List.take_left']
  rfl

theorem tidOf_of_id {e : Entry} {t : Text} {k : Nat} (h : e.id = testID t k) :
    tidOf e = t ++ [32, 45, 32] ++ natToText k := by
  rw [← tidOf_testID t e.body k]; unfold tidOf; rw [h]

theorem tidOf_congr {a b : Entry} (h : a.id = b.id) : tidOf a = tidOf b := by
  unfold tidOf; rw [h]

theorem nodup_tid_of_ids (es : List Entry) (hrec : ∀ e ∈ es, Recognised e)
    (hnd : (ids es).Nodup) : (es.map tidOf).Nodup := by
  induction es with
  | nil => simp
  | cons e es ih =>
    simp only [ids, List.map_cons, List.nodup_cons] at hnd ⊢
    refine ⟨?_, ih (fun x hx => hrec x (by simp [hx])) hnd.2⟩
    intro hm
    obtain ⟨x, hx, hxe⟩ := List.mem_map.mp hm
    apply hnd.1
    have h1 := (hrec e (by simp)).id_eq
    have h2 := (hrec x (by simp [hx])).id_eq
    rw [h1, ← hxe, ← h2]
    exact List.mem_map.mpr ⟨x, hx, rfl⟩

theorem nodup_ids_of_tid (es : List Entry) (hnd : (es.map tidOf).Nodup) : (ids es).Nodup := by
  induction es with
  | nil => simp [ids]
  | cons e es ih =>
    simp only [ids, List.map_cons, List.nodup_cons] at hnd ⊢
    refine ⟨?_, ih hnd.2⟩
    intro hm
    obtain ⟨x, hx, hxe⟩ := List.mem_map.mp hm
    apply hnd.1
    rw [← tidOf_congr hxe]
    exact List.mem_map.mpr ⟨x, hx, rfl⟩

/-- a `Good` file all of whose headers are recognised by `getTestID` is a `CleanFile` -/
theorem cleanFile_of_good {es : List Entry} (hg : Good es) (hrec : ∀ e ∈ es, Recognised e) :
    CleanFile es where
  idNoNL := hg.wf.idNoNL
  noCR := hg.wf.noCR
  recognised := hrec
  escaped e he := (hg.1.1 e he).2.1
  distinct := nodup_tid_of_ids es hrec hg.2

/-- `Good` is inherited by any selection of the entries with pairwise distinct ids (any order) -/
theorem good_of_subset {es es' : List Entry} (hg : Good es) (hsub : ∀ e ∈ es', e ∈ es)
    (hnd : (es'.map tidOf).Nodup) : Good es' :=
  ⟨⟨fun e he => hg.1.1 e (hsub e he), fun e he o ho => hg.1.2 e (hsub e he) o (hsub o ho)⟩,
    nodup_ids_of_tid es' hnd⟩

theorem holds_congr {fs fs' : FS} {p : Text} {es : List Entry} (h : fsRead fs' p = fsRead fs p)
    (hh : Holds fs p es) : Holds fs' p es := by
  unfold Holds at *; rw [h]; exact hh

/-! ## the file loop on the one snapshot file -/

/-- **the file loop of `examineSnaps`** (`runOnly = []`) over a list of used paths that are all
`p`: if `p` holds the `CleanFile` `es`, every entry of `must` is in it and has a registered id,
then after the loop `p` holds a `CleanFile` `es'` made of entries of `es` that still contains
every entry of `must` (same header, same body); none of their ids was reported; no other path
changed. -/
theorem go_keeps (o : Oracles) (cleanup : List (RegKey × Nat)) (skipped : List Text) (count : Nat)
    (update sort : Bool) (p : Text) (registered : List Text)
    (hreg : registeredFor cleanup p count = some registered)
    (must : List Entry) (hmust : ∀ e ∈ must, tidOf e ∈ registered) :
    ∀ (used : List Text), (∀ q ∈ used, q = p) →
    ∀ (fs : FS) (obs written : List Text) (es : List Entry),
      CleanFile es → Holds fs p es → (∀ e ∈ must, e ∈ es) → (∀ e ∈ must, tidOf e ∉ obs) →
      ∀ (obs' : List Text) (fs' : FS) (w' : List Text),
        examineSnaps.go o cleanup skipped [] count update sort used fs obs written =
          .ok obs' fs' w' →
        ∃ es', CleanFile es' ∧ Holds fs' p es' ∧ (∀ e ∈ must, e ∈ es') ∧ (∀ e ∈ es', e ∈ es) ∧
          (∀ e ∈ must, tidOf e ∉ obs') ∧ (∀ q, q ≠ p → fsRead fs' q = fsRead fs q) := by
  intro used
  induction used with
  | nil =>
    intro _ fs obs written es hf hh hall hobs obs' fs' w' h
    rw [examineSnaps_go_nil] at h
    simp only [SnapsOutcome.ok.injEq] at h
    obtain ⟨rfl, rfl, _⟩ := h
    exact ⟨es, hf, hh, hall, fun _ he => he, hobs, fun _ _ => rfl⟩
  | cons q rest ih =>
    intro hused fs obs written es hf hh hall hobs obs' fs' w' h
    have hq : q = p := hused q (by simp)
    subst hq
    have hrest : ∀ q' ∈ rest, q' = q := fun q' hq' => hused q' (by simp [hq'])
    have hK : ∀ e ∈ must, keptId o registered skipped [] (tidOf e) = true := by
      intro e he; simp [keptId, hmust e he]
    rcases hh with hread | ⟨hnone, _⟩
    · rw [examineSnaps_go_cons_clean o registered skipped [] fs cleanup q rest count update sort
        obs written es hf hread hreg (fun e _ => classified_noRun o registered skipped _)] at h
      cases hco : cleanOutcome (keptId o registered skipped []) es q fs update sort with
      | ok st fs1 w1 =>
        rw [hco] at h
        simp only at h
        obtain ⟨hst, hfs⟩ := cleanOutcome_ok _ es q fs update sort st fs1 w1 hco
        have hobs1 : ∀ e ∈ must, tidOf e ∉ obs ++ st := by
          intro e he hm
          rcases List.mem_append.mp hm with hm | hm
          · exact hobs e he hm
          · rw [hst] at hm
            obtain ⟨x, hx, hxe⟩ := List.mem_map.mp hm
            have := (List.mem_filter.mp hx).2
            rw [hxe, hK e he] at this
            cases this
        rcases hfs with ⟨rfl, rfl⟩ | ⟨ids', hperm, rfl, rfl⟩
        · exact ih hrest fs1 _ _ es hf (Or.inl hread) hall hobs1 obs' fs' w' h
        · obtain ⟨hf2, hsub⟩ := cleanFile_reorder es hf
            (fun e => keptId o registered skipped [] (tidOf e) || !update) ids' hperm
          have hp2 := reorder_perm es (fun e => keptId o registered skipped [] (tidOf e) || !update)
            ids' hf.distinct hperm
          have hall2 : ∀ e ∈ must, e ∈ reorder
              (es.filter (fun e => keptId o registered skipped [] (tidOf e) || !update)) ids' := by
            intro e he
            exact hp2.mem_iff.mpr (List.mem_filter.mpr ⟨hall e he, by simp [hK e he]⟩)
          obtain ⟨es', h1, h2, h3, h4, h5, h6⟩ := ih hrest _ _ _ _ hf2
            (Or.inl (fsRead_fsWrite _ _ _)) hall2 hobs1 obs' fs' w' h
          refine ⟨es', h1, h2, h3, fun e he => (hsub e (h4 e he)).1, h5, ?_⟩
          intro q' hq'
          rw [h6 q' hq']
          exact fsRead_fsWrite_ne _ _ _ _ hq'
      | missingOracle => rw [hco] at h; cases h
      | unsupportedOrder => rw [hco] at h; cases h
      | panics => rw [hco] at h; cases h
      | badFormat => rw [hco] at h; cases h
    · rw [examineSnaps_go_cons, hnone] at h
      cases h

/-! ## the whole `Clean` on a world whose registry knows only the file `p` -/

theorem occurrences_nil (count : Nat) (fmt : Text → Nat → Option Text) :
    occurrences [] count fmt = some [] := rfl

/-- **`Clean` keeps what the registry covers.**  World `w`: every cleanup key addresses the file
`p`, no standalone snapshot is registered; `p` holds the `CleanFile` `es`; every entry of `must`
is in the file and is `[t - k]` with `1 ≤ k ≤ n` for a registered pair `((p, t), n)`.  Then for a
supported `Clean` with no `-run` filter and `-count=1`, in every mode: `p` is not removed, no id
of `must` is reported obsolete, and afterwards `p` holds a `CleanFile` made of entries of `es`
that contains every entry of `must`; every other path that was not removed reads as before. -/
theorem clean_keeps (o : Oracles) (w : World) (sortOpt : Bool) (p : Text) (es must : List Entry)
    (hkeys : ∀ kv ∈ w.cleanup, kv.1.1 = p) (hs : w.scleanup = [])
    (hcov : ∀ e ∈ must, ∃ t k n, e.id = testID t k ∧ 1 ≤ k ∧ k ≤ n ∧ ((p, t), n) ∈ w.cleanup)
    (hf : CleanFile es) (hfile : Holds w.fs p es) (hall : ∀ e ∈ must, e ∈ es)
    (sa : List Text) (fr : FilesResult) (obsT : List Text) (fs : FS) (wr : List Text)
    (run : CleanRun o w sortOpt [] 1 sa fr obsT fs wr) :
    p ∉ fr.removed ∧ (∀ e ∈ must, tidOf e ∉ obsT) ∧
    (∃ es', CleanFile es' ∧ Holds fs p es' ∧ (∀ e ∈ must, e ∈ es') ∧ (∀ e ∈ es', e ∈ es)) ∧
    (∀ q, q ≠ p → q ∉ fr.removed → fsRead fs q = fsRead w.fs q) := by
  have hsa : sa = [] := by
    have := run.occ
    rw [hs, occurrences_nil] at this
    exact (Option.some.inj this).symm
  subst hsa
  have hregp : ∀ q ∈ cleanRegPaths w, q = p := by
    intro q hq
    obtain ⟨kv, hkv, rfl⟩ := List.mem_map.mp (mem_dedup _ _ hq)
    exact hkeys kv hkv
  have hused : ∀ q ∈ fr.used, q = p :=
    fun q hq => hregp q (examineFiles_used_sub _ _ _ _ _ _ _ run.files q hq)
  have inv := examineFiles_inv _ _ _ _ _ _ _ run.files
  have hnrem : p ∉ fr.removed := by
    intro hp
    have hobs : p ∈ fr.obsolete := by
      rw [inv.removed_eq] at hp
      split at hp
      · exact hp
      · cases hp
    obtain ⟨dir, hdir, name, _, _, _, _, hnreg, _⟩ := inv.orphan p hobs
    obtain ⟨q, hq, _⟩ := List.mem_map.mp hdir
    rw [List.append_nil] at hq
    exact hnreg (hregp q hq ▸ hq)
  have hframe := (C09.examineFiles_untouched _ _ _ _ _ _ _ run.files).2.2.2
  have hfile1 : Holds fr.fs p es := holds_congr (hframe p hnrem) hfile
  obtain ⟨registered, hreg⟩ : ∃ r, registeredFor w.cleanup p 1 = some r :=
    occurrences_snapshot_total _ 1
  have hmust : ∀ e ∈ must, tidOf e ∈ registered := by
    intro e he
    obtain ⟨t, k, n, hid, hk1, hk2, hm⟩ := hcov e he
    rw [tidOf_of_id hid]
    have hmem : (t, 1 * n) ∈ (w.cleanup.filter (·.1.1 = p)).map (fun (k, n) => (k.2, n)) := by
      rw [Nat.one_mul]
      exact List.mem_map.mpr ⟨((p, t), n), List.mem_filter.mpr ⟨hm, by simp⟩, rfl⟩
    exact C07.occurrences_cover _ 1 n (Nat.le_refl 1) registered t hmem hreg k hk1 hk2
  obtain ⟨es', h1, h2, h3, h4, h5, h6⟩ := go_keeps o w.cleanup w.skipped 1 _ _ p registered hreg
    must hmust fr.used hused fr.fs [] [] es hf hfile1 hall (fun _ _ h => by cases h) obsT fs wr
    run.snaps
  refine ⟨hnrem, h5, ⟨es', h1, h2, h3, h4⟩, ?_⟩
  intro q hq hqr
  rw [h6 q hq, hframe q hqr]

end GoSnaps.CleanWorld
