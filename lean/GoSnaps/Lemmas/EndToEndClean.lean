/-
Model-level helper lemmas for `Props/Tie/EndToEndClean.lean` (a history of Match* calls, then `Clean`,
about the transliterated code):

* association lists (`alSet` / `alGet`): the key list after an assignment, reads from a list with
  pairwise different keys;
* `clean_keeps_count`: `CleanWorld.clean_keeps` for an arbitrary `-count` (every ordinal
  `1 ≤ k ≤ counter / count` of a registered test is protected);
* `ClInv`: the shape of the model's cleanup registry after ANY run (keys pairwise different).
-/
import GoSnaps.Lemmas.CleanWorld
import GoSnaps.Props.C07World
import GoSnaps.Props.C08

namespace GoSnaps.CleanWorld

open GoSnaps GoSnaps.C06Refine GoSnaps.Wld GoSnaps.C01World
open GoSnaps.C03 (testID)

/-! ## association lists -/

section AL
variable {κ : Type} [DecidableEq κ]

/-- the keys after `m[k] = v`: as before, `k` appended when it is new -/
theorem keys_alSet (m : List (κ × Nat)) (k : κ) (v : Nat) :
    (alSet m k v).map (·.1) = if k ∈ m.map (·.1) then m.map (·.1) else m.map (·.1) ++ [k] := by
  induction m with
  | nil => simp [alSet]
  | cons q m ih =>
    obtain ⟨k', v'⟩ := q
    by_cases hk : k' = k
    · subst hk; simp [alSet]
    · have hk' : ¬ k = k' := fun e => hk e.symm
      by_cases hm : k ∈ m.map (·.1)
      · simp only [alSet, hk, ↓reduceIte, List.map_cons, ih, hm, List.mem_cons, or_true]
      · simp only [alSet, hk, ↓reduceIte, List.map_cons, ih, hm, List.mem_cons, hk', or_self,
          List.cons_append]

theorem mem_keys_alSet (m : List (κ × Nat)) (k k' : κ) (v : Nat) :
    k' ∈ (alSet m k v).map (·.1) ↔ k' ∈ m.map (·.1) ∨ k' = k := by
  rw [keys_alSet]
  split
  · rename_i h
    constructor
    · exact Or.inl
    · rintro (h' | rfl)
      · exact h'
      · exact h
  · simp

theorem nodup_keys_alSet (m : List (κ × Nat)) (k : κ) (v : Nat) (h : (m.map (·.1)).Nodup) :
    ((alSet m k v).map (·.1)).Nodup := by
  rw [keys_alSet]
  split
  · exact h
  · rename_i hk
    rw [List.nodup_append]
    exact ⟨h, by simp, fun a ha b hb e => by
      simp only [List.mem_singleton] at hb; subst hb; subst e; exact hk ha⟩

/-- a list with pairwise different keys reads the value it stores -/
theorem alGet_of_mem_nodup (m : List (κ × Nat)) (hnd : (m.map (·.1)).Nodup) (k : κ) (v : Nat)
    (h : (k, v) ∈ m) : alGet m k = v := by
  induction m with
  | nil => cases h
  | cons q m ih =>
    obtain ⟨k', v'⟩ := q
    simp only [List.map_cons, List.nodup_cons] at hnd
    rcases List.mem_cons.mp h with heq | hm
    · obtain ⟨rfl, rfl⟩ := Prod.mk.inj heq
      simp [alGet]
    · have hne : ¬ k' = k := fun e => hnd.1 (e ▸ List.mem_map.mpr ⟨(k, v), hm, rfl⟩)
      simp only [alGet, hne, ↓reduceIte]
      exact ih hnd.2 hm

/-- a key of the list is stored with the value the list reads -/
theorem mem_alGet_of_key (m : List (κ × Nat)) (k : κ) (h : k ∈ m.map (·.1)) : (k, alGet m k) ∈ m := by
  induction m with
  | nil => cases h
  | cons q m ih =>
    obtain ⟨k', v'⟩ := q
    by_cases hk : k' = k
    · subst hk; simp [alGet]
    · have : k ∈ m.map (·.1) := by
        rcases List.mem_cons.mp h with h' | h'
        · exact absurd h'.symm hk
        · exact h'
      simp only [alGet, hk, ↓reduceIte]
      exact List.mem_cons_of_mem _ (ih this)

end AL

/-! ## `Clean` keeps what the registry covers, for any `-count` -/

/-- every cleanup key of `w` addresses the file `p` ⇒ `examineFiles` hands at most `p` on as `used` -/
theorem used_all_p (o : Oracles) (w : World) (p : Text) (hkeys : ∀ kv ∈ w.cleanup, kv.1.1 = p)
    (sa : List Text) (runOnly : Text) (upd : Bool) (fr : FilesResult)
    (h : examineFiles o w.fs (cleanRegPaths w) sa runOnly upd = some fr) : ∀ q ∈ fr.used, q = p := by
  intro q hq
  have := examineFiles_used_sub _ _ _ _ _ _ _ h q hq
  obtain ⟨kv, hkv, rfl⟩ := List.mem_map.mp (mem_dedup _ _ this)
  exact hkeys kv hkv

/-- a registered snapshot file is never removed by `examineFiles` (no standalone snapshot registered) -/
theorem regPath_not_removed (o : Oracles) (w : World) (p : Text) (hkeys : ∀ kv ∈ w.cleanup, kv.1.1 = p)
    (runOnly : Text) (upd : Bool) (fr : FilesResult)
    (h : examineFiles o w.fs (cleanRegPaths w) [] runOnly upd = some fr) : p ∉ fr.removed := by
  have inv := examineFiles_inv _ _ _ _ _ _ _ h
  intro hp
  have hobs : p ∈ fr.obsolete := by
    rw [inv.removed_eq] at hp
    split at hp
    · exact hp
    · cases hp
  obtain ⟨dir, hdir, name, _, _, _, _, hnreg, _⟩ := inv.orphan p hobs
  obtain ⟨q, hq, _⟩ := List.mem_map.mp hdir
  rw [List.append_nil] at hq
  have : q = p := by
    obtain ⟨kv, hkv, rfl⟩ := List.mem_map.mp (mem_dedup _ _ hq)
    exact hkeys kv hkv
  exact hnreg (this ▸ hq)

/-- **`clean_keeps` for any `-count`.**  World `w`: every cleanup key addresses the file `p`, no
standalone snapshot is registered; `p` holds the `CleanFile` `es`; every entry of `must` is in the file
and is `[t - k]` with `1 ≤ k ≤ n / count` for a registered pair `((p, t), n)` (`n` = the calls of `t`
summed over the `count` executions).  Then for a supported `Clean` with no `-run` filter, in every
mode: `p` is not removed, no id of `must` is reported obsolete, and afterwards `p` holds a `CleanFile`
made of entries of `es` that contains every entry of `must`; every other path that was not removed
reads as before. -/
theorem clean_keeps_count (o : Oracles) (w : World) (sortOpt : Bool) (count : Nat) (p : Text)
    (es must : List Entry)
    (hkeys : ∀ kv ∈ w.cleanup, kv.1.1 = p) (hs : w.scleanup = [])
    (hcov : ∀ e ∈ must, ∃ t k n, e.id = testID t k ∧ 1 ≤ k ∧ k ≤ n / count ∧ ((p, t), n) ∈ w.cleanup)
    (hf : CleanFile es) (hfile : Holds w.fs p es) (hall : ∀ e ∈ must, e ∈ es)
    (sa : List Text) (fr : FilesResult) (obsT : List Text) (fs : FS) (wr : List Text)
    (run : CleanRun o w sortOpt [] count sa fr obsT fs wr) :
    p ∉ fr.removed ∧ (∀ e ∈ must, tidOf e ∉ obsT) ∧
    (∃ es', CleanFile es' ∧ Holds fs p es' ∧ (∀ e ∈ must, e ∈ es') ∧ (∀ e ∈ es', e ∈ es)) ∧
    (∀ q, q ≠ p → q ∉ fr.removed → fsRead fs q = fsRead w.fs q) := by
  have hsa : sa = [] := by
    have := run.occ
    rw [hs, occurrences_nil] at this
    exact (Option.some.inj this).symm
  subst hsa
  have hused : ∀ q ∈ fr.used, q = p := used_all_p o w p hkeys [] [] _ fr run.files
  have hnrem : p ∉ fr.removed := regPath_not_removed o w p hkeys [] _ fr run.files
  have hframe := (C09.examineFiles_untouched _ _ _ _ _ _ _ run.files).2.2.2
  have hfile1 : Holds fr.fs p es := holds_congr (hframe p hnrem) hfile
  obtain ⟨registered, hreg⟩ : ∃ r, registeredFor w.cleanup p count = some r :=
    occurrences_snapshot_total _ count
  have hmust : ∀ e ∈ must, tidOf e ∈ registered := by
    intro e he
    obtain ⟨t, k, n, hid, hk1, hk2, hm⟩ := hcov e he
    rw [tidOf_of_id hid]
    have hmem : (t, n) ∈ (w.cleanup.filter (·.1.1 = p)).map (fun (k, n) => (k.2, n)) :=
      List.mem_map.mpr ⟨((p, t), n), List.mem_filter.mpr ⟨hm, by simp⟩, rfl⟩
    obtain ⟨x, hx, hxm⟩ := C07.occurrences_cover_div _ count snapshotOccFmt registered t n hmem hreg k hk1 hk2
    rw [snapshotOccFmt_eq] at hx
    cases hx; exact hxm
  obtain ⟨es', h1, h2, h3, h4, h5, h6⟩ := go_keeps o w.cleanup w.skipped count _ _ p registered hreg
    must hmust fr.used hused fr.fs [] [] es hf hfile1 hall (fun _ _ h => by cases h) obsT fs wr
    run.snaps
  refine ⟨hnrem, h5, ⟨es', h1, h2, h3, h4⟩, ?_⟩
  intro q hq hqr
  rw [h6 q hq, hframe q hqr]

/-! ## the model covers `Clean` without a `-run` filter

With `runOnly = ""` no oracle table is consulted, `getTestID` never panics and the formats never fail; the
two remaining ways in which the model of `Clean` has no answer are: a listed snapshot file that cannot be
read, and `Sort` on ids on which `natural.Less` is not a total order (where `slices.SortFunc` promises
nothing). -/

theorem foldl_some_of_step {α β : Type} (f : Option α → β → Option α) (l : List β)
    (hstep : ∀ a x, x ∈ l → ∃ a', f (some a) x = some a') :
    ∀ a, ∃ a', l.foldl f (some a) = some a' := by
  induction l with
  | nil => intro a; exact ⟨a, rfl⟩
  | cons x l ih =>
    intro a
    obtain ⟨a1, h1⟩ := hstep a x (by simp)
    rw [List.foldl_cons, h1]
    exact ih (fun a x hx => hstep a x (by simp [hx])) a1

/-- `examineFiles` with no `-run` filter always has a result -/
theorem examineFiles_noRun_some (o : Oracles) (fs : FS) (regPaths standalone : List Text) (update : Bool) :
    ∃ fr, examineFiles o fs regPaths standalone [] update = some fr := by
  rw [examineFiles_eq]
  apply foldl_some_of_step
  intro r0 dir _
  unfold filesOuter
  simp only
  apply foldl_some_of_step
  intro r x _
  unfold filesInner
  simp only [C08.isFileSkipped_runOnly_empty]
  repeat' split
  all_goals exact ⟨_, rfl⟩

/-- one file step on a `CleanFile` has a result when `Sort` is asked only on totally ordered ids -/
theorem cleanOutcome_ok_of_total (K : Text → Bool) (es : List Entry) (p : Text) (fs : FS) (update sort : Bool)
    (hto : sort = true → TotalOn (es.map tidOf)) :
    ∃ st fs1 w1, cleanOutcome K es p fs update sort = .ok st fs1 w1 := by
  unfold cleanOutcome
  simp only
  split
  · exact ⟨_, _, _, rfl⟩
  · by_cases hs : (sort && !(isSortedNat (es.map tidOf))) = true
    · have hsort : sort = true := by
        cases sort with
        | true => rfl
        | false => simp at hs
      simp only [hs, ↓reduceIte, sort_check_passes _ (hto hsort), Bool.not_true, Bool.and_false,
        Bool.false_eq_true]
      exact ⟨_, _, _, rfl⟩
    · simp only [hs, Bool.false_eq_true, ↓reduceIte, Bool.false_and]
      exact ⟨_, _, _, rfl⟩

/-- the file loop over a list of used paths that are all the existing `CleanFile` `p` has a result -/
theorem go_ok_of_total (o : Oracles) (cleanup : List (RegKey × Nat)) (skipped : List Text) (count : Nat)
    (update sort : Bool) (p : Text) :
    ∀ (used : List Text), (∀ q ∈ used, q = p) →
    ∀ (fs : FS) (obs written : List Text) (es : List Entry),
      CleanFile es → fsRead fs p = some (render es) → (sort = true → TotalOn (es.map tidOf)) →
      ∃ obs' fs' w', examineSnaps.go o cleanup skipped [] count update sort used fs obs written =
        .ok obs' fs' w' := by
  intro used
  induction used with
  | nil => intro _ fs obs written es _ _ _; exact ⟨_, _, _, examineSnaps_go_nil _ _ _ _ _ _ _ _ _ _⟩
  | cons q rest ih =>
    intro hused fs obs written es hf hread hto
    have hq : q = p := hused q (by simp)
    subst hq
    have hrest : ∀ q' ∈ rest, q' = q := fun q' hq' => hused q' (by simp [hq'])
    obtain ⟨registered, hreg⟩ : ∃ r, registeredFor cleanup q count = some r :=
      occurrences_snapshot_total _ count
    rw [examineSnaps_go_cons_clean o registered skipped [] fs cleanup q rest count update sort
      obs written es hf hread hreg (fun e _ => classified_noRun o registered skipped _)]
    obtain ⟨st, fs1, w1, hco⟩ := cleanOutcome_ok_of_total (keptId o registered skipped []) es q fs update
      sort hto
    rw [hco]
    simp only
    obtain ⟨_, hfs⟩ := cleanOutcome_ok _ es q fs update sort st fs1 w1 hco
    rcases hfs with ⟨rfl, rfl⟩ | ⟨ids', hperm, rfl, rfl⟩
    · exact ih hrest fs1 _ _ es hf hread hto
    · obtain ⟨hf2, hsub⟩ := cleanFile_reorder es hf
        (fun e => keptId o registered skipped [] (tidOf e) || !update) ids' hperm
      refine ih hrest _ _ _ _ hf2 (fsRead_fsWrite _ _ _) (fun hs => (hto hs).mono ?_)
      intro x hx
      obtain ⟨e, he, rfl⟩ := List.mem_map.mp hx
      exact List.mem_map.mpr ⟨e, (hsub e he).1, rfl⟩

/-- the last branch of `clean`: the three stages have results -/
theorem clean_of_stages (o : Oracles) (w : World) (sortOpt : Bool) (runOnly : Text) (count : Nat)
    (hc : count ≠ 0) (standalone : List Text) (fr : FilesResult) (obsT : List Text) (fs : FS) (wr : List Text)
    (hocc : occurrences w.scleanup count standaloneOccFmt = some standalone)
    (hfiles : examineFiles o w.fs (cleanRegPaths w) standalone runOnly
      (Generated.cleanFilesUpdate w.env sortOpt) = some fr)
    (hsn : examineSnaps o fr.fs w.cleanup w.skipped fr.used runOnly count
      (Generated.cleanSnapsUpdate w.env sortOpt) (Generated.cleanSnapsSort w.env sortOpt) = .ok obsT fs wr) :
    CleanRun o w sortOpt runOnly count standalone fr obsT fs wr := by
  refine ⟨hc, hocc, hfiles, hsn, ?_⟩
  unfold cleanRegPaths at hfiles
  unfold clean
  simp only [hc, ↓reduceIte, hocc, hfiles, hsn]
  rfl

/-- **the model covers `Clean`** of a world whose registry knows only the file `p` (no standalone
snapshot), with no `-run` filter and `-count > 0`, whenever `p` holds a `CleanFile` `es`, exists if any
test registered it, and — if `Sort` is requested — `natural.Less` is a total order on the ids of `es`. -/
theorem clean_supported_noRun (o : Oracles) (w : World) (sortOpt : Bool) (count : Nat) (p : Text)
    (es : List Entry) (hcnt : count > 0)
    (hkeys : ∀ kv ∈ w.cleanup, kv.1.1 = p) (hs : w.scleanup = [])
    (hf : CleanFile es) (hfile : Holds w.fs p es) (hex : w.cleanup ≠ [] → fsRead w.fs p ≠ none)
    (hto : sortOpt = true → TotalOn (es.map tidOf)) :
    (clean o w sortOpt [] count).2.unsupported = none := by
  have hocc : occurrences w.scleanup count standaloneOccFmt = some [] := by rw [hs]; rfl
  obtain ⟨fr, hfiles⟩ := examineFiles_noRun_some o w.fs (cleanRegPaths w) []
    (Generated.cleanFilesUpdate w.env sortOpt)
  have hused : ∀ q ∈ fr.used, q = p := used_all_p o w p hkeys [] [] _ fr hfiles
  have hnrem : p ∉ fr.removed := regPath_not_removed o w p hkeys [] _ fr hfiles
  have hframe := (C09.examineFiles_untouched _ _ _ _ _ _ _ hfiles).2.2.2
  have hsn : ∃ obsT fs wr, examineSnaps o fr.fs w.cleanup w.skipped fr.used [] count
      (Generated.cleanSnapsUpdate w.env sortOpt) (Generated.cleanSnapsSort w.env sortOpt) = .ok obsT fs wr := by
    by_cases hu : fr.used = []
    · rw [hu]; exact ⟨_, _, _, rfl⟩
    · have hne : w.cleanup ≠ [] := by
        intro h0
        obtain ⟨q, hq⟩ := List.exists_mem_of_ne_nil _ hu
        have := examineFiles_used_sub _ _ _ _ _ _ _ hfiles q hq
        unfold cleanRegPaths at this
        rw [h0] at this
        exact absurd (mem_dedup _ _ this) (by simp)
      have hread : fsRead fr.fs p = some (render es) := by
        rw [hframe p hnrem]
        rcases hfile with h1 | ⟨h1, _⟩
        · exact h1
        · exact absurd h1 (hex hne)
      refine go_ok_of_total o w.cleanup w.skipped count _ _ p fr.used hused fr.fs [] [] es hf hread ?_
      intro hsort
      apply hto
      unfold Generated.cleanSnapsSort at hsort
      simp only [Bool.and_eq_true] at hsort
      exact hsort.1
  obtain ⟨obsT, fs, wr, hsn⟩ := hsn
  exact (clean_of_stages o w sortOpt [] count (by omega) [] fr obsT fs wr hocc hfiles hsn).supported

/-! ## the snapshot file stays `Good` through ANY history, in ANY mode

`C01World.record_run` / `replay_run` follow the file through a history whose calls all record, or all
replay.  Here nothing is assumed about what the calls find: an entry may be created, found equal, found
different and updated, found different and reported, or missing and reported (CI) — in every case the file
holds a `Good` entry list afterwards, whose headers are initial ones or headers of called tests and whose
bodies are initial ones or texts of the history.  NoShadow is asked of everything in play (`NoShadowAll`):
no line of a text, and no body line of the initial file, is a header of the initial file or `[t - k]` for a
called test `t` (finding D9 otherwise). -/

/-- one call, any mode: what it does to a `Good` file -/
theorem entryTail_keeps_good (w : World) (c : Cfg) (p rel id s : Text) (cmp : Cmp) (es : List Entry)
    (hfile : Holds w.fs p es) (hgood : Good es) (hid : GoodId id) (hb : GoodBody s)
    (hold : ∀ o ∈ es, o.id ∉ lines s) (hself : id ∉ lines s) (hnb : ∀ o ∈ es, id ∉ lines o.body) :
    ∃ es', Holds (entryTail w c p rel id s cmp).1.fs p es' ∧ Good es' ∧
      (∀ o ∈ es', o.id = id ∨ o.id ∈ ids es) ∧ (∀ o ∈ es', o.body = s ∨ o.body ∈ es.map (·.body)) ∧
      ((fsRead w.fs p ≠ none ∨ Generated.shouldCreate w.env c.update = true) →
        fsRead (entryTail w c p rel id s cmp).1.fs p ≠ none) ∧
      (∀ o ∈ es, o.id ∈ ids es') := by
  have hidm : ∀ o ∈ es, o.id = id ∨ o.id ∈ ids es := fun o ho => Or.inr (List.mem_map.mpr ⟨o, ho, rfl⟩)
  have hbm : ∀ o ∈ es, o.body = s ∨ o.body ∈ es.map (·.body) :=
    fun o ho => Or.inr (List.mem_map.mpr ⟨o, ho, rfl⟩)
  have hmono : ∀ o ∈ es, o.id ∈ ids es := fun o ho => List.mem_map.mpr ⟨o, ho, rfl⟩
  by_cases hm : id ∈ ids es
  · obtain ⟨e, he, hide⟩ := List.mem_map.mp hm
    obtain ⟨pre, post, hsplit⟩ := List.append_of_mem he
    subst hsplit
    have hlook := good_lookup_split hgood
    have hread : fsRead w.fs p = some (render (pre ++ e :: post)) := hfile.some_of_ne_nil (by simp)
    have hq : (fsRead w.fs p).bind (getPrev id) = some (e.body, (fileLines pre).length + 2) := by
      rw [hfile.lookup id, ← hide]; exact hlook
    have hex : fsRead w.fs p ≠ none := by rw [hread]; simp
    by_cases heq : cmpText cmp e.body = cmpText cmp s
    · rw [entryTail_found_eq w c p rel id s cmp e.body _ hq heq]
      exact ⟨_, hfile, hgood, hidm, hbm, fun _ => hex, hmono⟩
    · cases hu : Generated.shouldUpdate w.env c.update with
      | false =>
        rw [(entryTail_found_ne_ro w c p rel id s cmp e.body _ hq heq hu).1]
        exact ⟨_, hfile, hgood, hidm, hbm, fun _ => hex, hmono⟩
      | true =>
        rw [entryTail_found_ne_upd w c p rel id s cmp e.body _ _ hread (by rw [← hide]; exact hlook) heq hu]
        refine ⟨pre ++ ⟨e.id, s⟩ :: post, Holds.write _ (by rw [← hide]; exact good_update_split hgood s),
          good_replace hgood hb hold, ?_, ?_, fun _ => by simp [C19.fsRead_fsWrite_same], ?_⟩
        · intro o ho
          rcases List.mem_append.mp ho with ho | ho
          · exact hidm o (by simp [ho])
          · rcases List.mem_cons.mp ho with rfl | ho
            · exact Or.inl hide
            · exact hidm o (by simp [ho])
        · intro o ho
          rcases List.mem_append.mp ho with ho | ho
          · exact hbm o (by simp [ho])
          · rcases List.mem_cons.mp ho with rfl | ho
            · exact Or.inl rfl
            · exact hbm o (by simp [ho])
        · intro o ho
          simp only [ids, List.map_append, List.map_cons, List.mem_append, List.mem_cons, List.mem_map]
          rcases List.mem_append.mp ho with ho | ho
          · exact Or.inl ⟨o, ho, rfl⟩
          · rcases List.mem_cons.mp ho with rfl | ho
            · exact Or.inr (Or.inl rfl)
            · exact Or.inr (Or.inr ⟨o, ho, rfl⟩)
  · have hfresh : id ∉ fileLines es := not_mem_fileLines id es hid.2.2.1 hid.2.2.2
      (fun o ho => ⟨fun h => hm (h ▸ List.mem_map.mpr ⟨o, ho, rfl⟩), hnb o ho⟩)
    have hq : (fsRead w.fs p).bind (getPrev id) = none := by
      rw [hfile.lookup id]; exact good_lookup_absent hgood hfresh
    cases hc : Generated.shouldCreate w.env c.update with
    | true =>
      rw [entryTail_absent w c p rel id s cmp hq hc, hfile.fileOf, (add_refines es id s).1]
      refine ⟨es ++ [⟨id, s⟩], Holds.write _ rfl, hgood.add hid hfresh hb hold hself, ?_, ?_,
        fun _ => by simp [C19.fsRead_fsWrite_same],
        fun o ho => List.mem_map.mpr ⟨o, List.mem_append.mpr (Or.inl ho), rfl⟩⟩
      · intro o ho
        rcases List.mem_append.mp ho with ho | ho
        · exact hidm o ho
        · simp only [List.mem_singleton] at ho; subst ho; exact Or.inl rfl
      · intro o ho
        rcases List.mem_append.mp ho with ho | ho
        · exact hbm o ho
        · simp only [List.mem_singleton] at ho; subst ho; exact Or.inl rfl
    | false =>
      rw [entryTail_absent_ro w c p rel id s cmp hq hc]
      refine ⟨_, hfile, hgood, hidm, hbm, fun hor => ?_, hmono⟩
      rcases hor with h' | h'
      · exact h'
      · cases h'

/-- NoShadow for everything in play: initial entries `es₀`, called test names `N`, texts `T` -/
structure NoShadowAll (es₀ : List Entry) (N T : List Text) : Prop where
  names : ∀ t ∈ N, NoNL t
  bodies : ∀ s ∈ T, GoodBody s
  oldIds : ∀ s ∈ T, ∀ o ∈ es₀, o.id ∉ lines s
  newIds : ∀ s ∈ T, ∀ t ∈ N, ∀ k, testID t k ∉ lines s
  oldBodies : ∀ o ∈ es₀, ∀ t ∈ N, ∀ k, testID t k ∉ lines o.body

/-- what the file holds at any moment of the run -/
structure FileInv (es₀ : List Entry) (N T : List Text) (es : List Entry) : Prop where
  good : Good es
  ids : ∀ o ∈ es, o.id ∈ ids es₀ ∨ ∃ t ∈ N, ∃ k, o.id = testID t k
  bodies : ∀ o ∈ es, o.body ∈ es₀.map (·.body) ∨ o.body ∈ T

theorem FileInv.init {es₀ : List Entry} (N T : List Text) (h : Good es₀) : FileInv es₀ N T es₀ :=
  ⟨h, fun o ho => Or.inl (List.mem_map.mpr ⟨o, ho, rfl⟩), fun o ho => Or.inl (List.mem_map.mpr ⟨o, ho, rfl⟩)⟩

/-- **the file through any history, any mode** -/
theorem run_keeps_good (c : Cfg) (caller p rel : Text)
    (hsp : ∀ t, snapshotPath c caller t false = (p, some rel)) (es₀ : List Entry) (N T : List Text)
    (hns : NoShadowAll es₀ N T) (h : List Step) :
    ∀ (w : World) (es : List Entry), (∀ t ∈ calledNames h, t ∈ N) → (∀ s ∈ texts h, s ∈ T) →
      Holds w.fs p es → FileInv es₀ N T es →
      ∃ es', Holds (run c caller w h).1.fs p es' ∧ FileInv es₀ N T es' ∧
        ((fsRead w.fs p ≠ none ∨ (Generated.shouldCreate w.env c.update = true ∧ calledNames h ≠ [])) →
          fsRead (run c caller w h).1.fs p ≠ none) ∧
        (∀ o ∈ es, o.id ∈ ids es') := by
  induction h with
  | nil =>
    intro w es _ _ hfile hinv
    refine ⟨es, hfile, hinv, fun hor => ?_, fun o ho => List.mem_map.mpr ⟨o, ho, rfl⟩⟩
    rcases hor with h' | ⟨_, h'⟩
    · exact h'
    · exact absurd rfl h'
  | cons st h ih =>
    intro w es hN hT hfile hinv
    cases st with
    | call t s cmp x =>
      have ht : t ∈ N := hN t (by simp [calledNames])
      have hs : s ∈ T := hT s (by simp [texts])
      have hstep : (run c caller w (.call t s cmp x :: h)).1 =
          (run c caller (entryTail (bumped w p t x) c p rel
            (testID t (alGet w.running (p, t) + 1)) s cmp).1 h).1 := by
        simp only [run, step, matchEntry_eq w c caller t x cmp s p rel (hsp t)]
      rw [hstep]
      obtain ⟨es1, h1, g1, i1, b1, x1, mo1⟩ := entryTail_keeps_good (bumped w p t x) c p rel
        (testID t (alGet w.running (p, t) + 1)) s cmp es hfile hinv.good
        (goodId_testID t _ (hns.names t ht)) (hns.bodies s hs)
        (fun o ho => by
          rcases hinv.ids o ho with hi | ⟨t', ht', k', hi⟩
          · obtain ⟨o₀, ho₀, e⟩ := List.mem_map.mp hi
            rw [← e]; exact hns.oldIds s hs o₀ ho₀
          · rw [hi]; exact hns.newIds s hs t' ht' k')
        (hns.newIds s hs t ht _)
        (fun o ho => by
          rcases hinv.bodies o ho with hb | hb
          · obtain ⟨o₀, ho₀, e⟩ := List.mem_map.mp hb
            rw [← e]; exact hns.oldBodies o₀ ho₀ t ht _
          · exact hns.newIds _ hb t ht _)
      have hinv1 : FileInv es₀ N T es1 := by
        refine ⟨g1, fun o ho => ?_, fun o ho => ?_⟩
        · rcases i1 o ho with e | e
          · exact Or.inr ⟨t, ht, _, e⟩
          · obtain ⟨o', ho', e'⟩ := List.mem_map.mp e
            rw [← e']; exact hinv.ids o' ho'
        · rcases b1 o ho with e | e
          · rw [e]; exact Or.inr hs
          · obtain ⟨o', ho', e'⟩ := List.mem_map.mp e
            rw [← e']; exact hinv.bodies o' ho'
      obtain ⟨es2, h2, g2, x2, mo2⟩ := ih _ es1 (fun t' ht' => hN t' (by simp [calledNames, ht']))
        (fun s' hs' => hT s' (by simp [texts, hs'])) h1 hinv1
      refine ⟨es2, h2, g2, fun hor => x2 (Or.inl (x1 ?_)), fun o ho => ?_⟩
      · rcases hor with h' | ⟨h', _⟩
        · exact Or.inl h'
        · exact Or.inr h'
      · obtain ⟨o1, ho1, e1⟩ := List.mem_map.mp (mo1 o ho)
        rw [← e1]; exact mo2 o1 ho1
    | done x =>
      have hstep : (run c caller w (.done x :: h)).1 = (run c caller (endTest w x) h).1 := by
        simp only [run, step]
      rw [hstep]
      obtain ⟨es2, h2, g2, x2, mo2⟩ := ih (endTest w x) es
        (fun t' ht' => hN t' (by simpa [calledNames] using ht'))
        (fun s' hs' => hT s' (by simpa [texts] using hs')) (by rw [endTest_fs]; exact hfile) hinv
      refine ⟨es2, h2, g2, fun hor => x2 ?_, mo2⟩
      rw [endTest_fs, endTest_env]
      rcases hor with h' | ⟨h', h''⟩
      · exact Or.inl h'
      · exact Or.inr ⟨h', by simpa [calledNames] using h''⟩

/-! ## the ordinal a call obtains is at most the number of calls of its test

`running` is reset when a test execution ends, `cleanup` is not: the running counter never exceeds the
cumulative one.  So the ordinal `running + 1` a call obtains is at most the cumulative counter after the
call, hence at most the number of calls of that test in the whole history — the slot it addresses is one
`occurrences` protects when `-count=1`. -/

theorem run_running_le_cleanup (c : Cfg) (caller : Text) (h : List Step) :
    ∀ w : World, (∀ k, alGet w.running k ≤ alGet w.cleanup k) →
      ∀ k, alGet (run c caller w h).1.running k ≤ alGet (run c caller w h).1.cleanup k := by
  induction h with
  | nil => intro w hw k; exact hw k
  | cons st h ih =>
    intro w hw
    cases st with
    | call t s cmp x =>
      have hstep : (run c caller w (.call t s cmp x :: h)).1 =
          (run c caller (matchEntry w c caller t x cmp (.ok s)).1 h).1 := by simp only [run, step]
      rw [hstep]
      apply ih
      intro k
      obtain ⟨m1, m2, _⟩ := matchEntry_regs w c caller t x cmp (.ok s)
      rw [m1, m2]
      by_cases hk : k = ((snapshotPath c caller t false).1, t)
      · subst hk
        rw [regBump_running_same, regBump_cleanup_same]
        exact Nat.succ_le_succ (hw _)
      · rw [regBump_running_other _ _ _ hk, regBump_cleanup_other _ _ _ hk]
        exact hw k
    | done x =>
      have hstep : (run c caller w (.done x :: h)).1 = (run c caller (endTest w x) h).1 := by
        simp only [run, step]
      rw [hstep]
      apply ih
      intro k
      rw [endTest_running, endTest_cleanup]
      split
      · exact Nat.zero_le _
      · exact hw k

/-- **the ordinal of a call**: in a history run from a fresh process, the call of `t` that comes after `h1`
    obtains an ordinal (`running + 1`) that is at most the number of calls of `t` in the whole history -/
theorem ordinal_le_calls (env : Generated.Env) (fs₀ : FS) (c : Cfg) (caller p : Text)
    (hsp : ∀ t, (snapshotPath c caller t false).1 = p) (h1 h2 : List Step) (t s : Text) (cmp : Cmp) (x : Nat) :
    alGet (run c caller { env := env, fs := fs₀ } h1).1.running (p, t) + 1 ≤
      (calledNames (h1 ++ .call t s cmp x :: h2)).count t := by
  have hle := run_running_le_cleanup c caller h1 { env := env, fs := fs₀ } (fun _ => Nat.le_refl _) (p, t)
  have hreg := run_regInv c caller p hsp h1 _ [] (RegInv.fresh p env fs₀)
  rw [hreg.get t, List.append_nil, List.count_reverse] at hle
  have : (calledNames (h1 ++ .call t s cmp x :: h2)).count t =
      (calledNames h1).count t + 1 + (calledNames h2).count t := by
    have happ : ∀ a b : List Step, calledNames (a ++ b) = calledNames a ++ calledNames b := by
      intro a b
      induction a with
      | nil => rfl
      | cons st a ih => cases st <;> simp [calledNames, ih]
    rw [happ]
    simp [calledNames, List.count_append]
    omega
  omega

/-- a history in two parts -/
theorem run_append (c : Cfg) (caller : Text) (h1 h2 : List Step) : ∀ w : World,
    (run c caller w (h1 ++ h2)).1 = (run c caller (run c caller w h1).1 h2).1 := by
  induction h1 with
  | nil => intro w; rfl
  | cons st h1 ih => intro w; simp only [List.cons_append, run]; exact ih _

end GoSnaps.CleanWorld
