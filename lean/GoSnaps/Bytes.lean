/-
L0: bytes and lines.  Models the Go standard-library primitives the snapshot code is built
from: `strings.Split(s, "\n")`, `strings.Join(ls, "\n")`, `bufio.ScanLines`,
`strings.TrimSuffix(s, "\n")`.  Core Lean only (no Mathlib) so the driver links natively.
-/
namespace GoSnaps

abbrev Byte := UInt8
abbrev Text := List Byte
abbrev Line := List Byte

def nl : Byte := 10
def cr : Byte := 13

/-- `strings.Split(s, "\n")`: always at least one segment. -/
def lines : Text → List Line
  | [] => [[]]
  | c :: cs =>
    if c = nl then [] :: lines cs
    else match lines cs with
      | [] => [[c]]            -- unreachable (`lines_ne_nil`)
      | l :: ls => (c :: l) :: ls

theorem lines_ne_nil (s : Text) : lines s ≠ [] := by
  cases s with
  | nil => simp [lines]
  | cons c cs =>
    simp only [lines]
    split
    · simp
    · split <;> simp

/-- `strings.Join(ls, "\n")` -/
def unlines : List Line → Text
  | [] => []
  | [l] => l
  | l :: m :: ls => l ++ nl :: unlines (m :: ls)

theorem unlines_lines (s : Text) : unlines (lines s) = s := by
  induction s with
  | nil => simp [lines, unlines]
  | cons c cs ih =>
    simp only [lines]
    split
    · rename_i h
      have := lines_ne_nil cs
      cases hq : lines cs with
      | nil => exact absurd hq this
      | cons l ls => rw [hq] at ih; simp [unlines, ih, h]
    · cases hq : lines cs with
      | nil => exact absurd hq (lines_ne_nil cs)
      | cons l ls =>
        rw [hq] at ih
        cases ls with
        | nil => simp [unlines] at ih ⊢; exact ih
        | cons m ms => simp [unlines] at ih ⊢; exact ih

def NoNL (l : Line) : Prop := nl ∉ l

instance (l : Line) : Decidable (NoNL l) := by unfold NoNL; infer_instance

theorem lines_append_nl (a b : Text) : lines (a ++ nl :: b) = lines a ++ lines b := by
  induction a with
  | nil => simp [lines]
  | cons c cs ih =>
    simp only [List.cons_append, lines]
    split
    · simp [ih]
    · rw [ih]
      cases hq : lines cs with
      | nil => exact absurd hq (lines_ne_nil cs)
      | cons l ls => simp

theorem lines_of_noNL (l : Line) (h : NoNL l) : lines l = [l] := by
  induction l with
  | nil => simp [lines]
  | cons c cs ih =>
    have hc : c ≠ nl := by intro e; apply h; simp [e]
    have hcs : NoNL cs := by intro e; apply h; simp [e]
    simp [lines, hc, ih hcs]

/-- every segment produced by `lines` is newline-free -/
theorem noNL_of_mem_lines (s : Text) : ∀ l ∈ lines s, NoNL l := by
  induction s with
  | nil => simp [lines, NoNL]
  | cons c cs ih =>
    simp only [lines]
    split
    · intro l hl
      simp only [List.mem_cons] at hl
      rcases hl with rfl | hl
      · simp [NoNL]
      · exact ih l hl
    · rename_i hc
      cases hq : lines cs with
      | nil => exact absurd hq (lines_ne_nil cs)
      | cons m ms =>
        rw [hq] at ih
        intro l hl
        simp only [List.mem_cons] at hl
        rcases hl with rfl | hl
        · have := ih m (by simp)
          unfold NoNL at *
          simp only [List.mem_cons, not_or]
          exact ⟨fun e => hc e.symm, this⟩
        · exact ih l (by simp [hl])

/-- one trailing carriage return is dropped by `bufio.ScanLines` (`dropCR`) -/
def dropCR (l : Line) : Line :=
  match l.getLast? with
  | some c => if c = cr then l.dropLast else l
  | none => l

/-- `bufio.ScanLines` run to completion over the whole input: split at `\n`, no empty final
token, one trailing `\r` stripped from every token. -/
def scan (t : Text) : List Line :=
  let ls := lines t
  let ls' := if ls.getLast? = some [] then ls.dropLast else ls
  ls'.map dropCR

def NoCRLine (l : Line) : Prop := l.getLast? ≠ some cr

instance (l : Line) : Decidable (NoCRLine l) := by unfold NoCRLine; infer_instance

theorem dropCR_id (l : Line) (h : NoCRLine l) : dropCR l = l := by
  unfold dropCR NoCRLine at *
  cases hq : l.getLast? with
  | none => rfl
  | some c =>
    have : c ≠ cr := by intro e; apply h; rw [hq, e]
    simp [this]

/-- `strings.TrimSuffix(s, "\n")` -/
def trimNL (t : Text) : Text :=
  match t.getLast? with
  | some c => if c = nl then t.dropLast else t
  | none => t

theorem trimNL_append (b : Text) : trimNL (b ++ [nl]) = b := by
  simp [trimNL]

theorem flatMap_lines (b : Text) : (lines b).flatMap (· ++ [nl]) = b ++ [nl] := by
  induction b with
  | nil => simp [lines]
  | cons c cs ih =>
    simp only [lines]
    split
    · rename_i h; simp [ih, h]
    · cases hq : lines cs with
      | nil => exact absurd hq (lines_ne_nil cs)
      | cons l ls => rw [hq] at ih; simp at ih ⊢; exact ih

/-- `strings.HasPrefix` -/
def hasPrefix (s p : Text) : Bool := p.isPrefixOf s

/-- `strings.HasSuffix` -/
def hasSuffix (s p : Text) : Bool := p.isSuffixOf s

/-- `strings.Index(s, sep)`; `none` = -1 -/
def indexOf (s sep : Text) : Option Nat :=
  go s 0
where
  go : Text → Nat → Option Nat
    | [], n => if sep = [] then some n else none
    | c :: cs, n => if sep.isPrefixOf (c :: cs) then some n else go cs (n + 1)

/-- `strings.Contains` -/
def containsSub (s sep : Text) : Bool := (indexOf s sep).isSome

/-- `strings.ReplaceAll(s, old, new)` for a single-byte `old` -/
def replaceByte (s : Text) (old : Byte) (new : Text) : Text :=
  s.flatMap (fun c => if c = old then new else [c])

def ofString (s : String) : Text := s.toUTF8.toList

/-- decimal digits of `n`, most significant first (`fuel` bounds the number of digits) -/
def natToTextAux : Nat → Nat → Text → Text
  | 0, _, acc => acc
  | fuel + 1, n, acc =>
    let acc' := UInt8.ofNat (48 + n % 10) :: acc
    if n < 10 then acc' else natToTextAux fuel (n / 10) acc'

/-- decimal rendering, `strconv.Itoa` / `%d` for naturals (kernel-reducible, unlike `toString`) -/
def natToText (n : Nat) : Text := natToTextAux (n + 1) n []

end GoSnaps

namespace GoSnaps
example : natToText 0 = [48] ∧ natToText 7 = [55] ∧ natToText 10 = [49, 48] ∧ natToText 1203 = [49, 50, 48, 51] := by decide
end GoSnaps
