/-
Go run-time semantics needed by the transliterated *effectful* functions of
`GoSnaps.Generated.FuncsIO` (tools/extract/funcs.go): `error` values, the file system calls of
snaps/snapshot.go and snaps/clean.go, `*os.File` handles with a position, `bufio.Scanner` as built
by `snapshotScanner`, and the mock-able part of `testing.T`.

Conventions (continuing lean/GoSnaps/GoSem.lean)
* The file system is the model's `FS` (path ↦ contents of regular files; directories are implicit).
* Every file-system call can fail: the failure oracle `io : IOFail` answers, per call kind and path,
  `some msg` (the call returns a non-nil error with that text and has no effect) or `none` (the call
  behaves as documented).  `IOFail.never` is the world in which only "file does not exist" errors
  occur; the tie theorems relate the transliterations to the model under `IOFail.never`, and the
  failure branches are the subject of separate theorems stated for every oracle.
* A Go `error` is `Err`: `nil`, the package variable `errSnapNotFound`, or any other error with
  its `Error()` text.  `errors.Is(err, errSnapNotFound)` is `err = .snapNotFound` (no wrapping
  happens in the translated code).
* `bufio.Scanner` with `Buffer([]byte{}, math.MaxInt)` (obligation `scannerLimit` of
  Generated/Structural) over an in-memory reader or a regular file never reports an error and
  tokenises like `bufio.ScanLines` run to completion = the model's `scan`; a `Scanner` is the
  current token and the tokens still to come.  `for s.Scan() { B }` is transliterated as a loop over
  `Scanner.fuel s` (one more iteration than tokens remain) whose body starts with
  `s := s.scan; if !s.ok then break` — every iteration consumes a token, so the bound is never the
  reason for leaving the loop (each tie theorem proves the result equal to a fuel-free model).
-/
import GoSnaps.Model
import GoSnaps.GoSem
import GoSnaps.Natural
namespace GoSnaps.GoIO
open GoSnaps

/-- Go `error` values flowing through the translated functions -/
inductive Err
  | nil
  | snapNotFound
  | other (msg : Text)
deriving Repr, DecidableEq

/-- `err != nil` -/
def Err.notNil : Err → Bool
  | .nil => false
  | _ => true

/-- `err == nil` -/
def Err.isNil (e : Err) : Bool := !e.notNil

/-- `errors.Is(err, errSnapNotFound)` -/
def Err.isSnapNotFound : Err → Bool
  | .snapNotFound => true
  | _ => false

/-- what `t.Error(err)` prints: `err.Error()` -/
def Err.text : Err → Text
  | .nil => ofString "<nil>"
  | .snapNotFound => Generated.go_errSnapNotFound
  | .other m => m

inductive IOOp
  | readFile | mkdirAll | openAppend | openRDWR | write | writeFile | remove | readDir | stat
deriving Repr, DecidableEq

/-- failure oracle: `some msg` = this call fails with that error text and has no effect -/
abbrev IOFail := IOOp → Text → Option Text

def IOFail.never : IOFail := fun _ _ => none

def enoent (op : String) (p : Text) : Text := ofString op ++ ofString " " ++ p ++ ofString ": no such file or directory"

/-- `os.ReadFile(p)` -/
def readFile (io : IOFail) (fs : FS) (p : Text) : Text × Err :=
  match io .readFile p with
  | some m => ([], .other m)
  | none =>
    match fsRead fs p with
    | some c => (c, .nil)
    | none => ([], .other (enoent "open" p))

/-- `os.MkdirAll(dir, os.ModePerm)`: directories are implicit in `FS` -/
def mkdirAll (io : IOFail) (fs : FS) (dir : Text) : FS × Err :=
  match io .mkdirAll dir with
  | some m => (fs, .other m)
  | none => (fs, .nil)

/-- an open `*os.File`: its path, whether it was opened with `O_APPEND`, and the offset of the
    next read or write -/
structure File where
  path : Text
  append : Bool := false
  pos : Nat := 0
deriving Repr, DecidableEq

/-- `os.OpenFile(p, os.O_APPEND|os.O_CREATE|os.O_WRONLY, os.ModePerm)`: a missing file is created
    empty -/
def openAppend (io : IOFail) (fs : FS) (p : Text) : FS × File × Err :=
  match io .openAppend p with
  | some m => (fs, { path := p }, .other m)
  | none =>
    match fsRead fs p with
    | some _ => (fs, { path := p, append := true }, .nil)
    | none => (fsWrite fs p [], { path := p, append := true }, .nil)

/-- `os.OpenFile(p, os.O_RDWR, os.ModePerm)`: fails when the file does not exist -/
def openRDWR (io : IOFail) (fs : FS) (p : Text) : File × Err :=
  match io .openRDWR p with
  | some m => ({ path := p }, .other m)
  | none =>
    match fsRead fs p with
    | some _ => ({ path := p }, .nil)
    | none => ({ path := p }, .other (enoent "open" p))

def fileContent (fs : FS) (f : File) : Text :=
  match fsRead fs f.path with
  | some c => c
  | none => []

/-- the bytes written at offset `pos` into `old` (a gap is filled with zero bytes, as a write
    beyond the end of a regular file does) -/
def writeAt (old : Text) (pos : Nat) (b : Text) : Text :=
  old.take pos ++ List.replicate (pos - old.length) 0 ++ b ++ old.drop (pos + b.length)

/-- `f.Write(b)` / `fmt.Fprintf(f, …)` once the text is known: with `O_APPEND` the bytes go to the
    end of the file, otherwise to the current offset -/
def fileWrite (io : IOFail) (fs : FS) (f : File) (b : Text) : FS × File × Int × Err :=
  match io .write f.path with
  | some m => (fs, f, 0, .other m)
  | none =>
    let old := fileContent fs f
    if f.append then (fsWrite fs f.path (old ++ b), { f with pos := old.length + b.length }, (b.length : Int), .nil)
    else (fsWrite fs f.path (writeAt old f.pos b), { f with pos := f.pos + b.length }, (b.length : Int), .nil)

/-- `f.Truncate(0)` (the offset is NOT changed); the error is discarded by the translated code -/
def fileTruncate0 (fs : FS) (f : File) : FS := fsWrite fs f.path []

/-- `f.Seek(0, io.SeekStart)` -/
def fileSeekStart (f : File) : File := { f with pos := 0 }

/-- `f.Stat()`: the `os.FileInfo` is modelled by its `Size()` -/
def fileStat (io : IOFail) (fs : FS) (f : File) : Int × Err :=
  match io .stat f.path with
  | some m => (0, .other m)
  | none => (((fileContent fs f).length : Int), .nil)

/-- `os.WriteFile(p, b, os.ModePerm)`: create or truncate, then write -/
def writeFile (io : IOFail) (fs : FS) (p b : Text) : FS × Err :=
  match io .writeFile p with
  | some m => (fs, .other m)
  | none => (fsWrite fs p b, .nil)

/-- `os.Remove(p)` -/
def remove (io : IOFail) (fs : FS) (p : Text) : FS × Err :=
  match io .remove p with
  | some m => (fs, .other m)
  | none =>
    match fsRead fs p with
    | some _ => (fsRemove fs p, .nil)
    | none => (fs, .other (enoent "remove" p))

/-- an `os.DirEntry` as far as Clean looks at it -/
structure DirEntry where
  name : Text
  isDir : Bool
deriving Repr, DecidableEq

/-- names directly inside `dir` (regular files of `fs` and the directories implied by longer
    paths), sorted by name as `os.ReadDir` returns them -/
def dirEntries (fs : FS) (dir : Text) : List DirEntry :=
  let pre := if dir = [47] then dir else dir ++ [47]
  let ents := fs.filterMap (fun (p, _) =>
    if hasPrefix p pre then
      let rest := p.drop pre.length
      let name := rest.takeWhile (· ≠ 47)
      if name = [] then none else some ({ name := name, isDir := decide (name.length ≠ rest.length) } : DirEntry)
    else none)
  let uniq := ents.foldl (fun acc e => if acc.any (·.name = e.name) then acc else acc ++ [e]) []
  uniq.foldr (fun x acc =>
    let rec ins : List DirEntry → List DirEntry
      | [] => [x]
      | y :: ys => if ltBytes y.name x.name then y :: ins ys else x :: y :: ys
    ins acc) []

/-- `os.ReadDir(dir)`; a directory no file lives under does not exist -/
def readDir (io : IOFail) (fs : FS) (dir : Text) : List DirEntry × Err :=
  match io .readDir dir with
  | some m => ([], .other m)
  | none =>
    let es := dirEntries fs dir
    if es = [] then ([], .other (enoent "open" dir)) else (es, .nil)

/-- a top-level declaration of a parsed Go file as far as `isFileSkipped` looks at it:
    `decl.(*ast.FuncDecl)` succeeds iff `isFunc`, and then `funcDecl.Name.String()` is `name` -/
structure GoDecl where
  isFunc : Bool
  name : Text
deriving Repr, DecidableEq

/-! ## `bufio.Scanner` as configured by `snapshotScanner` -/

structure Scanner where
  ok : Bool := false      -- result of the last `Scan()`
  cur : Line := []        -- `Bytes()` / `Text()`
  rest : List Line        -- tokens still to come
deriving Repr, DecidableEq

/-- `snapshotScanner(r)` for a reader over `content` -/
def Scanner.new (content : Text) : Scanner := { rest := scan content }

/-- `s.Scan()`: advance; `ok = false` at the end of the input -/
def Scanner.scan (s : Scanner) : Scanner :=
  match s.rest with
  | [] => { ok := false, cur := [], rest := [] }
  | l :: ls => { ok := true, cur := l, rest := ls }

/-- `s.Bytes()` -/
def Scanner.bytes (s : Scanner) : Line := s.cur

/-- bound for `for s.Scan() { … }`: every iteration consumes a token -/
def Scanner.fuel (s : Scanner) : List Unit := List.replicate (s.rest.length + 1) ()

/-- `s.Err()`: no error is possible (no token-size limit, in-memory or regular-file reader) -/
def Scanner.err (_ : Scanner) : Err := .nil

/-- reading a file through a handle moves the offset to the end (`snapshotScanner(f)` run to
    completion); only the offset matters afterwards -/
def fileAtEnd (fs : FS) (f : File) : File := { f with pos := (fileContent fs f).length }

/-- `snapshotScanner(f)` for an open file: the scanner over its content; the handle's offset is at
    the end once the scanner has been run to completion (every translated function does so before
    it uses the handle again) -/
def scanFile (fs : FS) (f : File) : File × Scanner := (fileAtEnd fs f, Scanner.new (fileContent fs f))

/-! ## Go maps, the registries, `testing.T`, and the state the Match* flows act on -/

/-- `map[string]int`; a missing key reads as 0 -/
abbrev Map1 := List (Text × Int)

def map1Get : Map1 → Text → Int
  | [], _ => 0
  | (k', v) :: m, k => if k' = k then v else map1Get m k

def map1Set : Map1 → Text → Int → Map1
  | [], k, v => [(k, v)]
  | (k', v') :: m, k, v => if k' = k then (k, v) :: m else (k', v') :: map1Set m k v

/-- `m[k]++` on a non-nil map -/
def map1Inc (m : Map1) (k : Text) : Map1 := map1Set m k (map1Get m k + 1)

/-- `map[string]map[string]int` -/
abbrev Map2 := List (Text × Map1)

/-- `_, exists := m[a]` -/
def map2Has (m : Map2) (a : Text) : Bool := m.any (·.1 = a)

/-- `m[a]` (a missing key reads as the nil map, which reads as empty) -/
def map2Inner : Map2 → Text → Map1
  | [], _ => []
  | (k, inner) :: m, a => if k = a then inner else map2Inner m a

/-- `m[a] = inner` -/
def map2SetInner : Map2 → Text → Map1 → Map2
  | [], a, inner => [(a, inner)]
  | (k, i') :: m, a, inner => if k = a then (a, inner) :: m else (k, i') :: map2SetInner m a inner

/-- `m[a][b]` -/
def map2Get (m : Map2) (a b : Text) : Int := map1Get (map2Inner m a) b

/-- `m[a][b] = v`; `none` = panic: assignment to entry in nil map (`m[a]` does not exist) -/
def map2Set (m : Map2) (a b : Text) (v : Int) : Option Map2 :=
  if map2Has m a then some (map2SetInner m a (map1Set (map2Inner m a) b v)) else none

/-- `m[a][b]++` -/
def map2Inc (m : Map2) (a b : Text) : Option Map2 := map2Set m a b (map2Get m a b + 1)

/-- the type `set` of snaps/utils.go (`map[string]struct{}`): the keys, without duplicates -/
abbrev GoSet := List Text
/-- `s[x] = struct{}{}` -/
def setAdd (s : GoSet) (x : Text) : GoSet := if s.contains x then s else s ++ [x]
/-- `s.Has(x)` -/
def setHas (s : GoSet) (x : Text) : Bool := s.contains x

/-- `map[string]string` -/
abbrev SMap := List (Text × Text)
def smapGet : SMap → Text → Text
  | [], _ => []
  | (k', v) :: m, k => if k' = k then v else smapGet m k
def smapHas (m : SMap) (k : Text) : Bool := m.any (·.1 = k)
def smapSet : SMap → Text → Text → SMap
  | [], k, v => [(k, v)]
  | (k', v') :: m, k, v => if k' = k then (k, v) :: m else (k', v') :: smapSet m k v

/-- `a / b` on `int`: truncated division; `none` = panic: integer divide by zero -/
def intDiv (a b : Int) : Option Int := if b = 0 then none else some (Int.tdiv a b)

/-- `syncRegistry` (the embedded mutex is not state of the sequential semantics) -/
structure Registry where
  running : Map2 := []
  cleanup : Map2 := []
deriving Repr, DecidableEq

/-- `syncStandaloneRegistry` -/
structure SRegistry where
  running : Map1 := []
  cleanup : Map1 := []
deriving Repr, DecidableEq

/-- `fmt.Sprintf(format, n)` with a format that is NOT a literal of the source (the standalone
    path): the model's interpreter; `none` = the format uses a feature outside the modelled
    fragment (never a default) -/
def sprintfInt (format : Text) (n : Int) : Option Text :=
  if n < 0 then none else sprintf format [.d n.toNat]

/-- the closures passed to `t.Cleanup` -/
inductive Cleanup
  | resetReg (snapPath testName : Text)
  | resetSReg (snapPath : Text)
deriving Repr, DecidableEq

/-- a `testingT`: its name and the identity of the execution (cleanups run when it ends) -/
structure T where
  name : Text
  id : Nat
deriving Repr, DecidableEq

/-- a `match.JSONMatcher` / `match.YAMLMatcher` value: opaque (what it does to a document is a
    parameter of the translated functions) -/
abbrev Matcher := Nat

/-- `prettyDiff(expected, received, snapPath, line)` with Go's `int` line number -/
def prettyDiffI (a b rel : Text) (line : Int) : Text := prettyDiff a b rel line.toNat

/-- `match.MatcherError` -/
structure MErr where
  reason : Err
  matcher : Text
  path : Text
deriving Repr, DecidableEq

/-- one frame of the Go call stack as `runtime.Caller` / `runtime.FuncForPC` report it: the file, and
    the function's name (`none`: `FuncForPC` returns nil) -/
structure Frame where
  file : Text
  func : Option Text
deriving Repr, DecidableEq

/-- `runtime.Caller(i)` on the stack `frames` (index 0 = the caller of `runtime.Caller` itself, i.e.
    `baseCaller`): `(pc, file, line, ok)`; the program counter is represented by the frame's index -/
def runtimeCaller (frames : List Frame) (i : Int) : Int × Text × Int × Bool :=
  if i < 0 then (0, [], 0, false) else
  match frames[i.toNat]? with
  | some f => (i, f.file, 0, true)
  | none => (0, [], 0, false)

/-- `runtime.FuncForPC(pc)` for a program counter obtained from `runtimeCaller` -/
def funcForPC (frames : List Frame) (pc : Int) : Option Text :=
  if pc < 0 then none else (frames[pc.toNat]?).bind (·.func)

/-- `difflib.OpCode` with Go's `int` fields -/
structure OpCodeI where
  tag : Int
  i1 : Int
  i2 : Int
  j1 : Int
  j2 : Int
deriving Repr, DecidableEq

/-- `diffmatchpatch.Diff`: one chunk of a character-level diff.  `type` is the `Operation`
    (`DiffDelete = -1`, `DiffInsert = 1`, `DiffEqual = 0`; the translated code compares it with the
    constants `diffDelete / diffInsert / diffEqual` of snaps/diff.go, resolved to these numbers),
    `text` the chunk's text.  The library itself is a parameter of the translated `singlelineDiff`. -/
structure DiffChunk where
  type : Int
  text : Text
deriving Repr, DecidableEq

/-! ## the match package: matcher values and the document libraries as parameters -/

/-- `gjson.Result` as far as the matchers look at it -/
structure GResult where
  «exists» : Bool
  value : Text        -- `r.Value()`: a Go value, represented by an opaque rendering
deriving Repr, DecidableEq

/-- a parsed YAML file (`*ast.File`), a compiled path (`*yaml.Path`), a node: opaque -/
abbrev YFile := Text
abbrev YPath := Text
abbrev YNode := Text

/-- `match.anyMatcher` -/
structure AnyMatcher where
  paths : List Text
  placeholder : Text
  errOnMissingPath : Bool
  name : Text
deriving Repr, DecidableEq

/-- `match.typeMatcher[T]` (the type parameter is carried by `expectedType`) -/
structure TypeMatcher where
  paths : List Text
  errOnMissingPath : Bool
  name : Text
  expectedType : Text
deriving Repr, DecidableEq

/-- `match.customMatcher` -/
structure CustomMatcher where
  callback : Text → Text × Err
  errOnMissingPath : Bool
  name : Text
  path : Text

/-- a Go value handed over as `any` where its DYNAMIC type decides what happens to it (`validateJSON`,
`validateYAML`): a `string`, a `[]byte`, or a value of any other type (identified by a number; what
`json.Marshal` / `yaml.Marshal` make of it is a parameter) -/
inductive Dyn
  | str (s : Text)
  | bytes (b : Text)
  | other (id : Nat)
deriving Repr, DecidableEq

/-- `snaps.JSONConfig` -/
structure JSONConfig where
  width : Int
  indent : Text
  sortKeys : Bool
deriving Repr, DecidableEq

/-- `pretty.Options` as go-snaps builds it (`Prefix` is never set) -/
structure PrettyOpts where
  width : Int
  indent : Text
  sortKeys : Bool
deriving Repr, DecidableEq

/-- everything a Match* call can read or change -/
structure St where
  env : Generated.Env
  fs : FS := []
  reg : Registry := {}
  sreg : SRegistry := {}
  events : Map1 := []                 -- testEvents.items, keyed by the event kind's name
  skipped : List Text := []           -- skippedTests.values
  cleanups : List (Nat × Cleanup) := []
  tev : List TEvent := []             -- what the calls reported to their testing.T, oldest first
  stdout : Text := []                 -- what was printed with fmt.Println

/-- `t.Log(x)` -/
def St.tLog (st : St) (_t : T) (x : Text) : St := { st with tev := st.tev ++ [.log x] }
/-- `t.Error(x)` -/
def St.tError (st : St) (_t : T) (x : Text) : St := { st with tev := st.tev ++ [.error x] }
/-- `t.Skip(args...)`: the test is marked skipped (the rendering of `args` is testing's business) -/
def St.tSkip (st : St) (_t : T) : St := { st with tev := st.tev ++ [.skip []] }
/-- `t.Skipf(format, args...)` -/
def St.tSkipf (st : St) (_t : T) : St := { st with tev := st.tev ++ [.skipf []] }
/-- `t.SkipNow()` -/
def St.tSkipNow (st : St) (_t : T) : St := { st with tev := st.tev ++ [.skipNow] }
/-- `t.Cleanup(f)` -/
def St.tCleanup (st : St) (t : T) (c : Cleanup) : St := { st with cleanups := (t.id, c) :: st.cleanups }
/-- `testEvents.register(kind)`: `e.items[event]++` under the events mutex -/
def St.register (st : St) (kind : Text) : St := { st with events := map1Inc st.events kind }

end GoSnaps.GoIO
