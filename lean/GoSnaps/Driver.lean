/- The line-protocol interpreter: one operation per input line, one canonical result line per
   operation.  Pure (`step`), so the same function is available to proofs. -/
import GoSnaps.Model
import GoSnaps.Clean
import GoSnaps.Conc
namespace GoSnaps

def hexDigit (n : Nat) : Char := if n < 10 then Char.ofNat (48 + n) else Char.ofNat (87 + n)

def hexOf (t : Text) : String :=
  if t = [] then "-" else
  String.ofList (t.flatMap fun b => [hexDigit (b.toNat / 16), hexDigit (b.toNat % 16)])

def unhexDigit (c : Char) : Option Nat :=
  if '0' ≤ c && c ≤ '9' then some (c.toNat - 48)
  else if 'a' ≤ c && c ≤ 'f' then some (c.toNat - 87)
  else none

def unhexList : List Char → Option Text
  | [] => some []
  | [_] => none
  | a :: b :: rest =>
    match unhexDigit a, unhexDigit b, unhexList rest with
    | some x, some y, some r => some (UInt8.ofNat (x * 16 + y) :: r)
    | _, _, _ => none

def unhex (s : String) : Option Text := if s = "-" then some [] else unhexList s.toList

structure DState where
  w : World
  caller : Text := []
  names : List (Nat × Text) := []
  ora : Oracles := {}
  doc : Option (Except Text Text) := none

def evStr : TEvent → String
  | .error t => "E:" ++ hexOf t
  | .log t => "L:" ++ hexOf t
  | .skip t => "S:" ++ hexOf t
  | .skipf t => "SF:" ++ hexOf t
  | .skipNow => "SN"

def outStr (op : String) (o : Out) : String :=
  match o.unsupported with
  | some why => op ++ " unsupported:" ++ why
  | none =>
    op ++ " ev=" ++ ",".intercalate (o.events.map evStr) ++
    " w=" ++ ",".intercalate (o.writes.map hexOf) ++
    " d=" ++ ",".intercalate (o.removed.map hexOf) ++
    " out=" ++ hexOf o.stdout

def lookupCfg (s : DState) (n : Nat) : Option Cfg := (s.w.cfgs.find? (·.1 = n)).map (·.2)
def lookupName (s : DState) (n : Nat) : Option Text := (s.names.find? (·.1 = n)).map (·.2)

def parseUpd : String → Option (Option Bool)
  | "none" => some none
  | "true" => some (some true)
  | "false" => some (some false)
  | _ => none

def setCfg (cfgs : List (Nat × Cfg)) (n : Nat) (c : Cfg) : List (Nat × Cfg) :=
  (cfgs.filter (·.1 ≠ n)) ++ [(n, c)]

def joinNL : List Text → Text
  | [] => []
  | [x] => x
  | x :: y :: r => x ++ nl :: joinNL (y :: r)

def bad (s : DState) (line : String) : DState × Option String := (s, some ("bad-op " ++ line))

/-- the three operations whose document pipeline (validation, matchers, pretty printing) ran
    in the harness and arrives as the preceding `ora doc` line -/
def docOp (s : DState) (line op c t : String) : DState × Option String :=
  match c.toNat?, c.toNat?.bind (lookupCfg s), t.toNat?, t.toNat?.bind (lookupName s) with
  | some cn, some cfg, some t, some nm =>
    match op, s.doc with
    | "json", some pre =>
      let (w, o) := matchEntry s.w cfg s.caller nm t .raw pre
      ({ s with w := w, doc := none }, some (outStr "json" o))
    | "yaml", some pre =>
      let pre := match pre with | .ok d => Except.ok (escape d) | .error e => .error e
      let (w, o) := matchEntry s.w cfg s.caller nm t .escaped pre
      ({ s with w := w, doc := none }, some (outStr "yaml" o))
    | "sajson", some pre =>
      -- (*Config).MatchStandaloneJSON defaults the extension; whether that write lands in the
      -- shared Config or in a copy is read from the source (Generated.configWrites)
      let cfg' := if cfg.extension = [] then { cfg with extension := Generated.saJSONExt } else cfg
      let persist := Generated.configWrites.contains "Config.MatchStandaloneJSON: c.extension"
      let w0 := if persist then { s.w with cfgs := setCfg s.w.cfgs cn cfg' } else s.w
      let (w, o) := matchStandalone w0 cfg' s.caller nm t pre
      ({ s with w := w, doc := none }, some (outStr "sajson" o))
    | _, _ => bad s line
  | _, _, _, _ => bad s line

/-- one protocol line -/
def step (s : DState) (line : String) : DState × Option String :=
  let toks := (line.splitOn " ").filter (· ≠ "")
  match toks with
  | [] => (s, none)
  | "world" :: _ =>
    ({ w := { env := { isCI := false, updateVAR := "" } }, caller := s.caller }, some line)
  | ["caller", h] => match unhex h with | some c => ({ s with caller := c }, none) | none => bad s line
  | ["mode", ci, upd] =>
    match unhex upd with
    | some u =>
      match String.fromUTF8? (ByteArray.mk u.toArray) with
      | some us => ({ s with w := { s.w with env := { isCI := ci = "1", updateVAR := us } } }, some "mode ok")
      | none => bad s line
    | none => bad s line
  | "cfg" :: n :: dir :: file :: ext :: upd :: _ =>
    match n.toNat?, unhex dir, unhex file, unhex ext, parseUpd upd with
    | some n, some d, some f, some e, some u =>
      ({ s with w := { s.w with cfgs := setCfg s.w.cfgs n { filename := f, snapsDir := d, extension := e, update := u } } }, some "cfg ok")
    | _, _, _, _, _ => bad s line
  | ["begin", t, name] =>
    match t.toNat?, unhex name with
    | some t, some nm => ({ s with names := (t, nm) :: s.names.filter (·.1 ≠ t) }, some "begin ok")
    | _, _ => bad s line
  | ["ora", "doc", "merr", items] =>
    let parsed := (items.splitOn ";").mapM (fun it =>
      match (it.splitOn ",").mapM unhex with
      | some [m, p, r] => some (m, p, r)
      | _ => none)
    match parsed with
    | some errs =>
      let msgs := errs.mapM (fun (m, p, r) =>
        sprintf Generated.matcherErrFmt [.s Generated.go_errorSymbol, .s m, .s p, .s r])
      match msgs with
      | some ms => ({ s with doc := some (.error ms.flatten) }, none)
      | none => bad s line
    | none => bad s line
  | ["ora", "doc", kind, h] =>
    match unhex h with
    | some t => ({ s with doc := some (if kind = "ok" then .ok t else .error t) }, none)
    | none => bad s line
  | ["ora", "re", p, str, r] =>
    match unhex p, unhex str with
    | some p, some str => ({ s with ora := { s.ora with re := ((p, str), r = "1") :: s.ora.re } }, none)
    | _, _ => bad s line
  | ["ora", "gofuncs", p, names] =>
    match unhex p with
    | some p =>
      if names = "ERR" then ({ s with ora := { s.ora with gofuncs := (p, none) :: s.ora.gofuncs } }, none)
      else
        let ns := if names = "-" then some [] else (names.splitOn ",").mapM unhex
        match ns with
        | some ns => ({ s with ora := { s.ora with gofuncs := (p, some ns) :: s.ora.gofuncs } }, none)
        | none => bad s line
    | none => bad s line
  | "snap" :: c :: t :: vals =>
    match c.toNat?.bind (lookupCfg s), t.toNat?, t.toNat?.bind (lookupName s), vals.mapM unhex with
    | some cfg, some t, some nm, some vs =>
      if vs = [] then
        (s, some (outStr "snap" { events := [.log Generated.go_noParamsWarning] }))
      else
        let (w, o) := matchEntry s.w cfg s.caller nm t .escaped (.ok (escape (joinNL vs)))
        ({ s with w := w }, some (outStr "snap" o))
    | _, _, _, _ => bad s line
  | ["json", c, t] => docOp s line "json" c t
  | ["yaml", c, t] => docOp s line "yaml" c t
  | ["sajson", c, t] => docOp s line "sajson" c t
  | ["sasnap", c, t, v] =>
    match c.toNat?.bind (lookupCfg s), t.toNat?, t.toNat?.bind (lookupName s), unhex v with
    | some cfg, some t, some nm, some v =>
      let (w, o) := matchStandalone s.w cfg s.caller nm t (.ok v)
      ({ s with w := w }, some (outStr "sasnap" o))
    | _, _, _, _ => bad s line
  | ["end", t] =>
    match t.toNat? with
    | some t => ({ s with w := endTest s.w t }, some "end ok")
    | none => bad s line
  | ["skip", t, kind] =>
    match t.toNat?.bind (lookupName s) with
    | some nm =>
      let ev := if kind = "skipnow" then TEvent.skipNow else if kind = "skipf" then .skipf [] else .skip []
      ({ s with w := trackSkip s.w nm }, some (outStr "skip" { events := [.log Generated.go_skippedMsg, ev] }))
    | none => bad s line
  | ["clean", srt, run, count] =>
    match unhex run, count.toNat? with
    | some run, some count =>
      let (w, o) := clean s.ora s.w (srt = "1") run count
      ({ s with w := w }, some (outStr "clean" o))
    | _, _ => bad s line
  | ["skipline"] => (s, some "skipline")
  | ["conc", initS, progsS, schedS] =>
    -- the abstract concurrent model run under the lock discipline read from the source
    let nat2 := fun (x : String) => (x.splitOn ":").mapM (·.toNat?)
    let initP := if initS = "-" then some [] else (initS.splitOn ",").mapM (fun e =>
      match nat2 e with | some [a, b] => some (a, b) | _ => none)
    let progsP := (progsS.splitOn ";").mapM (fun th =>
      if th = "-" then some [] else (th.splitOn ",").mapM (fun c =>
        match nat2 c with
        | some [sl, v, cc, cu] => some ({ slot := sl, val := v, canCreate := cc = 1, canUpdate := cu = 1 } : Conc.Call Nat Nat)
        | _ => none))
    let schedP := if schedS = "-" then some [] else (schedS.splitOn ",").mapM (·.toNat?)
    match initP, progsP, schedP with
    | some f0, some progs, some sch =>
      let L := Conc.pinnedLocks
      let r := Conc.runSchedule L.add L.upd L.read f0 progs sch
      let fileS := ",".intercalate (r.1.map fun (a, b) => s!"{a}:{b}")
      let oc := fun (o : Conc.Outcome) => match o with | .passed => "p" | .added => "a" | .updated => "u" | .failed => "f"
      let outsS := ";".intercalate (r.2.map fun os => String.join (os.map oc))
      (s, some s!"conc file={fileS} outs={outsS}")
    | _, _, _ => bad s line
  | ["path", c, sa, name] =>
    match c.toNat?.bind (lookupCfg s), unhex name with
    | some cfg, some nm =>
      match snapshotPath cfg s.caller nm (sa = "1") with
      | (p, some rel) => (s, some ("path " ++ hexOf p ++ " " ++ hexOf rel))
      | (_, none) => (s, some "path unsupported:rel")
    | _, _ => bad s line
  | ["cfgrel", n, dir, file, ext] =>
    match n.toNat?, unhex file, unhex ext with
    | some n, some f, some e =>
      let d := if dir = "-" then some Generated.defaultSnapsDir else unhex dir
      match d with
      | some d => ({ s with w := { s.w with cfgs := setCfg s.w.cfgs n { filename := f, snapsDir := d, extension := e, update := none } } }, some "cfgrel ok")
      | none => bad s line
    | _, _, _ => bad s line
  | ["pdiff", e, r, name, line] =>
    match unhex e, unhex r, unhex name, line.toNat? with
    | some e, some r, some name, some line =>
      (s, some (outStr "pdiff" { stdout := prettyDiff e r name line }))
    | _, _, _, _ => bad s line
  | ["dl", a, b] =>
    let sq := fun (x : String) => if x = "-" then [] else x.toList
    let showG := fun (gs : List (List Difflib.OpCode)) =>
      ";".intercalate (gs.map fun g => ",".intercalate (g.map fun c => s!"{c.tag}:{c.i1}:{c.i2}:{c.j1}:{c.j2}"))
    (s, some ("dl full=" ++ showG (Difflib.getGroupedOpCodes (sq a) (sq b) 1048576) ++
              " groups=" ++ showG (Difflib.getGroupedOpCodes (sq a) (sq b) 3)))
  | ["range", a, b] =>
    match a.toNat?, b.toNat? with
    | some a, some b => (s, some ("range " ++ Difflib.formatRangeUnified a b))
    | _, _ => bad s line
  | ["fsput", p, c] =>
    match unhex p, unhex c with
    | some p, some c => ({ s with w := { s.w with fs := fsWrite s.w.fs p c } }, some "fsput ok")
    | _, _ => bad s line
  | ["fsrm", p] =>
    match unhex p with
    | some p => ({ s with w := { s.w with fs := fsRemove s.w.fs p } }, some "fsrm ok")
    | none => bad s line
  | ["fsdump"] =>
    let items := s.w.fs.map (fun (p, c) => (p, hexOf p ++ "=" ++ hexOf c))
    let sorted := items.foldr (fun x acc =>
      let rec ins : List (Text × String) → List (Text × String)
        | [] => [x]
        | y :: ys => if ltBytes y.1 x.1 then y :: ins ys else x :: y :: ys
      ins acc) []
    (s, some ("fs " ++ ";".intercalate (sorted.map (·.2))))
  | ["events"] =>
    let e := s.w.events
    (s, some s!"events e={e.erred} a={e.added} u={e.updated} p={e.passed} s={s.w.skipped.length}")
  | ["reset"] =>
    ({ s with w := { s.w with running := [], cleanup := [], srunning := [], scleanup := [], events := {},
                               skipped := [], pending := [] }, names := [], ora := {}, doc := none }, some "reset ok")
  | _ => bad s line

end GoSnaps
