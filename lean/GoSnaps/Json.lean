/-
JSON: an executable model of the two library functions go-snaps' JSON snapshots are built from
(C14, tier B).

  * `jsonValid`  — `gjson.Valid` / `gjson.ValidBytes` (tidwall/gjson v1.18.0, gjson.go:2466-2760:
    validpayload / validany / validobject / validcolon / validcomma / validarray / validstring /
    validnumber / validtrue / validfalse / validnull), function by function.
  * `pretty`     — `pretty.PrettyOptions` (tidwall/pretty v1.2.1, pretty.go) for VALID input and
    `Prefix = ""`: the document is tokenised (`tokens`), parsed into a tree whose scalars keep
    their RAW text (`parseToks`; pretty never normalises numbers or strings), and printed
    (`ppV`): newline / indent layout, `"key": value`, empty `{}` / `[]`, the Width rule
    (appendPrettyObject's `max` / `nl` bookkeeping and the single-line retry), SortKeys
    (`byKeyVal.Less` / `isLess` / `parsestr` / `getjtype`, `sort.Stable`), the final newline.

The lexeme scanners (`scanStr`, `scanNum`, `scanLit`) are shared by the validator and by the
tokeniser.  Core Lean only; every definition is total and structurally recursive (fuel where the
recursion follows the nesting of the document), so closed examples evaluate in the kernel.

Faithfulness bounds (outside them the model is not claimed to follow the library):
  * `Indent` consists of JSON white space (the only indents for which the output is JSON):
    `isLess`'s by-value comparison trims the rendered member with `bytes.TrimSpace` and cuts the
    key off by length, which is the rendered value exactly when the indent is white space;
  * number comparison of duplicate keys (`strconv.ParseFloat`) is exact (correctly rounded binary64)
    for decimal exponents of fewer than five digits (Go saturates the exponent at 10000).
-/
import GoSnaps.Natural
namespace GoSnaps.Json

open GoSnaps

/-! ## 1. bytes and lexemes -/

/-- the four white-space bytes of JSON (`case ' ', '\t', '\n', '\r'`) -/
def isWs (c : Byte) : Bool := c == 32 || c == 9 || c == 10 || c == 13

def skipWs : Text → Text
  | [] => []
  | c :: r => if isWs c then skipWs r else c :: r

def isHex (c : Byte) : Bool := (48 ≤ c && c ≤ 57) || (97 ≤ c && c ≤ 102) || (65 ≤ c && c ≤ 70)

/-- `case '"', '\\', '/', 'b', 'f', 'n', 'r', 't'` -/
def isSimpleEsc (c : Byte) : Bool :=
  c == 34 || c == 92 || c == 47 || c == 98 || c == 102 || c == 110 || c == 114 || c == 116

/-- `validstring` (the input starts AFTER the opening quote): the lexeme's remainder including
the closing quote, and the rest of the input.  Bytes below 0x20 are rejected, every other byte
(0x7f, anything ≥ 0x80 — no UTF-8 check) is accepted; escapes are `\" \\ \/ \b \f \n \r \t` and
`\u` followed by four hex digits of either case (surrogates are not paired). -/
def scanStr : Text → Option (Text × Text)
  | [] => none
  | c :: r =>
    if c < 32 then none
    else if c = 92 then
      match r with
      | [] => none
      | e :: r1 =>
        if isSimpleEsc e then (scanStr r1).map fun p => (c :: e :: p.1, p.2)
        else if e = 117 then
          match r1 with
          | h1 :: h2 :: h3 :: h4 :: r2 =>
            if isHex h1 && isHex h2 && isHex h3 && isHex h4 then
              (scanStr r2).map fun p => (c :: e :: h1 :: h2 :: h3 :: h4 :: p.1, p.2)
            else none
          | _ => none
        else none
    else if c = 34 then some ([c], r)
    else (scanStr r).map fun p => (c :: p.1, p.2)

/-- one or more digits -/
def digits1 (s : Text) : Option (Text × Text) :=
  match s with
  | [] => none
  | d :: r => if isDigit d then some (d :: r.takeWhile isDigit, r.dropWhile isDigit) else none

/-- an optional `+` / `-` -/
def optSign (s : Text) : Text × Text :=
  match s with
  | [] => ([], [])
  | d :: r => if d = 43 || d = 45 then ([d], r) else ([], d :: r)

/-- `validnumber`, exponent part: `e` / `E`, optional sign, one or more digits -/
def scanExp (acc s : Text) : Option (Text × Text) :=
  match s with
  | [] => some (acc, [])
  | c :: r =>
    if c = 101 || c = 69 then
      (digits1 (optSign r).2).map fun p => (acc ++ c :: (optSign r).1 ++ p.1, p.2)
    else some (acc, c :: r)

/-- `validnumber`, fraction part: `.` and one or more digits -/
def scanFrac (acc s : Text) : Option (Text × Text) :=
  match s with
  | [] => some (acc, [])
  | c :: r =>
    if c = 46 then (digits1 r).bind fun p => scanExp (acc ++ c :: p.1) p.2
    else scanExp acc (c :: r)

/-- `validnumber`, integer part: a single `0`, or a run of digits -/
def scanInt (acc s : Text) : Option (Text × Text) :=
  match s with
  | [] => none
  | c :: r =>
    if c = 48 then scanFrac (acc ++ [c]) r
    else (digits1 (c :: r)).bind fun p => scanFrac (acc ++ p.1) p.2

/-- `validnumber` (the input starts AT the `-` or the first digit): lexeme and rest -/
def scanNum (s : Text) : Option (Text × Text) :=
  match s with
  | [] => none
  | c :: r => if c = 45 then scanInt [c] r else scanInt [] (c :: r)

/-- `validtrue` / `validfalse` / `validnull`: the rest of the word after its first letter -/
def scanLit (word s : Text) : Option Text :=
  if word.isPrefixOf s then some (s.drop word.length) else none

def wTrue : Text := [114, 117, 101]        -- "rue"
def wFalse : Text := [97, 108, 115, 101]   -- "alse"
def wNull : Text := [117, 108, 108]        -- "ull"

/-! ## 2. `gjson.Valid` -/

/-- `validcolon` -/
def vColon (s : Text) : Option Text :=
  match skipWs s with
  | [] => none
  | c :: r => if c = 58 then some r else none

/-- `validcomma`: stops AT the `,` or at the closing byte (returned, with what follows it) -/
def vComma (s : Text) (close : Byte) : Option (Byte × Text) :=
  match skipWs s with
  | [] => none
  | c :: r => if c = 44 || c = close then some (c, r) else none

mutual
/-- `validany`: the rest after one value -/
def vAny : Nat → Text → Option Text
  | 0, _ => none
  | n + 1, s =>
    match skipWs s with
    | [] => none
    | c :: r =>
      if c = 123 then vObj n r
      else if c = 91 then vArr n r
      else if c = 34 then (scanStr r).map (·.2)
      else if c = 45 || isDigit c then (scanNum (c :: r)).map (·.2)
      else if c = 116 then scanLit wTrue r
      else if c = 102 then scanLit wFalse r
      else if c = 110 then scanLit wNull r
      else none
/-- `validobject` (after `{`) -/
def vObj : Nat → Text → Option Text
  | 0, _ => none
  | n + 1, s =>
    match skipWs s with
    | [] => none
    | c :: r => if c = 125 then some r else if c = 34 then vMembers n r else none
/-- `validobject`, label `key:` (after the opening quote of a key) -/
def vMembers : Nat → Text → Option Text
  | 0, _ => none
  | n + 1, s =>
    match scanStr s with
    | none => none
    | some p =>
      match vColon p.2 with
      | none => none
      | some s2 =>
        match vAny n s2 with
        | none => none
        | some s3 =>
          match vComma s3 125 with
          | none => none
          | some q =>
            if q.1 = 125 then some q.2
            else
              match skipWs q.2 with
              | [] => none
              | c :: r => if c = 34 then vMembers n r else none
/-- `validarray` (after `[`) -/
def vArr : Nat → Text → Option Text
  | 0, _ => none
  | n + 1, s =>
    match skipWs s with
    | [] => none
    | c :: r => if c = 93 then some r else vElems n (c :: r)
/-- `validarray`, the inner loop -/
def vElems : Nat → Text → Option Text
  | 0, _ => none
  | n + 1, s =>
    match vAny n s with
    | none => none
    | some s1 =>
      match vComma s1 93 with
      | none => none
      | some q => if q.1 = 93 then some q.2 else vElems n q.2
end

/-- every call consumes a byte within three levels of the recursion -/
def validFuel (s : Text) : Nat := 3 * s.length + 4

/-- `validpayload` = `gjson.Valid` = `gjson.ValidBytes`: one value, surrounded by white space only -/
def jsonValid (s : Text) : Bool :=
  match vAny (validFuel s) s with
  | none => false
  | some rest => (skipWs rest).isEmpty

/-! ## 3. tokens -/

inductive Tok
  | lbrace | rbrace | lbrack | rbrack | colon | comma
  | str (raw : Text)     -- with both quotes, escapes untouched
  | num (raw : Text)
  | tru | fls | nul
deriving DecidableEq, Repr

/-- a number token ends where no digit, `.`, `e`, `E` follows (`01`, `1.5.3`, `1e5e5` are not
token sequences; gjson rejects them because no `,` / `]` / `}` follows the number) -/
def numEnds : Text → Bool
  | [] => true
  | c :: _ => !(isDigit c || c == 46 || c == 101 || c == 69)

/-- one token at the head of an input that does not start with white space -/
def nextTok : Text → Option (Tok × Text)
  | [] => none
  | c :: r =>
    if c = 123 then some (.lbrace, r)
    else if c = 125 then some (.rbrace, r)
    else if c = 91 then some (.lbrack, r)
    else if c = 93 then some (.rbrack, r)
    else if c = 58 then some (.colon, r)
    else if c = 44 then some (.comma, r)
    else if c = 34 then (scanStr r).map fun p => (.str (c :: p.1), p.2)
    else if c = 45 || isDigit c then
      (scanNum (c :: r)).bind fun p => if numEnds p.2 then some (.num p.1, p.2) else none
    else if c = 116 then (scanLit wTrue r).map fun r' => (.tru, r')
    else if c = 102 then (scanLit wFalse r).map fun r' => (.fls, r')
    else if c = 110 then (scanLit wNull r).map fun r' => (.nul, r')
    else none

def tokensAux : Nat → Text → Option (List Tok)
  | 0, _ => none
  | n + 1, s =>
    match skipWs s with
    | [] => some []
    | c :: r =>
      match nextTok (c :: r) with
      | none => none
      | some p => (tokensAux n p.2).map (p.1 :: ·)

/-- the token sequence of a byte string: white space between tokens is dropped, `none` = a byte
that starts no token, or a malformed string / number / word -/
def tokens (s : Text) : Option (List Tok) := tokensAux (s.length + 1) s

/-! ## 4. trees -/

/-- a JSON document; scalars keep their raw text, objects keep member order and duplicates -/
inductive JV
  | str (raw : Text)
  | num (raw : Text)
  | tru | fls | nul
  | arr (xs : List JV)
  | obj (ms : List (Text × JV))
deriving Repr

mutual
def JV.beq : JV → JV → Bool
  | .str a, .str b => a == b
  | .num a, .num b => a == b
  | .tru, .tru => true
  | .fls, .fls => true
  | .nul, .nul => true
  | .arr a, .arr b => JV.beqL a b
  | .obj a, .obj b => JV.beqM a b
  | _, _ => false
def JV.beqL : List JV → List JV → Bool
  | [], [] => true
  | x :: xs, y :: ys => JV.beq x y && JV.beqL xs ys
  | _, _ => false
def JV.beqM : List (Text × JV) → List (Text × JV) → Bool
  | [], [] => true
  | (k, x) :: xs, (l, y) :: ys => k == l && JV.beq x y && JV.beqM xs ys
  | _, _ => false
end

instance : BEq JV := ⟨JV.beq⟩

mutual
/-- one value at the head of a token list -/
def pVal : Nat → List Tok → Option (JV × List Tok)
  | 0, _ => none
  | n + 1, ts =>
    match ts with
    | [] => none
    | t :: rest =>
      match t with
      | .str r => some (.str r, rest)
      | .num r => some (.num r, rest)
      | .tru => some (.tru, rest)
      | .fls => some (.fls, rest)
      | .nul => some (.nul, rest)
      | .lbrack =>
        match rest with
        | .rbrack :: rest' => some (.arr [], rest')
        | _ => (pElems n rest).map fun p => (.arr p.1, p.2)
      | .lbrace =>
        match rest with
        | .rbrace :: rest' => some (.obj [], rest')
        | _ => (pMembers n rest).map fun p => (.obj p.1, p.2)
      | _ => none
/-- one or more elements and the closing bracket -/
def pElems : Nat → List Tok → Option (List JV × List Tok)
  | 0, _ => none
  | n + 1, ts =>
    match pVal n ts with
    | none => none
    | some p =>
      match p.2 with
      | .comma :: rest => (pElems n rest).map fun q => (p.1 :: q.1, q.2)
      | .rbrack :: rest => some ([p.1], rest)
      | _ => none
/-- one or more members and the closing brace -/
def pMembers : Nat → List Tok → Option (List (Text × JV) × List Tok)
  | 0, _ => none
  | n + 1, ts =>
    match ts with
    | .str k :: .colon :: rest =>
      match pVal n rest with
      | none => none
      | some p =>
        match p.2 with
        | .comma :: rest' => (pMembers n rest').map fun q => ((k, p.1) :: q.1, q.2)
        | .rbrace :: rest' => some ([(k, p.1)], rest')
        | _ => none
    | _ => none
end

/-- the tree of a complete token list -/
def parseToks (ts : List Tok) : Option JV :=
  match pVal (2 * ts.length + 2) ts with
  | some (v, []) => some v
  | _ => none

/-- the tree of a byte string (`none` = not a JSON document) -/
def parse (s : Text) : Option JV := (tokens s).bind parseToks

/-- separator before the remaining elements -/
def sepTok {α : Type} : List α → List Tok
  | [] => []
  | _ :: _ => [.comma]

mutual
/-- the token sequence of a tree -/
def toks : JV → List Tok
  | .str r => [.str r]
  | .num r => [.num r]
  | .tru => [.tru]
  | .fls => [.fls]
  | .nul => [.nul]
  | .arr xs => .lbrack :: toksL xs ++ [.rbrack]
  | .obj ms => .lbrace :: toksM ms ++ [.rbrace]
def toksL : List JV → List Tok
  | [] => []
  | x :: xs => toks x ++ sepTok xs ++ toksL xs
def toksM : List (Text × JV) → List Tok
  | [] => []
  | (k, v) :: ms => .str k :: .colon :: toks v ++ sepTok ms ++ toksM ms
end

/-! ## 5. Go's string decoding, as far as `parsestr` uses it -/

def contB (b : Byte) : Bool := 0x80 ≤ b && b ≤ 0xBF

/-- `utf8.DecodeRune`: the width of the well-formed sequence at the head; 0 = `(RuneError, 1)`
(the `first` / `acceptRanges` tables: no overlong forms, no surrogates, nothing above U+10FFFF) -/
def utf8Len : Text → Nat
  | [] => 0
  | b0 :: r =>
    if b0 < 0x80 then 1
    else if 0xC2 ≤ b0 && b0 ≤ 0xDF then
      match r with
      | b1 :: _ => if contB b1 then 2 else 0
      | _ => 0
    else if 0xE0 ≤ b0 && b0 ≤ 0xEF then
      match r with
      | b1 :: b2 :: _ =>
        let lo : Byte := if b0 = 0xE0 then 0xA0 else 0x80
        let hi : Byte := if b0 = 0xED then 0x9F else 0xBF
        if lo ≤ b1 && b1 ≤ hi && contB b2 then 3 else 0
      | _ => 0
    else if 0xF0 ≤ b0 && b0 ≤ 0xF4 then
      match r with
      | b1 :: b2 :: b3 :: _ =>
        let lo : Byte := if b0 = 0xF0 then 0x90 else 0x80
        let hi : Byte := if b0 = 0xF4 then 0x8F else 0xBF
        if lo ≤ b1 && b1 ≤ hi && contB b2 && contB b3 then 4 else 0
      | _ => 0
    else 0

/-- `utf8.EncodeRune` for a scalar value -/
def encodeRune (r : Nat) : Text :=
  if r < 0x80 then [UInt8.ofNat r]
  else if r < 0x800 then [UInt8.ofNat (0xC0 + r / 64), UInt8.ofNat (0x80 + r % 64)]
  else if r < 0x10000 then
    [UInt8.ofNat (0xE0 + r / 4096), UInt8.ofNat (0x80 + r / 64 % 64), UInt8.ofNat (0x80 + r % 64)]
  else
    [UInt8.ofNat (0xF0 + r / 262144), UInt8.ofNat (0x80 + r / 4096 % 64),
     UInt8.ofNat (0x80 + r / 64 % 64), UInt8.ofNat (0x80 + r % 64)]

/-- U+FFFD -/
def replacement : Text := [0xEF, 0xBF, 0xBD]

def hexVal (c : Byte) : Nat :=
  if 48 ≤ c && c ≤ 57 then c.toNat - 48
  else if 97 ≤ c && c ≤ 102 then c.toNat - 87
  else c.toNat - 55

/-- `getu4`: the code unit of a `\uXXXX` at the head -/
def getu4 : Text → Option Nat
  | 92 :: 117 :: h1 :: h2 :: h3 :: h4 :: _ =>
    if isHex h1 && isHex h2 && isHex h3 && isHex h4 then
      some (((hexVal h1 * 16 + hexVal h2) * 16 + hexVal h3) * 16 + hexVal h4)
    else none
  | _ => none

def escByte (e : Byte) : Byte :=
  if e = 98 then 8 else if e = 102 then 12 else if e = 110 then 10 else if e = 114 then 13
  else if e = 116 then 9 else e

/-- `encoding/json.unquoteBytes`, slow path, on the text between the quotes: escapes are decoded,
a `\uD8xx\uDCxx` pair becomes one scalar, a lone surrogate becomes U+FFFD, every byte that is not
part of well-formed UTF-8 becomes U+FFFD -/
def unq : Nat → Text → Text
  | 0, _ => []
  | _ + 1, [] => []
  | n + 1, c :: r =>
    if c = 92 then
      match r with
      | [] => []
      | e :: r1 =>
        if e = 117 then
          match getu4 (c :: e :: r1) with
          | none => []
          | some rr =>
            let r2 := r1.drop 4
            if 0xD800 ≤ rr && rr < 0xE000 then
              match getu4 r2 with
              | some rr1 =>
                if rr < 0xDC00 && 0xDC00 ≤ rr1 && rr1 < 0xE000 then
                  encodeRune ((rr - 0xD800) * 1024 + (rr1 - 0xDC00) + 0x10000) ++ unq n (r2.drop 6)
                else replacement ++ unq n r2
              | none => replacement ++ unq n r2
            else encodeRune rr ++ unq n r2
        else escByte e :: unq n r1
    else if c < 0x80 then c :: unq n r
    else
      let k := utf8Len (c :: r)
      if k = 0 then replacement ++ unq n r
      else (c :: r).take k ++ unq n ((c :: r).drop k)

/-- `json.Unmarshal(s, &str)` for a string token `s` (quotes included) -/
def unquoteTok (s : Text) : Text := unq (s.length + 1) (s.drop 1).dropLast

/-- `parsestr` (pretty.go): the comparison key of a string token — the bytes between the quotes
when no backslash occurs before the closing quote (NOT sanitised), Go's decoding otherwise -/
def parsestr (s : Text) : Text :=
  let body := s.drop 1
  let pre := body.takeWhile (fun c => c != 92 && c != 34)
  match body.drop pre.length with
  | [] => []
  | c :: _ => if c = 92 then unquoteTok s else pre

/-! ## 6. `strconv.ParseFloat(·, 64)` on a JSON number, for `<` only -/

/-- magnitude of a binary64 value: `m · 2^e` -/
inductive Mag
  | zero
  | fin (m : Nat) (e : Int)
  | inf
deriving DecidableEq, Repr

def digitsVal (ds : Text) : Nat := ds.foldl (fun a c => a * 10 + (c.toNat - 48)) 0

/-- quotient, remainder and divisor of `num / den / 2^e2` -/
def quotAt (num den : Nat) (e2 : Int) : Nat × Nat × Nat :=
  if e2 ≥ 0 then
    let d := den * 2 ^ e2.toNat
    (num / d, num % d, d)
  else
    let n := num * 2 ^ (-e2).toNat
    (n / den, n % den, den)

/-- `num / den` (both positive) rounded to nearest-even binary64 -/
def roundMag (num den : Nat) : Mag :=
  let d : Int := (Nat.log2 num : Int) - (Nat.log2 den : Int)
  let fits : Int → Bool := fun e2 =>
    let q := (quotAt num den e2).1
    decide (2 ^ 52 ≤ q) && decide (q < 2 ^ 53)
  let e2 : Int := if fits (d - 52) then d - 52 else if fits (d - 53) then d - 53 else d - 51
  let e2 : Int := if e2 < -1074 then -1074 else e2
  let qr := quotAt num den e2
  let q := qr.1
  let r := qr.2.1
  let dv := qr.2.2
  let q' := if 2 * r > dv || (2 * r == dv && q % 2 == 1) then q + 1 else q
  if q' = 0 then .zero
  else if e2 > 971 || (e2 == 971 && decide (q' ≥ 2 ^ 53)) then .inf
  else .fin q' e2

/-- sign and magnitude of the binary64 nearest to a JSON number lexeme -/
def parseFloat (s : Text) : Bool × Mag :=
  let neg := s.head? == some 45
  let s := if neg then s.drop 1 else s
  let ip := s.takeWhile isDigit
  let s1 := s.dropWhile isDigit
  let hasFrac := s1.head? == some 46
  let fp := if hasFrac then (s1.drop 1).takeWhile isDigit else []
  let s2 := if hasFrac then (s1.drop 1).dropWhile isDigit else s1
  let hasExp := s2.head? == some 101 || s2.head? == some 69
  let s3 := s2.drop 1
  let eneg := s3.head? == some 45
  let eds := if s3.head? == some 45 || s3.head? == some 43 then s3.drop 1 else s3
  let ev : Int := if hasExp then (if eneg then -(digitsVal (eds.takeWhile isDigit) : Int) else digitsVal (eds.takeWhile isDigit)) else 0
  let ds := (ip ++ fp).dropWhile (· == 48)
  let m := digitsVal ds
  let e10 : Int := ev - fp.length
  if m = 0 then (neg, .zero)
  else
    let mag : Int := ds.length + e10          -- 10^(mag-1) ≤ value < 10^mag
    if mag - 1 ≥ 309 then (neg, .inf)
    else if mag ≤ -324 then (neg, .zero)
    else if e10 ≥ 0 then (neg, roundMag (m * 10 ^ e10.toNat) 1)
    else (neg, roundMag m (10 ^ (-e10).toNat))

/-- the magnitude as a natural number, in units of 2^-1074 (every binary64 is a multiple; `roundMag`
never yields an exponent below -1074); `inf` lies above every finite value (`< 2^2099`) -/
def magVal : Mag → Nat
  | .zero => 0
  | .fin m e => m * 2 ^ (e + 1074).toNat
  | .inf => 2 ^ 2100

/-- the float as an integer in units of 2^-1074 (`-0 = 0`; a range error yields ±Inf, as in Go) -/
def fltKey (s : Text) : Int :=
  let x := parseFloat s
  if x.1 then -(magVal x.2 : Int) else (magVal x.2 : Int)

/-- `n1 < n2` on the parsed floats -/
def fltLt (a b : Text) : Bool := decide (fltKey a < fltKey b)

/-! ## 7. `byKeyVal.Less` and `sort.Stable` -/

/-- `getjtype`: jnull 0 < jfalse 1 < jnumber 2 < jstring 3 < jtrue 4 < jjson 5 -/
def jtype (v : Text) : Nat :=
  match v with
  | [] => 0
  | c :: _ =>
    if c = 34 then 3 else if c = 102 then 1 else if c = 116 then 4 else if c = 110 then 0
    else if c = 91 || c = 123 then 5 else 2

/-- `isLess` once `v1`, `v2` are fixed -/
def textLess (v1 v2 : Text) : Bool :=
  let t1 := jtype v1
  let t2 := jtype v2
  if t1 < t2 then true
  else if t1 > t2 then false
  else if t1 = 3 then ltBytes (parsestr v1) (parsestr v2)
  else if t1 = 2 then fltLt v1 v2
  else ltBytes v1 v2

/-- a rendered object member: the raw key token and the rendered value -/
structure Member where
  key : Text
  val : Text
deriving DecidableEq, Repr

/-- the key a member is sorted by: the key token, unescaped (`isLess … byKey` on two string tokens) -/
def sortKey (k : Text) : Text := parsestr k

/-- `byKeyVal.Less`: by unescaped key; equal keys by the kind of the rendered value, then by
its content -/
def memberLess (a b : Member) : Bool :=
  if ltBytes (sortKey a.key) (sortKey b.key) then true
  else if ltBytes (sortKey b.key) (sortKey a.key) then false
  else textLess a.val b.val

/-- stable insertion: `x` (which stood before every element of the list) goes before the first
element that is not strictly less than it -/
def insertBy {α : Type} (lt : α → α → Bool) (x : α) : List α → List α
  | [] => [x]
  | y :: ys => if lt y x then y :: insertBy lt x ys else x :: y :: ys

/-- stable insertion sort -/
def sortBy {α : Type} (lt : α → α → Bool) (l : List α) : List α := l.foldr (insertBy lt) []

/-- `sort.Stable` on the members (`Less` is a strict weak order, so every stable sort agrees) -/
def sortMembers (l : List Member) : List Member := sortBy memberLess l

/-! ## 8. `pretty.PrettyOptions` -/

structure Opts where
  width : Int := 0
  indent : Text := [32]
  sortKeys : Bool := true
deriving Repr

/-- `appendTabs` with an empty prefix -/
def indentN (o : Opts) : Nat → Text
  | 0 => []
  | n + 1 => o.indent ++ indentN o n

def sepText {α : Type} (sep : Text) : List α → Text
  | [] => []
  | _ :: _ => sep

mutual
/-- `appendPrettyAny … pretty=false … max≠-1`: the single-line form `[a, [b, c]]`; `none` when
an object occurs at any depth (`ok = false`) -/
def oneLine : JV → Option Text
  | .str r => some r
  | .num r => some r
  | .tru => some [116, 114, 117, 101]
  | .fls => some [102, 97, 108, 115, 101]
  | .nul => some [110, 117, 108, 108]
  | .obj _ => none
  | .arr xs => (oneLineL xs).map fun b => 91 :: b ++ [93]
def oneLineL : List JV → Option Text
  | [] => some []
  | x :: xs =>
    match oneLine x, oneLineL xs with
    | some a, some b => some (a ++ sepText [44, 32] xs ++ b)
    | _, _ => none
end

/-- the single-line attempt of `appendPrettyObject` for an array met in pretty mode at column
`col = len(buf) - nl`: only with `Width > 0`, only when `max = Width - col > 3`, and kept only
when the result is at most `max` bytes long -/
def fitsOneLine (o : Opts) (col : Nat) (v : JV) : Option Text :=
  if o.width > 0 then
    let max : Int := o.width - (col : Int)
    if max > 3 then
      match oneLine v with
      | some t => if (t.length : Int) ≤ max then some t else none
      | none => none
    else none
  else none

/-- `len(buf) - nl` at an array element: for the first element `nl` is the index of the `\n`
just appended; for the others the `' '` after the comma was overwritten by the `\n` and `nl`
is the index AFTER it (with `Width = -1` no space is written and it is the index of the `\n`) -/
def elemCol (o : Opts) (tabs : Nat) (first : Bool) : Nat :=
  if first || o.width == -1 then 1 + tabs * o.indent.length else tabs * o.indent.length

/-- `len(buf) - nl` at a member's value: `\n`, indentation, key, `: ` -/
def memberCol (o : Opts) (tabs : Nat) (k : Text) : Nat := 1 + tabs * o.indent.length + k.length + 2

/-- one member line without its separator -/
def memberLine (o : Opts) (tabs : Nat) (m : Member) : Text := indentN o tabs ++ m.key ++ 58 :: 32 :: m.val

def joinMembers (o : Opts) (tabs : Nat) : List Member → Text
  | [] => []
  | m :: ms => memberLine o tabs m ++ sepText [44, 10] ms ++ joinMembers o tabs ms

mutual
/-- `appendPrettyAny … pretty=true`: `tabs` = nesting depth, `col` = `len(buf) - nl` -/
def ppV (o : Opts) : Nat → Nat → JV → Text
  | _, _, .str r => r
  | _, _, .num r => r
  | _, _, .tru => [116, 114, 117, 101]
  | _, _, .fls => [102, 97, 108, 115, 101]
  | _, _, .nul => [110, 117, 108, 108]
  | tabs, col, .arr xs =>
    match fitsOneLine o col (.arr xs) with
    | some t => t
    | none =>
      if xs.isEmpty then [91, 93]
      else 91 :: ppElems o (tabs + 1) true xs ++ 10 :: indentN o tabs ++ [93]
  | tabs, _, .obj ms =>
    if ms.isEmpty then [123, 125]
    else
      let segs := ppMembers o (tabs + 1) ms
      let segs := if o.sortKeys then sortMembers segs else segs
      123 :: 10 :: joinMembers o (tabs + 1) segs ++ 10 :: indentN o tabs ++ [125]
/-- array elements, each on its own line -/
def ppElems (o : Opts) : Nat → Bool → List JV → Text
  | _, _, [] => []
  | tabs, first, x :: xs =>
    (if first then [] else [44]) ++ 10 :: indentN o tabs ++ ppV o tabs (elemCol o tabs first) x ++
      ppElems o tabs false xs
/-- object members, rendered (input order) -/
def ppMembers (o : Opts) : Nat → List (Text × JV) → List Member
  | _, [] => []
  | tabs, (k, v) :: ms => ⟨k, ppV o tabs (memberCol o tabs k) v⟩ :: ppMembers o tabs ms
end

/-- the printed form of a tree, with the final newline `PrettyOptions` appends -/
def printTree (o : Opts) (v : JV) : Text := ppV o 0 0 v ++ [10]

/-- `pretty.PrettyOptions(doc, &Options{Width, Prefix: "", Indent, SortKeys})` for a valid
document (`[]` otherwise: go-snaps never calls it on an invalid one) -/
def pretty (o : Opts) (doc : Text) : Text :=
  match parse doc with
  | some v => printTree o v
  | none => []

/-- go-snaps' default: `&pretty.Options{SortKeys: true, Indent: " "}` -/
def defaultOpts : Opts := { width := 0, indent := [32], sortKeys := true }

end GoSnaps.Json
