/-
C06 — concurrency model of `getPrevSnapshot` / `addNewSnapshot` / `updateSnapshot`
(/repo/snaps/snapshot.go) racing on ONE snapshot file under the package-level
`_m sync.RWMutex`.

Granularity (one scheduled step = one file-system operation of one goroutine):

* READ  (`getPrevSnapshot`, `RLock`): one atomic step; reads the whole file and decides what the
  call does next.  Enabled only when nobody holds the write lock (if `readLocked`).
  A call whose read already decides the outcome (`passed` / `failed`) completes in this step -
  it performs no further file operation.
* ADD   (`addNewSnapshot`): one atomic `O_APPEND` write `f := f ++ [(s,v)]`.  If `addLocked` it
  is enabled only when nobody holds the write lock; if not, it is ALWAYS enabled - also while
  another goroutine sits between `upd1` and `upd2`.
* UPDATE (`updateSnapshot`, `Lock`): two steps.  `upd1` acquires W (if `updLocked`; enabled only
  when W is free) and copies the whole file into memory (`snap := f`); `upd2` truncates and
  writes back `setVal snap s v` and releases W.

A schedule is a `List Nat` of thread indices.  Scheduling a thread which is blocked on the lock,
has finished, or does not exist is a stutter, so every list is a schedule.

Everything here is executable (`runSchedule`); the proofs live in `Lemmas/Conc.lean`, the theorem
statements in `Props/C06.lean`.
-/
import GoSnaps.Generated.Structural

namespace GoSnaps.Conc

abbrev Slot := Nat
abbrev Val := Nat
/-- the snapshot file: entries in file order -/
abbrev File := List (Slot × Val)

/-- first entry with this slot (what `getPrevSnapshot`'s scan returns) -/
def lookup : File → Slot → Option Val
  | [], _ => none
  | (s', v) :: f, s => if s' = s then some v else lookup f s

/-- `updateSnapshot`'s rewrite of an in-memory copy: every entry of slot `s` gets value `v` -/
def setVal (f : File) (s : Slot) (v : Val) : File :=
  f.map (fun e => if e.1 = s then (s, v) else e)

structure Call where
  slot : Slot
  val : Val
  canCreate : Bool
  canUpdate : Bool
deriving DecidableEq, Repr

inductive Outcome | passed | added | updated | failed
deriving DecidableEq, Repr

/-- the write phase of a call as ONE atomic action, given what its read phase saw
(the serial specification of a call) -/
def writePhase (f : File) (c : Call) (r : Option Val) : File × Outcome :=
  match r with
  | none => if c.canCreate then (f ++ [(c.slot, c.val)], .added) else (f, .failed)
  | some v0 =>
    if v0 = c.val then (f, .passed)
    else if c.canUpdate then (setVal f c.slot c.val, .updated) else (f, .failed)

/-- what the slot holds after the call, as a function of what it held before -/
def after (c : Call) (r : Option Val) : Option Val :=
  match r with
  | none => if c.canCreate then some c.val else none
  | some v0 => if v0 = c.val then some v0 else if c.canUpdate then some c.val else some v0

/-- serial reference for one thread: its outcomes as a function of the content of its slots -/
def serialOuts (look : Slot → Option Val) : List Call → List Outcome
  | [] => []
  | c :: cs =>
    (writePhase [] c (look c.slot)).2 ::
      serialOuts (fun s => if s = c.slot then after c (look c.slot) else look s) cs

/-- serial reference: what slot `s` holds after running `prog` alone, if it held `r` before -/
def serialFinal : List Call → Slot → Option Val → Option Val
  | [], _, r => r
  | c :: cs, s, r => serialFinal cs s (if c.slot = s then after c r else r)

/-! ## The three facts about the source -/

/-- which of the three functions take the mutex -/
structure Locks where
  add : Bool
  upd : Bool
  read : Bool
deriving DecidableEq, Repr

/-- `(readLocked, addLocked, updLocked)` from the extracted lock kinds: a reader needs at least
`RLock`, the two writers need the exclusive `Lock`. -/
def locksOf (read add upd : Generated.LockKind) : Bool × Bool × Bool :=
  (decide (read ≠ .none), decide (add = .W), decide (upd = .W))

/-- the lock discipline of the tree the facts were extracted from -/
def pinnedLocks : Locks :=
  let r := locksOf Generated.lock_getPrevSnapshot Generated.lock_addNewSnapshot
    Generated.lock_updateSnapshot
  { read := r.1, add := r.2.1, upd := r.2.2 }

/-- all three functions are properly locked in the extracted tree -/
def allLocked : Bool := pinnedLocks.add && pinnedLocks.upd && pinnedLocks.read

/-! ## Threads and the global state -/

/-- where a thread is inside its current call -/
inductive PC
  | idle                 -- about to READ
  | wantAdd              -- read said "not found", about to ADD
  | wantUpd              -- read said "different", about to `upd1`
  | inUpd (snap : File)  -- between `upd1` and `upd2`, holding the in-memory copy
deriving DecidableEq, Repr

structure TState where
  todo : List Call
  pc : PC
  outs : List Outcome
deriving DecidableEq, Repr

/-- the four registry counters (bumped atomically together with the outcome) -/
structure Counters where
  passed : Nat := 0
  added : Nat := 0
  updated : Nat := 0
  failed : Nat := 0
deriving DecidableEq, Repr

def Counters.bump (k : Counters) : Outcome → Counters
  | .passed => { k with passed := k.passed + 1 }
  | .added => { k with added := k.added + 1 }
  | .updated => { k with updated := k.updated + 1 }
  | .failed => { k with failed := k.failed + 1 }

def Counters.get (k : Counters) : Outcome → Nat
  | .passed => k.passed
  | .added => k.added
  | .updated => k.updated
  | .failed => k.failed

def Counters.total (k : Counters) : Nat := k.passed + k.added + k.updated + k.failed

structure State where
  file : File
  /-- who holds the write lock -/
  holder : Option Nat
  ts : List TState
  cnt : Counters
deriving DecidableEq, Repr

/-- the current call is over with outcome `o` -/
def finish (t : TState) (cs : List Call) (o : Outcome) : TState :=
  { todo := cs, pc := .idle, outs := t.outs ++ [o] }

/-- thread `i` completes its current call: new file, new lock holder, outcome, counter bump -/
def State.emit (σ : State) (i : Nat) (t : TState) (cs : List Call) (o : Outcome)
    (f' : File) (h' : Option Nat) : State :=
  { file := f', holder := h', ts := σ.ts.set i (finish t cs o), cnt := σ.cnt.bump o }

/-- thread `i` moves on inside its current call -/
def State.setPc (σ : State) (i : Nat) (t : TState) (pc : PC) : State :=
  { σ with ts := σ.ts.set i { t with pc := pc } }

/-- an operation which takes the mutex (`locked`) cannot run while somebody holds W -/
def blocked (locked : Bool) (σ : State) : Bool := locked && σ.holder.isSome

/-- one step of thread `i` whose local state is `t` -/
def stepT (L : Locks) (σ : State) (i : Nat) (t : TState) : State :=
  match t.todo with
  | [] => σ
  | c :: cs =>
    match t.pc with
    | .idle =>
      if blocked L.read σ then σ else
      match lookup σ.file c.slot with
      | none =>
        if c.canCreate then σ.setPc i t .wantAdd else σ.emit i t cs .failed σ.file σ.holder
      | some v0 =>
        if v0 = c.val then σ.emit i t cs .passed σ.file σ.holder
        else if c.canUpdate then σ.setPc i t .wantUpd
        else σ.emit i t cs .failed σ.file σ.holder
    | .wantAdd =>
      if blocked L.add σ then σ
      else σ.emit i t cs .added (σ.file ++ [(c.slot, c.val)]) σ.holder
    | .wantUpd =>
      if blocked L.upd σ then σ
      else { σ with holder := if L.upd then some i else σ.holder,
                    ts := σ.ts.set i { t with pc := .inUpd σ.file } }
    | .inUpd snap =>
      σ.emit i t cs .updated (setVal snap c.slot c.val) (if L.upd then none else σ.holder)

/-- global step: thread number `i` moves (out of range / finished / blocked = stutter) -/
def step (L : Locks) (σ : State) (i : Nat) : State :=
  match σ.ts[i]? with
  | none => σ
  | some t => stepT L σ i t

def run (L : Locks) (σ : State) : List Nat → State
  | [] => σ
  | i :: sch => run L (step L σ i) sch

def initT (p : List Call) : TState := { todo := p, pc := .idle, outs := [] }

def init (f₀ : File) (progs : List (List Call)) : State :=
  { file := f₀, holder := none, ts := progs.map initT, cnt := {} }

/-- every thread has completed all its calls -/
def AllDone (σ : State) : Prop := ∀ t ∈ σ.ts, t.todo = []

instance (σ : State) : Decidable (AllDone σ) := by unfold AllDone; infer_instance

/-- Entry point for the replay harness: final file and per-thread outcome lists. -/
def runSchedule (addLocked updLocked readLocked : Bool) (f₀ : File) (progs : List (List Call))
    (sch : List Nat) : File × List (List Outcome) :=
  let σ := run { add := addLocked, upd := updLocked, read := readLocked } (init f₀ progs) sch
  (σ.file, σ.ts.map (·.outs))

/-- threads have pairwise disjoint slot sets (distinct tests ⇒ distinct snapshot ids) -/
def Disj (progs : List (List Call)) : Prop :=
  progs.Pairwise (fun p q => ∀ c ∈ p, ∀ d ∈ q, c.slot ≠ d.slot)

instance (progs : List (List Call)) : Decidable (Disj progs) := by unfold Disj; infer_instance

/-- "none lost, duplicated, or overwritten by a stale copy": the final file, slot by slot, is
what the owners' serial runs leave; initial entries keep their order, new ones are appended. -/
structure FinalOK (f₀ : File) (progs : List (List Call)) (final : File) : Prop where
  /-- a slot holds what its owner's serial run leaves in it -/
  owned : ∀ (i : Nat) (p : List Call) (s : Slot), progs[i]? = some p → (∃ c ∈ p, c.slot = s) →
    lookup final s = serialFinal p s (lookup f₀ s)
  /-- slots nobody owns are untouched -/
  unowned : ∀ s, (∀ p ∈ progs, ∀ c ∈ p, c.slot ≠ s) → lookup final s = lookup f₀ s
  /-- the initial entries keep their places; behind them come the added slots, each once, each
  new, each created by a call that may create -/
  order : ∃ added, final.map Prod.fst = f₀.map Prod.fst ++ added ∧ added.Nodup ∧
    ∀ s ∈ added, s ∉ f₀.map Prod.fst ∧ ∃ p ∈ progs, ∃ c ∈ p, c.slot = s ∧ c.canCreate = true
  /-- no duplicated slot -/
  nodup : (f₀.map Prod.fst).Nodup → (final.map Prod.fst).Nodup

end GoSnaps.Conc
