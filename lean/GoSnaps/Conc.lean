/-
C06 — concurrency model of `getPrevSnapshot` / `addNewSnapshot` / `updateSnapshot`
(/repo/snaps/snapshot.go) racing on ONE snapshot file under the package-level
`_m sync.RWMutex`.

Granularity (one scheduled step = one file-system operation of one goroutine):

* READ  (`getPrevSnapshot`, `RLock`): one atomic step; reads the whole file and decides what the
  call does next.  Enabled only when nobody holds the write lock (if `readLocked`).
  A call whose read already decides the outcome (`passed` / `failed`) completes in this step -
  it performs no further file operation.
* ADD   (`addNewSnapshot`): one atomic `O_APPEND` write `f := f ++ [(s,v)]`.  If `addLocked` it
  is enabled only when nobody holds the write lock; if not, it is ALWAYS enabled - also while
  another goroutine is inside `updateSnapshot`.
* UPDATE (`updateSnapshot`, `Lock`): THREE steps.
  `upd1`  acquires W (if `updLocked`; enabled only when W is free) and copies the whole file into
          memory (`snap := f`);
  `upd2a` is `overwriteFile`'s `f.Truncate(0)`: `file := []` (W still held);
  `upd2b` is `overwriteFile`'s `f.Write(b)`: `file := setVal snap s v`, then W is released.

So a call takes 1 step (passed / failed), 2 steps (added) or 4 steps (updated).

A schedule is a `List Nat` of thread indices.  Scheduling a thread which is blocked on the lock,
has finished, or does not exist is a stutter, so every list is a schedule.

The step function is generic in the representation `F` of the file and a record `FileOps` of the
four file operations, so that the same protocol runs on the abstract file `File κ ν`
(`absOps`, this file) and on bytes (`GoSnaps/Props/C06Refine.lean`).  Slots and values are
arbitrary types with decidable equality; the examples use `Nat`.

Everything here is executable (`runSchedule`); the proofs live in `Lemmas/Conc.lean`, the theorem
statements in `Props/C06.lean`.
-/
import GoSnaps.Generated.Structural

namespace GoSnaps.Conc

/-- slots / values of the `Nat` examples and of the replay harness -/
abbrev Slot := Nat
abbrev Val := Nat

/-- the abstract snapshot file: entries in file order -/
abbrev File (κ ν : Type) := List (κ × ν)

structure Call (κ ν : Type) where
  slot : κ
  val : ν
  canCreate : Bool
  canUpdate : Bool
deriving DecidableEq, Repr

inductive Outcome | passed | added | updated | failed
deriving DecidableEq, Repr

section Spec
variable {κ ν : Type} [DecidableEq κ] [DecidableEq ν]

/-- first entry with this slot (what `getPrevSnapshot`'s scan returns) -/
def lookup : File κ ν → κ → Option ν
  | [], _ => none
  | (s', v) :: f, s => if s' = s then some v else lookup f s

/-- `updateSnapshot`'s rewrite of an in-memory copy: every entry of slot `s` gets value `v` -/
def setVal (f : File κ ν) (s : κ) (v : ν) : File κ ν :=
  f.map (fun e => if e.1 = s then (s, v) else e)

/-- the write phase of a call as ONE atomic action, given what its read phase saw
(the serial specification of a call) -/
def writePhase (f : File κ ν) (c : Call κ ν) (r : Option ν) : File κ ν × Outcome :=
  match r with
  | none => if c.canCreate then (f ++ [(c.slot, c.val)], .added) else (f, .failed)
  | some v0 =>
    if v0 = c.val then (f, .passed)
    else if c.canUpdate then (setVal f c.slot c.val, .updated) else (f, .failed)

/-- what the slot holds after the call, as a function of what it held before -/
def after (c : Call κ ν) (r : Option ν) : Option ν :=
  match r with
  | none => if c.canCreate then some c.val else none
  | some v0 => if v0 = c.val then some v0 else if c.canUpdate then some c.val else some v0

/-- serial reference for one thread: its outcomes as a function of the content of its slots -/
def serialOuts (look : κ → Option ν) : List (Call κ ν) → List Outcome
  | [] => []
  | c :: cs =>
    (writePhase [] c (look c.slot)).2 ::
      serialOuts (fun s => if s = c.slot then after c (look c.slot) else look s) cs

/-- serial reference: what slot `s` holds after running `prog` alone, if it held `r` before -/
def serialFinal : List (Call κ ν) → κ → Option ν → Option ν
  | [], _, r => r
  | c :: cs, s, r => serialFinal cs s (if c.slot = s then after c r else r)

end Spec

/-! ## The three facts about the source -/

/-- which of the three functions take the mutex -/
structure Locks where
  add : Bool
  upd : Bool
  read : Bool
deriving DecidableEq, Repr

/-- `(readLocked, addLocked, updLocked)` from the extracted lock kinds: a reader needs at least
`RLock`, the two writers need the exclusive `Lock`. -/
def locksOf (read add upd : Generated.LockKind) : Bool × Bool × Bool :=
  (decide (read ≠ .none), decide (add = .W), decide (upd = .W))

/-- the lock discipline of the tree the facts were extracted from -/
def pinnedLocks : Locks :=
  let r := locksOf Generated.lock_getPrevSnapshot Generated.lock_addNewSnapshot
    Generated.lock_updateSnapshot
  { read := r.1, add := r.2.1, upd := r.2.2 }

/-- all three functions are properly locked in the extracted tree -/
def allLocked : Bool := pinnedLocks.add && pinnedLocks.upd && pinnedLocks.read

/-! ## File operations, threads and the global state -/

/-- the four operations the protocol performs on a file of representation `F` -/
structure FileOps (F κ ν : Type) where
  /-- `getPrevSnapshot` -/
  lookup : F → κ → Option ν
  /-- `addNewSnapshot`: one `O_APPEND` write -/
  add : F → κ → ν → F
  /-- the buffer `updateSnapshot` builds from its in-memory copy -/
  set : F → κ → ν → F
  /-- the file after `Truncate(0)` -/
  empty : F

/-- the operations on the abstract file -/
def absOps {κ ν : Type} [DecidableEq κ] : FileOps (File κ ν) κ ν where
  lookup := lookup
  add := fun f s v => f ++ [(s, v)]
  set := setVal
  empty := []

/-- where a thread is inside its current call -/
inductive PC (F : Type)
  | idle                 -- about to READ
  | wantAdd              -- read said "not found", about to ADD
  | wantUpd              -- read said "different", about to `upd1`
  | inUpd (snap : F)     -- after `upd1`, holding the in-memory copy, about to truncate
  | inWrite (snap : F)   -- after `upd2a` (file truncated), about to write back
deriving DecidableEq, Repr

structure TState (F κ ν : Type) where
  todo : List (Call κ ν)
  pc : PC F
  outs : List Outcome
deriving DecidableEq, Repr

/-- the four registry counters (bumped atomically together with the outcome) -/
structure Counters where
  passed : Nat := 0
  added : Nat := 0
  updated : Nat := 0
  failed : Nat := 0
deriving DecidableEq, Repr

def Counters.bump (k : Counters) : Outcome → Counters
  | .passed => { k with passed := k.passed + 1 }
  | .added => { k with added := k.added + 1 }
  | .updated => { k with updated := k.updated + 1 }
  | .failed => { k with failed := k.failed + 1 }

def Counters.get (k : Counters) : Outcome → Nat
  | .passed => k.passed
  | .added => k.added
  | .updated => k.updated
  | .failed => k.failed

def Counters.total (k : Counters) : Nat := k.passed + k.added + k.updated + k.failed

structure State (F κ ν : Type) where
  file : F
  /-- who holds the write lock -/
  holder : Option Nat
  ts : List (TState F κ ν)
  cnt : Counters
deriving DecidableEq, Repr

section Step
variable {F κ ν : Type}

/-- the current call is over with outcome `o` -/
def finish (t : TState F κ ν) (cs : List (Call κ ν)) (o : Outcome) : TState F κ ν :=
  { todo := cs, pc := .idle, outs := t.outs ++ [o] }

/-- thread `i` completes its current call: new file, new lock holder, outcome, counter bump -/
def State.emit (σ : State F κ ν) (i : Nat) (t : TState F κ ν) (cs : List (Call κ ν))
    (o : Outcome) (f' : F) (h' : Option Nat) : State F κ ν :=
  { file := f', holder := h', ts := σ.ts.set i (finish t cs o), cnt := σ.cnt.bump o }

/-- thread `i` moves on inside its current call -/
def State.setPc (σ : State F κ ν) (i : Nat) (t : TState F κ ν) (pc : PC F) : State F κ ν :=
  { σ with ts := σ.ts.set i { t with pc := pc } }

/-- an operation which takes the mutex (`locked`) cannot run while somebody holds W -/
def blocked (locked : Bool) (σ : State F κ ν) : Bool := locked && σ.holder.isSome

/-- one step of thread `i` whose local state is `t` -/
def gstepT [DecidableEq ν] (ops : FileOps F κ ν) (L : Locks) (σ : State F κ ν) (i : Nat)
    (t : TState F κ ν) : State F κ ν :=
  match t.todo with
  | [] => σ
  | c :: cs =>
    match t.pc with
    | .idle =>
      if blocked L.read σ then σ else
      match ops.lookup σ.file c.slot with
      | none =>
        if c.canCreate then σ.setPc i t .wantAdd else σ.emit i t cs .failed σ.file σ.holder
      | some v0 =>
        if v0 = c.val then σ.emit i t cs .passed σ.file σ.holder
        else if c.canUpdate then σ.setPc i t .wantUpd
        else σ.emit i t cs .failed σ.file σ.holder
    | .wantAdd =>
      if blocked L.add σ then σ
      else σ.emit i t cs .added (ops.add σ.file c.slot c.val) σ.holder
    | .wantUpd =>
      if blocked L.upd σ then σ
      else { σ with holder := if L.upd then some i else σ.holder,
                    ts := σ.ts.set i { t with pc := .inUpd σ.file } }
    | .inUpd snap =>
      { σ with file := ops.empty, ts := σ.ts.set i { t with pc := .inWrite snap } }
    | .inWrite snap =>
      σ.emit i t cs .updated (ops.set snap c.slot c.val) (if L.upd then none else σ.holder)

/-- global step: thread number `i` moves (out of range / finished / blocked = stutter) -/
def gstep [DecidableEq ν] (ops : FileOps F κ ν) (L : Locks) (σ : State F κ ν) (i : Nat) :
    State F κ ν :=
  match σ.ts[i]? with
  | none => σ
  | some t => gstepT ops L σ i t

def grun [DecidableEq ν] (ops : FileOps F κ ν) (L : Locks) (σ : State F κ ν) :
    List Nat → State F κ ν
  | [] => σ
  | i :: sch => grun ops L (gstep ops L σ i) sch

def initT (p : List (Call κ ν)) : TState F κ ν := { todo := p, pc := .idle, outs := [] }

def init (f₀ : F) (progs : List (List (Call κ ν))) : State F κ ν :=
  { file := f₀, holder := none, ts := progs.map initT, cnt := {} }

/-- every thread has completed all its calls -/
def AllDone (σ : State F κ ν) : Prop := ∀ t ∈ σ.ts, t.todo = []

instance (σ : State F κ ν) : Decidable (AllDone σ) := by unfold AllDone; infer_instance

end Step

/-! ## The abstract instance -/

abbrev ATState (κ ν : Type) := TState (File κ ν) κ ν
abbrev AState (κ ν : Type) := State (File κ ν) κ ν

section Abs
variable {κ ν : Type} [DecidableEq κ] [DecidableEq ν]

def stepT (L : Locks) (σ : AState κ ν) (i : Nat) (t : ATState κ ν) : AState κ ν :=
  gstepT absOps L σ i t

def step (L : Locks) (σ : AState κ ν) (i : Nat) : AState κ ν := gstep absOps L σ i

def run (L : Locks) (σ : AState κ ν) (sch : List Nat) : AState κ ν := grun absOps L σ sch

/-- Entry point for the replay harness: final file and per-thread outcome lists. -/
def runSchedule (addLocked updLocked readLocked : Bool) (f₀ : File κ ν)
    (progs : List (List (Call κ ν))) (sch : List Nat) : File κ ν × List (List Outcome) :=
  let σ := run { add := addLocked, upd := updLocked, read := readLocked } (init f₀ progs) sch
  (σ.file, σ.ts.map (·.outs))

/-- threads have pairwise disjoint slot sets (distinct tests ⇒ distinct snapshot ids) -/
def Disj (progs : List (List (Call κ ν))) : Prop :=
  progs.Pairwise (fun p q => ∀ c ∈ p, ∀ d ∈ q, c.slot ≠ d.slot)

instance (progs : List (List (Call κ ν))) : Decidable (Disj progs) := by
  unfold Disj; infer_instance

/-- "none lost, duplicated, or overwritten by a stale copy": the final file, slot by slot, is
what the owners' serial runs leave; initial entries keep their order, new ones are appended. -/
structure FinalOK (f₀ : File κ ν) (progs : List (List (Call κ ν))) (final : File κ ν) :
    Prop where
  /-- a slot holds what its owner's serial run leaves in it -/
  owned : ∀ (i : Nat) (p : List (Call κ ν)) (s : κ), progs[i]? = some p →
    (∃ c ∈ p, c.slot = s) → lookup final s = serialFinal p s (lookup f₀ s)
  /-- slots nobody owns are untouched -/
  unowned : ∀ s, (∀ p ∈ progs, ∀ c ∈ p, c.slot ≠ s) → lookup final s = lookup f₀ s
  /-- the initial entries keep their places; behind them come the added slots, each once, each
  new, each created by a call that may create -/
  order : ∃ added, final.map Prod.fst = f₀.map Prod.fst ++ added ∧ added.Nodup ∧
    ∀ s ∈ added, s ∉ f₀.map Prod.fst ∧ ∃ p ∈ progs, ∃ c ∈ p, c.slot = s ∧ c.canCreate = true
  /-- no duplicated slot -/
  nodup : (f₀.map Prod.fst).Nodup → (final.map Prod.fst).Nodup

end Abs

end GoSnaps.Conc
