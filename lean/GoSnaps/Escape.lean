/- L1: `escapeEndChars` / `unescapeEndChars` (snaps/snapshot.go). Constants are generated. -/
import GoSnaps.Bytes
import GoSnaps.Generated.Consts
namespace GoSnaps

/-- the common shape of both functions: split on "\n", replace whole lines, join -/
def mapLines (src dst : Line) (s : Text) : Text :=
  unlines ((lines s).map fun l => if l = src then dst else l)

def escape (s : Text) : Text := mapLines Generated.escapeFrom Generated.escapeTo s
def unescape (s : Text) : Text := mapLines Generated.unescapeFrom Generated.unescapeTo s

end GoSnaps
