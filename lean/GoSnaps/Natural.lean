/- L4: `maruel/natural.Less` (v1.1.1) and `naturalSort` (snaps/clean.go:432-442), exactly,
   including the `strconv.ParseUint` overflow fallback to lexical comparison. -/
import GoSnaps.Bytes
namespace GoSnaps

def isDigit (c : Byte) : Bool := 48 ≤ c && c ≤ 57

/-- `commonPrefix`: longest common prefix that contains no digit on either side -/
def commonPrefix : Text → Text → Nat
  | a :: as, b :: bs => if isDigit a || isDigit b || a ≠ b then 0 else 1 + commonPrefix as bs
  | _, _ => 0

def digitsLen (s : Text) : Nat := (s.takeWhile isDigit).length

/-- `strconv.ParseUint(s, 10, 64)` on a non-empty digit string; `none` = range error -/
def parseUint64 (ds : Text) : Option Nat :=
  let n := ds.foldl (fun acc c => acc * 10 + (c.toNat - 48)) 0
  if n < 18446744073709551616 then some n else none

/-- Go's `<` on strings: bytewise lexicographic -/
def ltBytes : Text → Text → Bool
  | [], [] => false
  | [], _ :: _ => true
  | _ :: _, [] => false
  | a :: as, b :: bs => if a < b then true else if b < a then false else ltBytes as bs

def naturalLessFuel : Nat → Text → Text → Bool
  | 0, a, b => ltBytes a b
  | fuel + 1, a, b =>
    let p := commonPrefix a b
    let a := a.drop p
    let b := b.drop p
    if a = [] then b ≠ [] else
    let ia := digitsLen a
    let ib := digitsLen b
    if ia > 0 && ib > 0 then
      match parseUint64 (a.take ia), parseUint64 (b.take ib) with
      | some an, some bn =>
        if an ≠ bn then an < bn
        else if ia ≠ a.length && ib ≠ b.length then naturalLessFuel fuel (a.drop ia) (b.drop ib)
        else ltBytes a b
      | _, _ => ltBytes a b
    else ltBytes a b

/-- every iteration that continues consumes at least one byte of `a` -/
def naturalLess (a b : Text) : Bool := naturalLessFuel (a.length + 1) a b

/-- `naturalSort(a, b) < 0` -/
def natLt (a b : Text) : Bool := a ≠ b && naturalLess a b

/-- `slices.IsSortedFunc(ids, naturalSort)` -/
def isSortedNat : List Text → Bool
  | a :: b :: rest => !(natLt b a) && isSortedNat (b :: rest)
  | _ => true

def insertNat (x : Text) : List Text → List Text
  | [] => [x]
  | y :: ys => if natLt y x then y :: insertNat x ys else x :: y :: ys

/-- reference sort (insertion sort; stable).  `slices.SortFunc` is pdqsort: it agrees with any
    correct sort exactly when the comparator is a total order on the elements present. -/
def sortNat (l : List Text) : List Text := l.foldr insertNat []

/-- every pair of the list is ordered consistently with its position -/
def allPairsOrdered : List Text → Bool
  | [] => true
  | x :: rest => rest.all (fun y => !(natLt y x)) && allPairsOrdered rest

/-- every two different elements are comparable one way or the other; together with
    `allPairsOrdered` of the sorted list this says the comparator is a strict total order on the
    elements present (otherwise `slices.SortFunc`'s result is unspecified) -/
def pairwiseComparable : List Text → Bool
  | [] => true
  | x :: rest => rest.all (fun y => x = y || natLt x y || natLt y x) && pairwiseComparable rest

end GoSnaps
