/- Protocol operations added after the proofs about `Driver.step` were written: they are
   interpreted in front of `step` (which stays exactly the function the theorems talk about).

   `fscrlf <all|odd|even> <path>`: what a checkout with `core.autocrlf` (or an editor) does to a
   snapshot file: line feeds become CR LF — all of them, or every second one (mixed endings).
   The model computes the conversion itself from ITS file contents. -/
import GoSnaps.Driver
import GoSnaps.Json
namespace GoSnaps

def crlfAll (t : Text) : Text := t.flatMap (fun c => if c = nl then [cr, nl] else [c])

/-- every second line feed (starting with the first iff `b`) becomes CR LF -/
def crlfAlt : Text → Bool → Text
  | [], _ => []
  | c :: cs, b => if c = nl then (if b then [cr, nl] else [nl]) ++ crlfAlt cs (!b) else c :: crlfAlt cs b

/-- `jsonfmt <hex doc> <sortKeys 0|1> <hex indent> <width>`: the JSON model on its own (C14 tier B) —
`valid` = the model of `gjson.Valid`, `parse` = whether the structural parser accepts the
document (must agree with `valid`), `out` = the model of `pretty.PrettyOptions` (valid input only) -/
def jsonfmtOp (doc sk ind width : String) : Option String :=
  match unhex doc, unhex ind, width.toInt? with
  | some d, some i, some w =>
    let v := Json.jsonValid d
    let p := (Json.parse d).isSome
    let out := if v then Json.pretty { width := w, indent := i, sortKeys := sk = "1" } d else []
    some ("jsonfmt valid=" ++ (if v then "1" else "0") ++ " parse=" ++ (if p then "1" else "0") ++ " out=" ++ hexOf out)
  | _, _, _ => none

def stepX (s : DState) (line : String) : DState × Option String :=
  match (line.splitOn " ").filter (· ≠ "") with
  | ["jsonfmt", doc, sk, ind, width] =>
    match jsonfmtOp doc sk ind width with
    | some r => (s, some r)
    | none => bad s line
  | ["fscrlf", mode, p] =>
    match unhex p with
    | some p =>
      match fsRead s.w.fs p with
      | some c =>
        let c' := if mode = "all" then crlfAll c else crlfAlt c (mode = "odd")
        ({ s with w := { s.w with fs := fsWrite s.w.fs p c' } }, some "fscrlf ok")
      | none => (s, some "fscrlf ok")
    | none => bad s line
  | ["ora", "fs", p, c] =>
    -- `fsedit` of the harness: the file was edited from outside between two runs (top blank line, final
    -- newline, blank lines between entries removed); the harness reports the new content
    match unhex p, unhex c with
    | some p, some c => ({ s with w := { s.w with fs := fsWrite s.w.fs p c } }, none)
    | _, _ => bad s line
  | _ => step s line

/-- `stepX` never changes the state on a `jsonfmt` line -/
theorem stepX_jsonfmt_state (s : DState) (line doc sk ind width : String)
    (h : (line.splitOn " ").filter (· ≠ "") = ["jsonfmt", doc, sk, ind, width]) : (stepX s line).1 = s := by
  unfold stepX
  rw [h]
  simp only
  cases jsonfmtOp doc sk ind width <;> rfl

end GoSnaps
