/- Protocol operations added after the proofs about `Driver.step` were written: they are
   interpreted in front of `step` (which stays exactly the function the theorems talk about).

   `fscrlf <all|odd|even> <path>`: what a checkout with `core.autocrlf` (or an editor) does to a
   snapshot file: line feeds become CR LF — all of them, or every second one (mixed endings).
   The model computes the conversion itself from ITS file contents. -/
import GoSnaps.Driver
namespace GoSnaps

def crlfAll (t : Text) : Text := t.flatMap (fun c => if c = nl then [cr, nl] else [c])

/-- every second line feed (starting with the first iff `b`) becomes CR LF -/
def crlfAlt : Text → Bool → Text
  | [], _ => []
  | c :: cs, b => if c = nl then (if b then [cr, nl] else [nl]) ++ crlfAlt cs (!b) else c :: crlfAlt cs b

def stepX (s : DState) (line : String) : DState × Option String :=
  match (line.splitOn " ").filter (· ≠ "") with
  | ["fscrlf", mode, p] =>
    match unhex p with
    | some p =>
      match fsRead s.w.fs p with
      | some c =>
        let c' := if mode = "all" then crlfAll c else crlfAlt c (mode = "odd")
        ({ s with w := { s.w with fs := fsWrite s.w.fs p c' } }, some "fscrlf ok")
      | none => (s, some "fscrlf ok")
    | none => bad s line
  | _ => step s line

end GoSnaps
