/- Protocol operations added after the proofs about `Driver.step` were written: they are
   interpreted in front of `step` (which stays exactly the function the theorems talk about).

   `fscrlf <all|odd|even> <path>`: what a checkout with `core.autocrlf` (or an editor) does to a
   snapshot file: line feeds become CR LF — all of them, or every second one (mixed endings).
   The model computes the conversion itself from ITS file contents. -/
import GoSnaps.Driver
import GoSnaps.Json
import GoSnaps.JsonPath
import GoSnaps.Natural
namespace GoSnaps

def crlfAll (t : Text) : Text := t.flatMap (fun c => if c = nl then [cr, nl] else [c])

/-- every second line feed (starting with the first iff `b`) becomes CR LF -/
def crlfAlt : Text → Bool → Text
  | [], _ => []
  | c :: cs, b => if c = nl then (if b then [cr, nl] else [nl]) ++ crlfAlt cs (!b) else c :: crlfAlt cs b

/-- `jsonfmt <hex doc> <sortKeys 0|1> <hex indent> <width>`: the JSON model on its own (C14 tier B) —
`valid` = the model of `gjson.Valid`, `parse` = whether the structural parser accepts the
document (must agree with `valid`), `out` = the model of `pretty.PrettyOptions` (valid input only) -/
def jsonfmtOp (doc sk ind width : String) : Option String :=
  match unhex doc, unhex ind, width.toInt? with
  | some d, some i, some w =>
    let v := Json.jsonValid d
    let p := (Json.parse d).isSome
    let out := if v then Json.pretty { width := w, indent := i, sortKeys := sk = "1" } d else []
    some ("jsonfmt valid=" ++ (if v then "1" else "0") ++ " parse=" ++ (if p then "1" else "0") ++ " out=" ++ hexOf out)
  | _, _, _ => none

/-- `natless <hex a> <hex b>`: the model of `maruel/natural.Less` on its own (C10; `Natural.lean`, the function
`Lemmas/NaturalOrder.lean` proves a strict total order on canonical ids), both ways round -/
def natlessOp (a b : String) : Option String :=
  match unhex a, unhex b with
  | some x, some y =>
    some ("natless less=" ++ (if naturalLess x y then "1" else "0") ++ " rev=" ++ (if naturalLess y x then "1" else "0"))
  | _, _ => none

/-! `jsonpath <o0|o1>[a] <hex doc> (<hex path> <value> <hex enc>)+` (`o1` = `Optimistic: true`, go-snaps' setting;
`a` asks the harness to cross-check match.Any / match.Custom): the JSON lens model on its own (C15 / C16,
lean/GoSnaps/JsonPath.lean), one or more steps applied left to right, each step as go-snaps' matchers
do it: `gjson.GetBytes(doc, path)`, and — only when the path exists and a value is given —
`sjson.SetBytesOptions(doc, path, value, {Optimistic: true})`, whose result is the next step's document.
`<value>` is `-` (look-up only), `s:<hex>` (a Go string: the model computes sjson's encoding itself,
`JsonPath.stringify`) or `r:<hex>` (any other Go value: `<hex enc>` is the JSON text sjson wrote for it,
computed by the harness with the library and appended to the line handed to the model).
Answer per step: `exists= idx=<Result.Index | Result.Indexes> get=<Result.Raw> enc=<value text> set=<document
after the set> valid=<gjson.Valid of it> get2=<Raw of the same path in it> any=1`.  A step outside
the model (path outside the fragment, sjson would create members, …) makes the whole line
`skipline cover=0 reason=…`: it is not compared, and counted. -/

def natList (l : List Nat) : String :=
  if l.isEmpty then "-" else ",".intercalate (l.map toString)

/-- one step on the document `doc` with tree `d`; `Except` carries the reason the model does not
cover it; the result is the answer, the next document and its tree -/
def jsonpathStep (opt : Bool) (doc : Text) (d : Json.JV) (path value enc : String) : Except String (String × Text × Json.JV) :=
  match unhex path, unhex enc with
  | some ptxt, some encB =>
    let valText : Except String (Option Text) :=
      if value = "-" then .ok none
      else if value.startsWith "s:" then
        match unhex (value.drop 2).toString with
        | some s => .ok (some (JsonPath.stringify s))
        | none => .error "bad-value"
      else if value.startsWith "r:" then .ok (some encB)
      else .error "bad-value"
    match valText, JsonPath.parsePath ptxt with
    | .error e, _ => .error e
    | .ok _, none => .error "path"
    | .ok vt, some p =>
      if !JsonPath.covers d p then .error "gjson-quirk"
      else
        match JsonPath.getB doc d p with
        | none => .error "get"
        | some none =>
          .ok ("exists=0 idx=- get=- enc=" ++ hexOf (vt.getD []) ++ " set=- valid=- get2=- any=1", doc, d)
        | some (some (raw, idx)) =>
          match vt with
          | none =>
            .ok ("exists=1 idx=" ++ natList idx ++ " get=" ++ hexOf raw ++ " enc=- set=- valid=- get2=- any=1", doc, d)
          | some v =>
            if (Json.parse v).isNone then .error "value"
            else
              match JsonPath.setB opt doc d p v with
              | none => .error "create"
              | some out =>
                match Json.parse out with
                | none => .error "set-result-does-not-parse"
                | some d' =>
                  let g2 := if !JsonPath.covers d' p then "!outside" else
                    match JsonPath.getB out d' p with
                    | some (some (r2, _)) => hexOf r2
                    | some none => "!missing"
                    | none => "!outside"
                  .ok ("exists=1 idx=" ++ natList idx ++ " get=" ++ hexOf raw ++ " enc=" ++ hexOf v ++ " set=" ++ hexOf out ++
                    " valid=" ++ (if Json.jsonValid out then "1" else "0") ++ " get2=" ++ g2 ++ " any=1", out, d')
  | _, _ => .error "bad-hex"

def jsonpathSteps (opt : Bool) : Nat → Text → Json.JV → List String → String → Except String String
  | _, _, _, [], acc => .ok acc
  | k, doc, d, path :: value :: enc :: rest, acc =>
    match jsonpathStep opt doc d path value enc with
    | .error e => .error ("reason=" ++ e ++ " step=" ++ toString k)
    | .ok (s, doc', d') => jsonpathSteps opt (k + 1) doc' d' rest (acc ++ " " ++ s)
  | _, _, _, _, _ => .error "reason=bad-op step=0"

def jsonpathOp (o doc : String) (steps : List String) : Option String :=
  match unhex doc with
  | some doc =>
    if steps.isEmpty || !(o.startsWith "o0" || o.startsWith "o1") then none
    else
      match Json.parse doc with
      | none => some "skipline cover=0 reason=doc step=1"
      | some d =>
        match jsonpathSteps (o.startsWith "o1") 1 doc d steps "jsonpath" with
        | .ok r => some r
        | .error e => some ("skipline cover=0 " ++ e)
  | none => none

def stepX (s : DState) (line : String) : DState × Option String :=
  match (line.splitOn " ").filter (· ≠ "") with
  | "jsonpath" :: o :: doc :: steps =>
    match jsonpathOp o doc steps with
    | some r => (s, some r)
    | none => bad s line
  | ["jsonfmt", doc, sk, ind, width] =>
    match jsonfmtOp doc sk ind width with
    | some r => (s, some r)
    | none => bad s line
  | ["natless", a, b] =>
    match natlessOp a b with
    | some r => (s, some r)
    | none => bad s line
  | ["fscrlf", mode, p] =>
    match unhex p with
    | some p =>
      match fsRead s.w.fs p with
      | some c =>
        let c' := if mode = "all" then crlfAll c else crlfAlt c (mode = "odd")
        ({ s with w := { s.w with fs := fsWrite s.w.fs p c' } }, some "fscrlf ok")
      | none => (s, some "fscrlf ok")
    | none => bad s line
  | ["ora", "fs", p, c] =>
    -- `fsedit` of the harness: the file was edited from outside between two runs (top blank line, final
    -- newline, blank lines between entries removed); the harness reports the new content
    match unhex p, unhex c with
    | some p, some c => ({ s with w := { s.w with fs := fsWrite s.w.fs p c } }, none)
    | _, _ => bad s line
  | ["cfgrel", n, "=", file, ext] =>
    -- `Dir("")`: the empty directory option (snapshots next to the test file), as distinct from no `Dir` option
    match n.toNat?, unhex file, unhex ext with
    | some n, some f, some e =>
      ({ s with w := { s.w with cfgs := setCfg s.w.cfgs n { filename := f, snapsDir := [], extension := e, update := none } } }, some "cfgrel ok")
    | _, _, _ => bad s line
  | ["setenv", _, _] =>
    -- the process changes its environment while it runs: the mode of the run is what the `mode` line (the
    -- start-up capture of CI / UPDATE_SNAPS) said, a later change is not consulted
    (s, some "setenv ok")
  | ["fsrmdir", p] =>
    -- a directory removed with everything in it
    match unhex p with
    | some p => ({ s with w := { s.w with fs := s.w.fs.filter (fun e => !((p ++ [47]).isPrefixOf e.1)) } }, some "fsrmdir ok")
    | none => bad s line
  | ["goflag", _, _] =>
    -- a command-line flag declared by the user's tests (`-update` for golden files): the mode of the run is what
    -- the `mode` line said, nothing else is consulted
    (s, some "goflag ok")
  | ["chdir", _] =>
    -- the test changes its working directory: nothing in the model depends on it (ordinary builds)
    (s, some "chdir ok")
  | _ => step s line

/-- `stepX` never changes the state on a `jsonfmt` line -/
theorem stepX_jsonfmt_state (s : DState) (line doc sk ind width : String)
    (h : (line.splitOn " ").filter (· ≠ "") = ["jsonfmt", doc, sk, ind, width]) : (stepX s line).1 = s := by
  unfold stepX
  rw [h]
  simp only
  cases jsonfmtOp doc sk ind width <;> rfl

/-- `stepX` never changes the state on a `jsonpath` line -/
theorem stepX_jsonpath_state (s : DState) (line o doc : String) (steps : List String)
    (h : (line.splitOn " ").filter (· ≠ "") = "jsonpath" :: o :: doc :: steps) : (stepX s line).1 = s := by
  unfold stepX
  rw [h]
  simp only
  cases jsonpathOp o doc steps <;> rfl

/-- `stepX` never changes the state on a `chdir` line: nothing in the model of an ordinary build depends on the
working directory -/
theorem stepX_chdir_state (s : DState) (line d : String)
    (h : (line.splitOn " ").filter (· ≠ "") = ["chdir", d]) : (stepX s line).1 = s := by
  unfold stepX
  rw [h]
  simp only

/-- `stepX` never changes the state on a `setenv` line: the mode is the start-up capture -/
theorem stepX_setenv_state (s : DState) (line k v : String)
    (h : (line.splitOn " ").filter (· ≠ "") = ["setenv", k, v]) : (stepX s line).1 = s := by
  unfold stepX
  rw [h]
  simp only

/-- `cfgrel n = f e` builds the Config with the EMPTY snapshot directory (`Dir("")`), and touches nothing else -/
theorem stepX_cfgrel_empty_dir (s : DState) (line n f e : String) (k : Nat) (ft et : Text)
    (h : (line.splitOn " ").filter (· ≠ "") = ["cfgrel", n, "=", f, e])
    (hn : n.toNat? = some k) (hf : unhex f = some ft) (he : unhex e = some et) :
    (stepX s line).1 = { s with w := { s.w with cfgs := setCfg s.w.cfgs k { filename := ft, snapsDir := [], extension := et, update := none } } } := by
  unfold stepX
  rw [h]
  simp only
  rw [hn, hf, he]

end GoSnaps
