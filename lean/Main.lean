import GoSnaps.DriverX
open GoSnaps

partial def loop (h : IO.FS.Stream) (out : IO.FS.Stream) (s : DState) : IO Unit := do
  let line ← h.getLine
  if line.isEmpty then return ()
  let l := (line.dropEndWhile (fun c => c = '\n' || c = '\r')).toString
  let (s', o) := stepX s l
  match o with
  | some str => out.putStrLn str
  | none => pure ()
  loop h out s'

def main : IO Unit := do
  let stdin ← IO.getStdin
  let stdout ← IO.getStdout
  loop stdin stdout { w := { env := { isCI := false, updateVAR := "" } } }
  stdout.flush
