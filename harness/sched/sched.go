//go:build verifsched

// Deterministic cooperative scheduler for the schedule explorer (C06).  Injected into package
// snaps together with a yieldified copy of snapshot.go (tools/yieldify); never part of a
// normal build.  Exactly one worker goroutine runs between two yield points, so a schedule is
// a list of worker ids and is replayable.
package snaps

import "sync"

const (
	actPlain = iota
	actAcquireW
	actAcquireR
	actDone
)

type verifAction struct {
	tid   int
	kind  int
	label string
}

var verifSched struct {
	active  bool
	cur     int
	post    chan verifAction
	resume  []chan struct{}
	writer  int
	readers int
	rheld   []int // read locks held, per worker
}

// verifRWMutex has the method set of sync.RWMutex; under the explorer, lock operations are
// scheduling points and the lock state is kept by the scheduler.
type verifRWMutex struct {
	real sync.RWMutex
}

func verifYield(label string) {
	if !verifSched.active {
		return
	}
	me := verifSched.cur
	verifSched.post <- verifAction{me, actPlain, label}
	<-verifSched.resume[me]
}

func (m *verifRWMutex) Lock() {
	if !verifSched.active {
		m.real.Lock()
		return
	}
	me := verifSched.cur
	verifSched.post <- verifAction{me, actAcquireW, "Lock"}
	<-verifSched.resume[me] // the scheduler resumes us only when the lock is free, and marks us as holder
}

func (m *verifRWMutex) Unlock() {
	if !verifSched.active {
		m.real.Unlock()
		return
	}
	verifSched.writer = -1
}

func (m *verifRWMutex) RLock() {
	if !verifSched.active {
		m.real.RLock()
		return
	}
	me := verifSched.cur
	verifSched.post <- verifAction{me, actAcquireR, "RLock"}
	<-verifSched.resume[me]
}

func (m *verifRWMutex) RUnlock() {
	if !verifSched.active {
		m.real.RUnlock()
		return
	}
	verifSched.readers--
	if me := verifSched.cur; me < len(verifSched.rheld) {
		verifSched.rheld[me]--
	}
}
