//go:build verifsched

package snaps

import (
	"bufio"
	"fmt"
	"os"
	"path/filepath"
	"sort"
	"strconv"
	"strings"
	"testing"
)

type concCall struct {
	slot, val            int
	canCreate, canUpdate bool
}

type concT struct {
	name     string
	events   []string
	cleanups []func()
}

func (m *concT) Helper()                  {}
func (m *concT) Skip(args ...any)         {}
func (m *concT) Skipf(f string, a ...any) {}
func (m *concT) SkipNow()                 {}
func (m *concT) Name() string             { return m.name }
func (m *concT) Error(args ...any)        { m.events = append(m.events, "f") }
func (m *concT) Log(args ...any) {
	s := fmt.Sprint(args...)
	if strings.HasSuffix(s, "added") {
		m.events = append(m.events, "a")
	} else {
		m.events = append(m.events, "u")
	}
}
func (m *concT) Cleanup(f func()) { m.cleanups = append(m.cleanups, f) }

type concWorld struct {
	init  [][2]int // slot, val (file order)
	progs [][]concCall
}

func parseWorld(initS, progsS string) concWorld {
	var w concWorld
	if initS != "-" {
		for _, e := range strings.Split(initS, ",") {
			p := strings.Split(e, ":")
			a, _ := strconv.Atoi(p[0])
			b, _ := strconv.Atoi(p[1])
			w.init = append(w.init, [2]int{a, b})
		}
	}
	for _, th := range strings.Split(progsS, ";") {
		var cs []concCall
		if th != "-" {
			for _, c := range strings.Split(th, ",") {
				p := strings.Split(c, ":")
				s, _ := strconv.Atoi(p[0])
				v, _ := strconv.Atoi(p[1])
				cs = append(cs, concCall{s, v, p[2] == "1", p[3] == "1"})
			}
		}
		w.progs = append(w.progs, cs)
	}
	return w
}

// thread i runs the test named TestT followed by i times "x": every name is a proper prefix of
// the next one, as sibling tests often are (TestUser, TestUserList)
func threadName(i int) string { return "TestT" + strings.Repeat("x", i) }

// valText: the text of value v - one to three lines, so that rewriting an entry changes the line numbers of the
// entries after it
func valText(v int) string {
	l := fmt.Sprintf("v%d", v)
	if (v >= 500) != (v%2 == 0) {
		// (the harness's "old" values are the new ones plus 500: an update of an odd value shrinks the entry by
		// two lines, an update of an even one makes it grow by two)
		return l + "\n" + l + "\n" + l
	}
	return l
}

func slotID(slot int) string { return fmt.Sprintf("%s - %d", threadName(slot/100), slot%100) }

// runSchedule executes the world under `prefix` (then lowest-enabled-first); returns the effective
// schedule, per step the enabled set (for the DFS), the final file and the outcomes.
func runConc(w concWorld, dir string, prefix []int) (eff []int, enabledAt [][]int, file string, outs []string) {
	os.RemoveAll(dir)
	os.MkdirAll(dir, 0o755)
	path := filepath.Join(dir, "f.snap")
	var sb strings.Builder
	for _, e := range w.init {
		fmt.Fprintf(&sb, "\n[%s]\n%s\n---\n", slotID(e[0]), valText(e[1]))
	}
	if len(w.init) > 0 {
		os.WriteFile(path, []byte(sb.String()), 0o644)
	}
	testsRegistry = newRegistry()
	testEvents = newTestEvents()
	isCI, updateVAR = false, ""
	n := len(w.progs)
	S := &verifSched
	S.post = make(chan verifAction)
	S.resume = make([]chan struct{}, n)
	S.writer, S.readers = -1, 0
	S.rheld = make([]int, n)
	S.active = true
	ts := make([]*concT, n)
	pending := make([]verifAction, n)
	finished := make([]bool, n)
	cfgs := map[[2]bool]*Config{
		{true, true}:   WithConfig(Dir(dir), Filename("f"), Update(true)),
		{true, false}:  WithConfig(Dir(dir), Filename("f")),
		{false, false}: WithConfig(Dir(dir), Filename("f"), Update(false)),
	}
	for i := 0; i < n; i++ {
		S.resume[i] = make(chan struct{})
		ts[i] = &concT{name: threadName(i)}
		i := i
		S.cur = i
		go func() {
			for _, c := range w.progs[i] {
				before := len(ts[i].events)
				cfgs[[2]bool{c.canCreate, c.canUpdate}].MatchSnapshot(ts[i], valText(c.val))
				if len(ts[i].events) == before {
					ts[i].events = append(ts[i].events, "p") // no event: the call passed
				}
			}
			// the test finishes: its registered cleanups run (while other tests may be mid-way)
			for j := len(ts[i].cleanups) - 1; j >= 0; j-- {
				ts[i].cleanups[j]()
			}
			S.post <- verifAction{i, actDone, "done"}
		}()
		// the worker runs up to its first scheduling point (no shared effect before it)
		a := <-S.post
		pending[i] = a
		finished[i] = a.kind == actDone
	}
	enabled := func(i int) bool {
		if finished[i] {
			return false
		}
		switch pending[i].kind {
		case actAcquireW:
			return S.writer == -1 && S.readers == 0
		case actAcquireR:
			// sync.RWMutex prefers writers: once a goroutine has CALLED Lock (its pending action), new RLock calls
			// wait for it - so a reader that takes the read lock a second time while a writer is queued never
			// gets it (and the writer never gets the lock: the reader still holds it)
			// That matters for a worker that already HOLDS a read lock (every other RLock may as well have come
			// before the writer's call: the time between two calls of a worker is arbitrary).
			if S.rheld[i] > 0 {
				for j := 0; j < n; j++ {
					if j != i && !finished[j] && pending[j].kind == actAcquireW {
						return false
					}
				}
			}
			return S.writer == -1
		}
		return true
	}
	step := 0
	for {
		var en []int
		for i := 0; i < n; i++ {
			if enabled(i) {
				en = append(en, i)
			}
		}
		if len(en) == 0 {
			break
		}
		choice := en[0]
		if step < len(prefix) {
			choice = prefix[step]
			if !enabled(choice) {
				// a blocked or finished choice is a stutter; it is not part of the effective schedule
				step++
				continue
			}
		}
		enabledAt = append(enabledAt, en)
		eff = append(eff, choice)
		switch pending[choice].kind {
		case actAcquireW:
			S.writer = choice
		case actAcquireR:
			S.readers++
			S.rheld[choice]++
		}
		S.cur = choice
		S.resume[choice] <- struct{}{}
		a := <-S.post
		pending[a.tid] = a
		if a.kind == actDone {
			finished[a.tid] = true
		}
		step++
	}
	S.active = false
	for i := 0; i < n; i++ {
		if !finished[i] {
			// nobody is enabled and this worker has not finished: the schedule ends in a deadlock
			ts[i].events = append(ts[i].events, "D")
		}
	}
	b, _ := os.ReadFile(path)
	// parse the final file: entries in order as slot:val ('?' when a body is not v<n>)
	var ents []string
	lines := strings.Split(string(b), "\n")
	for i := 0; i+1 < len(lines); i++ {
		l := lines[i]
		if strings.HasPrefix(l, "[TestT") && strings.HasSuffix(l, "]") {
			var k int
			nm := l[1:strings.Index(l, " - ")]
			ti := len(nm) - len("TestT")
			fmt.Sscanf(l[strings.Index(l, " - ")+3:], "%d]", &k)
			body := []string{}
			j := i + 1
			for j < len(lines) && lines[j] != "---" {
				body = append(body, lines[j])
				j++
			}
			v := "?"
			if len(body) >= 1 && strings.HasPrefix(body[0], "v") {
				if n, err := strconv.Atoi(body[0][1:]); err == nil && strings.Join(body, "\n") == valText(n) {
					v = body[0][1:]
				}
			}
			if j >= len(lines) {
				v = "torn"
			}
			ents = append(ents, fmt.Sprintf("%d:%s", ti*100+k, v))
			i = j
		}
	}
	file = strings.Join(ents, ",")
	for i := 0; i < n; i++ {
		// one outcome letter per call: p(assed) when the call produced no event
		o := ""
		ev := ts[i].events
		_ = ev
		o = strings.Join(ts[i].events, "")
		outs = append(outs, o)
	}
	return
}

// TestVerifSched: lines `conc <init> <progs> <mode>`; mode = all (every interleaving, DFS) or
// a comma-separated schedule prefix.  Output: one `run ...` line per executed schedule.
func TestVerifSched(t *testing.T) {
	p := os.Getenv("VERIF_OPS")
	if p == "" {
		t.Skip("VERIF_OPS not set")
	}
	in, _ := os.Open(p)
	defer in.Close()
	out, _ := os.Create(os.Getenv("VERIF_OUT"))
	defer out.Close()
	bw := bufio.NewWriter(out)
	defer bw.Flush()
	dir, _ := os.MkdirTemp("", "verifconc")
	defer os.RemoveAll(dir)
	maxRuns := 20000
	if s := os.Getenv("VERIF_MAXRUNS"); s != "" {
		maxRuns, _ = strconv.Atoi(s)
	}
	sc := bufio.NewScanner(in)
	sc.Buffer(make([]byte, 1<<20), 1<<26)
	for sc.Scan() {
		f := strings.Fields(sc.Text())
		if len(f) != 4 || f[0] != "conc" {
			fmt.Fprintf(bw, "bad-op %s\n", sc.Text())
			continue
		}
		w := parseWorld(f[1], f[2])
		emit := func(eff []int, file string, outs []string) {
			ss := make([]string, len(eff))
			for i, x := range eff {
				ss[i] = strconv.Itoa(x)
			}
			fmt.Fprintf(bw, "run %s %s sched=%s file=%s outs=%s\n", f[1], f[2], strings.Join(ss, ","), file, strings.Join(outs, ";"))
		}
		if f[3] != "all" {
			var prefix []int
			if f[3] != "-" {
				for _, x := range strings.Split(f[3], ",") {
					n, _ := strconv.Atoi(x)
					prefix = append(prefix, n)
				}
			}
			eff, _, file, outs := runConc(w, dir, prefix)
			emit(eff, file, outs)
			continue
		}
		// stateless DFS with re-execution over all interleavings of enabled workers
		runs := 0
		var dfs func(prefix []int)
		dfs = func(prefix []int) {
			if runs >= maxRuns {
				return
			}
			eff, enabledAt, file, outs := runConc(w, dir, prefix)
			runs++
			emit(eff, file, outs)
			for pos := len(eff) - 1; pos >= len(prefix); pos-- {
				alts := append([]int(nil), enabledAt[pos]...)
				sort.Ints(alts)
				for _, a := range alts {
					if a > eff[pos] {
						np := append(append([]int(nil), eff[:pos]...), a)
						dfs(np)
					}
				}
			}
		}
		dfs(nil)
		fmt.Fprintf(bw, "explored %d\n", runs)
	}
}
