//go:build verif

// Black-box harness for internal/difflib (exported API only): `dl <a> <b>` lines, each letter of a
// and b is one sequence element ("-" = empty sequence); `dll <a> <b>`: the elements are whole lines
// (hex, comma-separated).
package difflib_test

import (
	"bufio"
	"encoding/hex"
	"fmt"
	"os"
	"strings"
	"testing"

	"github.com/gkampitakis/go-snaps/internal/difflib"
)

func seq(s string) []string {
	if s == "-" {
		return []string{}
	}
	out := make([]string, len(s))
	for i := 0; i < len(s); i++ {
		out[i] = s[i : i+1]
	}
	return out
}

// lines decodes a sequence of whole lines: "-" = empty sequence, otherwise comma-separated elements,
// each hex-encoded ("~" = the empty line).
func lines(s string) []string {
	if s == "-" {
		return []string{}
	}
	var out []string
	for _, e := range strings.Split(s, ",") {
		if e == "~" {
			out = append(out, "")
			continue
		}
		b, err := hex.DecodeString(e)
		if err != nil {
			panic(err)
		}
		out = append(out, string(b))
	}
	return out
}

func groups(a, b []string, n int) string {
	m := difflib.NewMatcher(a, b)
	var gs []string
	for _, g := range m.GetGroupedOpCodes(n) {
		var cs []string
		for _, c := range g {
			cs = append(cs, fmt.Sprintf("%d:%d:%d:%d:%d", c.Tag, c.I1, c.I2, c.J1, c.J2))
		}
		gs = append(gs, strings.Join(cs, ","))
	}
	return strings.Join(gs, ";")
}

func TestVerifDifflib(t *testing.T) {
	p := os.Getenv("VERIF_OPS")
	if p == "" {
		t.Skip("VERIF_OPS not set")
	}
	in, err := os.Open(p)
	if err != nil {
		t.Fatal(err)
	}
	defer in.Close()
	out, _ := os.Create(os.Getenv("VERIF_OUT"))
	defer out.Close()
	w := bufio.NewWriter(out)
	defer w.Flush()
	sc := bufio.NewScanner(in)
	sc.Buffer(make([]byte, 1<<20), 1<<28)
	for sc.Scan() {
		f := strings.Fields(sc.Text())
		if len(f) == 3 && f[0] == "dl" {
			a, b := seq(f[1]), seq(f[2])
			fmt.Fprintf(w, "dl full=%s groups=%s\n", groups(a, b, 1<<20), groups(a, b, 3))
		} else if len(f) == 3 && f[0] == "dll" {
			// the elements are real lines (arbitrary byte strings), not single letters
			a, b := lines(f[1]), lines(f[2])
			fmt.Fprintf(w, "dl full=%s groups=%s\n", groups(a, b, 1<<20), groups(a, b, 3))
		} else if len(f) == 3 && f[0] == "range" {
			var s, e int
			fmt.Sscan(f[1], &s)
			fmt.Sscan(f[2], &e)
			fmt.Fprintf(w, "range %s\n", difflib.FormatRangeUnified(s, e))
		} else {
			fmt.Fprintf(w, "bad-op %s\n", sc.Text())
		}
	}
}
