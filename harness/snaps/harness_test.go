//go:build verif

// Correspondence harness, injected into package snaps at build time with `go test -overlay`
// (nothing is committed to /repo).  It interprets the same one-operation-per-line protocol as
// the Lean driver (lean/GoSnaps/Driver.lean), runs the real code against a mock testingT in a
// scratch directory, and prints one canonical result line per operation.
package snaps

import (
	"bufio"
	"bytes"
	"encoding/hex"
	"encoding/json"
	"errors"
	"flag"
	"fmt"
	"go/ast"
	"go/parser"
	"go/token"
	"io"
	"os"
	"os/signal"
	"path"
	"path/filepath"
	"regexp"
	"runtime"
	"sort"
	"strconv"
	"strings"
	"syscall"
	"testing"
	"time"

	"github.com/gkampitakis/go-snaps/match"
	"github.com/goccy/go-yaml"
	"github.com/maruel/natural"
	krpretty "github.com/kr/pretty"
	"github.com/tidwall/gjson"
	"github.com/tidwall/pretty"
	"github.com/tidwall/sjson"
)

type mockT struct {
	name     string
	events   []string
	cleanups []func()
}

func hx(s string) string {
	if s == "" {
		return "-"
	}
	return hex.EncodeToString([]byte(s))
}

func unhx(s string) string {
	if s == "-" {
		return ""
	}
	b, err := hex.DecodeString(s)
	if err != nil {
		panic("bad hex " + s)
	}
	return string(b)
}

func (m *mockT) Helper()                   {}
func (m *mockT) Skip(args ...any)          { m.events = append(m.events, "S:"+hx(fmt.Sprint(args...))) }
func (m *mockT) Skipf(f string, a ...any)  { m.events = append(m.events, "SF:"+hx(fmt.Sprintf(f, a...))) }
func (m *mockT) SkipNow()                  { m.events = append(m.events, "SN") }
func (m *mockT) Name() string              { return m.name }
func (m *mockT) Error(args ...any)         { m.events = append(m.events, "E:"+hx(fmt.Sprint(args...))) }
func (m *mockT) Log(args ...any)           { m.events = append(m.events, "L:"+hx(fmt.Sprint(args...))) }
func (m *mockT) Cleanup(f func())          { m.cleanups = append(m.cleanups, f) }
func (m *mockT) take() string              { e := strings.Join(m.events, ","); m.events = nil; return e }

var verifSentinel = time.Date(2001, 1, 1, 0, 0, 0, 0, time.UTC)

type world struct {
	root    string
	cfgs    map[int]*Config
	cfgJSON map[int]*JSONConfig
	// cfgs whose only option is Dir: every other call through them goes through the PACKAGE-LEVEL
	// functions (MatchSnapshot(t, …) etc.), with defaultConfig.snapsDir pointed at the world's
	// directory for the duration of the call, so that the exported wrappers are exercised too
	cfgPlain map[int]bool
	optCache map[string]func(*Config)
	// matcher VALUES are reused too: the same spec gives the same match.Any/Type/Custom value for the
	// whole world (a package-level `var idMatcher = match.Type[string]("id")` used by many tests)
	matcherCache map[string]bothMatcher
	pkgTurn  bool
	dead     bool
	limitNext bool
	envRestore map[string]*string
	dirsBefore map[string]bool
	optBuf     []func(*Config)
	bufTurn  bool
	// a `nest` op arms one Match* call that is made from INSIDE a user-defined matcher of the next
	// json/sajson/yaml op (a re-entrant call); its result line is held back until the outer call returned
	pending []string
	held    []string
	ts      map[int]*mockT
	realEnv bool
	out     *bufio.Writer
	ann     *annW
}

func (w *world) abs(rel string) string {
	if rel == "" {
		return w.root
	}
	return filepath.Join(w.root, rel)
}

// stamp sets every file's mtime to the sentinel and returns the set of files
func (w *world) stamp() map[string]bool {
	files := map[string]bool{}
	w.dirsBefore = map[string]bool{}
	filepath.Walk(w.root, func(p string, info os.FileInfo, err error) error {
		if err == nil && info.Mode()&os.ModeSymlink != 0 {
			return nil // a link (fssymlink) is neither a file nor a directory of the world
		}
		if err == nil && !info.IsDir() {
			os.Chtimes(p, verifSentinel, verifSentinel)
			files[p] = true
		} else if err == nil {
			w.dirsBefore[p] = true
		}
		return nil
	})
	return files
}

func (w *world) changes(before map[string]bool) (written, removed []string) {
	now := map[string]bool{}
	filepath.Walk(w.root, func(p string, info os.FileInfo, err error) error {
		if err == nil && info.Mode()&os.ModeSymlink != 0 {
			return nil
		}
		if err == nil && !info.IsDir() {
			now[p] = true
			if !info.ModTime().Equal(verifSentinel) {
				written = append(written, p)
			}
		} else if err == nil && w.dirsBefore != nil && !w.dirsBefore[p] {
			// a directory that did not exist before the operation and holds nothing: the operation created a
			// directory without writing a file into it (reported as a write of "<dir>/")
			if ents, e := os.ReadDir(p); e == nil && len(ents) == 0 {
				written = append(written, p+"/")
			}
		}
		return nil
	})
	for p := range before {
		if !now[p] {
			removed = append(removed, p)
		}
	}
	sort.Strings(written)
	sort.Strings(removed)
	return
}

func hexList(l []string) string {
	o := make([]string, len(l))
	for i, s := range l {
		o[i] = hx(s)
	}
	return strings.Join(o, ",")
}

type matcherSpec struct {
	kind  string
	flags string
	eom   bool
	stmt  bool   // options called as statements on a matcher built earlier, results dropped
	ph    string // hex-decoded JSON literal for Any; type name for Type; ok/err payload for Custom
	paths []string
	okErr string
	inner []string // W: tokens of the wrapped matchers
}

// parseMatcher: <kind>;<flags>;...   flags of A/T/C: "1"/"0" (ErrOnMissingPath) + optional "s"
// (statement-style configuration); flags of the user-defined kinds U/W: letters, see userMatcher
func parseMatcher(tok string) matcherSpec {
	f := strings.Split(tok, ";")
	m := matcherSpec{kind: f[0], flags: f[1], eom: strings.HasPrefix(f[1], "1"), stmt: strings.Contains(f[1], "s")}
	switch f[0] {
	case "A":
		m.ph = f[2]
		for _, p := range strings.Split(f[3], ",") {
			m.paths = append(m.paths, unhx(p))
		}
	case "T":
		m.ph = f[2]
		for _, p := range strings.Split(f[3], ",") {
			m.paths = append(m.paths, unhx(p))
		}
	case "C":
		m.paths = []string{unhx(f[2])}
		m.okErr = f[3]
		m.ph = unhx(f[4])
	case "W":
		m.inner = strings.Fields(unhx(f[2]))
	case "U":
	}
	return m
}

// tokenFires: does applying this matcher make the armed nested call?
func tokenFires(tok string) bool {
	sp := parseMatcher(tok)
	if (sp.kind == "U" && strings.Contains(sp.flags, "x")) || (sp.kind == "C" && sp.okErr == "okx") {
		return true
	}
	for _, in := range sp.inner {
		if tokenFires(in) {
			return true
		}
	}
	return false
}

type bothMatcher interface {
	JSON([]byte) ([]byte, []match.MatcherError)
	YAML([]byte) ([]byte, []match.MatcherError)
}

// userMatcher: a matcher written by the USER against the public interfaces match.JSONMatcher /
// match.YAMLMatcher.  It only inspects the document (which must be what the library validated) and
// hands it on unchanged.  flags: e = "no errors" is an empty non-nil slice (the idiom
// `errs := []match.MatcherError{}` the library uses itself), otherwise nil; c = returns a copy
// instead of the slice it was given; x = makes the Match* call armed by the preceding `nest` op
// (a helper that snapshots something else while the outer call is between validation and
// formatting)
type userMatcher struct {
	flags string
	w     *world
}

func (u *userMatcher) apply(kind string, b []byte) ([]byte, []match.MatcherError) {
	ok := true
	if kind == "json" {
		ok = gjson.ValidBytes(b)
	} else {
		var v any
		ok = yaml.Unmarshal(b, &v) == nil
	}
	if !ok {
		return nil, []match.MatcherError{{Reason: errors.New("the document handed to the matcher is not valid"), Matcher: "User", Path: "*"}}
	}
	if strings.Contains(u.flags, "x") && u.w != nil && u.w.pending != nil {
		u.w.runNested()
	}
	out := b
	if strings.Contains(u.flags, "c") {
		out = append([]byte(nil), b...)
	}
	if strings.Contains(u.flags, "e") {
		return out, []match.MatcherError{}
	}
	return out, nil
}

func (u *userMatcher) JSON(b []byte) ([]byte, []match.MatcherError) { return u.apply("json", b) }
func (u *userMatcher) YAML(b []byte) ([]byte, []match.MatcherError) { return u.apply("yaml", b) }

// compositeMatcher: a user-defined matcher grouping built-in (or other) matchers and collecting
// their errors; the group fails as a whole.  flag e: success is reported as an empty non-nil slice
type compositeMatcher struct {
	flags string
	inner []bothMatcher
}

func (c *compositeMatcher) run(b []byte, f func(bothMatcher, []byte) ([]byte, []match.MatcherError)) ([]byte, []match.MatcherError) {
	errs := []match.MatcherError{}
	cur := b
	for _, m := range c.inner {
		o, e := f(m, cur)
		if len(e) > 0 {
			errs = append(errs, e...)
			continue
		}
		cur = o
	}
	if len(errs) > 0 {
		return nil, errs
	}
	if strings.Contains(c.flags, "e") {
		return cur, errs
	}
	return cur, nil
}

func (c *compositeMatcher) JSON(b []byte) ([]byte, []match.MatcherError) {
	return c.run(b, func(m bothMatcher, x []byte) ([]byte, []match.MatcherError) { return m.JSON(x) })
}

func (c *compositeMatcher) YAML(b []byte) ([]byte, []match.MatcherError) {
	return c.run(b, func(m bothMatcher, x []byte) ([]byte, []match.MatcherError) { return m.YAML(x) })
}

func decodeLit(s string) any {
	if s == `"@unencodable"` {
		// a placeholder no encoder accepts (a func passed by mistake: `Placeholder(time.Now)`)
		return func() {}
	}
	// composite placeholders whose elements are Go INTEGERS (a literal decoded from JSON text only has float64)
	if s == `"@bigints"` {
		return []int64{9007199254740993, 7}
	}
	if s == `"@intmap"` {
		return map[string]any{"version": 3, "big": int64(9007199254740993), "ids": []int{1, 2}}
	}
	var v any
	if err := json.Unmarshal([]byte(s), &v); err != nil {
		panic("bad literal " + s)
	}
	return v
}

// typeM: chained (`match.Type[T](…).ErrOnMissingPath(x)`) or statement style (`m := match.Type[T](…);
// m.ErrOnMissingPath(x)`)
func typeM[T any](m matcherSpec) bothMatcher {
	if m.stmt {
		t := match.Type[T](m.paths...)
		t.ErrOnMissingPath(m.eom)
		return t
	}
	return match.Type[T](m.paths...).ErrOnMissingPath(m.eom)
}

// build: w == nil gives a fresh, side-effect free value (used by the independent oracle pipeline);
// with a world the wrapped matchers of a composite are the world's shared values
func (m matcherSpec) build(w *world) bothMatcher {
	switch m.kind {
	case "A":
		if strings.Contains(m.flags, "r") {
			// a matcher VALUE that has been applied before (to a YAML and to a JSON document) under another
			// placeholder and is configured again: what counts is the placeholder it carries now (direct worlds only)
			a := match.Any(m.paths...).ErrOnMissingPath(m.eom).Placeholder("placeholder of the first use")
			// (the first use is on the document the matcher is about to see, so that every path it names is found)
			a.YAML(append([]byte("warm: up\n"), warmDoc...))
			a.JSON(append([]byte(nil), warmDoc...))
			if m.ph != "-" {
				a = a.Placeholder(decodeLit(unhx(m.ph)))
			} else {
				a = a.Placeholder("<Any value>")
			}
			return a
		}
		if m.stmt {
			// built first, configured afterwards, the values returned by the option methods are dropped
			a := match.Any(m.paths...)
			if m.ph != "-" {
				a.Placeholder(decodeLit(unhx(m.ph)))
			}
			a.ErrOnMissingPath(m.eom)
			return a
		}
		a := match.Any(m.paths...).ErrOnMissingPath(m.eom)
		if m.ph != "-" {
			a = a.Placeholder(decodeLit(unhx(m.ph)))
		}
		return a
	case "T":
		switch m.ph {
		case "string":
			return typeM[string](m)
		case "float64":
			return typeM[float64](m)
		case "uint64":
			return typeM[uint64](m)
		case "bool":
			return typeM[bool](m)
		case "map":
			return typeM[map[string]any](m)
		case "slice":
			return typeM[[]any](m)
		case "intslice":
			// a concrete element type never matches a decoded document ([]interface {})
			return typeM[[]int](m)
		case "strintmap":
			return typeM[map[string]int](m)
		case "any":
			// match.Type[any]: every value satisfies it; the placeholder names the value's dynamic type
			return typeM[any](m)
		}
	case "C":
		okErr, payload := m.okErr, m.ph
		c := match.Custom(m.paths[0], func(val any) (any, error) {
			if okErr == "err" {
				return nil, errors.New(payload)
			}
			if okErr == "okx" && w != nil && w.pending != nil {
				// the callback itself records a snapshot (of something else): a re-entrant call
				w.runNested()
			}
			if okErr == "okb" {
				// unusual but legal: the replacement is handed back as a []byte (it is stored as a JSON string)
				if str, isStr := decodeLit(payload).(string); isStr {
					return []byte(str), nil
				}
			}
			return decodeLit(payload), nil
		})
		if m.stmt {
			c.ErrOnMissingPath(m.eom)
			return c
		}
		return c.ErrOnMissingPath(m.eom)
	case "W":
		c := &compositeMatcher{flags: m.flags}
		for _, in := range m.inner {
			if w != nil {
				c.inner = append(c.inner, w.matcher(in))
			} else {
				c.inner = append(c.inner, parseMatcher(in).build(nil))
			}
		}
		return c
	case "U":
		return &userMatcher{flags: m.flags, w: w}
	}
	panic("bad matcher " + m.kind)
}

func merrLine(errs []match.MatcherError) string {
	parts := make([]string, len(errs))
	for i, e := range errs {
		parts[i] = hx(e.Matcher) + "," + hx(e.Path) + "," + hx(e.Reason.Error())
	}
	return "ora doc merr " + strings.Join(parts, ";")
}

type ptrMoney struct{ Cents int }

func (m *ptrMoney) MarshalJSON() ([]byte, error) {
	return []byte(fmt.Sprintf("%q", fmt.Sprintf("%d.%02d EUR", m.Cents/100, m.Cents%100))), nil
}

type ptrOrder struct {
	ID    string   `json:"id"`
	Total ptrMoney `json:"total"`
}

type namedString string
type namedBytes []byte

// a struct with a String method (logging helper, generated stringer): a Go value like any other - it is stored as
// its marshalled document, never as its String() text
type stringerSvc struct {
	Name  string   `yaml:"name" json:"name"`
	Hosts []string `yaml:"hosts" json:"hosts"`
}

func (s stringerSvc) String() string { return fmt.Sprintf("service %s (%d hosts)", s.Name, len(s.Hosts)) }

// goValue builds the Go value passed for input form "v"
func goValue(form string, doc []byte) any {
	switch form {
	case "vchan":
		return make(chan int)
	case "vraw":
		// a Go value that carries pre-encoded JSON: it must be validated like any other value
		return json.RawMessage(append([]byte(nil), doc...))
	case "vptr":
		// a struct passed BY VALUE holding a field whose MarshalJSON has a pointer receiver: json.Marshal of a
		// non-addressable value does not call it (the field is encoded as a plain struct)
		var n float64
		json.Unmarshal(doc, &n)
		return ptrOrder{ID: "o-1", Total: ptrMoney{Cents: int(n)}}
	case "vmapraw":
		// a Go map holding pre-encoded JSON whose members are not in order, next to ordinary members
		return map[string]any{"zeta": json.RawMessage(append([]byte{}, doc...)), "alpha": 1, "m": struct {
			Z int `json:"z"`
			A int `json:"a"`
		}{1, 2}}
	case "vstringer":
		return stringerSvc{Name: string(doc), Hosts: []string{"h1", "h2"}}
	case "vnstr":
		// a value of a NAMED string type (type Status string): a Go value like any other, marshalled to a
		// JSON / YAML string whatever its content looks like
		return namedString(doc)
	case "vnbytes":
		// a value of a named byte-slice type (type Body []byte, net.IP): marshalled, not taken as a document
		return namedBytes(append([]byte{}, doc...))
	}
	var v any
	if err := json.Unmarshal(doc, &v); err != nil {
		// not decodable as JSON: pass a struct wrapping the text so that Marshal still succeeds
		return struct{ Raw string }{string(doc)}
	}
	return v
}

// expectJSON: the document pipeline of MatchJSON / MatchStandaloneJSON computed independently
// with the real libraries: validate, apply matchers left to right on private copies
// (a failing matcher's output is discarded), pretty-print, trim one final newline.
func expectJSON(jc *JSONConfig, form string, doc []byte, ms []matcherSpec) string {
	var b []byte
	switch form {
	case "s", "b":
		if !gjson.ValidBytes(doc) {
			return "ora doc err " + hx("invalid json")
		}
		b = append([]byte(nil), doc...)
	default:
		var err error
		b, err = json.Marshal(goValue(form, doc))
		if err != nil {
			return "ora doc err " + hx(err.Error())
		}
	}
	var all []match.MatcherError
	for _, m := range ms {
		o, errs := m.build(nil).JSON(append([]byte(nil), b...))
		if len(errs) > 0 {
			all = append(all, errs...)
			continue
		}
		b = o
	}
	if len(all) > 0 {
		return merrLine(all)
	}
	opts := &pretty.Options{SortKeys: true, Indent: " "}
	if jc != nil {
		opts = &pretty.Options{Width: jc.Width, Indent: jc.Indent, SortKeys: jc.SortKeys}
	}
	return "ora doc ok " + hx(strings.TrimSuffix(string(pretty.PrettyOptions(b, opts)), "\n"))
}

func expectYAML(form string, doc []byte, ms []matcherSpec) string {
	var b []byte
	switch form {
	case "s", "b":
		var out any
		if err := yaml.Unmarshal(doc, &out); err != nil {
			return "ora doc err " + hx("invalid yaml: "+err.Error())
		}
		b = append([]byte(nil), doc...)
	default:
		var err error
		b, err = yaml.MarshalWithOptions(goValue(form, doc), yaml.Indent(2), yaml.IndentSequence(true))
		if err != nil {
			return "ora doc err " + hx("invalid yaml: "+err.Error())
		}
	}
	var all []match.MatcherError
	for _, m := range ms {
		o, errs := m.build(nil).YAML(append([]byte(nil), b...))
		if len(errs) > 0 {
			all = append(all, errs...)
			continue
		}
		b = o
	}
	if len(all) > 0 {
		return merrLine(all)
	}
	return "ora doc ok " + hx(string(b))
}

func (w *world) cleanOracles(run string) {
	if run == "" {
		return
	}
	seenRe := map[string]bool{}
	re := func(s string) {
		if seenRe[s] {
			return
		}
		seenRe[s] = true
		m, _ := regexp.MatchString(run, s)
		r := "0"
		if m {
			r = "1"
		}
		fmt.Fprintf(w.ann, "ora re %s %s %s\n", hx(run), hx(s), r)
	}
	filepath.Walk(w.root, func(p string, info os.FileInfo, err error) error {
		if err != nil || info.IsDir() || !strings.Contains(info.Name(), ".snap") {
			return nil
		}
		data, _ := os.ReadFile(p)
		s := bufio.NewScanner(bytes.NewReader(data))
		s.Buffer([]byte{}, 1<<30)
		for s.Scan() {
			l := s.Text()
			if len(l) >= 2 {
				re(l[1 : len(l)-1])
			}
		}
		gp := path.Join(filepath.Dir(p), "..", strings.TrimSuffix(info.Name(), ".snap")+".go")
		fset := token.NewFileSet()
		f, err := parser.ParseFile(fset, gp, nil, parser.ParseComments)
		if err != nil {
			fmt.Fprintf(w.ann, "ora gofuncs %s ERR\n", hx(gp))
			return nil
		}
		var names []string
		for _, d := range f.Decls {
			if fd, ok := d.(*ast.FuncDecl); ok {
				names = append(names, hx(fd.Name.String()))
				re(fd.Name.String())
			}
		}
		nm := "-"
		if len(names) > 0 {
			nm = strings.Join(names, ",")
		}
		fmt.Fprintf(w.ann, "ora gofuncs %s %s\n", hx(gp), nm)
		return nil
	})
}

// flattenDoc: ordered list of path=literal for every scalar, plus container markers, so that value
// AND position of every member can be compared (hex(path):hex(literal) joined by ',')
func flattenDoc(kind string, doc []byte) string {
	var items []string
	add := func(path, lit string) { items = append(items, hx(path)+":"+hx(lit)) }
	if kind == "json" {
		dec := json.NewDecoder(bytes.NewReader(doc))
		dec.UseNumber()
		var walk func(path string) bool
		walk = func(path string) bool {
			t, err := dec.Token()
			if err != nil {
				add(path, "!ERR "+err.Error())
				return false
			}
			switch v := t.(type) {
			case json.Delim:
				if v == '{' {
					add(path, "{")
					for dec.More() {
						k, err := dec.Token()
						if err != nil {
							add(path, "!ERR")
							return false
						}
						if !walk(path + "/" + strings.ReplaceAll(fmt.Sprint(k), "/", "~1")) {
							return false
						}
					}
					dec.Token()
					add(path, "}")
				} else if v == '[' {
					add(path, "[")
					i := 0
					for dec.More() {
						if !walk(path + "/" + strconv.Itoa(i)) {
							return false
						}
						i++
					}
					dec.Token()
					add(path, "]")
				}
			case string:
				add(path, "s:"+v)
			case json.Number:
				add(path, "n:"+v.String())
			case bool:
				add(path, fmt.Sprintf("b:%v", v))
			case nil:
				add(path, "null")
			}
			return true
		}
		if walk("") {
			if _, err := dec.Token(); err != io.EOF {
				add("", "!TRAILING")
			}
		}
		return strings.Join(items, ",")
	}
	var v yaml.MapSlice
	var any0 any
	if err := yaml.UnmarshalWithOptions(doc, &v, yaml.UseOrderedMap()); err != nil {
		if err2 := yaml.Unmarshal(doc, &any0); err2 != nil {
			add("", "!ERR "+err.Error())
			return strings.Join(items, ",")
		}
		add("", fmt.Sprintf("v:%v", any0))
		return strings.Join(items, ",")
	}
	var walk func(path string, x any)
	walk = func(path string, x any) {
		switch t := x.(type) {
		case yaml.MapSlice:
			add(path, "{")
			for _, it := range t {
				walk(path+"/"+strings.ReplaceAll(fmt.Sprint(it.Key), "/", "~1"), it.Value)
			}
			add(path, "}")
		case []any:
			add(path, "[")
			for i, e := range t {
				walk(path+"/"+strconv.Itoa(i), e)
			}
			add(path, "]")
		default:
			add(path, fmt.Sprintf("%T:%v", x, x))
		}
	}
	walk("", v)
	return strings.Join(items, ",")
}

func captureStdout(f func()) string {
	old := os.Stdout
	tmp, err := os.CreateTemp("", "verifout")
	if err != nil {
		panic(err)
	}
	os.Stdout = tmp
	func() {
		defer func() { os.Stdout = old }()
		f()
	}()
	tmp.Seek(0, io.SeekStart)
	b, _ := io.ReadAll(tmp)
	tmp.Close()
	os.Remove(tmp.Name())
	return string(b)
}

func (w *world) resultLine(op string, t *mockT, before map[string]bool, stdout string) string {
	wr, rm := w.changes(before)
	ev := ""
	if t != nil {
		ev = t.take()
	}
	return fmt.Sprintf("%s ev=%s w=%s d=%s out=%s\n", op, ev, hexList(wr), hexList(rm), hx(stdout))
}

// flushHeld prints the result lines of nested calls that ran inside the current operation
func (w *world) flushHeld() {
	for _, h := range w.held {
		w.out.WriteString(h)
	}
	w.held = nil
}

func (w *world) result(op string, t *mockT, before map[string]bool, stdout string) {
	line := w.resultLine(op, t, before, stdout)
	w.flushHeld()
	w.out.WriteString(line)
}

// runNested makes the armed call.  Its annotated lines are written at once (they precede the outer
// call's: the nested call works on the files first), its result line is held back; afterwards the
// mtimes are stamped again so that the outer call's write detection starts afresh.
func (w *world) runNested() {
	p := w.pending
	w.pending = nil
	old := w.out
	var buf bytes.Buffer
	w.out = bufio.NewWriter(&buf)
	func() {
		defer func() {
			if r := recover(); r != nil {
				fmt.Fprintf(w.out, "panic:%s\n", hx(fmt.Sprint(r)))
			}
			w.out.Flush()
			w.out = old
		}()
		w.exec1(strings.Join(p, " "))
	}()
	w.held = append(w.held, buf.String())
	w.stamp()
}

// callerBytes hands a document over the way a caller owning a larger buffer would: every other time
// as a sub-slice with live data before and after it (spare capacity reaching into that data)
func (w *world) callerBytes(doc []byte) (whole, in []byte) {
	w.bufTurn = !w.bufTurn
	if w.bufTurn {
		in = append([]byte(nil), doc...)
		return in, in
	}
	const head, tail = "<head of the caller's buffer>", "<tail of the caller's buffer>"
	whole = append(append([]byte(head), doc...), tail...)
	return whole, whole[len(head) : len(head)+len(doc)]
}

func callerBytesIntact(whole, in, doc []byte) bool {
	if len(whole) == len(in) {
		return bytes.Equal(in, doc)
	}
	const head, tail = "<head of the caller's buffer>", "<tail of the caller's buffer>"
	return bytes.Equal(whole, []byte(head+string(doc)+tail))
}

func (w *world) matcher(spec string) bothMatcher {
	if m, ok := w.matcherCache[spec]; ok {
		return m
	}
	m := parseMatcher(spec).build(w)
	w.matcherCache[spec] = m
	return m
}

// viaPackage: should this call go through the package-level function?
func (w *world) viaPackage(n int) bool {
	if !w.cfgPlain[n] {
		return false
	}
	w.pkgTurn = !w.pkgTurn
	return w.pkgTurn
}

// withDefaultDir runs a package-level Match* call with defaultConfig.snapsDir set to the
// directory of c; if the call nevertheless wrote next to this source file (the library's
// built-in default location) the files are removed again and the call is flagged.
func (w *world) withDefaultDir(c *Config, t *mockT, f func()) {
	old := defaultConfig
	defaultConfig.snapsDir = c.snapsDir
	_, self, _, _ := runtime.Caller(0)
	stray := filepath.Join(filepath.Dir(self), "__snapshots__")
	before, _ := filepath.Glob(filepath.Join(stray, "zz_verif_*"))
	func() {
		defer func() { defaultConfig = old }()
		f()
	}()
	after, _ := filepath.Glob(filepath.Join(stray, "zz_verif_*"))
	if len(after) > len(before) {
		for _, p := range after {
			os.Remove(p)
		}
		t.events = append(t.events, "X:"+hx("package-level call ignored defaultConfig and wrote into the source tree"))
	}
}

func (w *world) exec(line string) {
	tok := strings.Fields(line)
	if len(tok) == 0 {
		return
	}
	if w.dead {
		fmt.Fprintln(w.out, "dead")
		fmt.Fprintln(w.ann, line)
		return
	}
	if tok[0] == "nest" {
		// nest <json|sajson|yaml> <cfg> <texec> <form> <doc> [matchers]: armed, made by the next op
		if w.pending != nil {
			w.runNested()
			w.flushHeld()
		}
		w.pending = tok[1:]
		return
	}
	if w.pending != nil {
		fires := false
		if tok[0] == "json" || tok[0] == "sajson" || tok[0] == "yaml" {
			for _, m := range tok[5:] {
				fires = fires || tokenFires(m)
			}
		}
		if !fires {
			// no matcher of this operation makes the armed call: it is an ordinary call made now
			w.runNested()
			w.flushHeld()
		}
	}
	w.exec1(line)
}

// fsizeLimit sets the soft RLIMIT_FSIZE of the process (0: every write that would give a regular file any content
// fails with EFBIG - the image of a full disk / exceeded quota) and returns the function that restores it
func fsizeLimit(n uint64) func() {
	signal.Ignore(syscall.SIGXFSZ)
	var old syscall.Rlimit
	if syscall.Getrlimit(syscall.RLIMIT_FSIZE, &old) != nil {
		return func() {}
	}
	syscall.Setrlimit(syscall.RLIMIT_FSIZE, &syscall.Rlimit{Cur: n, Max: old.Max})
	return func() { syscall.Setrlimit(syscall.RLIMIT_FSIZE, &old) }
}

func (w *world) exec1(line string) {
	tok := strings.Fields(line)
	atoi := func(s string) int { n, _ := strconv.Atoi(s); return n }
	if w.limitNext {
		switch tok[0] {
		case "snap", "json", "sajson", "yaml", "sasnap":
			// armed by `fslimit`: this one call runs with a file-size limit of 0 (the harness's own output is
			// flushed before and only buffered meanwhile)
			w.limitNext = false
			w.out.Flush()
			w.ann.Flush()
			defer fsizeLimit(0)()
		}
	}
	switch tok[0] {
	case "fslimit":
		w.limitNext = true
		fmt.Fprintln(w.ann, line)
		fmt.Fprintln(w.out, "fslimit ok")
	case "setenv":
		// setenv <name> <hex value|->: the test process changes its environment while it runs (os.Setenv /
		// t.Setenv in some test); restored when the world ends
		if w.envRestore == nil {
			w.envRestore = map[string]*string{}
		}
		if _, seen := w.envRestore[tok[1]]; !seen {
			if v, ok := os.LookupEnv(tok[1]); ok {
				w.envRestore[tok[1]] = &v
			} else {
				w.envRestore[tok[1]] = nil
			}
		}
		if tok[2] == "-" {
			os.Unsetenv(tok[1])
		} else {
			os.Setenv(tok[1], unhx(tok[2]))
		}
		fmt.Fprintln(w.ann, line)
		fmt.Fprintln(w.out, "setenv ok")
	case "fsrmdir":
		// fsrmdir <hex rel>: a directory of the world removed with everything in it (a tidy-up step between two
		// calls, a regenerate-golden-files script)
		os.RemoveAll(w.abs(unhx(tok[1])))
		fmt.Fprintf(w.ann, "fsrmdir %s\n", hx(w.abs(unhx(tok[1]))))
		fmt.Fprintln(w.out, "fsrmdir ok")
	case "mode":
		ci, upd := tok[1] == "1", unhx(tok[2])
		if w.realEnv {
			if isCI != ci || updateVAR != upd {
				fmt.Fprintf(w.out, "mode MISMATCH real isCI=%v updateVAR=%q\n", isCI, updateVAR)
				fmt.Fprintln(w.ann, line)
				return
			}
		} else {
			isCI, updateVAR = ci, upd
			// the package initialiser, re-evaluated for the new environment (its translation is
			// pinned by Props/C05 on Generated.shouldClean)
			shouldClean = updateVAR == "true" || updateVAR == "clean"
		}
		fmt.Fprintln(w.ann, line)
		fmt.Fprintln(w.out, "mode ok")
	case "cfg":
		n := atoi(tok[1])
		// the Dir option is passed as written (root + "/" + relative part), NOT cleaned, so that
		// trailing separators, "." and ".." segments reach the library
		dir := w.root + "/" + unhx(tok[2])
		// option VALUES are reused: the same Filename/Ext/Update/JSON option (one closure) is applied
		// to every Config of the world that asks for it, as a user sharing `opts := snaps.JSON(…)`
		// between several WithConfig calls would do
		opt := func(key string, mk func() func(*Config)) func(*Config) {
			if o, ok := w.optCache[key]; ok {
				return o
			}
			o := mk()
			w.optCache[key] = o
			return o
		}
		// every Config of a world is built from ONE option buffer with spare capacity (`common := make([]opt, 0, 16);
		// a := WithConfig(append(common, …)...); b := WithConfig(append(common, …)...)`): the option lists share their
		// backing array, as they do in a test helper that assembles options from a common prefix
		if w.optBuf == nil {
			w.optBuf = make([]func(*Config), 0, 16)
		}
		opts := w.optBuf[:0]
		opts = append(opts, Dir(dir))
		if tok[3] != "-" {
			opts = append(opts, opt("fn:"+tok[3], func() func(*Config) { return Filename(unhx(tok[3])) }))
		}
		if tok[4] != "-" {
			opts = append(opts, opt("ext:"+tok[4], func() func(*Config) { return Ext(unhx(tok[4])) }))
		}
		switch tok[5] {
		case "true":
			opts = append(opts, opt("upd:true", func() func(*Config) { return Update(true) }))
		case "false":
			opts = append(opts, opt("upd:false", func() func(*Config) { return Update(false) }))
		}
		w.cfgJSON[n] = nil
		if len(tok) > 6 && tok[6] != "none" {
			// several JSON options separated by '+': applied in order, the last one wins
			for _, spec := range strings.Split(tok[6], "+") {
				f := strings.Split(spec, ":")
				jc := JSONConfig{Width: atoi(f[0]), Indent: unhx(f[1]), SortKeys: f[2] == "1"}
				opts = append(opts, opt("json:"+spec, func() func(*Config) { return JSON(jc) }))
				w.cfgJSON[n] = &jc
			}
		}
		if len(tok) > 7 && tok[7] == "apply" {
			// unusual but legal: an empty Config, configured afterwards by applying the options to it
			// (conditional options); it is the caller's own Config, nothing else may change
			c := WithConfig()
			for _, o := range opts {
				o(c)
			}
			w.cfgs[n] = c
		} else {
			if len(opts) > 1 {
				// a Config built from the common PREFIX of the option list first (`base := WithConfig(common...)`):
				// it shares the backing array with the full list and must leave the other options alone
				_ = WithConfig(opts[:1]...)
			}
			w.cfgs[n] = WithConfig(opts...)
		}
		w.cfgPlain[n] = len(opts) == 1
		fmt.Fprintf(w.ann, "cfg %d %s %s %s %s\n", n, hx(dir), tok[3], tok[4], tok[5])
		fmt.Fprintln(w.out, "cfg ok")
	case "begin":
		w.ts[atoi(tok[1])] = &mockT{name: unhx(tok[2])}
		fmt.Fprintln(w.ann, line)
		fmt.Fprintln(w.out, "begin ok")
	case "snap":
		c, t := w.cfgs[atoi(tok[1])], w.ts[atoi(tok[2])]
		vals := make([]any, len(tok)-3)
		for i, h := range tok[3:] {
			vals[i] = unhx(h)
		}
		before := w.stamp()
		if w.viaPackage(atoi(tok[1])) {
			w.withDefaultDir(c, t, func() { MatchSnapshot(t, vals...) })
		} else {
			c.MatchSnapshot(t, vals...)
		}
		// the model takes *formatted* text: value formatting (kr/pretty) is a parameter
		fm := make([]string, len(vals))
		for i, v := range vals {
			fm[i] = hx(krpretty.Sprint(v))
		}
		fmt.Fprintf(w.ann, "snap %s %s %s\n", tok[1], tok[2], strings.Join(fm, " "))
		w.result("snap", t, before, "")
	case "json", "sajson":
		c, t := w.cfgs[atoi(tok[1])], w.ts[atoi(tok[2])]
		form, doc := tok[3], []byte(unhx(tok[4]))
		var ms []matcherSpec
		var jm []match.JSONMatcher
		for _, m := range tok[5:] {
			sp := parseMatcher(m)
			ms = append(ms, sp)
			jm = append(jm, w.matcher(m))
		}
		jc := w.cfgJSON[atoi(tok[1])]
		exp := expectJSON(jc, form, doc, ms)
		var input any
		var whole []byte
		switch form {
		case "s":
			input = string(doc)
		case "b":
			var in []byte
			whole, in = w.callerBytes(doc)
			input = in
		default:
			input = goValue(form, doc)
		}
		before := w.stamp()
		switch via := w.viaPackage(atoi(tok[1])); {
		case tok[0] == "json" && via:
			w.withDefaultDir(c, t, func() { MatchJSON(t, input, jm...) })
		case tok[0] == "json":
			c.MatchJSON(t, input, jm...)
		case via:
			w.withDefaultDir(c, t, func() { MatchStandaloneJSON(t, input, jm...) })
		default:
			c.MatchStandaloneJSON(t, input, jm...)
		}
		if bs, ok := input.([]byte); ok && !callerBytesIntact(whole, bs, doc) {
			// the bytes passed by the caller must never be modified
			t.events = append(t.events, "X:"+hx("caller's []byte was modified by the call"))
		}
		if rm, ok := input.(json.RawMessage); ok && !bytes.Equal(rm, doc) {
			// nor the pre-encoded bytes a Go value carries
			t.events = append(t.events, "X:"+hx("caller's json.RawMessage was modified by the call"))
		}
		res := w.resultLine(tok[0], t, before, "")
		if w.pending != nil {
			// the document was rejected before the matchers ran: the armed call is made afterwards
			w.runNested()
		}
		fmt.Fprintln(w.ann, exp)
		fmt.Fprintf(w.ann, "%s %s %s\n", tok[0], tok[1], tok[2])
		w.flushHeld()
		w.out.WriteString(res)
	case "yaml":
		c, t := w.cfgs[atoi(tok[1])], w.ts[atoi(tok[2])]
		form, doc := tok[3], []byte(unhx(tok[4]))
		var ms []matcherSpec
		var ym []match.YAMLMatcher
		for _, m := range tok[5:] {
			sp := parseMatcher(m)
			ms = append(ms, sp)
			ym = append(ym, w.matcher(m))
		}
		exp := expectYAML(form, doc, ms)
		var input any
		var whole []byte
		switch form {
		case "s":
			input = string(doc)
		case "b":
			var in []byte
			whole, in = w.callerBytes(doc)
			input = in
		default:
			input = goValue(form, doc)
		}
		before := w.stamp()
		if w.viaPackage(atoi(tok[1])) {
			w.withDefaultDir(c, t, func() { MatchYAML(t, input, ym...) })
		} else {
			c.MatchYAML(t, input, ym...)
		}
		if bs, ok := input.([]byte); ok && !callerBytesIntact(whole, bs, doc) {
			t.events = append(t.events, "X:"+hx("caller's []byte was modified by the call"))
		}
		res := w.resultLine("yaml", t, before, "")
		if w.pending != nil {
			w.runNested()
		}
		fmt.Fprintln(w.ann, exp)
		fmt.Fprintf(w.ann, "yaml %s %s\n", tok[1], tok[2])
		w.flushHeld()
		w.out.WriteString(res)
	case "sasnap":
		c, t := w.cfgs[atoi(tok[1])], w.ts[atoi(tok[2])]
		before := w.stamp()
		if w.viaPackage(atoi(tok[1])) {
			w.withDefaultDir(c, t, func() { MatchStandaloneSnapshot(t, unhx(tok[3])) })
		} else {
			c.MatchStandaloneSnapshot(t, unhx(tok[3]))
		}
		fmt.Fprintf(w.ann, "sasnap %s %s %s\n", tok[1], tok[2], hx(krpretty.Sprint(unhx(tok[3]))))
		w.result("sasnap", t, before, "")
	case "end":
		t := w.ts[atoi(tok[1])]
		for i := len(t.cleanups) - 1; i >= 0; i-- {
			t.cleanups[i]()
		}
		t.cleanups = nil
		fmt.Fprintln(w.ann, line)
		fmt.Fprintln(w.out, "end ok")
	case "skip":
		t := w.ts[atoi(tok[1])]
		before := w.stamp()
		switch tok[2] {
		case "skipnow":
			SkipNow(t)
		case "skipf":
			Skipf(t, "")
		default:
			Skip(t)
		}
		fmt.Fprintln(w.ann, line)
		w.result("skip", t, before, "")
	case "clean":
		run := unhx(tok[2])
		w.cleanOracles(run)
		// Clean reads -test.run / -test.count; restore them afterwards (the testing package
		// re-reads both for its own loop)
		oldRun, oldCount := flag.Lookup("test.run").Value.String(), flag.Lookup("test.count").Value.String()
		flag.Set("test.run", run)
		flag.Set("test.count", tok[3])
		defer func() { flag.Set("test.run", oldRun); flag.Set("test.count", oldCount) }()
		// -test.cpu spelled in the ways the testing package reads as ONE pass over the tests (empty list
		// elements are skipped by its parser): the harness ran every execution once per -count
		if f := flag.Lookup("test.cpu"); f != nil {
			oldCPU := f.Value.String()
			flag.Set("test.cpu", []string{"", "1,", ",1", "1,,"}[(len(run)+atoi(tok[3]))%4])
			defer flag.Set("test.cpu", oldCPU)
		}
		before := w.stamp()
		out := captureStdout(func() {
			switch tok[1] {
			case "-":
				Clean(nil)
			case "1":
				Clean(nil, CleanOpts{Sort: true})
			default:
				Clean(nil, CleanOpts{Sort: false})
			}
		})
		fmt.Fprintln(w.ann, line)
		w.result("clean", nil, before, out)
	case "mdoc":
		// mdoc <json|yaml> <dochex> <matcher>...: apply the matchers one after the other through the
		// public API of package match, directly on the caller's slice; report each output document,
		// its errors, an ordered flattening of input and output, and whether the caller's bytes changed
		kind, doc := tok[1], []byte(unhx(tok[2]))
		cur := append([]byte(nil), doc...)
		var parts []string
		for _, mt := range tok[3:] {
			warmDoc = append([]byte(nil), cur...)
			m := w.matcher(mt)
			whole, callers := w.callerBytes(cur)
			keep := append([]byte(nil), callers...)
			var o []byte
			var errs []match.MatcherError
			if kind == "json" {
				o, errs = m.JSON(callers)
			} else {
				o, errs = m.YAML(callers)
			}
			mutated := "0"
			if !callerBytesIntact(whole, callers, keep) {
				mutated = "1"
			}
			var es []string
			for _, e := range errs {
				es = append(es, hx(e.Matcher)+"~"+hx(e.Path)+"~"+hx(e.Reason.Error()))
			}
			parts = append(parts, fmt.Sprintf("out:%s|errs:%s|mut:%s|fb:%s|fa:%s", hx(string(o)), strings.Join(es, "+"), mutated,
				flattenDoc(kind, keep), flattenDoc(kind, o)))
			if len(errs) == 0 {
				cur = append([]byte(nil), o...)
			}
		}
		fmt.Fprintln(w.ann, "skipline")
		fmt.Fprintf(w.out, "mdoc %s\n", strings.Join(parts, " "))
	case "fmtval":
		// fmtval <hex>: how kr/pretty formats this string (the "formatted value" of the properties)
		fmt.Fprintln(w.ann, "skipline")
		fmt.Fprintf(w.out, "fmtval %s\n", hx(krpretty.Sprint(unhx(tok[1]))))
	case "path":
		// path <cfg> <standalone> <tname>: white-box snapshotPath (no file system access)
		c := w.cfgs[atoi(tok[1])]
		pth, rel := snapshotPath(c, unhx(tok[3]), tok[2] == "1")
		fmt.Fprintln(w.ann, line)
		fmt.Fprintf(w.out, "path %s %s\n", hx(pth), hx(rel))
	case "trimpath":
		// trimpath <0|1>: the library's -trimpath mode (callers' directories unknown, relative snapshot directories are
		// relative to the working directory); the working directory becomes the world's directory
		if !setTrimpath(tok[1] == "1") {
			// the tree under test has no such switch any more: nothing else of this world is executed (relative
			// directories would be resolved next to the harness, inside the source tree)
			w.dead = true
			fmt.Fprintln(w.ann, line)
			fmt.Fprintln(w.out, "trimpath unsupported")
			return
		}
		os.Chdir(w.root)
		fmt.Fprintln(w.ann, line)
		fmt.Fprintln(w.out, "trimpath ok")
	case "chdir":
		// chdir <hex rel>: the test changes the working directory (os.Chdir / t.Chdir) to a directory of the world
		os.MkdirAll(w.abs(unhx(tok[1])), 0o755)
		os.Chdir(w.abs(unhx(tok[1])))
		fmt.Fprintln(w.ann, line)
		fmt.Fprintln(w.out, "chdir ok")
	case "cfgfields":
		// cfgfields <n>: white-box, the fields of a Config as they are now
		c := w.cfgs[atoi(tok[1])]
		upd := "nil"
		if c.update != nil {
			upd = fmt.Sprint(*c.update)
		}
		js := "nil"
		if c.json != nil {
			js = fmt.Sprintf("%d:%s:%v", c.json.Width, hx(c.json.Indent), c.json.SortKeys)
		}
		fmt.Fprintln(w.ann, line)
		fmt.Fprintf(w.out, "cfgfields fn=%s dir=%s ext=%s upd=%s json=%s\n", hx(c.filename), hx(c.snapsDir), hx(c.extension), upd, js)
	case "cfgrel":
		// cfgrel <n> <dir|-> <file|-> <ext|->: a Config whose Dir is taken literally (may be relative)
		var opts []func(*Config)
		if tok[2] == "=" {
			// Dir(""): snapshots next to the test file
			opts = append(opts, Dir(""))
		} else if tok[2] != "-" {
			opts = append(opts, Dir(unhx(tok[2])))
		}
		if tok[3] != "-" {
			opts = append(opts, Filename(unhx(tok[3])))
		}
		if tok[4] != "-" {
			opts = append(opts, Ext(unhx(tok[4])))
		}
		w.cfgs[atoi(tok[1])] = WithConfig(opts...)
		fmt.Fprintln(w.ann, line)
		fmt.Fprintln(w.out, "cfgrel ok")
	case "natless":
		// natless <hex a> <hex b>: maruel/natural.Less, the comparator of Clean's sort, called directly and both ways
		// round, for the comparison with the Lean model (lean/GoSnaps/Natural.lean) that Lemmas/NaturalOrder.lean
		// proves a strict total order on canonical ids
		a, b := unhx(tok[1]), unhx(tok[2])
		bit := func(v bool) string {
			if v {
				return "1"
			}
			return "0"
		}
		fmt.Fprintln(w.ann, line)
		fmt.Fprintf(w.out, "natless less=%s rev=%s\n", bit(natural.Less(a, b)), bit(natural.Less(b, a)))
	case "jsonfmt":
		// jsonfmt <hex doc> <sortKeys 0|1> <hex indent> <width>: the two library functions C14 rests
		// on, called directly (the real gjson.Valid / gjson.ValidBytes and pretty.PrettyOptions), for
		// the comparison with the Lean model (lean/GoSnaps/Json.lean).  For an invalid document only
		// the verdict is compared (go-snaps never formats one).  The model also reports whether its
		// structural parser accepts the document: that must be the validator's verdict.
		doc := []byte(unhx(tok[1]))
		width, _ := strconv.Atoi(tok[4])
		valid := gjson.ValidBytes(doc)
		verdict := "0"
		if valid {
			verdict = "1"
		}
		if gjson.Valid(string(doc)) != valid {
			verdict = "Valid/ValidBytes-disagree"
		}
		out := ""
		if valid {
			opts := &pretty.Options{Width: width, Indent: unhx(tok[3]), SortKeys: tok[2] == "1"}
			out = string(pretty.PrettyOptions(append([]byte(nil), doc...), opts))
		}
		fmt.Fprintln(w.ann, line)
		fmt.Fprintf(w.out, "jsonfmt valid=%s parse=%s out=%s\n", verdict, verdict, hx(out))
	case "jsonpath":
		// jsonpath <o0|o1>[a] <hex doc> (<hex path> <value>)+ : the two library calls go-snaps' JSON matchers are
		// made of (match/any.go, type.go, custom.go), called directly with sjson.Options{Optimistic: o1,
		// ReplaceInPlace: false} (the suite passes go-snaps' own setting, read from the source, with the suffix
		// `a`, and sometimes the other one), one or more steps left to right, for the comparison with the Lean
		// model (lean/GoSnaps/JsonPath.lean).  <value> is `-` (look-up
		// only), `s:<hex>` (a Go string) or `r:<hex>` (a JSON literal decoded into a Go value).  As in the
		// matchers, the set is made only when the path exists; its result is the next step's document.  The
		// JSON text sjson writes for the value (`enc`) is obtained from the library itself (set of element 0 of
		// `[0]`) and appended to the line handed to the model.  `any=1`: match.Any(path).Placeholder(value) and
		// match.Custom(path, func → value) applied to the same document give the same bytes (and for a missing
		// path: one "path does not exist" error and the unchanged document) — checked when the suffix `a` is there.
		doc := []byte(unhx(tok[2]))
		opts := &sjson.Options{Optimistic: strings.HasPrefix(tok[1], "o1"), ReplaceInPlace: false}
		viaMatchers := strings.HasSuffix(tok[1], "a")
		ann := "jsonpath " + tok[1] + " " + tok[2]
		res := "jsonpath"
		for i := 3; i+1 < len(tok); i += 2 {
			pth, vs := unhx(tok[i]), tok[i+1]
			var value any
			has := vs != "-"
			if strings.HasPrefix(vs, "s:") {
				value = unhx(vs[2:])
			} else if strings.HasPrefix(vs, "r:") {
				value = decodeLit(unhx(vs[2:]))
			}
			enc := ""
			if has {
				e, err := sjson.SetBytesOptions([]byte("[0]"), "0", value, opts)
				if err != nil || len(e) < 2 {
					panic("jsonpath: cannot encode value")
				}
				enc = string(e[1 : len(e)-1])
			}
			ann += " " + tok[i] + " " + vs + " " + hx(enc)
			r := gjson.GetBytes(doc, pth)
			if !r.Exists() {
				anyOK := "1"
				if has && viaMatchers {
					ao, errs := match.Any(pth).Placeholder(value).JSON(append([]byte(nil), doc...))
					co, cerrs := match.Custom(pth, func(any) (any, error) { return value, nil }).JSON(append([]byte(nil), doc...))
					if len(errs) != 1 || errs[0].Reason.Error() != "path does not exist" || !bytes.Equal(ao, doc) ||
						len(cerrs) != 1 || cerrs[0].Reason.Error() != "path does not exist" || co != nil {
						anyOK = "0"
					}
				}
				res += fmt.Sprintf(" exists=0 idx=- get=- enc=%s set=- valid=- get2=- any=%s", hx(enc), anyOK)
				continue
			}
			idx := "-"
			if len(r.Indexes) > 0 {
				parts := make([]string, len(r.Indexes))
				for k, x := range r.Indexes {
					parts[k] = strconv.Itoa(x)
				}
				idx = strings.Join(parts, ",")
			} else if r.Index > 0 {
				idx = strconv.Itoa(r.Index)
			}
			if !has {
				res += fmt.Sprintf(" exists=1 idx=%s get=%s enc=- set=- valid=- get2=- any=1", idx, hx(r.Raw))
				continue
			}
			keep := append([]byte(nil), doc...)
			out, err := sjson.SetBytesOptions(doc, pth, value, opts)
			if err != nil {
				res += fmt.Sprintf(" exists=1 idx=%s get=%s enc=%s set=!%s valid=- get2=- any=-", idx, hx(r.Raw), hx(enc), hx(err.Error()))
				continue
			}
			anyOK := "1"
			if !bytes.Equal(keep, doc) {
				anyOK = "0:input-modified"
			}
			if viaMatchers {
				ao, errs := match.Any(pth).Placeholder(value).JSON(append([]byte(nil), keep...))
				co, cerrs := match.Custom(pth, func(any) (any, error) { return value, nil }).JSON(append([]byte(nil), keep...))
				if len(errs) != 0 || !bytes.Equal(ao, out) || len(cerrs) != 0 || !bytes.Equal(co, out) {
					anyOK = "0:" + hx(string(ao))
				}
			}
			valid := "0"
			if gjson.ValidBytes(out) {
				valid = "1"
			}
			g2 := "!missing"
			if r2 := gjson.GetBytes(out, pth); r2.Exists() {
				g2 = hx(r2.Raw)
			}
			res += fmt.Sprintf(" exists=1 idx=%s get=%s enc=%s set=%s valid=%s get2=%s any=%s", idx, hx(r.Raw), hx(enc), hx(string(out)), valid, g2, anyOK)
			doc = append([]byte(nil), out...)
		}
		fmt.Fprintln(w.ann, ann)
		fmt.Fprintln(w.out, res)
	case "pdiff":
		// white-box: the report builder on its own
		rep := prettyDiff(unhx(tok[1]), unhx(tok[2]), unhx(tok[3]), atoi(tok[4]))
		fmt.Fprintln(w.ann, line)
		fmt.Fprintf(w.out, "pdiff ev= w= d= out=%s\n", hx(rep))
	case "fsput":
		p := w.abs(unhx(tok[1]))
		os.MkdirAll(filepath.Dir(p), 0o755)
		if err := os.WriteFile(p, []byte(unhx(tok[2])), 0o644); err != nil {
			panic(err)
		}
		fmt.Fprintf(w.ann, "fsput %s %s\n", hx(p), tok[2])
		fmt.Fprintln(w.out, "fsput ok")
	case "fsedit":
		// fsedit <lead|tail|gaps|all>: the multi-entry snapshot files are edited from outside between two runs,
		// the way editors, formatters and merges do: the blank line at the top removed, the final newline
		// removed, the blank lines between entries removed.  The entries themselves are untouched.
		var paths []string
		filepath.Walk(w.root, func(p string, info os.FileInfo, err error) error {
			if err == nil && !info.IsDir() && strings.HasSuffix(p, ".snap") {
				paths = append(paths, p)
			}
			return nil
		})
		sort.Strings(paths)
		for _, p := range paths {
			b, err := os.ReadFile(p)
			if err != nil || !bytes.HasPrefix(b, []byte("\n[")) || !bytes.HasSuffix(b, []byte("\n---\n")) {
				continue // not a multi-entry file written by the library
			}
			c := string(b)
			if tok[1] == "gaps" || tok[1] == "all" {
				c = strings.ReplaceAll(c, "\n---\n\n[", "\n---\n[")
			}
			if tok[1] == "lead" || tok[1] == "all" {
				c = strings.TrimPrefix(c, "\n")
			}
			if tok[1] == "tail" || tok[1] == "all" {
				c = strings.TrimSuffix(c, "\n")
			}
			if c == string(b) {
				continue
			}
			if err := os.WriteFile(p, []byte(c), 0o644); err != nil {
				panic(err)
			}
			fmt.Fprintf(w.ann, "ora fs %s %s\n", hx(p), hx(c))
		}
		fmt.Fprintln(w.ann, "skipline")
		fmt.Fprintln(w.out, "skipline")
	case "fssymlink":
		// fssymlink <target> <link>: <link> becomes a symbolic link to the directory <target> (both relative to
		// the world's root); implementation-only worlds (the model's file system has no links)
		target, link := w.abs(unhx(tok[1])), w.abs(unhx(tok[2]))
		os.MkdirAll(target, 0o755)
		os.MkdirAll(filepath.Dir(link), 0o755)
		if err := os.Symlink(target, link); err != nil {
			panic(err)
		}
		fmt.Fprintln(w.ann, "skipline")
		fmt.Fprintln(w.out, "skipline")
	case "fscrlf":
		// fscrlf <all|odd|even> <path>: what a checkout with core.autocrlf (or an editor) does to a
		// snapshot file: line feeds become CR LF - all of them, or every second one starting with the
		// first (odd) / the second (even): mixed endings.  No-op when the file does not exist.  The
		// model computes the same conversion from ITS file contents (lean/GoSnaps/DriverX.lean).
		p := w.abs(unhx(tok[2]))
		if b, err := os.ReadFile(p); err == nil {
			o := make([]byte, 0, len(b)+len(b)/8)
			turn := tok[1] == "odd"
			for _, c := range b {
				if c == '\n' {
					if tok[1] == "all" || turn {
						o = append(o, '\r')
					}
					turn = !turn
				}
				o = append(o, c)
			}
			if err := os.WriteFile(p, o, 0o644); err != nil {
				panic(err)
			}
		}
		fmt.Fprintf(w.ann, "fscrlf %s %s\n", tok[1], hx(p))
		fmt.Fprintln(w.out, "fscrlf ok")
	case "goflag":
		// goflag <name> <value>: the test binary was started with -<name>=<value>, a flag that the USER'S tests
		// declare (the golden-file convention `-update`); nothing in the mode table reads it
		if err := flag.Set(tok[1], tok[2]); err != nil {
			panic(err)
		}
		fmt.Fprintln(w.ann, line)
		fmt.Fprintln(w.out, "goflag ok")
	case "fsdirs":
		// fsdirs: the directories below the world's root (fsdump lists files only); implementation-only suites
		var dirs []string
		filepath.Walk(w.root, func(p string, info os.FileInfo, err error) error {
			if err == nil && info.IsDir() && p != w.root {
				dirs = append(dirs, hx(strings.TrimPrefix(p, w.root)))
			}
			return nil
		})
		sort.Strings(dirs)
		fmt.Fprintln(w.ann, line)
		fmt.Fprintln(w.out, "dirs "+strings.Join(dirs, ";"))
	case "fsrm":
		p := w.abs(unhx(tok[1]))
		os.Remove(p)
		fmt.Fprintf(w.ann, "fsrm %s\n", hx(p))
		fmt.Fprintln(w.out, "fsrm ok")
	case "fsdump":
		var items []string
		var paths []string
		filepath.Walk(w.root, func(p string, info os.FileInfo, err error) error {
			if err == nil && !info.IsDir() && info.Mode()&os.ModeSymlink == 0 {
				paths = append(paths, p)
			}
			return nil
		})
		sort.Strings(paths)
		for _, p := range paths {
			b, _ := os.ReadFile(p)
			items = append(items, hx(p)+"="+hx(string(b)))
		}
		fmt.Fprintln(w.ann, line)
		fmt.Fprintln(w.out, "fs "+strings.Join(items, ";"))
	case "events":
		testEvents.Lock()
		e := testEvents.items
		fmt.Fprintf(w.out, "events e=%d a=%d u=%d p=%d s=%d\n", e[erred], e[added], e[updated], e[passed], len(skippedTests.values))
		testEvents.Unlock()
		fmt.Fprintln(w.ann, line)
	case "reset":
		testsRegistry = newRegistry()
		standaloneTestsRegistry = newStandaloneRegistry()
		testEvents = newTestEvents()
		skippedTests = newSyncSlice()
		w.ts = map[int]*mockT{}
		fmt.Fprintln(w.ann, line)
		fmt.Fprintln(w.out, "reset ok")
	default:
		fmt.Fprintln(w.ann, line)
		fmt.Fprintln(w.out, "bad-op "+line)
	}
}

// TestVerifHarness is the entry point: VERIF_OPS (input), VERIF_OUT (result lines),
// VERIF_ANN (the same operations with absolute paths and oracle lines, for the Lean driver).
func TestVerifHarness(t *testing.T) {
	opsPath := os.Getenv("VERIF_OPS")
	if opsPath == "" {
		t.Skip("VERIF_OPS not set")
	}
	in, err := os.Open(opsPath)
	if err != nil {
		t.Fatal(err)
	}
	defer in.Close()
	outF, _ := os.Create(os.Getenv("VERIF_OUT"))
	annF, _ := os.Create(os.Getenv("VERIF_ANN"))
	defer outF.Close()
	defer annF.Close()
	_, callerFile, _, _ := runtime.Caller(0)
	sc := bufio.NewScanner(in)
	sc.Buffer(make([]byte, 1<<20), 1<<30)
	var w *world
	homeDir, _ := os.Getwd()
	newWorld := func() {
		// (a `trimpath 1` / `chdir` of the previous world ends with it)
		setTrimpath(false)
		os.Chdir(homeDir)
		if w != nil {
			if w.pending != nil {
				w.runNested()
				w.flushHeld()
			}
			for k, v := range w.envRestore {
				if v == nil {
					os.Unsetenv(k)
				} else {
					os.Setenv(k, *v)
				}
			}
			w.out.Flush()
			w.ann.Flush()
			os.RemoveAll(w.root)
		}
		root, err := os.MkdirTemp("", "verifw")
		if err != nil {
			t.Fatal(err)
		}
		root, _ = filepath.EvalSymlinks(root)
		w = &world{root: root, cfgs: map[int]*Config{}, cfgJSON: map[int]*JSONConfig{}, cfgPlain: map[int]bool{}, optCache: map[string]func(*Config){}, matcherCache: map[string]bothMatcher{}, ts: map[int]*mockT{},
			realEnv: os.Getenv("VERIF_REALENV") == "1", out: bufio.NewWriter(outF), ann: &annW{Writer: bufio.NewWriter(annF)}}
		testsRegistry = newRegistry()
		standaloneTestsRegistry = newStandaloneRegistry()
		testEvents = newTestEvents()
		skippedTests = newSyncSlice()
		if f := flag.Lookup("update"); f != nil {
			f.Value.Set("false")
		}
		fmt.Fprintf(w.ann, "caller %s\n", hx(callerFile))
	}
	for sc.Scan() {
		line := sc.Text()
		if strings.HasPrefix(line, "world") {
			// start of an independent world: fresh directory, fresh process-level state
			newWorld()
			fmt.Fprintln(w.out, line)
			fmt.Fprintln(w.ann, line)
			continue
		}
		if w == nil {
			newWorld()
		}
		func() {
			defer func() {
				if r := recover(); r != nil {
					w.flushHeld()
					fmt.Fprintf(w.out, "panic:%s\n", hx(fmt.Sprint(r)))
					// the model must still see the operation (one answer per operation on both sides): hand the
					// line on unless the handler had already done so before the library panicked
					if !strings.HasPrefix(w.ann.last, line) {
						fmt.Fprintln(w.ann, line)
					}
				}
			}()
			w.exec(line)
		}()
	}
	if w != nil {
		if w.pending != nil {
			w.runNested()
			w.flushHeld()
		}
		w.out.Flush()
		w.ann.Flush()
		os.RemoveAll(w.root)
	}
}


// a flag of the kind test suites declare for their golden files; go-snaps itself declares none
func init() {
	if flag.Lookup("update") == nil {
		flag.Bool("update", false, "harness: stands for a golden-file flag declared by the user's tests")
	}
}

// the document a reused matcher value (flag `r`) is applied to once before it is configured again
var warmDoc []byte

// annW is the stream of lines handed to the model; it remembers the last line written
type annW struct {
	*bufio.Writer
	last string
}

func (a *annW) Write(p []byte) (int, error) {
	a.last = string(p)
	return a.Writer.Write(p)
}

// yieldMatcher: a user-defined matcher that takes its time (it yields the processor) and changes nothing
type yieldMatcher struct{}

func (yieldMatcher) JSON(b []byte) ([]byte, []match.MatcherError) {
	runtime.Gosched()
	return b, nil
}

// TestVerifRace: concurrent use of Match*, Skip* and one shared Config, for `go test -race`.
func TestVerifRace(t *testing.T) {
	if os.Getenv("VERIF_RACE") == "" {
		t.Skip("VERIF_RACE not set")
	}
	root, err := os.MkdirTemp("", "verifrace")
	if err != nil {
		t.Fatal(err)
	}
	defer os.RemoveAll(root)
	isCI, updateVAR = false, "true"
	shared := WithConfig(Dir(root))
	done := make(chan struct{})
	start := make(chan struct{})
	n := 24
	for g := 0; g < n; g++ {
		g := g
		go func() {
			defer func() { done <- struct{}{} }()
			mt := &mockT{name: fmt.Sprintf("TestRace%d", g)}
			<-start // all goroutines begin together, with different first operations
			for i := 0; i < 6; i++ {
				switch (g*5 + i) % 6 {
				case 0:
					shared.MatchSnapshot(mt, fmt.Sprintf("value %d %d", g, i))
				case 1:
					if g%2 == 0 {
						// (the yielding matcher lets other goroutines run on this P while the call is between
						// validation and formatting)
						shared.MatchJSON(mt, map[string]any{"g": g, "i": i, "pad": strings.Repeat("x", 200)}, yieldMatcher{}, match.Custom("g", func(v any) (any, error) { return v, nil }))
					} else {
						shared.MatchJSON(mt, fmt.Sprintf(`{"g":%d,"i":%d}`, g, i))
					}
				case 2:
					shared.MatchYAML(mt, fmt.Sprintf("g: %d\ni: %d\n", g, i))
				case 3:
					shared.MatchStandaloneSnapshot(mt, fmt.Sprintf("standalone %d %d", g, i))
				case 4:
					if g%2 == 1 {
						// Go values through the standalone entry point too (every encoder shares whatever
						// scratch state the library keeps)
						shared.MatchStandaloneJSON(mt, map[string]any{"s": i, "g": g, "list": []int{g, i}}, &userMatcher{flags: "e"}, yieldMatcher{})
					} else {
						shared.MatchStandaloneJSON(mt, fmt.Sprintf(`{"s":%d}`, i))
					}
				case 5:
					Skip(&mockT{name: fmt.Sprintf("TestRaceSkipped%d", g)})
				}
			}
			for j := len(mt.cleanups) - 1; j >= 0; j-- {
				mt.cleanups[j]()
			}
		}()
	}
	close(start)
	for g := 0; g < n; g++ {
		<-done
	}
}
