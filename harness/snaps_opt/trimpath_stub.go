//go:build verif

package snaps

// stub used when the tree under test no longer has the package variable the real hook sets
func setTrimpath(on bool) bool { return false }
