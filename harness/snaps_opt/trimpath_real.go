//go:build verif

package snaps

// optional hook (see vcheck/core.py build_harness): the library's -trimpath switch
func setTrimpath(on bool) bool {
	isTrimBathBuild = on
	return true
}
