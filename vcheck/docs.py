"""Structured JSON/YAML documents with known paths, for the matcher properties (C15-C17)."""
import json
from core import hx

KEYS = ['a', 'b', 'name', 'id', 'created', 'k.dot', 'sp ace', 'st*r', 'q?m', 'h#sh', 'p|pe', 'ü', 'nested', 'list', 'z']


def gjson_key(k):
    out = ''
    for ch in k:
        if ch in '.*?#|\\':
            out += '\\' + ch
        else:
            out += ch
    return out


class Doc:
    """a JSON value with an index of all paths: (gjson path, flattened path, value)"""
    def __init__(self, g, depth=3):
        self.g = g
        self.value = self.gen(depth, top=True)
        self.paths = []
        self.index(self.value, [], [])

    def gen(self, depth, top=False):
        r = self.g.r
        k = r.random()
        if not top and (depth <= 0 or k < 0.4):
            return r.choice([1, 2, 42, True, False, None, 's', 'some text', '', 'needs "esc"', 'é', 3.5, 'a longer string value here'])
        if top or k < 0.8:
            keys = r.sample(KEYS, r.randint(2 if top else 0, 5))
            return {kk: self.gen(depth - 1) for kk in keys}
        return [self.gen(depth - 1) for _ in range(r.randint(0, 3))]

    def index(self, v, gp, fp):
        if gp:
            self.paths.append(('.'.join(gp), '/' + '/'.join(fp), v))
        if isinstance(v, dict):
            for k, x in v.items():
                self.index(x, gp + [gjson_key(k)], fp + [k.replace('/', '~1')])
        elif isinstance(v, list):
            for i, x in enumerate(v):
                self.index(x, gp + [str(i)], fp + [str(i)])

    def text(self):
        return self.g.json_text(self.value)


def flatten(v, path=''):
    """the same flattening as the Go harness (flattenDoc, JSON)"""
    out = []
    if isinstance(v, dict):
        out.append((path, '{'))
        for k, x in v.items():
            out += flatten(x, path + '/' + k.replace('/', '~1'))
        out.append((path, '}'))
    elif isinstance(v, list):
        out.append((path, '['))
        for i, x in enumerate(v):
            out += flatten(x, path + '/' + str(i))
        out.append((path, ']'))
    elif isinstance(v, bool):
        out.append((path, 'b:true' if v else 'b:false'))
    elif v is None:
        out.append((path, 'null'))
    elif isinstance(v, str):
        out.append((path, 's:' + v))
    else:
        out.append((path, 'n:' + json.dumps(v)))
    return out


def parse_flat(s):
    out = []
    for it in [x for x in s.split(',') if x]:
        p, _, l = it.partition(':')
        out.append((bytes.fromhex(p).decode('utf-8', 'replace') if p != '-' else '',
                    bytes.fromhex(l).decode('utf-8', 'replace') if l != '-' else ''))
    return out


def replace_subtree(flat, fpath, newflat):
    """flat with every item at or below fpath replaced (once, in place) by newflat"""
    out, done = [], False
    for p, l in flat:
        if p == fpath or p.startswith(fpath + '/'):
            if not done:
                out += newflat
                done = True
        else:
            out.append((p, l))
    return out if done else None


PLACEHOLDERS = ['"<Any value>"', '"x"', '"a much longer placeholder than the value it replaces"', '"needs \\"esc\\""', '"é"', 'true', 'null',
                '7', '{"r":1}', '[1,"a"]', '""']


def any_matcher(paths, ph=None, eom=True):
    return 'A;%d;%s;%s' % (1 if eom else 0, hx(ph) if ph is not None else '-', ','.join(hx(p) for p in paths))


def type_matcher(paths, tname, eom=True):
    return 'T;%d;%s;%s' % (1 if eom else 0, tname, ','.join(hx(p) for p in paths))


def custom_matcher(path, ok=True, payload='"custom"', eom=True):
    return 'C;%d;%s;%s;%s' % (1 if eom else 0, hx(path), 'ok' if ok else 'err', hx(payload))


def go_type(v):
    if isinstance(v, bool):
        return 'bool'
    if isinstance(v, (int, float)):
        return 'float64'
    if isinstance(v, str):
        return 'string'
    if isinstance(v, dict):
        return 'map'
    if isinstance(v, list):
        return 'slice'
    return None


def type_placeholder(v):
    return {'bool': '<Type:bool>', 'float64': '<Type:float64>', 'string': '<Type:string>',
            'map': '<Type:map[string]interface {}>', 'slice': '<Type:[]interface {}>'}[go_type(v)]
