"""Structured JSON/YAML documents with known paths, for the matcher properties (C15-C17)."""
import json
from core import hx

KEYS = ['a', 'b', 'name', 'id', 'created', 'k.dot', 'sp ace', 'st*r', 'q?m', 'h#sh', 'p|pe', 'ü', 'nested', 'list', 'z', 'list[0]', 'nested[name]']


def gjson_key(k):
    out = ''
    for ch in k:
        if ch in '.*?#|\\':
            out += '\\' + ch
        else:
            out += ch
    return out


class Doc:
    """a JSON value with an index of all paths: (gjson path, flattened path, value)"""
    def __init__(self, g, depth=3):
        self.g = g
        self.value = self.gen(depth, top=True)
        self.paths = []
        self.index(self.value, [], [])

    def gen(self, depth, top=False):
        r = self.g.r
        k = r.random()
        if not top and (depth <= 0 or k < 0.4):
            return r.choice([1, 2, 42, True, False, None, 's', 'some text', '', 'needs "esc"', 'é', 3.5, 'a longer string value here'])
        if top or k < 0.8:
            keys = r.sample(KEYS, r.randint(2 if top else 0, 5))
            return {kk: self.gen(depth - 1) for kk in keys}
        if r.random() < 0.4:
            # records: an array of objects that share members (`friends.#.first` addresses all of them at once)
            return [dict([('first', r.choice(['Dale', 'Roger', 'Jane', '', 'é'])), ('age', r.choice([44, 68, 47]))] +
                         ([('nets', self.gen(depth - 2))] if r.random() < 0.4 else [])) for _ in range(r.randint(1, 3))]
        return [self.gen(depth - 1) for _ in range(r.randint(0, 3))]

    def index(self, v, gp, fp):
        if gp:
            self.paths.append(('.'.join(gp), '/' + '/'.join(fp), v))
        if isinstance(v, dict):
            for k, x in v.items():
                self.index(x, gp + [gjson_key(k)], fp + [k.replace('/', '~1')])
        elif isinstance(v, list):
            for i, x in enumerate(v):
                self.index(x, gp + [str(i)], fp + [str(i)])

    def text(self):
        return self.g.json_text(self.value)


def flatten(v, path=''):
    """the same flattening as the Go harness (flattenDoc, JSON)"""
    out = []
    if isinstance(v, dict):
        out.append((path, '{'))
        for k, x in v.items():
            out += flatten(x, path + '/' + k.replace('/', '~1'))
        out.append((path, '}'))
    elif isinstance(v, list):
        out.append((path, '['))
        for i, x in enumerate(v):
            out += flatten(x, path + '/' + str(i))
        out.append((path, ']'))
    elif isinstance(v, bool):
        out.append((path, 'b:true' if v else 'b:false'))
    elif v is None:
        out.append((path, 'null'))
    elif isinstance(v, str):
        out.append((path, 's:' + v))
    else:
        out.append((path, 'n:' + json.dumps(v)))
    return out


def parse_flat(s):
    out = []
    for it in [x for x in s.split(',') if x]:
        p, _, l = it.partition(':')
        out.append((bytes.fromhex(p).decode('utf-8', 'replace') if p != '-' else '',
                    bytes.fromhex(l).decode('utf-8', 'replace') if l != '-' else ''))
    return out


def replace_subtree(flat, fpath, newflat):
    """flat with every item at or below fpath replaced (once, in place) by newflat"""
    out, done = [], False
    for p, l in flat:
        if p == fpath or p.startswith(fpath + '/'):
            if not done:
                out += newflat
                done = True
        else:
            out.append((p, l))
    return out if done else None


PLACEHOLDERS = ['"<Any value>"', '"x"', '"a much longer placeholder than the value it replaces"', '"needs \\"esc\\""', '"é"', 'true', 'null',
                '7', '{"r":1}', '[1,"a"]', '""',
                # strings with bytes that Go string literals and JSON strings escape differently (an ANSI colour
                # code, NUL, BEL, DEL, a non-printable rune beyond the BMP): the replacement is still that string
                '"\\u001b[31mred\\u001b[0m"', '"nul\\u0000byte"', '"bell\\u0007"', '"del\\u007f"', '"tag\\udb40\\udc01"']


# Configuration style of the built-in matchers.  A generator sets STYLE to its random.Random: a share of
# the matcher tokens then asks the harness to build the matcher FIRST and to call its option methods
# afterwards as statements, dropping what they return (`m := match.Any(…); m.ErrOnMissingPath(false)`),
# instead of one chained expression.  Both spellings configure the same matcher.
STYLE = None


def _flags(eom, stmt=None):
    if stmt is None:
        stmt = STYLE is not None and STYLE.random() < 0.3
    return ('1' if eom else '0') + ('s' if stmt else '')


def any_matcher(paths, ph=None, eom=True, stmt=None):
    return 'A;%s;%s;%s' % (_flags(eom, stmt), hx(ph) if ph is not None else '-', ','.join(hx(p) for p in paths))


def type_matcher(paths, tname, eom=True, stmt=None):
    return 'T;%s;%s;%s' % (_flags(eom, stmt), tname, ','.join(hx(p) for p in paths))


def custom_matcher(path, ok=True, payload='"custom"', eom=True, stmt=None, fires=False, as_bytes=False):
    """fires: the callback makes the Match* call armed by the preceding `nest` operation before it returns;
    as_bytes: a string replacement is returned as a []byte (direct worlds only: the model does not know the form)"""
    return 'C;%s;%s;%s;%s' % (_flags(eom, stmt), hx(path), ('okb' if as_bytes else 'okx' if fires else 'ok') if ok else 'err', hx(payload))


def composite_matcher(tokens, empty=True):
    """a USER-DEFINED matcher (public interfaces match.JSONMatcher / match.YAMLMatcher) that groups other
    matchers, applies them in order and collects their errors (the group fails as a whole); on success
    it reports "no errors" as an empty non-nil slice (empty=True) or as nil"""
    return 'W;%s;%s' % ('e' if empty else 'n', hx(' '.join(tokens)))


def user_matcher(empty=True, copy=False, fires=False):
    """a USER-DEFINED matcher that only inspects the document and hands it on unchanged; `fires`: it makes
    the Match* call armed by the preceding `nest` operation (a re-entrant call from inside a matcher)"""
    return 'U;%s%s%s' % ('e' if empty else 'n', 'c' if copy else '', 'x' if fires else '')


def maybe_wrap(r, tokens, p=0.3):
    """with probability p the list of matcher tokens is replaced by ONE composite wrapping them (same
    effect when all succeed; when one fails the whole group's output is dropped), and now and then an
    inspecting user matcher is put in front / behind"""
    tokens = list(tokens)
    if tokens and r.random() < p:
        tokens = [composite_matcher(tokens, r.random() < 0.7)]
    if r.random() < 0.15:
        tokens.insert(r.randint(0, len(tokens)), user_matcher(r.random() < 0.6, r.random() < 0.3))
    return tokens


# replacement STRINGS that are not plain string scalars when written bare into a YAML document: the
# value stored at the path must nevertheless be that string
YAML_TRICKY_STRINGS = ['0000', 'true', 'null', '1.50', '~', 'yes', 'no', 'off', '12', '-7', '0x1F', '1e3', '2001-01-01',
                       'a: b', '', ' ', ' lead', 'trail ', '# not a comment', '[a, b]', '{a: b}', "'single'", '"double"',
                       '*alias', '&anchor', '!tag', '| block', '> folded', '@at', '`tick', '%pct', 'a #b', 'k: v: w',
                       'Null', 'TRUE', 'False', '0o17', '+1', '1_000', 'é: ü']
# NOT generated by default: on the unchanged tree these replacement strings do not arrive as themselves
# (goccy/go-yaml's encoder writes them bare): '.inf' becomes the float +Inf, '- x' a sequence, '? q' a
# mapping, '...' leaves the old value in place, '---' panics inside ReplaceWithReader, and a string with a
# line break replaces the whole document when the path is nested.  Reported as a defect (REPORT_C.md);
# VERIF_YAML_DEFECT_STRINGS=1 generates them.
YAML_DEFECT_STRINGS = ['.inf', '- x', '? q', '---', '...', 'multi\nline']


def go_type(v):
    if isinstance(v, bool):
        return 'bool'
    if isinstance(v, (int, float)):
        return 'float64'
    if isinstance(v, str):
        return 'string'
    if isinstance(v, dict):
        return 'map'
    if isinstance(v, list):
        return 'slice'
    return None


def type_placeholder(v):
    return {'bool': '<Type:bool>', 'float64': '<Type:float64>', 'string': '<Type:string>',
            'map': '<Type:map[string]interface {}>', 'slice': '<Type:[]interface {}>'}[go_type(v)]
