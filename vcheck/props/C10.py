"""C10 - Clean family check (see cleanworlds.py for the world builder and the oracles)."""
import core, findings, cleanworlds as cw
from gen import Gen
from suites import run_suite

LEAN_MODULES = ['GoSnaps.Props.C10', 'GoSnaps.Lemmas.NaturalOrder', 'GoSnaps.Props.C10Order', 'GoSnaps.Props.Tie.TestID', 'GoSnaps.Props.Tie.CleanIO', 'GoSnaps.Props.Tie.CleanTopIO1', 'GoSnaps.Props.Tie.CleanTopIO2', 'GoSnaps.Props.Tie.CleanTopIO3', 'GoSnaps.Props.Tie.CleanTopIO', 'GoSnaps.Props.Tie.EndToEndClean', 'GoSnaps.Props.Tie.EndToEndClean2']
ORACLES = {'C07': [('matched-entries-kept', cw.o_matched_kept)],
           'C09': [('stale-reported-and-removed-only-in-clean-mode', cw.o_stale_reported)],
           'C10': [('rewrite-preserves-sorted-idempotent', cw.o_rewrite_preserves)]}['C10']


def known(w, p):
    if p['kind'] == 'expect' and 'unrec' in w.flags:
        return 'D11'
    return None


def run(ctx):
    g = Gen(ctx.seed * 1000003 + int('C10'[1:]))
    n = 150 if ctx.tier == 'quick' else 4000
    worlds = []
    for i in range(n):
        allow = ('many',) if g.r.random() < 0.15 else (('big',) if g.r.random() < 0.08 else ())
        if ctx.tier != 'quick' and 'big' in allow and g.r.random() < 0.2:
            allow += ('huge',)
        if g.r.random() < 0.15:
            allow += ('ends',)
        spec = cw.make_spec(g, allow)
        worlds.append(cw.render('c10-%d' % i, spec, ORACLES))
    for k, (mode, srt) in enumerate([((False, ''), '-'), ((False, 'clean'), '0'), ((False, ''), '1')]):
        worlds.append(cw.render('c10-big-%d' % k, cw.big_clean_spec(g, mode, srt), ORACLES))
    for k, (mode, srt) in enumerate([((False, ''), '1'), ((False, 'clean'), '0')]):
        worlds.append(cw.render('c10-bigml-%d' % k, cw.big_clean_spec(g, mode, srt, lines=12), ORACLES))
    worlds += [cw.render('c10-tie-%d' % k, sp, ORACLES) for k, sp in enumerate(cw.tie_specs())]
    worlds += [cw.render('c10-eol-%d' % k, sp, ORACLES) for k, sp in enumerate(cw.eol_specs())]
    worlds += [cw.render('c10-perm-%d' % k, sp, ORACLES) for k, sp in enumerate(cw.perm_specs())]
    worlds += cw.junk_worlds('c10')
    worlds += cw.extra_worlds('c10', g, ctx.tier, ORACLES)
    run_suite(ctx, 'clean.C10', worlds, known=known, chunk=200)
    findings.report(ctx, 'C10')
