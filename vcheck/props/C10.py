"""C10 - Clean family check (see cleanworlds.py for the world builder and the oracles)."""
import re, random
import core, findings, cleanworlds as cw
from core import World, hx
from gen import Gen
from suites import run_suite

LEAN_MODULES = ['GoSnaps.Props.C10', 'GoSnaps.Lemmas.NaturalOrder', 'GoSnaps.Props.C10Order', 'GoSnaps.Props.Tie.TestID', 'GoSnaps.Props.Tie.CleanIO', 'GoSnaps.Props.Tie.CleanTopIO1', 'GoSnaps.Props.Tie.CleanTopIO2', 'GoSnaps.Props.Tie.CleanTopIO3', 'GoSnaps.Props.Tie.CleanTopIO', 'GoSnaps.Props.Tie.EndToEndClean', 'GoSnaps.Props.Tie.EndToEndClean2', 'GoSnaps.Props.Tie.EndToEndOrder', 'GoSnaps.Props.Tie.Wrappers']
ORACLES = {'C07': [('matched-entries-kept', cw.o_matched_kept)],
           'C09': [('stale-reported-and-removed-only-in-clean-mode', cw.o_stale_reported)],
           'C10': [('rewrite-preserves-sorted-idempotent', cw.o_rewrite_preserves)]}['C10']


def known(w, p):
    if p['kind'] == 'expect' and 'unrec' in w.flags:
        return 'D11'
    return None



# ---------------------------------------------------------------- natural.model
# The Lean model of maruel/natural.Less (lean/GoSnaps/Natural.lean) against the library itself, one pair per
# `natless` line (both directions).  Lemmas/NaturalOrder.lean proves the MODEL a strict total order on ids whose
# digit runs are canonical numerals; this comparison is what makes that a statement about what Clean sorts
# with, and the oracles replay the theorem's claims (irreflexive, total, asymmetric, transitive on canonical
# ids) on the library.
NAT_WORDS = [b'Test', b'TestA', b'a', b'b', b'x', b'/', b' - ', b'#', b'_', b'case', b'-', b' ', b'\xc3\xa9', b'A', b'Z', b'~', b'!', b':', b'[', b']']
NAT_CANON = [b'0', b'1', b'2', b'9', b'10', b'12', b'19', b'20', b'100', b'101', b'999', b'4294967296', b'9223372036854775807', b'9223372036854775808',
             b'18446744073709551615', b'9999999999999999999', b'1000000000000000000']
NAT_ODD = [b'00', b'01', b'001', b'007', b'010', b'0000000000000000001', b'18446744073709551616', b'18446744073709551617', b'20000000000000000000',
           b'99999999999999999999', b'00000000000000000001', b'184467440737095516150', b'018446744073709551615']


def nat_canon(s):
    return all(len(run) <= 19 and (len(run) == 1 or not run.startswith(b'0')) for run in re.findall(rb'[0-9]+', s))


def nat_id(r, odd):
    parts = []
    for _ in range(r.randint(1, 5)):
        k = r.random()
        if k < 0.5:
            parts.append(r.choice(NAT_WORDS))
        elif k < 0.9 or not odd:
            parts.append(r.choice(NAT_CANON))
        else:
            parts.append(r.choice(NAT_ODD))
    s = b''.join(parts)
    if r.random() < 0.3:
        s += b' - ' + str(r.choice([1, 2, 9, 10, 11, 99, 100])).encode()
    return s


def nat_variant(r, s):
    """an id close to s: another number in one of its runs, a longer / shorter run, a suffix, a changed byte"""
    runs = list(re.finditer(rb'[0-9]+', s))
    k = r.random()
    if runs and k < 0.5:
        m = r.choice(runs)
        return s[:m.start()] + r.choice(NAT_CANON + [str(int(m.group()) + 1).encode()]) + s[m.end():]
    if k < 0.7:
        return s + r.choice(NAT_WORDS + NAT_CANON)
    if k < 0.85 and s:
        return s[:-1]
    i = r.randrange(len(s) + 1)
    return s[:i] + r.choice(NAT_WORDS + NAT_CANON) + s[i:]


def _nl(line):
    m = re.match(r'natless less=([01]) rev=([01])', line)
    return (m.group(1) == '1', m.group(2) == '1') if m else None


def natural_world(r, i, odd):
    w = World('nat-%d' % i)
    ids = [nat_id(r, odd) for _ in range(3)]
    ids += [nat_variant(r, r.choice(ids)) for _ in range(3)]
    pairs = [(a, b) for a in ids for b in ids]
    idx = {}
    for a, b in pairs:
        if (a, b) not in idx:
            idx[(a, b)] = w.add('natless %s %s' % (hx(a) if a else '-', hx(b) if b else '-'))
    w.meta = dict(canon=sum(1 for x in ids if nat_canon(x)), n=len(ids))

    def oracle(line, raw, ww):
        res = {}
        for (a, b), j in idx.items():
            v = _nl(ww.impl[j])
            if v is None:
                return 'no answer for %r %r: %r' % (a, b, ww.impl[j][:80])
            res[(a, b)] = v
        for (a, b), (lt, rv) in res.items():
            if res[(b, a)] != (rv, lt):
                return 'natural.Less(%r, %r) answered differently in the two lines' % (a, b)
            if a == b and (lt or rv):
                return 'natural.Less(%r, %r) is true' % (a, a)
        can = [x for x in set(ids) if nat_canon(x)]
        for a in can:
            for b in can:
                lt, rv = res[(a, b)]
                if a != b and lt == rv:
                    return 'canonical ids %r, %r: natural.Less is %s both ways (NatOrd.natLt_total / natLt_asymm)' % (a, b, lt)
                for c in can:
                    if res[(a, b)][0] and res[(b, c)][0] and not res[(a, c)][0]:
                        return 'canonical ids: %r < %r < %r but not %r < %r (NatOrd.natLt_trans)' % (a, b, c, a, c)
        return None
    w.expect[max(idx.values())] = ('natural-less-strict-total-order-on-canonical-ids', oracle)
    return w


def run_natural_model(ctx):
    r = random.Random(ctx.seed * 1000003 + 1010)
    n = 120 if ctx.tier == 'quick' else 4000
    worlds = [natural_world(r, i, odd=(i % 3 == 0)) for i in range(n)]
    # the witnesses of the two sharpness remarks (leading zero: not total; twenty digits: not transitive) stay as they are
    w = World('nat-sharp')
    for a, b in [(b'Test01 - 1', b'Test1 - 1'), (b'x20000000000000000000', b'x3'), (b'x3', b'x10'), (b'x10', b'x20000000000000000000')]:
        w.add('natless %s %s' % (hx(a), hx(b)))
    worlds.append(w)
    run_suite(ctx, 'natural.model', worlds, known=None, chunk=400)
    st = ctx.stats.setdefault('natural_model', {})
    st['ids_canonical'] = sum(x.meta.get('canon', 0) for x in worlds if getattr(x, 'meta', None))
    st['ids'] = sum(x.meta.get('n', 0) for x in worlds if getattr(x, 'meta', None))


def run(ctx):
    run_natural_model(ctx)
    g = Gen(ctx.seed * 1000003 + int('C10'[1:]))
    n = 150 if ctx.tier == 'quick' else 4000
    worlds = []
    for i in range(n):
        allow = ('many',) if g.r.random() < 0.15 else (('big',) if g.r.random() < 0.08 else ())
        if ctx.tier != 'quick' and 'big' in allow and g.r.random() < 0.2:
            allow += ('huge',)
        if g.r.random() < 0.15:
            allow += ('ends',)
        spec = cw.make_spec(g, allow)
        worlds.append(cw.render('c10-%d' % i, spec, ORACLES))
    for k, (mode, srt) in enumerate([((False, ''), '-'), ((False, 'clean'), '0'), ((False, ''), '1')]):
        worlds.append(cw.render('c10-big-%d' % k, cw.big_clean_spec(g, mode, srt), ORACLES))
    for k, (mode, srt) in enumerate([((False, ''), '1'), ((False, 'clean'), '0')]):
        worlds.append(cw.render('c10-bigml-%d' % k, cw.big_clean_spec(g, mode, srt, lines=12), ORACLES))
    worlds += [cw.render('c10-tie-%d' % k, sp, ORACLES) for k, sp in enumerate(cw.tie_specs())]
    worlds += [cw.render('c10-eol-%d' % k, sp, ORACLES) for k, sp in enumerate(cw.eol_specs())]
    worlds += [cw.render('c10-perm-%d' % k, sp, ORACLES) for k, sp in enumerate(cw.perm_specs())]
    worlds += [cw.render('c10-lex-%d' % k, sp, ORACLES) for k, sp in enumerate(cw.lex_specs())]
    worlds += cw.junk_worlds('c10')
    worlds += cw.extra_worlds('c10', g, ctx.tier, ORACLES)
    run_suite(ctx, 'clean.C10', worlds, known=known, chunk=200)
    findings.report(ctx, 'C10')
