"""C19 - a standalone snapshot file is the formatted value and nothing else."""
import json
import core, suites, findings
from core import World, parse_fs, Line
from gen import Gen, mode_line, cfg_line, Call
from suites import run_suite, exp_silent, exp_same_fs, mutate_text

LEAN_MODULES = ['GoSnaps.Props.C19', 'GoSnaps.Props.Tie.Path', 'GoSnaps.Props.Tie.SnapshotIO', 'GoSnaps.Props.Tie.Registry', 'GoSnaps.Props.Tie.Flows', 'GoSnaps.Props.Tie.Wrappers', 'GoSnaps.Props.Tie.Pipeline', 'GoSnaps.Props.C11Standalone']


def sa_suffix(cfgline, name, k, json_default):
    t = cfgline.split()
    d = core.unhx(t[2])
    fn = core.unhx(t[3]) if t[3] != '-' else name.replace(b'/', b'_')
    ext = core.unhx(t[4]) if t[4] != '-' else (b'.json' if json_default else b'')
    return b'/' + d + b'/' + fn + b'_' + str(k).encode() + b'.snap' + ext


def make_spec(g, allow):
    r = g.r
    names = g.names(r.randint(1, 3), allow)
    cfgs = [cfg_line(1, 'snaps'), cfg_line(2, 'x/y', None, '.txt')]
    execs = []
    fn_owner = None
    for n in names:
        calls = []
        for _ in range(r.choice([1, 2, 3, 12])):
            cfgno = r.choice([1, 1, 2])
            if r.random() < 0.7:
                v = g.body((), ('cr', 'long', 'crlf') if r.random() < 0.3 else ())
                if r.random() < 0.15:
                    # tabs, vertical tabs, form feeds: the pretty printer aligns columns; the file holds
                    # the FORMATTED value (asked from the harness: `fmtval`)
                    v = r.choice([b'name\tqty\napple\t3', b'a\tb\tc\n1\t22\t333\n', b'x\vy', b'page1\fpage2', b'\tindented', b'trailing\t']) + (b'\n' + v if r.random() < 0.5 else b'')
                calls.append((cfgno, Call('sasnap', v)))
            elif r.random() < 0.85:
                val = g.json_value()
                # (vraw: a json.RawMessage - a Go value that carries encoded JSON, e.g. a captured response body)
                calls.append((cfgno, Call('sajson', g.json_text(val).encode(), r.choice(['s', 'b', 'b', 'vraw']))))
            else:
                # a failing call still consumes its file index: the next call maps to the next file
                bad = g.bad_json().encode()
                calls.append((cfgno, Call('sajson', bad, r.choice(['s', 'b', 'vraw']) if bad else 's')))
        execs.append((n, calls))
    return dict(cfgs=cfgs, execs=execs, flags={'pct'} if any(b'%' in n for n in names) else set(),
                reps=r.choice([1, 2, 3, 3, 4]),   # executions of every test in one process (-count=N): each addresses files 1..n again
                 upd=r.choice([(False, 'true'), (False, '')]), decoys=r.random() < 0.5 and sum(len(c) for _, c in execs) <= 6)


def ordinal_key(spec, cfgno, c):
    # ordinals count calls per location pattern <name>_%d.snap<ext> (the JSON variant
    # defaults <ext> to .json, so it has its own sequence unless Ext is set)
    return (cfgno, c.kind == 'sajson' and spec['cfgs'][cfgno - 1].split()[4] == '-')


def decoy_files(spec):
    """files that are NOT the location of any call of the world but sit right next to one: same name
    with another / an additional / no extension, a backup suffix, other letter case.  They belong to
    nobody: no call may read, match, update or remove them."""
    expected, near = set(), set()
    for name, calls in spec['execs']:
        kk = {}
        for cfgno, c in calls:
            key = ordinal_key(spec, cfgno, c)
            kk[key] = kk.get(key, 0) + 1
            expected.add(sa_suffix(spec['cfgs'][cfgno - 1], name, kk[key], c.kind == 'sajson'))
            if kk[key] <= 2:
                near.add(sa_suffix(spec['cfgs'][cfgno - 1], name, kk[key], c.kind == 'sajson'))
    out = set()
    for suf in near:
        stem = suf[:suf.rindex(b'.snap')]
        for d in (suf + b'.json', suf + b'.txt', suf + b'.bak', suf + b'~', suf + b'.tmp', suf + b'.new', suf + b'.part', suf + b'.lock', suf + b'.orig', suf + b'.swp', stem, stem + b'.snap', stem + b'.snap.json', stem + b'.snap.yaml',
                  stem + b'.snapx', stem + b'.SNAP', stem + b'.json', stem[:-1] + b'0' + stem[-1:] + suf[len(stem):]):
            out.add(d)
    return sorted(d for d in out - expected if b'%' not in d)


def render(tag, spec):
    w = World(tag)
    w.spec, w.render = spec, render
    w.flags |= spec['flags']
    w.add(mode_line(False, ''))
    for c in spec['cfgs']:
        w.add(c)
    decoys = decoy_files(spec) if spec.get('decoys') else []
    for d in decoys:
        w.add('fsput %s %s' % (core.hx(d[1:]), core.hx(b'decoy ' + d)))

    def decoys_intact(fs):
        for d in decoys:
            got = [c for p, c in fs.items() if p.endswith(d)]
            if got != [b'decoy ' + d]:
                return 'the neighbouring file %r (not the location of any call) was %s' % (d, 'removed' if not got else 'changed to %r' % got[0][:40])
        return None
    texec = 0
    checks = []
    for rep in range(spec['reps']):
        for name, calls in spec['execs']:
            texec += 1
            w.add('begin %d %s' % (texec, core.hx(name)))
            kk = {}
            for cfgno, c in calls:
                # ordinals count calls per location pattern <name>_%d.snap<ext> (the JSON variant
                # defaults <ext> to .json, so it has its own sequence unless Ext is set)
                key = ordinal_key(spec, cfgno, c)
                kk[key] = kk.get(key, 0) + 1
                fv = w.add('fmtval ' + core.hx(c.payload)) if c.kind == 'sasnap' and any(ch in c.payload for ch in b'\t\v\f') else None
                i = w.add(c.op(cfgno, texec))
                d = w.add('fsdump')
                checks.append((i, d, name, cfgno, kk[key], c, rep, fv))
            w.add('end %d' % texec)

    def oracle(line, raw, ww):
        for i, d, name, cfgno, k, c, rep, fv in checks:
            res = Line(ww.impl[i])
            fs = parse_fs(ww.impl[d])
            suf = sa_suffix(spec['cfgs'][cfgno - 1], name, k, c.kind == 'sajson')
            hit = [p for p in fs if p.endswith(suf)]
            kinds = [k2 for k2, _ in res.events]
            if c.kind == 'sajson' and c.payload.decode('utf-8', 'replace') in ('', '{', '{"a":1,}', '{"a":1}{"b":2}', 'nul', '[1,2', '{"a":"\x01"}', '{a:1}', "{'a':1}"):
                if kinds != ['E'] or hit:
                    return 'op %d: invalid JSON must fail and leave its file index unused, got %r files %r' % (i, kinds, hit)
                continue
            if rep == 0:
                if kinds != ['L']:
                    return 'op %d: first execution should add, got %r' % (i, res.events[:1])
            elif kinds != []:
                return 'op %d: a later execution of the same test must address the same file and pass, got %r' % (i, [(k2, v[:40]) for k2, v in res.events])
            if len(hit) != 1:
                return 'op %d: expected the value alone in a file ending with %r; files: %r' % (i, suf, sorted(fs)[:6])
            if c.kind == 'sasnap':
                want = c.payload if fv is None else core.unhx(ww.impl[fv].split(' ')[1])
                if fs[hit[0]] != want:
                    return 'op %d: file bytes differ from the formatted value (%d vs %d bytes)' % (i, len(fs[hit[0]]), len(c.payload))
            else:
                try:
                    if json.loads(fs[hit[0]].decode()) != json.loads(c.payload.decode()):
                        return 'op %d: stored JSON parses to a different value' % i
                except Exception as e:
                    return 'op %d: stored standalone JSON is not valid JSON: %s' % (i, e)
                if fs[hit[0]].endswith(b'\n'):
                    return 'op %d: standalone JSON ends with an added newline' % i
        return decoys_intact(parse_fs(raw))
    ref = w.add('fsdump', ('standalone-file-is-the-value', oracle))
    # update mode replaces the file wholesale; read-only replay passes
    w.add('reset')
    w.add(mode_line(False, 'true'))
    if not spec['execs']:
        return w
    name, calls = spec['execs'][0]
    texec += 1
    w.add('begin %d %s' % (texec, core.hx(name)))
    kk = {}
    ups = []
    for cfgno, c in calls:
        key = (cfgno, c.kind == 'sajson' and spec['cfgs'][cfgno - 1].split()[4] == '-')
        kk[key] = kk.get(key, 0) + 1
        if c.kind == 'sasnap':
            nv = c.payload[: len(c.payload) // 2] + b'!' if len(c.payload) > 3 else c.payload + b' longer than before\r\n'
            nv = bytes(ch for ch in nv if ch not in b'\t\v\f')      # the new value is compared byte for byte
            ls = c.payload.split(b'\n')
            if any(l in (b'---', b'/-/-/-/') for l in ls) and not any(ch in c.payload for ch in b'\t\v\f'):
                # standalone files are never escaped: a `---` line and a `/-/-/-/` line are different values
                nv = b'\n'.join(b'/-/-/-/' if l == b'---' else (b'---' if l == b'/-/-/-/' else l) for l in ls)
            elif b'\n' in c.payload and not any(ch in c.payload for ch in b'\t\v\f') and len(ups) % 2 == 0:
                # the new value differs from the recorded one ONLY in its line endings (CR LF <-> LF):
                # every byte counts, the file must be replaced
                nv = c.payload.replace(b'\r\n', b'\n') if b'\r\n' in c.payload else c.payload.replace(b'\n', b'\r\n')
            i = w.add(Call('sasnap', nv).op(cfgno, texec))
            d = w.add('fsdump')
            ups.append((i, d, cfgno, kk[key], nv))
        else:
            w.add(c.op(cfgno, texec))
    w.add('end %d' % texec)

    def oracle2(line, raw, ww):
        for i, d, cfgno, k, nv in ups:
            fs = parse_fs(ww.impl[d])
            suf = sa_suffix(spec['cfgs'][cfgno - 1], name, k, False)
            hit = [p for p in fs if p.endswith(suf)]
            if len(hit) != 1 or fs[hit[0]] != nv:
                return 'op %d: after an update the file must hold exactly the new value' % i
            if [k2 for k2, _ in Line(ww.impl[i]).events] != ['L']:
                return 'op %d: expected one `updated` log' % i
        return decoys_intact(parse_fs(raw))
    after_upd = w.add('fsdump', ('update-replaces-wholesale', oracle2))
    # a read-only run: the new values replay; a value that differs from the file ONLY in its line
    # endings (CR LF <-> LF) is a different value: one failure, nothing written
    w.add('reset')
    w.add(mode_line(True, ''))
    for variant in (False, True):
        texec += 1
        w.add('begin %d %s' % (texec, core.hx(name)))
        it = iter(ups)
        for cfgno, c in calls:
            if c.kind != 'sasnap':
                w.add(c.op(cfgno, texec))
                continue
            i, d, _, _, nv = next(it)

            def exp_replay(line, raw, ww, i=i):
                if [k2 for k2, _ in Line(ww.impl[i]).events] != ['L']:
                    return None
                return exp_silent(line, raw, ww)
            if variant and b'\n' in nv:
                v3 = nv.replace(b'\r\n', b'\n') if b'\r\n' in nv else nv.replace(b'\n', b'\r\n')

                def exp_rep(line, raw, ww, i=i):
                    if [k2 for k2, _ in Line(ww.impl[i]).events] != ['L']:
                        return None
                    return suites.exp_one_error_no_write(line, raw, ww)
                w.add(Call('sasnap', v3).op(cfgno, texec), ('line-ending-change-reported', exp_rep))
            else:
                w.add(Call('sasnap', nv).op(cfgno, texec), ('updated-value-replays', exp_replay))
        w.add('end %d' % texec)
    w.add('fsdump', ('directory-unchanged-by-readonly-run', exp_same_fs(after_upd)))
    return w


def fixed_worlds():
    """values that differ only in their line endings, in both directions, for every phase"""
    worlds = []
    vals = [b'a\nb', b'a\r\nb', b'id,name\r\n1,x\r\n', b'id,name\n1,x\n', b'HTTP/1.1 200 OK\r\nContent-Type: text/plain\r\n\r\nhello', b'\n', b'\r\n', b'x\n\ny\r\n']
    for k, v in enumerate(vals):
        spec = dict(cfgs=[cfg_line(1, 'snaps'), cfg_line(2, 'x/y', None, '.txt')], execs=[(b'TestEOL', [(1 + k % 2, Call('sasnap', v)), (1, Call('sasnap', b'other'))])],
                    flags=set(), reps=1 + k % 2, upd=(False, 'true'))
        worlds.append(render('c19-eol-%d' % k, spec))
    return worlds


def known(w, p):
    if p['kind'] == 'expect' and 'pct' in w.flags:
        return 'D12'
    return None


def run(ctx):
    g = Gen(ctx.seed * 1000003 + 19)
    n = 100 if ctx.tier == 'quick' else 2500
    worlds = [render('c19-%d' % i, make_spec(g, (('pct',) if g.r.random() < 0.3 else ()) + (('punct',) if g.r.random() < 0.5 else ())))
              for i in range(n)]
    worlds += fixed_worlds()
    run_suite(ctx, 'match.standalone', worlds, known=known, chunk=100)
    findings.report(ctx, 'C19')
