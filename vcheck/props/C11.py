"""C11 - snapshot location is a pure function of test file, test name and options."""
import concurrent.futures, itertools, json, os, posixpath, shutil, subprocess, tempfile
import core, findings
from core import World, hx, Line, unhx
from gen import Gen, PUNCT_NAMES, PCT_NAMES, cfg_line
from suites import run_suite

LEAN_MODULES = ['GoSnaps.Props.C11', 'GoSnaps.Props.Tie.Path', 'GoSnaps.Props.Tie.Wrappers', 'GoSnaps.Props.Tie.Flows', 'GoSnaps.Props.Tie.Registry', 'GoSnaps.Props.Tie.Caller', 'GoSnaps.Props.C11Standalone']

DIRS = ['-', '', 'snaps', 'a/b/__snapshots__', '../shared', './x/../y', '/abs/dir', '/abs/./d/../e/', 'cov%d/100%']
FILES = ['-', 'custom', 'my_test', 'api.v1', 'with.two.dots', 'rate_100%s', 'api/users']
EXTS = ['-', '.txt', '.json', '.%v']
NAMES = ['TestA', 'TestA/sub_case', 'TestA/x/y', 'TestB#01', 'TestR/ratio/1.25', 'TestV1.2'] + PUNCT_NAMES + [n.decode() if isinstance(n, bytes) else n for n in PCT_NAMES] + [
    'TestTrail/', 'TestDbl//slash', 'TestDot/.', 'TestDot/..', 'TestDot/.hidden', 'Test_/_', 'TestLong/' + 'n' * 120,
    # names near the 255-byte limit of a file name that still fit with `_<k>.snap`: they are used as they are
    'TestVeryLong/' + 'm' * 226 + 'a', 'TestVeryLong/' + 'm' * 226 + 'b']


def formula(caller, d, fn, ext, name, standalone):
    """the property's formula"""
    cdir = posixpath.dirname(caller)
    dd = '__snapshots__' if d == '-' else d
    base = dd if dd.startswith('/') else posixpath.join(cdir, dd)
    if fn != '-':
        nm = fn
    elif standalone:
        nm = name.replace('/', '_')
    else:
        nm = posixpath.splitext(posixpath.basename(caller))[0]
    e = '' if ext == '-' else ext
    if standalone:
        # the standalone location is a FORMAT for the ordinal: its only verb is the `%d` after the name, every
        # other `%` (in the directory, the name, the extension) stands for itself (`%%`; repair of D12)
        q = lambda x: x.replace('%', '%%')
        return posixpath.normpath(posixpath.join(q(base), q(nm) + '_%d.snap' + q(e)))
    return posixpath.normpath(posixpath.join(base, nm + '.snap' + e))


def path_worlds():
    worlds = []
    n = 0
    for d, fn, ext in itertools.product(DIRS, FILES, EXTS):
        n += 1
        w = World('path-%d' % n)
        if n % 2 == 0:
            # the test changed its working directory before the calls (os.Chdir / t.Chdir into a scratch directory)
            w.add('chdir %s' % hx('scratch/cwd'))
        w.add('cfgrel 1 %s %s %s' % ('=' if d == '' else hx(d) if d != '-' else '-', hx(fn) if fn != '-' else '-', hx(ext) if ext != '-' else '-'))
        for name in NAMES:
            for sa in (0, 1):
                def exp(line, raw, ww, d=d, fn=fn, ext=ext, name=name, sa=sa):
                    t = raw.split()
                    got = unhx(t[1]).decode()
                    caller = core.REPO + '/snaps/zz_verif_harness_test.go'
                    want = formula(caller, d, fn, ext, name, bool(sa))
                    if got != want:
                        return 'location %r, the formula of the property gives %r' % (got, want)
                    return None
                w.add('path 1 %d %s' % (sa, hx(name)), ('location-formula', exp))
        worlds.append(w)
    return worlds


def order_worlds():
    """the location does not depend on what the Config was used for before: `path` queries before and after
    calls of every entry point through the SAME Config (the standalone JSON variant defaults the extension to
    .json for its own call only)"""
    from gen import cfg_line
    worlds = []
    calls = [('sajson', 's %s' % hx('{"a":1}')), ('json', 's %s' % hx('{"a":1}')), ('yaml', 's %s' % hx('a: 1\n')), ('snap', hx('v')), ('sasnap', hx('v'))]
    n = 0
    for fn, ext in ((None, None), ('named', None), (None, '.txt')):
        for first in calls:
            n += 1
            w = World('order-%d' % n)
            w.add('mode 0 -')
            w.add(cfg_line(1, 'snaps', fn, ext))
            q = [w.add('path 1 %d %s' % (sa, hx('TestOrder'))) for sa in (0, 1)]
            w.add('begin 1 %s' % hx(b'TestOrder'))
            w.add('%s 1 1 %s' % first)
            for kind, arg in calls:
                w.add('%s 1 1 %s' % (kind, arg))
            w.add('end 1')
            for sa in (0, 1):
                def exp(line, raw, ww, before=q[sa]):
                    if raw != ww.impl[before]:
                        return 'the location changed after other calls through the same Config: %r, before %r' % (
                            unhx(raw.split()[1]).decode('utf-8', 'replace'), unhx(ww.impl[before].split()[1]).decode('utf-8', 'replace'))
                    return None
                w.add('path 1 %d %s' % (sa, hx('TestOrder')), ('location-independent-of-earlier-calls', exp))
            worlds.append(w)
    return worlds


# ---------------------------------------------------------------- program runs

GOMOD = '''module example.com/prog

go 1.22

require github.com/gkampitakis/go-snaps v0.0.0

replace github.com/gkampitakis/go-snaps => %s
''' % core.REPO


def gen_program(r, idx):
    """a small module; returns (files, expected locations relative to module root, description)"""
    pkgdir = r.choice(['', 'sub', 'sub/pkg/deep'])
    pkgname = 'prog' if not pkgdir else pkgdir.split('/')[-1]
    shapes = sorted(set(['direct', 'helper-nontest', 'closure', 'goroutine', 'subtest', 'deep-helpers', 'standalone', 'config', 'suite-nontest', 'deep-recursion', 'dotted-names', 'punct-names', 'shared-helper', 'shared-helper', 'dotted-files', 'helper-testfile']))
    # every shape at least once per run, then random ones
    shape = shapes[idx] if idx < len(shapes) else r.choice(shapes)
    # (test file names with further dots: `orders.v2_test.go`, `api.pb_test.go` - only `.go` is an extension)
    tf = r.choice(['x%d_test.go', 'x%d_test.go', 'x%d.v2_test.go', 'api.pb.x%d_test.go']) % idx
    files = {'go.mod': GOMOD}
    imports = ['"testing"', '"github.com/gkampitakis/go-snaps/snaps"']
    body = ''
    helper = ''
    exp = []
    base = posixpath.join(pkgdir, '__snapshots__')
    stem = tf[:-3]
    if shape == 'direct':
        body = 'func TestShape(t *testing.T) {\n\tsnaps.MatchSnapshot(t, "v")\n}\n'
        exp.append(posixpath.join(base, stem + '.snap'))
    elif shape == 'helper-nontest':
        helper = 'package %s\n\nimport (\n\t"testing"\n\t"github.com/gkampitakis/go-snaps/snaps"\n)\n\nfunc check(t *testing.T, v any) {\n\tt.Helper()\n\tinner(t, v)\n}\n\nfunc inner(t *testing.T, v any) {\n\tsnaps.MatchSnapshot(t, v)\n}\n' % pkgname
        files[posixpath.join(pkgdir, 'helper.go')] = helper
        body = 'func TestShape(t *testing.T) {\n\tcheck(t, "v")\n}\n'
        exp.append(posixpath.join(base, stem + '.snap'))
    elif shape == 'shared-helper':
        # ONE call site in a non-test file, reached from tests of TWO test files (and from a subtest):
        # each snapshot belongs to the test file it was reached from, whatever ran first
        files[posixpath.join(pkgdir, 'helper.go')] = 'package %s\n\nimport (\n\t"testing"\n\t"github.com/gkampitakis/go-snaps/snaps"\n)\n\nfunc check(t *testing.T, v any) {\n\tt.Helper()\n\tsnaps.MatchSnapshot(t, v)\n\tsnaps.MatchStandaloneSnapshot(t, v)\n}\n' % pkgname
        other = 'y%d_test.go' % idx
        files[posixpath.join(pkgdir, other)] = 'package %s\n\nimport "testing"\n\nfunc TestOther(t *testing.T) {\n\tcheck(t, "o")\n\tt.Run("sub", func(t *testing.T) { check(t, "os") })\n}\n' % pkgname
        body = 'func TestShape(t *testing.T) {\n\tcheck(t, "v")\n}\n\nfunc TestZLast(t *testing.T) {\n\tcheck(t, "z")\n}\n'
        exp += [posixpath.join(base, stem + '.snap'), posixpath.join(base, other[:-3] + '.snap'), posixpath.join(base, 'TestShape_1.snap'),
                posixpath.join(base, 'TestZLast_1.snap'), posixpath.join(base, 'TestOther_1.snap'), posixpath.join(base, 'TestOther_sub_1.snap')]
    elif shape == 'helper-testfile':
        # the usual `helpers_test.go` layout: the assertion helper lives in ANOTHER *_test.go file than the test
        # function; the snapshot belongs to the test file nearest to the call (the helper's), for every test using it
        other = 'helpers%d_test.go' % idx
        files[posixpath.join(pkgdir, other)] = 'package %s\n\nimport (\n\t"testing"\n\t"github.com/gkampitakis/go-snaps/snaps"\n)\n\nfunc assertSnap(t *testing.T, v any) {\n\tt.Helper()\n\tsnaps.MatchSnapshot(t, v)\n}\n' % pkgname
        body = 'func TestShape(t *testing.T) {\n\tassertSnap(t, "v")\n\tt.Run("sub", func(t *testing.T) { assertSnap(t, "w") })\n}\n'
        exp.append(posixpath.join(base, other[:-3] + '.snap'))
    elif shape == 'suite-nontest':
        # the subtest body is a function of a non-test file: below testing.tRunner there is no
        # *_test.go frame, the outermost user file names the snapshot
        files[posixpath.join(pkgdir, 'suite.go')] = 'package %s\n\nimport (\n\t"testing"\n\t"github.com/gkampitakis/go-snaps/snaps"\n)\n\nfunc SuiteBody(t *testing.T) {\n\tsnaps.MatchSnapshot(t, "v")\n}\n' % pkgname
        body = 'func TestShape(t *testing.T) {\n\tt.Run("sub", SuiteBody)\n}\n'
        exp.append(posixpath.join(base, 'suite.snap'))
    elif shape == 'deep-recursion':
        # 45 helper frames of a non-test file between the test and the call
        files[posixpath.join(pkgdir, 'walk.go')] = 'package %s\n\nimport (\n\t"testing"\n\t"github.com/gkampitakis/go-snaps/snaps"\n)\n\n//go:noinline\nfunc walk(t *testing.T, depth int) {\n\tif depth == 0 {\n\t\tsnaps.MatchSnapshot(t, "leaf")\n\t\treturn\n\t}\n\twalk(t, depth-1)\n}\n' % pkgname
        body = 'func TestShape(t *testing.T) {\n\twalk(t, 45)\n}\n'
        exp.append(posixpath.join(base, stem + '.snap'))
    elif shape == 'dotted-names':
        body = 'func TestShape(t *testing.T) {\n\tt.Run("ratio/1.25", func(t *testing.T) { snaps.MatchStandaloneSnapshot(t, "a") })\n\tt.Run("ratio/1.5", func(t *testing.T) { snaps.MatchStandaloneSnapshot(t, "b") })\n\tsnaps.WithConfig(snaps.Filename("api.v1")).MatchSnapshot(t, "v1")\n\tsnaps.WithConfig(snaps.Filename("api.v2")).MatchSnapshot(t, "v2")\n}\n'
        exp += [posixpath.join(base, 'TestShape_ratio_1.25_1.snap'), posixpath.join(base, 'TestShape_ratio_1.5_1.snap'),
                posixpath.join(base, 'api.v1.snap'), posixpath.join(base, 'api.v2.snap')]
    elif shape == 'punct-names':
        # table tests named after routes, paths, keys, sentences: the real runner turns spaces into `_`
        # and keeps every other printable character; the standalone file is named after the result with
        # only `/` replaced
        subs = ['GET /users?page=2', 'GET /users_page=2', 'key:value', 'a*b', 'say "hi"', '<nil>', 'x|y', 'C:\\dir\\f.txt', 'caf\u00e9 au lait', 'a+b=c&d', "it's", '{x}(y)[z]']
        r.shuffle(subs)
        subs = subs[:r.randint(4, len(subs))]
        runs = ''.join('\tt.Run(%s, func(t *testing.T) { snaps.MatchStandaloneSnapshot(t, %s); snaps.MatchSnapshot(t, %s) })\n' % (json.dumps(x), json.dumps('sa ' + x), json.dumps(x)) for x in subs)
        body = 'func TestShape(t *testing.T) {\n%s}\n' % runs
        exp.append(posixpath.join(base, stem + '.snap'))
        for x in subs:
            exp.append(posixpath.join(base, ('TestShape/' + x.replace(' ', '_')).replace('/', '_') + '_1.snap'))
    elif shape == 'dotted-files':
        # two test files of one package whose names differ only AFTER the first dot: each has its own snapshot file
        tf = 'orders%d.v1_test.go' % idx
        other = 'orders%d.v2_test.go' % idx
        stem = tf[:-3]
        files[posixpath.join(pkgdir, other)] = 'package %s\n\nimport (\n\t"testing"\n\t"github.com/gkampitakis/go-snaps/snaps"\n)\n\nfunc TestV2(t *testing.T) {\n\tsnaps.MatchSnapshot(t, "two")\n}\n' % pkgname
        body = 'func TestShape(t *testing.T) {\n\tsnaps.MatchSnapshot(t, "one")\n}\n'
        exp += [posixpath.join(base, stem + '.snap'), posixpath.join(base, other[:-3] + '.snap')]
    elif shape == 'closure':
        body = 'func TestShape(t *testing.T) {\n\tf := func() { func() { snaps.MatchSnapshot(t, "v") }() }\n\tf()\n}\n'
        exp.append(posixpath.join(base, stem + '.snap'))
    elif shape == 'goroutine':
        body = 'func TestShape(t *testing.T) {\n\tdone := make(chan struct{})\n\tgo func() {\n\t\tdefer close(done)\n\t\tsnaps.MatchSnapshot(t, "v")\n\t}()\n\t<-done\n}\n'
        exp.append(posixpath.join(base, stem + '.snap'))
    elif shape == 'subtest':
        body = 'func TestShape(t *testing.T) {\n\tt.Run("a", func(t *testing.T) {\n\t\tt.Run("b", func(t *testing.T) {\n\t\t\tsnaps.MatchSnapshot(t, "v")\n\t\t\tsnaps.MatchStandaloneSnapshot(t, "s")\n\t\t})\n\t})\n}\n'
        exp.append(posixpath.join(base, stem + '.snap'))
        exp.append(posixpath.join(base, 'TestShape_a_b_1.snap'))
    elif shape == 'deep-helpers':
        files[posixpath.join(pkgdir, 'h1.go')] = 'package %s\n\nimport "testing"\n\nfunc h1(t *testing.T, v any) { h2(t, v) }\n' % pkgname
        files[posixpath.join(pkgdir, 'h2.go')] = 'package %s\n\nimport (\n\t"testing"\n\t"github.com/gkampitakis/go-snaps/snaps"\n)\n\nfunc h2(t *testing.T, v any) { h3(t, v) }\nfunc h3(t *testing.T, v any) { snaps.MatchSnapshot(t, v); snaps.MatchStandaloneJSON(t, `{"a":1}`) }\n' % pkgname
        body = 'func TestShape(t *testing.T) {\n\th1(t, "v")\n}\n'
        exp.append(posixpath.join(base, stem + '.snap'))
        exp.append(posixpath.join(base, 'TestShape_1.snap.json'))
    elif shape == 'standalone':
        body = 'func TestShape(t *testing.T) {\n\tsnaps.MatchStandaloneSnapshot(t, "one")\n\tsnaps.MatchStandaloneSnapshot(t, "two")\n\tsnaps.MatchStandaloneJSON(t, `{"a":1}`)\n}\n'
        exp += [posixpath.join(base, 'TestShape_1.snap'), posixpath.join(base, 'TestShape_2.snap'), posixpath.join(base, 'TestShape_1.snap.json')]
    elif shape == 'config':
        d = r.choice(['snapdir', 'n/e/sted'] + (['../up'] if pkgdir else []))   # '../up' from the module root would leave the scratch module
        fn = r.choice([None, 'named'])
        ext = r.choice([None, '.txt'])
        opts = ['snaps.Dir("%s")' % d] + (['snaps.Filename("%s")' % fn] if fn else []) + (['snaps.Ext("%s")' % ext] if ext else [])
        body = 'func TestShape(t *testing.T) {\n\tc := snaps.WithConfig(%s)\n\tc.MatchSnapshot(t, "v")\n\tc.MatchStandaloneSnapshot(t, "s")\n}\n' % ', '.join(opts)
        b2 = posixpath.normpath(posixpath.join(pkgdir, d))
        exp.append(posixpath.join(b2, (fn or stem) + '.snap' + (ext or '')))
        exp.append(posixpath.join(b2, (fn or 'TestShape') + '_1.snap' + (ext or '')))
    if 'snaps.' not in body:
        imports = ['"testing"']
    files[posixpath.join(pkgdir, tf)] = 'package %s\n\nimport (\n\t%s\n)\n\n%s' % (pkgname, '\n\t'.join(imports), body)
    return dict(files=files, expected=sorted(exp), pkgdir=pkgdir, shape=shape, idx=idx)


def run_program(prog, trimpath, othercwd, root):
    d = tempfile.mkdtemp(prefix='prog%d_' % prog['idx'], dir=root)
    for rel, content in prog['files'].items():
        p = os.path.join(d, rel)
        os.makedirs(os.path.dirname(p), exist_ok=True)
        open(p, 'w').write(content)
    shutil.copy(core.REPO + '/go.sum', os.path.join(d, 'go.sum'))
    env = dict(os.environ)
    env.update(core.GOENV)
    for k in ('CI', 'UPDATE_SNAPS'):
        env.pop(k, None)
    env['NO_COLOR'] = '1'
    pkg = './' + prog['pkgdir'] if prog['pkgdir'] else '.'
    pkgabs = os.path.join(d, prog['pkgdir'])
    log = ''
    if othercwd and not trimpath:
        # build the test binary, run it from an unrelated working directory
        binp = os.path.join(d, 't.test')
        p = subprocess.run(['go', 'test', '-c', '-vet=off', '-o', binp, pkg], cwd=d, env=env, stdout=subprocess.PIPE, stderr=subprocess.STDOUT)
        log += p.stdout.decode('utf-8', 'replace')
        other = os.path.join(d, 'elsewhere')
        os.makedirs(other, exist_ok=True)
        if p.returncode == 0:
            p = subprocess.run([binp, '-test.count=1'], cwd=other, env=env, stdout=subprocess.PIPE, stderr=subprocess.STDOUT)
            log += p.stdout.decode('utf-8', 'replace')
    else:
        cmd = ['go', 'test', '-vet=off', '-count=1'] + (['-trimpath'] if trimpath else []) + [pkg]
        p = subprocess.run(cmd, cwd=d, env=env, stdout=subprocess.PIPE, stderr=subprocess.STDOUT)
        log += p.stdout.decode('utf-8', 'replace')
    found = []
    for dp, dn, fn in os.walk(d):
        for f in fn:
            if '.snap' in f:
                found.append(os.path.relpath(os.path.join(dp, f), d))
    shutil.rmtree(d, ignore_errors=True)
    return p.returncode, sorted(found), log[-1500:]


EVIDENCE = dict(rule='white-box: all Dir x Filename x Ext x API x name combinations through snapshotPath (exhaustive over the listed option values) compared with the formula of the property and with the Lean path model; programs: generated Go modules (call shapes direct/helper in non-test files/closure/goroutine/subtests/nested helpers/standalone/config, package depth 0-3, -trimpath on/off, binary executed from another working directory) run with the real go test; non-trivial = every case (each produces a location)')


def ordinal_worlds():
    """`the k-th standalone call of test N lives in <...>_<k>.snap<Ext>`: k counts the CALLS - a call that was
    rejected (invalid JSON, a failing matcher) or that failed against its snapshot is still the k-th; the same for
    the second execution of the test in the process"""
    import docs
    worlds = []
    bad = ['{"a":', 'nul']
    for n, (api, fn, ext) in enumerate(itertools.product(['sajson', 'sasnap', 'mixed'], [None, 'custom'], [None, '.txt'])):
        w = World('c11-ordinal-%d' % n)
        w.add('mode 0 -')
        w.add(cfg_line(1, 'snaps', fn, ext))
        stem = fn or 'TestOrd'
        # (four executions: a reset registered "only for the first call" by a memo that is never cleared shows in the third)
        for texec in (1, 2, 3, 4):
            w.add('begin %d %s' % (texec, hx(b'TestOrd')))
            kj = ks = 0
            for i in range(6):
                kind = api if api != 'mixed' else ('sajson' if i % 2 else 'sasnap')
                # standalone JSON and standalone text calls of one test count separately only when their locations differ
                # (the default `.json` extension of MatchStandaloneJSON): the counter belongs to the location pattern
                samepattern = ext is not None
                if kind == 'sajson':
                    kj += 1
                    k = (kj + ks) if (samepattern and api == 'mixed') else kj
                    e = ext if ext is not None else '.json'
                    if i in (1, 4):
                        op = 'sajson 1 %d s %s' % (texec, hx(bad[i % 2]))            # rejected: invalid document
                        want = None
                    elif i == 2:
                        op = 'sajson 1 %d s %s %s' % (texec, hx('{"a":1}'), docs.any_matcher(['missing.path']))   # rejected: matcher fails
                        want = None
                    else:
                        op = 'sajson 1 %d s %s' % (texec, hx('{"call":%d}' % i))
                        want = '%s_%d.snap%s' % (stem, k, e)
                else:
                    ks += 1
                    k = (kj + ks) if (samepattern and api == 'mixed') else ks
                    op = 'sasnap 1 %d %s' % (texec, hx(b'call %d' % i))
                    want = '%s_%d.snap%s' % (stem, k, ext or '')

                def exp(line, raw, ww, want=want, texec=texec):
                    names = [p_.rsplit(b'/', 1)[-1].decode() for p_ in line.writes]
                    if want is None:
                        return None if not names else 'a rejected call wrote %r' % names
                    if texec == 1 and names != [want]:
                        return 'this call is the one that lives in %r, it wrote %r' % (want, names)
                    if texec >= 2 and (names or [k_ for k_, _ in line.events]):
                        return 'a later execution replays %r: expected a silent pass, got events %r writes %r' % (want, [k_ for k_, _ in line.events], names)
                    return None
                w.add(op, ('kth-standalone-call-lives-in-file-k', exp))
            w.add('end %d' % texec)
        worlds.append(w)
    return worlds


def run(ctx):
    run_suite(ctx, 'path.formula', path_worlds(), known=None, chunk=100)
    run_suite(ctx, 'path.standalone-ordinal', ordinal_worlds(), known=None)
    run_suite(ctx, 'path.order-independent', order_worlds(), known=None)
    g = Gen(ctx.seed * 1000003 + 11)
    nprog = 16 if ctx.tier == 'quick' else 240
    progs = [gen_program(g.r, i) for i in range(nprog)]
    jobs = []
    for pr in progs:
        mode = g.r.choice([(False, False), (True, False), (False, True)])
        jobs.append((pr, mode))
    st = ctx.stats['suites'].setdefault('programs', dict(programs=0, failed=0, shapes={}))
    root = ctx.tmp
    with concurrent.futures.ThreadPoolExecutor(max_workers=12) as ex:
        futs = {ex.submit(run_program, pr, tp, oc, root): (pr, tp, oc) for pr, (tp, oc) in jobs}
        for f in concurrent.futures.as_completed(futs):
            pr, tp, oc = futs[f]
            rc, found, log = f.result()
            st['programs'] += 1
            st['shapes'][pr['shape']] = st['shapes'].get(pr['shape'], 0) + 1
            ctx.stats['evaluations'] += 1
            ctx.stats['nontrivial'].add('prog:%s:%s:%s:%s:%d' % (pr['shape'], pr['pkgdir'], tp, oc, pr['idx']))
            if len(ctx.stats['samples']) < 6:
                ctx.stats['samples'].append(dict(shape=pr['shape'], pkgdir=pr['pkgdir'], trimpath=tp, other_cwd=oc, found=found))
            if rc != 0 or found != pr['expected']:
                st['failed'] += 1
                if len(ctx.violations) < 5:
                    detail = 'shape=%s pkgdir=%r trimpath=%s other_cwd=%s\nexpected snapshot files %r\nfound %r\nexit %s\n%s' % (
                        pr['shape'], pr['pkgdir'], tp, oc, pr['expected'], found, rc, log)
                    path = core.write_replay(ctx, 'program run: snapshot location differs from the formula', [], detail, None,
                                             dict(kind='program', files=pr['files'], trimpath=tp, other_cwd=oc))
                    ctx.violations.append(('program', path, True))
    findings.report(ctx, 'C11')
