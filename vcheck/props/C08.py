"""C08 - Clean keeps snapshots of tests that were skipped or filtered out."""
import re
import core, findings
from core import World, hx, Line, parse_fs
from gen import Gen, mode_line, cfg_line
from suites import run_suite, parse_snap, exp_silent

LEAN_MODULES = ['GoSnaps.Props.C08', 'GoSnaps.Props.Tie.Skip', 'GoSnaps.Props.Tie.TestID', 'GoSnaps.Props.Tie.CleanIO', 'GoSnaps.Props.Tie.CleanTopIO1', 'GoSnaps.Props.Tie.CleanTopIO2', 'GoSnaps.Props.Tie.CleanTopIO3', 'GoSnaps.Props.Tie.CleanTopIO', 'GoSnaps.Props.Tie.EndToEndSkip', 'GoSnaps.Props.Tie.Wrappers']

TESTS = ['TestA/returns_(nil)', 'TestA/a+b', 'TestB/items[0]', 'TestB/open(', 'TestAPI', 'TestAPI//users', 'TestAPI//users/list', 'TestAPI/v1./x', 'TestV2', 'TestA/case_2', 'TestA/x#01', 'TestA', 'TestA/x', 'TestA/x/deep', 'TestA/y', 'TestAB', 'TestAB/x', 'TestB', 'TestB/A_case', 'TestB/sub', 'TestC/TestA', 'TestZed']
PATTERNS = ['', '', 'TestA', '^TestA$', 'TestA/x', 'TestA|TestB', 'A', 'TestB/sub', '^TestZ', 'Test[AB]$', 'TestA/[xy]', 'Nothing', 'TestA$/x$', '(TestA|TestZed)/x']


def split_regexp(s):
    """testing.splitRegexp"""
    a, b = [], []
    cs = cp = 0
    i = 0
    while i < len(s):
        ch = s[i]
        if ch == '[':
            cs += 1
        elif ch == ']':
            cs -= 1
            if cs < 0:
                cs = 0
        elif ch == '(':
            if cs == 0:
                cp += 1
        elif ch == ')':
            if cs == 0:
                cp -= 1
        elif ch == '\\':
            i += 1
        elif ch == '/':
            if cs == 0 and cp == 0:
                a.append(s[:i])
                s = s[i + 1:]
                i = 0
                continue
        elif ch == '|':
            if cs == 0 and cp == 0:
                a.append(s[:i])
                s = s[i + 1:]
                i = 0
                b.append(a)
                a = []
                continue
        i += 1
    a.append(s)
    if not b:
        return [a]
    return b + [a]


def go_selects(pattern, name):
    """does `go test -run pattern` run the (sub)test `name` (and all its ancestors)"""
    if pattern == '':
        return True
    elems = name.split('/')
    for alt in split_regexp(pattern):
        ok = True
        for i, s in enumerate(elems):
            if i >= len(alt):
                break
            if not re.search(alt[i], s):
                ok = False
                break
        if ok:
            return True
    return False


def frame(tid, body):
    return b'\n[' + tid + b']\n' + body + b'\n---\n'


# Filename options for the second file.  `custom` has no Go file of that name beside the snapshot
# directory (known finding D8 applies); the others are the snapshot files of test files whose base
# name contains `.snap` itself (`api.snapshot_test.go` -> `api.snapshot_test.snap`), `.go`, or dots: the
# file-level protection under -run must find `../<name>.go` from `<name>.snap`
GOFILE_NAMES = ['api.snapshot_test', 'foo.snap_test', 'x.snap', 'my.snapper_test', 'a.snap.b.snap_test', '.snap_test',
                'v1.2_test', 'gen.go_test', 'plain_test']


def make_spec(g):
    r = g.r
    tests = sorted(r.sample(TESTS, r.randint(3, 7)))
    # a subtest exists only with its parents
    for t in list(tests):
        parts = t.split('/')
        for k in range(1, len(parts)):
            # (a subtest named after a route - t.Run("/users", ...) - gives `TestAPI//users`: there is no test `TestAPI/`)
            if '/'.join(parts[:k]) not in tests and not '/'.join(parts[:k]).endswith('/'):
                tests.append('/'.join(parts[:k]))
    force_skip = []
    if r.random() < 0.2:
        # two skipped tests whose names are related (`x` and `x#01`, `TestA` and `TestAB`) around a
        # descendant of the shorter one: the skip list is searched for ANY ancestor, whatever else it holds
        fam = r.choice([['TestAPI', 'TestAPI//users', 'TestAPI//users/list', 'TestAPI/v1./x'], ['TestA', 'TestA/x', 'TestA/x#01', 'TestA/x/deep'], ['TestA', 'TestAB', 'TestA/x', 'TestAB/x', 'TestA/y'],
                        ['TestB', 'TestB/A_case', 'TestB/sub', 'TestA', 'TestA/x', 'TestA/x/deep']])
        tests = sorted(set(tests) | set(fam))
        force_skip = r.choice([fam[1:3], [fam[0], fam[1]], [fam[1]], fam[1:3] + [fam[-1]]])
    tests = sorted(set(tests))
    pattern = r.choice(PATTERNS)
    skipped = sorted(set([t for t in tests if r.random() < 0.2] + force_skip))
    ncalls = {t: r.choice([1, 1, 2]) for t in tests}
    # a test may take some of its snapshots and call snaps.Skip* only then (a conditional skip in the middle
    # of a flow): the slots it did not reach keep the protection
    partial = {}
    for t in skipped:
        if r.random() < 0.4:
            ncalls[t] = r.choice([2, 3])
            partial[t] = r.randint(1, ncalls[t] - 1)
    return dict(tests=tests, pattern=pattern, skipped=skipped, ncalls=ncalls, partial=partial,
                mode=r.choice([(False, 'clean'), (False, 'true'), (False, ''), (True, 'clean')]),
                sort=r.choice(['-', '0', '1']), second_file=r.random() < 0.5, shuffle=r.randrange(1 << 30),
                second_name=r.choice(['custom'] + GOFILE_NAMES) if r.random() < 0.6 else 'custom',
                # (parallel subtests resume after their parent returned: a child may call Skip AFTER its parent did)
                child_skips=r.random() < 0.3)


def render(tag, spec):
    import random
    rr = random.Random(spec['shuffle'])
    w = World(tag)
    w.spec, w.render = spec, render
    ci, upd = spec['mode']
    w.add(mode_line(ci, upd))
    w.add(cfg_line(1, 'pkg/__snapshots__'))
    name2 = spec.get('second_name', 'custom')
    has_go2 = name2 != 'custom'
    w.add(cfg_line(2, 'pkg/__snapshots__', name2))
    tests, p = spec['tests'], spec['pattern']

    def protected(t):
        return any(t == s or t.startswith(s + '/') for s in spec['skipped'])
    selected = {t: go_selects(p, t) for t in tests}
    # a test's body executes if go selects it and no ancestor (or itself) called Skip before it
    runs = {t: selected[t] and not protected(t) for t in tests}
    skip_calls = [s for s in spec['skipped'] if selected[s] and not any(s.startswith(o + '/') for o in spec['skipped'] if o != s)]
    late_skips = [s for s in spec['skipped'] if selected[s] and s not in skip_calls] if spec.get('child_skips') else []
    entries1, entries2 = [], []
    for t in tests:
        for k in range(1, spec['ncalls'][t] + 1):
            (entries2 if (spec['second_file'] and t.startswith('TestB')) else entries1).append((t, k))
    # a stale slot (ordinal 9) of tests that DO run: a skip of `TestA` must not protect `TestAB - 9`
    stale_sib = [(t, 9) for t in tests if runs[t] and (any(t.startswith(s) and not (t == s or t.startswith(s + '/')) for s in spec['skipped'])
                                                        or rr.random() < 0.3)]
    entries1 += [e for e in stale_sib if not (spec['second_file'] and e[0].startswith('TestB'))]
    rr.shuffle(entries1)
    if entries1:
        w.add('fsput %s %s' % (hx('pkg/__snapshots__/zz_verif_harness_test.snap'),
                               hx(b''.join(frame(('%s - %d' % (t, k)).encode(), ('v-%s-%d' % (t, k)).encode()) for t, k in entries1))))
    if entries2:
        w.add('fsput %s %s' % (hx('pkg/__snapshots__/%s.snap' % name2),
                               hx(b''.join(frame(('%s - %d' % (t, k)).encode(), ('v-%s-%d' % (t, k)).encode()) for t, k in entries2))))
    tops = sorted(set(t.split('/')[0] for t in tests))
    tops2 = sorted(set(t.split('/')[0] for t, _ in entries2)) if has_go2 else []
    # (text that merely LOOKS like a declaration - Go source kept in a raw string, a test disabled inside a comment -
    # declares nothing: only real top-level functions count when -run is matched against a test file)
    fake = ''.join('func %s(t *testing.T) {}\n' % f for f in tops)
    decoy_src = 'var fixture = `\n%s`\n\n/*\n%s*/\n' % (fake, fake)
    # (nor do the file's OTHER top-level declarations - types, variables, constants, struct fields named after tests
    # that live elsewhere: `-run` selects test functions)
    def others(names):
        return ''.join('type %sStore struct{ %sField int }\n\nvar %sFixture = 1\n\nconst %sLabel = "x"\n\n' % (f, f, f, f) for f in names)
    if has_go2:
        decoy_src += others(tops2)
    gosrc = 'package pkg\n\nimport "testing"\n\n' + ''.join('func %s(t *testing.T) {}\n' % f for f in tops if f not in tops2) + decoy_src
    w.add('fsput %s %s' % (hx('pkg/zz_verif_harness_test.go'), hx(gosrc)))
    if has_go2 and entries2:
        # the tests whose snapshots live in the second file are declared in the test file it is named after
        w.add('fsput %s %s' % (hx('pkg/%s.go' % name2),
                               hx('package pkg\n\nimport "testing"\n\n' + ''.join('func %s(t *testing.T) {}\n' % f for f in tops2) + decoy_src.replace('fixture', 'fixture2').replace(others(tops2), others([f for f in tops if f not in tops2])))))
    texec = 0
    for t in tests:
        if t in skip_calls:
            texec += 1
            w.add('begin %d %s' % (texec, hx(t)))
            cfg = 2 if (spec['second_file'] and t.startswith('TestB')) else 1
            for k in range(1, spec.get('partial', {}).get(t, 0) + 1):
                w.add('snap %d %d %s' % (cfg, texec, hx('v-%s-%d' % (t, k))), ('prepared-entry-passes', exp_silent))
            w.add('skip %d %s' % (texec, rr.choice(['skip', 'skipf', 'skipnow'])))
        elif runs[t]:
            texec += 1
            w.add('begin %d %s' % (texec, hx(t)))
            cfg = 2 if (spec['second_file'] and t.startswith('TestB')) else 1
            for k in range(1, spec['ncalls'][t] + 1):
                w.add('snap %d %d %s' % (cfg, texec, hx('v-%s-%d' % (t, k))), ('prepared-entry-passes', exp_silent))
            w.add('end %d' % texec)
    for t in late_skips:
        texec += 1
        w.add('begin %d %s' % (texec, hx(t)))
        w.add('skip %d %s' % (texec, rr.choice(['skip', 'skipf', 'skipnow'])))
    ref = w.add('fsdump')
    nskip_calls = sum(1 for o in w.ops if o.startswith('skip '))

    def skip_total(line, raw, ww):
        # (the clause of C20 that concerns this family: the summary counts every snaps.Skip* CALL)
        m = re.search(r'(\d+) snapshots? skipped\n', line.out.decode('utf-8', 'replace'))
        got = int(m.group(1)) if m else 0
        if got != nskip_calls:
            return 'the summary shows %d skipped, %d snaps.Skip* calls were made' % (got, nskip_calls)
        return None
    cl = w.add('clean %s %s 1' % (spec['sort'], hx(p)), ('summary-counts-every-skip-call', skip_total))

    def oracle(line, raw, ww, cl=cl, first=True):
        before, after = parse_fs(ww.impl[ref]), parse_fs(raw)
        out = Line(ww.impl[cl]).out.decode('utf-8', 'replace')
        for fname, ents in (('zz_verif_harness_test.snap', entries1), (name2 + '.snap', entries2)):
            if not ents:
                continue
            pa = [x for x in before if x.endswith(('/__snapshots__/' + fname).encode())][0]
            file_addressed = any(runs[t] for t, _ in ents)
            # the file-level rule of the library: `../<name>.go` exists and declares no function that
            # -run matches.  Where it applies the file is protected; known findings D6/D8 are about files
            # it does not reach (no such Go file; a selected function whose tests all called Skip)
            gofuncs = (tops2 if fname != 'zz_verif_harness_test.snap' else [f for f in tops if f not in tops2]) \
                if (fname == 'zz_verif_harness_test.snap' or has_go2) else None
            rule_protects = p != '' and gofuncs is not None and not any(re.search(p, f) for f in gofuncs)
            for t, k in ents:
                if runs[t] and k == 9 and p == '' and pa in after:
                    if first and ('• %s - 9\n' % t) not in out:
                        return 'stale entry [%s - 9] of a test that merely shares a name prefix with a skipped test was protected' % t
                    continue
                if runs[t]:
                    continue
                why = 'skipped through snaps.Skip*' if protected(t) else ('not selected by -run %r' % p)
                tid = '%s - %d' % (t, k)
                if pa not in after or (pa.decode('utf-8', 'replace') + '\n') in out:
                    ww.meta['cls'] = 'D6' if (p == '' and all(protected(x) or not selected[x] for x, _ in ents)) else 'D8'
                    if rule_protects or any(spec.get('partial', {}).get(x, 0) > 0 and x in skip_calls for x, _ in ents):
                        # (a test that took a snapshot before skipping registered the file: D6/D8 do not apply)
                        ww.meta['cls'] = None
                    elif p != '' and gofuncs is not None and all(protected(x) or not selected[x] for x, _ in ents):
                        # the Go file is found and -run selects one of its functions, but every selected
                        # test of the file called Skip: nothing registered the file (D6 under -run)
                        ww.meta['cls'] = 'D6'
                    return 'file %s holding entries of a test that did not run (%s) was %s' % (fname, why, 'deleted' if pa not in after else 'listed as obsolete')
                ids = [e[0].decode() for e in (parse_snap(after[pa]) or [])]
                if tid not in ids or ('• %s\n' % tid) in out:
                    # D7 is about an entry in a file the library EXAMINES (a running or partially skipped test registered
                    # it, or the file-level rule does not reach it); a file that rule protects is not looked into at all
                    examined = file_addressed or not rule_protects or any(spec.get('partial', {}).get(x, 0) > 0 and x in skip_calls for x, _ in ents)
                    if p and re.search(p, tid) and not selected[t] and examined:
                        ww.meta['cls'] = 'D7'
                    return 'entry [%s] of a test that did not run (%s) was %s' % (tid, why, 'deleted' if tid not in ids else 'listed as obsolete')
        return None
    w.add('fsdump', ('non-run-tests-keep-their-snapshots', oracle))
    if spec.get('twice', True):
        # Clean called a second time in the same process (a TestMain that cleans, then cleans again with Sort): the
        # skip list and the -run protection hold for every call
        cl2 = w.add('clean %s %s 1' % ('1' if spec['sort'] == '-' else spec['sort'], hx(p)), ('summary-counts-every-skip-call', skip_total))
        w.add('fsdump', ('non-run-tests-keep-their-snapshots-second-clean', lambda line, raw, ww: oracle(line, raw, ww, cl2, False)))
    return w


def known(w, p):
    if p['kind'] == 'expect':
        return w.meta.get('cls')
    return None


def run(ctx):
    g = Gen(ctx.seed * 1000003 + 8)
    n = 250 if ctx.tier == 'quick' else 6000
    worlds = [render('c08-%d' % i, make_spec(g)) for i in range(n)]
    # one world per second-file name, -run selecting none of the tests it holds while the default file
    # of the same directory is used; report mode and clean mode
    for k, name in enumerate(GOFILE_NAMES + ['custom']):
        for mi, mode in enumerate([(False, 'clean'), (False, ''), (False, 'true')]):
            for pat in ('TestA', '^TestA$/x'):
                worlds.append(render('c08-name-%d-%d-%d' % (k, mi, pat != 'TestA'), dict(
                    tests=['TestA', 'TestA/x', 'TestB', 'TestB/sub'], pattern=pat, skipped=[], ncalls={'TestA': 1, 'TestA/x': 2, 'TestB': 1, 'TestB/sub': 1},
                    mode=mode, sort=['-', '1'][k % 2], second_file=True, second_name=name, shuffle=k, child_skips=False)))
    # a subtest calling Skip after its parent did (parallel subtests), in both orders, twice
    for k, (skipped, late) in enumerate([(['TestA', 'TestA/x'], True), (['TestA', 'TestA/x', 'TestA/x/deep', 'TestB/sub'], True), (['TestA/x', 'TestB'], False)]):
        for mi, mode in enumerate([(False, 'clean'), (False, '')]):
            worlds.append(render('c08-late-%d-%d' % (k, mi), dict(
                tests=['TestA', 'TestA/x', 'TestA/x/deep', 'TestAB', 'TestB', 'TestB/sub'], pattern='', skipped=skipped,
                ncalls={t: 1 for t in ['TestA', 'TestA/x', 'TestA/x/deep', 'TestAB', 'TestB', 'TestB/sub']},
                mode=mode, sort='-', second_file=False, second_name='custom', shuffle=40 + k, child_skips=late)))
    run_suite(ctx, 'clean.skip-and-run', worlds, known=known, chunk=300)
    findings.report(ctx, 'C08')
