"""C08 - Clean keeps snapshots of tests that were skipped or filtered out."""
import re
import core, findings
from core import World, hx, Line, parse_fs
from gen import Gen, mode_line, cfg_line
from suites import run_suite, parse_snap, exp_silent

LEAN_MODULES = ['GoSnaps.Props.C08', 'GoSnaps.Props.Tie.Skip', 'GoSnaps.Props.Tie.TestID', 'GoSnaps.Props.Tie.CleanIO']

TESTS = ['TestV2', 'TestA/case_2', 'TestA/x#01', 'TestA', 'TestA/x', 'TestA/x/deep', 'TestA/y', 'TestAB', 'TestAB/x', 'TestB', 'TestB/A_case', 'TestB/sub', 'TestC/TestA', 'TestZed']
PATTERNS = ['', '', 'TestA', '^TestA$', 'TestA/x', 'TestA|TestB', 'A', 'TestB/sub', '^TestZ', 'Test[AB]$', 'TestA/[xy]', 'Nothing', 'TestA$/x$', '(TestA|TestZed)/x']


def split_regexp(s):
    """testing.splitRegexp"""
    a, b = [], []
    cs = cp = 0
    i = 0
    while i < len(s):
        ch = s[i]
        if ch == '[':
            cs += 1
        elif ch == ']':
            cs -= 1
            if cs < 0:
                cs = 0
        elif ch == '(':
            if cs == 0:
                cp += 1
        elif ch == ')':
            if cs == 0:
                cp -= 1
        elif ch == '\\':
            i += 1
        elif ch == '/':
            if cs == 0 and cp == 0:
                a.append(s[:i])
                s = s[i + 1:]
                i = 0
                continue
        elif ch == '|':
            if cs == 0 and cp == 0:
                a.append(s[:i])
                s = s[i + 1:]
                i = 0
                b.append(a)
                a = []
                continue
        i += 1
    a.append(s)
    if not b:
        return [a]
    return b + [a]


def go_selects(pattern, name):
    """does `go test -run pattern` run the (sub)test `name` (and all its ancestors)"""
    if pattern == '':
        return True
    elems = name.split('/')
    for alt in split_regexp(pattern):
        ok = True
        for i, s in enumerate(elems):
            if i >= len(alt):
                break
            if not re.search(alt[i], s):
                ok = False
                break
        if ok:
            return True
    return False


def frame(tid, body):
    return b'\n[' + tid + b']\n' + body + b'\n---\n'


def make_spec(g):
    r = g.r
    tests = sorted(r.sample(TESTS, r.randint(3, 7)))
    # a subtest exists only with its parents
    for t in list(tests):
        parts = t.split('/')
        for k in range(1, len(parts)):
            if '/'.join(parts[:k]) not in tests:
                tests.append('/'.join(parts[:k]))
    force_skip = []
    if r.random() < 0.2:
        # two skipped tests whose names are related (`x` and `x#01`, `TestA` and `TestAB`) around a
        # descendant of the shorter one: the skip list is searched for ANY ancestor, whatever else it holds
        fam = r.choice([['TestA', 'TestA/x', 'TestA/x#01', 'TestA/x/deep'], ['TestA', 'TestAB', 'TestA/x', 'TestAB/x', 'TestA/y'],
                        ['TestB', 'TestB/A_case', 'TestB/sub', 'TestA', 'TestA/x', 'TestA/x/deep']])
        tests = sorted(set(tests) | set(fam))
        force_skip = r.choice([fam[1:3], [fam[0], fam[1]], [fam[1]], fam[1:3] + [fam[-1]]])
    tests = sorted(set(tests))
    pattern = r.choice(PATTERNS)
    skipped = sorted(set([t for t in tests if r.random() < 0.2] + force_skip))
    ncalls = {t: r.choice([1, 1, 2]) for t in tests}
    return dict(tests=tests, pattern=pattern, skipped=skipped, ncalls=ncalls,
                mode=r.choice([(False, 'clean'), (False, 'true'), (False, ''), (True, 'clean')]),
                sort=r.choice(['-', '0', '1']), second_file=r.random() < 0.4, shuffle=r.randrange(1 << 30))


def render(tag, spec):
    import random
    rr = random.Random(spec['shuffle'])
    w = World(tag)
    w.spec, w.render = spec, render
    ci, upd = spec['mode']
    w.add(mode_line(ci, upd))
    w.add(cfg_line(1, 'pkg/__snapshots__'))
    w.add(cfg_line(2, 'pkg/__snapshots__', 'custom'))
    tests, p = spec['tests'], spec['pattern']

    def protected(t):
        return any(t == s or t.startswith(s + '/') for s in spec['skipped'])
    selected = {t: go_selects(p, t) for t in tests}
    # a test's body executes if go selects it and no ancestor (or itself) called Skip before it
    runs = {t: selected[t] and not protected(t) for t in tests}
    skip_calls = [s for s in spec['skipped'] if selected[s] and not any(s.startswith(o + '/') for o in spec['skipped'] if o != s)]
    entries1, entries2 = [], []
    for t in tests:
        for k in range(1, spec['ncalls'][t] + 1):
            (entries2 if (spec['second_file'] and t.startswith('TestB')) else entries1).append((t, k))
    # a stale slot (ordinal 9) of tests that DO run: a skip of `TestA` must not protect `TestAB - 9`
    stale_sib = [(t, 9) for t in tests if runs[t] and (any(t.startswith(s) and not (t == s or t.startswith(s + '/')) for s in spec['skipped'])
                                                        or rr.random() < 0.3)]
    entries1 += [e for e in stale_sib if not (spec['second_file'] and e[0].startswith('TestB'))]
    rr.shuffle(entries1)
    if entries1:
        w.add('fsput %s %s' % (hx('pkg/__snapshots__/zz_verif_harness_test.snap'),
                               hx(b''.join(frame(('%s - %d' % (t, k)).encode(), ('v-%s-%d' % (t, k)).encode()) for t, k in entries1))))
    if entries2:
        w.add('fsput %s %s' % (hx('pkg/__snapshots__/custom.snap'),
                               hx(b''.join(frame(('%s - %d' % (t, k)).encode(), ('v-%s-%d' % (t, k)).encode()) for t, k in entries2))))
    tops = sorted(set(t.split('/')[0] for t in tests))
    gosrc = 'package pkg\n\nimport "testing"\n\n' + ''.join('func %s(t *testing.T) {}\n' % f for f in tops)
    w.add('fsput %s %s' % (hx('pkg/zz_verif_harness_test.go'), hx(gosrc)))
    texec = 0
    for t in tests:
        if t in skip_calls:
            texec += 1
            w.add('begin %d %s' % (texec, hx(t)))
            w.add('skip %d %s' % (texec, rr.choice(['skip', 'skipf', 'skipnow'])))
        elif runs[t]:
            texec += 1
            w.add('begin %d %s' % (texec, hx(t)))
            cfg = 2 if (spec['second_file'] and t.startswith('TestB')) else 1
            for k in range(1, spec['ncalls'][t] + 1):
                w.add('snap %d %d %s' % (cfg, texec, hx('v-%s-%d' % (t, k))), ('prepared-entry-passes', exp_silent))
            w.add('end %d' % texec)
    ref = w.add('fsdump')
    cl = w.add('clean %s %s 1' % (spec['sort'], hx(p)))

    def oracle(line, raw, ww):
        before, after = parse_fs(ww.impl[ref]), parse_fs(raw)
        out = Line(ww.impl[cl]).out.decode('utf-8', 'replace')
        for fname, ents in (('zz_verif_harness_test.snap', entries1), ('custom.snap', entries2)):
            if not ents:
                continue
            pa = [x for x in before if x.endswith(('/' + fname).encode())][0]
            file_addressed = any(runs[t] for t, _ in ents)
            for t, k in ents:
                if runs[t] and k == 9 and p == '' and pa in after:
                    if ('• %s - 9\n' % t) not in out:
                        return 'stale entry [%s - 9] of a test that merely shares a name prefix with a skipped test was protected' % t
                    continue
                if runs[t]:
                    continue
                why = 'skipped through snaps.Skip*' if protected(t) else ('not selected by -run %r' % p)
                tid = '%s - %d' % (t, k)
                if pa not in after:
                    ww.meta['cls'] = 'D6' if (p == '' and all(protected(x) or not selected[x] for x, _ in ents)) else 'D8'
                    return 'file %s holding entries of a test that did not run (%s) was deleted' % (fname, why)
                ids = [e[0].decode() for e in (parse_snap(after[pa]) or [])]
                if tid not in ids or ('• %s\n' % tid) in out:
                    if p and re.search(p, tid) and not selected[t]:
                        ww.meta['cls'] = 'D7'
                    return 'entry [%s] of a test that did not run (%s) was %s' % (tid, why, 'deleted' if tid not in ids else 'listed as obsolete')
        return None
    w.add('fsdump', ('non-run-tests-keep-their-snapshots', oracle))
    return w


def known(w, p):
    if p['kind'] == 'expect':
        return w.meta.get('cls')
    return None


def run(ctx):
    g = Gen(ctx.seed * 1000003 + 8)
    n = 250 if ctx.tier == 'quick' else 6000
    worlds = [render('c08-%d' % i, make_spec(g)) for i in range(n)]
    run_suite(ctx, 'clean.skip-and-run', worlds, known=known, chunk=300)
    findings.report(ctx, 'C08')
