"""C14 - JSON snapshots are canonical and lossless."""
import json, base64, random
import core, findings, docs, jsongen
from core import World, hx, Line, parse_fs
from gen import Gen, mode_line, cfg_line
from suites import run_suite, parse_snap

LEAN_MODULES = ['GoSnaps.Props.C14', 'GoSnaps.DriverX', 'GoSnaps.Lemmas.Json', 'GoSnaps.Props.C14Json', 'GoSnaps.Props.Tie.Flows', 'GoSnaps.Props.Tie.Wrappers', 'GoSnaps.Props.Tie.Pipeline',
                'GoSnaps.Lemmas.JsonEndToEnd', 'GoSnaps.Props.Tie.JsonEndToEnd']


def gen_value(r, depth=0, simple_numbers=False):
    k = r.random()
    if depth >= 3 or k < 0.4:
        nums = [0, 1, -1, 3.5, 42] if simple_numbers else [0, 1, -1, 3.5, 1e10, 12345678901234567, 0.001, -0.0]
        return r.choice(nums + [True, False, None, '', 'str', 'with "quotes"', 'uni\u00e9', 'tab\there', 'a/b', '---', '[TestA - 1]', 'line\nbreak', '<a & b>', 'x>y', 'C:\\users\\u0026co', '[^\\u003c]+'])
    if k < 0.75:
        keys = r.sample(['a', 'b', 'c', 'id', 'name', 'k.dot', 'sp ace', '\u00fc', 'z', 'A', 'aa'], r.randint(0, 4))
        return {kk: gen_value(r, depth + 1, simple_numbers) for kk in keys}
    return [gen_value(r, depth + 1, simple_numbers) for _ in range(r.randint(0, 3))]


def shuffle_members(r, v):
    if isinstance(v, dict):
        items = [(k, shuffle_members(r, x)) for k, x in v.items()]
        r.shuffle(items)
        return dict(items)
    if isinstance(v, list):
        return [shuffle_members(r, x) for x in v]
    return v


def present(r, v):
    style = r.randrange(4)
    if style == 0:
        return json.dumps(v, ensure_ascii=False)
    if style == 1:
        return json.dumps(v, indent=r.choice([1, 3]), ensure_ascii=False)
    if style == 2:
        return json.dumps(v, separators=(' ,\t\r\n', ' :\n '), ensure_ascii=False)
    return '\n \t' + json.dumps(v, separators=(',', ':'), ensure_ascii=False) + ' \n'


JSONOPTS = ['none', 'none', '0:%s:1' % hx(' '), '20:%s:1' % hx('  '), '80:%s:0' % hx('\t'), '0:%s:0' % hx(' ')]
BAD = ['\ufeff{"a": 1}', '\ufeff[1, 2]', '', '{', '{"a":1,}', '{"a":1}{"b":2}', 'nul', '[1,2', '{"a":"\x01"}', '{a:1}', "{'a':1}", '[1 2]', '{"a" 1}', 'tru']


def make_world(g, tag):
    r = g.r
    w = World(tag)
    opt = r.choice(JSONOPTS)
    sort_on = opt == 'none' or opt.endswith(':1')
    w.add(mode_line(False, ''))
    kind = r.choice(['json', 'json', 'sajson'])
    w.add(cfg_line(1, 'snaps', 'f' if kind == 'json' else None, None, 'none', opt))
    simple = r.random() < 0.4
    v = gen_value(r, 0, simple)
    if not isinstance(v, (dict, list)) and r.random() < 0.7:
        v = {'root': v, 'x': [v]}
    pres = []
    for i in range(r.randint(2, 5)):
        vv = shuffle_members(r, v) if (sort_on and i) else v
        form = r.choice(['s', 'b'])
        if sort_on and simple and isinstance(vv, (dict, list)) and r.random() < 0.3:   # a Go map has no member order: encoding/json sorts
            form = 'v'
        pres.append((present(r, vv), form))
    if any(f == 'v' for _, f in pres):
        # a Go value is stored through its standard JSON encoding, which writes <, > and & as
        # \u003c, \u003e, \u0026: the textual forms of "the same document" use that encoding too
        pres = [(t.replace('<', '\\u003c').replace('>', '\\u003e').replace('&', '\\u0026'), f) for t, f in pres]
    idx = []
    nested = []     # (op index, test name, value) of calls made from inside a matcher of another call
    share = kind == 'json' and r.random() < 0.3
    w.add(cfg_line(2, 'snaps', 'f' if share else 'nested', None, 'none', opt))
    for i, (txt, form) in enumerate(pres, 1):
        w.add('begin %d %s' % (i, hx(b'TestJ%d' % i)))
        ms = []
        if r.random() < (0.6 if form == 'v' else 0.15):
            # a user-defined matcher that itself records a snapshot of ANOTHER Go value (a helper asserting on
            # some other object) while this call is between validation and formatting: a re-entrant call
            nv = r.choice([{'nested': i}, {'nested': i, 'pad': 'p' * r.randint(0, 60)}, [i, 'nested'], gen_value(r, 1, True)])
            if not isinstance(nv, (dict, list)):
                nv = {'nested': nv, 'i': i}
            w.add('begin %d %s' % (100 + i, hx(b'TestNested%d' % i)))
            nested.append((w.add('nest json 2 %d v %s' % (100 + i, hx(json.dumps(nv)))), b'TestNested%d' % i, nv))
            ms.append(docs.user_matcher(r.random() < 0.5, r.random() < 0.3, True))
        elif r.random() < 0.4:
            # inspecting user-defined matchers leave the document alone: the stored text is the same with
            # and without them, and the caller's bytes (indentation, final newline) stay as they were
            ms = [docs.user_matcher(r.random() < 0.5, r.random() < 0.3) for _ in range(r.randint(1, 2))]
        idx.append(w.add('%s 1 %d %s %s%s' % (kind, i, form, hx(txt), ''.join(' ' + m for m in ms))))
        if ms and ms[0].endswith('x'):
            w.add('end %d' % (100 + i))
        w.add('end %d' % i)
    # Go values of NAMED string / byte-slice types (type Status string, net.IP, type Body []byte): they are Go
    # values, so the stored document is their JSON encoding (a string), whatever their content looks like
    named = []
    for k in range(r.randint(0, 2)):
        content = r.choice(['active', '123', '{"b":1,"a":2}', 'true', 'null', '', '[1, 2]', 'say "hi"', ' x ', '1e3', 'a\nb'])
        form = r.choice(['vnstr', 'vnbytes', 'vptr', 'vmapraw'])
        if form == 'vptr':
            content = str(r.choice([1999, 5, 120000]))
        if form == 'vmapraw':
            content = r.choice(['{"b":1,"a":2}', '{"z":{"y":1,"x":2},"k":[{"b":1,"a":2}]}', '[{"b":1,"a":2}]'])
        w.add('begin %d %s' % (95 + k, hx(b'TestNamed%d' % k)))
        named.append((w.add('%s 1 %d %s %s' % (kind, 95 + k, form, hx(content))), k, form, content))
        w.add('end %d' % (95 + k))

    # malformed input: one failure, nothing written
    before = w.add('fsdump')
    bad = r.choice(BAD)
    w.add('begin 90 %s' % hx(b'TestBad'))

    def exp_bad(line, raw, ww):
        if [k for k, _ in line.events] != ['E'] or line.writes or line.removed:
            return 'invalid JSON must fail the test and write nothing, got %r w=%r' % ([(k, x[:30]) for k, x in line.events], line.writes)
        return None
    # (an empty json.RawMessage marshals to `null`: valid)
    if r.random() < 0.35:
        # not JSON, but the offending token sits at a path a matcher would replace: validation comes first, the
        # matcher must not get the chance to turn the text into a valid document
        bad, bpath = r.choice([('{"id":1,"createdAt":2024-01-01T10:00:00Z}', 'createdAt'), ('{"n":NaN,"k":1}', 'n'), ('{"n":007,"k":1}', 'n'),
                               ('{"s":"a\tb","k":1}', 's'), ('{"k":1,"v":.5}', 'v'), ("{\"k\":1,\"q\":'x'}", 'q')])
        mt = r.choice([docs.any_matcher([bpath]), docs.custom_matcher(bpath, True, '"ok"'), docs.any_matcher([bpath], None, False)])
        w.add('%s 1 90 %s %s %s' % (kind, r.choice(['s', 'b']), hx(bad), mt), ('invalid-json-fails-before-matchers', exp_bad))
    else:
        w.add('%s 1 90 %s %s' % (kind, r.choice(['s', 'b', 'vraw'] if bad else ['s', 'b']), hx(bad)), ('invalid-json-fails', exp_bad))
    w.add('end 90')

    def oracle(line, raw, ww):
        fs0 = parse_fs(raw)
        for i, k, form, content in named:
            res = Line(ww.impl[i])
            if form == 'vptr':
                # passed by value: the pointer-receiver MarshalJSON of the field is not used by json.Marshal
                want = {'id': 'o-1', 'total': {'Cents': int(content)}}
            elif form == 'vmapraw':
                want = {'zeta': json.loads(content), 'alpha': 1, 'm': {'z': 1, 'a': 2}}
            else:
                want = content if form == 'vnstr' else base64.b64encode(content.encode()).decode()
            if [e for e, _ in res.events] != ['L']:
                return 'a Go value of a named %s type (%r) was not recorded: %r' % ('string' if form == 'vnstr' else '[]byte', content, [(e, x[:40]) for e, x in res.events])
            if kind == 'json':
                pp = [x for x in fs0 if x.endswith(b'/f.snap')]
                body = dict(parse_snap(fs0[pp[0]]) or []).get(b'TestNamed%d - 1' % k) if pp else None
            else:
                bodies = [fs0[x] for x in fs0 if b'/TestNamed%d_' % k in x]
                body = bodies[0] if bodies else None
            try:
                got = json.loads(body.decode())
            except Exception as e:
                return 'named-type Go value %r stored as %r' % (content, body)
            if got != want:
                return 'Go value (%s, %r) is stored as %r, not as its standard JSON encoding' % (form, content, body[:80])
            if form == 'vmapraw' and sort_on:
                # the default options sort the members at every depth, also inside pre-encoded JSON
                def sorted_everywhere(x):
                    if isinstance(x, dict):
                        return list(x) == sorted(x) and all(sorted_everywhere(v_) for v_ in x.values())
                    if isinstance(x, list):
                        return all(sorted_everywhere(v_) for v_ in x)
                    return True
                if not sorted_everywhere(json.loads(body.decode(), object_pairs_hook=dict)):
                    return 'members of a Go map value are not stored in sorted order: %r' % body[:120]
        for i in idx:
            if any(k == 'X' for k, _ in Line(ww.impl[i]).events):
                return 'op %d: the []byte passed by the caller was modified by the call (a second use of the same slice would fail)' % i
        fs = parse_fs(raw)
        if parse_fs(ww.impl[before]) != fs:
            return 'invalid JSON changed the directory'
        texts = []
        if kind == 'json':
            p = [x for x in fs if x.endswith(b'/f.snap')]
            ents = parse_snap(fs[p[0]]) if p else []
            if ents is None:
                return 'file not well formed'
            texts = [b for n, b in ents if n.startswith(b'TestJ')]
        else:
            texts = [fs[x] for x in sorted(fs) if b'/TestJ' in x]
        if len(texts) != len(pres):
            return 'expected %d stored documents, found %d' % (len(pres), len(texts))
        if len(set(texts)) != 1:
            return 'presentations of one document (whitespace%s) stored differently: %r' % (', member order' if sort_on else '', [t[:60] for t in set(texts)][:2])
        try:
            got = json.loads(texts[0].decode())
        except Exception as e:
            return 'stored text is not valid JSON: %s' % e
        if got != v:
            return 'stored text parses to a different value'
        if texts[0].endswith(b'\n'):
            return 'stored text keeps the trailing newline'
        # the documents recorded by the nested calls are theirs
        p = [x for x in fs if x.endswith(b'/f.snap' if share else b'/nested.snap')]
        ents = dict(parse_snap(fs[p[0]]) or []) if p else {}
        for _, name, nv in nested:
            body = ents.get(name + b' - 1')
            if body is None:
                return 'the call made from inside a matcher (%s) recorded nothing' % name.decode()
            try:
                if json.loads(body.decode()) != nv:
                    return 'the call made from inside a matcher (%s) recorded a different document' % name.decode()
            except Exception as e:
                return 'the call made from inside a matcher recorded invalid JSON: %s' % e
        return None
    w.add('fsdump', ('canonical-and-lossless', oracle))
    return w


SPECIAL = ['$1', '${1}x', '$name', 'cost: $100', '$$', '50% off', '%s %d %v', 'back\\slash', '\\1 \\0', '&amp;', '$0', 'US$1 ${x}', '$', '%',
           '$10.50 (${currency})', '\\$1', '%!s(MISSING)', '{{.}}', '#{x}', '\u0000'.replace('0000', '0041'), '---', '[TestU1 - 1]']


def sortkeys_pair_worlds():
    """two Configs with the same Width and Indent that differ in SortKeys only, the non-sorting one used first (and the
    other way round): each call is formatted by the options of ITS Config"""
    worlds = []
    doc = '{"zeta": 1, "alpha": {"y": 2, "x": 1}, "mid": [{"b": 1, "a": 2}]}'
    k = 0
    for width, indent in ((0, ' '), (80, '  '), (20, '\t')):
        for first in (0, 1):
            for kind in ('json', 'sajson'):
                k += 1
                w = World('c14-sortpair-%d' % k)
                w.add(mode_line(False, ''))
                opts = {0: '%d:%s:0' % (width, hx(indent)), 1: '%d:%s:1' % (width, hx(indent))}
                w.add(cfg_line(1, 'snaps', 'first', None, 'none', opts[first]))
                w.add(cfg_line(2, 'snaps', 'second', None, 'none', opts[1 - first]))
                w.add('begin 1 %s' % hx(b'TestSortPair'))
                w.add('%s 1 1 s %s' % (kind, hx(doc)))
                w.add('%s 2 1 s %s' % (kind, hx(doc)))
                w.add('end 1')

                def oracle(line, raw, ww, first=first, kind=kind):
                    fs0 = parse_fs(raw)
                    for fname, sorted_ in (('first', first == 1), ('second', first == 0)):
                        if kind == 'json':
                            pp = [x for x in fs0 if x.endswith(('/%s.snap' % fname).encode())]
                            body = dict(parse_snap(fs0[pp[0]]) or []).get(b'TestSortPair - 1') if pp else None
                        else:
                            bodies = [fs0[x] for x in fs0 if ('/%s_1.snap' % fname).encode() in x]
                            body = bodies[0] if bodies else None
                        if body is None:
                            return 'no snapshot through the Config with file name %r' % fname
                        order = [m_ for m_ in ('zeta', 'alpha', 'mid') if ('"%s"' % m_).encode() in body]
                        pos = {m_: body.index(('"%s"' % m_).encode()) for m_ in order}
                        got_sorted = pos['alpha'] < pos['mid'] < pos['zeta']
                        got_input = pos['zeta'] < pos['alpha'] < pos['mid']
                        if sorted_ and not got_sorted:
                            return 'the Config with SortKeys stored the members unsorted: %r' % body[:120]
                        if not sorted_ and not got_input:
                            return 'the Config without SortKeys did not keep the member order: %r' % body[:120]
                    return None
                w.add('fsdump', ('each-config-formats-with-its-own-options', oracle))
                worlds.append(w)
    return worlds


def update_world(g, tag):
    """C14 on the UPDATE path: a document is recorded, then replaced (UPDATE_SNAPS=true) by another one whose
    strings hold text that template / format / regexp replacement would interpret (`$1`, `${x}`, `%s`, `\\1`).
    The stored text must parse to the new document and be exactly what a first recording of it stores."""
    r = g.r
    w = World(tag)
    opt = r.choice(JSONOPTS)
    kind = r.choice(['json', 'json', 'sajson'])
    w.add(mode_line(False, ''))
    w.add(cfg_line(1, 'snaps', 'f' if kind == 'json' else None, None, 'none', opt))
    n = r.randint(2, 3)
    v2 = {}
    for i in range(1, n + 1):
        v1 = {'id': i, 'note': r.choice(['old', 'previous $9', 'x']), 'items': [i, 'a']}
        w.add('begin %d %s' % (i, hx(b'TestU%d' % i)))
        w.add('%s 1 %d %s %s' % (kind, i, r.choice(['s', 'b']), hx(json.dumps(v1))))
        w.add('end %d' % i)
    w.add(mode_line(False, 'true'))
    for i in range(1, n + 1):
        sp = r.sample(SPECIAL, 3)
        v2[i] = {'id': i, 'note': sp[0], 'items': [sp[1], {'k': sp[2]}], r.choice(SPECIAL[:6]): i}
        txt = present(r, v2[i])
        w.add('begin %d %s' % (20 + i, hx(b'TestU%d' % i)))
        w.add('%s 1 %d %s %s' % (kind, 20 + i, r.choice(['s', 'b']), hx(txt)))
        w.add('end %d' % (20 + i))
        # the same document recorded for the first time under another name, in the same mode
        w.add('begin %d %s' % (40 + i, hx(b'TestFresh%d' % i)))
        w.add('%s 1 %d %s %s' % (kind, 40 + i, r.choice(['s', 'b']), hx(txt)))
        w.add('end %d' % (40 + i))

    def body_of(fs0, name):
        if kind == 'json':
            pp = [x for x in fs0 if x.endswith(b'/f.snap')]
            ents = parse_snap(fs0[pp[0]]) if pp else None
            return None if ents is None else dict(ents).get(name + b' - 1')
        bodies = [fs0[x] for x in fs0 if b'/' + name + b'_1' in x]
        return bodies[0] if bodies else None

    def oracle(line, raw, ww):
        fs0 = parse_fs(raw)
        for i in range(1, n + 1):
            upd, fresh = body_of(fs0, b'TestU%d' % i), body_of(fs0, b'TestFresh%d' % i)
            if upd is None or fresh is None:
                return 'entry of TestU%d / TestFresh%d not found (or the file is not well formed) after the update' % (i, i)
            try:
                got = json.loads(upd.decode())
            except Exception:
                return 'after the update the stored text of TestU%d is not JSON: %r' % (i, upd[:120])
            if got != v2[i]:
                return 'after the update TestU%d stores %r, the document was %r' % (i, got, v2[i])
            if upd != fresh:
                return 'an update stores %r, a first recording of the same document stores %r' % (upd[:120], fresh[:120])
        return None
    w.add('fsdump', ('update-canonical-and-lossless', oracle))
    return w


# ---------------------------------------------------------------- json.model (tier B)
# The Lean model of the two library functions (lean/GoSnaps/Json.lean: jsonValid = gjson.Valid,
# pretty = pretty.PrettyOptions) against the real libraries, one document per `jsonfmt` line:
# verdict and output must agree byte for byte.  The theorems of Props/C14Json.lean are about the
# model; this comparison is what makes them statements about what go-snaps stores.

JM_INDENTS = [b' ', b' ', b'  ', b'\t', b'']
JM_WIDTHS = [0, 0, 20, 80]


def _jm_out(raw):
    """'jsonfmt valid=1 parse=1 out=<hex>' -> (valid, bytes)"""
    f = dict(x.split('=', 1) for x in raw.split(' ')[1:] if '=' in x)
    return f.get('valid'), core.unhx(f.get('out', '-'))


def jm_case_world(r, i):
    """one document under one option set: compact text, white-space variants, a member permutation"""
    w = World('jm-%d' % i)
    shape = r.random()
    if shape < 0.30:
        t = jsongen.width_tree(r)
        width = r.choice([20, 20, 80, 0, 4, 3, 5, -1, 1000])
        lens = [len(o) for o in (jsongen.one_line(a) for a in jsongen.arrays_of(t)) if o is not None]
        if lens and r.random() < 0.5:
            # a width within a few columns of where some array of the document stops fitting
            width = r.choice(lens) + r.randrange(0, 16)
    elif shape < 0.42:
        t = jsongen.tie_tree(r)
        width = r.choice(JM_WIDTHS)
    else:
        t = jsongen.tree(r, 0, r.choice([1, 2, 3, 4, 5, 6]))
        width = r.choice(JM_WIDTHS)
    sk = r.random() < (0.9 if 0.30 <= shape < 0.42 else 0.6)
    indent = r.choice(JM_INDENTS)
    opt = '%d %s %d' % (1 if sk else 0, hx(indent), width)
    docs = [('compact', jsongen.compact(t)), ('ws', jsongen.spaced(r, t, 0.3)), ('ws', jsongen.spaced(r, t, 0.9))]
    twins = jsongen.has_dup_or_twin(t, jsongen.go_unquote)
    pt = jsongen.permute(r, t)
    docs.append(('perm', jsongen.spaced(r, pt, 0.4)))
    if r.random() < 0.3:
        # the same text under another option set
        opt2 = '%d %s %d' % (r.randrange(2), hx(r.choice(JM_INDENTS)), r.choice([0, 20, 80]))
    else:
        opt2 = None
    idx = []
    for kind, d in docs:
        idx.append((kind, w.add('jsonfmt %s %s' % (hx(d), opt))))
    if opt2:
        w.add('jsonfmt %s %s' % (hx(docs[0][1]), opt2))
    w.meta = dict(stream='valid', depth=jsongen.depth_of(t), sizes=[len(d) for _, d in docs], sk=sk, width=width, indent=indent,
                  twins=twins, shape='width' if shape < 0.30 else 'ties' if shape < 0.42 else 'general')

    def oracle(line, raw, ww):
        outs = [(k, _jm_out(ww.impl[j])) for k, j in idx]
        if any(v != '1' for _, (v, _) in outs):
            return 'a generated document is rejected by gjson: %r' % [docs[n][1][:80] for n, (_, (v, _)) in enumerate(outs) if v != '1'][:1]
        base = outs[0][1][1]
        for (k, (_, o)), (_, d) in zip(outs, docs):
            if k == 'ws' and o != base:
                return 'white space between tokens changed the output: %r' % d[:120]
            if k == 'perm' and sk and not twins and o != base:
                return 'member order changed the output although SortKeys is on and keys are distinct: %r' % d[:120]
        if not base.endswith(b'\n') or base.endswith(b'\n\n'):
            return 'output does not end with exactly one newline'
        if any(l.strip(b' \t\r') == b'---' for l in base.split(b'\n')):
            return 'output has a line equal to the entry terminator'
        return None
    w.expect[idx[-1][1]] = ('json-lib-ws-and-order-invariant', oracle)
    return w


def jm_bad_world(r, i):
    w = World('jmbad-%d' % i)
    kinds = []
    for _ in range(8):
        base = jsongen.compact(jsongen.tree(r, 0, r.choice([1, 2, 3])))
        if base[:1] not in b'[{' or r.random() < 0.2:
            base = b'{"a":[1,"x",{"b":null}],"c":-0.5e+3}'
        k, d = jsongen.malformed(r, base)
        kinds.append((k, len(d)))
        w.add('jsonfmt %s 1 %s 0' % (hx(d), hx(b' ')))
    w.meta = dict(stream='malformed', kinds=kinds)
    return w


def jm_stats(ctx, worlds):
    d = ctx.stats['dist']

    def inc(k, n=1):
        d['json.model ' + k] = d.get('json.model ' + k, 0) + n
    for w in worlds:
        impl = getattr(w, 'impl', None) or []
        verdicts = [_jm_out(l)[0] for l in impl[1:] if l.startswith('jsonfmt ')]
        inc('documents', len(verdicts))
        inc('valid', sum(1 for v in verdicts if v == '1'))
        inc('invalid', sum(1 for v in verdicts if v == '0'))
        m = w.meta
        if m.get('stream') == 'valid':
            inc('depth=%d' % m['depth'])
            inc('shape=%s' % m['shape'])
            inc('width=%s' % (m['width'] if m['width'] in (-1, 0, 20, 80) else 'other'))
            inc('indent=%r' % m['indent'].decode())
            inc('sortKeys=%s' % m['sk'])
            if m['twins']:
                inc('with duplicate / unescape-equal keys')
            for s in m['sizes']:
                inc('size%s' % jsongen.size_bucket(s))
            outs = [_jm_out(l)[1] for l in impl[1:] if l.startswith('jsonfmt ')]
            if outs and m['width'] > 0 and any(b', ' in l and l.strip().startswith(b'[') for l in outs[0].split(b'\n')):
                inc('output has a single-line array')
        else:
            for (k, n), v in zip(m['kinds'], verdicts):
                inc('malformed:%s/%s' % (k, 'accepted' if v == '1' else 'rejected'))
                inc('size%s' % jsongen.size_bucket(n))


def run_json_model(ctx):
    r = random.Random(ctx.seed * 7919 + 1414)
    n_case, n_bad = (4000, 800) if ctx.tier == 'quick' else (40000, 8000)
    worlds = [jm_case_world(r, i) for i in range(n_case)] + [jm_bad_world(r, i) for i in range(n_bad)]
    run_suite(ctx, 'json.model', worlds, known=None, chunk=500)
    jm_stats(ctx, worlds)
    ctx.notes.append('json.model: the Lean model of gjson.Valid and pretty.PrettyOptions (lean/GoSnaps/Json.lean) is compared with the real '
                     'libraries on every document (verdict and output, byte for byte; the model\'s structural parser must give the '
                     'validator\'s verdict); the theorems of Props/C14Json.lean are about that model')


RAW_TOKENS = [b'\xff\xfe', b'\xff', b'K\xf6\xf6ln', b'K\xf6ln', b'\xe2\x82', b'\xe2', b'\xef\xbf\xbd', b'a\xc0\x80b', b'\xf4\x90\x80\x80', b'\xed\xa0\x80\xed\xb0\x80']


def raw_byte_worlds():
    """documents whose strings hold bytes that are not UTF-8 (Latin-1 text, binary ids; the validator accepts them): the
    string tokens are stored byte for byte, so two documents that differ only there are stored differently and the
    second one is reported against the first"""
    import suites
    worlds = []
    n = 0
    for kind in ('json', 'sajson'):
        for a in RAW_TOKENS:
            for b in RAW_TOKENS:
                if a == b:
                    continue
                n += 1
                if n % 3 and kind == 'sajson':
                    continue
                w = World('c14-raw-%d' % n)
                w.add(mode_line(False, ''))
                w.add(cfg_line(1, 'snaps', 'f' if kind == 'json' else None, None, 'none', 'none'))
                da = b'{"id": "' + a + b'", "n": [1, "' + a + b'"]}'
                db = b'{"id": "' + b + b'", "n": [1, "' + a + b'"]}'
                w.add('begin 1 %s' % hx(b'TestRaw'))
                w.add('%s 1 1 %s %s' % (kind, 'b' if n % 2 else 's', hx(da)))
                w.add('end 1')
                w.add('begin 2 %s' % hx(b'TestRaw'))
                w.add('%s 1 2 %s %s' % (kind, 's' if n % 2 else 'b', hx(db)), ('a-different-document-is-reported', suites.exp_one_error_no_write))
                w.add('end 2')

                def stored(line, raw, ww, a=a):
                    fs = parse_fs(raw)
                    texts = [c for p_, c in fs.items() if b'.snap' in p_]
                    if len(texts) != 1:
                        return 'expected one snapshot file, found %d' % len(texts)
                    if texts[0].count(b'"' + a + b'"') != 2:
                        return 'the string tokens are not stored byte for byte: %r' % texts[0][:120]
                    return None
                w.add('fsdump', ('string-bytes-stored-verbatim', stored))
                worlds.append(w)
    return worlds


def run(ctx):
    run_json_model(ctx)
    run_suite(ctx, 'json.raw-bytes', raw_byte_worlds(), known=None)
    g = Gen(ctx.seed * 1000003 + 14)
    n = 300 if ctx.tier == 'quick' else 8000
    worlds = [make_world(g, 'c14-%d' % i) for i in range(n)]
    worlds += [update_world(g, 'c14-upd-%d' % i) for i in range(60 if ctx.tier == 'quick' else 1500)]
    worlds += sortkeys_pair_worlds()
    run_suite(ctx, 'json.canonical', worlds, known=None, chunk=400)
    findings.report(ctx, 'C14')
