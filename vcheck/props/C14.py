"""C14 - JSON snapshots are canonical and lossless."""
import json, base64, random
import core, findings, docs
from core import World, hx, Line, parse_fs
from gen import Gen, mode_line, cfg_line
from suites import run_suite, parse_snap

LEAN_MODULES = ['GoSnaps.Props.C14', 'GoSnaps.Props.Tie.Flows', 'GoSnaps.Props.Tie.Wrappers']


def gen_value(r, depth=0, simple_numbers=False):
    k = r.random()
    if depth >= 3 or k < 0.4:
        nums = [0, 1, -1, 3.5, 42] if simple_numbers else [0, 1, -1, 3.5, 1e10, 12345678901234567, 0.001, -0.0]
        return r.choice(nums + [True, False, None, '', 'str', 'with "quotes"', 'uni\u00e9', 'tab\there', 'a/b', '---', '[TestA - 1]', 'line\nbreak', '<a & b>', 'x>y', 'C:\\users\\u0026co', '[^\\u003c]+'])
    if k < 0.75:
        keys = r.sample(['a', 'b', 'c', 'id', 'name', 'k.dot', 'sp ace', '\u00fc', 'z', 'A', 'aa'], r.randint(0, 4))
        return {kk: gen_value(r, depth + 1, simple_numbers) for kk in keys}
    return [gen_value(r, depth + 1, simple_numbers) for _ in range(r.randint(0, 3))]


def shuffle_members(r, v):
    if isinstance(v, dict):
        items = [(k, shuffle_members(r, x)) for k, x in v.items()]
        r.shuffle(items)
        return dict(items)
    if isinstance(v, list):
        return [shuffle_members(r, x) for x in v]
    return v


def present(r, v):
    style = r.randrange(4)
    if style == 0:
        return json.dumps(v, ensure_ascii=False)
    if style == 1:
        return json.dumps(v, indent=r.choice([1, 3]), ensure_ascii=False)
    if style == 2:
        return json.dumps(v, separators=(' ,\t\r\n', ' :\n '), ensure_ascii=False)
    return '\n \t' + json.dumps(v, separators=(',', ':'), ensure_ascii=False) + ' \n'


JSONOPTS = ['none', 'none', '0:%s:1' % hx(' '), '20:%s:1' % hx('  '), '80:%s:0' % hx('\t'), '0:%s:0' % hx(' ')]
BAD = ['', '{', '{"a":1,}', '{"a":1}{"b":2}', 'nul', '[1,2', '{"a":"\x01"}', '{a:1}', "{'a':1}", '[1 2]', '{"a" 1}', 'tru']


def make_world(g, tag):
    r = g.r
    w = World(tag)
    opt = r.choice(JSONOPTS)
    sort_on = opt == 'none' or opt.endswith(':1')
    w.add(mode_line(False, ''))
    kind = r.choice(['json', 'json', 'sajson'])
    w.add(cfg_line(1, 'snaps', 'f' if kind == 'json' else None, None, 'none', opt))
    simple = r.random() < 0.4
    v = gen_value(r, 0, simple)
    if not isinstance(v, (dict, list)) and r.random() < 0.7:
        v = {'root': v, 'x': [v]}
    pres = []
    for i in range(r.randint(2, 5)):
        vv = shuffle_members(r, v) if (sort_on and i) else v
        form = r.choice(['s', 'b'])
        if sort_on and simple and isinstance(vv, (dict, list)) and r.random() < 0.3:   # a Go map has no member order: encoding/json sorts
            form = 'v'
        pres.append((present(r, vv), form))
    if any(f == 'v' for _, f in pres):
        # a Go value is stored through its standard JSON encoding, which writes <, > and & as
        # \u003c, \u003e, \u0026: the textual forms of "the same document" use that encoding too
        pres = [(t.replace('<', '\\u003c').replace('>', '\\u003e').replace('&', '\\u0026'), f) for t, f in pres]
    idx = []
    nested = []     # (op index, test name, value) of calls made from inside a matcher of another call
    share = kind == 'json' and r.random() < 0.3
    w.add(cfg_line(2, 'snaps', 'f' if share else 'nested', None, 'none', opt))
    for i, (txt, form) in enumerate(pres, 1):
        w.add('begin %d %s' % (i, hx(b'TestJ%d' % i)))
        ms = []
        if r.random() < (0.6 if form == 'v' else 0.15):
            # a user-defined matcher that itself records a snapshot of ANOTHER Go value (a helper asserting on
            # some other object) while this call is between validation and formatting: a re-entrant call
            nv = r.choice([{'nested': i}, {'nested': i, 'pad': 'p' * r.randint(0, 60)}, [i, 'nested'], gen_value(r, 1, True)])
            if not isinstance(nv, (dict, list)):
                nv = {'nested': nv, 'i': i}
            w.add('begin %d %s' % (100 + i, hx(b'TestNested%d' % i)))
            nested.append((w.add('nest json 2 %d v %s' % (100 + i, hx(json.dumps(nv)))), b'TestNested%d' % i, nv))
            ms.append(docs.user_matcher(r.random() < 0.5, r.random() < 0.3, True))
        elif r.random() < 0.4:
            # inspecting user-defined matchers leave the document alone: the stored text is the same with
            # and without them, and the caller's bytes (indentation, final newline) stay as they were
            ms = [docs.user_matcher(r.random() < 0.5, r.random() < 0.3) for _ in range(r.randint(1, 2))]
        idx.append(w.add('%s 1 %d %s %s%s' % (kind, i, form, hx(txt), ''.join(' ' + m for m in ms))))
        if ms and ms[0].endswith('x'):
            w.add('end %d' % (100 + i))
        w.add('end %d' % i)
    # Go values of NAMED string / byte-slice types (type Status string, net.IP, type Body []byte): they are Go
    # values, so the stored document is their JSON encoding (a string), whatever their content looks like
    named = []
    for k in range(r.randint(0, 2)):
        content = r.choice(['active', '123', '{"b":1,"a":2}', 'true', 'null', '', '[1, 2]', 'say "hi"', ' x ', '1e3', 'a\nb'])
        form = r.choice(['vnstr', 'vnbytes'])
        w.add('begin %d %s' % (95 + k, hx(b'TestNamed%d' % k)))
        named.append((w.add('%s 1 %d %s %s' % (kind, 95 + k, form, hx(content))), k, form, content))
        w.add('end %d' % (95 + k))

    # malformed input: one failure, nothing written
    before = w.add('fsdump')
    bad = r.choice(BAD)
    w.add('begin 90 %s' % hx(b'TestBad'))

    def exp_bad(line, raw, ww):
        if [k for k, _ in line.events] != ['E'] or line.writes or line.removed:
            return 'invalid JSON must fail the test and write nothing, got %r w=%r' % ([(k, x[:30]) for k, x in line.events], line.writes)
        return None
    # (an empty json.RawMessage marshals to `null`: valid)
    w.add('%s 1 90 %s %s' % (kind, r.choice(['s', 'b', 'vraw'] if bad else ['s', 'b']), hx(bad)), ('invalid-json-fails', exp_bad))
    w.add('end 90')

    def oracle(line, raw, ww):
        fs0 = parse_fs(raw)
        for i, k, form, content in named:
            res = Line(ww.impl[i])
            want = content if form == 'vnstr' else base64.b64encode(content.encode()).decode()
            if [e for e, _ in res.events] != ['L']:
                return 'a Go value of a named %s type (%r) was not recorded: %r' % ('string' if form == 'vnstr' else '[]byte', content, [(e, x[:40]) for e, x in res.events])
            if kind == 'json':
                pp = [x for x in fs0 if x.endswith(b'/f.snap')]
                body = dict(parse_snap(fs0[pp[0]]) or []).get(b'TestNamed%d - 1' % k) if pp else None
            else:
                bodies = [fs0[x] for x in fs0 if b'/TestNamed%d_' % k in x]
                body = bodies[0] if bodies else None
            try:
                got = json.loads(body.decode())
            except Exception as e:
                return 'named-type Go value %r stored as %r' % (content, body)
            if got != want:
                return 'named-type Go value %r is stored as %r, not as the JSON string of its content' % (content, body[:60])
        for i in idx:
            if any(k == 'X' for k, _ in Line(ww.impl[i]).events):
                return 'op %d: the []byte passed by the caller was modified by the call (a second use of the same slice would fail)' % i
        fs = parse_fs(raw)
        if parse_fs(ww.impl[before]) != fs:
            return 'invalid JSON changed the directory'
        texts = []
        if kind == 'json':
            p = [x for x in fs if x.endswith(b'/f.snap')]
            ents = parse_snap(fs[p[0]]) if p else []
            if ents is None:
                return 'file not well formed'
            texts = [b for n, b in ents if n.startswith(b'TestJ')]
        else:
            texts = [fs[x] for x in sorted(fs) if b'/TestJ' in x]
        if len(texts) != len(pres):
            return 'expected %d stored documents, found %d' % (len(pres), len(texts))
        if len(set(texts)) != 1:
            return 'presentations of one document (whitespace%s) stored differently: %r' % (', member order' if sort_on else '', [t[:60] for t in set(texts)][:2])
        try:
            got = json.loads(texts[0].decode())
        except Exception as e:
            return 'stored text is not valid JSON: %s' % e
        if got != v:
            return 'stored text parses to a different value'
        if texts[0].endswith(b'\n'):
            return 'stored text keeps the trailing newline'
        # the documents recorded by the nested calls are theirs
        p = [x for x in fs if x.endswith(b'/f.snap' if share else b'/nested.snap')]
        ents = dict(parse_snap(fs[p[0]]) or []) if p else {}
        for _, name, nv in nested:
            body = ents.get(name + b' - 1')
            if body is None:
                return 'the call made from inside a matcher (%s) recorded nothing' % name.decode()
            try:
                if json.loads(body.decode()) != nv:
                    return 'the call made from inside a matcher (%s) recorded a different document' % name.decode()
            except Exception as e:
                return 'the call made from inside a matcher recorded invalid JSON: %s' % e
        return None
    w.add('fsdump', ('canonical-and-lossless', oracle))
    return w


def run(ctx):
    g = Gen(ctx.seed * 1000003 + 14)
    n = 300 if ctx.tier == 'quick' else 8000
    worlds = [make_world(g, 'c14-%d' % i) for i in range(n)]
    run_suite(ctx, 'json.canonical', worlds, known=None, chunk=400)
    findings.report(ctx, 'C14')
