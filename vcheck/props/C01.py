"""C01 - recorded snapshots replay cleanly."""
import core, suites
from core import World
from gen import Call, Gen, mode_line, cfg_line
from suites import gen_history, emit_exec, exp_silent, exp_same_fs, run_suite, gen_nest, emit_nested

LEAN_MODULES = ['GoSnaps.Props.C01', 'GoSnaps.Props.C01World', 'GoSnaps.Props.Tie.Path', 'GoSnaps.Props.Tie.Escape', 'GoSnaps.Props.Tie.Snapshot', 'GoSnaps.Props.Tie.SnapshotIO', 'GoSnaps.Props.Tie.Registry', 'GoSnaps.Props.Tie.Flows', 'GoSnaps.Props.Tie.EndToEnd', 'GoSnaps.Props.Tie.Wrappers']
REPLAY_MODES = [(False, ''), (False, 'true'), (True, ''), (False, 'clean'), (True, 'true')]


def make_spec(g, allow):
    r = g.r
    h = gen_history(g, allow)
    spec = dict(cfgs=h.cfgs, execs=h.execs, flags=set(h.flags), recmode=r.choice(['', '', 'true']),
                modes=r.sample(REPLAY_MODES, 3), pre=[], nest=gen_nest(r, h.execs, 0.3), edit=suites.edit_choice(r, h.execs), count=1 if any(a in allow for a in ('long', 'big', 'many')) else r.choice([1, 1, 1, 2, 3, 3, 4]),
                updround=(r.randrange(1, 1 << 30) if r.random() < 0.3 and not any(a in allow for a in ('long', 'big', 'shadow')) else 0))
    if r.random() < 0.4:
        # the earlier history is recorded once and never replayed, so ITS values may end lines with a
        # carriage return (raw HTTP dumps, CSV): such entries sit EARLIER in the files than the
        # entries that must replay
        pre_cr = r.random() < 0.35
        h0 = gen_history(g, ('nosafn', 'cr', 'crlf') if pre_cr else ('nosafn',), max_tests=2, max_calls=3, ncfg=len(h.cfgs))
        spec['flags'] |= (h0.flags - {'cr'})
        spec['pre'] = [(b'TestPre' + n[4:], c) for n, c in h0.execs]
        if pre_cr:
            spec['flags'].add('pre-cr')
    # the files as a checkout with core.autocrlf leaves them: CR LF (or mixed) line endings.  The
    # scanner drops the CR, so every recorded entry must still replay, and nothing is rewritten
    spec['crlf'] = r.choice(suites.CRLF_MODES) if r.random() < 0.15 and 'cr' not in spec['flags'] and 'pre-cr' not in spec['flags'] and 'long' not in allow and 'big' not in allow else None
    if spec['crlf']:
        spec['flags'].add('crlf-file')
    return spec


def render(tag, spec):
    w = World(tag)
    w.spec, w.render = spec, render
    w.flags |= spec['flags']
    w.add(mode_line(False, spec['recmode']))
    for c in spec['cfgs']:
        w.add(c)
    texec = 0
    rec_idx = {}
    # optional earlier history giving the files pre-existing well-formed content
    if spec['pre']:
        for name, calls in spec['pre']:
            texec += 1
            emit_exec(w, texec, name, calls)
        w.add('reset')
    base = texec

    def rec_call(i, k, cfgno, c, te):
        rec_idx.setdefault(i, []).append(w.add(c.op(cfgno, te)))
    emit_nested(w, spec['execs'], spec.get('nest', {}), lambda i: base + i + 1, rec_call)
    for ei in range(len(spec['execs'])):
        rec_idx.setdefault(ei, [])
    texec = base + len(spec['execs'])
    if spec.get('edit') and not any(c.kind in ('sasnap', 'sajson') for _, calls in spec['pre'] for _, c in calls):
        w.add('fsedit ' + spec['edit'])
    if spec.get('crlf'):
        for op in suites.crlf_ops(spec['cfgs'], spec['crlf']):
            w.add(op)
    repl = {}
    if spec.get('updround'):
        # an updating run in between: some values changed (now and then to a text ending in a newline) and are
        # re-recorded through the UPDATE path; what is replayed afterwards is what that run recorded
        from suites import mutate_call
        g2 = Gen(spec['updround'])
        w.add('reset')
        w.add(mode_line(False, 'true'))
        base3 = texec

        def upd_call(i, k, cfgno, c, te):
            m = None
            if c.kind in ('snap', 'yaml') and g2.r.random() < 0.6:
                m, _ = mutate_call(g2, c)
                if m is not None and c.kind == 'snap' and not isinstance(m.payload, (list, tuple)) and g2.r.random() < 0.5:
                    m = Call('snap', m.payload + b'\n')
            idx = w.add((m or c).op(cfgno, te))
            if m is not None:
                repl[(i, k)] = m
                rec_idx[i][k] = idx
        emit_nested(w, spec['execs'], spec.get('nest', {}), lambda i: base3 + i + 1, upd_call)
        texec = base3 + len(spec['execs'])
    ref = w.add('fsdump')
    for ci, upd in spec['modes']:
        w.add('reset')
        w.add(mode_line(ci, upd))
        base2 = texec

        def rep_call(i, k, cfgno, c, te):
            ri = rec_idx[i][k]

            def exp(line, raw, ww, ri=ri):
                # only calls that were recorded (an `added` log, nothing else) must replay silently
                rec = core.Line(ww.impl[ri])
                if [k for k, _ in rec.events] != ['L']:
                    return None
                return exp_silent(line, raw, ww)
            w.add(repl.get((i, k), c).op(cfgno, te), ('replay-silent', exp))
        # the same calls in the same per-test order; the interleaving of tests is the same too; the whole round
        # once, twice or three times in the SAME process (go test -count=N): every execution of a test
        # addresses the slots 1..n again
        for _rep in range(spec.get('count', 1)):
            emit_nested(w, spec['execs'], spec.get('nest', {}), lambda i: base2 + i + 1, rep_call)
            base2 += len(spec['execs'])
        texec = base2
        allrec = [i for ei in rec_idx for i in rec_idx[ei]]

        def exp_dir(line, raw, ww, ref=ref, allrec=allrec):
            # meaningful only when every call of the recording run was recorded or passed
            for i in allrec:
                if [k for k, _ in core.Line(ww.impl[i]).events] not in (['L'], []):
                    return None
            return exp_same_fs(ref)(line, raw, ww)
        w.add('fsdump', ('directory-unchanged', exp_dir))
    return w


def build_world(g, tag, allow):
    return render(tag, make_spec(g, allow))


def big_file_world(g):
    """one snapshot file of more than 256 KiB holding 320 entries of mixed kinds, recorded and replayed:
    every buffer window of the scanner (4 KiB, 64 KiB) is crossed by some entry"""
    from gen import Call
    calls = []
    for k in range(320):
        body = b'\n'.join(b'entry %03d line %03d %s' % (k, j, b'x' * ((k * 7 + j) % 40)) for j in range(12 + k % 17))
        if k % 3 == 0:
            calls.append((1, Call('snap', body)))
        elif k % 3 == 1:
            calls.append((1, Call('json', ('{"k": %d, "pad": "%s", "list": [%s]}' % (k, 'p' * (200 + k), ', '.join(str(i) for i in range(k % 30)))).encode(), 's')))
        else:
            calls.append((1, Call('yaml', ('k: %d\npad: %s\nitems:\n%s' % (k, 'q' * (150 + k), ''.join('  - item%d\n' % i for i in range(5 + k % 20)))).encode(), 's')))
    spec = dict(cfgs=[cfg_line(1, 'snaps')], execs=[(b'TestBigFile', calls)], flags=set(), recmode='', modes=[(True, ''), (False, 'true')], pre=[], nest={})
    return render('c01-bigfile', spec)


def fixed_worlds():
    """deterministic boundary cases: adjacent terminator lines (each must be escaped on its own), a
    value with CR LF lines recorded EARLIER in the file than the entries that replay, files
    converted to CR LF / mixed line endings after the recording"""
    worlds = []
    http = b'HTTP/1.1 200 OK\r\nContent-Type: text/plain\r\n\r\nhello'
    adj = [Call('snap', [b'---', b'---']), Call('snap', b'---\n---\n---'), Call('snap', b'a\n---\n---\nb'), Call('snap', b'# Title\n\n---\n---\n\ntext\n---'),
           Call('yaml', b'a: 1\n---\n---\nb: 2\n', 's'), Call('yaml', b'---\n---\n', 's'), Call('yaml', b'---\n---\na: 1\n', 'b'),
           Call('snap', b'/-/-/-/\n/-/-/-/'), Call('snap', [b'---', b'/-/-/-/', b'---'])]
    mixed = [Call('snap', b'alpha one'), Call('json', b'{"b": [1, 2, {"c": null}], "a": "x"}', 's'), Call('snap', b'two\nlines\n'),
             Call('yaml', b'k: v\nlist:\n  - 1\n  - two\n', 's'), Call('snap', b''), Call('snap', b'---\nafter')]
    modes = [(True, ''), (False, 'true'), (False, '')]
    worlds.append(render('c01-adjacent-terminators', dict(cfgs=[cfg_line(1, 'snaps')], execs=[(b'TestAdj', [(1, c) for c in adj])], flags=set(), recmode='',
                                                           modes=modes, pre=[], nest={})))
    for i, mode in enumerate([None, 'all', 'odd', 'even']):
        # TestPreAlpha's raw HTTP dump sits before TestBeta's / TestGamma's entries
        worlds.append(render('c01-cr-earlier-%d' % i, dict(cfgs=[cfg_line(1, 'snaps')], execs=[(b'TestBeta', [(1, c) for c in mixed]), (b'TestGamma', [(1, Call('snap', b'gamma'))])],
                                                          flags=set(), recmode='', modes=modes, pre=[(b'TestPreAlpha', [(1, Call('snap', http)), (1, Call('snap', b'x\r\ny'))])] if mode is None else [],
                                                          nest={}, crlf=mode)))
    return worlds


def known(w, p):
    if p['kind'] != 'expect':
        return None
    if 'shadow' in w.flags:
        return 'D9'
    if 'cr' in w.flags:
        return 'SKIP:carriage return at end of line (documented limitation)'
    if 'pct' in w.flags:
        return 'D12'
    return None


def run(ctx):
    g = Gen(ctx.seed * 1000003 + 1)
    n = 150 if ctx.tier == 'quick' else 4000
    worlds = []
    for i in range(n):
        allow = ()
        k = g.r.random()
        if k < 0.10:
            allow = ('shadow',)
        elif k < 0.18:
            allow = ('cr',)
        elif k < 0.30:
            allow = ('many',)
        elif k < 0.36:
            allow = ('long',) if g.r.random() < 0.5 else ('big',)       # a 70 KB / 300 KB line: beyond bufio.MaxScanTokenSize
        elif k < 0.42:
            allow = ('mid',)       # single lines of 4095 ... 12288 bytes: around the default buffer sizes of bufio
        worlds.append(build_world(g, 'c01-%d' % i, allow))
    worlds.append(big_file_world(g))
    worlds += fixed_worlds()
    run_suite(ctx, 'match.replay', worlds, known=known)
    if not ctx.facts.get('bools', {}).get('scannerUnbounded', True):
        # the proof obligation source_scanner_unbounded is broken: search for a line the scanner can
        # no longer read back (implementation only; the model has no limit)
        for size in (70000, 1 << 20, 17 << 20, 80 << 20):
            spec = dict(cfgs=[cfg_line(1, 'snaps')], execs=[(b'TestLongLine', [(1, Call('snap', b'small')), (1, Call('snap', b'L' * size + b'\nnext')), (1, Call('snap', b'after'))])],
                        flags=set(), recmode='', modes=[(True, '')], pre=[], nest={})
            before = len(ctx.violations)
            run_suite(ctx, 'match.replay.long-line-%d' % size, [render('c01-longline-%d' % size, spec)], known=known, use_model=False)
            if len(ctx.violations) > before:
                break
    findings.report(ctx, 'C01')


import findings
