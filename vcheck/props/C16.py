"""C16 - masked fields never influence the snapshot; unmasked fields always do."""
import copy, json
import core, findings
from core import World, hx, Line
from gen import Gen, mode_line, cfg_line
from suites import run_suite, exp_silent, exp_one_error_no_write
import docs

LEAN_MODULES = ['GoSnaps.Props.C16', 'GoSnaps.Props.Tie.Flows', 'GoSnaps.Props.Tie.Matchers']

LEAVES = ['big', 'a', 's', 'o.x', 'o.y.0', 'l.0.k', 'n', 'deep.er.est', 'filter[status]', 'filter.status', 'ids[0]', 'ids.0']
BASE = {'big': 1585369512231022593, 'a': 1, 's': 'str', 'o': {'x': True, 'y': [1, 2]}, 'l': [{'k': 'v'}], 'n': 'nn', 'deep': {'er': {'est': 5}},
        # keys that CONTAIN brackets next to members reachable through the dotted reading of the same text
        'filter[status]': 'open', 'filter': {'status': 'dotted'}, 'ids[0]': 'literal', 'ids': ['element']}
YLEAVES = ['a', 's', 'o.x', 'flag']
YBASE = {'big': 1585369512231022593, 'a': 1, 's': 'str', 'o': {'x': 'xx'}, 'flag': False}


def setp(d, path, v):
    ks = path.split('.')
    cur = d
    for k in ks[:-1]:
        cur = cur[int(k)] if isinstance(cur, list) else cur[k]
    if isinstance(cur, list):
        cur[int(ks[-1])] = v
    else:
        cur[ks[-1]] = v


def yaml_of(d):
    return 'a: %s\ns: %s\no:\n  x: %s\nflag: %s\n' % (d['a'], d['s'], d['o']['x'], str(d['flag']).lower())


NEWVALS = [7, 'changed', 'é', 'x"y', 123456, 'a much longer value than before', '', None, 1585369512231022593, 1585369512231022594, 1.0, False]


def make_world(g, tag):
    r = g.r
    kind = r.choice(['json', 'json', 'yaml', 'sajson'])
    leaves, base = (YLEAVES, YBASE) if kind == 'yaml' else (LEAVES, BASE)
    masked = r.sample(leaves, r.randint(1, 3))
    changed = r.sample(leaves, r.randint(1, 2)) if r.random() < 0.8 else []
    a, b = copy.deepcopy(base), copy.deepcopy(base)
    def getp(d, path):
        cur = d
        for k in path.split('.'):
            cur = cur[int(k)] if isinstance(cur, list) else cur[k]
        return cur
    for p in changed:
        old = getp(b, p)
        cands = [v for v in (NEWVALS if kind != 'yaml' else ['changed', 'other', 'z9'])
                 if not (v == old and type(v) == type(old))]
        setp(b, p, r.choice(cands))
    only_masked = all(p in masked for p in changed)
    if kind == 'yaml':
        ta, tb = yaml_of(a), yaml_of(b)
        if r.random() < 0.4:
            # a second document of the stream; a difference there is never masked
            other = r.choice(['same', 'same', 'changed'])
            ta += '---\nsecond: same\n'
            tb += '---\nsecond: %s\n' % other
            if other == 'changed':
                only_masked = False
        mt = docs.any_matcher(['$.' + p for p in masked], r.choice([None, '"MASK"']))
    else:
        ta, tb = g.json_text(a), g.json_text(b)
        # mix the three matcher kinds over the masked paths
        mts = []
        if r.random() < 0.3:
            # one matcher, several paths, a missing one first, missing paths ignored
            mts.append(docs.any_matcher(['not.there'] + masked, r.choice([None, '"MASK"']), False))
            masked_iter = []
        else:
            masked_iter = masked
        for p in masked_iter:
            k = r.random()
            va, vb = getp(a, p), getp(b, p)
            if k < 0.3 and type(va) == type(vb) and docs.go_type(va) in ('string', 'bool', 'float64'):
                # Type is satisfied by both variants (the value kept its type)
                mts.append(docs.type_matcher([p], docs.go_type(va)))
            elif k < 0.6:
                mts.append(docs.any_matcher([p], r.choice([None, '"é"', '"x\\"y"', '"MASK"', 'null'])))
            else:
                mts.append(docs.custom_matcher(p, True, '"custom placeholder"'))
        mt = ' '.join(mts)
    w = World(tag)
    w.add(mode_line(False, ''))
    w.add(cfg_line(1, 'snaps', None, None, 'none'))
    w.add('begin 1 %s' % hx(b'TestMask'))
    rec = w.add('%s 1 1 s %s %s' % (kind, hx(ta), mt))
    w.add('end 1')
    w.add('reset')
    w.add(mode_line(r.choice([True, False]), ''))
    w.add('begin 2 %s' % hx(b'TestMask'))

    def exp(line, raw, ww):
        if [k for k, _ in Line(ww.impl[rec]).events] != ['L']:
            return 'recording variant A failed: %r' % Line(ww.impl[rec]).events[:1]
        if only_masked:
            m = exp_silent(line, raw, ww)
            return ('variants differing only at masked paths %r must pass against each other: %s' % (changed, m)) if m else None
        m = exp_one_error_no_write(line, raw, ww)
        return ('variants differing at an unmasked path (changed %r, masked %r) must not pass: %s' % (changed, masked, m)) if m else None
    w.add('%s 1 2 s %s %s' % (kind, hx(tb), mt), ('masked-irrelevant-unmasked-relevant', exp))
    w.add('end 2')
    return w


def run(ctx):
    g = Gen(ctx.seed * 1000003 + 16)
    n = 400 if ctx.tier == 'quick' else 10000
    worlds = [make_world(g, 'c16-%d' % i) for i in range(n)]
    run_suite(ctx, 'match.masking', worlds, known=None, chunk=500)
    findings.report(ctx, 'C16')
