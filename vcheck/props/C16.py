"""C16 - masked fields never influence the snapshot; unmasked fields always do."""
import copy, json
import core, findings
from core import World, hx, Line
from gen import Gen, mode_line, cfg_line
import jsonlens
from suites import run_suite, exp_silent, exp_one_error_no_write
import docs

LEAN_MODULES = ['GoSnaps.Props.C16', 'GoSnaps.Props.Tie.Flows', 'GoSnaps.Props.Tie.Matchers',
                'GoSnaps.DriverX', 'GoSnaps.Lemmas.JsonPath', 'GoSnaps.Props.C16Json',
                'GoSnaps.Lemmas.JsonEndToEnd', 'GoSnaps.Props.Tie.JsonEndToEnd', 'GoSnaps.Props.Tie.Wrappers']

LEAVES = ['big', 'a', 's', 'o.x', 'o.y.0', 'l.0.k', 'n', 'deep.er.est', 'filter[status]', 'filter.status', 'ids[0]', 'ids.0', 'nx', 'o.xs', '$.id', 'id']
# leaves whose path TEXT is a prefix of another leaf's path without being an ancestor of it (id / idempotencyKey)
PREFIX_PARTNER = {'n': 'nx', 'o.x': 'o.xs', 'nx': 'n', 'o.xs': 'o.x'}
# containers: masking one masks everything beneath it
CONTAINERS = {'o': ['o.x', 'o.y.0', 'o.xs'], 'deep.er': ['deep.er.est'], 'deep': ['deep.er.est'], 'l.0': ['l.0.k']}
BASE = {'big': 1585369512231022593, 'a': 1, 's': 'str', 'o': {'x': True, 'y': [1, 2], 'xs': 'plural'}, 'l': [{'k': 'v'}], 'n': 'nn', 'nx': 'nnx', 'deep': {'er': {'est': 5}},
        # keys that CONTAIN brackets next to members reachable through the dotted reading of the same text
        'filter[status]': 'open', 'filter': {'status': 'dotted'}, 'ids[0]': 'literal', 'ids': ['element'],
        # a member named `$` (attribute objects of XML converters): `$.id` is the `id` inside it, not the top-level `id`
        '$': {'id': 'inner'}, 'id': 'top'}
YLEAVES = ['a', 's', 'o.x', 'flag', 'log']
YBASE = {'big': 1585369512231022593, 'a': 1, 's': 'str', 'o': {'x': 'xx'}, 'flag': False, 'log': 'line one'}


def setp(d, path, v):
    ks = path.split('.')
    cur = d
    for k in ks[:-1]:
        cur = cur[int(k)] if isinstance(cur, list) else cur[k]
    if isinstance(cur, list):
        cur[int(ks[-1])] = v
    else:
        cur[ks[-1]] = v


def yq(v):
    """a YAML scalar: strings that would read as something else when written bare (digits, true, null, empty,
    `k: v`) are double-quoted, as an encoder writes them and as people write them"""
    if isinstance(v, str) and (v == '' or v.isdigit() or v in ('true', 'false', 'null', '~') or ': ' in v or v[0] in '#[{*&!|>@`%\'"'):
        return json.dumps(v)
    return v


def yaml_of(d, skip=()):
    ls = [('a', 'a: %s' % yq(d['a'])), ('s', 's: %s' % yq(d['s'])), ('o.x', 'o:\n  x: %s' % yq(d['o']['x'])), ('flag', 'flag: %s' % (str(d['flag']).lower() if isinstance(d['flag'], bool) else yq(d['flag'])))]
    out = ''.join(l + '\n' for k, l in ls if k not in skip)
    if 'log' in d and 'log' not in skip:
        # the LAST member is a block scalar that keeps its trailing blank lines (captured output): how many there are
        # is part of its value
        v = str(d['log']) or 'x'
        out += 'log: |+\n  %s\n%s' % (v, '\n' * (len(v) % 3))
    return out


NEWVALS = [7, 'changed', 'é', 'x"y', 123456, 'a much longer value than before', '', None, 1585369512231022593, 1585369512231022594, 1.0, False]


def make_world(g, tag):
    r = g.r
    kind = r.choice(['json', 'json', 'yaml', 'sajson'])
    leaves, base = (YLEAVES, YBASE) if kind == 'yaml' else (LEAVES, BASE)
    masked = r.sample(leaves, r.randint(1, 3))
    hash_path = kind != 'yaml' and 'l.0.k' in masked and r.random() < 0.6       # the same leaf addressed as `l.#.k`
    short_first = False
    if kind != 'yaml':
        for p in list(masked):
            if p in PREFIX_PARTNER and PREFIX_PARTNER[p] not in masked and r.random() < 0.5:
                masked.append(PREFIX_PARTNER[p])
                short_first = r.random() < 0.6
        if r.random() < 0.2:
            # a member and the object around it in one list of masks (a shared list extended per test)
            c = r.choice(sorted(CONTAINERS))
            inner = r.choice(CONTAINERS[c])
            masked = [p for p in masked if p not in (c, inner) and not p.startswith(c + '.')] + ([inner, c] if r.random() < 0.7 else [c])
            hash_path = False

    def covered(p):
        return any(p == m or p.startswith(m + '.') for m in masked)
    changed = r.sample(leaves, r.randint(1, 2)) if r.random() < 0.8 else []
    if r.random() < 0.35:
        # the interesting half of the property: the variants differ at masked paths only
        pool_ = [p for p in leaves if covered(p)]
        changed = r.sample(pool_, r.randint(1, min(3, len(pool_))))
    a, b = copy.deepcopy(base), copy.deepcopy(base)
    def getp(d, path):
        cur = d
        for k in path.split('.'):
            cur = cur[int(k)] if isinstance(cur, list) else cur[k]
        return cur
    NUMERIC_TWINS = {'a': 1.0, 'big': 1585369512231022594, 'o.y.0': 1.0}
    if kind != 'yaml' and r.random() < 0.08:
        # a change that is invisible to a float64 comparison: 1 -> 1.0, or an integer beyond 2^53 by one
        changed = [r.choice(sorted(NUMERIC_TWINS))]
    for p in changed:
        old = getp(b, p)
        if kind != 'yaml' and p in NUMERIC_TWINS and r.random() < 0.5:
            setp(b, p, NUMERIC_TWINS[p])
            continue
        cands = [v for v in (NEWVALS if kind != 'yaml' else ['changed', 'other', 'z9', '482913', 'true', '', 'k: v', 'null'])
                 if not (v == old and type(v) == type(old))]
        setp(b, p, r.choice(cands))
    only_masked = all(covered(p) for p in changed) if kind != 'yaml' else all(p in masked for p in changed)
    if kind == 'yaml':
        ta, tb = yaml_of(a), yaml_of(b)
        if r.random() < 0.4:
            # a second document of the stream; a difference there is never masked
            other = r.choice(['same', 'same', 'changed'])
            # the later document may hold the masked members too: a path is masked wherever it occurs
            extra_a = extra_b = ''
            if r.random() < 0.5:
                keys2 = [p for p in masked if '.' not in p]
                extra_a = ''.join('%s: %s\n' % (k2, yq('doc2 %s' % k2)) for k2 in keys2)
                extra_b = ''.join('%s: %s\n' % (k2, yq('doc2 %s other' % k2 if r.random() < 0.7 else 'doc2 %s' % k2)) for k2 in keys2)
            ta += '---\nsecond: same\n' + extra_a
            tb += '---\nsecond: %s\n' % other + extra_b
            if other == 'changed':
                only_masked = False
        ylenient = r.random() < 0.4
        mt = docs.any_matcher(['$.' + p for p in masked], r.choice([None, '"MASK"']), not ylenient)
        if r.random() < 0.3:
            mt = ' '.join(docs.maybe_wrap(r, [mt], 0.7))
    else:
        ta, tb = g.json_text(a), g.json_text(b)
        # mix the three matcher kinds over the masked paths
        mts = []
        type_visible = []
        if r.random() < 0.35:
            # one matcher, several paths, missing paths ignored; a path that never exists leads, ends or
            # sits in the middle of the list
            paths = list(masked)
            if short_first:
                paths.sort(key=len)
            elif r.random() < 0.3:
                r.shuffle(paths)
            paths.insert(r.randint(0, len(paths)), 'not.there')
            mts.append(docs.any_matcher(paths, r.choice([None, '"MASK"']), False))
            masked_iter = []
        else:
            masked_iter = masked
        for p in masked_iter:
            k = r.random()
            va, vb = getp(a, p), getp(b, p)
            if hash_path and p == 'l.0.k':
                # one path masking a member of EVERY element of the array (gjson multi-match syntax)
                mts.append(docs.any_matcher(['l.#.k'], r.choice([None, '"MASK"']), r.random() < 0.5))
                continue
            if p in CONTAINERS:
                mts.append(docs.any_matcher([p], r.choice([None, '"MASK"'])))
            elif (p in changed and docs.go_type(va) and docs.go_type(vb) and docs.go_type(va) != docs.go_type(vb)
                  and not hash_path and not any(p.startswith(m_ + '.') for m_ in masked if m_ != p) and r.random() < 0.6):
                # match.Type[any] accepts both variants, but its placeholder names the value's OWN type: a value that
                # changed its type (string -> number) is a visible change
                mts.append(docs.type_matcher([p], 'any'))
                type_visible.append(p)
            elif k < 0.3 and type(va) == type(vb) and docs.go_type(va) in ('string', 'bool', 'float64'):
                # Type is satisfied by both variants (the value kept its type)
                mts.append(docs.type_matcher([p], docs.go_type(va)))
            elif k < 0.6:
                mts.append(docs.any_matcher([p], r.choice([None, '"é"', '"x\\"y"', '"MASK"', 'null'])))
            else:
                mts.append(docs.custom_matcher(p, True, '"custom placeholder"'))
        # user-defined matchers: the built-in ones grouped in a composite (which reports success as an
        # empty non-nil slice or as nil), inspecting matchers in between
        mt = ' '.join(docs.maybe_wrap(r, mts, 0.3))
        if type_visible:
            only_masked = False
    w = World(tag)
    w.add(mode_line(False, ''))
    w.add(cfg_line(1, 'snaps', None, None, 'none'))
    fa = fb = 's'
    if kind == 'yaml':
        fa, fb = r.choice(['s', 'b']), r.choice(['s', 'b'])
    else:
        # the three input forms; a Go value goes through float64, which cannot tell the two big integers apart
        # (nor 1 from 1.0: both variants are then passed as Go values or neither is)
        fa, fb = r.choice(['s', 'b']), r.choice(['s', 'b'])
        if 'big' not in changed and not any(isinstance(getp(b, p), float) for p in changed) and r.random() < 0.35:
            fa = fb = 'v'
    if kind != 'yaml' and r.random() < (0.7 if len(mts) == 1 and mts[0].startswith('A;0') else 0.4):
        # the SAME matcher values are first used by another test whose document lacks some of the masked
        # members (an older record, a freshly created object): what they saw there must not matter later
        c = copy.deepcopy(a)
        gone = [p for p in masked if r.random() < 0.6] or [masked[0]]
        for p in gone:
            ks = p.split('.')
            cur = c
            try:
                for k in ks[:-1]:
                    cur = cur[int(k)] if isinstance(cur, list) else cur[k]
                if isinstance(cur, dict):
                    cur.pop(ks[-1], None)
            except (KeyError, IndexError, ValueError, TypeError):
                pass
        w.add('begin 3 %s' % hx(b'TestFresh'))
        w.add('%s 1 3 %s %s %s' % ('json' if kind == 'sajson' and r.random() < 0.5 else kind, r.choice(['s', 'b']), hx(g.json_text(c)), mt))
        w.add('end 3')
    if kind == 'yaml' and ylenient and len(masked) > 1:
        # YAML: the same lenient matcher value first sees a document without some of its paths
        gone = [p for p in masked[:-1] if r.random() < 0.7] or [masked[0]]
        w.add('begin 3 %s' % hx(b'TestFresh'))
        w.add('yaml 1 3 %s %s %s' % (r.choice(['s', 'b']), hx(yaml_of(a, gone)), mt))
        w.add('end 3')
    w.add('begin 1 %s' % hx(b'TestMask'))
    if kind != 'yaml' and fa == 'v' and r.random() < 0.6:
        # while variant A (a Go value) is between marshalling and storing, a user-defined matcher of the call records
        # a snapshot of ANOTHER Go value in another test (the sequential image of two parallel MatchJSON calls):
        # what is stored for A is A's document
        w.add('begin 7 %s' % hx(b'TestOtherValue'))
        w.add('nest json 1 7 v %s' % hx(json.dumps({'user': 'bob', 'other': [3, 2, 1], 'pad': 'p' * r.randint(0, 300)})))
        rec = w.add('%s 1 1 %s %s %s %s' % (kind, fa, hx(ta), docs.user_matcher(r.random() < 0.5, False, True), mt))
        w.add('end 7')
    else:
        rec = w.add('%s 1 1 %s %s %s' % (kind, fa, hx(ta), mt))
    w.add('end 1')
    w.add('reset')
    w.add(mode_line(r.choice([True, False]), ''))
    w.add('begin 2 %s' % hx(b'TestMask'))

    def exp(line, raw, ww):
        if [k for k, _ in Line(ww.impl[rec]).events] != ['L']:
            return 'recording variant A failed: %r' % Line(ww.impl[rec]).events[:1]
        if only_masked:
            m = exp_silent(line, raw, ww)
            return ('variants differing only at masked paths %r must pass against each other: %s' % (changed, m)) if m else None
        m = exp_one_error_no_write(line, raw, ww)
        return ('variants differing at an unmasked path (changed %r, masked %r) must not pass: %s' % (changed, masked, m)) if m else None
    w.add('%s 1 2 %s %s %s' % (kind, fb, hx(tb), mt), ('masked-irrelevant-unmasked-relevant', exp))
    w.add('end 2')
    return w


def escaped_key_worlds():
    """a member name that the document writes with a JSON escape (`"caf\\u00e9"`, `"R\\u0026D"` - what encoding/json
    and many producers emit) and that the mask names plainly (`café`, `R&D`): the mask applies - two documents that
    differ only there store the same snapshot, also with ErrOnMissingPath(false) - and a difference elsewhere is
    still reported"""
    worlds = []
    k = 0
    for name, esc_name in (('caf\u00e9', 'caf\\u00e9'), ('R&D', 'R\\u0026D'), ('a<b', 'a\\u003cb')):
        for kind in ('json', 'sajson'):
            for eom in (True, False):
                for mk in ('any', 'type', 'custom'):
                    k += 1
                    da = '{"id": 1, "%s": "first value", "z": "end"}' % esc_name
                    db = '{"id": 1, "%s": "second value", "z": "end"}' % esc_name
                    dc = '{"id": 2, "%s": "first value", "z": "end"}' % esc_name
                    mt = {'any': docs.any_matcher([name], None, eom), 'type': docs.type_matcher([name], 'string', eom),
                          'custom': docs.custom_matcher(name, True, '"custom placeholder"', eom)}[mk]
                    w = World('c16-esckey-%d' % k)
                    w.add(mode_line(False, ''))
                    w.add(cfg_line(1, 'snaps', None, None, 'none'))
                    w.add('begin 1 %s' % hx(b'TestEscKey'))
                    rec = w.add('%s 1 1 s %s %s' % (kind, hx(da), mt))
                    w.add('end 1')
                    w.add(mode_line(True, ''))

                    def cond(f, rec=rec):
                        def g_(line, raw, ww):
                            if [e for e, _ in Line(ww.impl[rec]).events] != ['L']:
                                return 'the document with the escaped member name was not recorded: %r' % [(e, x[:60]) for e, x in Line(ww.impl[rec]).events]
                            return f(line, raw, ww)
                        return g_
                    w.add('begin 2 %s' % hx(b'TestEscKey'))
                    w.add('%s 1 2 s %s %s' % (kind, hx(db), mt), ('masked-member-with-escaped-name-is-irrelevant', cond(exp_silent)))
                    w.add('end 2')
                    w.add('begin 3 %s' % hx(b'TestEscKey'))
                    w.add('%s 1 3 s %s %s' % (kind, hx(dc), mt), ('unmasked-member-still-relevant', cond(exp_one_error_no_write)))
                    w.add('end 3')
                    worlds.append(w)
    return worlds


def run(ctx):
    jsonlens.run_json_lens(ctx)
    g = Gen(ctx.seed * 1000003 + 16)
    docs.STYLE = g.r
    n = 400 if ctx.tier == 'quick' else 10000
    worlds = [make_world(g, 'c16-%d' % i) for i in range(n)]
    worlds += escaped_key_worlds()
    run_suite(ctx, 'match.masking', worlds, known=None, chunk=500)
    findings.report(ctx, 'C16')
