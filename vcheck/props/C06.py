"""C06 - parallel tests that share a snapshot file are serialisable (schedule explorer)."""
import itertools, json, os, re, subprocess
import core, findings
from gen import Gen

LEAN_MODULES = ['GoSnaps.Props.C06', 'GoSnaps.Props.C06Refine', 'GoSnaps.Props.Tie.SnapshotIO', 'GoSnaps.Props.Tie.Registry']
EVIDENCE = dict(rule='every interleaving (stateless DFS with re-execution, at the granularity read / append / lock+read / truncate / write) of the yieldified real code for 2 threads x 1 call over all ordered pairs of {create, match, mismatch, update, create-forbidden} (quick) and 2 threads x 2 calls, 3 threads x 1-2 calls (thorough); each executed schedule is replayed on the Lean model (same lock discipline, read from the source) and checked against the serial semantics; non-trivial = distinct (world, schedule, result)')

KINDS = ['create', 'match', 'mismatch', 'update', 'forbidden']


def build(ctx):
    exe = core.BUILD + '/yieldify'
    rc, out = core.sh('go build -o %s .' % exe, cwd=core.ROOT + '/tools/yieldify')
    if rc != 0:
        ctx.add_obl('B.yieldify-builds', False, out)
        return None
    ysrc = os.path.join(ctx.tmp, 'snapshot_yield.go')
    rc, out = core.sh([exe, core.REPO + '/snaps/snapshot.go', ysrc])
    if rc != 0:
        ctx.add_obl('B.yieldify', False, 'the yield-point rewriter could not process snaps/snapshot.go:\n' + out)
        return None
    ctx.notes.append(out.strip())
    ov = os.path.join(ctx.tmp, 'sched.overlay.json')
    rep = {core.REPO + '/snaps/snapshot.go': ysrc,
           core.REPO + '/snaps/zz_verif_sched.go': core.ROOT + '/harness/sched/sched.go',
           core.REPO + '/snaps/zz_verif_sched_test.go': core.ROOT + '/harness/sched/sched_test.go'}
    json.dump({'Replace': rep}, open(ov, 'w'))
    binp = os.path.join(ctx.tmp, 'sched.test')
    rc, out = core.sh(['go', 'test', '-c', '-vet=off', '-tags', 'verifsched', '-overlay', ov, '-o', binp, './snaps'], cwd=core.REPO)
    ok = rc == 0 and os.path.exists(binp)
    ctx.add_obl('B.sched-harness-builds', ok, '' if ok else out[-3000:])
    return binp if ok else None


def world(kinds_per_thread, interleave=False):
    """kinds_per_thread: list (per thread) of lists of call kinds -> (init string, progs string, description);
    interleave: the pre-existing entries lie in the file as a parallel recording run leaves them (A1, B1, A2, ...)
    instead of test by test"""
    init, progs = [], []
    for ti, kinds in enumerate(kinds_per_thread):
        calls = []
        for k, kind in enumerate(kinds, 1):
            slot = ti * 100 + k
            val = 10 * (ti + 1) + k
            if kind == 'create':
                calls.append((slot, val, 1, 0))
            elif kind == 'forbidden':
                calls.append((slot, val, 0, 0))
            elif kind == 'match':
                init.append((slot, val))
                calls.append((slot, val, 1, 0))
            elif kind == 'mismatch':
                init.append((slot, val + 500))
                calls.append((slot, val, 1, 0))
            elif kind == 'update':
                init.append((slot, val + 500))
                calls.append((slot, val, 1, 1))
        progs.append(calls)
    if interleave:
        init.sort(key=lambda e: (e[0] % 100, e[0] // 100))
    init_s = ','.join('%d:%d' % e for e in init) or '-'
    progs_s = ';'.join(','.join('%d:%d:%d:%d' % c for c in p) or '-' for p in progs)
    return init_s, progs_s, init, progs


def serial(init, progs):
    """reference semantics: outcomes per thread and the slot -> value map after all threads"""
    f = dict(init)
    order = [s for s, _ in init]
    outs = []
    for p in progs:
        o = ''
        for slot, val, cc, cu in p:
            if slot not in f:
                if cc:
                    f[slot] = val
                    order.append(slot)
                    o += 'a'
                else:
                    o += 'f'
            elif f[slot] == val:
                o += 'p'
            elif cu:
                f[slot] = val
                o += 'u'
            else:
                o += 'f'
        outs.append(o)
    return outs, f


def check_run(init, progs, file_s, outs_s):
    want_outs, want_f = serial(init, progs)
    outs = outs_s.split(';')
    if outs != want_outs:
        return 'outcomes %r differ from the serial outcomes %r' % (outs, want_outs)
    ents = [e.split(':') for e in file_s.split(',') if e]
    slots = [int(e[0]) for e in ents]
    if len(set(slots)) != len(slots):
        return 'duplicated entry in the final file: %r' % slots
    got = {}
    for s, v in ents:
        if not v.isdigit():
            return 'torn or malformed entry for slot %s' % s
        got[int(s)] = int(v)
    if got != want_f:
        lost = sorted(set(want_f) - set(got))
        return 'final file %r, serial execution gives %r%s' % (got, want_f, (' (lost: %r)' % lost) if lost else '')
    init_slots = [s for s, _ in init]
    if slots[:len(init_slots)] != init_slots:
        return 'pre-existing entries were reordered or dropped: %r' % slots
    return None


def run(ctx):
    binp = explore(ctx)
    if not binp:
        return
    tail(ctx, binp)


def explore(ctx, subset=None):
    """every schedule of the listed worlds on the instrumented implementation, judged against the serial semantics
    and replayed on the Lean Conc model; subset: a short list of worlds (for other properties that speak about
    concurrently running tests)"""
    binp = build(ctx)
    if not binp:
        return None
    worlds = []
    for a, b in (subset if subset is not None else itertools.product(KINDS, repeat=2)):
        worlds.append([[a], [b]])
    if subset is not None:
        pass
    elif ctx.tier == 'thorough':
        for a, b, c, d in itertools.product(['create', 'match', 'update', 'mismatch'], repeat=4):
            worlds.append([[a, b], [c, d]])
        for a, b, c in itertools.product(['create', 'update', 'match'], repeat=3):
            worlds.append([[a], [b], [c]])
        g = Gen(ctx.seed * 1000003 + 6)
        for _ in range(60):
            worlds.append([[g.r.choice(KINDS) for _ in range(g.r.randint(1, 2))] for _ in range(3)])
    else:
        worlds += [[['create', 'update'], ['update', 'create']], [['update'], ['create'], ['match']],
                   [['match'], ['create', 'create']], [['create', 'create'], ['match']], [['update', 'match'], ['match', 'update']]]
    ops, meta = [], {}
    for w in worlds:
        i_s, p_s, init, progs = world(w)
        ops.append('conc %s %s all' % (i_s, p_s))
        meta[(i_s, p_s)] = (init, progs, w)
    # files recorded by an earlier PARALLEL run: the entries of the tests are interleaved (A1, B1, A2, B2)
    for w in [[['match', 'match'], ['match', 'match']], [['match', 'update'], ['update', 'match']], [['match', 'match', 'create'], ['mismatch', 'match']]]:
        i_s, p_s, init, progs = world(w, interleave=True)
        ops.append('conc %s %s all' % (i_s, p_s))
        meta[(i_s, p_s)] = (init, progs, w)
    rc, lines, tail_ = core.run_raw(ctx, binp, 'TestVerifSched', ops, env={'VERIF_MAXRUNS': '4000' if ctx.tier == 'quick' else '60000'}, timeout=3000)
    if rc != 0:
        ctx.add_obl('B.corr conc', False, 'schedule explorer failed: exit %s\n%s' % (rc, tail_))
        return None
    runs = [l for l in lines if l.startswith('run ')]
    st = ctx.stats['suites'].setdefault('conc.explore', dict(worlds=len(worlds), schedules=len(runs), oracle_fail=0, corr_mismatch=0, known_D4=0))
    ctx.stats['evaluations'] += len(runs)
    # model replay of every executed schedule
    mops = []
    parsed = []
    for l in runs:
        m = re.match(r'run (\S+) (\S+) sched=(\S*) file=(\S*) outs=(\S*)$', l)
        parsed.append(m.groups())
        mops.append('conc %s %s %s' % (m.group(1), m.group(2), m.group(3) or '-'))
    model = None
    if ctx.model:
        mrc, model = core.run_model(ctx, '\n'.join(mops) + '\n')
        if mrc != 0 or len(model) != len(mops):
            ctx.add_obl('B.corr conc', False, 'model driver failed on the schedules')
            model = None
    from suites import LISTED
    corr_bad = 0
    for k, (i_s, p_s, sched, file_s, outs_s) in enumerate(parsed):
        init, progs, w = meta[(i_s, p_s)]
        ctx.stats['nontrivial'].add('%s|%s|%s|%s|%s' % (i_s, p_s, sched, file_s, outs_s))
        msg = check_run(init, progs, file_s, outs_s)
        if msg:
            st['oracle_fail'] += 1
            # class D4: an `added` entry is missing although every outcome is the serial one
            want_outs, want_f = serial(init, progs)
            lost_only = outs_s.split(';') == want_outs and 'lost' in msg
            if lost_only and 'D4' in LISTED(ctx.prop):
                st['known_D4'] += 1
                ctx.known_hits['D4'] = ctx.known_hits.get('D4', 0) + 1
            elif len([v for v in ctx.violations if v[2]]) < 5:
                path = core.write_replay(ctx, 'schedule breaks serialisability: ' + msg, ['conc %s %s %s' % (i_s, p_s, sched)],
                                         'threads %r\nschedule %s\nfinal file %s outcomes %s' % (w, sched, file_s, outs_s), None, dict(kind='conc'))
                ctx.violations.append(('conc ' + msg, path, True))
        if model is not None:
            want = 'conc file=%s outs=%s' % (file_s, outs_s)
            if model[k] != want:
                corr_bad += 1
                if corr_bad == 1:
                    path = core.write_replay(ctx, 'schedule explorer: model and implementation disagree', [mops[k]],
                                             'impl : %s\nmodel: %s' % (want, model[k]), None, dict(kind='conc'))
                    ctx.add_obl('B.corr conc', False, 'schedule %s\n impl : %s\n model: %s\nreplay: %s' % (mops[k], want, model[k], path))
                    ctx.violations.append(('corr conc', path, False))
            else:
                ctx.stats['traces'] += 1
    st['corr_mismatch'] = corr_bad
    if model is not None and corr_bad == 0:
        ctx.add_obl('B.corr conc', True)
    if any(v[2] for v in ctx.violations):
        ctx.violations = [v for v in ctx.violations if v[2]] + [v for v in ctx.violations if not v[2] and not v[0].startswith('corr')]
    for l in runs[:3]:
        ctx.stats['samples'].append(l[:200])
    return binp


def tail(ctx, binp):
    from suites import LISTED
    # the instance of the serialisability theorem for the lock discipline found in the source
    locks = ctx.facts.get('locks', {}) if hasattr(ctx, 'facts') else {}
    all_locked = locks.get('getPrevSnapshot') == ['R'] and locks.get('addNewSnapshot') == ['W'] and locks.get('updateSnapshot') == ['W']
    ctx.add_obl('A.locks allLocked (serialisable_of_allLocked applies)', all_locked or 'D4' in LISTED(ctx.prop),
                'lock facts read from the source: %r - the serialisability theorem needs read lock on getPrevSnapshot and write locks on addNewSnapshot and updateSnapshot' % locks)
    # regression of fixed schedule findings: replay each listed schedule
    for k in core.load_known():
        if k.get('property') != 'C06' or 'witness' not in k:
            continue
        wit = core.ROOT + '/' + k['witness']
        lines_ = [l.strip() for l in open(wit) if l.startswith('conc ')]
        if not lines_:
            continue
        rc2, out2, _ = core.run_raw(ctx, binp, 'TestVerifSched', lines_)
        for l in out2:
            m = re.match(r'run (\S+) (\S+) sched=(\S*) file=(\S*) outs=(\S*)$', l)
            if not m:
                continue
            i_s, p_s = m.group(1), m.group(2)
            init = [tuple(int(x) for x in e.split(':')) for e in i_s.split(',')] if i_s != '-' else []
            progs = [[tuple(int(x) for x in c.split(':')) for c in th.split(',')] if th != '-' else [] for th in p_s.split(';')]
            msg = check_run(init, progs, m.group(4), m.group(5))
            if msg and k['kind'] == 'fixed':
                ctx.violations.append(('regression of fixed finding %s: %s' % (k.get('id'), msg), wit, True))
            elif msg and k['kind'] == 'known':
                ctx.known_lines.append('KNOWN-FINDING: property=C06 %s %s' % (k.get('id', ''), k['what']))
    core.race_stress(ctx, 3 if ctx.tier == 'quick' else 25)
    findings.report(ctx, 'C06')
