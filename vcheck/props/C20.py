"""C20 - every call has exactly one outcome and the summary adds up."""
import re
import itertools
import core, suites, findings
from core import World, Line
from gen import Gen, mode_line
from suites import gen_history, emit_exec, run_suite, mutate_call

LEAN_MODULES = ['GoSnaps.Props.C20', 'GoSnaps.Props.C20Summary', 'GoSnaps.Props.Tie.SnapshotIO', 'GoSnaps.Props.Tie.CleanIO', 'GoSnaps.Props.Tie.Flows', 'GoSnaps.Props.Tie.CleanTopIO1', 'GoSnaps.Props.Tie.CleanTopIO2', 'GoSnaps.Props.Tie.CleanTopIO3', 'GoSnaps.Props.Tie.CleanTopIO', 'GoSnaps.Props.Tie.Wrappers']


def make_spec(g, allow):
    r = g.r
    h = gen_history(g, allow + ('badjson', 'badyaml', 'badmatch'), max_tests=4, max_calls=6)
    second = []
    for name, calls in h.execs:
        cs = []
        for cfgno, c in calls:
            if r.random() < 0.4:
                m, _ = mutate_call(g, c)
                cs.append((cfgno, m or c))
            else:
                cs.append((cfgno, c))
        second.append((name, cs))
    return dict(cfgs=h.cfgs, execs=h.execs, second=second, flags=set(h.flags), orphan=r.random() < 0.5,
                mode2=r.choice([(False, ''), (False, 'true'), (True, ''), (False, 'clean')]),
                skips=r.randint(0, 4), skip_names=skip_sequence(r), sort=r.choice(['-', '0', '1']), count=r.choice([1, 1, 2, 3]))


# Tests that call snaps.Skip*: every CALL counts, whoever made it and whatever was skipped before -
# the same test again (-count=N), a subtest after its parent (parallel subtests resume after the parent
# returned; or -count=2: run 1 skips the parent after its children, run 2 skips the children again), a
# parent after its subtests, names that merely extend another (`TestS0` / `TestS01`, `x` / `x#01`)
SKIP_FAMILY = [b'TestSkipped0', b'TestSkipped0/child', b'TestSkipped0/child/deep', b'TestSkipped0/child#01', b'TestSkipped0/other',
               b'TestSkipped01', b'TestSkipped1', b'TestSkipped1/sub', b'TestSkipped', b'TestSkipped/0']


def skip_sequence(r):
    k = r.random()
    if k < 0.25:
        return None                     # the two names of the older worlds, alternating
    if k < 0.5:
        # a parent, then its descendants (and the whole round once more)
        fam = [n for n in SKIP_FAMILY if n == b'TestSkipped0' or n.startswith(b'TestSkipped0/')]
        seq = fam[:r.randint(2, len(fam))]
        return seq * r.choice([1, 1, 2])
    if k < 0.7:
        # children first, the parent last; then the next round skips the children again
        seq = [b'TestSkipped1/sub', b'TestSkipped0/child/deep', b'TestSkipped0/child', b'TestSkipped0', b'TestSkipped1']
        return seq * r.choice([1, 2, 3])
    return [r.choice(SKIP_FAMILY) for _ in range(r.randint(1, 8))]


def classify(line):
    ev = [(k, v) for k, v in line.events]
    if ev == []:
        return 'passed'
    if len(ev) == 1 and ev[0][0] == 'L' and ev[0][1].endswith(b'Snapshot added'):
        return 'added'
    if len(ev) == 1 and ev[0][0] == 'L' and ev[0][1].endswith(b'Snapshot updated'):
        return 'updated'
    if len(ev) == 1 and ev[0][0] == 'E':
        return 'failed'
    return None


def render(tag, spec):
    w = World(tag)
    w.spec, w.render = spec, render
    w.flags |= spec['flags']
    w.add(mode_line(False, ''))
    for c in spec['cfgs']:
        w.add(c)
    if spec.get('orphan'):
        # an obsolete file in the first snapshot directory: the summary must list it
        d = core.unhx(spec['cfgs'][0].split()[2]).decode()
        w.add('fsput %s %s' % (core.hx(d + '/orphan_file.snap'), core.hx(b'\n[TestOrphan - 1]\nx\n---\n')))
    texec = 0
    call_idx = []
    ci, upd = spec['mode2']
    # go test -count=N: the whole round N times in one process (the first execution records, later ones mostly
    # pass): every call still has one outcome, and the summary shows the totals of the process
    for _rep in range(spec.get('count', 1)):
        if _rep:
            w.add(mode_line(False, ''))
        for name, calls in spec['execs']:
            texec += 1
            call_idx += emit_exec(w, texec, name, calls)
        w.add(mode_line(ci, upd))
        for name, calls in spec['second']:
            texec += 1
            call_idx += emit_exec(w, texec, name, calls)
    names = spec.get('skip_names')
    if names is None:
        names = [b'TestSkipped%d' % (s % 2) for s in range(spec['skips'])]
    nskips = len(names)
    for s, nm in enumerate(names):
        texec += 1
        # the same test may be skipped more than once in a process (-count=N): every call counts
        w.add('begin %d %s' % (texec, core.hx(nm)))
        w.add('skip %d %s' % (texec, ['skip', 'skipf', 'skipnow'][s % 3]))

    def oracle(line, raw, ww):
        tally = dict(passed=0, added=0, updated=0, failed=0)
        for i in call_idx:
            t = ww.ops[i].split()
            if t[0] == 'snap' and len(t) == 3:
                continue
            c = classify(Line(ww.impl[i]))
            if c is None:
                return 'op %d: not exactly one outcome: %r' % (i, [(k, v[:40]) for k, v in Line(ww.impl[i]).events])
            tally[c] += 1
        m = re.match(r'events e=(\d+) a=(\d+) u=(\d+) p=(\d+) s=(\d+)', raw)
        got = dict(failed=int(m.group(1)), added=int(m.group(2)), updated=int(m.group(3)), passed=int(m.group(4)))
        if got != tally or int(m.group(5)) != nskips:
            return 'counters %r skipped=%s, outcomes tallied from the test log %r, snaps.Skip* calls=%d' % (got, m.group(5), tally, nskips)
        ww.meta['tally'] = tally
        return None
    w.add('events', ('counters-equal-outcomes', oracle))
    ref_fs = w.add('fsdump')

    def oracle_sum(line, raw, ww):
        tally = ww.meta.get('tally')
        if tally is None:
            return None
        text = line.out.decode('utf-8', 'replace')
        nums = {}
        for verb in ('passed', 'failed', 'added', 'updated', 'skipped'):
            mm = re.search(r'(\d+) snapshots? %s\n' % verb, text)
            nums[verb] = int(mm.group(1)) if mm else 0
        want = dict(tally, skipped=nskips)
        if nums != want:
            return 'summary shows %r, outcomes were %r' % (nums, want)
        if sum(want.values()) == 0 and 'Snapshot Summary' in text and 'obsolete' not in text and 'removed' not in text:
            return 'summary printed with nothing to report'
        d0 = core.unhx(spec['cfgs'][0].split()[2]).decode()
        addressed_first_dir = any(core.unhx(spec['cfgs'][cfgno - 1].split()[2]).decode() == d0 and
                                  [k for k, _ in Line(ww.impl[i]).events] in ([], ['L'])
                                  for i in call_idx for cfgno in [int(ww.ops[i].split()[1])])
        # every snapshot TEST the summary calls obsolete is an entry of some snapshot file (a line of a stored value
        # that merely looks like a header is not an item)
        from suites import parse_snap
        headers = set()
        for pth, content in core.parse_fs(ww.impl[ref_fs]).items():
            for tid, _ in (parse_snap(content) or []):
                headers.add(tid)
        sect = re.search(r'snapshot tests? (?:obsolete|removed)\n((?:.*\n)*?)(?:\n|$)', text)
        if sect:
            for row in sect.group(1).split('\n'):
                mm = re.search(r'• (.*)$', row)
                if mm and mm.group(1).encode('utf-8', 'surrogateescape') not in headers and not any(h.decode('utf-8', 'replace') == mm.group(1) for h in headers):
                    return 'the summary lists the obsolete test %r: no snapshot file has such an entry' % mm.group(1)
        if spec.get('orphan') and addressed_first_dir and 'orphan_file.snap' not in text:
            return 'the summary does not list the obsolete file orphan_file.snap that Clean judged obsolete'
        if spec.get('orphan') and addressed_first_dir:
            # it is the only obsolete file of the world: one row, and a header that counts one
            if text.count('orphan_file.snap\n') != 1 or not re.search(r'(?m)^\S* ?1 snapshot file (obsolete|removed)$', text):
                return 'one obsolete file (orphan_file.snap): the summary must list it once under a header counting 1 file, got %r' % text[:400]
        return None
    w.add('clean %s - %d' % (spec['sort'], spec.get('count', 1)), ('summary-equals-outcomes', oracle_sum))

    def oracle_sum2(line, raw, ww):
        # Clean called again in the same process (a TestMain that cleans twice, a helper that calls it per package):
        # the outcomes of the run are what they were
        tally = ww.meta.get('tally')
        if tally is None:
            return None
        text = line.out.decode('utf-8', 'replace')
        nums = {}
        for verb in ('passed', 'failed', 'added', 'updated', 'skipped'):
            mm = re.search(r'(\d+) snapshots? %s\n' % verb, text)
            nums[verb] = int(mm.group(1)) if mm else 0
        want = dict(tally, skipped=nskips)
        if nums != want:
            return 'the summary of a second Clean shows %r, outcomes were %r' % (nums, want)
        return None
    w.add('clean %s - %d' % (spec['sort'], spec.get('count', 1)), ('second-summary-equals-outcomes', oracle_sum2))
    return w


def known(w, p):
    return None


def run(ctx):
    g = Gen(ctx.seed * 1000003 + 20)
    n = 150 if ctx.tier == 'quick' else 4000
    worlds = [render('c20-%d' % i, make_spec(g, ('nosafn',))) for i in range(n)]
    # skip sequences at the boundary: parent then child, child then parent, a second round (-count=2),
    # names that extend one another without being related
    for k, seq in enumerate([[b'TestSkipped0', b'TestSkipped0/child'], [b'TestSkipped0/child', b'TestSkipped0'],
                             [b'TestSkipped0/child', b'TestSkipped0', b'TestSkipped0/child', b'TestSkipped0'],
                             [b'TestSkipped0', b'TestSkipped0/child', b'TestSkipped0/child/deep', b'TestSkipped0/child#01'],
                             [b'TestSkipped', b'TestSkipped0', b'TestSkipped01', b'TestSkipped/0'], [b'TestSkipped0'] * 5]):
        sp = make_spec(g, ('nosafn',))
        sp['skip_names'] = seq
        worlds.append(render('c20-skipseq-%d' % k, sp))
    run_suite(ctx, 'match.outcomes', worlds, known=known, chunk=200)
    # a snapshot that cannot be written (its directory lies under a regular file): still exactly one
    # outcome - one failure - per call.  No model: OS error texts are not modelled.
    io = []
    for i in range(12 if ctx.tier == 'quick' else 200):
        w = World('c20io-%d' % i)
        w.add(mode_line(False, g.r.choice(['', 'true'])))
        w.add('fsput %s %s' % (core.hx('blocker'), core.hx(b'i am a file')))
        w.add('cfg 1 %s - - none none' % core.hx('blocker/__snapshots__'))
        w.add('begin 1 %s' % core.hx(b'TestIO'))
        idx = []
        for k in range(g.r.randint(1, 4)):
            kind = g.r.choice(['snap', 'json', 'yaml', 'sasnap', 'sajson'])
            if kind in ('snap', 'sasnap'):
                idx.append(w.add('%s 1 1 %s' % (kind, core.hx(b'v%d' % k))))
            elif kind == 'yaml':
                idx.append(w.add('yaml 1 1 s %s' % core.hx(b'a: %d\n' % k)))
            else:
                idx.append(w.add('%s 1 1 s %s' % (kind, core.hx(b'{"a":%d}' % k))))
        w.add('end 1')

        def exp(line, raw, ww, idx=idx):
            import re as _re
            for j in idx:
                ev = Line(ww.impl[j]).events
                if [k for k, _ in ev] != ['E']:
                    return 'op %d: a call whose snapshot cannot be written must report exactly one failure, got %r' % (j, [(k, v[:40]) for k, v in ev])
            m = _re.match(r'events e=(\d+) a=(\d+) u=(\d+) p=(\d+)', raw)
            if (int(m.group(1)), int(m.group(2)), int(m.group(3)), int(m.group(4))) != (len(idx), 0, 0, 0):
                return 'counters %s for %d failed calls' % (raw, len(idx))
            return None
        w.add('events', ('io-error-one-outcome', exp))
        io.append(w)
    # a write that fails when the snapshot is being stored (disk full, quota: the call runs with RLIMIT_FSIZE 0):
    # one failure, no `added` / `updated`, the counters and the summary say so
    for i, (kind, state) in enumerate(itertools.product(['snap', 'json', 'yaml', 'sasnap', 'sajson'], ['new', 'second', 'update'])):
        w = World('c20full-%d' % i)
        w.add(mode_line(False, 'true' if state == 'update' else ''))
        w.add('cfg 1 %s - - none none' % core.hx('snaps'))
        w.add('begin 1 %s' % core.hx(b'TestFull'))

        def callop(v, kind=kind):
            if kind in ('snap', 'sasnap'):
                return '%s 1 1 %s' % (kind, core.hx(b'value %d' % v))
            if kind == 'yaml':
                return 'yaml 1 1 s %s' % core.hx(b'a: %d\n' % v)
            return '%s 1 1 s %s' % (kind, core.hx(b'{"a":%d}' % v))
        ok = 0
        if state in ('second', 'update'):
            w.add(callop(1))
            ok = 1
        if state == 'update':
            w.add('end 1')
            w.add('begin 1 %s' % core.hx(b'TestFull'))
        w.add('fslimit')
        j = w.add(callop(2 if state != 'new' else 1))
        w.add('end 1')

        def expf(line, raw, ww, j=j, ok=ok):
            import re as _re
            ev = Line(ww.impl[j]).events
            if [k for k, _ in ev] != ['E']:
                return 'the call whose snapshot could not be written must report exactly one failure, got %r' % [(k, v[:40]) for k, v in ev]
            m = _re.match(r'events e=(\d+) a=(\d+) u=(\d+) p=(\d+)', raw)
            if (int(m.group(1)), int(m.group(2)) + int(m.group(3))) != (1, ok):
                return 'counters %s: expected one failure and %d recorded snapshot(s)' % (raw, ok)
            return None
        w.add('events', ('write-error-one-outcome', expf))
        io.append(w)
    run_suite(ctx, 'match.io-errors', io, known=known, use_model=False)
    import cleanworlds as cw
    bigs = [cw.render('c20-big-%d' % k, cw.big_clean_spec(g, mode, srt), [('summary-lists-exactly-the-obsolete-items', cw.o_stale_reported)])
            for k, (mode, srt) in enumerate([((False, ''), '-'), ((False, 'clean'), '1')])]
    run_suite(ctx, 'clean.big-file-summary', bigs, known=known)
    # the same obsolete id in TWO used files, the same obsolete file name in two directories: the
    # summary lists every item Clean judged obsolete, one row each, and the header counts the rows
    dups = []
    for k, (mode, srt) in enumerate([((False, ''), '-'), ((False, 'clean'), '-'), ((False, ''), '1'), ((True, 'clean'), '0')]):
        w = World('c20-dup-%d' % k)
        w.add(mode_line(*mode))
        w.add('cfg 1 %s - - none none' % core.hx('snaps'))
        w.add('cfg 2 %s %s - none none' % (core.hx('snaps'), core.hx('custom')))
        w.add('cfg 3 %s - - none none' % core.hx('other'))
        for f, live in (('snaps/zz_verif_harness_test.snap', b'one'), ('snaps/custom.snap', b'two'), ('other/zz_verif_harness_test.snap', b'three')):
            w.add('fsput %s %s' % (core.hx(f), core.hx(b'\n[TestOld - 1]\nold in ' + live + b'\n---\n\n[TestLive - 1]\n' + live + b'\n---\n')))
        w.add('fsput %s %s' % (core.hx('snaps/gone_test.snap'), core.hx(b'\n[TestGone - 1]\nx\n---\n')))
        w.add('fsput %s %s' % (core.hx('other/gone_test.snap'), core.hx(b'\n[TestGone - 1]\nx\n---\n')))
        w.add('begin 1 %s' % core.hx(b'TestLive'))
        w.add('snap 1 1 %s' % core.hx(b'one'))
        w.add('snap 2 1 %s' % core.hx(b'two'))
        w.add('snap 3 1 %s' % core.hx(b'three'))
        w.add('end 1')
        deleting = (not mode[0]) and mode[1] == 'clean'

        def expd(line, raw, ww, deleting=deleting):
            t = line.out.decode('utf-8', 'replace')
            verb = 'removed' if deleting else 'obsolete'
            if ('3 snapshot tests %s' % verb) not in t or t.count('TestOld - 1\n') != 3:
                return 'three files each hold an obsolete [TestOld - 1]: the summary must count and list 3 tests, got %r' % t
            if ('2 snapshot files %s' % verb) not in t or t.count('gone_test.snap\n') != 2:
                return 'two directories each hold an obsolete gone_test.snap: the summary must count and list 2 files, got %r' % t
            return None
        w.add('clean %s - 1' % srt, ('summary-lists-every-obsolete-item', expd))
        dups.append(w)
    run_suite(ctx, 'clean.duplicate-items', dups, known=known)
    # a very long line (> 1 MiB) in a snapshot file that Clean examines: the totals must still be shown
    hw = World('c20huge')
    hw.add(mode_line(False, ''))
    hw.add('cfg 1 %s - - none none' % core.hx('snaps'))
    hw.add('begin 1 %s' % core.hx(b'TestHuge'))
    hw.add('snap 1 1 %s' % core.hx(b'H' * (1200000 if ctx.tier == 'quick' else 3300000)))
    hw.add('snap 1 1 %s' % core.hx(b'small'))
    hw.add('end 1')

    def exph(line, raw, ww):
        t = line.out.decode('utf-8', 'replace')
        if '2 snapshots added' not in t:
            return 'the summary does not show the two added snapshots: %r' % t[:200]
        return None
    hw.add('clean - - 1', ('summary-with-huge-line', exph))
    run_suite(ctx, 'clean.huge-line', [hw], known=known, use_model=False)
    # totals of four digits: 1005 recorded snapshots (how the number is printed must not depend on its digits)
    tw = World('c20-thousand')
    tw.add(mode_line(False, ''))
    tw.add('cfg 1 %s - - none none' % core.hx('snaps'))
    tw.add('begin 1 %s' % core.hx(b'TestMany'))
    for k in range(1005):
        tw.add('snap 1 1 %s' % core.hx(b'v%d' % k))
    tw.add('end 1')

    def expt(line, raw, ww):
        t = line.out.decode('utf-8', 'replace')
        if '1005 snapshots added' not in t:
            return 'the summary does not show the 1005 added snapshots as "1005 snapshots added": %r' % t[:200]
        return None
    tw.add('clean - - 1', ('summary-with-four-digit-total', expt))
    run_suite(ctx, 'clean.four-digit-total', [tw], known=known, use_model=False)
    # the library's -trimpath mode (snapshot locations relative to the working directory): the summary still counts and
    # lists what Clean judged obsolete, with relative directories too
    tps = []
    for k, (mode, d) in enumerate([((False, ''), 'snaps'), ((False, 'clean'), 'snaps'), ((True, ''), 'a/b'), ((False, ''), '-'), ((False, 'true'), '=')]):
        w = World('c20-trimpath-%d' % k)
        w.add(mode_line(*mode))
        w.add('trimpath 1')
        w.add('cfgrel 1 %s - -' % ('=' if d == '=' else '-' if d == '-' else core.hx(d)))
        dd = {'-': '__snapshots__', '=': '.'}.get(d, d)
        w.add('fsput %s %s' % (core.hx(dd + '/stale_test.snap'), core.hx(b'\n[TestStale - 1]\nx\n---\n')))
        w.add('fsput %s %s' % (core.hx(dd + '/zz_verif_harness_test.snap'), core.hx(b'\n[TestOld - 1]\nold\n---\n\n[TestTrim - 1]\nlive\n---\n')))
        w.add('begin 1 %s' % core.hx(b'TestTrim'))
        w.add('snap 1 1 %s' % core.hx(b'live'))
        w.add('end 1')
        deleting = (not mode[0]) and mode[1] in ('clean', 'true')

        def expt2(line, raw, ww, deleting=deleting):
            t = line.out.decode('utf-8', 'replace')
            verb = 'removed' if deleting else 'obsolete'
            if ('1 snapshot file %s' % verb) not in t or 'stale_test.snap' not in t:
                return 'one obsolete file: the summary must count and list it, got %r' % t
            if ('1 snapshot test %s' % verb) not in t or 'TestOld - 1' not in t:
                return 'one obsolete entry: the summary must count and list it, got %r' % t
            return None
        w.add('clean - - 1', ('summary-in-trimpath-mode', expt2))
        tps.append(w)
    if getattr(ctx, 'hooks', {}).get('trimpath', True):
        run_suite(ctx, 'clean.trimpath', tps, known=known, use_model=False)
    findings.report(ctx, 'C20')
