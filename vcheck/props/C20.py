"""C20 - every call has exactly one outcome and the summary adds up."""
import re
import core, suites, findings
from core import World, Line
from gen import Gen, mode_line
from suites import gen_history, emit_exec, run_suite, mutate_call

LEAN_MODULES = ['GoSnaps.Props.C20']


def make_spec(g, allow):
    r = g.r
    h = gen_history(g, allow + ('badjson', 'badyaml'), max_tests=4, max_calls=6)
    second = []
    for name, calls in h.execs:
        cs = []
        for cfgno, c in calls:
            if r.random() < 0.4:
                m, _ = mutate_call(g, c)
                cs.append((cfgno, m or c))
            else:
                cs.append((cfgno, c))
        second.append((name, cs))
    return dict(cfgs=h.cfgs, execs=h.execs, second=second, flags=set(h.flags),
                mode2=r.choice([(False, ''), (False, 'true'), (True, ''), (False, 'clean')]),
                skips=r.randint(0, 3), sort=r.choice(['-', '0', '1']))


def classify(line):
    ev = [(k, v) for k, v in line.events]
    if ev == []:
        return 'passed'
    if len(ev) == 1 and ev[0][0] == 'L' and ev[0][1].endswith(b'Snapshot added'):
        return 'added'
    if len(ev) == 1 and ev[0][0] == 'L' and ev[0][1].endswith(b'Snapshot updated'):
        return 'updated'
    if len(ev) == 1 and ev[0][0] == 'E':
        return 'failed'
    return None


def render(tag, spec):
    w = World(tag)
    w.spec, w.render = spec, render
    w.flags |= spec['flags']
    w.add(mode_line(False, ''))
    for c in spec['cfgs']:
        w.add(c)
    texec = 0
    call_idx = []
    for name, calls in spec['execs']:
        texec += 1
        call_idx += emit_exec(w, texec, name, calls)
    ci, upd = spec['mode2']
    w.add(mode_line(ci, upd))
    for name, calls in spec['second']:
        texec += 1
        call_idx += emit_exec(w, texec, name, calls)
    for s in range(spec['skips']):
        texec += 1
        w.add('begin %d %s' % (texec, core.hx(b'TestSkipped%d' % s)))
        w.add('skip %d %s' % (texec, ['skip', 'skipf', 'skipnow'][s % 3]))

    def oracle(line, raw, ww):
        tally = dict(passed=0, added=0, updated=0, failed=0)
        for i in call_idx:
            t = ww.ops[i].split()
            if t[0] == 'snap' and len(t) == 3:
                continue
            c = classify(Line(ww.impl[i]))
            if c is None:
                return 'op %d: not exactly one outcome: %r' % (i, [(k, v[:40]) for k, v in Line(ww.impl[i]).events])
            tally[c] += 1
        m = re.match(r'events e=(\d+) a=(\d+) u=(\d+) p=(\d+) s=(\d+)', raw)
        got = dict(failed=int(m.group(1)), added=int(m.group(2)), updated=int(m.group(3)), passed=int(m.group(4)))
        if got != tally or int(m.group(5)) != spec['skips']:
            return 'counters %r skipped=%s, outcomes tallied from the test log %r skipped=%d' % (got, m.group(5), tally, spec['skips'])
        ww.meta['tally'] = tally
        return None
    w.add('events', ('counters-equal-outcomes', oracle))

    def oracle_sum(line, raw, ww):
        tally = ww.meta.get('tally')
        if tally is None:
            return None
        text = line.out.decode('utf-8', 'replace')
        nums = {}
        for verb in ('passed', 'failed', 'added', 'updated', 'skipped'):
            mm = re.search(r'(\d+) snapshots? %s\n' % verb, text)
            nums[verb] = int(mm.group(1)) if mm else 0
        want = dict(tally, skipped=spec['skips'])
        if nums != want:
            return 'summary shows %r, outcomes were %r' % (nums, want)
        if sum(want.values()) == 0 and 'Snapshot Summary' in text and 'obsolete' not in text and 'removed' not in text:
            return 'summary printed with nothing to report'
        return None
    w.add('clean %s - 1' % spec['sort'], ('summary-equals-outcomes', oracle_sum))
    return w


def known(w, p):
    return None


def run(ctx):
    g = Gen(ctx.seed * 1000003 + 20)
    n = 150 if ctx.tier == 'quick' else 4000
    worlds = [render('c20-%d' % i, make_spec(g, ('nosafn',))) for i in range(n)]
    run_suite(ctx, 'match.outcomes', worlds, known=known, chunk=200)
    findings.report(ctx, 'C20')
