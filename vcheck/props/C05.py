"""C05 - write permissions follow the mode table; CI runs are read-only.  Exhaustive over the
finite table of the property (every cell is executed on the real code and on the model)."""
import itertools
import core, suites, findings
from core import World, parse_fs, Line, hx
from gen import Gen, mode_line, cfg_line
from suites import run_suite, parse_snap, parse_snap_scan, crlf_all, exp_silent

LEAN_MODULES = ['GoSnaps.Props.C05', 'GoSnaps.Props.C05Clean', 'GoSnaps.Props.Tie.SnapshotIO', 'GoSnaps.Props.Tie.CleanIO', 'GoSnaps.Props.Tie.Flows', 'GoSnaps.Props.Tie.CleanTopIO1', 'GoSnaps.Props.Tie.CleanTopIO2', 'GoSnaps.Props.Tie.CleanTopIO3', 'GoSnaps.Props.Tie.CleanTopIO', 'GoSnaps.Props.Tie.Wrappers']
EVIDENCE = dict(exhaustive=True,
                rule='complete enumeration of CI{on,off} x Update{unset,true,false} x UPDATE_SNAPS{unset,true,clean,other} x 5 entry points x entry{missing,equal,different} (+ the two JSON entry points x {stored in another layout}) and of the Clean cells (sort option x stale present x file sorted); the cells with a present multi-entry snapshot and the Clean cells once more per file variant (CR LF, mixed line endings, hand-edited spacing); each cell once in-process and once in a process started with the real environment; a cell is non-trivial when the real code produced an event or a write')

UPDS = ['', 'true', 'clean', 'other']
# spellings that must NOT count as `true` / `clean` (the "any other string" class)
OTHER_SPELLINGS = ['TRUE', 'True', '1', 't', 'T', 'yes', 'on', 'false', '0', 'Clean', 'CLEAN', ' true', 'true ']
KINDS = ['snap', 'json', 'yaml', 'sasnap', 'sajson']
PRETTY = b'{\n "a": 1\n}'
PRETTY2 = b'{\n "a": 2\n}'


def frame(tid, body):
    return b'\n[' + tid + b']\n' + body + b'\n---\n'


def eol_variant(content, eol):
    """the same snapshot file with other line endings / hand-edited spacing: `crlf` = every line ends
    in CR LF (core.autocrlf checkout), `mixed` = only the lines before the first header do not,
    `gaps` = extra blank lines and a free-text line between entries.  The line scanner drops the CR
    and the lookup only looks at whole lines, so the entry is present exactly as before."""
    if eol == 'crlf':
        return crlf_all(content)
    if eol == 'mixed':
        ls = content.split(b'\n')
        return b'\n'.join(l + b'\r' if (i % 2 == 1 and i < len(ls) - 1) else l for i, l in enumerate(ls))
    if eol == 'gaps':
        return b'\n\n# hand-edited\n' + content.replace(b'\n---\n', b'\n---\n\n\n') + b'trailing words\n'
    return content


def cell_world(tag, ci, updopt, upd, kind, state, stored_empty=False, eol='lf', goflag=None):
    w = World(tag)
    w.add(mode_line(ci, upd))
    w.add(cfg_line(1, 'snaps', 'f', None, updopt))
    if goflag:
        # the test binary runs with a flag of the user's own (`-update` for golden files): not an input of the mode table
        w.add('goflag %s %s' % goflag)
    name = b'TestCell'
    stored = {'snap': b'value one', 'json': PRETTY, 'yaml': b'a: 1\n', 'sasnap': b'value one', 'sajson': PRETTY}[kind]
    if stored_empty:
        stored = b''        # an existing snapshot holding the empty value is still an existing snapshot
    if state == 'reformatted':
        # the stored text is the SAME document in another layout (recorded with other snaps.JSON options, or
        # re-indented by a formatter): the formatted value differs, so for the mode table it is `different`
        stored = stored.replace(b'\n ', b'\n    ').replace(b': ', b':  ')
    if state != 'missing':
        if kind in ('snap', 'json', 'yaml'):
            # the addressed entry sits between two entries of other tests
            content = frame(b'TestBefore - 1', b'first\nentry') + frame(name + b' - 1', stored) + frame(b'TestZ - 1', b'last') if eol != 'lf' else frame(name + b' - 1', stored)
            w.add('fsput %s %s' % (hx('snaps/f.snap'), hx(eol_variant(content, eol))))
        elif kind == 'sasnap':
            w.add('fsput %s %s' % (hx('snaps/f_1.snap'), hx(stored)))
        else:
            w.add('fsput %s %s' % (hx('snaps/f_1.snap.json'), hx(stored)))
    ref = w.add('fsdump')
    w.add('begin 1 %s' % hx(name))
    same = state not in ('different',)
    payload = {'snap': b'value one' if same else b'value two',
               'json': b'{"a":1}' if same else b'{"a":2}',
               'yaml': b'a: 1\n' if same else b'a: 2\n',
               'sasnap': b'value one' if same else b'value two',
               'sajson': b'{"a":1}' if same else b'{"a":2}'}[kind]
    can_create = (not ci) and updopt != 'false'
    can_update = (not ci) and (updopt == 'true' or (updopt == 'none' and upd == 'true'))

    def exp(line, raw, ww):
        kinds = [k for k, _ in line.events]
        if state == 'equal':
            return exp_silent(line, raw, ww)
        allowed = can_create if state == 'missing' else can_update
        if state == 'reformatted' and not allowed and kinds == ['L']:
            return 'a stored text that differs from the formatted value only in layout was rewritten (%r) although updating is not enabled' % line.events[0][1][:40]
        if allowed:
            if kinds != ['L'] or len(line.writes) != 1:
                return 'the mode table allows the write here: expected one log and one written file, got %r w=%r' % (line.events, line.writes)
            want = b'added' if state == 'missing' else b'updated'
            if not line.events[0][1].endswith(want):
                return 'expected `%s`' % want.decode()
        else:
            if kinds != ['E'] or line.writes or line.removed:
                return 'the mode table forbids the write here: expected one Error and no write, got %r w=%r' % ([(k, v[:30]) for k, v in line.events], line.writes)
        return None
    if kind in ('snap', 'sasnap'):
        w.add('%s 1 1 %s' % (kind, hx(payload)), ('mode-table', exp))
    else:
        w.add('%s 1 1 s %s' % (kind, hx(payload)), ('mode-table', exp))
    w.add('end 1')

    def exp_fs(line, raw, ww):
        a, b = parse_fs(ww.impl[ref]), parse_fs(raw)
        allowed = (state == 'missing' and can_create) or (state in ('different', 'reformatted') and can_update)
        if not allowed and a != b:
            return 'file system changed although the mode table forbids it'
        if allowed and a == b:
            return 'nothing was written although the mode table allows it'
        return None
    w.add('fsdump', ('mode-table-fs', exp_fs))
    w.meta['cell'] = (ci, updopt, upd, kind, state, eol)
    return w


def clean_world(tag, ci, upd, sortopt, stale, sorted_file, eol='lf', updcall=None, late_env=None, second=False):
    """updcall: the Config carries Update(true|false) and the second call brings a changed value (rewritten, or reported,
    as the Match table says): what Clean may delete still follows the environment only"""
    w = World(tag)
    w.add(mode_line(ci, upd))
    w.add(cfg_line(1, 'snaps', 'f', None, updcall or 'none'))
    ids = [b'TestC - 1', b'TestC - 2', b'TestC - 10'] if sorted_file else [b'TestC - 10', b'TestC - 1', b'TestC - 2']
    # under -count 1 the three calls below address TestC 1..3; use ordinals 1,2,3 instead
    ids = [b'TestC - 1', b'TestC - 2', b'TestC - 3'] if sorted_file else [b'TestC - 3', b'TestC - 1', b'TestC - 2']
    entries = [(i, b'v' + i[-1:]) for i in ids]
    if stale:
        entries.insert(1, (b'TestGone - 1', b'old'))
    content = eol_variant(b''.join(frame(i, b) for i, b in entries), eol)
    parse = parse_snap if eol == 'lf' else (lambda c: parse_snap_scan(c, loose=True))
    w.add('fsput %s %s' % (hx('snaps/f.snap'), hx(content)))
    if stale:
        w.add('fsput %s %s' % (hx('snaps/orphan.snap'), hx(frame(b'TestOrphan - 1', b'x'))))
    w.add('fsput %s %s' % (hx('snaps/notes.txt'), hx(b'keep me')))
    if second:
        # a second used file, hand-edited (a note at the top, no blank line before the first entry), holding nothing
        # obsolete and in order: whatever Clean does to the first file, this one is left alone
        w.add(cfg_line(2, 'snaps', 'g', None, 'none'))
        gtext = b'# regenerate with UPDATE_SNAPS=true\n[TestG - 1]\nvg\n---\n\n[TestG - 2]\nvg2\n---\n'
        w.add('fsput %s %s' % (hx('snaps/g.snap'), hx(gtext)))
        w.add('begin 2 %s' % hx(b'TestG'))
        w.add('snap 2 2 %s' % hx(b'vg'), ('setup-call-passes', exp_silent))
        w.add('snap 2 2 %s' % hx(b'vg2'), ('setup-call-passes', exp_silent))
        w.add('end 2')
    w.add('begin 1 %s' % hx(b'TestC'))
    for k in (1, 2, 3):
        if updcall and k == 2:
            w.add('snap 1 1 %s' % hx(b'changed'))
        else:
            w.add('snap 1 1 %s' % hx(b'v%d' % k), ('setup-call-passes', exp_silent))
    w.add('end 1')
    if late_env:
        # the process changes its environment while it runs (an os.Setenv / t.Setenv in some test): the mode is what
        # the process STARTED with
        w.add('setenv UPDATE_SNAPS %s' % hx(late_env))
    ref = w.add('fsdump')
    deletes = (not ci) and upd in ('true', 'clean')
    sorts = (not ci) and sortopt == '1'

    def exp_clean(line, raw, ww):
        text = line.out.decode('utf-8', 'replace')
        if stale:
            if 'TestGone - 1' not in text or 'orphan.snap' not in text:
                return 'stale items not reported: %r' % text[:200]
            if ('removed' in text) != deletes:
                return 'summary says %s but the mode table says deletes=%s' % ('removed' if 'removed' in text else 'obsolete', deletes)
        elif 'obsolete' in text or 'removed' in text:
            return 'nothing is stale but something was reported: %r' % text[:200]
        return None
    w.add('clean %s - 1' % sortopt, ('clean-report', exp_clean))

    def exp_fs(line, raw, ww):
        a, b = parse_fs(ww.impl[ref]), parse_fs(raw)
        pa = [p for p in a if p.endswith(b'/f.snap')][0]
        orphan = [p for p in a if p.endswith(b'/orphan.snap')]
        notes = [p for p in a if p.endswith(b'/notes.txt')][0]
        if b.get(notes) != b'keep me':
            return 'a file without .snap in its name was touched'
        if orphan and ((orphan[0] in b) != (not deletes)):
            return 'obsolete file %s although the mode table says deletes=%s' % ('kept' if orphan[0] in b else 'removed', deletes)
        if pa not in b:
            return 'the addressed snapshot file disappeared'
        for pg in [p for p in a if p.endswith(b'/g.snap')]:
            if b.get(pg) != a[pg]:
                return 'the second used file holds nothing obsolete and is in order, but its bytes changed: %r' % (b.get(pg) or b'')[:80]
        ea, eb = parse(a[pa]), parse(b[pa])
        if eb is None:
            return 'snapshot file is not well formed after Clean'
        want = list(ea)
        if deletes:
            want = [e for e in want if e[0] != b'TestGone - 1']
        if sorts:
            def key(e):
                n, _, k = e[0].rpartition(b' - ')
                return (n, int(k))
            want = sorted(want, key=key)
        if eb != want:
            return 'entries after Clean %r, the mode table (deletes=%s, sorts=%s) requires %r' % ([e[0] for e in eb], deletes, sorts, [e[0] for e in want])
        if want == ea and b[pa] != a[pa]:
            return 'file bytes changed although nothing had to be pruned or sorted'
        return None
    w.add('fsdump', ('clean-effects', exp_fs))
    w.meta['cell'] = ('clean', ci, upd, sortopt, stale, sorted_file, eol)
    if stale and sorts and not sorted_file and not deletes:
        w.flags.add('D5')
    return w


def hollow_world(tag, ci, upd, sortopt, shape):
    """a snapshot file that a test of the run refers to but that holds no complete entry (an empty file, blank
    lines only, an entry that lost its terminator): the test fails with `snapshot not found` (creation is not
    allowed: Update(false)), and Clean - in every mode - leaves that file alone: it is addressed, not obsolete"""
    w = World(tag)
    w.add(mode_line(ci, upd))
    w.add(cfg_line(1, 'snaps', 'f', None, 'false'))
    content = {'empty': b'', 'blank': b'\n\n', 'unterminated': b'\n[TestC - 1]\nvalue one\n', 'absent': None}[shape]
    if content is not None:
        w.add('fsput %s %s' % (hx('snaps/f.snap'), hx(content)))
    w.add('fsput %s %s' % (hx('snaps/notes.txt'), hx(b'keep me')))
    w.add('begin 1 %s' % hx(b'TestC'))
    w.add('snap 1 1 %s' % hx(b'value one'), ('missing-entry-fails-without-writing', suites.exp_one_error_no_write))
    w.add('end 1')
    ref = w.add('fsdump')
    w.add('clean %s - 1' % sortopt)

    def exp_fs(line, raw, ww):
        a, b = parse_fs(ww.impl[ref]), parse_fs(raw)
        if a != b:
            gone = sorted(set(a) - set(b))
            return 'Clean %s a file that a test of the run addressed (it holds no complete entry, but it is not obsolete)' % (
                'removed' if gone else 'rewrote')
        return None
    w.add('fsdump', ('addressed-hollow-file-untouched', exp_fs))
    return w


def known(w, p):
    if p['kind'] == 'expect' and 'D5' in w.flags:
        return 'D5'
    return None


def all_cells(envfilter=None):
    worlds = []
    n = 0
    for ci, updopt, upd, kind, state in itertools.product([False, True], ['none', 'true', 'false'], UPDS, KINDS,
                                                           ['missing', 'equal', 'different']):
        if envfilter and envfilter != (ci, upd):
            continue
        n += 1
        worlds.append(cell_world('cell-%d' % n, ci, updopt, upd, kind, state))
        if kind in ('snap', 'json', 'yaml') and state != 'missing':
            # "entry state in {missing, equal, different}" is decided by the LOOKUP: the same cells with
            # the file in CR LF / mixed line endings or with hand-edited spacing (entry still present)
            for eol in ('crlf', 'mixed', 'gaps'):
                n += 1
                worlds.append(cell_world('cell-%d-%s' % (n, eol), ci, updopt, upd, kind, state, eol=eol))
    for ci, updopt, upd, kind in itertools.product([False, True], ['none', 'true', 'false'], UPDS, ['json', 'sajson']):
        if envfilter and envfilter != (ci, upd):
            continue
        n += 1
        worlds.append(cell_world('cellr-%d' % n, ci, updopt, upd, kind, 'reformatted'))
    for ci, upd, sortopt, stale, sorted_file in itertools.product([False, True], UPDS, ['-', '0', '1'], [False, True], [False, True]):
        if envfilter and envfilter != (ci, upd):
            continue
        n += 1
        worlds.append(clean_world('clean-%d' % n, ci, upd, sortopt, stale, sorted_file))
        for eol in ('crlf', 'gaps'):
            n += 1
            worlds.append(clean_world('clean-%d-%s' % (n, eol), ci, upd, sortopt, stale, sorted_file, eol=eol))
        if stale:
            n += 1
            worlds.append(clean_world('clean-%d-second' % n, ci, upd, sortopt, stale, sorted_file, second=True))
            if upd in ('', 'other'):
                for late in ('clean', 'true'):
                    n += 1
                    worlds.append(clean_world('clean-%d-late-%s' % (n, late), ci, upd, sortopt, stale, sorted_file, late_env=late))
            for updcall in ('true', 'false'):
                n += 1
                worlds.append(clean_world('clean-%d-upd%s' % (n, updcall), ci, upd, sortopt, stale, sorted_file, updcall=updcall))
    for ci, upd, sortopt, shape in itertools.product([False, True], UPDS, ['-', '1'], ['empty', 'blank', 'unterminated', 'absent']):
        if envfilter and envfilter != (ci, upd):
            continue
        n += 1
        worlds.append(hollow_world('hollow-%d' % n, ci, upd, sortopt, shape))
    return worlds


def run(ctx):
    worlds = all_cells()
    ctx.stats['dist']['cells'] = len(worlds)
    run_suite(ctx, 'modes.table', worlds, known=known, chunk=500)
    # the same cells with the package initialisers run for real: one process per environment
    for ci in (False, True):
        for upd in UPDS:
            env = {'VERIF_REALENV': '1'}
            if ci:
                env['CI'] = 'true'
            if upd:
                env['UPDATE_SNAPS'] = upd
            ws = all_cells((ci, upd))
            run_suite(ctx, 'modes.realenv[%s,%s]' % ('ci' if ci else 'noci', upd or 'unset'), ws, env=env, known=known, chunk=500)
    # CI services that do not export `CI`: the detection (ciinfo) is an input of the mode table, but which
    # environments count as CI is part of what "CI is read-only" means to a user of Jenkins, TeamCity, Azure
    # Pipelines ...: the CI column of the table again, in processes started with their variables only
    vendors = [('jenkins', {'JENKINS_URL': 'http://ci.example', 'BUILD_ID': '12'}), ('teamcity', {'TEAMCITY_VERSION': '2024.03'}),
               ('azure', {'TF_BUILD': 'True'}), ('generic-build-number', {'BUILD_NUMBER': '7'})]
    for vname, venv in vendors if ctx.tier == 'thorough' else vendors[:2]:
        for upd in ('', 'true'):
            env = dict(venv, VERIF_REALENV='1')
            if upd:
                env['UPDATE_SNAPS'] = upd
            ws = [w_ for w_ in all_cells((True, upd))]
            run_suite(ctx, 'modes.realenv-vendor[%s,%s]' % (vname, upd or 'unset'), ws, env=env, known=known, chunk=500)
    # other spellings of the environment variable, and existing-but-empty standalone snapshots
    ws = []
    k = 0
    for sp in OTHER_SPELLINGS:
        for kind in KINDS:
            for state in ('missing', 'different'):
                k += 1
                ws.append(cell_world('sp-%d' % k, False, 'none', sp, kind, state))
        k += 1
        ws.append(clean_world('spc-%d' % k, False, sp, '0', True, True))
    for ci, updopt, upd in itertools.product([False, True], ['none', 'true', 'false'], UPDS):
        k += 1
        ws.append(cell_world('empty-%d' % k, ci, updopt, upd, 'sasnap', 'different', stored_empty=True))
    run_suite(ctx, 'modes.spellings-and-empty', ws, known=known, chunk=500)
    # the whole table again in a test binary that was started with a golden-file flag of the user's own (`-update`):
    # (CI, Update option, UPDATE_SNAPS) decide, nothing else does
    ws = []
    for ci, updopt, upd in itertools.product([False, True], ['none', 'true', 'false'], UPDS):
        for kind in KINDS:
            for state in ('missing', 'different'):
                ws.append(cell_world('flag-%d' % len(ws), ci, updopt, upd, kind, state, goflag=('update', 'true')))
    run_suite(ctx, 'modes.foreign-flag', ws, known=known, chunk=500)
    # a registered snapshot directory that holds nothing when Clean runs (every snapshot of it missing in a run that
    # may not create them): Clean removes nothing, the directory included (implementation only: the model's file
    # system has no empty directories)
    ws = []
    for ci, updopt, upd in [(True, 'none', ''), (True, 'none', 'clean'), (True, 'true', 'true'), (False, 'false', ''), (False, 'false', 'other')]:
        w = World('emptydir-%d' % len(ws))
        w.add(mode_line(ci, upd))
        w.add(cfg_line(1, 'snaps', 'f', None, updopt))
        w.add('fsput %s %s' % (hx('snaps/placeholder.txt'), hx(b'x')))
        w.add('fsrm %s' % hx('snaps/placeholder.txt'))
        w.add('begin 1 %s' % hx(b'TestEmptyDir'))
        w.add('snap 1 1 %s' % hx(b'value'))
        w.add('end 1')
        before = w.add('fsdirs')
        w.add('clean - - 1')

        def exp_dirs(line, raw, ww, before=before):
            if raw != ww.impl[before]:
                return 'Clean changed the directories although nothing may be removed in this mode: %r -> %r' % (ww.impl[before][:200], raw[:200])
            return None
        w.add('fsdirs', ('readonly-clean-keeps-directories', exp_dirs))
        ws.append(w)
    run_suite(ctx, 'modes.empty-dir', ws, known=known, use_model=False)
    if ctx.tier == 'thorough':
        # random UPDATE_SNAPS strings for the "any other string" class
        g = Gen(ctx.seed * 1000003 + 5)
        ws = []
        for i in range(300):
            s = ''.join(g.r.choice('truecleanTRUE01 yes') for _ in range(g.r.randint(1, 6)))
            if s in ('true', 'clean'):
                continue
            ws.append(cell_world('rnd-%d' % i, False, g.r.choice(['none', 'true', 'false']), s, g.r.choice(KINDS),
                                 g.r.choice(['missing', 'equal', 'different'])))
            ws.append(clean_world('rndc-%d' % i, False, s, g.r.choice(['-', '0', '1']), True, g.r.random() < 0.5))
        run_suite(ctx, 'modes.random-other', ws, known=known)
    findings.report(ctx, 'C05')
