"""C03 - entries are stably addressed and isolated from one another."""
import core, suites, findings
from core import World, parse_fs, Line
from gen import Gen, mode_line, Call
from suites import gen_history, run_suite, parse_snap, parse_snap_scan, esc, unesc, has_cr_eol, snap_file_suffix, mutate_call

LEAN_MODULES = ['GoSnaps.Props.C03', 'GoSnaps.Props.C06', 'GoSnaps.Props.Tie.Path', 'GoSnaps.Props.Tie.Snapshot', 'GoSnaps.Props.Tie.SnapshotIO', 'GoSnaps.Props.Tie.Registry', 'GoSnaps.Props.Tie.Flows', 'GoSnaps.Props.Tie.Wrappers']


def valid_json(b):
    import json
    try:
        json.loads(b.decode())
        return True
    except Exception:
        return False


BAD_YAML = ['a: [1, 2', 'a: b: c: d', '\t- x\n\t\ty', 'key: "unterminated', '{a: 1', 'a:\n  - b\n c',
            'settings: *bsae\n', 'a: &x 1\nb: *y\n', '- *second\n', 'ok: 1\n---\nlater: *nowhere\n', 'enabled: !!bool maybe\n']


def make_spec(g, allow):
    r = g.r
    h = gen_history(g, allow + ('many', 'badjson', 'badyaml'), max_tests=4, max_calls=6,
                    kinds=['snap'] * 6 + ['json'] * 2 + ['yaml'])
    # executions: each test 1..3 times (the -count path), later executions may change values
    execs = []
    for name, calls in h.execs:
        for rep in range(r.choice([1, 1, 2, 3])):
            cs = []
            for cfgno, c in calls:
                if rep and c.kind == 'json' and not valid_json(c.payload) and r.random() < 0.6:
                    # the document that was rejected in the earlier execution is fine this time (a response that
                    # was truncated once): this execution addresses the same slots as if the other had passed
                    cs.append((cfgno, Call('json', g.json_text(g.json_value()).encode(), c.form if c.form != 'v' else 's')))
                elif rep and c.kind == 'yaml' and c.payload.decode('utf-8', 'replace') in BAD_YAML and r.random() < 0.6:
                    # (the same for a YAML document that was rejected the first time)
                    cs.append((cfgno, Call('yaml', g.yaml_text().encode(), c.form)))
                elif rep and r.random() < 0.3:
                    m, _ = mutate_call(g, c)
                    cs.append((cfgno, m or c))
                else:
                    cs.append((cfgno, c))
            execs.append((name, cs))
    if r.random() < 0.5:
        r.shuffle(execs)
    # nesting: an execution may run completely *between two calls* of another one (a subtest between
    # two assertions of its parent, or parallel tests)
    nest = suites.gen_nest(r, execs, 0.35)
    spec = dict(cfgs=h.cfgs, execs=execs, flags=set(h.flags), upd=r.choice(['', 'true']), nest=nest, crlf=None)
    k = r.random()
    if k < 0.15 and 'cr' not in spec['flags'] and 'big' not in allow:     # (the model is slow on `big` files: no second pass over them)
        # at some point between two executions the files get CR LF (or mixed) line endings, as a
        # checkout with core.autocrlf leaves them: slots are addressed and isolated as before (the
        # entries are compared as the line scanner sees them)
        spec['crlf'] = (r.choice(suites.CRLF_MODES), r.randint(0, len(execs)))
        spec['flags'].add('crlf-file')
    elif k < 0.30 and spec['upd'] == '' and execs:
        # a test recording raw text with CR LF line endings (HTTP dump, CSV) somewhere in the file:
        # its own entry is outside C01 (documented limitation), every OTHER slot behaves as before.
        # (Not in update mode: a rewrite copies the file through the scanner, which is the same
        # documented limitation.)
        g2 = Gen(r.randrange(1 << 30))
        calls = [(r.randint(1, len(h.cfgs)), Call('snap', g2.body((), ('cr', 'crlf')))) for _ in range(r.randint(1, 3))]
        calls[0] = (calls[0][0], Call('snap', b'HTTP/1.1 200 OK\r\nContent-Type: text/plain\r\n\r\nhello'))
        pos = r.randint(0, len(execs))
        nest = {(i + 1 if i >= pos else i): ((hst + 1 if hst >= pos else hst), at) for i, (hst, at) in nest.items()}
        execs.insert(pos, (b'TestCRHolder', calls))
        if r.random() < 0.5:
            execs.append((b'TestCRHolder', calls))
        spec['nest'] = nest
        spec['flags'].add('cr-value')
    return spec


def oracle(line, raw, w):
    """walk the whole world: after every call, the addressed file changed exactly as slot (N,k) says"""
    cfg_suffix = {}
    prev = {}
    parse = parse_snap_scan if w.spec.get('crlf') else parse_snap

    def first(entries, tid):
        for i_, b_ in entries:
            if i_ == tid:
                return b_
        return None
    ordinal = {}
    cur_name = None
    texec_name = {}
    for i, op in enumerate(w.ops):
        t = op.split()
        if t[0] == 'cfg':
            cfg_suffix[int(t[1])] = snap_file_suffix(op)
        elif t[0] == 'begin':
            texec_name[int(t[1])] = core.unhx(t[2])
            for k in list(ordinal):
                if k[0] == int(t[1]):
                    del ordinal[k]
        elif t[0] in ('snap', 'json', 'yaml'):
            res = Line(w.impl[i])
            dump = parse_fs(w.impl[i + 1])
            name = texec_name[int(t[2])]
            suffix = cfg_suffix[int(t[1])]
            key = (int(t[2]), suffix)
            ordinal[key] = ordinal.get(key, 0) + 1
            want_id = name + b' - ' + str(ordinal[key]).encode()
            path = [p for p in set(dump) | set(prev) if p.decode('utf-8', 'replace').endswith(suffix)]
            for p in set(dump) | set(prev):
                if p not in path and dump.get(p) != prev.get(p):
                    return 'op %d: unrelated file %r changed' % (i, p)
            before = parse(prev.get(path[0], b'')) if path else []
            after = parse(dump.get(path[0], b'')) if path else []
            if before is None or after is None:
                return 'op %d: file is not well formed after the call' % i
            kinds = [k for k, _ in res.events]
            if kinds == ['L'] and res.events[0][1].endswith(b'added'):
                if after[:-1] != before or not after or after[-1][0] != want_id:
                    return 'op %d: `added` must append exactly slot %r; ids before %r after %r' % (i, want_id, [x[0] for x in before], [x[0] for x in after])
                if want_id in dict(before):
                    # (a second entry under an id that is already stored: the lookup did not find the slot it addresses)
                    return 'op %d: `added` although slot %r is already stored: the call did not find its own slot' % (i, want_id)
                if t[0] == 'snap' and after[-1][1] != esc(b'\n'.join(core.unhx(x) for x in t[3:])):
                    return 'op %d: stored body differs from the escaped value' % i
            elif kinds == ['L'] and res.events[0][1].endswith(b'updated'):
                if [x[0] for x in after] != [x[0] for x in before]:
                    return 'op %d: update changed the set or order of entries' % i
                diff = [x[0] for x, y in zip(before, after) if x != y]
                if diff != [want_id]:
                    return 'op %d: update of slot %r changed slots %r' % (i, want_id, diff)
                if t[0] == 'snap' and dict(after)[want_id] != esc(b'\n'.join(core.unhx(x) for x in t[3:])):
                    return 'op %d: updated body differs from the escaped value' % i
            elif kinds in ([], ['E']):
                if after != before:
                    return 'op %d: a passing/failing call changed the file' % i
                if kinds == [] and want_id not in dict(before):
                    return 'op %d: call passed but slot %r does not exist' % (i, want_id)
                if t[0] == 'snap' and len(t) > 3:
                    # the call addresses slot (N, k): it passes iff THAT slot holds the value
                    value = b'\n'.join(core.unhx(x) for x in t[3:])
                    stored = first(before, want_id)
                    if stored is None and kinds == ['E']:
                        # (these worlds run off CI without Update(false): a missing slot is created)
                        return 'op %d: call failed although its slot %r does not exist yet and creation is allowed: it addressed some other slot' % (i, want_id)
                    if stored is not None and not has_cr_eol(value):
                        same = unesc(stored) == unesc(esc(value))
                        if kinds == [] and not same:
                            return 'op %d: call passed although slot %r holds a different value' % (i, want_id)
                        if kinds == ['E'] and same:
                            return 'op %d: call failed although slot %r holds exactly this value' % (i, want_id)
            else:
                return 'op %d: unexpected events %r' % (i, kinds)
            prev = dump
        elif t[0] == 'fsdump' and i > 0 and w.ops[i - 1].startswith('fscrlf'):
            prev = parse_fs(w.impl[i])      # the files as the checkout left them
    return None


def render(tag, spec):
    w = World(tag)
    w.spec, w.render = spec, render
    w.flags |= spec['flags']
    w.add(mode_line(False, spec['upd']))
    for c in spec['cfgs']:
        w.add(c)
    last = [None]
    nest = {i: v for i, v in spec.get('nest', {}).items() if i < len(spec['execs']) and v[0] < len(spec['execs'])}
    # (structural shrinking drops executions and thereby shifts indices: a test never runs inside an
    # execution of ITSELF, such a pairing is dropped)
    nest = {i: v for i, v in nest.items() if spec['execs'][i][0] != spec['execs'][v[0]][0] and v[0] != i}
    hosted = {}
    for i, (host, pos) in nest.items():
        hosted.setdefault(host, []).append((pos, i))

    def emit(i):
        name, calls = spec['execs'][i]
        texec = i + 1
        w.add('begin %d %s' % (texec, core.hx(name)))
        inner = sorted(hosted.get(i, []))
        for k, (cfgno, c) in enumerate(calls):
            for pos, j in inner:
                if pos == k:
                    emit(j)
            w.add(c.op(cfgno, texec))
            last[0] = w.add('fsdump')
        for pos, j in inner:
            if pos >= len(calls):
                emit(j)
        w.add('end %d' % texec)
    crlf = spec.get('crlf')

    def convert():
        for op in suites.crlf_ops(spec['cfgs'], crlf[0]):
            w.add(op)
        w.add('fsdump')
    done = 0
    for i in range(len(spec['execs'])):
        if i not in nest:
            if crlf and done == crlf[1]:
                convert()
                crlf = None
            emit(i)
            done += 1
    last = last[0]
    if last is not None:
        w.expect[last] = ('slot-addressing-and-isolation', oracle)
    return w


def fixed_worlds():
    """deterministic boundary cases for line endings: a raw CR LF text recorded earlier in the file
    than the slots addressed afterwards; a file converted to CR LF / mixed endings between two
    executions, then re-executed read-only and in update mode with one changed value"""
    from gen import cfg_line
    http = b'HTTP/1.1 200 OK\r\nContent-Type: text/plain\r\n\r\nhello'
    beta = [(1, Call('snap', b'beta one')), (1, Call('snap', b'beta\ntwo\n')), (1, Call('snap', b'---\nthree'))]
    beta2 = [(1, Call('snap', b'beta one')), (1, Call('snap', b'beta\ntwo CHANGED\n')), (1, Call('snap', b'---\nthree'))]
    gamma = [(1, Call('snap', b'gamma')), (1, Call('snap', b''))]
    worlds = [render('c03-cr-earlier', dict(cfgs=[cfg_line(1, 'snaps')], flags={'cr-value'}, upd='', nest={}, crlf=None,
                                           execs=[(b'TestAlpha', [(1, Call('snap', http))]), (b'TestBeta', beta), (b'TestGamma', gamma), (b'TestBeta', beta), (b'TestGamma', gamma)]))]
    # an execution of a test in which EVERY call is rejected before the snapshot stage (invalid document), then the same
    # test executed again with good input (-count=N, a flaky producer): the ordinals start at 1 again
    for kind, bad, good in (('yaml', b'a: [1, 2', b'a: [1, 2]\n'), ('json', b'{"a":', b'{"a": 1}')):
        for nbad in (1, 2):
            badx = (b'TestFlaky', [(1, Call(kind, bad, 's'))] * nbad)
            goodx = (b'TestFlaky', [(1, Call(kind, good, 's')), (1, Call('snap', b'second slot'))])
            worlds.append(render('c03-allfail-%s-%d' % (kind, nbad), dict(cfgs=[cfg_line(1, 'snaps')], flags=set(), upd='', nest={}, crlf=None,
                                 execs=[(b'TestOther', [(1, Call('snap', b'other'))]), badx, goodx, badx, goodx])))
    for k, mode in enumerate(['all', 'odd', 'even']):
        for upd in ('', 'true'):
            worlds.append(render('c03-crlf-%s-%s' % (mode, upd or 'unset'), dict(cfgs=[cfg_line(1, 'snaps')], flags={'crlf-file'}, upd=upd, nest={}, crlf=(mode, 3),
                                 execs=[(b'TestAlpha', [(1, Call('snap', b'alpha\nlines'))]), (b'TestBeta', beta), (b'TestGamma', gamma), (b'TestBeta', beta2), (b'TestGamma', gamma), (b'TestBeta', beta2), (b'TestNew', gamma)])))
    return worlds


def gap_worlds():
    """a file in which a slot in the MIDDLE of a test's sequence is missing (an entry lost in a merge, deleted by
    hand, a partly committed file) and a run that may not create it (CI, or Update(false)): the k-th call fails
    with `snapshot not found` and still has consumed its ordinal - the later calls address their own slots"""
    from gen import cfg_line, mode_line
    from core import World, hx
    import suites

    def frame(tid, body):
        return b'\n[' + tid + b']\n' + body + b'\n---\n'
    worlds = []
    for i, (ci, updopt, missing, ncalls) in enumerate([(True, 'none', [2], 3), (False, 'false', [2], 4), (True, 'none', [1, 3], 4), (False, 'false', [2, 3], 5)]):
        w = World('c03-gap-%d' % i)
        w.add(mode_line(ci, ''))
        w.add(cfg_line(1, 'snaps', 'f', None, updopt))
        content = b''.join(frame(b'TestGap - %d' % k, b'value %d' % k) for k in range(1, ncalls + 1) if k not in missing)
        content += frame(b'TestOther - 1', b'other')
        w.add('fsput %s %s' % (hx('snaps/f.snap'), hx(content)))
        for texec in (1, 2):        # two executions in the process: the second starts at slot 1 again
            w.add('begin %d %s' % (texec, hx(b'TestGap')))
            for k in range(1, ncalls + 1):
                if k in missing:
                    w.add('snap 1 %d %s' % (texec, hx(b'value %d' % k)), ('missing-slot-fails-without-writing', suites.exp_one_error_no_write))
                else:
                    w.add('snap 1 %d %s' % (texec, hx(b'value %d' % k)), ('later-call-keeps-its-slot', suites.exp_silent))
            w.add('end %d' % texec)
        worlds.append(w)
    return worlds


def known(w, p):
    if p['kind'] != 'expect':
        return None
    if 'shadow' in w.flags:
        return 'D9'
    if 'cr' in w.flags:
        return 'SKIP:carriage return at end of line (documented limitation)'
    return None


def run(ctx):
    g = Gen(ctx.seed * 1000003 + 3)
    n = 120 if ctx.tier == 'quick' else 3000
    def allow_of():
        if g.r.random() < 0.08:
            return ('shadow',)
        if g.r.random() < 0.12:
            return ('big',)
        # single lines around 4096 / 8192 bytes in entries next to the ones that are added / rewritten
        return ('mid',) if g.r.random() < 0.10 else ()
    worlds = [render('c03-%d' % i, make_spec(g, allow_of())) for i in range(n)]
    worlds += fixed_worlds()
    worlds += gap_worlds()
    run_suite(ctx, 'match.addressing', worlds, known=known, chunk=150)
    # a snapshot directory reached through a symbolic link, not yet there at the test's first call (the first call
    # creates it): the calls of a test keep counting 1, 2, 3 whatever spelling of the directory the library settles on
    # (implementation only: the model's file system has no links)
    from gen import cfg_line
    sym = []
    for k, (d, kinds) in enumerate([('lnk/snaps', 'snap'), ('lnk/deep/er/snaps', 'snap'), ('lnk/snaps', 'mixed'), ('lnk', 'snap')]):
        w = World('c03-symlink-%d' % k)
        w.add(mode_line(False, ''))
        w.add('fssymlink %s %s' % (core.hx('real/store'), core.hx('lnk')))
        w.add(cfg_line(1, d))
        vals = [b'first', b'second', b'third']
        for t in (1, 2, 3):
            w.add('begin %d %s' % (t, core.hx(b'TestSym')))
            for j, v in enumerate(vals):
                if kinds == 'mixed' and j == 1:
                    op, val = 'sasnap', v
                else:
                    op, val = 'snap', v
                def exp(line, raw, ww, t=t, v=v):
                    ks = [e for e, _ in line.events]
                    if t == 1:
                        return None if ks == ['L'] and len(line.writes) == 1 else 'the recording call of %r: expected one log and one written file, got %r w=%r' % (v, line.events, line.writes)
                    return suites.exp_silent(line, raw, ww)
                w.add('%s 1 %d %s' % (op, t, core.hx(val)), ('kth-call-addresses-slot-k-behind-a-symlink', exp))
            w.add('end %d' % t)
        sym.append(w)
    run_suite(ctx, 'match.addressing.symlink', sym, known=known, use_model=False)
    # "... or run concurrently": two tests sharing a file, every schedule of their lookups and rewrites (the explorer of
    # C06 on the pairs in which a slot is created or rewritten next to another test's slot): each slot ends up holding
    # what its own test stored, pre-existing entries keep their places
    import importlib
    c06 = importlib.import_module('props.C06')
    c06.explore(ctx, subset=[('update', 'update'), ('update', 'match'), ('match', 'update'), ('create', 'update'), ('update', 'create'),
                             ('create', 'create'), ('update', 'mismatch')])
    findings.report(ctx, 'C03')
