"""C17 - matcher failures fail the test and write nothing."""
import json
import core, findings
from core import World, hx, Line, parse_fs
from gen import Gen, mode_line, cfg_line
from suites import run_suite, parse_snap, exp_same_fs
import docs

LEAN_MODULES = ['GoSnaps.Props.C17', 'GoSnaps.Props.Tie.Flows', 'GoSnaps.Props.Tie.Matchers']

DOC = {'a': 1, 's': 'str', 'o': {'x': True, 'y': [1, 2]}, 'l': [{'k': 'v'}], 'n': None}
YD = {'a': 1, 's': 'str', 'o': {'x': True, 'y': [1, 2]}, 'flag': False}
YDOC = 'a: 1\ns: str\no:\n  x: true\n  y:\n    - 1\n    - 2\nflag: false\n'

def M(kind, paths, name, tok, typ=None, eom=True, ok=True, newv='<Any value>'):
    return dict(kind=kind, paths=paths, name=name, tok=tok, typ=typ, eom=eom, ok=ok, newv=newv)


def pool_json(g):
    return [
        M('A', ['a'], 'Any', docs.any_matcher(['a'])),
        M('A', ['s'], 'Any', docs.any_matcher(['s'], '"<redacted>"'), newv='<redacted>'),
        M('A', ['o.x', 'l.0.k'], 'Any', docs.any_matcher(['o.x', 'l.0.k'])),
        M('T', ['a'], 'Type', docs.type_matcher(['a'], 'float64'), typ='float64'),
        M('T', ['s'], 'Type', docs.type_matcher(['s'], 'string'), typ='string'),
        M('T', ['o'], 'Type', docs.type_matcher(['o'], 'map'), typ='map'),
        M('C', ['a'], 'Custom', docs.custom_matcher('a', True, '"c"'), newv='c'),
        M('A', ['missing'], 'Any', docs.any_matcher(['missing'])),
        # a container, then a path inside it: gone once the container is replaced by the placeholder
        M('A', ['o', 'o.x'], 'Any', docs.any_matcher(['o', 'o.x'])),
        M('A', ['l', 'l.0.k', 's'], 'Any', docs.any_matcher(['l', 'l.0.k', 's'])),
        # concrete element types never match a decoded document
        M('T', ['o.y'], 'Type', docs.type_matcher(['o.y'], 'intslice'), typ='intslice'),
        M('T', ['o'], 'Type', docs.type_matcher(['o'], 'strintmap'), typ='strintmap'),
        M('A', ['disk%s'], 'Any', docs.any_matcher(['disk%s'])),
        M('C', ['load%d.x'], 'Custom', docs.custom_matcher('load%d.x', True, '1')),
        M('T', ['n'], 'Type', docs.type_matcher(['n'], 'string'), typ='string'),
        M('A', ['o.nope'], 'Any', docs.any_matcher(['o.nope'])),
        M('T', ['a'], 'Type', docs.type_matcher(['a'], 'string'), typ='string'),
        M('T', ['nope'], 'Type', docs.type_matcher(['nope'], 'string'), typ='string'),
        M('C', ['s'], 'Custom', docs.custom_matcher('s', False, 'boom'), ok=False),
        M('C', ['nope'], 'Custom', docs.custom_matcher('nope', True, '1'), newv=1),
        M('A', ['missing'], 'Any', docs.any_matcher(['missing'], None, False), eom=False),
        M('T', ['nope'], 'Type', docs.type_matcher(['nope'], 'string', False), typ='string', eom=False),
        M('C', ['nope'], 'Custom', docs.custom_matcher('nope', True, '1', False), eom=False, newv=1),
    ]


def pool_yaml(g):
    return [
        M('A', ['$.a'], 'Any', docs.any_matcher(['$.a'])),
        M('T', ['$.s'], 'Type', docs.type_matcher(['$.s'], 'string'), typ='string'),
        M('T', ['$.a'], 'Type', docs.type_matcher(['$.a'], 'uint64'), typ='float64'),
        M('C', ['$.s'], 'Custom', docs.custom_matcher('$.s', True, '"c"'), newv='c'),
        M('A', ['$.missing'], 'Any', docs.any_matcher(['$.missing'])),
        M('A', ['$.o', '$.o.x'], 'Any', docs.any_matcher(['$.o', '$.o.x'])),
        M('T', ['$.o.y'], 'Type', docs.type_matcher(['$.o.y'], 'intslice'), typ='intslice'),
        M('T', ['$.o'], 'Type', docs.type_matcher(['$.o'], 'strintmap'), typ='strintmap'),
        M('T', ['$.a'], 'Type', docs.type_matcher(['$.a'], 'string'), typ='string'),
        M('C', ['$.s'], 'Custom', docs.custom_matcher('$.s', False, 'boom'), ok=False),
        M('A', ['$.missing'], 'Any', docs.any_matcher(['$.missing'], None, False), eom=False),
    ]


def lookup(doc, path):
    cur = doc
    for k in path.replace('$.', '').split('.'):
        if isinstance(cur, list):
            if not k.isdigit() or int(k) >= len(cur):
                return False, None
            cur = cur[int(k)]
        elif isinstance(cur, dict) and k in cur:
            cur = cur[k]
        else:
            return False, None
    return True, cur


def assign(doc, path, v):
    ks = path.replace('$.', '').split('.')
    cur = doc
    for k in ks[:-1]:
        cur = cur[int(k)] if isinstance(cur, list) else cur[k]
    if isinstance(cur, list):
        cur[int(ks[-1])] = v
    else:
        cur[ks[-1]] = v


def simulate(doc, ms):
    """which (matcher name, path) pairs fail, in order, when the matchers run left to right
    (a failing matcher's output is discarded)"""
    import copy
    cur = copy.deepcopy(doc)
    failing = []
    for m in ms:
        work = copy.deepcopy(cur)
        errs = []
        for p in m['paths']:
            ok, v = lookup(work, p)
            if not ok:
                if m['eom']:
                    errs.append((m['name'], p))
                continue
            if m['kind'] == 'T':
                if docs.go_type(v) != m['typ']:
                    errs.append((m['name'], p))
                    continue
                assign(work, p, '<Type:x>')
            elif m['kind'] == 'C' and not m['ok']:
                errs.append((m['name'], p))
                continue
            else:
                assign(work, p, m['newv'])
        if errs:
            failing += errs
        else:
            cur = work
    return failing


MODES = [(False, '', 'none'), (False, 'true', 'none'), (True, '', 'none'), (False, '', 'true'), (False, 'clean', 'false')]


def make_world(g, tag):
    r = g.r
    w = World(tag)
    ci, upd, cfgupd = r.choice(MODES)
    w.add(mode_line(ci, upd))
    w.add(cfg_line(1, 'snaps', 'f', None, cfgupd))
    w.add('begin 1 %s' % hx(b'TestM'))
    ordinal = {'entry': 0, 'sa': 0}
    for _ in range(r.randint(2, 5)):
        kind = r.choice(['json', 'json', 'yaml', 'sajson'])
        pool = pool_yaml(g) if kind == 'yaml' else pool_json(g)
        ms = [r.choice(pool) for _ in range(r.randint(1, 4))]
        failing = simulate(YD if kind == 'yaml' else DOC, ms)
        doc = YDOC if kind == 'yaml' else g.json_text(DOC)
        before = w.add('fsdump')
        key = 'sa' if kind == 'sajson' else 'entry'
        ordinal[key] += 1
        k = ordinal[key]

        def exp(line, raw, ww, failing=failing, before=before):
            if failing:
                if [x for x, _ in line.events] != ['E']:
                    return 'failing matchers must give exactly one failure, got %r' % [(x, v[:40]) for x, v in line.events]
                if line.writes or line.removed:
                    return 'a call with failing matchers wrote to the file system'
                msg = line.events[0][1].decode('utf-8', 'replace')
                pos = 0
                for n, p in failing:
                    needle = 'match.%s("%s")' % (n, p)
                    i = msg.find(needle, pos)
                    if i < 0:
                        return 'failure message does not name %s (in order): %r' % (needle, msg[:200])
                    pos = i + 1
                return None
            if any(x == 'E' for x, _ in line.events) and not (ci or cfgupd == 'false'):
                return 'all matchers satisfiable (or missing paths ignored) but the call failed: %r' % line.events[0][1][:100]
            return None
        i = w.add('%s 1 1 s %s %s' % (kind, hx(doc), ' '.join(m['tok'] for m in ms)), ('matcher-failure-reported', exp))

        def exp_fs(line, raw, ww, failing=failing, before=before, i=i, kind=kind, k=k):
            a, b = parse_fs(ww.impl[before]), parse_fs(raw)
            if failing:
                return None if a == b else 'file system changed by a call whose matchers failed'
            res = Line(ww.impl[i])
            if [x for x, _ in res.events] == ['L'] and kind != 'sajson':
                # later calls keep their slots: the entry created now must be slot k
                p = [x for x in b if x.endswith(b'/f.snap')]
                ents = parse_snap(b[p[0]]) if p else None
                if not ents or ents[-1][0] != b'TestM - %d' % k:
                    return 'call number %d of the test created slot %r' % (k, ents[-1][0] if ents else None)
            if [x for x, _ in res.events] == ['L'] and kind == 'sajson':
                if not any(x.endswith(b'/f_%d.snap.json' % k) for x in b):
                    return 'standalone call number %d did not create f_%d.snap.json: %r' % (k, k, sorted(b))
            return None
        w.add('fsdump', ('no-write-and-slots-kept', exp_fs))
    w.add('end 1')
    return w


def run(ctx):
    g = Gen(ctx.seed * 1000003 + 17)
    n = 200 if ctx.tier == 'quick' else 6000
    worlds = [make_world(g, 'c17-%d' % i) for i in range(n)]
    run_suite(ctx, 'match.matcher-errors', worlds, known=None, chunk=300)
    findings.report(ctx, 'C17')
