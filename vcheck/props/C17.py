"""C17 - matcher failures fail the test and write nothing."""
import json
import core, findings
from core import World, hx, Line, parse_fs
from gen import Gen, mode_line, cfg_line
from suites import run_suite, parse_snap, exp_same_fs
import docs

LEAN_MODULES = ['GoSnaps.Props.C17', 'GoSnaps.Props.Tie.Flows', 'GoSnaps.Props.Tie.Matchers', 'GoSnaps.Props.Tie.Pipeline', 'GoSnaps.Props.Tie.Wrappers']

DOC = {'a': 1, 's': 'str', 'o': {'x': True, 'y': [1, 2]}, 'l': [{'k': 'v'}], 'n': None}
YD = {'a': 1, 's': 'str', 'o': {'x': True, 'y': [1, 2]}, 'flag': False}
YDOC = 'a: 1\ns: str\no:\n  x: true\n  y:\n    - 1\n    - 2\nflag: false\n'

def M(kind, paths, name, tok, typ=None, eom=True, ok=True, newv='<Any value>'):
    return dict(kind=kind, paths=paths, name=name, tok=tok, typ=typ, eom=eom, ok=ok, newv=newv)


def pool_json(g):
    return [
        M('A', ['a'], 'Any', docs.any_matcher(['a'])),
        M('A', ['s'], 'Any', docs.any_matcher(['s'], '"<redacted>"'), newv='<redacted>'),
        M('A', ['o.x', 'l.0.k'], 'Any', docs.any_matcher(['o.x', 'l.0.k'])),
        M('T', ['a'], 'Type', docs.type_matcher(['a'], 'float64'), typ='float64'),
        M('T', ['s'], 'Type', docs.type_matcher(['s'], 'string'), typ='string'),
        M('T', ['o'], 'Type', docs.type_matcher(['o'], 'map'), typ='map'),
        M('C', ['a'], 'Custom', docs.custom_matcher('a', True, '"c"'), newv='c'),
        M('A', ['missing'], 'Any', docs.any_matcher(['missing'])),
        # a container, then a path inside it: gone once the container is replaced by the placeholder
        M('A', ['o', 'o.x'], 'Any', docs.any_matcher(['o', 'o.x'])),
        M('A', ['l', 'l.0.k', 's'], 'Any', docs.any_matcher(['l', 'l.0.k', 's'])),
        # concrete element types never match a decoded document
        M('T', ['o.y'], 'Type', docs.type_matcher(['o.y'], 'intslice'), typ='intslice'),
        M('T', ['o'], 'Type', docs.type_matcher(['o'], 'strintmap'), typ='strintmap'),
        M('A', ['disk%s'], 'Any', docs.any_matcher(['disk%s'])),
        M('C', ['load%d.x'], 'Custom', docs.custom_matcher('load%d.x', True, '1')),
        M('T', ['n'], 'Type', docs.type_matcher(['n'], 'string'), typ='string'),
        M('A', ['o.nope'], 'Any', docs.any_matcher(['o.nope'])),
        M('T', ['a'], 'Type', docs.type_matcher(['a'], 'string'), typ='string'),
        M('T', ['nope'], 'Type', docs.type_matcher(['nope'], 'string'), typ='string'),
        M('C', ['s'], 'Custom', docs.custom_matcher('s', False, 'boom'), ok=False),
        M('C', ['nope'], 'Custom', docs.custom_matcher('nope', True, '1'), newv=1),
        M('A', ['missing'], 'Any', docs.any_matcher(['missing'], None, False), eom=False),
        M('T', ['nope'], 'Type', docs.type_matcher(['nope'], 'string', False), typ='string', eom=False),
        M('C', ['nope'], 'Custom', docs.custom_matcher('nope', True, '1', False), eom=False, newv=1),
        # ErrOnMissingPath(false) forgives a MISSING path only: a present value of the wrong type, or a callback
        # error on a present value, still fails and is named
        M('T', ['a'], 'Type', docs.type_matcher(['a'], 'string', False), typ='string', eom=False),
        M('T', ['nope', 's', 'a'], 'Type', docs.type_matcher(['nope', 's', 'a'], 'string', False), typ='string', eom=False),
        M('C', ['s'], 'Custom', docs.custom_matcher('s', False, 'boom', False), ok=False, eom=False),
        # a shared list of a dozen masks of which this document has none: a dozen failures, each one named
        M('A', ['missing', 'a'], 'Any', docs.any_matcher(['missing', 'a'], None, False), eom=False),
        M('A', ['a', 'missing', 's'], 'Any', docs.any_matcher(['a', 'missing', 's'], None, False), eom=False),
        M('T', ['s', 'nope', 'a'], 'Type', docs.type_matcher(['s', 'nope', 'a'], 'string', False), typ='string', eom=False),
        M('A', ['gone%d' % i for i in range(12)], 'Any', docs.any_matcher(['gone%d' % i for i in range(12)])),
        M('T', ['o.gone%d' % i for i in range(11)] + ['a'], 'Type', docs.type_matcher(['o.gone%d' % i for i in range(11)] + ['a'], 'string'), typ='string'),
    ]


def pool_yaml(g):
    return [
        M('A', ['$.a'], 'Any', docs.any_matcher(['$.a'])),
        M('T', ['$.s'], 'Type', docs.type_matcher(['$.s'], 'string'), typ='string'),
        M('T', ['$.a'], 'Type', docs.type_matcher(['$.a'], 'uint64'), typ='float64'),
        M('C', ['$.s'], 'Custom', docs.custom_matcher('$.s', True, '"c"'), newv='c'),
        M('A', ['$.missing'], 'Any', docs.any_matcher(['$.missing'])),
        M('A', ['$.o', '$.o.x'], 'Any', docs.any_matcher(['$.o', '$.o.x'])),
        M('T', ['$.o.y'], 'Type', docs.type_matcher(['$.o.y'], 'intslice'), typ='intslice'),
        M('T', ['$.o'], 'Type', docs.type_matcher(['$.o'], 'strintmap'), typ='strintmap'),
        M('T', ['$.a'], 'Type', docs.type_matcher(['$.a'], 'string'), typ='string'),
        M('C', ['$.s'], 'Custom', docs.custom_matcher('$.s', False, 'boom'), ok=False),
        M('A', ['$.missing'], 'Any', docs.any_matcher(['$.missing'], None, False), eom=False),
        M('T', ['$.a'], 'Type', docs.type_matcher(['$.a'], 'string', False), typ='string', eom=False),
        M('C', ['$.s'], 'Custom', docs.custom_matcher('$.s', False, 'boom', False), ok=False, eom=False),
        M('A', ['$.gone%d' % i for i in range(12)], 'Any', docs.any_matcher(['$.gone%d' % i for i in range(12)])),
        # ErrOnMissingPath(false) with several paths: a forgiven missing path that is NOT the last one must not end the
        # walk - the paths after it are still checked / replaced
        M('T', ['$.nope', '$.s', '$.a'], 'Type', docs.type_matcher(['$.nope', '$.s', '$.a'], 'string', False), typ='string', eom=False),
        M('T', ['$.s', '$.nope', '$.a'], 'Type', docs.type_matcher(['$.s', '$.nope', '$.a'], 'string', False), typ='string', eom=False),
        M('A', ['$.missing', '$.a'], 'Any', docs.any_matcher(['$.missing', '$.a'], None, False), eom=False),
        M('A', ['$.a', '$.missing', '$.s'], 'Any', docs.any_matcher(['$.a', '$.missing', '$.s'], None, False), eom=False),
    ]


def lookup(doc, path):
    cur = doc
    for k in path.replace('$.', '').split('.'):
        if isinstance(cur, list):
            if not k.isdigit() or int(k) >= len(cur):
                return False, None
            cur = cur[int(k)]
        elif isinstance(cur, dict) and k in cur:
            cur = cur[k]
        else:
            return False, None
    return True, cur


def assign(doc, path, v):
    ks = path.replace('$.', '').split('.')
    cur = doc
    for k in ks[:-1]:
        cur = cur[int(k)] if isinstance(cur, list) else cur[k]
    if isinstance(cur, list):
        cur[int(ks[-1])] = v
    else:
        cur[ks[-1]] = v


def apply_one(m, cur):
    """(document after the matcher, failing (matcher name, path) pairs); the document is unchanged when
    the matcher fails"""
    import copy
    if m['kind'] == 'U':
        return cur, []          # a user-defined matcher that only inspects
    if m['kind'] == 'W':
        # a user-defined composite: its members run left to right like the top-level sequence (a failing
        # member's output is dropped), the group fails as a whole
        work, errs = cur, []
        for x in m['inner']:
            work, e = apply_one(x, work)
            errs += e
        return (cur, errs) if errs else (work, [])
    work = copy.deepcopy(cur)
    errs = []
    for p in m['paths']:
        ok, v = lookup(work, p)
        if not ok:
            if m['eom']:
                errs.append((m['name'], p))
            continue
        if m['kind'] == 'T':
            if docs.go_type(v) != m['typ']:
                errs.append((m['name'], p))
                continue
            assign(work, p, docs.type_placeholder(v))
        elif m['kind'] == 'C' and not m['ok']:
            errs.append((m['name'], p))
            continue
        else:
            assign(work, p, m['newv'])
    return (cur, errs) if errs else (work, [])


def simulate(doc, ms):
    """which (matcher name, path) pairs fail, in order, when the matchers run left to right
    (a failing matcher's output is discarded)"""
    import copy
    cur = copy.deepcopy(doc)
    failing = []
    for m in ms:
        cur, errs = apply_one(m, cur)
        failing += errs
    return failing, cur


def group(r, ms):
    """now and then some neighbouring matchers are grouped in a user-defined composite, and inspecting
    user-defined matchers are put in between"""
    ms = list(ms)
    if len(ms) >= 1 and r.random() < 0.3:
        i = r.randrange(len(ms))
        j = r.randint(i + 1, len(ms))
        inner = ms[i:j]
        ms[i:j] = [dict(kind='W', inner=inner, tok=docs.composite_matcher([m['tok'] for m in inner], r.random() < 0.7))]
    if r.random() < 0.15:
        ms.insert(r.randint(0, len(ms)), dict(kind='U', tok=docs.user_matcher(r.random() < 0.6, r.random() < 0.3)))
    return ms


MODES = [(False, '', 'none'), (False, 'true', 'none'), (True, '', 'none'), (False, '', 'true'), (False, 'clean', 'false')]
INVALID = {'json': ['{"a":', '', '{"a":1,}', 'nul', '{"a":1}{"b":2}'], 'yaml': ['a: [1, 2', 'key: "unterminated', 'a: b: c: d']}


def make_world(g, tag):
    r = g.r
    w = World(tag)
    ci, upd, cfgupd = r.choice(MODES)
    creating = not ci and cfgupd != 'false'
    w.add(mode_line(ci, upd))
    w.add(cfg_line(1, 'snaps', 'f', None, cfgupd))
    w.add(cfg_line(2, 'snaps', 'nested', None, cfgupd))
    nnest = 0
    # one to three executions of the same test in one process (go test -count=N): ordinals start again
    # at 1 in each of them, whatever happened in the one before
    nexec = r.choice([1, 1, 2, 2, 3])
    may_exist = set()
    for texec in range(1, nexec + 1):
        # an execution in which EVERY call is rejected before the snapshot stage (invalid document or
        # failing matchers), typically its only call
        all_fail = nexec > 1 and texec < nexec and r.random() < 0.5
        w.add('begin %d %s' % (texec, hx(b'TestM')))
        ordinal = {'entry': 0, 'sa': 0}
        for _ in range(r.choice([1, 1, 2]) if all_fail else r.randint(1 if nexec > 1 else 2, 5)):
            kind = r.choice(['json', 'json', 'yaml', 'sajson'])
            fam = 'yaml' if kind == 'yaml' else 'json'
            pool = pool_yaml(g) if kind == 'yaml' else pool_json(g)
            invalid = r.random() < (0.4 if all_fail else 0.06)
            # a YAML document without content ("" or a lone `---`) is valid: every path is missing in it, so every
            # matcher that insists on its path fails and is named
            empty_yaml = kind == 'yaml' and r.random() < 0.12
            base_doc = {} if empty_yaml else (YD if kind == 'yaml' else DOC)
            for _try in range(50):
                ms = group(r, [r.choice(pool) for _ in range(r.randint(1, 4))])
                failing, final = simulate(base_doc, ms)
                if invalid or not all_fail or failing:
                    break
            doc = (r.choice(['', '---\n']) if empty_yaml else YDOC) if kind == 'yaml' else g.json_text(DOC)
            form = r.choice(['s', 's', 'b', 'b', 'v']) if fam == 'json' else r.choice(['s', 'b'])
            fire = r.random() < 0.15
            if fire:
                # one of the matchers (a user-defined one, or a Custom callback) records a snapshot of another
                # Go value in another test while this call is between validation and formatting
                if r.random() < 0.5:
                    m = dict(kind='U', tok=docs.user_matcher(r.random() < 0.5, False, True))
                else:
                    pth = '$.a' if kind == 'yaml' else 'a'
                    m = M('C', [pth], 'Custom', docs.custom_matcher(pth, True, '"c"', True, None, True), newv='c')
                ms.insert(r.randint(0, len(ms)), m)
                failing, final = simulate(base_doc, ms)
            if invalid:
                doc, form = r.choice(INVALID[fam]), r.choice(['s', 'b'])
            before = w.add('fsdump')
            key = 'sa' if kind == 'sajson' else 'entry'
            ordinal[key] += 1
            k = ordinal[key]
            existed = (key, k) in may_exist

            def exp(line, raw, ww, failing=failing, before=before, invalid=invalid, existed=existed):
                if any(x == 'X' for x, _ in line.events):
                    return 'the []byte passed by the caller was modified by the call'
                if invalid:
                    if [x for x, _ in line.events] != ['E'] or line.writes or line.removed:
                        return 'an invalid document must give exactly one failure and no write, got %r' % [(x, v[:40]) for x, v in line.events]
                    return None
                if failing:
                    if [x for x, _ in line.events] != ['E']:
                        return 'failing matchers must give exactly one failure, got %r' % [(x, v[:40]) for x, v in line.events]
                    if line.writes or line.removed:
                        return 'a call with failing matchers wrote to the file system'
                    msg = line.events[0][1].decode('utf-8', 'replace')
                    pos = 0
                    for n, p in failing:
                        needle = 'match.%s("%s")' % (n, p)
                        i = msg.find(needle, pos)
                        if i < 0:
                            return 'failure message does not name %s (in order): %r' % (needle, msg[:200])
                        pos = i + 1
                    if msg.count('match.') != len(failing):
                        return 'failure message names %d matcher errors, %d matchers/paths fail on this document (%s): %r' % (
                            msg.count('match.'), len(failing), ', '.join('%s(%s)' % f for f in failing), msg[:300])
                    return None
                errs = [v for x, v in line.events if x == 'E']
                if errs and b'match.' in errs[0]:
                    return 'all matchers satisfiable (or missing paths ignored) but a matcher failure was reported: %r' % errs[0][:100]
                if errs and not existed and not (ci or cfgupd == 'false'):
                    # (a slot recorded by an earlier execution with other matchers may legitimately differ)
                    return 'all matchers satisfiable (or missing paths ignored) but the call failed: %r' % errs[0][:100]
                return None
            if fire:
                nnest += 1
                w.add('begin %d %s' % (100 + nnest, hx(b'TestNested%d' % nnest)))
                w.add('nest json 2 %d v %s' % (100 + nnest, hx(json.dumps({'nested': nnest, 'why': 'recorded from inside a matcher'}))))
            i = w.add('%s 1 %d %s %s %s' % (kind, texec, form, hx(doc), ' '.join(m['tok'] for m in ms)), ('matcher-failure-reported', exp))
            if fire:
                w.add('end %d' % (100 + nnest))

            def exp_fs(line, raw, ww, failing=failing, before=before, i=i, kind=kind, k=k, invalid=invalid, existed=existed, texec=texec, final=final):
                # (nested.snap belongs to the calls made from inside a matcher, which are not this call)
                a = dict((x, c) for x, c in parse_fs(ww.impl[before]).items() if not x.endswith(b'/nested.snap'))
                b = dict((x, c) for x, c in parse_fs(raw).items() if not x.endswith(b'/nested.snap'))
                if failing or invalid:
                    return None if a == b else 'file system changed by a call whose %s' % ('document is invalid' if invalid else 'matchers failed')
                res = Line(ww.impl[i])
                added = [x for x, _ in res.events] == ['L'] and res.events[0][1].endswith(b'added')
                if added and existed and creating:
                    return 'call number %d of execution %d recorded a NEW snapshot although an earlier execution already recorded its slot' % (k, texec)
                if added and kind != 'sajson':
                    # later calls keep their slots: the entry created now must be slot k
                    p = [x for x in b if x.endswith(b'/f.snap')]
                    ents = parse_snap(b[p[0]]) if p else None
                    if not ents or ents[-1][0] != b'TestM - %d' % k:
                        return 'call number %d of the test (execution %d) created slot %r' % (k, texec, ents[-1][0] if ents else None)
                if added and kind == 'sajson':
                    if not any(x.endswith(b'/f_%d.snap.json' % k) for x in b) or len(b) != len(a) + 1:
                        return 'standalone call number %d (execution %d) did not create f_%d.snap.json: %r' % (k, texec, k, sorted(set(b) - set(a)))
                if added and kind != 'yaml':
                    # the remaining matchers and the comparison proceed normally: what is recorded is the
                    # document after ALL the (satisfied) matchers
                    body = ents[-1][1] if kind == 'json' else [c for x, c in b.items() if x.endswith(b'/f_%d.snap.json' % k)][0]
                    try:
                        got = json.loads(body.decode())
                    except Exception as e:
                        return 'recorded text is not valid JSON: %s' % e
                    if got != final:
                        return 'the recorded document is not the input after all its matchers: %r' % body[:300]
                return None
            w.add('fsdump', ('no-write-and-slots-kept', exp_fs))
            if not failing and not invalid:
                may_exist.add((key, k))
        w.add('end %d' % texec)
    return w


def run(ctx):
    g = Gen(ctx.seed * 1000003 + 17)
    docs.STYLE = g.r
    n = 200 if ctx.tier == 'quick' else 6000
    worlds = [make_world(g, 'c17-%d' % i) for i in range(n)]
    run_suite(ctx, 'match.matcher-errors', worlds, known=None, chunk=300)
    findings.report(ctx, 'C17')
