"""C02 - every change of the formatted value is reported."""
import core, suites, findings, collide
from core import World
from gen import Gen, mode_line, cfg_line
from suites import gen_history, emit_exec, exp_one_error_no_write, exp_same_fs, run_suite, mutate_call, conflated

LEAN_MODULES = ['GoSnaps.Props.C02', 'GoSnaps.Props.C02World', 'GoSnaps.Props.C13Difflib', 'GoSnaps.Props.C13', 'GoSnaps.Props.Tie.Escape', 'GoSnaps.Props.Tie.Diff', 'GoSnaps.Props.Tie.SnapshotIO', 'GoSnaps.Props.Tie.Snapshot', 'GoSnaps.Props.Tie.Flows', 'GoSnaps.Props.Tie.DiffIO', 'GoSnaps.Props.Tie.EndToEnd', 'GoSnaps.Props.Tie.SingleLine', 'GoSnaps.Props.Tie.SingleLineC02', 'GoSnaps.Props.Tie.DifflibGen', 'GoSnaps.Props.Tie.DifflibGen2', 'GoSnaps.Props.Tie.DifflibGen3', 'GoSnaps.Props.Tie.Wrappers']
NOUPD = [(False, '', 'none'), (True, 'true', 'none'), (False, 'true', 'false'), (False, 'clean', 'none'), (True, '', 'true'), (False, 'other', 'none')]


def make_spec(g, allow):
    h = gen_history(g, allow, max_tests=3, max_calls=4)
    spec = dict(cfgs=h.cfgs, execs=h.execs, flags=set(h.flags), mode=g.r.choice(NOUPD), seed=g.r.randrange(1 << 30))
    # the recorded files as a checkout with core.autocrlf leaves them (CR LF or mixed line endings):
    # the entries are still there, so every changed value is still reported and nothing is created
    spec['crlf'] = g.r.choice(suites.CRLF_MODES) if g.r.random() < 0.15 and 'cr' not in spec['flags'] else None
    if spec['crlf']:
        spec['flags'].add('crlf-file')
    spec['edit'] = None if spec['crlf'] else suites.edit_choice(g.r, h.execs)
    return spec


def render(tag, spec):
    w = World(tag)
    w.spec, w.render = spec, render
    w.flags |= spec['flags']
    g = Gen(spec['seed'])
    w.add(mode_line(False, ''))
    for c in spec['cfgs']:
        w.add(c)
    texec = 0
    rec = {}
    for ei, (name, calls) in enumerate(spec['execs']):
        texec += 1
        rec[ei] = emit_exec(w, texec, name, calls)
    if spec.get('edit'):
        w.add('fsedit ' + spec['edit'])
    if spec.get('crlf'):
        for op in suites.crlf_ops(spec['cfgs'], spec['crlf']):
            w.add(op)
    ref = w.add('fsdump')
    ci, upd, cfgupd = spec['mode']
    w.add('reset')
    w.add(mode_line(ci, upd))
    if cfgupd != 'none':
        for c in spec['cfgs']:
            t = c.split()
            t[5] = cfgupd
            w.add(' '.join(t))
    for ei, (name, calls) in enumerate(spec['execs']):
        texec += 1
        w.add('begin %d %s' % (texec, core.hx(name)))
        for k, (cfgno, c) in enumerate(calls):
            m, mtag = mutate_call(g, c, eol=True)
            ri = rec[ei][k]
            if m is None:
                w.add(c.op(cfgno, texec))
                continue
            if c.kind in ('snap', 'yaml'):
                a = c.payload if not isinstance(c.payload, (list, tuple)) else b'\n'.join(c.payload)
                b = m.payload if not isinstance(m.payload, (list, tuple)) else b'\n'.join(m.payload)
                if conflated(a, b):
                    w.flags.add('conflate')

            def exp(line, raw, ww, ri=ri):
                r0 = core.Line(ww.impl[ri])
                if [k for k, _ in r0.events] != ['L']:
                    return None       # the original was not recorded (invalid document ...)
                return exp_one_error_no_write(line, raw, ww)
            w.add(m.op(cfgno, texec), ('mismatch-reported:' + mtag, exp))
        w.add('end %d' % texec)

    def exp_dir(line, raw, ww):
        return exp_same_fs(ref)(line, raw, ww)
    w.add('fsdump', ('directory-unchanged', exp_dir))
    return w


def exact_pair_world(tag, kind, a, b, mode, name=b'TestPair', form='s', oracle='colliding-lines-reported'):
    """record a (kind = snap | sasnap | yaml | json | sajson), then - updating not enabled - present b:
    one failure, nothing written.  If a could not be recorded (not a valid document) nothing is claimed."""
    from gen import Call
    mk = (lambda v: Call(kind, v, form)) if kind in ('yaml', 'json', 'sajson') else (lambda v: Call(kind, v))
    spec = dict(cfgs=[cfg_line(1, 'snaps')], execs=[(name, [(1, mk(a))])], flags=set(), mode=mode, seed=0)
    w = render(tag, spec)
    w.spec = None           # the pair is the point: no structural shrinking
    for j, op in enumerate(w.ops):
        if op.startswith(kind + ' 1 2 '):
            rec = [i for i, o in enumerate(w.ops) if o.startswith(kind + ' 1 1 ')][0]

            def exp(line, raw, ww, rec=rec):
                if [k for k, _ in core.Line(ww.impl[rec]).events] != ['L']:
                    return None
                return exp_one_error_no_write(line, raw, ww)
            w.ops[j] = mk(b).op(1, 2)
            w.expect[j] = (oracle, exp)
    return w


def collision_worlds(r, thorough=False):
    """stored and received values that differ ONLY in lines a coarser-than-bytes comparison takes for
    equal (collide.py: 32-bit hash collisions, equal prefixes/suffixes/lengths, case, whitespace and
    normalisation variants): as the whole value, inside short and long documents, through every entry
    point that can carry them"""
    worlds = []
    by = {}
    for p in collide.pairs():
        by.setdefault(p[0], []).append(p)
    n = 0
    for cls in sorted(by):
        ps = by[cls][:]
        r.shuffle(ps)
        for p in ps[:len(ps) if thorough else 2]:
            shapes = [('snap', 1, 'first'), ('snap', 3, 'first'), ('snap', 4, 'last'), ('sasnap', 3, 'middle'), ('snap', 14, None),
                      ('sasnap', 1, 'first'), ('snap', r.choice([40, 230]), None)]
            for kind, nl, where in shapes:
                a, b = collide.document_pair(r, p, nl, where, repeats=1 if nl < 10 else r.choice([1, 2]))
                n += 1
                worlds.append(exact_pair_world('c02-coll-%s-%s-%d' % (cls, kind, n), kind, a, b, NOUPD[n % len(NOUPD)]))
            la, lb = collide.variant(r, p)
            printable = all(32 <= c < 127 and c not in b'"\\' for c in la + lb)
            if printable and la.strip() == la and lb.strip() == lb and la and lb:
                # the pair as a YAML block-scalar line and as a JSON string value (one line of the pretty-printed document)
                n += 1
                worlds.append(exact_pair_world('c02-coll-%s-yaml-%d' % (cls, n), 'yaml', b'title: doc\ntext: |\n  first\n  ' + la + b'\n  last\nz: 1\n',
                                               b'title: doc\ntext: |\n  first\n  ' + lb + b'\n  last\nz: 1\n', NOUPD[n % len(NOUPD)]))
                for kind in ('json', 'sajson'):
                    n += 1
                    worlds.append(exact_pair_world('c02-coll-%s-%s-%d' % (cls, kind, n), kind, b'{"id": 1, "k": "' + la + b'", "z": [1, 2]}',
                                                   b'{"id": 1, "k": "' + lb + b'", "z": [1, 2]}', NOUPD[n % len(NOUPD)], form=r.choice(['s', 'b'])))
    return worlds


def stale_worlds(r, n):
    """state that survives between calls: an entry is recorded, then rewritten IN THE SAME PROCESS (update
    mode) with a value of the same length - same file size, and the harness keeps every file's mtime at one
    sentinel value, the image of a coarse-timestamp file system - then, updating off, the ORIGINAL value is
    presented again: it differs from what the file holds now and must be reported.  (Anything that remembers
    what a file contained, keyed by path, size or time, answers from memory here.)"""
    from gen import Call
    worlds = []
    flip = lambda c: b'Q' if c != 81 else b'R'
    words = [b'alpha', b'bravo', b'value', b'12345', b'x: 1', b'{"a": 1}', b'line']
    for i in range(n):
        kind = r.choice(['snap', 'snap', 'sasnap', 'json', 'yaml'])
        if kind == 'json':
            a = b'{"k": "%s", "n": %d}' % (r.choice(words[:3]), 10 + i % 80)
            b = a[:7] + flip(a[7]) + a[8:]
        elif kind == 'yaml':
            a = b'k: %s\nn: %d\n' % (r.choice(words[:3]), 10 + i % 80)
            b = a[:3] + flip(a[3]) + a[4:]
        else:
            lines = [r.choice(words) for _ in range(r.randint(1, 5))]
            a = b'\n'.join(lines)
            j = r.choice([k for k, c in enumerate(a) if bytes([c]).isalnum()])
            b = a[:j] + flip(a[j]) + a[j + 1:]
        mk = (lambda v: Call(kind, v, 's')) if kind in ('yaml', 'json') else (lambda v: Call(kind, v))
        others = r.randint(0, 2)
        w = World('c02-stale-%s-%d' % (kind, i))
        w.add(mode_line(False, ''))
        w.add(cfg_line(1, 'snaps'))
        t = 0
        for o in range(others):                    # neighbours in the same file
            t += 1
            w.add('begin %d %s' % (t, core.hx(b'TestOther%d' % o)))
            w.add(Call('snap', b'other %d' % o).op(1, t))
            w.add('end %d' % t)
        t += 1
        w.add('begin %d %s' % (t, core.hx(b'TestStale')))
        w.add(mk(a).op(1, t))
        w.add('end %d' % t)
        if r.random() < 0.5:
            t += 1                                   # a read of the recorded value in between
            w.add('begin %d %s' % (t, core.hx(b'TestStale')))
            w.add(mk(a).op(1, t), ('recorded-value-replays', suites.exp_silent))
            w.add('end %d' % t)
        w.add(mode_line(False, 'true'))
        t += 1
        w.add('begin %d %s' % (t, core.hx(b'TestStale')))
        w.add(mk(b).op(1, t))
        w.add('end %d' % t)
        ci, upd, _ = r.choice([m for m in NOUPD if m[2] == 'none'])
        if r.random() < 0.3:
            w.add('reset')
        w.add(mode_line(ci, upd))
        t += 1
        w.add('begin %d %s' % (t, core.hx(b'TestStale')))
        w.add(mk(a).op(1, t), ('old-value-reported-after-same-size-update', exp_one_error_no_write))
        w.add('end %d' % t)
        t += 1
        w.add('begin %d %s' % (t, core.hx(b'TestStale')))
        w.add(mk(b).op(1, t), ('new-value-replays', suites.exp_silent))
        w.add('end %d' % t)
        worlds.append(w)
    return worlds


def hand_edited_json_worlds(r):
    """a JSON document is recorded, then the stored text is replaced FROM OUTSIDE by the same document in another
    presentation (compact, other indentation, other member order, a final newline, bytes after the value, a
    duplicate member): the stored text differs from the formatted value, so presenting the document again -
    updating not enabled - is a mismatch that must be reported, through MatchJSON and MatchStandaloneJSON alike
    (a comparison that re-formats the stored side takes all of these for "the same")."""
    from gen import Call
    worlds = []
    doc = b'{"b": 1, "a": {"y": [1, 2], "x": "s"}}'
    edits = [('compact', b'{"a":{"x":"s","y":[1,2]},"b":1}'),
             ('indent4', b'{\n    "a": {\n        "x": "s",\n        "y": [1, 2]\n    },\n    "b": 1\n}'),
             ('order', b'{\n "b": 1,\n "a": {\n  "y": [1, 2],\n  "x": "s"\n }\n}'),
             ('trailing-bytes', b'{\n "a": {\n  "x": "s",\n  "y": [1, 2]\n },\n "b": 1\n} trailing'),
             ('second-value', b'{\n "a": {\n  "x": "s",\n  "y": [1, 2]\n },\n "b": 1\n}\n{"c": 3}'),
             ('duplicate', b'{\n "a": {\n  "x": "s",\n  "y": [1, 2]\n },\n "a": {\n  "x": "s",\n  "y": [1, 2]\n },\n "b": 1\n}'),
             ('two-spaces', b'{\n "a":  {\n  "x": "s",\n  "y": [1, 2]\n },\n "b": 1\n}'),
             ('final-newline', b'{\n "a": {\n  "x": "s",\n  "y": [1, 2]\n },\n "b": 1\n}\n')]
    n = 0
    for tag, text in edits:
        for kind in ('sajson', 'json'):
            if kind == 'json' and tag == 'final-newline':
                continue            # (the multi-entry framing has its own rule for one final newline of a body)
            for ci, upd, opt in (NOUPD[n % len(NOUPD)], NOUPD[(n + 3) % len(NOUPD)]):
                n += 1
                w = World('c02-handjson-%s-%s-%d' % (tag, kind, n))
                w.add(mode_line(False, ''))
                w.add(cfg_line(1, 'snaps'))
                w.add(cfg_line(2, 'snaps', None, None, opt))
                w.add('begin 1 %s' % core.hx(b'TestHand'))
                w.add(Call(kind, doc, r.choice(['s', 'b'])).op(1, 1))
                w.add('end 1')
                if kind == 'sajson':
                    w.add('fsput %s %s' % (core.hx('snaps/TestHand_1.snap.json'), core.hx(text)))
                else:
                    w.add('fsput %s %s' % (core.hx('snaps/zz_verif_harness_test.snap'), core.hx(b'\n[TestHand - 1]\n' + text + b'\n---\n')))
                w.add(mode_line(ci, upd))
                w.add('begin 2 %s' % core.hx(b'TestHand'))
                w.add(Call(kind, doc, r.choice(['s', 'b'])).op(2, 2), ('re-presented-stored-json-reported', exp_one_error_no_write))
                w.add('end 2')
                worlds.append(w)
    return worlds


def popular_worlds(r, n):
    """long values (200-330 lines) in which some line is POPULAR (it makes up more than 1 % of the text: the
    separator of a record dump, a closing brace): difflib's junk heuristic purges such lines from its index, so
    the matcher takes other paths through them.  One popular line is replaced by a copy of its neighbour, a
    record is dropped, or a line inside a record changes: every such change must be reported."""
    worlds = []
    for i in range(n):
        nrec = r.randint(50, 80)
        sep = r.choice([b'--', b'}', b'', b'---8<---'])
        recs = [[b'name: item %03d' % k, b'value: %d' % r.randrange(10 ** 6)] + ([b'note: n%d' % k] if r.random() < 0.3 else []) + [sep] for k in range(nrec)]
        a = [l for rec in recs for l in rec]
        b = list(a)
        pops = [k for k, l in enumerate(b) if l == sep and k > 0]
        kind = r.choice(['pop->prev', 'pop->prev', 'drop-record', 'edit-value', 'pop->next'])
        k = r.choice(pops[len(pops) // 4:])
        if kind == 'pop->prev':
            b[k] = b[k - 1]
        elif kind == 'pop->next' and k + 1 < len(b):
            b[k] = b[k + 1]
        elif kind == 'drop-record':
            del b[k + 1:k + 1 + len(recs[0])]
        else:
            b[k - 1] = b[k - 1] + b'0'
        if a == b:
            continue
        ta, tb = b'\n'.join(a), b'\n'.join(b)
        kindw = r.choice(['snap', 'snap', 'sasnap'])
        worlds.append(exact_pair_world('c02-popular-%s-%d' % (kind, i), kindw, ta, tb, NOUPD[i % len(NOUPD)], oracle='change-in-a-long-text-with-popular-lines-reported'))
    return worlds


def known(w, p):
    if p['kind'] != 'expect':
        return None
    if 'conflate' in w.flags:
        return 'D10'
    if 'shadow' in w.flags:
        return 'D9'
    if 'cr' in w.flags:
        return 'SKIP:carriage return at end of line (documented limitation)'
    return None


def run(ctx):
    g = Gen(ctx.seed * 1000003 + 2)
    n = 150 if ctx.tier == 'quick' else 5000
    worlds = [render('c02-%d' % i, make_spec(g, (('nosafn',) if g.r.random() < 0.5 else ()) + (('punct',) if g.r.random() < 0.3 else ()))) for i in range(n)]
    from gen import Call
    for i, (a, b) in enumerate([(b'', b'no longer empty'), (b'', b'\n'), (b'a\n---\nb', b'a\n/-/-/-/\nb'), (b'/-/-/-/', b'---'), (b'x\n/-/-/-/\n', b'x\n---\n'), (b'---\n---', b'---\n/-/-/-/'),
                                # standalone values differing only in their line endings
                                (b'a\nb', b'a\r\nb'), (b'a\r\nb', b'a\nb'), (b'id,name\r\n1,x\r\n', b'id,name\n1,x\n'), (b'x\n\n', b'x\n\r\n')]):
        spec = dict(cfgs=[cfg_line(1, 'snaps')], execs=[(b'TestSwap', [(1, Call('sasnap', a))])], flags=set(),
                    mode=NOUPD[i % len(NOUPD)], seed=i)
        w = render('c02-swap-%d' % i, spec)
        # replace the generated mutation by the exact swap
        for j, op in enumerate(w.ops):
            if op.startswith('sasnap 1 2 '):
                w.ops[j] = 'sasnap 1 2 ' + core.hx(b)
                w.expect[j] = ('standalone-token-swap-reported', suites.exp_one_error_no_write)
        worlds.append(w)
    # fixed pairs for the multi-entry format: adjacent terminator lines (each must be escaped on its
    # own), and values that format to the empty text at the front of a multi-value call
    fixed = [(b'---\n---', b'---'), (b'a\n---\n---\nb', b'a\n---'), (b'---\n---\n---', b'---\n---'), (b'x\n---\n---', b'x\n---\n'),
             ([b'', b'a'], [b'a']), ([b'a'], [b'', b'a']), ([b'', b'', b'z'], [b'', b'z']), ([b'a', b''], [b'a'])]
    for i, (a, b) in enumerate(fixed):
        for kind in ('snap', 'yaml') if not isinstance(a, list) else ('snap',):
            if kind == 'yaml':
                a2, b2 = b'k: |\n  v\n' + a + b'\nz: 1\n', b'k: |\n  v\n' + b + b'\nz: 1\n'      # `---` separates YAML documents
            else:
                a2, b2 = a, b
            spec = dict(cfgs=[cfg_line(1, 'snaps')], execs=[(b'TestFixed', [(1, Call(kind, a2))])], flags=set(),
                        mode=NOUPD[i % len(NOUPD)], seed=i)
            w = render('c02-fixed-%s-%d' % (kind, i), spec)
            for j, op in enumerate(w.ops):
                if op.startswith(kind + ' 1 2 '):
                    w.ops[j] = Call(kind, b2).op(1, 2)
                    w.expect[j] = ('fixed-pair-reported', suites.exp_one_error_no_write)
            worlds.append(w)
    worlds += collision_worlds(Gen(ctx.seed * 1000003 + 202).r, ctx.tier == 'thorough')
    worlds += popular_worlds(Gen(ctx.seed * 1000003 + 2003).r, 12 if ctx.tier == 'quick' else 150)
    worlds += stale_worlds(Gen(ctx.seed * 1000003 + 2002).r, 40 if ctx.tier == 'quick' else 600)
    worlds += hand_edited_json_worlds(Gen(ctx.seed * 1000003 + 2004).r)
    run_suite(ctx, 'match.mismatch', worlds, known=known)
    if not ctx.facts.get('bools', {}).get('scannerUnbounded', True):
        # the proof obligation source_scanner_unbounded is broken: search for a line behind which a changed value is
        # no longer compared with what is stored (implementation only; the model has no limit)
        from gen import Call
        for size in (70000, 1 << 20, 17 << 20, 80 << 20):
            w = World('c02-longline-%d' % size)
            w.add(mode_line(False, ''))
            w.add(cfg_line(1, 'snaps'))
            for t, (name, val, exp) in enumerate([(b'TestLong', b'L' * size + b'\nnext', None), (b'TestB', b'b-old', None),
                                                  (b'TestB', b'b-new', ('changed-value-behind-a-long-line-reported', exp_one_error_no_write))], 1):
                w.add('begin %d %s' % (t, core.hx(name)))
                w.add(Call('snap', val).op(1, t), exp)
                w.add('end %d' % t)
            before = len(ctx.violations)
            run_suite(ctx, 'match.mismatch.long-line-%d' % size, [w], known=known, use_model=False)
            if len(ctx.violations) > before:
                break
    # colours on: the report must still be non-empty (no model: ANSI layout is not modelled)
    gc = Gen(ctx.seed * 1000003 + 22)
    nc = 80 if ctx.tier == 'quick' else 3000
    cw = []
    for i in range(nc):
        w = render('c02c-%d' % i, make_spec(gc, ('nosafn',)))
        cw.append(w)
    cw += collision_worlds(Gen(ctx.seed * 1000003 + 222).r, ctx.tier == 'thorough')
    run_suite(ctx, 'match.mismatch.colour', cw, env={'NO_COLOR': ''}, known=known, use_model=False)
    # the comparison itself: the diff engine on long sequences with popular elements (the suite of C13, whose
    # theorems `report_empty_iff` this property rests on)
    import importlib.util, os, random
    sp = importlib.util.spec_from_file_location('C13', os.path.join(os.path.dirname(os.path.abspath(__file__)), 'C13.py'))
    c13 = importlib.util.module_from_spec(sp)
    sp.loader.exec_module(c13)
    binary = core.build_pkg_harness(ctx, 'internal/difflib', 'difflib', 'difflib.test')
    if binary:
        rnd = random.Random(ctx.seed * 1000003 + 213)
        longp = []
        for _ in range(40 if ctx.tier == 'quick' else 400):
            n = rnd.randint(195, 330)
            alpha = rnd.choice(['abc', 'abcdef', 'abcdefghijklmnopqrstuvwxyz'])
            a = ''.join(rnd.choice(alpha + 'aaaa') for _ in range(n))
            b = list(a)
            for _ in range(rnd.randint(1, 4)):
                i = rnd.randrange(1, len(b))
                if rnd.random() < 0.5:
                    b[i] = b[i - 1]          # a (possibly popular) element replaced by a copy of its neighbour
                else:
                    b[i:i + rnd.randint(0, 3)] = [rnd.choice(alpha) for _ in range(rnd.randint(0, 3))]
            longp.append((a, ''.join(b)))
        c13.difflib_suite(ctx, binary, 'difflib.long-popular', longp)
    findings.report(ctx, 'C02')
