"""C02 - every change of the formatted value is reported."""
import core, suites, findings
from core import World
from gen import Gen, mode_line, cfg_line
from suites import gen_history, emit_exec, exp_one_error_no_write, exp_same_fs, run_suite, mutate_call, conflated

LEAN_MODULES = ['GoSnaps.Props.C02', 'GoSnaps.Props.C02World', 'GoSnaps.Props.Tie.Escape', 'GoSnaps.Props.Tie.Diff', 'GoSnaps.Props.Tie.SnapshotIO', 'GoSnaps.Props.Tie.Snapshot']
NOUPD = [(False, '', 'none'), (True, 'true', 'none'), (False, 'true', 'false'), (False, 'clean', 'none'), (True, '', 'true'), (False, 'other', 'none')]


def make_spec(g, allow):
    h = gen_history(g, allow, max_tests=3, max_calls=4)
    spec = dict(cfgs=h.cfgs, execs=h.execs, flags=set(h.flags), mode=g.r.choice(NOUPD), seed=g.r.randrange(1 << 30))
    # the recorded files as a checkout with core.autocrlf leaves them (CR LF or mixed line endings):
    # the entries are still there, so every changed value is still reported and nothing is created
    spec['crlf'] = g.r.choice(suites.CRLF_MODES) if g.r.random() < 0.15 and 'cr' not in spec['flags'] else None
    if spec['crlf']:
        spec['flags'].add('crlf-file')
    return spec


def render(tag, spec):
    w = World(tag)
    w.spec, w.render = spec, render
    w.flags |= spec['flags']
    g = Gen(spec['seed'])
    w.add(mode_line(False, ''))
    for c in spec['cfgs']:
        w.add(c)
    texec = 0
    rec = {}
    for ei, (name, calls) in enumerate(spec['execs']):
        texec += 1
        rec[ei] = emit_exec(w, texec, name, calls)
    if spec.get('crlf'):
        for op in suites.crlf_ops(spec['cfgs'], spec['crlf']):
            w.add(op)
    ref = w.add('fsdump')
    ci, upd, cfgupd = spec['mode']
    w.add('reset')
    w.add(mode_line(ci, upd))
    if cfgupd != 'none':
        for c in spec['cfgs']:
            t = c.split()
            t[5] = cfgupd
            w.add(' '.join(t))
    for ei, (name, calls) in enumerate(spec['execs']):
        texec += 1
        w.add('begin %d %s' % (texec, core.hx(name)))
        for k, (cfgno, c) in enumerate(calls):
            m, mtag = mutate_call(g, c, eol=True)
            ri = rec[ei][k]
            if m is None:
                w.add(c.op(cfgno, texec))
                continue
            if c.kind in ('snap', 'yaml'):
                a = c.payload if not isinstance(c.payload, (list, tuple)) else b'\n'.join(c.payload)
                b = m.payload if not isinstance(m.payload, (list, tuple)) else b'\n'.join(m.payload)
                if conflated(a, b):
                    w.flags.add('conflate')

            def exp(line, raw, ww, ri=ri):
                r0 = core.Line(ww.impl[ri])
                if [k for k, _ in r0.events] != ['L']:
                    return None       # the original was not recorded (invalid document ...)
                return exp_one_error_no_write(line, raw, ww)
            w.add(m.op(cfgno, texec), ('mismatch-reported:' + mtag, exp))
        w.add('end %d' % texec)

    def exp_dir(line, raw, ww):
        return exp_same_fs(ref)(line, raw, ww)
    w.add('fsdump', ('directory-unchanged', exp_dir))
    return w


def known(w, p):
    if p['kind'] != 'expect':
        return None
    if 'conflate' in w.flags:
        return 'D10'
    if 'shadow' in w.flags:
        return 'D9'
    if 'cr' in w.flags:
        return 'SKIP:carriage return at end of line (documented limitation)'
    return None


def run(ctx):
    g = Gen(ctx.seed * 1000003 + 2)
    n = 150 if ctx.tier == 'quick' else 5000
    worlds = [render('c02-%d' % i, make_spec(g, ('nosafn',) if g.r.random() < 0.5 else ())) for i in range(n)]
    from gen import Call
    for i, (a, b) in enumerate([(b'a\n---\nb', b'a\n/-/-/-/\nb'), (b'/-/-/-/', b'---'), (b'x\n/-/-/-/\n', b'x\n---\n'), (b'---\n---', b'---\n/-/-/-/'),
                                # standalone values differing only in their line endings
                                (b'a\nb', b'a\r\nb'), (b'a\r\nb', b'a\nb'), (b'id,name\r\n1,x\r\n', b'id,name\n1,x\n'), (b'x\n\n', b'x\n\r\n')]):
        spec = dict(cfgs=[cfg_line(1, 'snaps')], execs=[(b'TestSwap', [(1, Call('sasnap', a))])], flags=set(),
                    mode=NOUPD[i % len(NOUPD)], seed=i)
        w = render('c02-swap-%d' % i, spec)
        # replace the generated mutation by the exact swap
        for j, op in enumerate(w.ops):
            if op.startswith('sasnap 1 2 '):
                w.ops[j] = 'sasnap 1 2 ' + core.hx(b)
                w.expect[j] = ('standalone-token-swap-reported', suites.exp_one_error_no_write)
        worlds.append(w)
    # fixed pairs for the multi-entry format: adjacent terminator lines (each must be escaped on its
    # own), and values that format to the empty text at the front of a multi-value call
    fixed = [(b'---\n---', b'---'), (b'a\n---\n---\nb', b'a\n---'), (b'---\n---\n---', b'---\n---'), (b'x\n---\n---', b'x\n---\n'),
             ([b'', b'a'], [b'a']), ([b'a'], [b'', b'a']), ([b'', b'', b'z'], [b'', b'z']), ([b'a', b''], [b'a'])]
    for i, (a, b) in enumerate(fixed):
        for kind in ('snap', 'yaml') if not isinstance(a, list) else ('snap',):
            if kind == 'yaml':
                a2, b2 = b'k: |\n  v\n' + a + b'\nz: 1\n', b'k: |\n  v\n' + b + b'\nz: 1\n'      # `---` separates YAML documents
            else:
                a2, b2 = a, b
            spec = dict(cfgs=[cfg_line(1, 'snaps')], execs=[(b'TestFixed', [(1, Call(kind, a2))])], flags=set(),
                        mode=NOUPD[i % len(NOUPD)], seed=i)
            w = render('c02-fixed-%s-%d' % (kind, i), spec)
            for j, op in enumerate(w.ops):
                if op.startswith(kind + ' 1 2 '):
                    w.ops[j] = Call(kind, b2).op(1, 2)
                    w.expect[j] = ('fixed-pair-reported', suites.exp_one_error_no_write)
            worlds.append(w)
    run_suite(ctx, 'match.mismatch', worlds, known=known)
    # colours on: the report must still be non-empty (no model: ANSI layout is not modelled)
    gc = Gen(ctx.seed * 1000003 + 22)
    nc = 80 if ctx.tier == 'quick' else 3000
    cw = []
    for i in range(nc):
        w = render('c02c-%d' % i, make_spec(gc, ('nosafn',)))
        cw.append(w)
    run_suite(ctx, 'match.mismatch.colour', cw, env={'NO_COLOR': ''}, known=known, use_model=False)
    findings.report(ctx, 'C02')
