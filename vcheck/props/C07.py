"""C07 - Clean family check (see cleanworlds.py for the world builder and the oracles)."""
import core, findings, cleanworlds as cw
from gen import Gen
from suites import run_suite

LEAN_MODULES = ['GoSnaps.Props.C07', 'GoSnaps.Props.Tie.TestID', 'GoSnaps.Props.C07World', 'GoSnaps.Props.Tie.Registry', 'GoSnaps.Props.Tie.CleanIO', 'GoSnaps.Props.Tie.CleanTopIO1', 'GoSnaps.Props.Tie.CleanTopIO2', 'GoSnaps.Props.Tie.CleanTopIO3', 'GoSnaps.Props.Tie.CleanTopIO', 'GoSnaps.Props.Tie.EndToEndClean', 'GoSnaps.Props.Tie.EndToEndClean2', 'GoSnaps.Props.Tie.EndToEndSkip', 'GoSnaps.Props.Tie.Wrappers']
ORACLES = {'C07': [('matched-entries-kept', cw.o_matched_kept)],
           'C09': [('stale-reported-and-removed-only-in-clean-mode', cw.o_stale_reported)],
           'C10': [('rewrite-preserves-sorted-idempotent', cw.o_rewrite_preserves)]}['C07']


def known(w, p):
    if p['kind'] == 'expect' and 'unrec' in w.flags:
        return 'D11'
    return None


def migrated_worlds():
    """a test migrated from MatchStandaloneSnapshot to MatchStandaloneJSON: the old `<N>_1.snap` (holding JSON text) is
    still there, `<N>_1.snap.json` does not exist yet.  The call addresses the `.snap.json` location - it records there
    (or fails where creation is not allowed) - and what Clean then keeps is the file the run addressed"""
    from core import World, hx, Line, parse_fs
    from gen import mode_line, cfg_line
    import suites
    worlds = []
    for k, (ci, upd) in enumerate([(False, ''), (False, 'clean'), (True, ''), (False, 'true')]):
        w = World('c07-migrated-%d' % k)
        w.add(mode_line(ci, upd))
        w.add(cfg_line(1, 'snaps'))
        w.add('fsput %s %s' % (hx('snaps/TestMig_1.snap'), hx(b'{\n "a": 1\n}')))
        w.add('begin 1 %s' % hx(b'TestMig'))
        if ci:
            w.add('sajson 1 1 s %s' % hx(b'{"a":1}'), ('missing-json-location-fails', suites.exp_one_error_no_write))
        else:
            def added(line, raw, ww):
                names = [p_.rsplit(b'/', 1)[-1] for p_ in line.writes if not p_.endswith(b'/')]
                if [k_ for k_, _ in line.events] != ['L'] or names != [b'TestMig_1.snap.json']:
                    return 'the call addresses TestMig_1.snap.json, which does not exist: it is recorded there; got events %r writes %r' % ([(k_, v[:30]) for k_, v in line.events], names)
                return None
            w.add('sajson 1 1 s %s' % hx(b'{"a":1}'), ('json-location-recorded', added))
        w.add('end 1')
        w.add('clean - - 1')

        def kept(line, raw, ww, ci=ci, upd=upd):
            fs = parse_fs(raw)
            names = sorted(p_.rsplit(b'/', 1)[-1] for p_ in fs)
            if not ci and b'TestMig_1.snap.json' not in names:
                return 'the file the run addressed (TestMig_1.snap.json) is gone after Clean: %r' % names
            return None
        w.add('fsdump', ('addressed-file-kept', kept))
        worlds.append(w)
    return worlds


def run(ctx):
    g = Gen(ctx.seed * 1000003 + int('C07'[1:]))
    n = 150 if ctx.tier == 'quick' else 4000
    worlds = []
    for i in range(n):
        allow = ('many',) if g.r.random() < 0.15 else (('big',) if g.r.random() < 0.08 else ())
        if ctx.tier != 'quick' and 'big' in allow and g.r.random() < 0.2:
            allow += ('huge',)
        if g.r.random() < 0.15:
            allow += ('ends',)
        spec = cw.make_spec(g, allow)
        worlds.append(cw.render('c07-%d' % i, spec, ORACLES))
    for k, (mode, srt) in enumerate([((False, ''), '-'), ((False, 'clean'), '0'), ((False, ''), '1')]):
        worlds.append(cw.render('c07-big-%d' % k, cw.big_clean_spec(g, mode, srt), ORACLES))
    for k, (mode, srt) in enumerate([((False, ''), '1'), ((False, 'clean'), '0')]):
        worlds.append(cw.render('c07-bigml-%d' % k, cw.big_clean_spec(g, mode, srt, lines=12), ORACLES))
    worlds += [cw.render('c07-tie-%d' % k, sp, ORACLES) for k, sp in enumerate(cw.tie_specs())]
    worlds += [cw.render('c07-eol-%d' % k, sp, ORACLES) for k, sp in enumerate(cw.eol_specs())]
    worlds += cw.junk_worlds('c07')
    worlds += cw.extra_worlds('c07', g, ctx.tier, ORACLES)
    run_suite(ctx, 'clean.C07', worlds, known=known, chunk=200)
    run_suite(ctx, 'clean.symlinked-dir', cw.symlink_worlds('c07'), known=known, use_model=False)
    run_suite(ctx, 'clean.migrated-standalone', migrated_worlds(), known=known)
    findings.report(ctx, 'C07')
