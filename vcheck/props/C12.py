"""C12 - Config values are immutable; calls through them are order-independent."""
import itertools
import core, findings
from core import World, hx, Line, parse_fs
from gen import Gen, mode_line, cfg_line
from suites import run_suite

LEAN_MODULES = ['GoSnaps.Props.C12', 'GoSnaps.Props.Tie.Wrappers', 'GoSnaps.Props.Tie.Flows', 'GoSnaps.Props.Tie.Pipeline']
KINDS = ['snap', 'json', 'yaml', 'sasnap', 'sajson']
OPTS = [(None, None), ('custom', None), (None, '.txt'), ('custom', '.yaml'), ('api.v1.users', None)]


def call(kind, cfg, texec, i):
    if kind == 'snap':
        return 'snap %d %d %s' % (cfg, texec, hx(b'value %d' % i))
    if kind == 'sasnap':
        return 'sasnap %d %d %s' % (cfg, texec, hx(b'standalone %d' % i))
    if kind == 'yaml':
        return 'yaml %d %d s %s' % (cfg, texec, hx(b'k: %d\n' % i))
    return '%s %d %d s %s' % (kind, cfg, texec, hx(b'{"k":%d,"arr":[1,2,3],"a":true}' % i))


def make_world(tag, seq, opt):
    fn, ext = opt
    w = World(tag)
    w.add(mode_line(False, ''))
    # one Config for the whole sequence; in every second world it is an empty WithConfig() configured afterwards by
    # applying the options to it - the caller's own Config, not the package defaults
    w.add(cfg_line(1, 'shared', fn, ext, apply=(len(tag) % 2 == 0)))
    w.add('begin 1 %s' % hx(b'TestCfg'))
    w.add('begin 2 %s' % hx(b'TestCfg'))
    # a third Config with its own JSON format options, used first: it must not influence the others
    w.add('cfg 3 %s - - none %s' % (hx('wide'), ['80:%s:0' % hx('    '), '80:-:0', '120:-:1'][len(seq) % 3]))
    # a fourth Config built from the SAME JSON option value followed by an overriding one: building it
    # must not change the third Config (WithConfig results are independent of each other)
    spec3 = ['80:%s:0' % hx('    '), '80:-:0', '120:-:1'][len(seq) % 3]
    spec4 = ['20:%s:1' % hx('\t'), '200:%s:1' % hx('  '), '10:%s:0' % hx('   ')][len(seq) % 3]
    w.add('cfg 5 %s - - none %s' % (hx('wide5'), spec3))
    w.add('begin 3 %s' % hx(b'TestWide'))
    w.add('sajson 5 3 s %s' % hx(b'{"keys":[1,2,3],"b":{"z":1,"a":2}}'))     # before the fourth Config exists
    w.add('cfg 4 %s - - none %s+%s' % (hx('wide4'), spec3, spec4))
    w.add('json 3 3 s %s' % hx(b'{"keys":[1,2,3],"b":{"z":1,"a":2}}'))
    w.add('sajson 3 3 s %s' % hx(b'{"keys":[1,2,3],"b":{"z":1,"a":2}}'))
    w.add('json 4 3 s %s' % hx(b'{"keys":[1,2,3],"b":{"z":1,"a":2}}'))
    w.add('json 3 3 s %s' % hx(b'{"keys":[4,5,6],"b":{"y":1,"a":2}}'))
    pairs = []
    for i, kind in enumerate(seq):
        a = w.add(call(kind, 1, 1, i))
        w.add(cfg_line(2, 'fresh', fn, ext))       # a fresh Config with the same options before every call
        b = w.add(call(kind, 2, 2, i))
        pairs.append((a, b, kind))

    # a second execution of the same test (-count=2) through the same two Configs: the first calls present CHANGED
    # values (a mismatch: one failure, nothing written), then further calls record NEW snapshots - what a call does
    # must not depend on how an earlier call through the same Config ended
    if len(seq) % 2 == 0 or len(seq) > 3:
        w.add('end 1')
        w.add('end 2')
        w.add('begin 1 %s' % hx(b'TestCfg'))
        w.add('begin 2 %s' % hx(b'TestCfg'))
        seq2 = list(seq) + list(seq)[:2]
        for i, kind in enumerate(seq2):
            v = 1000 + i if i < 1 + len(seq) // 2 else i      # changed for the first calls, then as recorded / new
            a = w.add(call(kind, 1, 1, v))
            w.add(cfg_line(2, 'fresh', fn, ext))
            b = w.add(call(kind, 2, 2, v))
            pairs.append((a, b, kind))

    # "A;B on one Config compared with B alone": the calls of each entry point once more, WITHOUT the other
    # entry points, through a Config with the same options in a directory of its own.  (With Ext set the
    # two standalone variants share one location pattern <name>_%d.snap<Ext>, hence one ordinal sequence:
    # they are kept together.)
    groups = [[k] for k in KINDS if k in seq] if ext is None else \
             [[k] for k in ('snap', 'json', 'yaml') if k in seq] + ([[k for k in ('sasnap', 'sajson') if k in seq]] if set(seq) & {'sasnap', 'sajson'} else [])
    alone = []
    if len(set(seq)) > 1:
        for gi, grp in enumerate(groups):
            d = 'only_' + '_'.join(grp)
            w.add(cfg_line(10 + gi, d, fn, ext))
            w.add('begin %d %s' % (10 + gi, hx(b'TestCfg')))
            for i, kind in enumerate(seq):
                if kind in grp:
                    alone.append((pairs[i][0], w.add(call(kind, 10 + gi, 10 + gi, i)), kind, d.encode()))
            w.add('end %d' % (10 + gi))

    def oracle(line, raw, ww):
        for a, b, kind, d in alone:
            la, lb = Line(ww.impl[a]), Line(ww.impl[b])
            if [k for k, _ in la.events] != [k for k, _ in lb.events]:
                return '%s after calls of other entry points through the same Config behaved differently (%r) than the same call without them (%r)' % (
                    kind, [(k, v[:60]) for k, v in la.events[:1]], [(k, v[:60]) for k, v in lb.events[:1]])
            wa = [p.split(b'/shared/')[-1] for p in la.writes]
            wb = [p.split(b'/' + d + b'/')[-1] for p in lb.writes]
            if wa != wb:
                return '%s after calls of other entry points through the same Config wrote %r, the same call without them wrote %r' % (kind, wa, wb)
        for a, b, kind in pairs:
            la, lb = Line(ww.impl[a]), Line(ww.impl[b])
            if [k for k, _ in la.events] != [k for k, _ in lb.events]:
                return '%s through the shared Config behaved differently (%r) than through a fresh one (%r)' % (kind, la.events[:1], lb.events[:1])
            wa = [p.split(b'/shared/')[-1] for p in la.writes]
            wb = [p.split(b'/fresh/')[-1] for p in lb.writes]
            if wa != wb:
                return '%s through the shared Config wrote %r, through a fresh Config %r' % (kind, wa, wb)
        fs = parse_fs(raw)
        # Configs built without JSON options use the package defaults (sorted keys, one-space indent,
        # every array element on its own line) whatever other Configs were used before
        import json as _json
        for p, c in fs.items():
            if b'/fresh/' in p or b'/shared/' in p:
                for k in range(len(seq)):
                    want = _json.dumps({'k': k, 'arr': [1, 2, 3], 'a': True}, indent=1, sort_keys=True).encode()
                    flat = _json.dumps({'k': k, 'arr': [1, 2, 3], 'a': True}, sort_keys=True).encode()
                    if (b'"k": %d' % k) in c and b'"arr"' in c and want not in c and p.endswith((b'.snap', b'.json', b'.txt', b'.yaml')):
                        if b'k: %d' % k not in c or True:
                            # locate the JSON entry text for this k
                            if b'"arr": [1' in c or b'"arr": [ 1' in c:
                                return 'a Config without JSON options stored a JSON document in a non-default layout (%r ...): options of another Config leaked into the defaults' % c[c.find(b'"arr"'):c.find(b'"arr"') + 30]
        w3 = [c for p, c in fs.items() if b'/wide/' in p and p.endswith(b'.snap.json')]
        w5 = [c for p, c in fs.items() if b'/wide5/' in p and p.endswith(b'.snap.json')]
        if w3 and w5 and w3[0] != w5[0]:
            return 'two Configs built with the same JSON option stored the same document differently (%r / %r): building another Config from the same option value changed an existing one' % (w5[0][:60], w3[0][:60])
        sa = {p.split(b'/shared/')[-1]: c for p, c in fs.items() if b'/shared/' in p}
        sb = {p.split(b'/fresh/')[-1]: c for p, c in fs.items() if b'/fresh/' in p}
        if sa != sb:
            return 'directory written through the shared Config differs from the one written through fresh Configs: %r' % sorted(set(sa) ^ set(sb))
        return None
    w.add('fsdump', ('shared-config-equals-fresh-config', oracle))
    return w


EVIDENCE = dict(rule='all 25 ordered pairs and all 125 ordered triples of the five entry points x 4 option sets, plus random sequences up to length 8; each sequence is executed through one shared Config and through a fresh Config per call and the two traces are compared; non-trivial = sequences producing at least one write')


def field_worlds():
    """white-box: the fields of a Config (cfgfields) before and after every call made through it - with a relative, the
    default and the empty snapshot directory, in an ordinary build (CI environment: nothing is written next to the
    harness) and in the library's -trimpath mode (relative directories are relative to the working directory, which
    the test changes half way)"""
    worlds = []
    n = 0
    for trim, ci in ((0, True), (1, True), (1, False)):
        for d, fn, ext in itertools.product(['-', '=', hx('rel/dir'), hx('./a/../b')], ['-', hx('custom')], ['-', hx('.txt')]):
            n += 1
            w = World('c12f-%d' % n)
            w.add(mode_line(ci, ''))
            if trim:
                w.add('trimpath 1')
            w.add('cfgrel 1 %s %s %s' % (d, fn, ext))
            ref = w.add('cfgfields 1')

            def same(line, raw, ww, ref=ref):
                if raw != ww.impl[ref]:
                    return 'the Config changed: %s, it was built as %s' % (raw, ww.impl[ref])
                return None
            w.add('begin 1 %s' % hx(b'TestFields'))
            for i, kind in enumerate(KINDS + KINDS[:2]):
                if trim and i == len(KINDS):
                    w.add('chdir %s' % hx('elsewhere'))
                w.add(call(kind, 1, 1, i))
                w.add('cfgfields 1', ('config-fields-unchanged', same))
            w.add('end 1')
            worlds.append(w)
    # Configs that carry JSON format options (some fields left at their zero value: no indentation, width 0)
    for jo in ('0:-:1', '80:-:0', '0:%s:0' % hx('  '), '120:-:1+0:-:0'):
        for fn in (None, 'custom'):
            n += 1
            w = World('c12f-%d' % n)
            w.add(mode_line(False, ''))
            w.add(cfg_line(1, 'jsonopts', fn, None, 'none', jo))
            w.add(cfg_line(2, 'jsonopts2', fn, None, 'none', jo))       # built from the SAME option value
            ref = {c: w.add('cfgfields %d' % c) for c in (1, 2)}
            w.add('begin 1 %s' % hx(b'TestFields'))
            for i, kind in enumerate(['sajson', 'json', 'sasnap', 'sajson', 'yaml', 'json']):
                w.add(call(kind, 1, 1, i))
                for c in (1, 2):
                    def same(line, raw, ww, r_=ref[c], c=c):
                        if raw != ww.impl[r_]:
                            return 'Config %d changed: %s, it was built as %s' % (c, raw, ww.impl[r_])
                        return None
                    w.add('cfgfields %d' % c, ('config-fields-unchanged', same))
            w.add('end 1')
            worlds.append(w)
    return worlds


def run(ctx):
    run_suite(ctx, 'config.fields', [w for w in field_worlds() if getattr(ctx, 'hooks', {}).get('trimpath', True) or 'trimpath 1' not in w.ops], known=None, use_model=False)
    worlds = []
    n = 0
    for opt in OPTS:
        for seq in list(itertools.product(KINDS, repeat=2)) + list(itertools.product(KINDS, repeat=3)):
            n += 1
            worlds.append(make_world('c12-%d' % n, seq, opt))
    g = Gen(ctx.seed * 1000003 + 12)
    for i in range(100 if ctx.tier == 'quick' else 3000):
        seq = [g.r.choice(KINDS) for _ in range(g.r.randint(4, 8))]
        worlds.append(make_world('c12r-%d' % i, seq, g.r.choice(OPTS)))
    run_suite(ctx, 'match.shared-config', worlds, known=None, chunk=400)
    core.race_stress(ctx, 3 if ctx.tier == 'quick' else 25)
    findings.report(ctx, 'C12')
