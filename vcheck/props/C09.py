"""C09 - Clean family check (see cleanworlds.py for the world builder and the oracles)."""
import core, findings, cleanworlds as cw
from gen import Gen
from suites import run_suite

LEAN_MODULES = ['GoSnaps.Props.C09', 'GoSnaps.Props.C05Clean', 'GoSnaps.Props.Tie.TestID', 'GoSnaps.Props.Tie.CleanIO', 'GoSnaps.Props.Tie.CleanTopIO1', 'GoSnaps.Props.Tie.CleanTopIO2', 'GoSnaps.Props.Tie.CleanTopIO3', 'GoSnaps.Props.Tie.CleanTopIO', 'GoSnaps.Props.Tie.EndToEndClean', 'GoSnaps.Props.Tie.EndToEndClean2', 'GoSnaps.Props.Tie.EndToEndSkip', 'GoSnaps.Props.Tie.Wrappers']
ORACLES = {'C07': [('matched-entries-kept', cw.o_matched_kept)],
           'C09': [('stale-reported-and-removed-only-in-clean-mode', cw.o_stale_reported),
                   ('only-obsolete-entries-are-removed', cw.o_matched_kept)],
           'C10': [('rewrite-preserves-sorted-idempotent', cw.o_rewrite_preserves)]}['C09']


def known(w, p):
    if p['kind'] == 'expect' and 'unrec' in w.flags:
        return 'D11'
    return None


def run(ctx):
    g = Gen(ctx.seed * 1000003 + int('C09'[1:]))
    n = 150 if ctx.tier == 'quick' else 4000
    worlds = []
    for i in range(n):
        allow = ('many',) if g.r.random() < 0.15 else (('big',) if g.r.random() < 0.08 else ())
        if ctx.tier != 'quick' and 'big' in allow and g.r.random() < 0.2:
            allow += ('huge',)
        if g.r.random() < 0.15:
            allow += ('ends',)
        spec = cw.make_spec(g, allow)
        worlds.append(cw.render('c09-%d' % i, spec, ORACLES))
    for k, (mode, srt) in enumerate([((False, ''), '-'), ((False, 'clean'), '0'), ((False, ''), '1')]):
        worlds.append(cw.render('c09-big-%d' % k, cw.big_clean_spec(g, mode, srt), ORACLES))
    worlds += [cw.render('c09-tie-%d' % k, sp, ORACLES) for k, sp in enumerate(cw.tie_specs())]
    worlds += [cw.render('c09-eol-%d' % k, sp, ORACLES) for k, sp in enumerate(cw.eol_specs())]
    worlds += cw.junk_worlds('c09')
    worlds += cw.extra_worlds('c09', g, ctx.tier, ORACLES)
    run_suite(ctx, 'clean.C09', worlds, known=known, chunk=200)
    # the snapshot directory reached through a symbolic link: the files matched through it are addressed, the stale one next
    # to them is reported (implementation only: the model has no links)
    run_suite(ctx, 'clean.symlinked-dir', cw.symlink_worlds('c09'), known=known, use_model=False)
    findings.report(ctx, 'C09')
