"""C18 - YAML snapshots keep the document verbatim."""
import core, findings, docs
from core import World, hx, Line, parse_fs
from gen import Gen, mode_line, cfg_line
from suites import run_suite, parse_snap, esc, exp_silent
from suites import exp_one_error_no_write as suites_exp_one_error

LEAN_MODULES = ['GoSnaps.Props.C18', 'GoSnaps.Props.Tie.Escape', 'GoSnaps.Props.Tie.Snapshot', 'GoSnaps.Props.Tie.SnapshotIO', 'GoSnaps.Props.Tie.Flows', 'GoSnaps.Props.Tie.Pipeline', 'GoSnaps.Props.Tie.Wrappers']

SPECIAL = [
    'a: 1\n---\nb: 2\n',                                   # multi-document stream
    '# leading comment\nkey: value # trailing\n\n\n',        # comments, trailing blank lines
    'text: |\n  block\n  ---\n  more\nafter: 1',            # block scalar containing an indented ---
    'z: 1\ny: 2\na: 3\n',                                   # key order
    'list:\n  - [TestNope - 1]\n  - x\n',                   # flow sequence that looks like a header (indented)
    '[TestNope - 1]\n',                                      # ... and one at column 0
    'a: 1',                                                  # no final newline
    '---\na: 1\n',                                           # leading document marker
    'k: "quoted # not a comment"\n',
    'anchors: &x 1\nref: *x\n',
    '/-/-/-/\n',                                              # the escape token as a scalar document
    'a: 1\n---\n/-/-/-/\n---\nb: 2\n',
    'body: |\n  a\n  ---\n  b\n   --- \n',                    # indented / padded terminator-like lines
    '', '\n', '\n\n', '  \n',                                 # blank streams: valid, and stored like any other document
    '# only a comment\n', 'null\n', '~\n', '---\n# a marker and a comment\n', '# c1\n\n# c2\n',   # valid documents without a content node
    'cert: ' + 'QUJD' * 17000 + '\nafter: 1\n',               # one line of 68 KB (a base64 blob): beyond bufio's default token limit
]
# new documents for the update path
UPDATED = [
    'DATA_DIR: ${HOME}/data\nprice: $10 per unit\n',      # $name, ${name}, $1: templates for regexp.Expand
    'a: $1\n---\nb: $PATH\n',
    'cmd: echo $$ ${\n',
    'k: "$name"\nj: \'${0}\'\n',
    'pct: 100%\nfmt: "%s %d %v"\n',
    'a: 1\n---\n---\nb: 2\n',
    '---\nonly: marker\n',
    'text: |\n  $HOME\n  ---\n  ${x}\nend: 1',
    'shorter: 1',
    '# only a comment changed $1\nz: 1\n\n',
    'back: \\1 \\0 $&\n',
]
BAD = ['a: [1, 2', 'a: b: c: d', '\t- x\n\t\ty', 'key: "unterminated', '{a: 1', 'a:\n  - b\n c',
       # well-formed syntax that cannot be decoded: undefined aliases (also in a later document), a scalar violating its tag
       'settings: *bsae\n', 'a: &x 1\nb: *y\n', '- *second\n', 'ok: 1\n---\nlater: *nowhere\n', 'enabled: !!bool maybe\n']


def make_world(g, tag):
    r = g.r
    w = World(tag)
    w.add(mode_line(False, ''))
    w.add(cfg_line(1, 'snaps', 'f', None, 'none'))
    docs_ = [r.choice(SPECIAL) if r.random() < 0.5 else g.yaml_text() for _ in range(r.randint(1, 4))]
    calls = []
    for i, d in enumerate(docs_, 1):
        w.add('begin %d %s' % (i, hx(b'TestY%d' % i)))
        calls.append((w.add('yaml 1 %d %s %s' % (i, r.choice(['s', 'b']), hx(d))), d, i))
        w.add('end %d' % i)
    # a Go value, marshalled three times
    vdoc = '{"b": [1, 2, {"k": "v"}], "a": {"z": true, "y": null}, "name": "n", "m": {"e": 1, "d": 2, "c": 3, "f": 4, "g": 5}}'
    vidx = []
    nested = []
    for j in range(3):
        t = 50 + j
        w.add('begin %d %s' % (t, hx(b'TestV%d' % j)))
        ms = ''
        if r.random() < 0.5:
            # a user-defined matcher of this call records a snapshot of ANOTHER Go value while the call is
            # between marshalling and storing (a helper asserting on another object; the sequential image of
            # two parallel MatchYAML calls): each call must store its own document
            nv = r.choice(['{"nested": %d}' % j, '{"nested": %d, "pad": "%s"}' % (j, 'p' * r.randint(0, 200)),
                           '[%d, "nested"]' % j, '{"name": "other", "b": [3, 2, 1], "z": {"q": %d}}' % j])
            w.add('begin %d %s' % (150 + j, hx(b'TestNestedV%d' % j)))
            nested.append((w.add('nest yaml 1 %d v %s' % (150 + j, hx(nv))), j, nv))
            ms = ' ' + docs.user_matcher(r.random() < 0.5, r.random() < 0.3, True)
        vidx.append(w.add('yaml 1 %d v %s%s' % (t, hx(vdoc), ms)))
        if ms:
            w.add('end %d' % (150 + j))
        w.add('end %d' % t)
    # a Go value that has a String method (a logging helper, a generated stringer): still a Go value - marshalled
    w.add('begin 60 %s' % hx(b'TestStringer'))
    w.add('yaml 1 60 vstringer %s' % hx(b'billing'))
    w.add('end 60')
    before = w.add('fsdump')
    w.add('begin 90 %s' % hx(b'TestBad'))

    def exp_bad(line, raw, ww):
        if [k for k, _ in line.events] != ['E'] or line.writes:
            return 'invalid YAML must fail the test and write nothing, got %r' % [(k, x[:40]) for k, x in line.events]
        return None
    w.add('yaml 1 90 s %s' % hx(r.choice(BAD)), ('invalid-yaml-fails', exp_bad))
    w.add('end 90')

    def oracle(line, raw, ww, after_sort=False):
        fs = parse_fs(raw)
        if not after_sort and fs != parse_fs(ww.impl[before]):
            return 'invalid YAML changed the directory'
        p = [x for x in fs if x.endswith(b'/f.snap')]
        ents = dict(parse_snap(fs[p[0]]) or []) if p else {}
        for i, d, n in calls:
            res = Line(ww.impl[i])
            if [k for k, _ in res.events] != ['L']:
                continue            # the library rejected the document: nothing to check
            got = ents.get(b'TestY%d - 1' % n)
            if got != esc(d.encode()):
                return 'stored YAML differs from the input (only whole `---` lines may be escaped): %r vs %r' % (got[:80] if got else None, d[:80])
        sv = ents.get(b'TestStringer - 1')
        if sv is None or b'name: billing' not in sv or b'hosts:' not in sv:
            return 'a Go value with a String method is not stored as its marshalled document: %r' % (sv[:80] if sv else None)
        vs = [ents.get(b'TestV%d - 1' % j) for j in range(3)]
        if len(set(vs)) != 1 or vs[0] is None:
            return 'the same Go value was marshalled to different YAML texts'
        for _, j, nv in nested:
            body = ents.get(b'TestNestedV%d - 1' % j)
            if body is None or body == vs[0] or (b'nested' not in body and b'other' not in body):
                return 'the Go value recorded from inside a matcher of another MatchYAML call was not stored as itself: %r' % (body[:80] if body else None)
        return None
    w.add('fsdump', ('yaml-verbatim', oracle))
    # the end-of-run housekeeping a TestMain does: every entry was addressed, so nothing is stale, but the file is
    # not in natural order (TestY.. were recorded before TestV..) and Clean rewrites it; the documents (flow
    # sequences looking like headers, `---` inside block scalars, ...) must come out of the rewrite verbatim
    if r.random() < 0.5:
        w.add('clean 1 - 1')
        w.add('fsdump', ('yaml-verbatim-after-sort', lambda line, raw, ww: oracle(line, raw, ww, True)))
    # replay in a read-only mode
    w.add('reset')
    w.add(mode_line(True, ''))
    for i, d, n in calls:
        t = 100 + n
        w.add('begin %d %s' % (t, hx(b'TestY%d' % n)))

        def exp(line, raw, ww, i=i):
            if [k for k, _ in Line(ww.impl[i]).events] != ['L']:
                return None
            return exp_silent(line, raw, ww)
        w.add('yaml 1 %d s %s' % (t, hx(d)), ('yaml-replays', exp))
        w.add('end %d' % t)
        # ... and the same document with its final newline added / removed is another text: reported
        d3 = d[:-1] if d.endswith('\n') else d + '\n'
        w.add('begin %d %s' % (t + 400, hx(b'TestY%d' % n)))

        def exp3(line, raw, ww, i=i):
            if [k for k, _ in Line(ww.impl[i]).events] != ['L']:
                return None
            return suites_exp_one_error(line, raw, ww)
        w.add('yaml 1 %d s %s' % (t + 400, hx(d3)), ('final-newline-is-compared', exp3))
        w.add('end %d' % (t + 400))
        # a third and a fourth execution of the test in the same process (go test -count=4) replay like the first
        for extra in (800, 1200):
            w.add('begin %d %s' % (t + extra, hx(b'TestY%d' % n)))
            w.add('yaml 1 %d s %s' % (t + extra, hx(d)), ('yaml-replays-in-later-executions', exp))
            w.add('end %d' % (t + extra))
    # the UPDATE path: the same calls with different documents while updating is enabled.  The new
    # document is stored exactly as given too (text that is a template for regexp.Expand, `%` verbs,
    # multi-document streams), every other entry keeps its text, and a read-only run replays it
    before_upd = w.add('fsdump')
    w.add('reset')
    w.add(mode_line(False, r.choice(['true', 'true', '']) ))
    w.add(cfg_line(1, 'snaps', 'f', None, 'true'))
    ups = []
    for i, d, n in calls:
        t = 200 + n
        d2 = r.choice(UPDATED) if r.random() < 0.7 else 'zz_first: $1 ${x}\n' + d
        if d2 == d:
            d2 = 'changed: ${really}\n' + d2
        w.add('begin %d %s' % (t, hx(b'TestY%d' % n)))
        ups.append((w.add('yaml 1 %d %s %s' % (t, r.choice(['s', 'b']), hx(d2))), d2, n, i))
        w.add('end %d' % t)

    def oracle_upd(line, raw, ww):
        fs, fs0 = parse_fs(raw), parse_fs(ww.impl[before_upd])
        p = [x for x in fs if x.endswith(b'/f.snap')]
        if not p:
            return None
        ents, ents0 = parse_snap(fs[p[0]]), parse_snap(fs0.get(p[0], b''))
        if ents is None or ents0 is None:
            return 'snapshot file is not well formed after the update run'
        if [e[0] for e in ents] != [e[0] for e in ents0]:
            return 'the update run changed the set or order of entries'
        new = dict(ents0)
        for j, d2, n, i in ups:
            res = Line(ww.impl[j])
            kinds = [k for k, _ in res.events]
            if [k for k, _ in Line(ww.impl[i]).events] != ['L']:
                continue            # the original was never recorded
            if kinds == ['E']:
                continue            # the library rejected the new document: nothing may change
            if kinds != ['L'] or not res.events[0][1].endswith(b'updated'):
                return 'a changed document in update mode must give exactly one `updated` log, got %r' % [(k, x[:40]) for k, x in res.events]
            new[b'TestY%d - 1' % n] = esc(d2.encode())
        for tid, body in ents:
            if body != new.get(tid):
                return 'after the update run entry [%s] holds %r, expected %r' % (tid.decode(), body[:80], (new.get(tid) or b'')[:80])
        return None
    w.add('fsdump', ('yaml-update-verbatim', oracle_upd))
    w.add('reset')
    w.add(mode_line(True, ''))
    w.add(cfg_line(1, 'snaps', 'f', None, 'none'))
    for j, d2, n, i in ups:
        t = 300 + n
        w.add('begin %d %s' % (t, hx(b'TestY%d' % n)))

        def exp2(line, raw, ww, j=j):
            r2 = Line(ww.impl[j])
            if [k for k, _ in r2.events] != ['L'] or not r2.events[0][1].endswith(b'updated'):
                return None
            return exp_silent(line, raw, ww)
        w.add('yaml 1 %d s %s' % (t, hx(d2)), ('updated-yaml-replays', exp2))
        w.add('end %d' % t)
    return w


def run(ctx):
    g = Gen(ctx.seed * 1000003 + 18)
    n = 200 if ctx.tier == 'quick' else 5000
    worlds = [make_world(g, 'c18-%d' % i) for i in range(n)]
    run_suite(ctx, 'yaml.verbatim', worlds, known=None, chunk=300)
    findings.report(ctx, 'C18')
