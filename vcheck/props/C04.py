"""C04 - update mode converges and rewrites only what differs."""
import core, suites, findings
from core import World, parse_fs, Line
from gen import Gen, mode_line
from suites import gen_history, emit_exec, exp_silent, exp_same_fs, run_suite, parse_snap, esc, snap_file_suffix, mutate_call

LEAN_MODULES = ['GoSnaps.Props.C04', 'GoSnaps.Props.C04World', 'GoSnaps.Props.Tie.Escape', 'GoSnaps.Props.Tie.SnapshotIO', 'GoSnaps.Props.Tie.Flows', 'GoSnaps.Props.Tie.EndToEnd']
UPD_MODES = [(False, 'true', 'none'), (False, '', 'true'), (False, 'other', 'true'), (False, 'clean', 'true')]


def make_spec(g, allow):
    r = g.r
    h = gen_history(g, allow + ('many',), max_tests=4, max_calls=6)
    changed = {}
    for ei, (name, calls) in enumerate(h.execs):
        for k, (cfgno, c) in enumerate(calls):
            if r.random() < 0.35:
                m, tag = mutate_call(g, c)
                if m is not None:
                    changed[(ei, k)] = m
    return dict(cfgs=h.cfgs, execs=h.execs, flags=set(h.flags), changed=changed, mode=r.choice(UPD_MODES), edit=suites.edit_choice(r, h.execs))


def render(tag, spec):
    w = World(tag)
    w.spec, w.render = spec, render
    w.flags |= spec['flags']
    w.add(mode_line(False, ''))
    for c in spec['cfgs']:
        w.add(c)
    texec = 0
    rec = {}
    for ei, (name, calls) in enumerate(spec['execs']):
        texec += 1
        rec[ei] = emit_exec(w, texec, name, calls)
    if spec.get('edit'):
        w.add('fsedit ' + spec['edit'])
    ps = suites.parse_snap_edited if spec.get('edit') else parse_snap
    ref = w.add('fsdump')
    ci, upd, cfgupd = spec['mode']
    w.add('reset')
    w.add(mode_line(ci, upd))
    if cfgupd != 'none':
        for c in spec['cfgs']:
            t = c.split()
            t[5] = cfgupd
            w.add(' '.join(t))
    # key the changed calls by identity of the original call objects so that shrinking keeps them aligned
    changed = {}
    for (ei, k), m in spec['changed'].items():
        if ei < len(spec['execs_orig'] if 'execs_orig' in spec else spec['execs']):
            changed[(ei, k)] = m
    newcalls = {}
    upd_idx = []
    for ei, (name, calls) in enumerate(spec['execs']):
        texec += 1
        w.add('begin %d %s' % (texec, core.hx(name)))
        for k, (cfgno, c) in enumerate(calls):
            m = spec['changed'].get(c.uid) if hasattr(c, 'uid') else None
            ri = rec[ei][k]
            if m is not None:
                def exp(line, raw, ww, ri=ri):
                    r0 = Line(ww.impl[ri])
                    if [k for k, _ in r0.events] != ['L']:
                        return None
                    if [k for k, _ in line.events] != ['L'] or not line.events[0][1].endswith(b'updated'):
                        return 'a changed value in update mode must give exactly one `updated` log, got %r' % [(k, v[:40]) for k, v in line.events]
                    if len(line.writes) != 1 or line.removed:
                        return 'exactly the addressed file must be written, got w=%r d=%r' % (line.writes, line.removed)
                    return None
                upd_idx.append(w.add(m.op(cfgno, texec), ('changed-entry-updated', exp)))
                newcalls[(ei, k)] = m
            else:
                def exp2(line, raw, ww, ri=ri):
                    r0 = Line(ww.impl[ri])
                    if [k for k, _ in r0.events] != ['L']:
                        return None
                    return exp_silent(line, raw, ww)
                w.add(c.op(cfgno, texec), ('unchanged-entry-not-written', exp2))
                newcalls[(ei, k)] = c
        w.add('end %d' % texec)

    def exp_entries(line, raw, ww):
        # every multi-entry file: same ids in the same order; bodies equal except at updated slots
        a, b = parse_fs(ww.impl[ref]), parse_fs(raw)
        if set(a) != set(b):
            return 'set of files changed: %r' % (set(a) ^ set(b))
        for p in a:
            if b'_%d' in p:
                continue
            if p.endswith((b'.snap', b'.snap.txt', b'.snap.yaml')) and not any(ch.isdigit() for ch in p.rsplit(b'/', 1)[1].split(b'.snap')[0][-2:].decode('latin1')):
                ea, eb = ps(a[p]), ps(b[p])
                if ea is None or eb is None:
                    return 'file %r is not well formed' % p
                if [x[0] for x in ea] != [x[0] for x in eb]:
                    return 'ids or their order changed in %r' % p
        return None
    after = w.add('fsdump', ('entries-in-place', exp_entries))
    # an immediately following read-only run passes completely and writes nothing
    w.add('reset')
    w.add(mode_line(True, ''))
    for ei, (name, calls) in enumerate(spec['execs']):
        texec += 1
        w.add('begin %d %s' % (texec, core.hx(name)))
        for k, (cfgno, c) in enumerate(calls):
            ri = rec[ei][k]

            def exp3(line, raw, ww, ri=ri):
                r0 = Line(ww.impl[ri])
                if [k for k, _ in r0.events] != ['L']:
                    return None
                return exp_silent(line, raw, ww)
            w.add(newcalls[(ei, k)].op(cfgno, texec), ('readonly-run-after-update-passes', exp3))
        w.add('end %d' % texec)
    w.add('fsdump', ('directory-unchanged-by-readonly-run', exp_same_fs(after)))
    return w


def known(w, p):
    if p['kind'] != 'expect':
        return None
    if 'shadow' in w.flags:
        return 'D9'
    if 'cr' in w.flags:
        return 'SKIP:carriage return at end of line (documented limitation)'
    return None


def run(ctx):
    g = Gen(ctx.seed * 1000003 + 4)
    n = 150 if ctx.tier == 'quick' else 4000
    worlds = []
    for i in range(n):
        spec = make_spec(g, ('shadow',) if g.r.random() < 0.06 else (('big',) if g.r.random() < 0.05 else ()))
        # give every call an identity that survives structural shrinking
        ch = {}
        for ei, (name, calls) in enumerate(spec['execs']):
            for k, (cfgno, c) in enumerate(calls):
                c.uid = (ei, k)
        spec['changed'] = {key: m for key, m in spec['changed'].items()}
        worlds.append(render('c04-%d' % i, spec))
    run_suite(ctx, 'match.update', worlds, known=known, chunk=200)
    findings.report(ctx, 'C04')
